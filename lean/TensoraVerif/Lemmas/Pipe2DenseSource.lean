import TensoraVerif.Lemmas.Pipe2DenseValue

/-!
C01, full pipeline for the dense matrix–vector class, part 4: the class `Dense2Source` of source
assignments, the naming side conditions `Dense2Names`, and the hypotheses of the kernel theorem of
`Dense2` derived from them.
-/
namespace TV.Pipe2
open TV.IR TV.Alg TV.Graph TV.Gen TV.Pipe1
open TV.Dense1 (leaves valueF)

/-- **The class of source assignments** `out(i) = rhs` with one contraction index `j ≠ i`:
* `shape`: `rhs` is built from `add`/`sub`/`mul`, NONZERO integer/float literals and references
  `B(i,j)` (`B ↦ dd`), `c(j)`, `d(i)` (`c, d ↦ d`) to tensors other than the target, and the loops of the
  first candidate come out as `i` outside `j` (`shapeS … = IJ` or `J`: no `J`-shaped operand — one that
  mentions `j` only, such as `c(j)` or `c(j) * e(j)` — is followed by an `I`-shaped one such as `d(i)`;
  `B(i,j) * c(j) * d(i)`, `d(i) * (B(i,j) * c(j))`, `c(j) * B(i,j)` are in, `c(j) * d(i)` is out: its first
  candidate has `j` outside `i`);
* `everyJ`: EVERY additive term of `rhs` contains `j` (otherwise `desugar` leaves an `add` node above
  the contraction and `graphsOf` builds `.sum` graphs);
* `safe`: the known-defect signature of `desugar` (finding F12) is absent — automatic for products of
  leaves, needed for the meaning theorem only;
* the target has the format `d`. -/
structure Dense2Source (a : Assign) (formats : Formats) (i j : String) : Prop where
  tidx : a.tidx = [i]
  ij : i ≠ j
  shape : shapeS i j a.tname formats a.rhs = some .IJ ∨ shapeS i j a.tname formats a.rhs = some .J
  everyJ : (inEveryTerm a.rhs).contains j = true
  safe : productHoistUnsafe [i] a.rhs = false
  out : isD formats a.tname = true

/-- **Side conditions of the machine theorem on the format table**: every level of every entry is
dense; no tensor name and neither index name contains `'_'`; the indexes are not tensor names. -/
structure Dense2Names (formats : Formats) (i j : String) : Prop where
  fmts : Dense2.denseFormats formats = true
  names : ∀ f ∈ formats, '_' ∉ f.1.toList
  idxI : '_' ∉ i.toList
  idxJ : '_' ∉ j.toList
  idxTensorI : i ∉ formats.map (·.1)
  idxTensorJ : j ∉ formats.map (·.1)

/-- the terminal expression of the kernel: the image of the right-hand side under the identifier
assignment of the pipeline (tensors numbered left to right from 1, `l - r` as `l + (-1) * r`) -/
def rhsId2 (a : Assign) : IdExpr := toId2 (plainE a.rhs 1).1

/-- the tensor and the dimension the kernel reads `j_dim` from: the first reference, left to right,
that mentions `j` (`(B, 1)` for `B(i,j)`, `(c, 0)` for `c(j)`) -/
def jDimOf (a : Assign) (i j : String) : String × Nat := (jDim i j (plainE a.rhs 1).1).getD ("", 0)

theorem shapeD_strip (i j tname : String) (formats : Formats) (d : DExpr) :
    shapeD i j tname formats (strip d) = shapeD i j tname formats d := by
  induction d with
  | int v => rfl
  | flt v => rfl
  | tensor id name idx => rfl
  | add l r ihl ihr => simp only [strip, shapeD, ihl, ihr]
  | mul l r ihl ihr => simp only [strip, shapeD, ihl, ihr]
  | contract k e ih => simpa only [strip, shapeD] using ih

theorem jDim_strip (i j : String) (d : DExpr) : jDim i j (strip d) = jDim i j d := by
  induction d with
  | int v => rfl
  | flt v => rfl
  | tensor id name idx => rfl
  | add l r ihl ihr => simp only [strip, jDim, ihl, ihr]
  | mul l r ihl ihr => simp only [strip, jDim, ihl, ihr]
  | contract k e ih => simpa only [strip, jDim] using ih

section
variable {a : Assign} {formats : Formats} {i j : String} (hc : Dense2Source a formats i j)
include hc

theorem Dense2Source.sh : ∃ s, shapeS i j a.tname formats a.rhs = some s ∧ (s = .IJ ∨ s = .J) :=
  hc.shape.elim (fun h => ⟨_, h, Or.inl rfl⟩) (fun h => ⟨_, h, Or.inr rfl⟩)

/-- `desugar` on the class: the single contraction index `j` is pending at the root -/
theorem Dense2Source.desugar : desugar a = ⟨a.tname, [i], (desugarE a.rhs [j] 1).1⟩ := by
  obtain ⟨s, hs, _⟩ := hc.sh
  exact desugar_eq2 a i j formats hc.ij hc.tidx s hs hc.everyJ

omit hc in
theorem Dense2Source.strip : strip (desugarE a.rhs [j] 1).1 = (plainE a.rhs 1).1 :=
  (desugarE_strip a.rhs [j] 1).1

theorem Dense2Source.oneC : oneC j (desugarE a.rhs [j] 1).1 = true :=
  desugarE_oneC j a.rhs hc.everyJ 1

theorem Dense2Source.shapeP : ∃ s, shapeD i j a.tname formats (plainE a.rhs 1).1 = some s ∧
    (s = .IJ ∨ s = .J) := by
  obtain ⟨s, hs, h⟩ := hc.sh
  exact ⟨s, by rw [shapeD_plainE]; exact hs, h⟩

theorem Dense2Source.shapeDes : ∃ s, shapeD i j a.tname formats (desugarE a.rhs [j] 1).1 = some s ∧
    (s = .IJ ∨ s = .J) := by
  obtain ⟨s, hs, h⟩ := hc.shapeP
  exact ⟨s, by rw [← shapeD_strip, Dense2Source.strip]; exact hs, h⟩

theorem Dense2Source.jDim_eq : jDim i j (plainE a.rhs 1).1 = some (jDimOf a i j) ∧
    (jDimOf a i j).1 ∈ formats.map (·.1) ∧ (jDimOf a i j).2 < 2 := by
  obtain ⟨s, hs, h⟩ := hc.shapeP
  obtain ⟨h1, h2⟩ := jDim_some i j a.tname formats _ s hs
  have h1' := h1 h
  unfold jDimOf
  cases hj : jDim i j (plainE a.rhs 1).1 with
  | none => rw [hj] at h1'; cases h1'
  | some p => exact ⟨rfl, h2 p hj⟩

/-- the dimension variables of the desugared assignment -/
theorem Dense2Source.indexDimensions :
    indexDimensions (Alg.desugar a) = [(i, a.tname, 0), (j, (jDimOf a i j).1, (jDimOf a i j).2)] := by
  obtain ⟨s, hs, _⟩ := hc.shapeDes
  rw [hc.desugar]
  apply indexDimensions_eq2 i j a.tname formats hc.ij _ s hs
  rw [← jDim_strip, Dense2Source.strip]
  exact hc.jDim_eq.1

theorem Dense2Source.isExpr : Dense2.isExpr i j (rhsId2 a) = true := by
  obtain ⟨s, hs, _⟩ := hc.shapeP
  exact isExpr_toId2 i j a.tname formats _ s hs

theorem Dense2Source.notSparse : (extractContext (rhsId2 a) j).isSparse = false := by
  obtain ⟨s, hs, _⟩ := hc.shapeP
  exact notSparse_toId2 i j a.tname formats _ s hs

theorem Dense2Source.tensorId_out :
    tensorId 0 (Alg.desugar a).tname formats (Alg.desugar a).tidx = some (outId a.tname i) := by
  rw [hc.desugar]; exact Pipe1.tensorId_out formats a.tname hc.out i

theorem Dense2Source.kernelOK (hn : Dense2Names formats i j) :
    Dense2.KernelOK formats i j (jDimOf a i j).1 (outId a.tname i) (rhsId2 a) := by
  obtain ⟨s, hs, _⟩ := hc.shapeP
  refine ⟨hn.idxI, hn.idxJ, hc.ij, hn.names, hn.idxTensorI, hn.idxTensorJ, isD_mem formats a.tname hc.out,
    rfl, hc.jDim_eq.2.1, ?_, idsOK_toId2 i j hc.ij a.rhs 1⟩
  intro t ht
  obtain ⟨h1, h2, _⟩ := leaves_toId2 i j a.tname formats _ s hs t ht
  exact ⟨h2, h1⟩

/-- the first candidate of the pipeline is the graph of `Dense2` -/
theorem Dense2Source.toIterationGraphs_head :
    ∃ gs, toIterationGraphs (Alg.desugar a) formats = .ok gs ∧
      gs.head? = some (.iter i (some ⟨outId a.tname i, 0⟩) (.iter j none (.terminal (rhsId2 a)))) := by
  obtain ⟨s, hs, hfin⟩ := hc.shapeP
  obtain ⟨gs, hg, hh⟩ := graphsOf_head i j a.tname formats hc.ij _ (containsContraction_plainE a.rhs 1) s hs
  rw [hc.desugar]
  apply TV.Pipe2.toIterationGraphs_head i j a.tname formats hc.ij hc.out _ gs _ s hfin _ hh
  rw [graphsOf_strip j formats _ hc.oneC, Dense2Source.strip]
  exact hg

/-- **the meaning of the desugared assignment**: the sum over `jj < sz j` of the float-free value of
the terminal, tensor occurrence `t` read at its own indexes under `i ↦ ii`, `j ↦ jj` -/
theorem Dense2Source.denoteDA_eq (inp : Inputs) (sz : Sizes) (ii : Nat) :
    denoteDA (Alg.desugar a) inp sz [ii] = sumRange (sz j) fun jj =>
      valueF (F := Rat) id (fun t => inp t.name (t.indexes.map (Env.get [(j, jj), (i, ii)]))) (rhsId2 a) := by
  rw [hc.desugar]
  show denoteD inp sz (desugarE a.rhs [j] 1).1 [(i, ii)] = _
  rw [denoteD_oneC inp sz j _ hc.oneC, Dense2Source.strip]
  exact TV.Alg.sumRange_congr _ _ _ (fun v =>
    denoteD_toId2 inp sz _ (containsContraction_plainE a.rhs 1) _)

end

end TV.Pipe2
