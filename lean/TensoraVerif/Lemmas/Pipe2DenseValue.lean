import TensoraVerif.Lemmas.Pipe2DenseGraphs
import TensoraVerif.Lemmas.Pipe1Value
import TensoraVerif.Lemmas.Dense2Exact

/-!
C01, full pipeline for the dense matrix–vector class, part 3: meaning and side conditions.
* `denoteD_oneC`: a tree with one contraction `Σ_j` on a path of products means the sum over `j` of the
  contraction-free tree; `denoteD_toId2`: the contraction-free tree means `valueF` of the terminal.
* `denseCells`: the row-major layout of the inputs; `cell_of_leaf`: what a leaf of the terminal reads.
* the hypotheses of the kernel theorem of `Dense2`: `isExpr_toId2`, `notSparse_toId2`,
  `indexDimensions_eq2` (the dimension variable `j_dim` comes from the first tensor that mentions `j`:
  `jDim`), `idsOK_toId2` (occurrence numbers are pairwise different).
-/
namespace TV.Pipe2
open TV.IR TV.Alg TV.Graph TV.Gen TV.Pipe1
open TV.Dense1 (leaves valueF)

/-! ### the meaning of the desugared tree -/

theorem sumRange_mul_right (n : Nat) (c : Rat) (f : Nat → Rat) :
    sumRange n (fun v => f v * c) = sumRange n f * c := by
  rw [Rat.mul_comm, ← sumRange_mul_left]
  exact TV.Alg.sumRange_congr n _ _ (fun v => Rat.mul_comm _ _)

/-- a contraction-free tree that does not mention `j` does not depend on the value of `j` -/
theorem denoteD_not_mentions (inp : Inputs) (sz : Sizes) (j : String) (v : Nat) (d : DExpr) :
    containsContraction d = false → mentions j d = false →
    ∀ env : Env, denoteD inp sz d (env.set j v) = denoteD inp sz d env := by
  induction d with
  | int _ => intro _ _ env; rfl
  | flt _ => intro _ _ env; rfl
  | tensor id name idx =>
    intro _ hm env
    simp only [mentions] at hm
    simp only [denoteD]
    congr 1
    apply List.map_congr_left
    intro x hx
    rw [Env.get_set, if_neg]
    rintro rfl
    exact (Bool.eq_false_iff.1 hm) (List.contains_iff_mem.2 hx)
  | add l r ihl ihr =>
    intro hp hm env
    simp only [containsContraction, Bool.or_eq_false_iff] at hp
    simp only [mentions, Bool.or_eq_false_iff] at hm
    simp only [denoteD, ihl hp.1 hm.1 env, ihr hp.2 hm.2 env]
  | mul l r ihl ihr =>
    intro hp hm env
    simp only [containsContraction, Bool.or_eq_false_iff] at hp
    simp only [mentions, Bool.or_eq_false_iff] at hm
    simp only [denoteD, ihl hp.1 hm.1 env, ihr hp.2 hm.2 env]
  | contract k e _ => intro hp; simp [containsContraction] at hp

/-- **the meaning of the tree `desugar` produces on the class**: the sum over `j` of the
contraction-free tree -/
theorem denoteD_oneC (inp : Inputs) (sz : Sizes) (j : String) (d : DExpr) :
    oneC j d = true → ∀ env : Env,
    denoteD inp sz d env = sumRange (sz j) fun v => denoteD inp sz (strip d) (env.set j v) := by
  induction d with
  | int v => intro h; simp [oneC] at h
  | flt v => intro h; simp [oneC] at h
  | tensor id name idx => intro h; simp [oneC] at h
  | add l r _ _ => intro h; simp [oneC] at h
  | mul l r ihl ihr =>
    intro h env
    simp only [oneC, Bool.or_eq_true, Bool.and_eq_true, Bool.not_eq_true'] at h
    rcases h with ⟨⟨h1, h2⟩, h3⟩ | ⟨⟨h1, h2⟩, h3⟩
    · simp only [denoteD, strip, ihl h1 env, strip_of_plain r h2]
      rw [← sumRange_mul_right]
      exact TV.Alg.sumRange_congr _ _ _ (fun v => by rw [denoteD_not_mentions inp sz j v r h2 h3 env])
    · simp only [denoteD, strip, ihr h3 env, strip_of_plain l h1]
      rw [← sumRange_mul_left]
      exact TV.Alg.sumRange_congr _ _ _ (fun v => by rw [denoteD_not_mentions inp sz j v l h1 h2 env])
  | contract k e _ =>
    intro h env
    simp only [oneC, Bool.and_eq_true, Bool.not_eq_true', beq_iff_eq] at h
    obtain ⟨rfl, hp⟩ := h
    simp only [denoteD, strip, strip_of_plain e hp]

/-- **the contraction-free tree means what the terminal expression means**, tensor occurrence `t` read
at its own indexes -/
theorem denoteD_toId2 (inp : Inputs) (sz : Sizes) (d : DExpr) :
    containsContraction d = false → ∀ env : Env,
    denoteD inp sz d env =
      valueF (F := Rat) id (fun t => inp t.name (t.indexes.map env.get)) (toId2 d) := by
  induction d with
  | int _ => intro _ env; rfl
  | flt _ => intro _ env; rfl
  | tensor id name idx => intro _ env; rfl
  | add l r ihl ihr =>
    intro hp env
    simp only [containsContraction, Bool.or_eq_false_iff] at hp
    simp only [denoteD, toId2, valueF, ihl hp.1 env, ihr hp.2 env]; rfl
  | mul l r ihl ihr =>
    intro hp env
    simp only [containsContraction, Bool.or_eq_false_iff] at hp
    simp only [denoteD, toId2, valueF, ihl hp.1 env, ihr hp.2 env]; rfl
  | contract k e _ => intro hp; simp [containsContraction] at hp

/-! ### the leaves of the terminal expression -/

/-- every tensor occurrence of the terminal is `<k>_<name>`, of one of the three kinds with the
matching format, named in the format table and different from the target -/
theorem leaves_toId2 (i j tname : String) (formats : Formats) (d : DExpr) :
    ∀ s, shapeD i j tname formats d = some s → ∀ t ∈ leaves (toId2 d),
      t.name ≠ tname ∧ t.name ∈ formats.map (·.1) ∧
      ((Dense2.isM i j t = true ∧ isDD formats t.name = true) ∨
       (Dense2.isJ j t = true ∧ isD formats t.name = true) ∨
       (Dense2.isI i t = true ∧ isD formats t.name = true)) := by
  induction d with
  | int v => intro s _ t ht; simp [toId2, leaves] at ht
  | flt v => intro s _ t ht; simp [toId2, leaves] at ht
  | tensor id name idx =>
    intro s hs t ht
    simp only [toId2, leaves, List.mem_singleton] at ht
    subst ht
    obtain ⟨hne, ⟨_, rfl, hm⟩ | ⟨_, rfl, hm⟩ | ⟨_, rfl, hm⟩⟩ := leafSh_cases hs
    · exact ⟨hne, isDD_mem formats name hm, Or.inl ⟨by simp [Dense2.isM], hm⟩⟩
    · exact ⟨hne, isD_mem formats name hm, Or.inr (Or.inl ⟨by simp [Dense2.isJ], hm⟩)⟩
    · exact ⟨hne, isD_mem formats name hm, Or.inr (Or.inr ⟨by simp [Dense2.isI], hm⟩)⟩
  | add l r ihl ihr =>
    intro s hs t ht
    simp only [shapeD, Option.bind_eq_some_iff] at hs
    obtain ⟨a, ha, b, hb, _⟩ := hs
    simp only [toId2, leaves, List.mem_append] at ht
    exact ht.elim (ihl a ha t) (ihr b hb t)
  | mul l r ihl ihr =>
    intro s hs t ht
    simp only [shapeD, Option.bind_eq_some_iff] at hs
    obtain ⟨a, ha, b, hb, _⟩ := hs
    simp only [toId2, leaves, List.mem_append] at ht
    exact ht.elim (ihl a ha t) (ihr b hb t)
  | contract k e ih => intro s hs t ht; exact ih s hs t ht

theorem isExpr_toId2 (i j tname : String) (formats : Formats) (d : DExpr) (s : Sh)
    (hs : shapeD i j tname formats d = some s) : Dense2.isExpr i j (toId2 d) = true := by
  apply List.all_eq_true.2
  intro t ht
  obtain ⟨_, _, ⟨h, _⟩ | ⟨h, _⟩ | ⟨h, _⟩⟩ := leaves_toId2 i j tname formats d s hs t ht <;>
    simp [Dense2.isLeaf, h]

/-- the terminal is not sparse at `j`: every tensor is dense and there is no literal `0` -/
theorem notSparse_toId2 (i j tname : String) (formats : Formats) (d : DExpr) :
    ∀ s, shapeD i j tname formats d = some s → (extractContext (toId2 d) j).isSparse = false := by
  induction d with
  | int v => intro s hs; exact (lit_shape hs).2
  | flt v => intro s hs; exact (lit_shape hs).2
  | tensor id name idx =>
    intro s hs
    obtain ⟨_, ⟨_, rfl, _⟩ | ⟨_, rfl, _⟩ | ⟨_, rfl, _⟩⟩ := leafSh_cases hs <;>
    · simp only [toId2, extractContext]
      split
      · rfl
      · rename_i l hl
        rcases l with _ | _ | l <;> simp
  | add l r ihl ihr =>
    intro s hs
    simp only [shapeD, Option.bind_eq_some_iff] at hs
    obtain ⟨a, ha, b, hb, _⟩ := hs
    simp only [toId2, extractContext, Context.add, ihl a ha, ihr b hb, Bool.and_self]
  | mul l r ihl ihr =>
    intro s hs
    simp only [shapeD, Option.bind_eq_some_iff] at hs
    obtain ⟨a, ha, b, hb, _⟩ := hs
    simp only [toId2, extractContext, Context.mul, ihl a ha, ihr b hb, Bool.or_self]
  | contract k e ih => intro s hs; exact ih s hs

/-! ### the inputs in row-major layout -/

/-- the content of the `vals` array of tensor `name` (row-major for a `dd` matrix with `m` columns) -/
def denseCells (formats : Formats) (m : Nat) (inp : Inputs) : String → Nat → Rat :=
  fun name k => if isDD formats name then inp name [k / m, k % m] else inp name [k]

/-- **what a leaf of the terminal reads**: the cell that the kernel addresses at `(ii, jj)` holds the
input at the leaf's own indexes -/
theorem cell_of_leaf (i j tname : String) (formats : Formats) (hij : i ≠ j) (d : DExpr) (s : Sh)
    (hs : shapeD i j tname formats d = some s) (inp : Inputs) (m ii jj : Nat) (hjj : jj < m)
    (t : TensorId) (ht : t ∈ leaves (toId2 d)) :
    Dense2.rhoAt i j m (denseCells formats m inp) ii jj t =
      inp t.name (t.indexes.map (Env.get [(j, jj), (i, ii)])) := by
  have e1 : (i == j) = false := beq_eq_false_iff_ne.2 hij
  have e2 : (j == i) = false := beq_eq_false_iff_ne.2 (Ne.symm hij)
  have gi : Env.get [(j, jj), (i, ii)] i = ii := by simp [Env.get, List.find?, e2]
  have gj : Env.get [(j, jj), (i, ii)] j = jj := by simp [Env.get, List.find?]
  obtain ⟨_, _, ⟨h, hf⟩ | ⟨h, hf⟩ | ⟨h, hf⟩⟩ := leaves_toId2 i j tname formats d s hs t ht
  · have hidx : t.indexes = [i, j] := by
      simp only [Dense2.isM, Bool.and_eq_true, beq_iff_eq] at h; exact h.1
    have h1 : (ii * m + jj) / m = ii := by
      rw [Nat.add_comm, Nat.add_mul_div_right _ _ (by omega), Nat.div_eq_of_lt hjj, Nat.zero_add]
    have h2 : (ii * m + jj) % m = jj := by
      rw [Nat.add_comm, Nat.add_mul_mod_self_right, Nat.mod_eq_of_lt hjj]
    simp [Dense2.rhoAt, Dense2.cellIx, denseCells, h, hf, hidx, gi, gj, h1, h2]
  · have hidx : t.indexes = [j] := by
      simp only [Dense2.isJ, Bool.and_eq_true, beq_iff_eq] at h; exact h.1
    have hM : Dense2.isM i j t = false := by simp [Dense2.isM, hidx]
    have hdd : isDD formats t.name = false := by
      cases hc : isDD formats t.name with
      | false => rfl
      | true => rw [isDD_not_isD formats t.name hc] at hf; cases hf
    simp [Dense2.rhoAt, Dense2.cellIx, denseCells, h, hM, hdd, hidx, gj]
  · have hidx : t.indexes = [i] := by
      simp only [Dense2.isI, Bool.and_eq_true, beq_iff_eq] at h; exact h.1
    have hM : Dense2.isM i j t = false := by simp [Dense2.isM, hidx]
    have hJ : Dense2.isJ j t = false := by simp [Dense2.isJ, hidx, hij]
    have hdd : isDD formats t.name = false := by
      cases hc : isDD formats t.name with
      | false => rfl
      | true => rw [isDD_not_isD formats t.name hc] at hf; cases hf
    simp [Dense2.rhoAt, Dense2.cellIx, denseCells, hM, hJ, hdd, hidx, gi]

/-! ### the dimension variables -/

/-- the tensor and dimension that `j_dim` is read from: the first reference that mentions `j` -/
def jDim (i j : String) : DExpr → Option (String × Nat)
  | .int _ => none
  | .flt _ => none
  | .tensor _ n idx => if idx == [i, j] then some (n, 1) else if idx == [j] then some (n, 0) else none
  | .add l r => match jDim i j l with | some p => some p | none => jDim i j r
  | .mul l r => match jDim i j l with | some p => some p | none => jDim i j r
  | .contract _ e => jDim i j e

/-- `index_dimensions`' accumulator step for one tensor reference -/
abbrev ofTensorD : String → List String → List (String × String × Nat) → List (String × String × Nat) :=
  fun name idx acc =>
    (List.range idx.length).foldl (fun acc d =>
      let j := idx.getD d ""
      if acc.any (·.1 == j) then acc else acc ++ [(j, name, d)]) acc

theorem go_dims (i j tname : String) (formats : Formats) (d : DExpr) :
    ∀ s, shapeD i j tname formats d = some s →
    ∀ acc : List (String × String × Nat), (acc.any fun x => x.1 == i) = true →
      ((acc.any fun x => x.1 == j) = true → indexDimensions.go ofTensorD d acc = acc) ∧
      ((acc.any fun x => x.1 == j) = false → indexDimensions.go ofTensorD d acc =
        match jDim i j d with
        | some (n, k) => acc ++ [(j, n, k)]
        | none => acc) := by
  induction d with
  | int v => intro s _ acc _; exact ⟨fun _ => rfl, fun _ => rfl⟩
  | flt v => intro s _ acc _; exact ⟨fun _ => rfl, fun _ => rfl⟩
  | tensor id name idx =>
    intro s hs acc hi
    obtain ⟨_, ⟨_, rfl, _⟩ | ⟨_, rfl, _⟩ | ⟨_, rfl, _⟩⟩ := leafSh_cases hs
    · refine ⟨fun hj => ?_, fun hj => ?_⟩
      · simp [indexDimensions.go, ofTensorD, List.range, List.range.loop, hi, hj]
      · simp [indexDimensions.go, ofTensorD, List.range, List.range.loop, hi, hj, jDim]
    · refine ⟨fun hj => ?_, fun hj => ?_⟩
      · simp [indexDimensions.go, ofTensorD, List.range, List.range.loop, hj]
      · by_cases hij : ([j] : List String) = [i, j]
        · simp at hij
        · simp [indexDimensions.go, ofTensorD, List.range, List.range.loop, hj, jDim]
    · refine ⟨fun hj => ?_, fun hj => ?_⟩
      · simp [indexDimensions.go, ofTensorD, List.range, List.range.loop, hi]
      · have hne : i ≠ j := by
          rintro rfl
          rw [hi] at hj; cases hj
        simp [indexDimensions.go, ofTensorD, List.range, List.range.loop, hi, jDim, hne]
  | add l r ihl ihr =>
    intro s hs acc hi
    simp only [shapeD, Option.bind_eq_some_iff] at hs
    obtain ⟨a, ha, b, hb, _⟩ := hs
    obtain ⟨l1, l2⟩ := ihl a ha acc hi
    refine ⟨fun hj => ?_, fun hj => ?_⟩
    · simp only [indexDimensions.go]; rw [l1 hj, (ihr b hb acc hi).1 hj]
    · simp only [indexDimensions.go, jDim]; rw [l2 hj]
      cases hjl : jDim i j l with
      | none => exact (ihr b hb acc hi).2 hj
      | some p =>
        obtain ⟨n, k⟩ := p
        exact (ihr b hb _ (by simp [hi])).1 (by simp)
  | mul l r ihl ihr =>
    intro s hs acc hi
    simp only [shapeD, Option.bind_eq_some_iff] at hs
    obtain ⟨a, ha, b, hb, _⟩ := hs
    obtain ⟨l1, l2⟩ := ihl a ha acc hi
    refine ⟨fun hj => ?_, fun hj => ?_⟩
    · simp only [indexDimensions.go]; rw [l1 hj, (ihr b hb acc hi).1 hj]
    · simp only [indexDimensions.go, jDim]; rw [l2 hj]
      cases hjl : jDim i j l with
      | none => exact (ihr b hb acc hi).2 hj
      | some p =>
        obtain ⟨n, k⟩ := p
        exact (ihr b hb _ (by simp [hi])).1 (by simp)
  | contract k e ih =>
    intro s hs acc hi
    simp only [indexDimensions.go, jDim]
    exact ih s hs acc hi

/-- a tree of shape `IJ` or `J` has a reference that mentions `j`, to a tensor of the format table, at
dimension 0 or 1 -/
theorem jDim_some (i j tname : String) (formats : Formats) (d : DExpr) :
    ∀ s, shapeD i j tname formats d = some s →
      ((s = .IJ ∨ s = .J) → (jDim i j d).isSome = true) ∧
      ∀ p, jDim i j d = some p → p.1 ∈ formats.map (·.1) ∧ p.2 < 2 := by
  induction d with
  | int v => intro s hs; obtain ⟨rfl, _⟩ := lit_shape hs; simp [jDim]
  | flt v => intro s hs; obtain ⟨rfl, _⟩ := lit_shape hs; simp [jDim]
  | tensor id name idx =>
    intro s hs
    obtain ⟨_, ⟨rfl, rfl, hm⟩ | ⟨rfl, rfl, hm⟩ | ⟨rfl, rfl, hm⟩⟩ := leafSh_cases hs
    · refine ⟨fun _ => by simp [jDim], fun p hp => ?_⟩
      simp only [jDim, beq_self_eq_true, if_true, Option.some.injEq] at hp
      subst hp
      exact ⟨isDD_mem formats name hm, by simp⟩
    · refine ⟨fun _ => by simp [jDim], fun p hp => ?_⟩
      have : (([j] : List String) == [i, j]) = false := by simp
      simp only [jDim, this, beq_self_eq_true, if_true, Bool.false_eq_true, if_false,
        Option.some.injEq] at hp
      subst hp
      exact ⟨isD_mem formats name hm, by simp⟩
    · refine ⟨fun h => by simp at h, fun p hp => ?_⟩
      have h1 : (([i] : List String) == [i, j]) = false := by simp
      simp only [jDim, h1, Bool.false_eq_true, if_false] at hp
      split at hp
      · cases hp; exact ⟨isD_mem formats name hm, by simp⟩
      · cases hp
  | add l r ihl ihr =>
    intro s hs
    simp only [shapeD, Option.bind_eq_some_iff] at hs
    obtain ⟨a, ha, b, hb, hab⟩ := hs
    refine ⟨fun h => ?_, fun p hp => ?_⟩
    · simp only [jDim]
      cases hjl : jDim i j l with
      | some p => rfl
      | none =>
        have ha' : ¬ (a = .IJ ∨ a = .J) := fun h' => by
          have := (ihl a ha).1 h'; rw [hjl] at this; cases this
        apply (ihr b hb).1
        rcases h with rfl | rfl <;> cases a <;> cases b <;> simp_all [Sh.merge]
    · simp only [jDim] at hp
      cases hjl : jDim i j l with
      | some q => rw [hjl] at hp; cases hp; exact (ihl a ha).2 _ hjl
      | none => rw [hjl] at hp; exact (ihr b hb).2 p hp
  | mul l r ihl ihr =>
    intro s hs
    simp only [shapeD, Option.bind_eq_some_iff] at hs
    obtain ⟨a, ha, b, hb, hab⟩ := hs
    refine ⟨fun h => ?_, fun p hp => ?_⟩
    · simp only [jDim]
      cases hjl : jDim i j l with
      | some p => rfl
      | none =>
        have ha' : ¬ (a = .IJ ∨ a = .J) := fun h' => by
          have := (ihl a ha).1 h'; rw [hjl] at this; cases this
        apply (ihr b hb).1
        rcases h with rfl | rfl <;> cases a <;> cases b <;> simp_all [Sh.merge]
    · simp only [jDim] at hp
      cases hjl : jDim i j l with
      | some q => rw [hjl] at hp; cases hp; exact (ihl a ha).2 _ hjl
      | none => rw [hjl] at hp; exact (ihr b hb).2 p hp
  | contract k e ih => intro s hs; exact ih s hs

/-- **the dimension variables of an assignment of the class**: `i_dim` from dimension 0 of the target,
`j_dim` from the first reference that mentions `j` -/
theorem indexDimensions_eq2 (i j tname : String) (formats : Formats) (hij : i ≠ j) (d : DExpr) (s : Sh)
    (hs : shapeD i j tname formats d = some s) (jt : String) (jd : Nat)
    (hj : jDim i j d = some (jt, jd)) :
    indexDimensions ⟨tname, [i], d⟩ = [(i, tname, 0), (j, jt, jd)] := by
  have e1 : (i == j) = false := beq_eq_false_iff_ne.2 hij
  unfold indexDimensions
  have h0 : (List.range [i].length).foldl (fun (acc : List (String × String × Nat)) d =>
        let j := [i].getD d ""
        if acc.any (·.1 == j) then acc else acc ++ [(j, tname, d)]) [] = [(i, tname, 0)] := by
    simp [List.range, List.range.loop]
  simp only [h0]
  have := (go_dims i j tname formats d s hs [(i, tname, 0)] (by simp)).2 (by simp [e1])
  rw [hj] at this
  exact this

/-! ### occurrence numbers are pairwise different -/

theorem toString_nat_inj {k k' : Nat} (h : (toString k).toList = (toString k').toList) : k = k' := by
  have h' : (Nat.repr k).toList = (Nat.repr k').toList := h
  rw [Nat.toList_repr, Nat.toList_repr] at h'
  rw [← Nat.ofDigitChars_toDigits (b := 10) (n := k) (by decide) (by decide),
    ← Nat.ofDigitChars_toDigits (b := 10) (n := k') (by decide) (by decide), h']

theorem takeWhile_ne_append (xs ys : List Char) (h : '_' ∉ xs) :
    (xs ++ '_' :: ys).takeWhile (· != '_') = xs := by
  induction xs with
  | nil => simp
  | cons x xs ih =>
    have hx : x ≠ '_' := fun e => h (by simp [e])
    simp only [List.cons_append, List.takeWhile_cons, bne_iff_ne, ne_eq, hx, not_false_eq_true,
      if_true]
    rw [ih (fun hm => h (by simp [hm]))]

/-- the occurrence number can be read back from the identifier -/
theorem id_num_inj {k k' : Nat} {a b : String}
    (h : toString k ++ "_" ++ a = toString k' ++ "_" ++ b) : k = k' := by
  have h' := congrArg (fun s : String => s.toList.takeWhile (· != '_')) h
  have e : ("_" : String).toList = ['_'] := rfl
  simp only [String.toList_append, e, List.append_assoc, List.cons_append, List.nil_append] at h'
  rw [takeWhile_ne_append _ _ (underscore_not_mem_toString k),
    takeWhile_ne_append _ _ (underscore_not_mem_toString k')] at h'
  exact toString_nat_inj h'

/-- the identifiers of the terminal are numbered `n, n+1, …` left to right -/
theorem leaves_numbered (e : SExpr) : ∀ n, ∀ t ∈ leaves (toId2 (plainE e n).1),
    ∃ k, n ≤ k ∧ k < (plainE e n).2 ∧ t.id = toString k ++ "_" ++ t.name := by
  induction e with
  | int v => intro n t ht; simp [plainE, toId2, leaves] at ht
  | flt v => intro n t ht; simp [plainE, toId2, leaves] at ht
  | tensor name idx =>
    intro n t ht
    simp only [plainE, toId2, leaves, List.mem_singleton] at ht
    subst ht
    exact ⟨n, Nat.le_refl _, Nat.lt_succ_self _, rfl⟩
  | add l r ihl ihr =>
    intro n t ht
    simp only [plainE, toId2, leaves, List.mem_append] at ht
    rcases ht with ht | ht
    · obtain ⟨k, h1, h2, h3⟩ := ihl n t ht
      exact ⟨k, h1, Nat.lt_of_lt_of_le h2 (plainE_mono r _), h3⟩
    · obtain ⟨k, h1, h2, h3⟩ := ihr _ t ht
      exact ⟨k, Nat.le_trans (plainE_mono l n) h1, h2, h3⟩
  | sub l r ihl ihr =>
    intro n t ht
    simp only [plainE, toId2, leaves, List.mem_append, List.nil_append] at ht
    rcases ht with ht | ht
    · obtain ⟨k, h1, h2, h3⟩ := ihl n t ht
      exact ⟨k, h1, Nat.lt_of_lt_of_le h2 (plainE_mono r _), h3⟩
    · obtain ⟨k, h1, h2, h3⟩ := ihr _ t ht
      exact ⟨k, Nat.le_trans (plainE_mono l n) h1, h2, h3⟩
  | mul l r ihl ihr =>
    intro n t ht
    simp only [plainE, toId2, leaves, List.mem_append] at ht
    rcases ht with ht | ht
    · obtain ⟨k, h1, h2, h3⟩ := ihl n t ht
      exact ⟨k, h1, Nat.lt_of_lt_of_le h2 (plainE_mono r _), h3⟩
    · obtain ⟨k, h1, h2, h3⟩ := ihr _ t ht
      exact ⟨k, Nat.le_trans (plainE_mono l n) h1, h2, h3⟩
where
  plainE_mono (e : SExpr) : ∀ n, n ≤ (plainE e n).2 := by
    induction e with
    | int v => intro n; exact Nat.le_refl _
    | flt v => intro n; exact Nat.le_refl _
    | tensor name idx => intro n; exact Nat.le_succ _
    | add l r ihl ihr => intro n; exact Nat.le_trans (ihl n) (ihr _)
    | sub l r ihl ihr => intro n; exact Nat.le_trans (ihl n) (ihr _)
    | mul l r ihl ihr => intro n; exact Nat.le_trans (ihl n) (ihr _)

/-- **two tensor occurrences of the terminal with the same identifier are the same occurrence** -/
theorem leaves_id_inj (e : SExpr) : ∀ n, ∀ t ∈ leaves (toId2 (plainE e n).1),
    ∀ t' ∈ leaves (toId2 (plainE e n).1), t.id = t'.id → t = t' := by
  have cross : ∀ (l r : SExpr) (n : Nat), ∀ t ∈ leaves (toId2 (plainE l n).1),
      ∀ t' ∈ leaves (toId2 (plainE r (plainE l n).2).1), t.id ≠ t'.id := by
    intro l r n t ht t' ht' h
    obtain ⟨k, _, h2, h3⟩ := leaves_numbered l n t ht
    obtain ⟨k', h1', _, h3'⟩ := leaves_numbered r _ t' ht'
    rw [h3, h3'] at h
    have := id_num_inj h
    omega
  induction e with
  | int v => intro n t ht; simp [plainE, toId2, leaves] at ht
  | flt v => intro n t ht; simp [plainE, toId2, leaves] at ht
  | tensor name idx =>
    intro n t ht t' ht' _
    simp only [plainE, toId2, leaves, List.mem_singleton] at ht ht'
    rw [ht, ht']
  | add l r ihl ihr =>
    intro n t ht t' ht' h
    simp only [plainE, toId2, leaves, List.mem_append] at ht ht'
    rcases ht with ht | ht <;> rcases ht' with ht' | ht'
    · exact ihl n t ht t' ht' h
    · exact (cross l r n t ht t' ht' h).elim
    · exact (cross l r n t' ht' t ht h.symm).elim
    · exact ihr _ t ht t' ht' h
  | sub l r ihl ihr =>
    intro n t ht t' ht' h
    simp only [plainE, toId2, leaves, List.mem_append, List.nil_append] at ht ht'
    rcases ht with ht | ht <;> rcases ht' with ht' | ht'
    · exact ihl n t ht t' ht' h
    · exact (cross l r n t ht t' ht' h).elim
    · exact (cross l r n t' ht' t ht h.symm).elim
    · exact ihr _ t ht t' ht' h
  | mul l r ihl ihr =>
    intro n t ht t' ht' h
    simp only [plainE, toId2, leaves, List.mem_append] at ht ht'
    rcases ht with ht | ht <;> rcases ht' with ht' | ht'
    · exact ihl n t ht t' ht' h
    · exact (cross l r n t ht t' ht' h).elim
    · exact (cross l r n t' ht' t ht h.symm).elim
    · exact ihr _ t ht t' ht' h

/-- no identifier is shared between a `[j]`-leaf and an `[i,…]`-leaf -/
theorem idsOK_toId2 (i j : String) (hij : i ≠ j) (e : SExpr) (n : Nat) :
    Dense2.idsOK i j (toId2 (plainE e n).1) = true := by
  apply List.all_eq_true.2
  intro t ht
  apply List.all_eq_true.2
  intro t' ht'
  rw [Bool.not_eq_true']
  apply Bool.eq_false_iff.2
  intro h
  simp only [Bool.and_eq_true, beq_iff_eq] at h
  obtain ⟨⟨hJ, hI⟩, hid⟩ := h
  have := leaves_id_inj e n t ht t' ht' hid
  subst this
  simp only [Dense2.isJ, Bool.and_eq_true, beq_iff_eq] at hJ
  simp only [Dense2.hasI, Dense2.isM, Dense2.isI, Bool.or_eq_true, Bool.and_eq_true, beq_iff_eq] at hI
  rcases hI with ⟨h1, _⟩ | ⟨h1, _⟩
  · rw [hJ.1] at h1; simp at h1
  · rw [hJ.1] at h1; simp at h1; exact hij h1.symm

/-- the name of a tensor occurrence can be read back from its identifier -/
theorem nameOf_leaf2 (e : SExpr) (n : Nat) (t : TensorId) (ht : t ∈ leaves (toId2 (plainE e n).1)) :
    nameOf t.id = t.name := by
  obtain ⟨k, _, _, hk⟩ := leaves_numbered e n t ht
  rw [hk, nameOf_id]

end TV.Pipe2
