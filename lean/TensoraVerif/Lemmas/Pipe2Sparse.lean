import TensoraVerif.Lemmas.Pipe1Value
import TensoraVerif.Lemmas.Sparse1Exact

/-!
C01, full pipeline for the sparse vector copy/scale kernels (front half of `Props/C01Sparse1.lean`):
the class `Sparse1Source` of SOURCE assignments `a(i) = b(i)`, `a(i) = c * b(i)`, `a(i) = b(i) * c`
(`c` an integer or float literal, both vectors compressed), what `desugar` and `toIterationGraphs`
make of them, the meaning of the terminal expression, and the hypotheses of the kernel theorem of
`Sparse1` derived from the class.
-/
namespace TV.Pipe2
open TV.IR TV.Alg TV.Graph TV.Pipe1

/-- an integer or float literal -/
def isLit : SExpr → Bool
  | .int _ => true
  | .flt _ => true
  | _ => false

theorem isLit_cases {c : SExpr} (h : isLit c = true) : (∃ v, c = .int v) ∨ (∃ v, c = .flt v) := by
  cases c with
  | int v => exact Or.inl ⟨v, rfl⟩
  | flt v => exact Or.inr ⟨v, rfl⟩
  | _ => simp [isLit] at h

/-- the right-hand sides of the class: `b(i)`, `c * b(i)`, `b(i) * c` with `c` a literal -/
inductive Sp1Rhs (i b : String) : SExpr → Prop
  | copy : Sp1Rhs i b (.tensor b [i])
  | scaleL (c : SExpr) : isLit c = true → Sp1Rhs i b (.mul c (.tensor b [i]))
  | scaleR (c : SExpr) : isLit c = true → Sp1Rhs i b (.mul (.tensor b [i]) c)

/-- decision procedure for `Sp1Rhs` -/
def sp1RhsB (i b : String) (e : SExpr) : Bool :=
  e == .tensor b [i] ||
  (match e with
   | .mul l r => (isLit l && r == .tensor b [i]) || (l == .tensor b [i] && isLit r)
   | _ => false)

theorem sp1Rhs_of_B {i b : String} {e : SExpr} (h : sp1RhsB i b e = true) : Sp1Rhs i b e := by
  unfold sp1RhsB at h
  rcases Bool.or_eq_true_iff.1 h with h | h
  · rw [beq_iff_eq] at h; subst h; exact .copy
  · cases e with
    | mul l r =>
      simp only [Bool.or_eq_true, Bool.and_eq_true, beq_iff_eq] at h
      rcases h with ⟨hl, rfl⟩ | ⟨rfl, hr⟩
      · exact .scaleL l hl
      · exact .scaleR r hr
    | _ => simp at h

/-- the format of a compressed vector -/
abbrev fmtS : List Mode × List Nat := ([Mode.compressed], [0])

/-- **The class of source assignments** `a(i) = b(i)`, `a(i) = c * b(i)`, `a(i) = b(i) * c`: the
target has the single index `i`, the right-hand side is of one of the three shapes with `b` a tensor
other than the target, and the format table is exactly `[a ↦ s, b ↦ s]` (`s`: one compressed level). -/
structure Sparse1Source (a : Assign) (formats : Formats) (i b : String) : Prop where
  tidx : a.tidx = [i]
  rhs : Sp1Rhs i b a.rhs
  ne : b ≠ a.tname
  fmts : formats = [(a.tname, fmtS), (b, fmtS)]

/-- **Naming side conditions of the machine theorem**: no `'_'` in the index and tensor names (every
name the parser admits is alphanumeric), the index is not a tensor name. -/
structure Sparse1Names (a : Assign) (i b : String) : Prop where
  iu : '_' ∉ i.toList
  au : '_' ∉ a.tname.toList
  bu : '_' ∉ b.toList
  ia : i ≠ a.tname
  ib : i ≠ b

/-- the output tensor as the graph builder names it: `0_<a>`, compressed -/
def spOut (tname i : String) : TensorId := ⟨"0_" ++ tname, tname, [i], [.compressed]⟩
/-- the single tensor occurrence of the right-hand side: `1_<b>`, compressed (literals do not
consume occurrence numbers) -/
def spB (b i : String) : TensorId := ⟨"1_" ++ b, b, [i], [.compressed]⟩

/-- the identifier assignment of `graphsOf` on the class -/
def toIdS (i : String) : DExpr → IdExpr
  | .int v => .int v
  | .flt v => .flt v
  | .tensor id name _ => .tensor ⟨toString id ++ "_" ++ name, name, [i], [.compressed]⟩
  | .add l r => .add (toIdS i l) (toIdS i r)
  | .mul l r => .mul (toIdS i l) (toIdS i r)
  | .contract _ e => toIdS i e

/-- the terminal expression of the kernel: `1_b`, `c * 1_b`, `1_b * c` -/
def spE (a : Assign) (i : String) : IdExpr := toIdS i (plainE a.rhs 1).1

/-! ### `desugar` on the class -/

/-- an assignment whose right-hand side mentions no index but the target's has no contraction -/
theorem desugar_eq_of_idx (a : Assign) (i : String) (hidx : a.tidx = [i])
    (h : ∀ x ∈ indexesOf a.rhs, x = i) : desugar a = ⟨a.tname, [i], (plainE a.rhs 1).1⟩ := by
  have hc : (dedup (a.tidx ++ indexesOf a.rhs)).filter (fun x => !a.tidx.contains x) = [] := by
    apply List.filter_eq_nil_iff.2
    intro x hx
    simp only [mem_dedup, List.mem_append, hidx, List.mem_singleton] at hx
    have : x = i := hx.elim id (h x)
    simp [hidx, this]
  rw [hidx] at hc
  simp only [desugar, hidx, hc, desugarE_nil]

theorem indexesOf_lit {c : SExpr} (h : isLit c = true) : indexesOf c = [] := by
  rcases isLit_cases h with ⟨v, rfl⟩ | ⟨v, rfl⟩ <;> rfl

theorem indexesOf_sp1 {i b : String} {e : SExpr} (h : Sp1Rhs i b e) : ∀ x ∈ indexesOf e, x = i := by
  intro x hx
  cases h with
  | copy => simpa [indexesOf, mem_dedup] using hx
  | scaleL c hc => simpa [indexesOf, mem_dedup, indexesOf_lit hc] using hx
  | scaleR c hc => simpa [indexesOf, mem_dedup, indexesOf_lit hc] using hx

theorem Sparse1Source.desugar {a : Assign} {formats : Formats} {i b : String}
    (hc : Sparse1Source a formats i b) : desugar a = ⟨a.tname, [i], (plainE a.rhs 1).1⟩ :=
  desugar_eq_of_idx a i hc.tidx (indexesOf_sp1 hc.rhs)

/-- the class never triggers the known defect of the desugaring pass -/
theorem productHoistUnsafe_sp1 {i b : String} {e : SExpr} (h : Sp1Rhs i b e) :
    productHoistUnsafe [i] e = false := by
  cases h with
  | copy => rfl
  | scaleL c hc => rcases isLit_cases hc with ⟨v, rfl⟩ | ⟨v, rfl⟩ <;> rfl
  | scaleR c hc => rcases isLit_cases hc with ⟨v, rfl⟩ | ⟨v, rfl⟩ <;> rfl

/-! ### the candidate graphs -/

theorem legalIterationOrders_sparse1 : legalIterationOrders [Mode.compressed] = [[0]] := by decide

theorem tensorId_spOut (tname b i : String) :
    tensorId 0 tname [(tname, fmtS), (b, fmtS)] [i] = some (spOut tname i) := by
  simp [tensorId, spOut]
  rfl

theorem tensorId_spB (tname b i : String) (hne : b ≠ tname) (k : Nat) :
    tensorId k b [(tname, fmtS), (b, fmtS)] [i] =
      some ⟨toString k ++ "_" ++ b, b, [i], [.compressed]⟩ := by
  have : (tname == b) = false := beq_eq_false_iff_ne.2 (Ne.symm hne)
  simp [tensorId, List.find?, this]

theorem graphsOf_mul_single (formats : Formats) (l r : DExpr) (x y : IGraph)
    (hl : graphsOf formats l = .ok [x]) (hr : graphsOf formats r = .ok [y]) :
    graphsOf formats (.mul l r) = .ok (mergeMultiply x y) := by
  simp only [graphsOf, hl, hr, bind, Except.bind, pure, Except.pure, List.isEmpty_cons,
    Bool.false_eq_true, if_false, List.flatMap_cons, List.flatMap_nil, List.append_nil]

/-- **the candidates of a right-hand side of the class**: exactly one, one loop over `i` around the
terminal expression -/
theorem graphsOf_sp1 {i b tname : String} (hne : b ≠ tname) {e : SExpr} (h : Sp1Rhs i b e) :
    graphsOf [(tname, fmtS), (b, fmtS)] (plainE e 1).1 =
      .ok [.iter i none (.terminal (toIdS i (plainE e 1).1))] := by
  have ht : ∀ k, graphsOf [(tname, fmtS), (b, fmtS)] (.tensor k b [i]) =
      .ok [cand i true (.tensor ⟨toString k ++ "_" ++ b, b, [i], [.compressed]⟩)] := by
    intro k
    simp only [graphsOf, tensorId_spB tname b i hne k, hasDup, List.contains_nil, Bool.or_self,
      legalIterationOrders_sparse1]
    rfl
  cases h with
  | copy => exact ht 1
  | scaleL c hc =>
    rcases isLit_cases hc with ⟨v, rfl⟩ | ⟨v, rfl⟩
    · exact (graphsOf_mul_single _ _ _ (cand i false (.int v)) _ rfl (ht 1)).trans
        (congrArg Except.ok (mergeMultiply_cand i false true (.int v) _))
    · exact (graphsOf_mul_single _ _ _ (cand i false (.flt v)) _ rfl (ht 1)).trans
        (congrArg Except.ok (mergeMultiply_cand i false true (.flt v) _))
  | scaleR c hc =>
    rcases isLit_cases hc with ⟨v, rfl⟩ | ⟨v, rfl⟩
    · exact (graphsOf_mul_single _ _ _ _ (cand i false (.int v)) (ht 1) rfl).trans
        (congrArg Except.ok (mergeMultiply_cand i true false _ (.int v)))
    · exact (graphsOf_mul_single _ _ _ _ (cand i false (.flt v)) (ht 1) rfl).trans
        (congrArg Except.ok (mergeMultiply_cand i true false _ (.flt v)))

/-- **the candidates of an assignment of the class**: exactly one, the graph of `Sparse1` -/
theorem toIterationGraphs_sp1 {a : Assign} {formats : Formats} {i b : String}
    (hc : Sparse1Source a formats i b) :
    toIterationGraphs (desugar a) formats =
      .ok [.iter i (some ⟨spOut a.tname i, 0⟩) (.terminal (spE a i))] := by
  rw [hc.desugar, hc.fmts]
  have ht : graphsOf [(a.tname, fmtS), (b, fmtS)] (.tensor 0 a.tname [i]) =
      .ok [.iter i none (.terminal (.tensor (spOut a.tname i)))] := by
    simp only [graphsOf, tensorId_spOut, spOut, hasDup, List.contains_nil, Bool.or_self,
      legalIterationOrders_sparse1]
    rfl
  have hl : (List.range (spOut a.tname i).indexes.length).map
      (fun l => ((spOut a.tname i).indexes.getD l "", (⟨spOut a.tname i, l⟩ : Leaf))) =
      [(i, ⟨spOut a.tname i, 0⟩)] := by
    simp [spOut, List.range, List.range.loop]
  unfold toIterationGraphs
  simp only [tensorId_spOut, hl, ht, graphsOf_sp1 hc.ne hc.rhs, bind, Except.bind, pure, Except.pure,
    List.isEmpty_cons, Bool.false_eq_true, if_false, List.flatMap_cons, List.flatMap_nil,
    List.append_nil]
  exact congrArg Except.ok (mergeAssignment_cand i (spOut a.tname i) none _ true _)

/-! ### the meaning of the terminal expression -/

/-- the terminal expression, its single tensor read as `inp b [c]`, means what the desugared tree
means at coordinate `c` -/
theorem value_sp1 (inp : Inputs) (sz : Sizes) {i b : String} {e : SExpr} (h : Sp1Rhs i b e) (c : Nat) :
    value (fun _ => inp b [c]) (toIdS i (plainE e 1).1) = denoteD inp sz (plainE e 1).1 [(i, c)] := by
  cases h with
  | copy => simp [plainE, toIdS, value, denoteD, Env.get]
  | scaleL l hl =>
    rcases isLit_cases hl with ⟨v, rfl⟩ | ⟨v, rfl⟩ <;> simp [plainE, toIdS, value, denoteD, Env.get]
  | scaleR r hr =>
    rcases isLit_cases hr with ⟨v, rfl⟩ | ⟨v, rfl⟩ <;> simp [plainE, toIdS, value, denoteD, Env.get]

/-- the float meaning of the terminal expression, its tensor read as `x`, is the float meaning
`Pipe1.denoteF` of the source expression (every source expression, not only the class) -/
theorem valueF_toIdS {F : Type} [FloatOps F] (ofRat : Rat → F) (x : F) (i : String) (e : SExpr) :
    ∀ n, ToIr.valueF ofRat (fun _ => x) (toIdS i (plainE e n).1) = denoteF ofRat (fun _ => x) e := by
  induction e with
  | int v => intro n; rfl
  | flt v => intro n; rfl
  | tensor name idx => intro n; rfl
  | add l r ihl ihr => intro n; simp only [plainE, toIdS, ToIr.valueF, denoteF, ihl, ihr]
  | sub l r ihl ihr => intro n; simp only [plainE, toIdS, ToIr.valueF, denoteF, ihl, ihr]
  | mul l r ihl ihr => intro n; simp only [plainE, toIdS, ToIr.valueF, denoteF, ihl, ihr]

/-- a coordinate at which `b` stores nothing (reads `0`) contributes `0`: the terminal expression
vanishes there -/
theorem value_sp1_zero {i b : String} {e : SExpr} (h : Sp1Rhs i b e) :
    value (fun _ => 0) (toIdS i (plainE e 1).1) = 0 := by
  cases h with
  | copy => rfl
  | scaleL l hl =>
    rcases isLit_cases hl with ⟨v, rfl⟩ | ⟨v, rfl⟩ <;> simp [plainE, toIdS, value]
  | scaleR r hr =>
    rcases isLit_cases hr with ⟨v, rfl⟩ | ⟨v, rfl⟩ <;> simp [plainE, toIdS, value]

/-! ### the side conditions of the kernel theorem -/

theorem spE_leaves {i b : String} {e : SExpr} (h : Sp1Rhs i b e) :
    ToIr.leaves (toIdS i (plainE e 1).1) = [spB b i] := by
  cases h with
  | copy => rfl
  | scaleL l hl => rcases isLit_cases hl with ⟨v, rfl⟩ | ⟨v, rfl⟩ <;> rfl
  | scaleR r hr => rcases isLit_cases hr with ⟨v, rfl⟩ | ⟨v, rfl⟩ <;> rfl

theorem extractContext_spB (b i : String) : (extractContext (.tensor (spB b i)) i).isSparse = true := by
  simp [extractContext, spB, List.findIdx?_cons]

theorem spE_sparse {i b : String} {e : SExpr} (h : Sp1Rhs i b e) :
    (extractContext (toIdS i (plainE e 1).1) i).isSparse = true := by
  have hb : (extractContext (.tensor ⟨toString 1 ++ "_" ++ b, b, [i], [.compressed]⟩) i).isSparse = true :=
    extractContext_spB b i
  cases h with
  | copy => exact hb
  | scaleL l hl =>
    rcases isLit_cases hl with ⟨v, rfl⟩ | ⟨v, rfl⟩ <;>
    · show ((extractContext _ i).mul (extractContext _ i)).isSparse = true
      simp only [Context.mul]
      exact Bool.or_eq_true_iff.2 (Or.inr hb)
  | scaleR r hr =>
    rcases isLit_cases hr with ⟨v, rfl⟩ | ⟨v, rfl⟩ <;>
    · show ((extractContext _ i).mul (extractContext _ i)).isSparse = true
      simp only [Context.mul]
      exact Bool.or_eq_true_iff.2 (Or.inl hb)

/-- the terminal expression is in the class of the kernel theorem -/
theorem spE_isExpr {a : Assign} {formats : Formats} {i b : String} (hc : Sparse1Source a formats i b) :
    Sparse1.isExpr i (spB b i) (spE a i) = true := by
  unfold Sparse1.isExpr spE
  rw [spE_leaves hc.rhs, spE_sparse hc.rhs]
  simp [Sparse1.isSp, spB]

theorem spOut_isSp (tname i : String) : Sparse1.isSp i (spOut tname i) = true := by
  simp [Sparse1.isSp, spOut]

theorem rhsIdx_sp1 {i b : String} {e : SExpr} (h : Sp1Rhs i b e) :
    Dense1.rhsIdx i (plainE e 1).1 = true := by
  cases h with
  | copy => simp [plainE, Dense1.rhsIdx]
  | scaleL l hl => rcases isLit_cases hl with ⟨v, rfl⟩ | ⟨v, rfl⟩ <;> simp [plainE, Dense1.rhsIdx]
  | scaleR r hr => rcases isLit_cases hr with ⟨v, rfl⟩ | ⟨v, rfl⟩ <;> simp [plainE, Dense1.rhsIdx]

theorem sparseFormats_sp1 (tname b : String) :
    Sparse1.sparseFormats [(tname, fmtS), (b, fmtS)] = true := by
  simp [Sparse1.sparseFormats]

/-- the ids `0_<a>` and `1_<b>` differ -/
theorem spIds_ne (tname b i : String) : (spOut tname i).id ≠ (spB b i).id := by
  intro h
  have h' := congrArg String.toList h
  simp only [spOut, spB, String.toList_append] at h'
  have e0 : ("0_" : String).toList = ['0', '_'] := rfl
  have e1 : ("1_" : String).toList = ['1', '_'] := rfl
  rw [e0, e1] at h'
  simp at h'

theorem Sparse1Source.kernelOK {a : Assign} {formats : Formats} {i b : String}
    (hc : Sparse1Source a formats i b) (hn : Sparse1Names a i b) :
    Sparse1.KernelOK formats i (spOut a.tname i) (spB b i) :=
  ⟨⟨hn.iu, hn.au, hn.bu, fun h => hc.ne h.symm, hn.ia, hn.ib, spIds_ne a.tname b i⟩, by
    rw [hc.fmts]; rfl⟩

end TV.Pipe2
