import TensoraVerif.Lemmas.Pipe1Class
import TensoraVerif.Lemmas.Pipe2DenseGraphs

/-!
C01, full pipeline for dense element-wise assignments of EVERY order (front half of
`Props/C01DenseN.lean`), part 1: the class of SOURCE assignments (`srcOkN`, `isDN`), what `desugar`
does on it (no contraction: `desugarN_eq`), and the head of the legal iteration orders of an all-dense
format (`legalIterationOrders_replicate`: the identity order comes first among the `n!` orders).
-/
namespace TV.Pipe3
open TV.Alg TV.Graph TV.Pipe1

/-- the format table gives tensor `name` the all-dense format of order `n` with the identity
ordering (`d`, `dd`, `ddd`, …) -/
def isDN (formats : Formats) (n : Nat) (name : String) : Bool :=
  match formats.find? (·.1 == name) with
  | some (_, modes, ordering) => modes == List.replicate n Mode.dense && ordering == List.range n
  | none => false

/-- the right-hand sides of the class: literals, `add`/`sub`/`mul`, and references `t(is)` — exactly
the index list of the target — to a tensor other than the target with the all-dense identity format
of order `is.length` -/
def srcOkN (is : List String) (tname : String) (formats : Formats) : SExpr → Bool
  | .int _ => true
  | .flt _ => true
  | .tensor n idx => idx == is && n != tname && isDN formats is.length n
  | .add l r => srcOkN is tname formats l && srcOkN is tname formats r
  | .sub l r => srcOkN is tname formats l && srcOkN is tname formats r
  | .mul l r => srcOkN is tname formats l && srcOkN is tname formats r

/-- the desugared trees of the class -/
def dOkN (is : List String) (tname : String) (formats : Formats) : DExpr → Bool
  | .int _ => true
  | .flt _ => true
  | .tensor _ n idx => idx == is && n != tname && isDN formats is.length n
  | .add l r => dOkN is tname formats l && dOkN is tname formats r
  | .mul l r => dOkN is tname formats l && dOkN is tname formats r
  | .contract _ _ => false

/-- the identifier assignment of `graphsOf` on the class: occurrence number `k` of tensor `name`
becomes the tensor `<k>_<name>`, indexed by `is`, every level dense -/
def toIdN (is : List String) : DExpr → IdExpr
  | .int v => .int v
  | .flt v => .flt v
  | .tensor id name _ =>
    .tensor ⟨toString id ++ "_" ++ name, name, is, List.replicate is.length Mode.dense⟩
  | .add l r => .add (toIdN is l) (toIdN is r)
  | .mul l r => .mul (toIdN is l) (toIdN is r)
  | .contract _ e => toIdN is e

/-! ### `desugar` on the class -/

theorem indexesOf_srcOkN (is : List String) (tname : String) (formats : Formats) (e : SExpr)
    (h : srcOkN is tname formats e = true) : ∀ x ∈ indexesOf e, x ∈ is := by
  induction e with
  | int v => intro x hx; simp [indexesOf] at hx
  | flt v => intro x hx; simp [indexesOf] at hx
  | tensor name idx =>
    intro x hx
    simp only [srcOkN, Bool.and_eq_true, beq_iff_eq] at h
    simp only [indexesOf, mem_dedup, h.1.1] at hx
    exact hx
  | add l r ihl ihr =>
    intro x hx
    simp only [srcOkN, Bool.and_eq_true] at h
    simp only [indexesOf, mem_dedup, List.mem_append] at hx
    exact hx.elim (ihl h.1 x) (ihr h.2 x)
  | sub l r ihl ihr =>
    intro x hx
    simp only [srcOkN, Bool.and_eq_true] at h
    simp only [indexesOf, mem_dedup, List.mem_append] at hx
    exact hx.elim (ihl h.1 x) (ihr h.2 x)
  | mul l r ihl ihr =>
    intro x hx
    simp only [srcOkN, Bool.and_eq_true] at h
    simp only [indexesOf, mem_dedup, List.mem_append] at hx
    exact hx.elim (ihl h.1 x) (ihr h.2 x)

/-- an assignment whose right-hand side mentions only indexes of the target has no contraction
(every target index list) -/
theorem desugar_eq_of_sub (a : Assign) (h : ∀ x ∈ indexesOf a.rhs, x ∈ a.tidx) :
    desugar a = ⟨a.tname, a.tidx, (plainE a.rhs 1).1⟩ := by
  have hc : (dedup (a.tidx ++ indexesOf a.rhs)).filter (fun x => !a.tidx.contains x) = [] := by
    apply List.filter_eq_nil_iff.2
    intro x hx
    simp only [mem_dedup, List.mem_append] at hx
    have : x ∈ a.tidx := hx.elim id (h x)
    simp [this]
  simp only [desugar, hc, desugarE_nil]

/-- **`desugar` on the class**: no contraction index, the right-hand side is translated plainly -/
theorem desugarN_eq (a : Assign) (is : List String) (formats : Formats) (hidx : a.tidx = is)
    (h : srcOkN is a.tname formats a.rhs = true) :
    desugar a = ⟨a.tname, is, (plainE a.rhs 1).1⟩ := by
  rw [desugar_eq_of_sub a (by rw [hidx]; exact indexesOf_srcOkN is a.tname formats a.rhs h), hidx]

theorem plainE_dOkN (is : List String) (tname : String) (formats : Formats) (e : SExpr)
    (h : srcOkN is tname formats e = true) : ∀ n, dOkN is tname formats (plainE e n).1 = true := by
  induction e with
  | int v => intro n; rfl
  | flt v => intro n; rfl
  | tensor name idx => intro n; exact h
  | add l r ihl ihr =>
    intro n
    simp only [srcOkN, Bool.and_eq_true] at h
    simp only [plainE, dOkN, ihl h.1, ihr h.2, Bool.and_self]
  | sub l r ihl ihr =>
    intro n
    simp only [srcOkN, Bool.and_eq_true] at h
    simp only [plainE, dOkN, ihl h.1, ihr h.2, Bool.and_self]
  | mul l r ihl ihr =>
    intro n
    simp only [srcOkN, Bool.and_eq_true] at h
    simp only [plainE, dOkN, ihl h.1, ihr h.2, Bool.and_self]

/-- the class never triggers the known defect of the desugaring pass: no product shares an index
that is absent from the target -/
theorem productHoistUnsafe_srcOkN (is : List String) (tname : String) (formats : Formats) (e : SExpr)
    (h : srcOkN is tname formats e = true) : productHoistUnsafe is e = false := by
  induction e with
  | int v => rfl
  | flt v => rfl
  | tensor name idx => rfl
  | add l r ihl ihr =>
    simp only [srcOkN, Bool.and_eq_true] at h
    simp only [productHoistUnsafe, ihl h.1, ihr h.2, Bool.or_self]
  | sub l r ihl ihr =>
    simp only [srcOkN, Bool.and_eq_true] at h
    simp only [productHoistUnsafe, ihl h.1, ihr h.2, Bool.or_self]
  | mul l r ihl ihr =>
    simp only [srcOkN, Bool.and_eq_true] at h
    have hs : ((indexesOf l).filter (indexesOf r).contains).filter (fun x => !is.contains x) = [] := by
      apply List.filter_eq_nil_iff.2
      intro x hx
      have : x ∈ is := indexesOf_srcOkN is tname formats l h.1 x (List.mem_filter.1 hx).1
      simp [this]
    simp only [productHoistUnsafe, hs, List.any_nil, ihl h.1, ihr h.2, Bool.or_self]

/-! ### the legal iteration orders of an all-dense format: the identity comes first -/

theorem reorderableGroups_dense (m : Nat) : ∀ (i : Nat) (acc : List (List Nat)) (g : List Nat),
    reorderableGroups (List.replicate m Mode.dense) i false (acc ++ [g]) =
      acc ++ [g ++ List.range' i m] := by
  induction m with
  | zero => intro i acc g; simp [reorderableGroups]
  | succ m ih =>
    intro i acc g
    simp only [List.replicate_succ, reorderableGroups, Bool.false_eq_true, if_false,
      List.dropLast_concat, List.getLastD_concat]
    rw [ih (i + 1) acc (g ++ [i])]
    simp [List.range'_succ]

theorem reorderableGroups_replicate_succ (m : Nat) :
    reorderableGroups (List.replicate (m + 1) Mode.dense) 0 true [] = [List.range (m + 1)] := by
  simp only [List.replicate_succ, reorderableGroups, if_true]
  have := reorderableGroups_dense m 1 [] [0]
  simp only [List.nil_append, Nat.zero_add] at this ⊢
  rw [this, List.range_eq_range', List.range'_succ]
  rfl

/-- the first permutation that `itertools.permutations` yields is the identity -/
theorem perms_head : ∀ (fuel : Nat) (l : List Nat), l.Nodup → l.length ≤ fuel →
    (perms fuel l).head? = some l := by
  intro fuel
  induction fuel with
  | zero => intro l _ hl; have : l = [] := List.length_eq_zero_iff.1 (by omega); subst this; rfl
  | succ fuel ih =>
    intro l hn hl
    cases l with
    | nil => rfl
    | cons x xs =>
      rw [List.nodup_cons] at hn
      have hf : (x :: xs).filter (· != x) = xs := by
        rw [List.filter_cons]
        simp only [bne_self_eq_false, Bool.false_eq_true, if_false]
        apply List.filter_eq_self.2
        intro y hy
        have : y ≠ x := fun e => hn.1 (e ▸ hy)
        simpa using this
      have h1 := ih xs hn.2 (by simpa using hl)
      simp only [perms]
      apply TV.Pipe2.head?_flatMap_cons
      rw [hf]
      cases hp : perms fuel xs with
      | nil => simp [hp] at h1
      | cons p ps =>
        simp only [hp, List.head?_cons, Option.some.injEq] at h1
        simp [h1]

/-- **the identity order is the first legal iteration order of an all-dense format** (there are
`n!` of them) -/
theorem legalIterationOrders_replicate (n : Nat) :
    (legalIterationOrders (List.replicate n Mode.dense)).head? = some (List.range n) := by
  cases n with
  | zero => rfl
  | succ m =>
    unfold legalIterationOrders
    simp only [reorderableGroups_replicate_succ, List.map_cons, List.map_nil, cartesian]
    have h1 := perms_head (List.range (m + 1)).length (List.range (m + 1)) List.nodup_range (Nat.le_refl _)
    generalize perms (List.range (m + 1)).length (List.range (m + 1)) = ps0 at h1 ⊢
    cases hp : ps0 with
    | nil => simp [hp] at h1
    | cons p ps =>
      simp only [hp, List.head?_cons, Option.some.injEq] at h1
      subst h1
      simp

end TV.Pipe3
