import TensoraVerif.Lemmas.Pipe3DenseNClass
import TensoraVerif.Lemmas.DenseNModel

/-!
C01, full pipeline for dense element-wise assignments of every order, part 2: the FIRST candidate
graph. A tensor with `n` dense levels has `n!` legal iteration orders, so `graphsOf` returns many
candidates; `bestAlgorithm` takes the head of the list. `graphsOf_headN`: the head of the candidates
of a tree of the class is the nest over `is` (identity order) around the terminal `toIdN is d`;
`mergeWith` / `mergeAssignment` of two nests over the SAME index list give exactly one nest
(`mergeWith_candN`, `mergeAssignment_nest`); `toIterationGraphs_headN`: the head of the candidates of
an assignment of the class is `DenseN.graph is out (toIdN is d)`.
-/
namespace TV.Pipe3
open TV.Alg TV.Graph TV.Pipe1

/-- the loop nest over `is`, no output attached, around `g` -/
def nestNone (is : List String) (g : IGraph) : IGraph := is.foldr (fun i g => .iter i none g) g

/-- the first candidate graph of a tree of the class -/
def candN (is : List String) (b : Bool) (e : IdExpr) : IGraph :=
  if b then nestNone is (.terminal e) else .terminal e

@[simp] theorem nestNone_nil (g : IGraph) : nestNone [] g = g := rfl
@[simp] theorem nestNone_cons (i : String) (is : List String) (g : IGraph) :
    nestNone (i :: is) g = .iter i none (nestNone is g) := rfl

theorem nestNone_size (is : List String) (g : IGraph) : (nestNone is g).size = is.length + g.size := by
  induction is with
  | nil => simp
  | cons i is ih => simp [IGraph.size, ih]; omega

theorem mergeWith_nest_nest (op : IdExpr → IdExpr → IdExpr) (x y : IdExpr) (is : List String) :
    ∀ fuel, is.length + 1 ≤ fuel →
    mergeWith op fuel (nestNone is (.terminal x)) (nestNone is (.terminal y)) =
      [nestNone is (.terminal (op x y))] := by
  induction is with
  | nil => intro fuel h; obtain ⟨f, rfl⟩ := Nat.exists_eq_add_of_le h; simp [Nat.add_comm 1 f, mergeWith]
  | cons i is ih =>
    intro fuel h
    obtain ⟨f, rfl⟩ : ∃ f, fuel = f + 1 := ⟨fuel - 1, by simp at h; omega⟩
    simp only [nestNone_cons, mergeWith, beq_self_eq_true, if_true]
    rw [ih f (by simp at h; omega)]
    rfl

theorem mergeWith_nest_term (op : IdExpr → IdExpr → IdExpr) (x y : IdExpr) (is : List String) :
    ∀ fuel, is.length + 1 ≤ fuel →
    mergeWith op fuel (nestNone is (.terminal x)) (.terminal y) =
      [nestNone is (.terminal (op x y))] := by
  induction is with
  | nil => intro fuel h; obtain ⟨f, rfl⟩ := Nat.exists_eq_add_of_le h; simp [Nat.add_comm 1 f, mergeWith]
  | cons i is ih =>
    intro fuel h
    obtain ⟨f, rfl⟩ : ∃ f, fuel = f + 1 := ⟨fuel - 1, by simp at h; omega⟩
    simp only [nestNone_cons, mergeWith]
    rw [ih f (by simp at h; omega)]
    rfl

theorem mergeWith_term_nest (op : IdExpr → IdExpr → IdExpr) (x y : IdExpr) (is : List String) :
    ∀ fuel, is.length + 1 ≤ fuel →
    mergeWith op fuel (.terminal x) (nestNone is (.terminal y)) =
      [nestNone is (.terminal (op x y))] := by
  induction is with
  | nil => intro fuel h; obtain ⟨f, rfl⟩ := Nat.exists_eq_add_of_le h; simp [Nat.add_comm 1 f, mergeWith]
  | cons i is ih =>
    intro fuel h
    obtain ⟨f, rfl⟩ : ∃ f, fuel = f + 1 := ⟨fuel - 1, by simp at h; omega⟩
    simp only [nestNone_cons, mergeWith]
    rw [ih f (by simp at h; omega)]
    rfl

/-- **merging the nests of two operands over the same index list gives exactly one nest** -/
theorem mergeWith_candN (op : IdExpr → IdExpr → IdExpr) (is : List String) (bl br : Bool) (x y : IdExpr) :
    mergeWith op ((candN is bl x).size + (candN is br y).size + 1) (candN is bl x) (candN is br y) =
      [candN is (bl || br) (op x y)] := by
  cases bl <;> cases br <;> simp only [candN, if_true, Bool.false_eq_true, if_false, Bool.or_self,
    Bool.or_true, Bool.or_false]
  · simp [mergeWith]
  · exact mergeWith_term_nest op x y is _ (by simp [nestNone_size, IGraph.size] <;> omega)
  · exact mergeWith_nest_term op x y is _ (by simp [nestNone_size, IGraph.size] <;> omega)
  · exact mergeWith_nest_nest op x y is _ (by simp [nestNone_size, IGraph.size] <;> omega)

/-! ### the tensor leaves -/

theorem range_map_getD (is : List String) : (List.range is.length).map (fun k => is.getD k "") = is := by
  apply List.ext_getElem (by simp)
  intro k h1 h2
  simp only [List.length_map, List.length_range] at h1
  simp [List.getD_eq_getElem?_getD, h1]

theorem hasDup_of_nodup : ∀ {xs : List String}, xs.Nodup → hasDup xs = false
  | [], _ => rfl
  | x :: xs, h => by
    rw [List.nodup_cons] at h
    simp [hasDup, h.1, hasDup_of_nodup h.2]

/-- the format entry of a tensor of the class -/
theorem tensorId_eqN (formats : Formats) (id : Nat) (name : String) (is : List String)
    (hm : isDN formats is.length name = true) :
    tensorId id name formats is =
      some ⟨toString id ++ "_" ++ name, name, is, List.replicate is.length Mode.dense⟩ := by
  unfold isDN at hm
  unfold tensorId
  cases hfind : formats.find? (·.1 == name) with
  | none => simp [hfind] at hm
  | some f =>
    obtain ⟨n, modes, ord⟩ := f
    simp only [hfind, Bool.and_eq_true, beq_iff_eq] at hm
    obtain ⟨rfl, rfl⟩ := hm
    simp only [range_map_getD]

theorem isDN_mem (formats : Formats) (n : Nat) (name : String) (hm : isDN formats n name = true) :
    name ∈ formats.map (·.1) := by
  unfold isDN at hm
  cases hfind : formats.find? (·.1 == name) with
  | none => simp [hfind] at hm
  | some f =>
    have h1 := List.mem_of_find?_eq_some hfind
    have h2 := List.find?_some hfind
    simp only [beq_iff_eq] at h2
    exact List.mem_map.2 ⟨f, h1, h2⟩

/-- the candidates of a tensor of the class: the identity nest comes first -/
theorem graphsOf_tensorN (formats : Formats) (id : Nat) (name : String) (is : List String)
    (hnd : is.Nodup) (hm : isDN formats is.length name = true) :
    ∃ gs, graphsOf formats (.tensor id name is) = .ok gs ∧
      gs.head? = some (nestNone is (.terminal (.tensor
        ⟨toString id ++ "_" ++ name, name, is, List.replicate is.length Mode.dense⟩))) := by
  simp only [graphsOf, tensorId_eqN formats id name is hm, hasDup_of_nodup hnd, Bool.false_eq_true,
    if_false]
  refine ⟨_, rfl, ?_⟩
  rw [List.head?_map, legalIterationOrders_replicate]
  simp only [Option.map_some, Option.some.injEq]
  rw [← List.foldr_map (g := fun i g => IGraph.iter i none g) (f := fun l => is.getD l ""),
    range_map_getD]
  rfl

theorem containsContraction_dOkN (is : List String) (tname : String) (formats : Formats) (d : DExpr)
    (h : dOkN is tname formats d = true) : containsContraction d = false := by
  induction d with
  | int v => rfl
  | flt v => rfl
  | tensor id name idx => rfl
  | add l r ihl ihr =>
    simp only [dOkN, Bool.and_eq_true] at h
    simp only [containsContraction, ihl h.1, ihr h.2, Bool.or_self]
  | mul l r ihl ihr =>
    simp only [dOkN, Bool.and_eq_true] at h
    simp only [containsContraction, ihl h.1, ihr h.2, Bool.or_self]
  | contract j e ih => simp [dOkN] at h

/-- **the first candidate of a right-hand side of the class** -/
theorem graphsOf_headN (is : List String) (tname : String) (formats : Formats) (hnd : is.Nodup)
    (d : DExpr) (h : dOkN is tname formats d = true) :
    ∃ gs, graphsOf formats d = .ok gs ∧ gs.head? = some (candN is (hasT d) (toIdN is d)) := by
  induction d with
  | int v => exact ⟨_, rfl, rfl⟩
  | flt v => exact ⟨_, rfl, rfl⟩
  | tensor id name idx =>
    simp only [dOkN, Bool.and_eq_true, beq_iff_eq] at h
    obtain ⟨⟨rfl, _⟩, hm⟩ := h
    exact graphsOf_tensorN formats id name idx hnd hm
  | add l r ihl ihr =>
    have hc := containsContraction_dOkN is tname formats _ h
    simp only [dOkN, Bool.and_eq_true] at h
    simp only [containsContraction, Bool.or_eq_false_iff] at hc
    obtain ⟨ls, hl, hlh⟩ := ihl h.1
    obtain ⟨rs, hr, hrh⟩ := ihr h.2
    cases ls with
    | nil => simp at hlh
    | cons gl ls =>
      cases rs with
      | nil => simp at hrh
      | cons gr rs =>
        simp only [List.head?_cons, Option.some.injEq] at hlh hrh
        subst hlh hrh
        simp only [graphsOf, hl, hr, hc.1, hc.2, bind, Except.bind, pure, Except.pure,
          List.isEmpty_cons, Bool.false_eq_true, if_false, Bool.or_self, Bool.not_false, if_true]
        refine ⟨_, rfl, ?_⟩
        apply TV.Pipe2.head?_flatMap_cons
        apply TV.Pipe2.head?_flatMap_cons
        simp only [mergeAdd, mergeWith_candN, hasT, toIdN, List.head?_cons]
  | mul l r ihl ihr =>
    simp only [dOkN, Bool.and_eq_true] at h
    obtain ⟨ls, hl, hlh⟩ := ihl h.1
    obtain ⟨rs, hr, hrh⟩ := ihr h.2
    cases ls with
    | nil => simp at hlh
    | cons gl ls =>
      cases rs with
      | nil => simp at hrh
      | cons gr rs =>
        simp only [List.head?_cons, Option.some.injEq] at hlh hrh
        subst hlh hrh
        simp only [graphsOf, hl, hr, bind, Except.bind, pure, Except.pure,
          List.isEmpty_cons, Bool.false_eq_true, if_false]
        refine ⟨_, rfl, ?_⟩
        apply TV.Pipe2.head?_flatMap_cons
        apply TV.Pipe2.head?_flatMap_cons
        simp only [mergeMultiply, mergeWith_candN, hasT, toIdN, List.head?_cons]
  | contract j e ih => simp [dOkN] at h

/-! ### weaving in the target -/

/-- the nest over `is` carrying the output layers `layers` -/
def nestOut (layers : List (String × Leaf)) (is : List String) (x : IdExpr) : IGraph :=
  is.foldr (fun i g => .iter i (layerOf layers i) g) (.terminal x)

/-- **weaving the target nest into the nest of the right-hand side gives exactly one nest** -/
theorem mergeAssignment_nest (layers : List (String × Leaf)) (t x : IdExpr) (is : List String) :
    ∀ fuel, is.length + 1 ≤ fuel → ∀ b,
    mergeAssignment layers fuel (nestNone is (.terminal t)) (candN is b x) = [nestOut layers is x] := by
  induction is with
  | nil =>
    intro fuel h b
    obtain ⟨f, rfl⟩ := Nat.exists_eq_add_of_le h
    cases b <;> simp [Nat.add_comm 1 f, mergeAssignment, candN, nestOut]
  | cons i is ih =>
    intro fuel h b
    obtain ⟨f, rfl⟩ : ∃ f, fuel = f + 1 := ⟨fuel - 1, by simp at h; omega⟩
    have hf : is.length + 1 ≤ f := by simp at h; omega
    cases b
    · have := ih f hf false
      simp only [candN, Bool.false_eq_true, if_false] at this
      simp only [candN, Bool.false_eq_true, if_false, nestNone_cons, mergeAssignment, this]
      rfl
    · have := ih f hf true
      simp only [candN, if_true] at this
      simp only [candN, if_true, nestNone_cons, mergeAssignment, beq_self_eq_true, this]
      rfl

/-- the output layers, level `k` onwards -/
def layersFrom (out : TensorId) : Nat → List String → List (String × Leaf)
  | _, [] => []
  | k, x :: xs => (x, ⟨out, k⟩) :: layersFrom out (k + 1) xs

theorem layers_eq_from (out : TensorId) : ∀ (xs pre : List String),
    (List.range' pre.length xs.length).map (fun l => ((pre ++ xs).getD l "", (⟨out, l⟩ : Leaf))) =
      layersFrom out pre.length xs := by
  intro xs
  induction xs with
  | nil => intro pre; rfl
  | cons x xs ih =>
    intro pre
    have := ih (pre ++ [x])
    simp only [List.length_append, List.length_cons, List.length_nil, Nat.zero_add,
      List.append_assoc, List.cons_append, List.nil_append] at this
    simp only [List.length_cons, List.range'_succ, List.map_cons, layersFrom, this]
    simp [List.getD_eq_getElem?_getD]

theorem layerOf_from (out : TensorId) (i : String) (rest : List String) : ∀ (pre : List String) (k : Nat),
    i ∉ pre → layerOf (layersFrom out k (pre ++ i :: rest)) i = some ⟨out, k + pre.length⟩ := by
  intro pre
  induction pre with
  | nil => intro k _; simp [layersFrom, layerOf]
  | cons p pre ih =>
    intro k h
    have hp : (p == i) = false := beq_eq_false_iff_ne.2 (fun e => h (by simp [e]))
    have := ih (k + 1) (fun hm => h (by simp [hm]))
    simp only [layerOf] at this ⊢
    simp only [List.cons_append, layersFrom, List.find?_cons, hp, this, List.length_cons]
    congr 2; omega

/-- with pairwise distinct indexes, the nest carrying the output layers is the nest of `DenseN` -/
theorem nestOut_eq (out : TensorId) (full : List String) (hnd : full.Nodup) (x : IdExpr) :
    ∀ (rest pre : List String), full = pre ++ rest →
    nestOut (layersFrom out 0 full) rest x = DenseN.nest out x pre.length rest := by
  intro rest
  induction rest with
  | nil => intro pre _; rfl
  | cons i rest ih =>
    intro pre hfull
    have hi : i ∉ pre := by
      rw [hfull] at hnd
      exact fun hm => (List.nodup_append.1 hnd).2.2 i hm i (by simp) rfl
    have h1 := layerOf_from out i rest pre 0 hi
    rw [← hfull, Nat.zero_add] at h1
    have h2 := ih (pre ++ [i]) (by simp [hfull])
    simp only [List.length_append, List.length_cons, List.length_nil, Nat.zero_add] at h2
    simp only [nestOut, List.foldr_cons, DenseN.nest, h1] at h2 ⊢
    rw [h2]

/-- the output tensor as the graph builder names it -/
def outIdN (tname : String) (is : List String) : TensorId :=
  ⟨"0_" ++ tname, tname, is, List.replicate is.length Mode.dense⟩

theorem tensorId_outN (formats : Formats) (tname : String) (is : List String)
    (hm : isDN formats is.length tname = true) :
    tensorId 0 tname formats is = some (outIdN tname is) :=
  tensorId_eqN formats 0 tname is hm

/-- **the first candidate of an assignment of the class** is the graph of `DenseN`: the nest over
`is` in the order of the target, level `l` carrying layer `l` of the output, around the terminal -/
theorem toIterationGraphs_headN (is : List String) (tname : String) (formats : Formats) (hnd : is.Nodup)
    (hm : isDN formats is.length tname = true) (d : DExpr) (h : dOkN is tname formats d = true) :
    ∃ gs, toIterationGraphs ⟨tname, is, d⟩ formats = .ok gs ∧
      gs.head? = some (DenseN.graph is (outIdN tname is) (toIdN is d)) := by
  obtain ⟨ts, ht, hth⟩ := graphsOf_tensorN formats 0 tname is hnd hm
  obtain ⟨es, he, heh⟩ := graphsOf_headN is tname formats hnd d h
  have hl : (List.range (outIdN tname is).indexes.length).map
      (fun l => ((outIdN tname is).indexes.getD l "", (⟨outIdN tname is, l⟩ : Leaf))) =
      layersFrom (outIdN tname is) 0 is := by
    have := layers_eq_from (outIdN tname is) is []
    simpa [List.range_eq_range', outIdN] using this
  cases ts with
  | nil => simp at hth
  | cons t ts =>
    cases es with
    | nil => simp at heh
    | cons e es =>
      simp only [List.head?_cons, Option.some.injEq] at hth heh
      subst hth heh
      unfold toIterationGraphs
      simp only [tensorId_outN formats tname is hm, hl, ht, he, bind, Except.bind, pure, Except.pure,
        List.isEmpty_cons, Bool.false_eq_true, if_false]
      refine ⟨_, rfl, ?_⟩
      apply TV.Pipe2.head?_flatMap_cons
      apply TV.Pipe2.head?_flatMap_cons
      rw [mergeAssignment_nest _ _ _ is _ (by simp [nestNone_size, IGraph.size] <;> omega)]
      simp only [List.head?_cons, DenseN.graph]
      rw [nestOut_eq (outIdN tname is) is hnd _ is [] rfl]
      rfl

end TV.Pipe3
