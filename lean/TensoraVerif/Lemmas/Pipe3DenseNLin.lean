import TensoraVerif.Lemmas.DenseNSpec

/-!
C01, full pipeline for dense element-wise assignments of every order, part 4: the inverse `unlin` of
the row-major linearisation `DenseN.lin` (every cell `c < Π d` is the cell of exactly one multi-index
below the dimensions).
-/
namespace TV.Pipe3
open TV.DenseN

/-- the multi-index of cell `c` in row-major storage with dimensions `ds` -/
def unlin : List Nat → Nat → List Nat
  | [], _ => []
  | _ :: ds, c => (c / prod ds) :: unlin ds (c % prod ds)

/-- `unlin` is a right inverse of `lin` on the cells `c < Π d` -/
theorem lin_unlin : ∀ (ds : List Nat) (q c : Nat), c < prod ds →
    Below (unlin ds c) ds ∧ lin q ds (unlin ds c) = q * prod ds + c
  | [], q, c, h => by
    simp only [prod] at h
    have : c = 0 := by omega
    subst this
    simp [unlin, Below, lin, prod]
  | d :: ds, q, c, h => by
    simp only [prod] at h
    have hP : 0 < prod ds := by
      rcases Nat.eq_zero_or_pos (prod ds) with h0 | h0
      · rw [h0] at h; simp at h
      · exact h0
    have hj : c / prod ds < d := (Nat.div_lt_iff_lt_mul hP).2 h
    have hr : c % prod ds < prod ds := Nat.mod_lt _ hP
    obtain ⟨hb, hl⟩ := lin_unlin ds (q * d + c / prod ds) (c % prod ds) hr
    refine ⟨⟨hj, hb⟩, ?_⟩
    simp only [unlin, lin, prod, hl]
    have e := Nat.div_add_mod c (prod ds)
    rw [Nat.add_mul, Nat.mul_assoc, Nat.mul_comm (c / prod ds) (prod ds)]
    omega

/-- `unlin` is a left inverse of `lin` on the multi-indexes below the dimensions -/
theorem unlin_lin : ∀ (ds js : List Nat), Below js ds → unlin ds (lin 0 ds js) = js
  | [], [], _ => rfl
  | [], _ :: _, h => by simp [Below] at h
  | _ :: _, [], h => by simp [Below] at h
  | d :: ds, j :: js, h => by
    obtain ⟨hj, hb⟩ := h
    have ih := unlin_lin ds js hb
    obtain ⟨b1, b2⟩ := lin_bounds ds js 0 hb
    obtain ⟨c1, c2⟩ := lin_bounds ds js j hb
    have hP : 0 < prod ds := by
      rcases Nat.eq_zero_or_pos (prod ds) with h0 | h0
      · rw [h0] at b2; simp at b2
      · exact h0
    -- `lin j ds js = j * P + lin 0 ds js`
    have hsplit : ∀ (ds js : List Nat) (q : Nat), Below js ds →
        lin q ds js = q * prod ds + lin 0 ds js := by
      intro ds
      induction ds with
      | nil => intro js q hb; cases js <;> simp [lin, prod, Below] at hb ⊢
      | cons d ds ihd =>
        intro js q hb
        cases js with
        | nil => simp [Below] at hb
        | cons j js =>
          simp only [lin, prod, Nat.zero_mul, Nat.zero_add]
          rw [ihd js (q * d + j) hb.2, ihd js j hb.2, Nat.add_mul, Nat.mul_assoc]
          omega
    have e := hsplit ds js j hb
    simp only [lin, Nat.zero_mul, Nat.zero_add, unlin]
    rw [e]
    have hlt : lin 0 ds js < prod ds := by simpa using b2
    have hdiv : (j * prod ds + lin 0 ds js) / prod ds = j := by
      rw [Nat.mul_comm, Nat.mul_add_div hP, Nat.div_eq_of_lt hlt, Nat.add_zero]
    have hmod : (j * prod ds + lin 0 ds js) % prod ds = lin 0 ds js := by
      rw [Nat.mul_comm, Nat.mul_add_mod, Nat.mod_eq_of_lt hlt]
    rw [hdiv, hmod, ih]

end TV.Pipe3
