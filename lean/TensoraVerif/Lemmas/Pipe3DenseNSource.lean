import TensoraVerif.Lemmas.Pipe3DenseNGraphs
import TensoraVerif.Lemmas.Pipe1Value
import TensoraVerif.Lemmas.DenseNKernel

/-!
C01, full pipeline for dense element-wise assignments of every order, part 3: the meaning of the
terminal expression (`value_toIdN`), the class `DenseNSource` of source assignments, the naming side
conditions `DenseNNames`, and the hypotheses of the kernel theorem of `DenseN` derived from them.
-/
namespace TV.Pipe3
open TV.IR TV.Alg TV.Graph TV.Pipe1
open TV.Dense1 (leaves)

/-- `Graph.value` only looks at `ρ` on the tensor occurrences of `e` -/
theorem value_congr (ρ ρ' : String → Rat) (e : IdExpr) (h : ∀ t ∈ leaves e, ρ t.id = ρ' t.id) :
    value ρ e = value ρ' e := by
  induction e with
  | int v => rfl
  | flt q => rfl
  | tensor t => exact h t (by simp [leaves])
  | add l r ihl ihr =>
    simp only [value]
    rw [ihl (fun t ht => h t (by simp [leaves, ht])), ihr (fun t ht => h t (by simp [leaves, ht]))]
  | mul l r ihl ihr =>
    simp only [value]
    rw [ihl (fun t ht => h t (by simp [leaves, ht])), ihr (fun t ht => h t (by simp [leaves, ht]))]

theorem env_get_cons_ne (i x : String) (j : Nat) (env : Env) (h : x ≠ i) :
    Env.get ((i, j) :: env) x = Env.get env x := by
  have : (i == x) = false := beq_eq_false_iff_ne.2 (Ne.symm h)
  simp [Env.get, this]

/-- reading the indexes `is` in the environment `is ↦ js` gives back `js` -/
theorem map_get_zip : ∀ (is : List String) (js : List Nat), is.Nodup → js.length = is.length →
    is.map (Env.get (is.zip js)) = js := by
  intro is
  induction is with
  | nil => intro js _ h; simp at h; simp [h]
  | cons i is ih =>
    intro js hnd h
    cases js with
    | nil => simp at h
    | cons j js =>
      rw [List.nodup_cons] at hnd
      simp only [List.zip_cons_cons, List.map_cons]
      have h0 : Env.get ((i, j) :: is.zip js) i = j := by simp [Env.get]
      rw [h0]
      congr 1
      refine Eq.trans ?_ (ih js hnd.2 (by simpa using h))
      apply List.map_congr_left
      intro x hx
      exact env_get_cons_ne i x j _ (fun e => hnd.1 (e ▸ hx))

/-- **the terminal expression means what the desugared tree means** at the coordinates `js` -/
theorem value_toIdN (inp : Inputs) (sz : Sizes) (is : List String) (tname : String) (formats : Formats)
    (js : List Nat) (hnd : is.Nodup) (hlen : js.length = is.length)
    (d : DExpr) (h : dOkN is tname formats d = true) :
    value (fun id => inp (nameOf id) js) (toIdN is d) = denoteD inp sz d (is.zip js) := by
  induction d with
  | int v => rfl
  | flt v => rfl
  | tensor id name idx =>
    simp only [dOkN, Bool.and_eq_true, beq_iff_eq] at h
    obtain ⟨⟨rfl, _⟩, _⟩ := h
    simp only [toIdN, value, nameOf_id, denoteD, map_get_zip idx js hnd hlen]
  | add l r ihl ihr =>
    simp only [dOkN, Bool.and_eq_true] at h
    simp only [toIdN, value, denoteD, ihl h.1, ihr h.2]
  | mul l r ihl ihr =>
    simp only [dOkN, Bool.and_eq_true] at h
    simp only [toIdN, value, denoteD, ihl h.1, ihr h.2]
  | contract k e ih => simp [dOkN] at h

/-! ### the side conditions of the kernel theorem -/

theorem isLeaf_toIdN (is : List String) (k : Nat) (name : String) :
    DenseN.isLeaf is ⟨toString k ++ "_" ++ name, name, is, List.replicate is.length Mode.dense⟩ = true := by
  simp [DenseN.isLeaf]

/-- every tensor occurrence of the terminal expression is `<k>_<name>`, dense, indexed by `is`,
named in the format table and different from the target -/
theorem leaves_toIdN (is : List String) (tname : String) (formats : Formats) (d : DExpr)
    (h : dOkN is tname formats d = true) :
    ∀ t ∈ leaves (toIdN is d), (∃ k : Nat, t.id = toString k ++ "_" ++ t.name) ∧
      DenseN.isLeaf is t = true ∧ t.name ∈ formats.map (·.1) ∧ t.name ≠ tname := by
  induction d with
  | int v => intro t ht; simp [toIdN, leaves] at ht
  | flt v => intro t ht; simp [toIdN, leaves] at ht
  | tensor id name idx =>
    intro t ht
    simp only [toIdN, leaves, List.mem_singleton] at ht
    subst ht
    simp only [dOkN, Bool.and_eq_true, beq_iff_eq, bne_iff_ne, ne_eq] at h
    exact ⟨⟨id, rfl⟩, isLeaf_toIdN is id name, isDN_mem formats _ name h.2, h.1.2⟩
  | add l r ihl ihr =>
    intro t ht
    simp only [dOkN, Bool.and_eq_true] at h
    simp only [toIdN, leaves, List.mem_append] at ht
    exact ht.elim (ihl h.1 t) (ihr h.2 t)
  | mul l r ihl ihr =>
    intro t ht
    simp only [dOkN, Bool.and_eq_true] at h
    simp only [toIdN, leaves, List.mem_append] at ht
    exact ht.elim (ihl h.1 t) (ihr h.2 t)
  | contract k e ih => simp [dOkN] at h

theorem isExpr_toIdN (is : List String) (tname : String) (formats : Formats) (d : DExpr)
    (h : dOkN is tname formats d = true) : DenseN.isExpr is (toIdN is d) = true :=
  List.all_eq_true.2 fun t ht => (leaves_toIdN is tname formats d h t ht).2.1

theorem rhsIdx_dOkN (is : List String) (tname : String) (formats : Formats) (d : DExpr)
    (h : dOkN is tname formats d = true) : DenseN.rhsIdx is d = true := by
  induction d with
  | int v => rfl
  | flt v => rfl
  | tensor id name idx =>
    simp only [dOkN, Bool.and_eq_true, beq_iff_eq] at h
    simp [DenseN.rhsIdx, h.1.1]
  | add l r ihl ihr =>
    simp only [dOkN, Bool.and_eq_true] at h
    simp only [DenseN.rhsIdx, ihl h.1, ihr h.2, Bool.and_self]
  | mul l r ihl ihr =>
    simp only [dOkN, Bool.and_eq_true] at h
    simp only [DenseN.rhsIdx, ihl h.1, ihr h.2, Bool.and_self]
  | contract k e ih => simp [dOkN] at h

/-- **The class of source assignments** `out(i₁,…,iₙ) = rhs`, every order `n` (`n = 0`: scalars): the
target's indexes `is` are pairwise distinct; the right-hand side is built from `add`/`sub`/`mul`,
integer and float literals and references `t(i₁,…,iₙ)` — exactly the target's index list — to tensors
other than the target (`srcOkN`); the target and every tensor of the right-hand side have the all-dense
format of order `n` with the identity ordering (`isDN`: modes `replicate n dense`, ordering
`[0,…,n-1]`) in the format table. -/
structure DenseNSource (a : Assign) (formats : Formats) (is : List String) : Prop where
  tidx : a.tidx = is
  nodup : is.Nodup
  rhs : srcOkN is a.tname formats a.rhs = true
  out : isDN formats is.length a.tname = true

/-- **Side conditions of the machine theorem on the format table** (the kernel has one parameter per
entry and unpacks every one): every entry, used or not, has only dense levels; no tensor name and no
index name contains `'_'` (every name the parser admits is alphanumeric); no index is a tensor name. -/
structure DenseNNames (formats : Formats) (is : List String) : Prop where
  fmts : Dense2.denseFormats formats = true
  names : ∀ f ∈ formats, '_' ∉ f.1.toList
  idx : ∀ i ∈ is, '_' ∉ i.toList
  idxTensor : ∀ i ∈ is, i ∉ formats.map (·.1)

/-- the terminal expression of the kernel: the image of the right-hand side under the identifier
assignment of the pipeline (tensors numbered left to right from 1, `l - r` as `l + (-1) * r`) -/
def rhsIdN (a : Assign) (is : List String) : IdExpr := toIdN is (plainE a.rhs 1).1

theorem DenseNSource.dOk {a : Assign} {formats : Formats} {is : List String}
    (hc : DenseNSource a formats is) : dOkN is a.tname formats (plainE a.rhs 1).1 = true :=
  plainE_dOkN is a.tname formats a.rhs hc.rhs 1

theorem DenseNSource.desugar {a : Assign} {formats : Formats} {is : List String}
    (hc : DenseNSource a formats is) : desugar a = ⟨a.tname, is, (plainE a.rhs 1).1⟩ :=
  desugarN_eq a is formats hc.tidx hc.rhs

theorem DenseNSource.kernelOK {a : Assign} {formats : Formats} {is : List String}
    (hc : DenseNSource a formats is) (hn : DenseNNames formats is) :
    DenseN.KernelOK formats is (outIdN a.tname is) (rhsIdN a is) :=
  ⟨hn.idx, hc.nodup, hn.names, hn.idxTensor, isDN_mem formats _ a.tname hc.out, fun t ht =>
    (leaves_toIdN is a.tname formats _ hc.dOk t ht).2.2⟩

theorem DenseNSource.nameOf_leaf {a : Assign} {formats : Formats} {is : List String}
    (hc : DenseNSource a formats is) : ∀ t ∈ leaves (rhsIdN a is), nameOf t.id = t.name := by
  intro t ht
  obtain ⟨⟨k, hk⟩, _⟩ := leaves_toIdN is a.tname formats _ hc.dOk t ht
  rw [hk, nameOf_id]

end TV.Pipe3
