import TensoraVerif.Lemmas.Pipe2Sparse
import TensoraVerif.Lemmas.SpmulKernel
import TensoraVerif.Lemmas.SpaddModel

/-!
C01, full pipeline for the two-operand sparse vector kernels `a(i) = b(i) * c(i)` and
`a(i) = b(i) + c(i)` (front half of `Props/C01Spmul.lean`, `Props/C01Spadd.lean`), arbitrary tensor and
index names: the format table `fmts3`, the tensors `0_<a>`, `1_<b>`, `2_<c>` the graph builder creates,
the single candidate of `toIterationGraphs` (the co-iteration lattice is created later, by `lower`), and
the static hypotheses of the kernel theorems (`isClass`, `KernelOK`, `sparseFormats`) derived from the
naming conditions `Sp2Names`.
-/
namespace TV.Pipe3
open TV.IR TV.Alg TV.Graph TV.Pipe1 TV.Pipe2

/-- the format table of the class: the target and the two operands, all compressed vectors -/
def fmts3 (an bn cn : String) : Formats := [(an, fmtS), (bn, fmtS), (cn, fmtS)]

/-- the first operand as the graph builder names it: `1_<b>`, compressed -/
def sp2B (bn i : String) : TensorId := ⟨"1_" ++ bn, bn, [i], [.compressed]⟩
/-- the second operand as the graph builder names it: `2_<c>`, compressed -/
def sp2C (cn i : String) : TensorId := ⟨"2_" ++ cn, cn, [i], [.compressed]⟩

/-- **Naming conditions of the class**: index and tensor names without `'_'` (every name the parser
admits is alphanumeric), the three tensors pairwise different, the index not a tensor name. -/
structure Sp2Names (an bn cn i : String) : Prop where
  iu : '_' ∉ i.toList
  au : '_' ∉ an.toList
  bu : '_' ∉ bn.toList
  cu : '_' ∉ cn.toList
  ab : an ≠ bn
  ac : an ≠ cn
  bc : bn ≠ cn
  ia : i ≠ an
  ib : i ≠ bn
  ic : i ≠ cn

theorem tensorId3_out (an bn cn i : String) :
    tensorId 0 an (fmts3 an bn cn) [i] = some (spOut an i) := by
  simp [tensorId, spOut, fmts3]
  rfl

theorem tensorId3_b (an bn cn i : String) (hab : an ≠ bn) :
    tensorId 1 bn (fmts3 an bn cn) [i] = some (sp2B bn i) := by
  have : (an == bn) = false := beq_eq_false_iff_ne.2 hab
  simp [tensorId, List.find?, this, fmts3, sp2B]
  rfl

theorem tensorId3_c (an bn cn i : String) (hac : an ≠ cn) (hbc : bn ≠ cn) :
    tensorId 2 cn (fmts3 an bn cn) [i] = some (sp2C cn i) := by
  have h1 : (an == cn) = false := beq_eq_false_iff_ne.2 hac
  have h2 : (bn == cn) = false := beq_eq_false_iff_ne.2 hbc
  simp [tensorId, List.find?, h1, h2, fmts3, sp2C]
  rfl

theorem graphsOf3_b (an bn cn i : String) (hab : an ≠ bn) :
    graphsOf (fmts3 an bn cn) (.tensor 1 bn [i]) = .ok [cand i true (.tensor (sp2B bn i))] := by
  simp only [graphsOf, tensorId3_b an bn cn i hab, sp2B, hasDup, List.contains_nil, Bool.or_self,
    legalIterationOrders_sparse1]
  rfl

theorem graphsOf3_c (an bn cn i : String) (hac : an ≠ cn) (hbc : bn ≠ cn) :
    graphsOf (fmts3 an bn cn) (.tensor 2 cn [i]) = .ok [cand i true (.tensor (sp2C cn i))] := by
  simp only [graphsOf, tensorId3_c an bn cn i hac hbc, sp2C, hasDup, List.contains_nil, Bool.or_self,
    legalIterationOrders_sparse1]
  rfl

/-- the candidates of an assignment `an(i) = d` whose right-hand side has the single candidate
`cand i true x`: exactly one, the loop over `i` carrying the output around the terminal `x` -/
theorem toIterationGraphs3 (an bn cn i : String) (d : DExpr) (x : IdExpr)
    (hd : graphsOf (fmts3 an bn cn) d = .ok [cand i true x]) :
    toIterationGraphs ⟨an, [i], d⟩ (fmts3 an bn cn) =
      .ok [.iter i (some ⟨spOut an i, 0⟩) (.terminal x)] := by
  have ht : graphsOf (fmts3 an bn cn) (.tensor 0 an [i]) =
      .ok [.iter i none (.terminal (.tensor (spOut an i)))] := by
    simp only [graphsOf, tensorId3_out, spOut, hasDup, List.contains_nil, Bool.or_self,
      legalIterationOrders_sparse1]
    rfl
  have hl : (List.range (spOut an i).indexes.length).map
      (fun l => ((spOut an i).indexes.getD l "", (⟨spOut an i, l⟩ : Leaf))) =
      [(i, ⟨spOut an i, 0⟩)] := by
    simp [spOut, List.range, List.range.loop]
  unfold toIterationGraphs
  simp only [tensorId3_out, hl, ht, hd, bind, Except.bind, pure, Except.pure,
    List.isEmpty_cons, Bool.false_eq_true, if_false, List.flatMap_cons, List.flatMap_nil,
    List.append_nil]
  exact congrArg Except.ok (mergeAssignment_cand i (spOut an i) none _ true _)

/-- **the candidates of `an(i) = bn(i) * cn(i)`, all compressed**: exactly one, the graph of `Spmul` -/
theorem toIterationGraphs_mul3 (an bn cn i : String) (hab : an ≠ bn) (hac : an ≠ cn) (hbc : bn ≠ cn) :
    toIterationGraphs ⟨an, [i], .mul (.tensor 1 bn [i]) (.tensor 2 cn [i])⟩ (fmts3 an bn cn) =
      .ok [Spmul.graph i (spOut an i) (sp2B bn i) (sp2C cn i)] := by
  apply toIterationGraphs3
  exact (graphsOf_mul_single _ _ _ _ _ (graphsOf3_b an bn cn i hab) (graphsOf3_c an bn cn i hac hbc)).trans
    (congrArg Except.ok (mergeMultiply_cand i true true _ _))

theorem graphsOf_add_single (formats : Formats) (l r : DExpr) (x y : IGraph)
    (hl : graphsOf formats l = .ok [x]) (hr : graphsOf formats r = .ok [y])
    (hcl : containsContraction l = false) (hcr : containsContraction r = false) :
    graphsOf formats (.add l r) = .ok (mergeAdd x y) := by
  simp only [graphsOf, hl, hr, hcl, hcr, bind, Except.bind, pure, Except.pure, List.isEmpty_cons,
    Bool.false_eq_true, if_false, Bool.or_self, Bool.not_false, if_true, List.flatMap_cons,
    List.flatMap_nil, List.append_nil]

/-- **the candidates of `an(i) = bn(i) + cn(i)`, all compressed**: exactly one, the graph of `Spadd` -/
theorem toIterationGraphs_add3 (an bn cn i : String) (hab : an ≠ bn) (hac : an ≠ cn) (hbc : bn ≠ cn) :
    toIterationGraphs ⟨an, [i], .add (.tensor 1 bn [i]) (.tensor 2 cn [i])⟩ (fmts3 an bn cn) =
      .ok [Spadd.graph i (spOut an i) (sp2B bn i) (sp2C cn i)] := by
  apply toIterationGraphs3
  exact (graphsOf_add_single _ _ _ _ _ (graphsOf3_b an bn cn i hab) (graphsOf3_c an bn cn i hac hbc)
    rfl rfl).trans (congrArg Except.ok (mergeAdd_cand i true true _ _))

/-! ### the static hypotheses of the kernel theorems -/

theorem sp2_ids_ne (c1 c2 : Char) (h : c1 ≠ c2) (x y : String) :
    String.singleton c1 ++ "_" ++ x ≠ String.singleton c2 ++ "_" ++ y := by
  intro e
  have e' := congrArg String.toList e
  simp only [String.toList_append, String.toList_singleton, List.cons_append, List.nil_append,
    List.cons.injEq] at e'
  exact h e'.1

theorem spOut_id_ne_b (an bn i : String) : (spOut an i).id ≠ (sp2B bn i).id :=
  sp2_ids_ne '0' '1' (by decide) an bn
theorem spOut_id_ne_c (an cn i : String) : (spOut an i).id ≠ (sp2C cn i).id :=
  sp2_ids_ne '0' '2' (by decide) an cn
theorem sp2B_id_ne_c (bn cn i : String) : (sp2B bn i).id ≠ (sp2C cn i).id :=
  sp2_ids_ne '1' '2' (by decide) bn cn

theorem sp2_isClass (an bn cn i : String) :
    Spmul.isClass i (spOut an i) (sp2B bn i) (sp2C cn i) = true := by
  rw [Spmul.isClass_iff]
  exact ⟨by simp [Sparse1.isSp, spOut], by simp [Sparse1.isSp, sp2B], by simp [Sparse1.isSp, sp2C],
    sp2B_id_ne_c bn cn i⟩

theorem sp2_kernelOK {an bn cn i : String} (hn : Sp2Names an bn cn i) :
    Spmul.KernelOK (fmts3 an bn cn) i (spOut an i) (sp2B bn i) (sp2C cn i) :=
  ⟨⟨hn.iu, hn.au, hn.bu, hn.cu, hn.ab, hn.ac, hn.bc, hn.ia, hn.ib, hn.ic, spOut_id_ne_b an bn i,
    spOut_id_ne_c an cn i, sp2B_id_ne_c bn cn i⟩, rfl⟩

theorem sparseFormats3 (an bn cn : String) : Sparse1.sparseFormats (fmts3 an bn cn) = true := by
  simp [Sparse1.sparseFormats, fmts3]

end TV.Pipe3
