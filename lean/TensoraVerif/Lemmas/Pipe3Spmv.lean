import TensoraVerif.Lemmas.Pipe2Sparse
import TensoraVerif.Lemmas.Pipe2DenseGraphs
import TensoraVerif.Lemmas.SpmvNames
import TensoraVerif.Lemmas.SpmvGenerate

/-!
C01, full pipeline for the CSR matrix–vector product `a(i) = B(i,j) * c(j)` (`a: d, B: ds, c: d`), front
half of `Props/C01Spmv.lean`, arbitrary tensor and index names: the tensors `1_<B>`, `2_<c>` the graph
builder creates from the format table `spFormats`, the candidates of the right-hand side (`B`'s format
`ds` has a single legal iteration order; weaving `i(j(B))` with `j(c)` is possible in one way only), and
the first candidate of `toIterationGraphs`: the graph of `Spmv`.
-/
namespace TV.Pipe3
open TV.Alg TV.Graph TV.Pipe1 TV.Pipe2 TV.Spmv

theorem legalIterationOrders_ds :
    legalIterationOrders [Mode.dense, Mode.compressed] = [[0, 1]] := by decide

theorem tensorIdSp_B (an Bn cn i j : String) (hab : an ≠ Bn) :
    tensorId 1 Bn (spFormats an Bn cn) [i, j] = some (pB Bn i j) := by
  have : (an == Bn) = false := beq_eq_false_iff_ne.2 hab
  simp [tensorId, List.find?, this, spFormats, pB]
  rfl

theorem tensorIdSp_c (an Bn cn j : String) (hac : an ≠ cn) (hbc : Bn ≠ cn) :
    tensorId 2 cn (spFormats an Bn cn) [j] = some (pC cn j) := by
  have h1 : (an == cn) = false := beq_eq_false_iff_ne.2 hac
  have h2 : (Bn == cn) = false := beq_eq_false_iff_ne.2 hbc
  simp [tensorId, List.find?, h1, h2, spFormats, pC]
  rfl

theorem isD_spFormats (an Bn cn : String) : isD (spFormats an Bn cn) an = true := by
  simp [isD, spFormats]

/-- the candidates of `B(i,j)`, `B ↦ ds`: exactly one, `i` outside `j` -/
theorem graphsOfSp_B (an Bn cn i j : String) (hij : i ≠ j) (hab : an ≠ Bn) :
    graphsOf (spFormats an Bn cn) (.tensor 1 Bn [i, j]) =
      .ok [shGraph i j .IJ (.tensor (pB Bn i j))] := by
  have e1 : (i == j) = false := beq_eq_false_iff_ne.2 hij
  simp only [graphsOf, tensorIdSp_B an Bn cn i j hab, pB, hasDup, List.contains_cons, List.contains_nil,
    e1, Bool.or_self, Bool.false_eq_true, if_false, legalIterationOrders_ds]
  rfl

/-- the candidates of `c(j)`, `c ↦ d`: exactly one -/
theorem graphsOfSp_c (an Bn cn j : String) (i : String) (hac : an ≠ cn) (hbc : Bn ≠ cn) :
    graphsOf (spFormats an Bn cn) (.tensor 2 cn [j]) = .ok [shGraph i j .J (.tensor (pC cn j))] := by
  simp only [graphsOf, tensorIdSp_c an Bn cn j hac hbc, pC, hasDup, List.contains_nil, Bool.or_self,
    Bool.false_eq_true, if_false, legalIterationOrders_dense1]
  rfl

/-- **the first candidate of `an(i) = Σ_j Bn(i,j) * cn(j)`, formats `d, ds, d`**: the graph of `Spmv` -/
theorem toIterationGraphs_spmv (an Bn cn i j : String) (hij : i ≠ j) (hab : an ≠ Bn) (hac : an ≠ cn)
    (hbc : Bn ≠ cn) :
    ∃ gs, toIterationGraphs ⟨an, [i], .contract j (.mul (.tensor 1 Bn [i, j]) (.tensor 2 cn [j]))⟩
        (spFormats an Bn cn) = .ok gs ∧
      gs.head? = some (Spmv.graph i j (pOut an i) (pB Bn i j) (pC cn j)) := by
  have hg : graphsOf (spFormats an Bn cn) (.contract j (.mul (.tensor 1 Bn [i, j]) (.tensor 2 cn [j]))) =
      .ok (mergeMultiply (shGraph i j .IJ (.tensor (pB Bn i j))) (shGraph i j .J (.tensor (pC cn j)))) := by
    rw [graphsOf]
    exact graphsOf_mul_single _ _ _ _ _ (graphsOfSp_B an Bn cn i j hij hab) (graphsOfSp_c an Bn cn j i hac hbc)
  exact toIterationGraphs_head i j an (spFormats an Bn cn) hij (isD_spFormats an Bn cn) _ _
    (spE (pB Bn i j) (pC cn j)) .IJ (Or.inl rfl) hg
    (mergeWith_sh .mul i j hij .IJ .J .IJ rfl _ _)

end TV.Pipe3
