import TensoraVerif.Lemmas.Pipe2Sparse
import TensoraVerif.Lemmas.ConvKernel
import TensoraVerif.Lemmas.ConvS2D

/-!
C01, full pipeline for the format-conversion kernels `an(i) = bn(i)` between a dense and a compressed
vector (front half of `Props/C01Convert.lean`, `Props/C01Convert2.lean`), arbitrary tensor and index
names: the format tables, the tensors `0_<a>`, `1_<b>` the graph builder creates, the single candidate of
`toIterationGraphs`, and the static hypotheses of the kernel theorems derived from the naming conditions
`P4ConvNames`.
-/
namespace TV.Pipe4
open TV.IR TV.Alg TV.Graph TV.Pipe1 TV.Pipe2

/-- the format table of an order-1 copy: target with the single level `ma`, operand with `mb` -/
def p4Fmts (an bn : String) (ma mb : Mode) : Formats := [(an, ([ma], [0])), (bn, ([mb], [0]))]

/-- the output tensor as the graph builder names it: `0_<a>` -/
def p4Out (an i : String) (ma : Mode) : TensorId := ⟨"0_" ++ an, an, [i], [ma]⟩
/-- the operand as the graph builder names it: `1_<b>` -/
def p4B (bn i : String) (mb : Mode) : TensorId := ⟨"1_" ++ bn, bn, [i], [mb]⟩

/-- **Naming conditions of the class**: index and tensor names without `'_'` (every name the parser
admits is alphanumeric), the two tensors different, the index not a tensor name. -/
structure P4ConvNames (an bn i : String) : Prop where
  iu : '_' ∉ i.toList
  au : '_' ∉ an.toList
  bu : '_' ∉ bn.toList
  ab : an ≠ bn
  ia : i ≠ an
  ib : i ≠ bn

/-- the source copy desugars to the occurrence with id 1 -/
theorem p4_desugar_copy (an bn i : String) :
    Alg.desugar ⟨an, [i], .tensor bn [i]⟩ = ⟨an, [i], .tensor 1 bn [i]⟩ := by
  simp [Alg.desugar, Alg.desugarE, Alg.indexesOf, Alg.dedup, Alg.wrap]

theorem p4_tensorId_out (an bn i : String) (ma mb : Mode) :
    tensorId 0 an (p4Fmts an bn ma mb) [i] = some (p4Out an i ma) := by
  simp [tensorId, p4Out, p4Fmts]
  rfl

theorem p4_tensorId_b (an bn i : String) (ma mb : Mode) (hab : an ≠ bn) :
    tensorId 1 bn (p4Fmts an bn ma mb) [i] = some (p4B bn i mb) := by
  have : (an == bn) = false := beq_eq_false_iff_ne.2 hab
  simp [tensorId, List.find?, this, p4Fmts, p4B]
  rfl

theorem p4_graphsOf_b (an bn i : String) (ma mb : Mode) (hab : an ≠ bn)
    (hmb : legalIterationOrders [mb] = [[0]]) :
    graphsOf (p4Fmts an bn ma mb) (.tensor 1 bn [i]) = .ok [cand i true (.tensor (p4B bn i mb))] := by
  simp only [graphsOf, p4_tensorId_b an bn i ma mb hab, p4B, hasDup, List.contains_nil, Bool.or_self, hmb]
  rfl

/-- **the candidates of `an(i) = bn(i)`**: exactly one, the graph of `Conv` -/
theorem p4_toIterationGraphs (an bn i : String) (ma mb : Mode) (hab : an ≠ bn)
    (hma : legalIterationOrders [ma] = [[0]]) (hmb : legalIterationOrders [mb] = [[0]]) :
    toIterationGraphs ⟨an, [i], .tensor 1 bn [i]⟩ (p4Fmts an bn ma mb) =
      .ok [Conv.graph i (p4Out an i ma) (p4B bn i mb)] := by
  have ht : graphsOf (p4Fmts an bn ma mb) (.tensor 0 an [i]) =
      .ok [.iter i none (.terminal (.tensor (p4Out an i ma)))] := by
    simp only [graphsOf, p4_tensorId_out, p4Out, hasDup, List.contains_nil, Bool.or_self, hma]
    rfl
  have hl : (List.range (p4Out an i ma).indexes.length).map
      (fun l => ((p4Out an i ma).indexes.getD l "", (⟨p4Out an i ma, l⟩ : Leaf))) =
      [(i, ⟨p4Out an i ma, 0⟩)] := by
    simp [p4Out, List.range, List.range.loop]
  unfold toIterationGraphs
  simp only [p4_tensorId_out, hl, ht, p4_graphsOf_b an bn i ma mb hab hmb, bind, Except.bind, pure,
    Except.pure, List.isEmpty_cons, Bool.false_eq_true, if_false, List.flatMap_cons, List.flatMap_nil,
    List.append_nil]
  exact congrArg Except.ok (mergeAssignment_cand i (p4Out an i ma) none _ true _)

/-! ### the static hypotheses of the kernel theorems -/

/-- the ids `0_<a>` and `1_<b>` differ -/
theorem p4_ids_ne (an bn i : String) (ma mb : Mode) : (p4Out an i ma).id ≠ (p4B bn i mb).id := by
  intro h
  have h' := congrArg String.toList h
  simp only [p4Out, p4B, String.toList_append] at h'
  have e0 : ("0_" : String).toList = ['0', '_'] := rfl
  have e1 : ("1_" : String).toList = ['1', '_'] := rfl
  rw [e0, e1] at h'
  simp at h'

theorem p4_kNames {an bn i : String} (hn : P4ConvNames an bn i) (ma mb : Mode) :
    Sparse1.KNames i (p4Out an i ma) (p4B bn i mb) :=
  ⟨hn.iu, hn.au, hn.bu, hn.ab, hn.ia, hn.ib, p4_ids_ne an bn i ma mb⟩

theorem p4_nameOf_b (bn i : String) (mb : Mode) : nameOf (p4B bn i mb).id = bn := nameOf_id 1 bn

theorem p4_isSp (an i : String) : Sparse1.isSp i (p4Out an i .compressed) = true := by
  simp [Sparse1.isSp, p4Out]
theorem p4_isSp_b (bn i : String) : Sparse1.isSp i (p4B bn i .compressed) = true := by
  simp [Sparse1.isSp, p4B]
theorem p4_isLeaf (an i : String) : Dense1.isLeaf i (p4Out an i .dense) = true := by
  simp [Dense1.isLeaf, p4Out]
theorem p4_isLeaf_b (bn i : String) : Dense1.isLeaf i (p4B bn i .dense) = true := by
  simp [Dense1.isLeaf, p4B]

theorem p4_d2sFormats (an bn i : String) :
    Conv.d2sFormats (p4Fmts an bn .compressed .dense) (p4Out an i .compressed) (p4B bn i .dense) := rfl
theorem p4_s2dFormats (an bn i : String) :
    Conv.s2dFormats (p4Fmts an bn .dense .compressed) (p4Out an i .dense) (p4B bn i .compressed) := rfl

end TV.Pipe4
