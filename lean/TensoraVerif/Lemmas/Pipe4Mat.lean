import TensoraVerif.Lemmas.Pipe2Sparse
import TensoraVerif.Lemmas.Pipe3Spmv
import TensoraVerif.Lemmas.Sparse2Meaning
import TensoraVerif.Lemmas.Sparse2NamesNodup

/-!
C01, full pipeline for the matrix copy/scale kernels `a(i,j) = b(i,j)` and `a(i,j) = c * b(i,j)` (`c` an
integer literal), both matrices of the SAME two-level format `[m0, m1]` with a single legal iteration order
(`ss`: `Props/C01Sparse2.lean`; `ds`: `Props/C01Csr.lean`), front half, arbitrary tensor and index names:
what `desugar` makes of the source assignment, the tensors `0_<a>`, `1_<b>` the graph builder creates, the
single candidate of `toIterationGraphs` (`i` outside `j`, both levels carrying the output), the meaning of
the terminal expression.
-/
namespace TV.Pipe4
open TV.IR TV.Alg TV.Graph TV.Pipe1 TV.Pipe2

/-- the right-hand sides of the class: `bn(i,j)` (`none`) and `c * bn(i,j)` (`some c`) -/
def matRhs (c : Option Int) (bn i j : String) : SExpr :=
  match c with
  | none => .tensor bn [i, j]
  | some v => .mul (.int v) (.tensor bn [i, j])

/-- the same after `desugar`: the single tensor occurrence gets number 1 -/
def matD (c : Option Int) (bn i j : String) : DExpr :=
  match c with
  | none => .tensor 1 bn [i, j]
  | some v => .mul (.int v) (.tensor 1 bn [i, j])

/-- the terminal expression: `1_<bn>` resp. `c * 1_<bn>` -/
def matE (c : Option Int) (bT : TensorId) : IdExpr :=
  match c with
  | none => .tensor bT
  | some v => .mul (.int v) (.tensor bT)

/-- the format table of the class: target and operand, both `[m0, m1]` with the identity ordering -/
def fmts2 (m0 m1 : Mode) (an bn : String) : Formats := [(an, [m0, m1], [0, 1]), (bn, [m0, m1], [0, 1])]

/-- the output tensor as the graph builder names it -/
def matOut (m0 m1 : Mode) (an i j : String) : TensorId := ⟨"0_" ++ an, an, [i, j], [m0, m1]⟩
/-- the operand as the graph builder names it -/
def matB (m0 m1 : Mode) (bn i j : String) : TensorId := ⟨"1" ++ "_" ++ bn, bn, [i, j], [m0, m1]⟩

/-- the single candidate graph of a sub-expression: the nest `i, j` (if it mentions the tensor) -/
def cand2 (i j : String) (b : Bool) (e : IdExpr) : IGraph :=
  if b then .iter i none (.iter j none (.terminal e)) else .terminal e

theorem matDesugar (c : Option Int) (an bn i j : String) (hij : i ≠ j) :
    desugar ⟨an, [i, j], matRhs c bn i j⟩ = ⟨an, [i, j], matD c bn i j⟩ := by
  have hji : j ≠ i := Ne.symm hij
  cases c <;> simp [matRhs, matD, desugar, desugarE, indexesOf, dedup, wrap, hij, hji]

theorem matTensorId_out (m0 m1 : Mode) (an bn i j : String) :
    tensorId 0 an (fmts2 m0 m1 an bn) [i, j] = some (matOut m0 m1 an i j) := by
  simp [tensorId, matOut, fmts2]
  rfl

theorem matTensorId_b (m0 m1 : Mode) (an bn i j : String) (hab : an ≠ bn) :
    tensorId 1 bn (fmts2 m0 m1 an bn) [i, j] = some (matB m0 m1 bn i j) := by
  have : (an == bn) = false := beq_eq_false_iff_ne.2 hab
  simp [tensorId, List.find?, this, fmts2, matB]
  rfl

theorem mergeWith_cand2 (op : IdExpr → IdExpr → IdExpr) (i j : String) (bl br : Bool) (x y : IdExpr) :
    mergeWith op ((cand2 i j bl x).size + (cand2 i j br y).size + 1) (cand2 i j bl x) (cand2 i j br y) =
      [cand2 i j (bl || br) (op x y)] := by
  cases bl <;> cases br <;> simp [cand2, IGraph.size, mergeWith]

theorem mergeMultiply_cand2 (i j : String) (bl br : Bool) (x y : IdExpr) :
    mergeMultiply (cand2 i j bl x) (cand2 i j br y) = [cand2 i j (bl || br) (.mul x y)] :=
  mergeWith_cand2 .mul i j bl br x y

/-- weaving the target nest into the single nest of the right-hand side -/
theorem mergeAssignment_cand2 (i j : String) (hij : i ≠ j) (out : TensorId) (o o' : Option Leaf) (t : IdExpr)
    (b : Bool) (x : IdExpr) :
    mergeAssignment [(i, ⟨out, 0⟩), (j, ⟨out, 1⟩)]
      ((IGraph.iter i o (.iter j o' (.terminal t))).size + (cand2 i j b x).size + 1)
      (.iter i o (.iter j o' (.terminal t))) (cand2 i j b x) =
      [.iter i (some ⟨out, 0⟩) (.iter j (some ⟨out, 1⟩) (.terminal x))] := by
  have e1 : (i == j) = false := beq_eq_false_iff_ne.2 hij
  cases b <;> simp [cand2, IGraph.size, mergeAssignment, layerOf, List.find?, e1]

/-- the candidates of a tensor `t(i,j)` of the table: exactly one, `i` outside `j` -/
theorem matGraphsOf_tensor (m0 m1 : Mode) (hl : legalIterationOrders [m0, m1] = [[0, 1]])
    (formats : Formats) (k : Nat) (name i j : String) (hij : i ≠ j) (T : TensorId)
    (ht : tensorId k name formats [i, j] = some T) (hi : T.indexes = [i, j]) (hm : T.modes = [m0, m1]) :
    graphsOf formats (.tensor k name [i, j]) = .ok [cand2 i j true (.tensor T)] := by
  have e1 : (i == j) = false := beq_eq_false_iff_ne.2 hij
  simp only [graphsOf, ht, hi, hm, hasDup, List.contains_cons, List.contains_nil, e1, Bool.or_self,
    Bool.false_eq_true, if_false, hl]
  rfl

theorem matGraphsOf_rhs (m0 m1 : Mode) (hl : legalIterationOrders [m0, m1] = [[0, 1]])
    (c : Option Int) (an bn i j : String) (hij : i ≠ j) (hab : an ≠ bn) :
    graphsOf (fmts2 m0 m1 an bn) (matD c bn i j) = .ok [cand2 i j true (matE c (matB m0 m1 bn i j))] := by
  have hb := matGraphsOf_tensor m0 m1 hl (fmts2 m0 m1 an bn) 1 bn i j hij _
    (matTensorId_b m0 m1 an bn i j hab) rfl rfl
  cases c with
  | none => exact hb
  | some v =>
    exact (graphsOf_mul_single _ _ _ (cand2 i j false (.int v)) _ rfl hb).trans
      (congrArg Except.ok (mergeMultiply_cand2 i j false true (.int v) _))

/-- **the candidates of `an(i,j) = bn(i,j)` / `c * bn(i,j)`, both `[m0, m1]`**: exactly one, the nest `i, j`,
level `l` carrying layer `l` of the output, around the terminal -/
theorem matToIterationGraphs (m0 m1 : Mode) (hl : legalIterationOrders [m0, m1] = [[0, 1]])
    (c : Option Int) (an bn i j : String) (hij : i ≠ j) (hab : an ≠ bn) :
    toIterationGraphs ⟨an, [i, j], matD c bn i j⟩ (fmts2 m0 m1 an bn) =
      .ok [.iter i (some ⟨matOut m0 m1 an i j, 0⟩) (.iter j (some ⟨matOut m0 m1 an i j, 1⟩)
        (.terminal (matE c (matB m0 m1 bn i j))))] := by
  have ht := matGraphsOf_tensor m0 m1 hl (fmts2 m0 m1 an bn) 0 an i j hij _
    (matTensorId_out m0 m1 an bn i j) rfl rfl
  have hlay : (List.range (matOut m0 m1 an i j).indexes.length).map
      (fun l => ((matOut m0 m1 an i j).indexes.getD l "", (⟨matOut m0 m1 an i j, l⟩ : Leaf))) =
      [(i, ⟨matOut m0 m1 an i j, 0⟩), (j, ⟨matOut m0 m1 an i j, 1⟩)] := by
    simp [matOut, List.range, List.range.loop]
  unfold toIterationGraphs
  simp only [matTensorId_out, hlay, ht, matGraphsOf_rhs m0 m1 hl c an bn i j hij hab, bind, Except.bind, pure,
    Except.pure, List.isEmpty_cons, Bool.false_eq_true, if_false, List.flatMap_cons, List.flatMap_nil,
    List.append_nil]
  exact congrArg Except.ok (mergeAssignment_cand2 i j hij (matOut m0 m1 an i j) none none _ true _)

theorem legalIterationOrders_ss :
    legalIterationOrders [Mode.compressed, Mode.compressed] = [[0, 1]] := by decide

theorem nameOf_matB (m0 m1 : Mode) (bn i j : String) : nameOf (matB m0 m1 bn i j).id = bn := nameOf_id 1 bn

/-- the specification of the two source forms -/
theorem matDenote (c : Option Int) (an bn i j : String) (hij : i ≠ j) (inp : Inputs) (sz : Sizes) (x y : Nat) :
    denote ⟨an, [i, j], matRhs c bn i j⟩ inp sz [x, y] =
      value (fun id => inp (nameOf id) [x, y]) (matE c ⟨"1" ++ "_" ++ bn, bn, [i, j], []⟩) := by
  have hn : nameOf ("1" ++ "_" ++ bn) = bn := nameOf_id 1 bn
  cases c with
  | none =>
    show denote ⟨an, [i, j], .tensor bn [i, j]⟩ inp sz [x, y] = _
    rw [Sparse2.denote_copy an bn i j hij]
    simp only [matE, value, hn]
  | some v =>
    show denote ⟨an, [i, j], .mul (.int v) (.tensor bn [i, j])⟩ inp sz [x, y] = _
    rw [Sparse2.denote_scale an bn i j hij]
    simp only [matE, value, hn]

end TV.Pipe4
