import TensoraVerif.Lemmas.Pipe4Mat
import TensoraVerif.Props.C01Sparse2
import TensoraVerif.Props.C01Csr

/-!
C01, full pipeline for the matrix copy/scale kernels, part 2: the static hypotheses of the kernel theorems of
`Sparse2` (`ss`) and `Csr` (`ds`) — class predicates, format table, index side conditions — hold for the
tensors and the terminal expression the front half builds, for arbitrary names.
-/
namespace TV.Pipe4
open TV.IR TV.Alg TV.Graph TV.Pipe1 TV.Pipe2

/-- **Naming conditions of the class**: index and tensor names without `'_'` (every name the parser admits is
alphanumeric), pairwise different. -/
structure MatNames (an bn i j : String) : Prop where
  iu : '_' ∉ i.toList
  ju : '_' ∉ j.toList
  au : '_' ∉ an.toList
  bu : '_' ∉ bn.toList
  ij : i ≠ j
  ia : i ≠ an
  ib : i ≠ bn
  ja : j ≠ an
  jb : j ≠ bn
  ab : an ≠ bn

theorem matOut_ss (an i j : String) : matOut .compressed .compressed an i j = Sparse2.pOut an i j := rfl
theorem matB_ss (bn i j : String) : matB .compressed .compressed bn i j = Sparse2.pB "1" bn i j := rfl
theorem matOut_ds (an i j : String) : matOut .dense .compressed an i j = Csr.pOut an i j := rfl
theorem matB_ds (bn i j : String) : matB .dense .compressed bn i j = Csr.pB "1" bn i j := rfl

theorem matRhsIdx (c : Option Int) (bn i j : String) : DenseN.rhsIdx [i, j] (matD c bn i j) = true := by
  cases c <;> simp [matD, DenseN.rhsIdx]

theorem matLeaves (c : Option Int) (bT : TensorId) : ToIr.leaves (matE c bT) = [bT] := by
  cases c <;> rfl

theorem matValueZero (c : Option Int) (bT : TensorId) : value (fun _ => 0) (matE c bT) = 0 := by
  cases c <;> simp [matE, value]

/-! ### `ss` -/

theorem ss_isSS (an i j : String) : Sparse2.isSS i j (Sparse2.pOut an i j) = true := by
  simp [Sparse2.isSS, Sparse2.pOut]

theorem ss_ctx_i (c : Option Int) (bn i j : String) :
    (extractContext (matE c (Sparse2.pB "1" bn i j)) i).isSparse = true := by
  cases c <;> simp [matE, extractContext, Context.mul, Sparse2.pB, List.findIdx?_cons]

theorem ss_ctx_j (c : Option Int) (bn i j : String) (hij : i ≠ j) :
    (extractContext (matE c (Sparse2.pB "1" bn i j)) j).isSparse = true := by
  have e1 : (i == j) = false := beq_eq_false_iff_ne.2 hij
  cases c <;> simp [matE, extractContext, Context.mul, Sparse2.pB, List.findIdx?_cons, e1]

theorem ss_isExpr (c : Option Int) (bn i j : String) (hij : i ≠ j) :
    Sparse2.isExpr i j (Sparse2.pB "1" bn i j) (matE c (Sparse2.pB "1" bn i j)) = true := by
  unfold Sparse2.isExpr
  rw [matLeaves, ss_ctx_i, ss_ctx_j c bn i j hij]
  simp [Sparse2.isSS, Sparse2.pB]

theorem ss_formats (an bn : String) : Sparse2.ssFormats (fmts2 .compressed .compressed an bn) = true := by
  simp [Sparse2.ssFormats, fmts2]

/-! ### `ds` -/

theorem ds_isDS (an i j : String) : Csr.isDS i j (Csr.pOut an i j) = true := by
  simp [Csr.isDS, Csr.pOut]

theorem ds_ctx_j (c : Option Int) (bn i j : String) (hij : i ≠ j) :
    (extractContext (matE c (Csr.pB "1" bn i j)) j).isSparse = true := by
  have e1 : (i == j) = false := beq_eq_false_iff_ne.2 hij
  cases c <;> simp [matE, extractContext, Context.mul, Csr.pB, List.findIdx?_cons, e1]

theorem ds_isExpr (c : Option Int) (bn i j : String) (hij : i ≠ j) :
    Csr.isExpr i j (Csr.pB "1" bn i j) (matE c (Csr.pB "1" bn i j)) = true := by
  unfold Csr.isExpr
  rw [matLeaves, ds_ctx_j c bn i j hij]
  simp [Csr.isDS, Csr.pB]

theorem ds_formats (an bn : String) : Csr.dsFormats (fmts2 .dense .compressed an bn) = true := by
  simp [Csr.dsFormats, fmts2]

end TV.Pipe4
