import TensoraVerif.Lemmas.Pipe2DenseGraphs
import TensoraVerif.Lemmas.DenseTermExact

/-!
C01, full pipeline for the dense matrix product `a(i,j) = B(i,k) * C(k,j)` (all tensors `dd`), front
half of `Props/C01DenseTerm.lean`, arbitrary tensor and index names: the tensors `0_<a>`, `1_<B>`,
`2_<C>` the graph builder creates from the format table `p4mmFormats`, the candidates of the two
operands (two loop orders each), the head of `mergeMultiply` of the two first candidates (`i, k, j`),
and the head of `mergeAssignment` with the first target candidate (`i, j`): the nest `i, k, j`.
-/
namespace TV.Pipe4
open TV.Alg TV.Graph TV.Pipe1 TV.Pipe2 TV.DenseTerm

set_option linter.unusedSimpArgs false

/-- the format table of the class: all three tensors `dd`, identity mode ordering -/
def p4mmFormats (an Bn Cn : String) : Formats :=
  [(an, [.dense, .dense], [0, 1]), (Bn, [.dense, .dense], [0, 1]), (Cn, [.dense, .dense], [0, 1])]

/-- the tensors the graph builder creates -/
def p4mmOut (an i j : String) : TensorId := ⟨"0_" ++ an, an, [i, j], [.dense, .dense]⟩
def p4mmB (Bn i k : String) : TensorId := ⟨"1_" ++ Bn, Bn, [i, k], [.dense, .dense]⟩
def p4mmC (Cn k j : String) : TensorId := ⟨"2_" ++ Cn, Cn, [k, j], [.dense, .dense]⟩

theorem p4mm_tensorId_out (an Bn Cn i j : String) :
    tensorId 0 an (p4mmFormats an Bn Cn) [i, j] = some (p4mmOut an i j) := by
  simp [tensorId, p4mmFormats, p4mmOut]
  rfl

theorem p4mm_tensorId_B (an Bn Cn i k : String) (hab : an ≠ Bn) :
    tensorId 1 Bn (p4mmFormats an Bn Cn) [i, k] = some (p4mmB Bn i k) := by
  have : (an == Bn) = false := beq_eq_false_iff_ne.2 hab
  simp [tensorId, List.find?, this, p4mmFormats, p4mmB]
  rfl

theorem p4mm_tensorId_C (an Bn Cn k j : String) (hac : an ≠ Cn) (hbc : Bn ≠ Cn) :
    tensorId 2 Cn (p4mmFormats an Bn Cn) [k, j] = some (p4mmC Cn k j) := by
  have h1 : (an == Cn) = false := beq_eq_false_iff_ne.2 hac
  have h2 : (Bn == Cn) = false := beq_eq_false_iff_ne.2 hbc
  simp [tensorId, List.find?, h1, h2, p4mmFormats, p4mmC]
  rfl

theorem p4mm_head?_append {α : Type} (l r : List α) (g : α) (h : l.head? = some g) :
    (l ++ r).head? = some g := by
  cases l with
  | nil => simp at h
  | cons a l => simpa using h

/-- the two candidates of a `dd` tensor reference with two different indexes -/
theorem p4mm_graphsOf_dd (formats : Formats) (id : Nat) (name x y : String) (t : TensorId)
    (ht : tensorId id name formats [x, y] = some t) (hi : t.indexes = [x, y])
    (hm : t.modes = [.dense, .dense]) (hxy : x ≠ y) :
    graphsOf formats (.tensor id name [x, y]) =
      .ok [.iter x none (.iter y none (.terminal (.tensor t))),
           .iter y none (.iter x none (.terminal (.tensor t)))] := by
  have e1 : (x == y) = false := beq_eq_false_iff_ne.2 hxy
  simp only [graphsOf, ht, hi, hm, hasDup, List.contains_cons, List.contains_nil, e1, Bool.or_self,
    Bool.false_eq_true, if_false, legalIterationOrders_dd]
  rfl

/-- **the head of weaving `i(k(x))` with `k(j(y))`** is `i(k(j(x*y)))` -/
theorem p4mm_mergeMultiply_head (i j k : String) (hij : i ≠ j) (hik : i ≠ k) (hjk : j ≠ k)
    (x y : IdExpr) :
    (mergeMultiply (.iter i none (.iter k none (.terminal x))) (.iter k none (.iter j none (.terminal y)))).head? =
      some (.iter i none (.iter k none (.iter j none (.terminal (.mul x y))))) := by
  have e1 : (i == j) = false := beq_eq_false_iff_ne.2 hij
  have e2 : (i == k) = false := beq_eq_false_iff_ne.2 hik
  have e3 : (j == k) = false := beq_eq_false_iff_ne.2 hjk
  have e4 : (j == i) = false := beq_eq_false_iff_ne.2 (Ne.symm hij)
  have e5 : (k == i) = false := beq_eq_false_iff_ne.2 (Ne.symm hik)
  have e6 : (k == j) = false := beq_eq_false_iff_ne.2 (Ne.symm hjk)
  simp [mergeMultiply, IGraph.size, mergeWith, IGraph.laterIndexes, e1, e2, e3, e4, e5, e6, hij, hik, hjk,
    Ne.symm hij, Ne.symm hik, Ne.symm hjk]

/-- **the head of assigning `i(k(j(e)))` to the target `i(j(out))`** is the nest `i, k, j` -/
theorem p4mm_mergeAssignment_head (i j k : String) (hij : i ≠ j) (hik : i ≠ k) (hjk : j ≠ k)
    (outT : TensorId) (hm : outT.modes = [.dense, .dense]) (to e : IdExpr) :
    (mergeAssignment [(i, ⟨outT, 0⟩), (j, ⟨outT, 1⟩)]
      ((IGraph.iter i none (.iter j none (.terminal to))).size +
        (IGraph.iter i none (.iter k none (.iter j none (.terminal e)))).size + 1)
      (.iter i none (.iter j none (.terminal to)))
      (.iter i none (.iter k none (.iter j none (.terminal e))))).head? =
      some (.iter i (some ⟨outT, 0⟩) (.iter k none (.iter j (some ⟨outT, 1⟩) (.terminal e)))) := by
  have e1 : (i == j) = false := beq_eq_false_iff_ne.2 hij
  have e2 : (i == k) = false := beq_eq_false_iff_ne.2 hik
  have e3 : (j == k) = false := beq_eq_false_iff_ne.2 hjk
  have e4 : (j == i) = false := beq_eq_false_iff_ne.2 (Ne.symm hij)
  have e5 : (k == i) = false := beq_eq_false_iff_ne.2 (Ne.symm hik)
  have e6 : (k == j) = false := beq_eq_false_iff_ne.2 (Ne.symm hjk)
  simp [IGraph.size, mergeAssignment, layerOf, IGraph.laterIndexes, targetHasPendingCompressed,
    isCompressedAt, List.find?, hm, e1, e2, e3, e4, e5, e6, hij, hik, hjk, Ne.symm hij, Ne.symm hik,
    Ne.symm hjk]

/-- **the first candidate of `an(i,j) = Σ_k Bn(i,k) * Cn(k,j)`, all `dd`**: the nest `i, k, j` -/
theorem p4mm_toIterationGraphs (an Bn Cn i j k : String) (hij : i ≠ j) (hik : i ≠ k) (hjk : j ≠ k)
    (hab : an ≠ Bn) (hac : an ≠ Cn) (hbc : Bn ≠ Cn) :
    ∃ gs, toIterationGraphs (mmAssign an Bn Cn i j k 1 2) (p4mmFormats an Bn Cn) = .ok gs ∧
      gs.head? = some (graph (mmLv i j k) (p4mmOut an i j) (mulE (p4mmB Bn i k) (p4mmC Cn k j))) := by
  have ht := p4mm_graphsOf_dd _ 0 an i j _ (p4mm_tensorId_out an Bn Cn i j) rfl rfl hij
  have hB := p4mm_graphsOf_dd _ 1 Bn i k _ (p4mm_tensorId_B an Bn Cn i k hab) rfl rfl hik
  have hC := p4mm_graphsOf_dd _ 2 Cn k j _ (p4mm_tensorId_C an Bn Cn k j hac hbc) rfl rfl (Ne.symm hjk)
  have hl : (List.range (p4mmOut an i j).indexes.length).map
      (fun l => ((p4mmOut an i j).indexes.getD l "", (⟨p4mmOut an i j, l⟩ : Leaf))) =
      [(i, ⟨p4mmOut an i j, 0⟩), (j, ⟨p4mmOut an i j, 1⟩)] := by
    simp [p4mmOut, List.range, List.range.loop]
  have hr : graphsOf (p4mmFormats an Bn Cn)
      (.contract k (.mul (.tensor 1 Bn [i, k]) (.tensor 2 Cn [k, j]))) =
      .ok (([.iter i none (.iter k none (.terminal (.tensor (p4mmB Bn i k)))),
           .iter k none (.iter i none (.terminal (.tensor (p4mmB Bn i k))))] : List IGraph).flatMap fun a =>
        ([.iter k none (.iter j none (.terminal (.tensor (p4mmC Cn k j)))),
           .iter j none (.iter k none (.terminal (.tensor (p4mmC Cn k j))))] : List IGraph).flatMap fun b =>
          mergeMultiply a b) := by
    rw [graphsOf, graphsOf, hB, hC]
    rfl
  unfold toIterationGraphs
  simp only [mmAssign, p4mm_tensorId_out an Bn Cn i j, hl, ht, hr, bind, Except.bind, pure,
    Except.pure, List.isEmpty_cons, Bool.false_eq_true, if_false]
  refine ⟨_, rfl, ?_⟩
  obtain ⟨ms, hms⟩ : ∃ ms, mergeMultiply (.iter i none (.iter k none (.terminal (.tensor (p4mmB Bn i k)))))
      (.iter k none (.iter j none (.terminal (.tensor (p4mmC Cn k j))))) =
      .iter i none (.iter k none (.iter j none (.terminal (mulE (p4mmB Bn i k) (p4mmC Cn k j))))) :: ms := by
    have h := p4mm_mergeMultiply_head i j k hij hik hjk (.tensor (p4mmB Bn i k)) (.tensor (p4mmC Cn k j))
    cases hm : mergeMultiply (.iter i none (.iter k none (.terminal (.tensor (p4mmB Bn i k)))))
        (.iter k none (.iter j none (.terminal (.tensor (p4mmC Cn k j))))) with
    | nil => simp [hm] at h
    | cons g ms =>
      simp only [hm, List.head?_cons, Option.some.injEq] at h
      exact ⟨ms, by rw [h]; rfl⟩
  apply head?_flatMap_cons
  simp only [List.flatMap_cons, hms, List.cons_append]
  apply p4mm_head?_append
  exact p4mm_mergeAssignment_head i j k hij hik hjk (p4mmOut an i j) rfl _ _

end TV.Pipe4
