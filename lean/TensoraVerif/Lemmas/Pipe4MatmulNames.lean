import TensoraVerif.Lemmas.Pipe4Matmul
import TensoraVerif.Lemmas.DenseTermKernel

/-!
C01, full pipeline for the dense matrix product, the static side conditions of the kernel theorem
(`DenseTerm.KernelOK`) from naming conditions on the SOURCE names and bounds on the dimensions.
-/
namespace TV.Pipe4
open TV.Alg TV.Graph TV.Pipe1 TV.Pipe2 TV.DenseTerm TV.IR TV.Gen
open TV.Dense1 (leaves)
open TV.DenseN (Fits)

set_option linter.unusedSimpArgs false

/-- **naming conditions of the matrix-product class**: no name contains `'_'`, the index names are
pairwise different, the tensor names are pairwise different, no index name is a tensor name -/
structure P4MatmulNames (an Bn Cn i j k : String) : Prop where
  ui : '_' ∉ i.toList
  uj : '_' ∉ j.toList
  uk : '_' ∉ k.toList
  ua : '_' ∉ an.toList
  ub : '_' ∉ Bn.toList
  uc : '_' ∉ Cn.toList
  ij : i ≠ j
  ik : i ≠ k
  jk : j ≠ k
  ab : an ≠ Bn
  ac : an ≠ Cn
  bc : Bn ≠ Cn
  idxTensor : ∀ x ∈ [i, j, k], x ∉ [an, Bn, Cn]

theorem p4mm_id_toList (c : Char) (x : String) :
    (String.singleton c ++ "_" ++ x).toList = c :: '_' :: x.toList := by
  have e : ("_" : String).toList = ['_'] := rfl
  simp [String.toList_append, e]

theorem p4mm_out_id (an i j : String) : (p4mmOut an i j).id = String.singleton '0' ++ "_" ++ an := rfl
theorem p4mm_B_id (Bn i k : String) : (p4mmB Bn i k).id = String.singleton '1' ++ "_" ++ Bn := rfl
theorem p4mm_C_id (Cn k j : String) : (p4mmC Cn k j).id = String.singleton '2' ++ "_" ++ Cn := rfl

theorem p4mm_ids_ne (c1 c2 : Char) (h : c1 ≠ c2) (x y : String) :
    String.singleton c1 ++ "_" ++ x ≠ String.singleton c2 ++ "_" ++ y := by
  intro e
  have e' := congrArg String.toList e
  rw [p4mm_id_toList, p4mm_id_toList] at e'
  simp only [List.cons.injEq] at e'
  exact h e'.1

theorem p4mm_static {F : Type} {an Bn Cn i j k : String} (hn : P4MatmulNames an Bn Cn i j k)
    (dimOf : String → Nat) (ob : Nat) (blkOf : String → Nat) (cellsOf : String → Nat → F)
    (hi : dimOf i < 2147483648) (hj : dimOf j < 2147483648) (hk : dimOf k < 2147483648)
    (hijd : dimOf i * dimOf j < 2147483648) (hikd : dimOf i * dimOf k < 2147483648)
    (hkjd : dimOf k * dimOf j < 2147483648) :
    Static (F := F) ⟨mmLv i j k, dimOf, p4mmOut an i j, mulE (p4mmB Bn i k) (p4mmC Cn k j), ob, blkOf,
      cellsOf⟩ := by
  have e1 : (i == j) = false := beq_eq_false_iff_ne.2 hn.ij
  have e2 : (i == k) = false := beq_eq_false_iff_ne.2 hn.ik
  have e3 : (j == k) = false := beq_eq_false_iff_ne.2 hn.jk
  have e4 : (j == i) = false := beq_eq_false_iff_ne.2 (Ne.symm hn.ij)
  have e5 : (k == i) = false := beq_eq_false_iff_ne.2 (Ne.symm hn.ik)
  have e6 : (k == j) = false := beq_eq_false_iff_ne.2 (Ne.symm hn.jk)
  have n01 : (p4mmOut an i j).id ≠ (p4mmB Bn i k).id := p4mm_ids_ne '0' '1' (by decide) an Bn
  have n02 : (p4mmOut an i j).id ≠ (p4mmC Cn k j).id := p4mm_ids_ne '0' '2' (by decide) an Cn
  have n12 : (p4mmB Bn i k).id ≠ (p4mmC Cn k j).id := p4mm_ids_ne '1' '2' (by decide) Bn Cn
  refine ⟨?_, ?_, ?_, ?_, ?_, ?_, ?_, ?_, ?_⟩
  · show isOut (mmLv i j k) (p4mmOut an i j) = true
    simp [isOut, outIdxs, mmLv, p4mmOut]
  · show isExpr (idxs (mmLv i j k)) (mulE (p4mmB Bn i k) (p4mmC Cn k j)) = true
    simp [isExpr, isLeaf, idxs, mmLv, mulE, leaves, p4mmB, p4mmC, List.isSublist, e1, e2, e3, e4, e5, e6]
  · show (idxs (mmLv i j k)).Nodup
    simp [idxs, mmLv, hn.ij, hn.ik, hn.jk, Ne.symm hn.jk]
  · show ∀ x ∈ idxs (mmLv i j k), '_' ∉ x.toList
    intro x hx
    simp only [idxs, mmLv, List.map_cons, List.map_nil, List.mem_cons, List.not_mem_nil, or_false] at hx
    rcases hx with rfl | rfl | rfl
    · exact hn.ui
    · exact hn.uk
    · exact hn.uj
  · show ∀ t ∈ p4mmOut an i j :: leaves (mulE (p4mmB Bn i k) (p4mmC Cn k j)), '_' ∉ t.name.toList
    intro t ht
    simp only [mulE, leaves, List.cons_append, List.nil_append, List.mem_cons, List.not_mem_nil,
      or_false] at ht
    rcases ht with rfl | rfl | rfl
    · exact hn.ua
    · exact hn.ub
    · exact hn.uc
  · show '_' ∈ (p4mmOut an i j).id.toList
    rw [p4mm_out_id, p4mm_id_toList]
    simp
  · show idsOK (p4mmOut an i j :: leaves (mulE (p4mmB Bn i k) (p4mmC Cn k j))) = true
    simp only [mulE, leaves, List.cons_append, List.nil_append, idsOK]
    simp [n01, n02, n12, Ne.symm n01, Ne.symm n02, Ne.symm n12]
  · show ∀ t ∈ p4mmOut an i j :: leaves (mulE (p4mmB Bn i k) (p4mmC Cn k j)),
      Fits 1 (t.indexes.map dimOf)
    intro t ht
    simp only [mulE, leaves, List.cons_append, List.nil_append, List.mem_cons, List.not_mem_nil,
      or_false] at ht
    rcases ht with rfl | rfl | rfl <;> simp [Fits, p4mmOut, p4mmB, p4mmC, hi, hj, hk, hijd, hikd, hkjd]
  · show ∀ x ∈ idxs (mmLv i j k), dimOf x < 2147483648
    intro x hx
    simp only [idxs, mmLv, List.map_cons, List.map_nil, List.mem_cons, List.not_mem_nil, or_false] at hx
    rcases hx with rfl | rfl | rfl
    · exact hi
    · exact hk
    · exact hj

theorem p4mm_kernelOK {F : Type} {an Bn Cn i j k : String} (hn : P4MatmulNames an Bn Cn i j k)
    (dimOf : String → Nat) (ob : Nat) (blkOf : String → Nat) (cellsOf : String → Nat → F)
    (hi : dimOf i < 2147483648) (hj : dimOf j < 2147483648) (hk : dimOf k < 2147483648)
    (hijd : dimOf i * dimOf j < 2147483648) (hikd : dimOf i * dimOf k < 2147483648)
    (hkjd : dimOf k * dimOf j < 2147483648) :
    KernelOK (F := F) (p4mmFormats an Bn Cn) [(i, an, 0), (j, an, 1), (k, Bn, 1)]
      ⟨mmLv i j k, dimOf, p4mmOut an i j, mulE (p4mmB Bn i k) (p4mmC Cn k j), ob, blkOf, cellsOf⟩ := by
  have hidx := hn.idxTensor
  simp only [List.mem_cons, List.not_mem_nil, or_false, forall_eq_or_imp, forall_eq, not_or] at hidx
  obtain ⟨⟨hia, hib, hic⟩, ⟨hja, hjb, hjc⟩, ⟨hka, hkb, hkc⟩⟩ := hidx
  refine ⟨p4mm_static hn dimOf ob blkOf cellsOf hi hj hk hijd hikd hkjd, ⟨an, rfl⟩, ?_, ?_, ?_, ?_, ?_, ?_,
    ?_, ?_⟩
  · show ∀ f ∈ p4mmFormats an Bn Cn, '_' ∉ f.1.toList
    intro f hf
    simp only [p4mmFormats, List.mem_cons, List.not_mem_nil, or_false] at hf
    rcases hf with rfl | rfl | rfl
    · exact hn.ua
    · exact hn.ub
    · exact hn.uc
  · show ∀ x ∈ idxs (mmLv i j k), x ∉ (p4mmFormats an Bn Cn).map (·.1)
    intro x hx
    simp only [idxs, mmLv, List.map_cons, List.map_nil, List.mem_cons, List.not_mem_nil, or_false] at hx
    rcases hx with rfl | rfl | rfl <;> simp [p4mmFormats, *]
  · show (p4mmOut an i j).name ∈ (p4mmFormats an Bn Cn).map (·.1)
    simp [p4mmFormats, p4mmOut]
  · show ∀ t ∈ leaves (mulE (p4mmB Bn i k) (p4mmC Cn k j)),
      t.name ∈ (p4mmFormats an Bn Cn).map (·.1) ∧ t.name ≠ (p4mmOut an i j).name
    intro t ht
    simp only [mulE, leaves, List.cons_append, List.nil_append, List.mem_cons, List.not_mem_nil,
      or_false] at ht
    rcases ht with rfl | rfl
    · exact ⟨by simp [p4mmFormats, p4mmB], Ne.symm hn.ab⟩
    · exact ⟨by simp [p4mmFormats, p4mmC], Ne.symm hn.ac⟩
  · show (([(i, an, 0), (j, an, 1), (k, Bn, 1)] : List (String × String × Nat)).map (·.1)).Nodup
    simp [hn.ij, hn.ik, hn.jk]
  · show ∀ p ∈ ([(i, an, 0), (j, an, 1), (k, Bn, 1)] : List (String × String × Nat)),
      p.1 ∈ idxs (mmLv i j k) ∧ p.2.1 ∈ (p4mmFormats an Bn Cn).map (·.1) ∧ p.2.2 < 2147483648
    intro p hp
    simp only [List.mem_cons, List.not_mem_nil, or_false] at hp
    rcases hp with rfl | rfl | rfl <;> simp [idxs, mmLv, p4mmFormats]
  · show ∀ x ∈ idxs (mmLv i j k),
      x ∈ ([(i, an, 0), (j, an, 1), (k, Bn, 1)] : List (String × String × Nat)).map (·.1)
    intro x hx
    simp only [idxs, mmLv, List.map_cons, List.map_nil, List.mem_cons, List.not_mem_nil, or_false] at hx
    rcases hx with rfl | rfl | rfl <;> simp
  · show (p4mmOut an i j).indexes.length < 2147483648
    simp [p4mmOut]

theorem p4mm_denseFormats (an Bn Cn : String) : Dense2.denseFormats (p4mmFormats an Bn Cn) = true := by
  simp [Dense2.denseFormats, p4mmFormats]

end TV.Pipe4
