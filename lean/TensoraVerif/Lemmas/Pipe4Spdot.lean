import TensoraVerif.Lemmas.Pipe3Sparse2
import TensoraVerif.Lemmas.SpdotKernel
import TensoraVerif.Lemmas.DenseTermExact

/-!
C01, full pipeline for the sparse dot product `a() = b(i) * c(i)` (`a` scalar, `b`, `c` compressed vectors),
front half of `Props/C01Spdot.lean`, arbitrary tensor and index names: the format table `p4DotFmts`, the
tensors `0_<a>` (scalar), `1_<b>`, `2_<c>` the graph builder creates, the single candidate of
`toIterationGraphs`, and the static hypotheses of the kernel theorems (`isClass`, `KernelOK`) derived from
the naming conditions `P4DotNames`.
-/
namespace TV.Pipe4
open TV.IR TV.Alg TV.Graph TV.Gen TV.Pipe1 TV.Pipe2 TV.Pipe3
open TV.Sparse1 (nameClass revClass)

/-- the format table of the class: the scalar target and the two compressed operands -/
def p4DotFmts (an bn cn : String) : Formats := [(an, [], []), (bn, fmtS), (cn, fmtS)]

/-- the scalar output as the graph builder names it: `0_<a>`, no index, no mode -/
def p4DotOut (an : String) : TensorId := ⟨"0_" ++ an, an, [], []⟩

theorem p4Dot_tensorId_out (an bn cn : String) :
    tensorId 0 an (p4DotFmts an bn cn) [] = some (p4DotOut an) := by
  simp [tensorId, p4DotOut, p4DotFmts]
  rfl

theorem p4Dot_tensorId_b (an bn cn i : String) (hab : an ≠ bn) :
    tensorId 1 bn (p4DotFmts an bn cn) [i] = some (sp2B bn i) := by
  have : (an == bn) = false := beq_eq_false_iff_ne.2 hab
  simp [tensorId, List.find?, this, p4DotFmts, sp2B]
  rfl

theorem p4Dot_tensorId_c (an bn cn i : String) (hac : an ≠ cn) (hbc : bn ≠ cn) :
    tensorId 2 cn (p4DotFmts an bn cn) [i] = some (sp2C cn i) := by
  have h1 : (an == cn) = false := beq_eq_false_iff_ne.2 hac
  have h2 : (bn == cn) = false := beq_eq_false_iff_ne.2 hbc
  simp [tensorId, List.find?, h1, h2, p4DotFmts, sp2C]
  rfl

theorem p4Dot_graphsOf_b (an bn cn i : String) (hab : an ≠ bn) :
    graphsOf (p4DotFmts an bn cn) (.tensor 1 bn [i]) = .ok [cand i true (.tensor (sp2B bn i))] := by
  simp only [graphsOf, p4Dot_tensorId_b an bn cn i hab, sp2B, hasDup, List.contains_nil, Bool.or_self,
    legalIterationOrders_sparse1]
  rfl

theorem p4Dot_graphsOf_c (an bn cn i : String) (hac : an ≠ cn) (hbc : bn ≠ cn) :
    graphsOf (p4DotFmts an bn cn) (.tensor 2 cn [i]) = .ok [cand i true (.tensor (sp2C cn i))] := by
  simp only [graphsOf, p4Dot_tensorId_c an bn cn i hac hbc, sp2C, hasDup, List.contains_nil, Bool.or_self,
    legalIterationOrders_sparse1]
  rfl

theorem p4Dot_legalIterationOrders_nil : legalIterationOrders [] = [[]] := by decide

/-- the candidates of the scalar target `an()`: the bare terminal -/
theorem p4Dot_graphsOf_out (an bn cn : String) :
    graphsOf (p4DotFmts an bn cn) (.tensor 0 an []) = .ok [.terminal (.tensor (p4DotOut an))] := by
  simp only [graphsOf, p4Dot_tensorId_out, p4DotOut, hasDup, p4Dot_legalIterationOrders_nil]
  rfl

/-- the candidates of the right-hand side `Σ_i bn(i) * cn(i)`: exactly one, the contraction loop -/
theorem p4Dot_graphsOf_rhs (an bn cn i : String) (hab : an ≠ bn) (hac : an ≠ cn) (hbc : bn ≠ cn) :
    graphsOf (p4DotFmts an bn cn) (.contract i (.mul (.tensor 1 bn [i]) (.tensor 2 cn [i]))) =
      .ok [Spdot.graph i (sp2B bn i) (sp2C cn i)] := by
  rw [graphsOf]
  exact (graphsOf_mul_single _ _ _ _ _ (p4Dot_graphsOf_b an bn cn i hab)
    (p4Dot_graphsOf_c an bn cn i hac hbc)).trans (congrArg Except.ok (mergeMultiply_cand i true true _ _))

/-- **the candidates of `an() = Σ_i bn(i) * cn(i)`, `an` scalar, `bn`, `cn` compressed**: exactly one,
the graph of `Spdot` -/
theorem p4Dot_toIterationGraphs (an bn cn i : String) (hab : an ≠ bn) (hac : an ≠ cn) (hbc : bn ≠ cn) :
    toIterationGraphs ⟨an, [], .contract i (.mul (.tensor 1 bn [i]) (.tensor 2 cn [i]))⟩
        (p4DotFmts an bn cn) = .ok [Spdot.graph i (sp2B bn i) (sp2C cn i)] := by
  unfold toIterationGraphs
  simp only [p4Dot_tensorId_out, p4Dot_graphsOf_out, p4Dot_graphsOf_rhs an bn cn i hab hac hbc, bind,
    Except.bind, pure, Except.pure, List.isEmpty_cons, Bool.false_eq_true, if_false, List.flatMap_cons,
    List.flatMap_nil, List.append_nil]
  rfl

/-! ### the static hypotheses of the kernel theorems -/

theorem p4DotOut_id_ne_b (an bn i : String) : (p4DotOut an).id ≠ (sp2B bn i).id :=
  sp2_ids_ne '0' '1' (by decide) an bn
theorem p4DotOut_id_ne_c (an cn i : String) : (p4DotOut an).id ≠ (sp2C cn i).id :=
  sp2_ids_ne '0' '2' (by decide) an cn

theorem p4Dot_isClass (an bn cn i : String) :
    Spdot.isClass i (p4DotOut an) (sp2B bn i) (sp2C cn i) = true := by
  rw [Spdot.isClass_iff]
  exact ⟨rfl, rfl, by simp [Sparse1.isSp, sp2B], by simp [Sparse1.isSp, sp2C], sp2B_id_ne_c bn cn i⟩


theorem p4Dot_revClass_13 (l pre : List Char) (h : Option Char) (hu : '_' ∉ l)
    (h1 : l ≠ ['m','i','d']) (h2 : l ≠ ['s','o','p']) (h3 : l ≠ ['d','r','c'])
    (h4 : l ≠ ['s','l','a','v']) (h5 : l ≠ ['d','n','e']) (h6 : l ≠ ['0']) :
    revClass (l ++ '_' :: '0' :: '_' :: pre) h = 13 := by
  rcases l with _ | ⟨a, _ | ⟨b, _ | ⟨c, _ | ⟨d, _ | ⟨e, _ | ⟨f, _ | ⟨g, _ | ⟨k, _ | ⟨m, t⟩⟩⟩⟩⟩⟩⟩⟩⟩ <;>
    simp_all [revClass, List.isPrefixOf] <;> grind

theorem p4Dot_rev_ne (an : String) (s : String) (h : an ≠ s) : an.toList.reverse ≠ s.toList.reverse := by
  intro e
  exact h (String.toList_inj.1 (List.reverse_inj.1 e))

/-- the generated names `<pre>_0_<an>` are of no other kind of generated name unless `an` is one of
`dim pos crd vals end 0` -/
theorem p4Dot_nameClass_13 (s an pre : String) (hs : s.toList = pre.toList ++ '_' :: '0' :: '_' :: an.toList)
    (hu : '_' ∉ an.toList)
    (h1 : an ≠ "dim") (h2 : an ≠ "pos") (h3 : an ≠ "crd") (h4 : an ≠ "vals") (h5 : an ≠ "end")
    (h6 : an ≠ "0") : nameClass s = 13 := by
  have hm : '_' ∈ s.toList := by rw [hs]; simp
  have hr : s.toList.reverse = an.toList.reverse ++ '_' :: '0' :: '_' :: pre.toList.reverse := by
    rw [hs]; simp
  rw [nameClass, if_pos hm, hr]
  exact p4Dot_revClass_13 _ _ _ (by simpa using hu) (p4Dot_rev_ne an "dim" h1) (p4Dot_rev_ne an "pos" h2)
    (p4Dot_rev_ne an "crd" h3) (p4Dot_rev_ne an "vals" h4) (p4Dot_rev_ne an "end" h5) (p4Dot_rev_ne an "0" h6)

theorem p4Dot_bucket_class (an : String) (hu : '_' ∉ an.toList)
    (h1 : an ≠ "dim") (h2 : an ≠ "pos") (h3 : an ≠ "crd") (h4 : an ≠ "vals") (h5 : an ≠ "end")
    (h6 : an ≠ "0") :
    nameClass (Spdot.bkN (p4DotOut an)) = 13 ∧ nameClass (Spdot.blN (p4DotOut an)) = 13 := by
  constructor
  · exact p4Dot_nameClass_13 _ an "bucket" (by
      simp [Spdot.bkN, bucketName, bucketSuffix, p4DotOut, String.toList_append]) hu h1 h2 h3 h4 h5 h6
  · exact p4Dot_nameClass_13 _ an "i_bucket" (by
      simp [Spdot.blN, bucketLoopName, bucketSuffix, p4DotOut, String.toList_append]) hu h1 h2 h3 h4 h5 h6

/-- the restriction on `an` is needed for `nameClass` (the classification by the last characters):
`bucket_0_dim` ends like a dimension name. (No name of the kernel actually clashes: it is a limitation of
the classification method.) -/
theorem p4Dot_bucket_class_cex : nameClass (Spdot.bkN (p4DotOut "dim")) = 1 := by decide

/-- **Naming conditions of the class**: those of the two-operand sparse kernels (`Sp2Names`: no `'_'`,
tensors pairwise different, the index not a tensor name), and the output name is none of
`dim pos crd vals end 0` (then the two bucket names `bucket_0_<an>`, `i_bucket_0_<an>` are of no other kind
of generated name, `p4Dot_bucket_class`; the restriction comes from the classification method
`nameClass`, see `p4Dot_bucket_class_cex`). -/
structure P4DotNames (an bn cn i : String) : Prop where
  base : Sp2Names an bn cn i
  n1 : an ≠ "dim"
  n2 : an ≠ "pos"
  n3 : an ≠ "crd"
  n4 : an ≠ "vals"
  n5 : an ≠ "end"
  n6 : an ≠ "0"

theorem p4Dot_kernelOK {an bn cn i : String} (hn : P4DotNames an bn cn i) :
    Spdot.KernelOK (p4DotFmts an bn cn) i (p4DotOut an) (sp2B bn i) (sp2C cn i) :=
  have hk := p4Dot_bucket_class an hn.base.au hn.n1 hn.n2 hn.n3 hn.n4 hn.n5 hn.n6
  ⟨⟨⟨hn.base.iu, hn.base.au, hn.base.bu, hn.base.cu, hn.base.ab, hn.base.ac, hn.base.bc, hn.base.ia,
    hn.base.ib, hn.base.ic, p4DotOut_id_ne_b an bn i, p4DotOut_id_ne_c an cn i, sp2B_id_ne_c bn cn i⟩,
    hk.1, hk.2⟩, ⟨[], [0], [0], rfl⟩⟩

end TV.Pipe4
