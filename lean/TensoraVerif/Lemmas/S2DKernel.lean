import TensoraVerif.Lemmas.S2DLoop

/-!
C01 for compressed → dense, part 2: the whole `evaluate` function on the machine (`s2d_kernel_runs`): from an
initial state as the driver builds it (`S2DInit`) through "Extract dimensions", "Unpack tensors", "Output
initialization" (`malloc`, no zero fill), the two loops and "Assembling output tensor" to `S2DPost`.
-/
namespace TV.Conv
open TV.IR TV.Gen TV.Graph TV.Growth TV.Merge TV.Sparse1
open TV.Dense1 (RunsI RunsLI TensorVar)
set_option linter.unusedSimpArgs false
set_option linter.unusedSectionVars false
set_option linter.unusedVariables false
variable {F : Type} [FloatOps F]

/-- **Initial machine state of a compressed → dense kernel call**, as the driver builds it: the variables are
exactly the two tensor parameters, bound to records `ta` (contents `atr`) and `tb` (`btr`); the output record
is output-owned, has a pointer or `NULL` in `vals`, and its `dimensions` block holds the int32 `n`; the input
record's level 0 points to the `pos` block `bpb` (`[0, m]`, `m` int32) and the `crd` block `bcb` (the first
`m` cells holding `crdB`), and `vals` to the float block `bvb` whose first `m` cells hold `cellsB`. -/
structure S2DInit (outT bT : TensorId) (ta tb : Nat) (atr btr : TensorRec F) (n m bpb bcb bvb : Nat)
    (crdB : Nat → Int) (cellsB : Nat → F) (σ : State F) : Prop where
  avar : TensorVar σ outT.name ta
  bvar : TensorVar σ bT.name tb
  fresh : ∀ x, x ≠ outT.name → x ≠ bT.name → lookupVar σ.vars x = none
  arec : σ.tensors[ta]? = some atr
  aown : atr.owner = .output
  avals : isPtrVal atr.vals = true
  adim : ∃ blk, σ.heap[atr.dimsBlk]? = some blk ∧ blk.live = true ∧ blk.ty = .int ∧
    blk.cells[0]? = some (some (.int n))
  n32 : (n : Int) < 2147483648
  m32 : (m : Int) < 2147483648
  brec : σ.tensors[tb]? = some btr
  bord : 0 < btr.order
  bslot : btr.slots[0]? = some (some (.ptr bpb 0, .ptr bcb 0))
  bvals : btr.vals = .ptr bvb 0
  bpos : ∃ blk, σ.heap[bpb]? = some blk ∧ blk.live = true ∧ blk.ty = .int ∧
    blk.cells[0]? = some (some (.int 0)) ∧ blk.cells[1]? = some (some (.int m))
  bcrd : ∃ blk, σ.heap[bcb]? = some blk ∧ blk.live = true ∧ blk.ty = .int ∧
    ∀ j, j < m → blk.cells[j]? = some (some (.int (crdB j)))
  bval : ∃ blk, σ.heap[bvb]? = some blk ∧ blk.live = true ∧ blk.ty = .float ∧
    ∀ j, j < m → blk.cells[j]? = some (some (.flt (cellsB j)))

/-- **Final state of a compressed → dense kernel call** `σ → σ'` with output record `ta` (initial contents
`atr`): the record's `vals` points to the fresh block `σ.heap.length`, a live output-owned float block with
EXACTLY `n` cells, ALL initialised, cell `k` holding `spec k`; every other record and every block of the
initial heap is unchanged. -/
structure S2DPost (spec : Nat → F) (n ta : Nat) (atr : TensorRec F) (σ σ' : State F) : Prop where
  outRec : σ'.tensors[ta]? = some { atr with vals := .ptr σ.heap.length 0 }
  otherRecs : ∀ k, k ≠ ta → σ'.tensors[k]? = σ.tensors[k]?
  tlen : σ'.tensors.length = σ.tensors.length
  blk : σ'.heap[σ.heap.length]? =
    some ⟨.float, (List.range n).map fun k => some (.flt (spec k)), .output, true⟩
  heap : ∀ b, b < σ.heap.length → σ'.heap[b]? = σ.heap[b]?
  heapLen : σ'.heap.length = σ.heap.length + 1

theorem s2dSplit_le {crdB : Nat → Int} {m n : Nat} (hrng : ∀ k, k < m → 0 ≤ crdB k ∧ crdB k < n) :
    s2dSplit crdB m ≤ n := by
  unfold s2dSplit
  split
  · omega
  · have := hrng (m - 1) (by omega); omega

set_option maxHeartbeats 1000000 in
theorem s2d_kernel_runs (ofRat : Rat → F) (formats : Formats) {i : String} {outT bT : TensorId}
    (N : KNames i outT bT) (hb : isSp i bT = true)
    {ta tb : Nat} {atr btr : TensorRec F} {n m bpb bcb bvb : Nat} {crdB : Nat → Int} {cellsB : Nat → F}
    {σ : State F} (spec : Nat → F)
    (init : S2DInit outT bT ta tb atr btr n m bpb bcb bvb crdB cellsB σ)
    (hz : FloatOps.finite (ofRat ((0 : Int) : Rat)) = true)
    (hfin : ∀ k, k < m → FloatOps.finite (cellsB k) = true)
    (hrng : ∀ k, k < m → 0 ≤ crdB k ∧ crdB k < n)
    (hmono : ∀ k k', k < k' → k' < m → crdB k < crdB k')
    (hs1 : ∀ k, k < m → spec (crdB k).toNat = cellsB k)
    (hs0 : ∀ x : Nat, (∀ k, k < m → crdB k ≠ x) → spec x = ofRat ((0 : Int) : Rat))
    (fuel : Nat) (hfuel : n + 1 ≤ fuel) :
    ∃ o, exec fuel (s2dKernel ofRat formats i outT bT).body σ = .ok o ∧ o.ret = some (.int 0) ∧
      o.iters = n ∧ S2DPost spec n ta atr σ o.st := by
  have hn := init.n32
  have hm := init.m32
  have hfr : ∀ x, nameClass x ≠ 0 → lookupVar σ.vars x = none := by
    intro x hx
    refine init.fresh x ?_ ?_
    · intro h; rw [h, N.a0] at hx; exact hx rfl
    · intro h; rw [h, N.b0] at hx; exact hx rfl
  obtain ⟨dblk, hdb, hdlive, hdty, hdc⟩ := init.adim
  -- A: int i_dim = a->dimensions[0]
  obtain ⟨σA, rA, hhA, htA, vA, oA⟩ := declFresh (fuel := fuel) (x := dimName i) (t := .int) (val' := .int n)
    (hfr _ (by simp [nc_dim])) (Dense1.evalE_dim0 init.avar init.arec hdb hdlive hdty hdc (by omega) hn) rfl
  have vA : IntVar σA (dimName i) n := vA
  -- B1: double* a_vals = a->vals
  have hTA : TensorVar σA outT.name ta := init.avar.congr (oA _ (by nm N))
  obtain ⟨σB1, rB1, hhB1, htB1, ⟨rv, hrv1, hrv2, _⟩, oB1⟩ := declFresh (fuel := fuel) (x := valsName outT.name)
    (t := .ptr .float) (σ := σA)
    (by rw [oA _ (by nm N)]; exact hfr _ (by simp [nc_vals]))
    (Dense1.evalE_vals hTA (by rw [htA]; exact init.arec) init.avals)
    (Dense1.convTo_ptr_of_isPtrVal .float init.avals)
  -- B2: the input
  obtain ⟨σB, rB2, hhB2, htB2, vBp, vBc, vBv, oB2⟩ := unpack1_runs (fuel := fuel) (σ := σB1) N.bu
    (init.bvar.congr (by rw [oB1 _ (by nm N), oA _ (by nm N)]))
    (by rw [htB1, htA]; exact init.brec) init.bord init.bslot rfl rfl (by rw [init.bvals]; rfl)
    (by rw [oB1 _ (by nm N), oA _ (by nm N)]; exact hfr _ (by simp [nc_pos]))
    (by rw [oB1 _ (by nm N), oA _ (by nm N)]; exact hfr _ (by simp [nc_crd]))
    (by rw [oB1 _ (by nm N), oA _ (by nm N)]; exact hfr _ (by simp [nc_vals]))
  have hhB : σB.heap = σ.heap := by rw [hhB2, hhB1, hhA]
  have htB : σB.tensors = σ.tensors := by rw [htB2, htB1, htA]
  have oB : ∀ y, y ≠ dimName i → y ≠ valsName outT.name → y ≠ posName bT.name 0 → y ≠ crdName bT.name 0 →
      y ≠ valsName bT.name → lookupVar σB.vars y = lookupVar σ.vars y := by
    intro y h1 h2 h3 h4 h5
    rw [oB2 y h3 h4 h5, oB1 y h2, oA y h1]
  have pBp : PtrVar σB (posName bT.name 0) bpb := by
    obtain ⟨r, e1, e2, e3⟩ := vBp; exact ⟨r, .int, e1, e2, e3⟩
  have pBc : PtrVar σB (crdName bT.name 0) bcb := by
    obtain ⟨r, e1, e2, e3⟩ := vBc; exact ⟨r, .int, e1, e2, e3⟩
  have pBv : PtrVar σB (valsName bT.name) bvb := by
    obtain ⟨r, e1, e2, e3⟩ := vBv
    exact ⟨r, .float, e1, e2, by rw [e3, init.bvals]⟩
  have vB : IntVar σB (dimName i) n := vA.congr (by rw [oB2 _ (by nm N) (by nm N) (by nm N), oB1 _ (by nm N)])
  have hTB : TensorVar σB outT.name ta :=
    init.avar.congr (oB _ (by nm N) (by nm N) (by nm N) (by nm N) (by nm N))
  -- C1: int a_vals_capacity = 1 * a->dimensions[0]
  have eC : evalE σB (.bin .mul (.intLit 1) (.idx (.attr (.var outT.name) "dimensions") (.intLit 0))) =
      .ok (.int (1 * (n : Int))) :=
    evalE_mul (evalE_intLit (by omega) (by omega))
      (Dense1.evalE_dim0 hTB (by rw [htB]; exact init.arec) (by rw [hhB]; exact hdb) hdlive hdty hdc
        (by omega) hn) (by omega) (by omega)
  obtain ⟨σC1, rC1, hhC1, htC1, vC1, oC1⟩ := declFresh (fuel := fuel) (x := valsCapName outT.name)
    (t := .int) (σ := σB) (val' := .int (1 * (n : Int)))
    (by rw [oB _ (by nm N) (by nm N) (by nm N) (by nm N) (by nm N)]; exact hfr _ (by simp [nc_valsCap]))
    eC rfl
  have vC1 : IntVar σC1 (valsCapName outT.name) (1 * (n : Int)) := vC1
  -- C2: a_vals = malloc(a_vals_capacity)
  obtain ⟨σC, rC2, htC, hhC, vC, oC⟩ := Dense1.runsI_alloc (fuel := fuel) (σ := σC1) (ty := .float)
    (ety := .float) (arr := valsName outT.name) (r := rv) (t := .float)
    (by rw [oC1 _ (by nm N), oB2 _ (by nm N) (by nm N) (by nm N)]; exact hrv1) hrv2 vC1 (by omega) (by omega)
    rfl
  have hlenC1 : σC1.heap.length = σ.heap.length := by rw [hhC1, hhB]
  rw [hlenC1] at vC
  have hheapC : σC.heap = σ.heap ++ [⟨.float, List.replicate n none, .output, true⟩] := by
    rw [hhC, hhC1, hhB]; simp
  have htC' : σC.tensors = σ.tensors := by rw [htC, htC1, htB]
  have oC' : ∀ y, y ≠ valsName outT.name → y ≠ valsCapName outT.name →
      lookupVar σC.vars y = lookupVar σB.vars y := fun y h1 h2 => (oC y h1).trans (oC1 y h2)
  -- D1: int i = 0
  obtain ⟨σD1, rD1, hhD1, htD1, vD1, oD1⟩ := declFresh (fuel := fuel) (x := i) (t := .int) (σ := σC)
    (e := .intLit 0) (val' := .int 0)
    (by
      rw [oC' _ (by nm N) (by nm N), oB _ (by nm N) (by nm N) (by nm N) (by nm N) (by nm N)]
      exact init.fresh _ N.ia N.ib)
    (evalE_intLit (by omega) (by omega)) rfl
  have vD1 : IntVar σD1 i ((0 : Nat) : Int) := vD1
  -- D2: int p_b = b_pos[0]
  obtain ⟨pblk, p1, p2, p3, p4, p5⟩ := init.bpos
  have hbpb : bpb < σ.heap.length := lt_length_of_getElem? p1
  have pD1p : PtrVar σD1 (posName bT.name 0) bpb :=
    pBp.congr (by rw [oD1 _ (by nm N), oC' _ (by nm N) (by nm N)])
  have hposD1 : σD1.heap[bpb]? = some pblk := by
    rw [hhD1, hheapC, List.getElem?_append_left hbpb]; exact p1
  obtain ⟨σD2, rD2, hhD2, htD2, vD2, oD2⟩ := declFresh (fuel := fuel) (x := layerPointer bT.id 0) (t := .int)
    (σ := σD1) (val' := .int 0)
    (by
      rw [oD1 _ (by nm N), oC' _ (by nm N) (by nm N),
        oB _ (by nm N) (by nm N) (by nm N) (by nm N) (by nm N)]
      exact hfr _ (by simp [nc_ptr]))
    (evalE_posLoad pD1p (evalE_intLit (v := 0) (by omega) (by omega)) (by omega)
      ⟨pblk, hposD1, p2, p3, by simpa using p4⟩ (by omega) (by omega)) rfl
  have vD2 : IntVar σD2 (layerPointer bT.id 0) ((0 : Nat) : Int) := vD2
  -- D3: int p_b_end = b_pos[0 + 1]
  have pD2p : PtrVar σD2 (posName bT.name 0) bpb := pD1p.congr (oD2 _ (by nm N))
  obtain ⟨σD3, rD3, hhD3, htD3, vD3, oD3⟩ := declFresh (fuel := fuel) (x := sparseEndName bT.id 0) (t := .int)
    (σ := σD2) (val' := .int m)
    (by
      rw [oD2 _ (by nm N), oD1 _ (by nm N), oC' _ (by nm N) (by nm N),
        oB _ (by nm N) (by nm N) (by nm N) (by nm N) (by nm N)]
      exact hfr _ (by simp [nc_end]))
    (evalE_posLoad pD2p (evalE_add (evalE_intLit (v := 0) (by omega) (by omega))
        (evalE_intLit (v := 1) (by omega) (by omega)) (by omega) (by omega)) (by omega)
      ⟨pblk, by rw [hhD2]; exact hposD1, p2, p3, by simpa using p5⟩ (by omega) hm) rfl
  have vD3 : IntVar σD3 (sparseEndName bT.id 0) m := vD3
  have oD : ∀ y, y ≠ i → y ≠ layerPointer bT.id 0 → y ≠ sparseEndName bT.id 0 →
      lookupVar σD3.vars y = lookupVar σC.vars y := fun y h1 h2 h3 => by rw [oD3 y h3, oD2 y h2, oD1 y h1]
  have hheapD : σD3.heap = σ.heap ++ [⟨.float, List.replicate n none, .output, true⟩] := by
    rw [hhD3, hhD2, hhD1, hheapC]
  have htD : σD3.tensors = σ.tensors := by rw [htD3, htD2, htD1, htC']
  have oDσ : ∀ y, y ≠ i → y ≠ layerPointer bT.id 0 → y ≠ sparseEndName bT.id 0 → y ≠ valsName outT.name →
      y ≠ valsCapName outT.name → y ≠ dimName i → y ≠ posName bT.name 0 → y ≠ crdName bT.name 0 →
      y ≠ valsName bT.name → lookupVar σD3.vars y = lookupVar σ.vars y := by
    intro y h1 h2 h3 h4 h5 h6 h7 h8 h9
    rw [oD y h1 h2 h3, oC' y h4 h5, oB y h6 h4 h7 h8 h9]
  -- the invariant at loop entry
  obtain ⟨cblk, c1, c2, c3, c4⟩ := init.bcrd
  obtain ⟨vblk, w1, w2, w3, w4⟩ := init.bval
  have hbcb : bcb < σ.heap.length := lt_length_of_getElem? c1
  have hbvb : bvb < σ.heap.length := lt_length_of_getElem? w1
  have hob : σD3.heap[σ.heap.length]? = some ⟨.float, List.replicate n none, .output, true⟩ := by
    rw [hheapD]; simp
  have inv0 : S2DInv spec i outT bT n m σ.heap.length bcb bvb crdB cellsB σD3 0 σD3 :=
    { dim := vB.congr (by rw [oD _ (by nm N) (by nm N) (by nm N), oC' _ (by nm N) (by nm N)])
      pend := vD3
      out := vC.congr (oD _ (by nm N) (by nm N) (by nm N))
      bcrd := pBc.congr (by rw [oD _ (by nm N) (by nm N) (by nm N), oC' _ (by nm N) (by nm N)])
      bvals := pBv.congr (by rw [oD _ (by nm N) (by nm N) (by nm N), oC' _ (by nm N) (by nm N)])
      tensors := rfl
      blk0 := ⟨_, List.replicate n none, hob, rfl, rfl, rfl, by simp, fun k hk => by omega, by
        rw [hheapD]; simp⟩
      crdBlk := ⟨cblk, by rw [hheapD, List.getElem?_append_left hbcb]; exact c1, c2, c3, c4⟩
      valBlk := ⟨vblk, by rw [hheapD, List.getElem?_append_left hbvb]; exact w1, w2, w3, w4⟩
      ne1 := by omega
      ne2 := by omega
      scrA := fun r hr => by
        rw [oDσ _ (by nm N) (by nm N) (by nm N) (by nm N) (by nm N) (by nm N) (by nm N) (by nm N) (by nm N),
          hfr _ (by simp [nc_ptr])] at hr
        cases hr
      scrB := fun r hr => by
        rw [oDσ _ (by nm N) (by nm N) (by nm N) (by nm N) (by nm N) (by nm N) (by nm N) (by nm N) (by nm N),
          hfr _ (by simp [nc_val])] at hr
        cases hr
      frame := fun _ _ _ _ _ => rfl }
  -- D4: the merging loop
  have hsplit := s2dSplit_le (crdB := crdB) (m := m) (n := n) hrng
  obtain ⟨σL1, rL1, invL1, iL1⟩ := s2d_loop1_runs (spec := spec) (σ0 := σD3) ofRat N hb hn hm hz hfin hrng hmono
    hs1 hs0 (s2dSplit crdB m) 0 0 σD3 fuel (by omega) inv0
    (vD1.congr (by rw [oD3 _ (by nm N), oD2 _ (by nm N)])) (vD2.congr (oD3 _ (by nm N))) (by omega)
    (fun k hk => by omega) (fun hlt => (hrng 0 hlt).1) (by omega)
  -- D5: the tail loop
  have htail : ∀ x, s2dSplit crdB m ≤ x → x < n → spec x = ofRat ((0 : Int) : Rat) := by
    intro x hx hxn
    apply hs0
    intro k hk hkx
    have hm0 : m ≠ 0 := by omega
    have h2 : crdB k ≤ crdB (m - 1) := by
      rcases Nat.lt_or_ge k (m - 1) with h | h
      · exact Int.le_of_lt (hmono k (m - 1) h (by omega))
      · have : k = m - 1 := by omega
        rw [this]; exact Int.le_refl _
    have h3 := (hrng (m - 1) (by omega)).1
    simp only [s2dSplit, hm0, if_false] at hx
    omega
  obtain ⟨σL2, rL2, invL2⟩ := s2d_loop2_runs (spec := spec) (σ0 := σD3) ofRat N hn hz (n - s2dSplit crdB m)
    (s2dSplit crdB m) σL1 fuel (by omega) invL1 iL1 htail (by omega)
  -- E: a->vals = a_vals
  have hTL : TensorVar σL2 outT.name ta := init.avar.congr (by
    rw [invL2.frame _ (by nm N) (by nm N) (by nm N) (by nm N),
      oDσ _ (by nm N) (by nm N) (by nm N) (by nm N) (by nm N) (by nm N) (by nm N) (by nm N) (by nm N)])
  have htL : σL2.tensors = σ.tensors := invL2.tensors.trans htD
  have rE := Dense1.runsI_storeVals (fuel := fuel) hTL invL2.out (by rw [htL]; exact init.arec) init.aown
  -- the whole body
  have rAll := Dense1.RunsLI.cons (Dense1.RunsI.block (c := some "Extract dimensions")
      (Dense1.RunsLI.cons rA (Dense1.RunsLI.nil _ _)))
    (Dense1.RunsLI.cons (Dense1.RunsI.block (c := some "Unpack tensors")
        (Dense1.RunsLI.cons rB1 rB2))
      (Dense1.RunsLI.cons (Dense1.RunsI.block (c := some "Output initialization")
          (Dense1.RunsLI.cons rC1 (Dense1.RunsLI.cons rC2 (Dense1.RunsLI.nil _ _))))
        (Dense1.RunsLI.cons (Dense1.RunsI.block (c := some ("*** Iteration over " ++ i ++ " ***"))
            (Dense1.RunsLI.cons rD1 (Dense1.RunsLI.cons rD2 (Dense1.RunsLI.cons rD3
              (Dense1.RunsLI.cons rL1 (Dense1.RunsLI.cons rL2 (Dense1.RunsLI.nil _ _)))))))
          (Dense1.RunsLI.cons (Dense1.RunsI.block (c := some ("Assembling output tensor " ++ outT.name))
              (Dense1.RunsLI.cons rE (Dense1.RunsLI.nil _ _))) (Dense1.RunsLI.nil _ _)))))
  obtain ⟨o, eo, hret, hst, hit⟩ := Dense1.execL_ret (e := .intLit 0) (v := .int 0) rAll
    (evalE_intLit (by omega) (by omega))
  refine ⟨o, ?_, hret, by rw [hit]; omega, ?_⟩
  · show exec fuel (.block (s2dKernelStmts ofRat i outT bT ++ [.ret (.intLit 0)]) none) σ = _
    rw [exec.eq_5]
    exact eo
  · rw [hst]
    have hklt : ta < σ.tensors.length := lt_length_of_getElem? init.arec
    obtain ⟨blk0, cells, b1, b2, b3, b4, b5, b6, b7⟩ := invL2.blk0
    rw [hob] at b1; cases b1
    have hcells : cells = (List.range n).map fun k => some (.flt (spec k)) := by
      apply List.ext_getElem?
      intro k
      by_cases hk : k < n
      · rw [b6 k hk]; simp [hk]
      · rw [List.getElem?_eq_none (by omega), List.getElem?_eq_none (by simp; omega)]
    refine ⟨?_, ?_, ?_, ?_, ?_, ?_⟩
    · show (σL2.tensors.set _ _)[_]? = _
      rw [htL, List.getElem?_set_self hklt]
    · intro k' hk'
      show (σL2.tensors.set _ _)[_]? = _
      rw [htL, List.getElem?_set_ne (Ne.symm hk')]
    · show (σL2.tensors.set _ _).length = _
      rw [List.length_set, htL]
    · show σL2.heap[σ.heap.length]? = _
      rw [b7, List.getElem?_set_self (by rw [hheapD]; simp), hcells]
    · intro b hb'
      show σL2.heap[b]? = _
      rw [b7, List.getElem?_set_ne (by omega), hheapD, List.getElem?_append_left hb']
    · show σL2.heap.length = _
      rw [b7, List.length_set, hheapD]; simp

/-- **the dense meaning of a compressed vector** (`m` stored entries, coordinates `crdB`, values `cellsB`) at
coordinate `x`: the value stored for `x`, `zero` if `x` is not stored -/
def s2dAt (zero : F) (crdB : Nat → Int) (cellsB : Nat → F) (m : Nat) (x : Nat) : F :=
  match (List.range m).find? (fun k => crdB k == (x : Int)) with
  | some k => cellsB k
  | none => zero

theorem s2dAt_absent (zero : F) (crdB : Nat → Int) (cellsB : Nat → F) (m x : Nat)
    (h : ∀ k, k < m → crdB k ≠ x) : s2dAt zero crdB cellsB m x = zero := by
  have : (List.range m).find? (fun k => crdB k == (x : Int)) = none := by
    rw [List.find?_eq_none]
    intro k hk
    have := h k (List.mem_range.1 hk)
    simpa using this
  simp [s2dAt, this]

theorem s2dAt_stored (zero : F) (crdB : Nat → Int) (cellsB : Nat → F) (m : Nat)
    (hrng : ∀ k, k < m → 0 ≤ crdB k)
    (hmono : ∀ k k', k < k' → k' < m → crdB k < crdB k') (k : Nat) (hk : k < m) :
    s2dAt zero crdB cellsB m (crdB k).toNat = cellsB k := by
  have h0 := hrng k hk
  have hx : (((crdB k).toNat : Nat) : Int) = crdB k := by omega
  unfold s2dAt
  rw [hx]
  cases hf : (List.range m).find? (fun k' => crdB k' == crdB k) with
  | none =>
    rw [List.find?_eq_none] at hf
    have := hf k (List.mem_range.2 hk)
    simp at this
  | some k' =>
    have h1 := List.find?_some hf
    have h2 := List.mem_range.1 (List.mem_of_find?_eq_some hf)
    have h3 : crdB k' = crdB k := by simpa using h1
    have : k' = k := by
      rcases Nat.lt_trichotomy k' k with h | h | h
      · have := hmono k' k h hk; omega
      · exact h
      · have := hmono k k' h h2; omega
    subst this; rfl

/-- strictly increasing at adjacent positions is strictly increasing -/
theorem s2d_mono_of_adjacent (crdB : Nat → Int) (m : Nat) (h : ∀ k, k + 1 < m → crdB k < crdB (k + 1)) :
    ∀ k k', k < k' → k' < m → crdB k < crdB k' := by
  intro k k' hkk'
  induction k' with
  | zero => omega
  | succ k' ih =>
    intro hm
    rcases Nat.lt_or_ge k k' with hlt | hge
    · have := ih hlt (by omega); have := h k' hm; omega
    · have : k = k' := by omega
      subst this; exact h k hm

end TV.Conv
