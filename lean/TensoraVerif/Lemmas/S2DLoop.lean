import TensoraVerif.Lemmas.ConvS2D
import TensoraVerif.Lemmas.Dense1Kernel
import TensoraVerif.Lemmas.Sparse1Frags
import TensoraVerif.Lemmas.MergeInit

/-!
C01 for compressed → dense (`a(i) = b(i)`, `a: d`, `b: s`), part 1: the two emitted loops on the machine.
`S2DInv … σ0 j σ`: relative to the state `σ0`, the cells below `j` of the output block hold `spec`, nothing else
of the heap changed. The merging loop (`s2d_loop1_runs`) keeps the ghost invariant "`p_b` = number of stored
coordinates below `i`" and performs exactly `last coordinate + 1` iterations; the tail loop (`s2d_loop2_runs`)
stores the remaining zeros.
-/
namespace TV.Conv
open TV.IR TV.Gen TV.Graph TV.Growth TV.Merge TV.Sparse1
open TV.Dense1 (RunsI RunsLI)
set_option linter.unusedSimpArgs false
set_option linter.unusedSectionVars false
set_option linter.unusedVariables false
variable {F : Type} [FloatOps F]

/-- the state invariant of both loops of compressed → dense, relative to the state `σ0` -/
structure S2DInv (spec : Nat → F) (i : String) (outT bT : TensorId) (n m ob bcb bvb : Nat)
    (crdB : Nat → Int) (cellsB : Nat → F) (σ0 : State F) (j : Nat) (σ : State F) : Prop where
  dim : IntVar σ (dimName i) n
  pend : IntVar σ (sparseEndName bT.id 0) m
  out : PtrVar σ (valsName outT.name) ob
  bcrd : PtrVar σ (crdName bT.name 0) bcb
  bvals : PtrVar σ (valsName bT.name) bvb
  tensors : σ.tensors = σ0.tensors
  blk0 : ∃ blk0 cells, σ0.heap[ob]? = some blk0 ∧ blk0.live = true ∧ blk0.owner = .output ∧
    blk0.ty = .float ∧ cells.length = n ∧ (∀ k, k < j → cells[k]? = some (some (.flt (spec k)))) ∧
    σ.heap = σ0.heap.set ob { blk0 with cells := cells }
  crdBlk : ∃ blk, σ0.heap[bcb]? = some blk ∧ blk.live = true ∧ blk.ty = .int ∧
    ∀ k, k < m → blk.cells[k]? = some (some (.int (crdB k)))
  valBlk : ∃ blk, σ0.heap[bvb]? = some blk ∧ blk.live = true ∧ blk.ty = .float ∧
    ∀ k, k < m → blk.cells[k]? = some (some (.flt (cellsB k)))
  ne1 : bcb ≠ ob
  ne2 : bvb ≠ ob
  scrA : ∀ r, lookupVar σ.vars (layerPointer outT.id 0) = some r → r.ty = .int
  scrB : ∀ r, lookupVar σ.vars (valueFromCrd bT.id 0) = some r → r.ty = .int
  frame : ∀ y, y ≠ i → y ≠ layerPointer bT.id 0 → y ≠ valueFromCrd bT.id 0 → y ≠ layerPointer outT.id 0 →
    lookupVar σ.vars y = lookupVar σ0.vars y

section
variable {spec : Nat → F} {i : String} {outT bT : TensorId} {n m ob bcb bvb : Nat}
  {crdB : Nat → Int} {cellsB : Nat → F} {σ0 σ σ' : State F} {j : Nat}

/-- the invariant is stable under changes of the four scratch variables -/
theorem S2DInv.vars (N : KNames i outT bT)
    (h : S2DInv spec i outT bT n m ob bcb bvb crdB cellsB σ0 j σ)
    (hh : σ'.heap = σ.heap) (ht : σ'.tensors = σ.tensors)
    (hv : ∀ y, y ≠ i → y ≠ layerPointer bT.id 0 → y ≠ valueFromCrd bT.id 0 → y ≠ layerPointer outT.id 0 →
      lookupVar σ'.vars y = lookupVar σ.vars y)
    (hA : ∀ r, lookupVar σ'.vars (layerPointer outT.id 0) = some r → r.ty = .int)
    (hB : ∀ r, lookupVar σ'.vars (valueFromCrd bT.id 0) = some r → r.ty = .int) :
    S2DInv spec i outT bT n m ob bcb bvb crdB cellsB σ0 j σ' := by
  obtain ⟨blk0, cells, b1, b2, b3, b4, b5, b6, b7⟩ := h.blk0
  exact
    { dim := h.dim.congr (hv _ (by nm N) (by nm N) (by nm N) (by nm N))
      pend := h.pend.congr (hv _ (by nm N) (by nm N) (by nm N) (by nm N))
      out := h.out.congr (hv _ (by nm N) (by nm N) (by nm N) (by nm N))
      bcrd := h.bcrd.congr (hv _ (by nm N) (by nm N) (by nm N) (by nm N))
      bvals := h.bvals.congr (hv _ (by nm N) (by nm N) (by nm N) (by nm N))
      tensors := ht.trans h.tensors
      blk0 := ⟨blk0, cells, b1, b2, b3, b4, b5, b6, hh.trans b7⟩
      crdBlk := h.crdBlk, valBlk := h.valBlk, ne1 := h.ne1, ne2 := h.ne2, scrA := hA, scrB := hB
      frame := fun y a b c d => (hv y a b c d).trans (h.frame y a b c d) }

/-- the current output block -/
theorem S2DInv.outBlk (h : S2DInv spec i outT bT n m ob bcb bvb crdB cellsB σ0 j σ) :
    ∃ blk, σ.heap[ob]? = some blk ∧ blk.live = true ∧ blk.owner = .output ∧ blk.ty = .float ∧
      blk.cells.length = n := by
  obtain ⟨blk0, cells, b1, b2, b3, b4, b5, b6, b7⟩ := h.blk0
  have hlt : ob < σ0.heap.length := lt_length_of_getElem? b1
  exact ⟨{ blk0 with cells := cells }, by rw [b7, List.getElem?_set_self hlt], b2, b3, b4, b5⟩

theorem S2DInv.crdBlk' (h : S2DInv spec i outT bT n m ob bcb bvb crdB cellsB σ0 j σ) :
    ∃ blk, σ.heap[bcb]? = some blk ∧ blk.live = true ∧ blk.ty = .int ∧
      ∀ k, k < m → blk.cells[k]? = some (some (.int (crdB k))) := by
  obtain ⟨blk0, cells, b1, b2, b3, b4, b5, b6, b7⟩ := h.blk0
  obtain ⟨blk, c1, c2⟩ := h.crdBlk
  exact ⟨blk, by rw [b7, List.getElem?_set_ne (Ne.symm h.ne1)]; exact c1, c2⟩

theorem S2DInv.valBlk' (h : S2DInv spec i outT bT n m ob bcb bvb crdB cellsB σ0 j σ) :
    ∃ blk, σ.heap[bvb]? = some blk ∧ blk.live = true ∧ blk.ty = .float ∧
      ∀ k, k < m → blk.cells[k]? = some (some (.flt (cellsB k))) := by
  obtain ⟨blk0, cells, b1, b2, b3, b4, b5, b6, b7⟩ := h.blk0
  obtain ⟨blk, c1, c2⟩ := h.valBlk
  exact ⟨blk, by rw [b7, List.getElem?_set_ne (Ne.symm h.ne2)]; exact c1, c2⟩

/-- storing `spec j` into cell `j` advances the invariant -/
theorem S2DInv.store (h : S2DInv spec i outT bT n m ob bcb bvb crdB cellsB σ0 j σ) (hj : j < n)
    (hv : σ'.vars = σ.vars) (ht : σ'.tensors = σ.tensors)
    (hh : ∀ blk, σ.heap[ob]? = some blk →
      σ'.heap = σ.heap.set ob { blk with cells := blk.cells.set j (some (.flt (spec j))) }) :
    S2DInv spec i outT bT n m ob bcb bvb crdB cellsB σ0 (j + 1) σ' := by
  obtain ⟨blk0, cells, b1, b2, b3, b4, b5, b6, b7⟩ := h.blk0
  have hlt : ob < σ0.heap.length := lt_length_of_getElem? b1
  have hcur : σ.heap[ob]? = some { blk0 with cells := cells } := by rw [b7, List.getElem?_set_self hlt]
  have hnew := hh _ hcur
  have e : ∀ x, lookupVar σ'.vars x = lookupVar σ.vars x := fun x => by rw [hv]
  refine
    { dim := h.dim.congr (e _), pend := h.pend.congr (e _), out := h.out.congr (e _),
      bcrd := h.bcrd.congr (e _), bvals := h.bvals.congr (e _), tensors := ht.trans h.tensors
      blk0 := ⟨blk0, cells.set j (some (.flt (spec j))), b1, b2, b3, b4, by simpa using b5, ?_, ?_⟩
      crdBlk := h.crdBlk, valBlk := h.valBlk, ne1 := h.ne1, ne2 := h.ne2
      scrA := fun r hr => h.scrA r (by rw [← e]; exact hr)
      scrB := fun r hr => h.scrB r (by rw [← e]; exact hr)
      frame := fun y a b c d => (e y).trans (h.frame y a b c d) }
  · intro k hk
    by_cases hkj : k = j
    · subst hkj
      rw [List.getElem?_set_self (by omega)]
    · rw [List.getElem?_set_ne (by omega)]
      exact b6 k (by omega)
  · rw [hnew, b7, List.set_set]

end

theorem s2d_branch_false {fuel : Nat} {c : Expr F} {t f : Stmt F} {σ σ' : State F} {k : Nat}
    (hc : evalE σ c = .ok (.bool false)) (h : RunsI fuel f σ σ' k) : RunsI fuel (.branch c t f) σ σ' k := by
  obtain ⟨o, e, r, s, i⟩ := h
  refine ⟨{ o with steps := o.steps + 1 }, ?_, r, s, i⟩
  rw [exec.eq_6, hc]
  simp only [bind, Except.bind, e]

/-- `int p_a = 0 * i_dim + i;` -/
theorem s2d_ptrDecl_runs (fuel : Nat) {i : String} {outT : TensorId} {n j : Nat} {σ : State F}
    (hn : (n : Int) < 2147483648) (hj : (j : Int) < 2147483648)
    (hi : IntVar σ i j) (hd : IntVar σ (dimName i) n)
    (h1 : i ≠ layerPointer outT.id 0) (h2 : dimName i ≠ layerPointer outT.id 0)
    (hA : ∀ r, lookupVar σ.vars (layerPointer outT.id 0) = some r → r.ty = .int) :
    ∃ σ', RunsI fuel (Dense1.ptrDecl i outT) σ σ' 0 ∧ σ'.heap = σ.heap ∧ σ'.tensors = σ.tensors ∧
      (∀ y, y ≠ layerPointer outT.id 0 → lookupVar σ'.vars y = lookupVar σ.vars y) ∧
      IntVar σ' (layerPointer outT.id 0) j := by
  have ei := evalE_var_int hi (by omega) hj
  have ed := evalE_var_int hd (by omega) hn
  have e0 : evalE σ (plus (times (.intLit 0) (.var (dimName i))) (.var i)) = .ok (.int (0 * (n : Int) + j)) :=
    evalE_add (evalE_mul (evalE_intLit (by omega) (by omega)) ed (by omega) (by omega)) ei
      (by omega) (by omega)
  obtain ⟨σ1, r1, hh1, ht1, ⟨r, hr1, hr2, hr3⟩, ho1⟩ :=
    Dense1.runsI_declAssign (fuel := fuel) (t := .int) (val' := .int (0 * (n : Int) + j)) hA e0 rfl
  exact ⟨σ1, r1, hh1, ht1, ho1, ⟨r, hr1, hr2, by rw [hr3]; congr 2; omega⟩⟩

/-- `{ { a_vals[p_a] = <e>; } }` -/
theorem s2d_store_runs (fuel : Nat) (ofRat : Rat → F) {outT : TensorId} {e : IdExpr} {ob j : Nat} {v : F}
    {blk : Block F} {σ : State F} (ha : PtrVar σ (valsName outT.name) ob)
    (hp : IntVar σ (layerPointer outT.id 0) j) (hj : (j : Int) < 2147483648)
    (hb : σ.heap[ob]? = some blk) (hlive : blk.live = true) (hown : blk.owner = .output)
    (hty : blk.ty = .float) (hlen : j < blk.cells.length)
    (he : evalE σ (toIrWith ofRat e) = .ok (.flt v)) :
    ∃ σ', RunsI fuel (s2dStore ofRat outT e) σ σ' 0 ∧ σ'.vars = σ.vars ∧ σ'.tensors = σ.tensors ∧
      σ'.heap = σ.heap.set ob { blk with cells := blk.cells.set j (some (.flt v)) } := by
  have hstore := Runs.store_cell (fuel := fuel) (i := .var (layerPointer outT.id 0)) (val' := .flt v) ha
    (evalE_var_int hp (by omega) hj) he hb hlive hown (by omega) (by omega) (by rw [hty]; rfl)
  refine ⟨_, Dense1.RunsI.block (Dense1.RunsLI.cons (Dense1.RunsI.block
    (Dense1.RunsLI.cons (Dense1.RunsI.of_assign hstore) (Dense1.RunsLI.nil _ _))) (Dense1.RunsLI.nil _ _)),
    rfl, rfl, ?_⟩
  simp

/-- `x = x + e;` -/
theorem s2d_incr_runs (fuel : Nat) {x : String} {e : Expr F} {σ : State F} {v d : Int}
    (hx : IntVar σ x v) (he : evalE σ e = .ok (.int d)) (h0 : 0 ≤ v) (h1 : 0 ≤ d) (h2 : v + d < 2147483648) :
    ∃ σ', RunsI fuel (increment (.var x) e) σ σ' 0 ∧ IntVar σ' x (v + d) ∧
      (∀ y, y ≠ x → lookupVar σ'.vars y = lookupVar σ.vars y) ∧ σ'.heap = σ.heap ∧
      σ'.tensors = σ.tensors :=
  assignInt_run hx (evalE_add (evalE_var_int hx (by omega) (by omega)) he (by omega) h2)

/-- the body of the merging loop -/
def s2dBody1 (ofRat : Rat → F) (i : String) (outT bT : TensorId) : Stmt F :=
  .block
    [declAssignE (valueFromCrd bT.id 0) .int (.idx (.var (crdName bT.name 0)) (.var (layerPointer bT.id 0))),
     Dense1.ptrDecl i outT,
     .branch (.bin .and (.boolLit true) (.bin .eq (.var (valueFromCrd bT.id 0)) (.var i)))
       (s2dStore ofRat outT (.tensor bT))
       (.branch (.boolLit true) (s2dStore ofRat outT (.int 0)) (.block [] none)),
     increment (.var (layerPointer bT.id 0)) (.b2i (.bin .eq (.var (valueFromCrd bT.id 0)) (.var i))),
     increment (.var i) (.intLit 1)] none

/-- the body of the tail loop -/
def s2dBody2 (ofRat : Rat → F) (i : String) (outT : TensorId) : Stmt F :=
  .block
    [Dense1.ptrDecl i outT,
     .branch (.boolLit true) (s2dStore ofRat outT (.int 0)) (.block [] none),
     increment (.var i) (.intLit 1)] none

theorem s2dLoop1_eq (ofRat : Rat → F) (i : String) (outT bT : TensorId) :
    s2dLoop1 ofRat i outT bT =
      .loop (.bin .and (.boolLit true) (.bin .lt (.var (layerPointer bT.id 0)) (.var (sparseEndName bT.id 0))))
        (s2dBody1 ofRat i outT bT) := rfl

theorem s2dLoop2_eq (ofRat : Rat → F) (i : String) (outT : TensorId) :
    s2dLoop2 ofRat i outT = .loop (.bin .lt (.var i) (.var (dimName i))) (s2dBody2 ofRat i outT) := rfl

section
variable {spec : Nat → F} {i : String} {outT bT : TensorId} {n m ob bcb bvb : Nat}
  {crdB : Nat → Int} {cellsB : Nat → F} {σ0 σ : State F} {j : Nat}

/-- **one iteration of the merging loop** at `i = j`, `p_b = q < m`, `j ≤ crdB q < n` -/
theorem s2d_body1_runs (ofRat : Rat → F) (N : KNames i outT bT) (hb : isSp i bT = true) (fuel : Nat)
    (hn : (n : Int) < 2147483648) (hm : (m : Int) < 2147483648)
    (hz : FloatOps.finite (ofRat ((0 : Int) : Rat)) = true)
    (hfin : ∀ k, k < m → FloatOps.finite (cellsB k) = true)
    (hrng : ∀ k, k < m → 0 ≤ crdB k ∧ crdB k < n)
    {q : Nat} (hq : q < m) (hjq : (j : Int) ≤ crdB q)
    (hs1 : crdB q = j → spec j = cellsB q) (hs0 : crdB q ≠ j → spec j = ofRat ((0 : Int) : Rat))
    (h : S2DInv spec i outT bT n m ob bcb bvb crdB cellsB σ0 j σ)
    (hi : IntVar σ i j) (hp : IntVar σ (layerPointer bT.id 0) q) :
    ∃ σ', RunsI fuel (s2dBody1 ofRat i outT bT) σ σ' 0 ∧
      S2DInv spec i outT bT n m ob bcb bvb crdB cellsB σ0 (j + 1) σ' ∧
      IntVar σ' i ((j + 1 : Nat) : Int) ∧
      IntVar σ' (layerPointer bT.id 0) ((q : Int) + (if crdB q == (j : Int) then 1 else 0)) := by
  obtain ⟨hr0, hr1⟩ := hrng q hq
  have hjn : j < n := by omega
  have hjI : (j : Int) < 2147483648 := by omega
  have hb' := (isSp_iff i bT).1 hb
  -- 1: int i_b = b_crd[p_b]
  obtain ⟨cblk, c1, c2, c3, c4⟩ := h.crdBlk'
  have e1 : evalE σ (.idx (.var (crdName bT.name 0)) (.var (layerPointer bT.id 0))) = .ok (.int (crdB q)) :=
    evalE_posLoad h.bcrd (evalE_var_int hp (by omega) (by omega)) (by omega)
      ⟨cblk, c1, c2, c3, by simpa using c4 q hq⟩ (by omega) (by omega)
  obtain ⟨σ1, r1, hh1, ht1, v1, o1⟩ := Dense1.runsI_declAssign (fuel := fuel) (t := .int)
    (val' := .int (crdB q)) h.scrB e1 rfl
  have v1 : IntVar σ1 (valueFromCrd bT.id 0) (crdB q) := v1
  have hi1 : IntVar σ1 i j := hi.congr (o1 _ (by nm N))
  have hp1 : IntVar σ1 (layerPointer bT.id 0) q := hp.congr (o1 _ (by nm N))
  have inv1 : S2DInv spec i outT bT n m ob bcb bvb crdB cellsB σ0 j σ1 :=
    h.vars N hh1 ht1 (fun y _ _ c _ => o1 y c)
      (fun r hr => h.scrA r (by rw [← o1 _ (by nm N)]; exact hr))
      (fun r hr => Dense1.intVar_ty_int v1 r hr)
  -- 2: int p_a = 0 * i_dim + i
  obtain ⟨σ2, r2, hh2, ht2, o2, v2⟩ := s2d_ptrDecl_runs (outT := outT) fuel hn hjI hi1 inv1.dim (by nm N) (by nm N)
    inv1.scrA
  have hi2 : IntVar σ2 i j := hi1.congr (o2 _ (by nm N))
  have hp2 : IntVar σ2 (layerPointer bT.id 0) q := hp1.congr (o2 _ (by nm N))
  have hv2 : IntVar σ2 (valueFromCrd bT.id 0) (crdB q) := v1.congr (o2 _ (by nm N))
  have inv2 : S2DInv spec i outT bT n m ob bcb bvb crdB cellsB σ0 j σ2 :=
    inv1.vars N hh2 ht2 (fun y _ _ _ d => o2 y d)
      (fun r hr => Dense1.intVar_ty_int v2 r hr)
      (fun r hr => Dense1.intVar_ty_int hv2 r hr)
  -- 3: the branch
  have eeq : evalE σ2 (.bin .eq (.var (valueFromCrd bT.id 0)) (.var i)) = .ok (.bool (crdB q == (j : Int))) :=
    evalE_eqInt (evalE_var_int hv2 (by omega) (by omega)) (evalE_var_int hi2 (by omega) hjI)
  have econd : evalE σ2 (.bin .and (.boolLit true) (.bin .eq (.var (valueFromCrd bT.id 0)) (.var i))) =
      .ok (.bool (true && (crdB q == (j : Int)))) := evalE_and (by simp [evalE]) eeq
  obtain ⟨oblk, ob1, ob2, ob3, ob4, ob5⟩ := inv2.outBlk
  obtain ⟨σ3, r3, hv3, ht3, hh3⟩ : ∃ σ3, RunsI fuel
      (.branch (.bin .and (.boolLit true) (.bin .eq (.var (valueFromCrd bT.id 0)) (.var i)))
        (s2dStore ofRat outT (.tensor bT))
        (.branch (.boolLit true) (s2dStore ofRat outT (.int 0)) (.block [] none))) σ2 σ3 0 ∧
      σ3.vars = σ2.vars ∧ σ3.tensors = σ2.tensors ∧
      σ3.heap = σ2.heap.set ob { oblk with cells := oblk.cells.set j (some (.flt (spec j))) } := by
    by_cases hc : crdB q = j
    · have hd : (true && (crdB q == (j : Int))) = true := by simp [hc]
      rw [hd] at econd
      obtain ⟨vblk, w1, w2, w3, w4⟩ := inv2.valBlk'
      have el : evalE σ2 (toIrWith ofRat (.tensor bT)) = .ok (.flt (cellsB q)) := by
        simp only [toIrWith, hb'.1, prevLayerPointer]
        exact Dense1.evalE_load inv2.bvals hp2 (by omega) w1 w2 w3 (w4 q hq) (hfin q hq)
      obtain ⟨σ3, r3, a, b, c⟩ := s2d_store_runs fuel ofRat inv2.out v2 hjI ob1 ob2 ob3 ob4 (by omega) el
      exact ⟨σ3, Dense1.RunsI.branch_true econd r3, a, b, by rw [c, hs1 hc]⟩
    · have hd : (true && (crdB q == (j : Int))) = false := by simp [hc]
      rw [hd] at econd
      have el : evalE σ2 (toIrWith ofRat (.int 0)) = .ok (.flt (ofRat ((0 : Int) : Rat))) := by
        simpa [toIrWith, evalE, chkFlt] using hz
      obtain ⟨σ3, r3, a, b, c⟩ := s2d_store_runs fuel ofRat inv2.out v2 hjI ob1 ob2 ob3 ob4 (by omega) el
      exact ⟨σ3, s2d_branch_false econd (Dense1.RunsI.branch_true (by simp [evalE]) r3), a, b,
        by rw [c, hs0 hc]⟩
  have e3 : ∀ x, lookupVar σ3.vars x = lookupVar σ2.vars x := fun x => by rw [hv3]
  have inv3 : S2DInv spec i outT bT n m ob bcb bvb crdB cellsB σ0 (j + 1) σ3 :=
    inv2.store hjn hv3 ht3 (fun blk hblk => by rw [ob1] at hblk; cases hblk; exact hh3)
  have hi3 : IntVar σ3 i j := hi2.congr (e3 _)
  have hp3 : IntVar σ3 (layerPointer bT.id 0) q := hp2.congr (e3 _)
  have hv3' : IntVar σ3 (valueFromCrd bT.id 0) (crdB q) := hv2.congr (e3 _)
  -- 4: p_b = p_b + (int)(i_b == i)
  have eeq3 : evalE σ3 (.bin .eq (.var (valueFromCrd bT.id 0)) (.var i)) = .ok (.bool (crdB q == (j : Int))) :=
    evalE_eqInt (evalE_var_int hv3' (by omega) (by omega)) (evalE_var_int hi3 (by omega) hjI)
  obtain ⟨σ4, r4, v4, o4, hh4, ht4⟩ := s2d_incr_runs fuel hp3 (evalE_b2i eeq3) (by omega)
    (by split <;> omega) (by split <;> omega)
  have hi4 : IntVar σ4 i j := hi3.congr (o4 _ (by nm N))
  have inv4 : S2DInv spec i outT bT n m ob bcb bvb crdB cellsB σ0 (j + 1) σ4 :=
    inv3.vars N hh4 ht4 (fun y _ b _ _ => o4 y b)
      (fun r hr => inv3.scrA r (by rw [← o4 _ (by nm N)]; exact hr))
      (fun r hr => inv3.scrB r (by rw [← o4 _ (by nm N)]; exact hr))
  -- 5: i = i + 1
  obtain ⟨σ5, r5, v5, o5, hh5, ht5⟩ := s2d_incr_runs fuel hi4 (evalE_intLit (σ := σ4) (v := 1) (by omega) (by omega))
    (by omega) (by omega) (by omega)
  have inv5 : S2DInv spec i outT bT n m ob bcb bvb crdB cellsB σ0 (j + 1) σ5 :=
    inv4.vars N hh5 ht5 (fun y a _ _ _ => o5 y a)
      (fun r hr => inv4.scrA r (by rw [← o5 _ (by nm N)]; exact hr))
      (fun r hr => inv4.scrB r (by rw [← o5 _ (by nm N)]; exact hr))
  refine ⟨σ5, ?_, inv5, ?_, v4.congr (o5 _ (by nm N))⟩
  · have := Dense1.RunsI.block (c := none) (Dense1.RunsLI.cons r1 (Dense1.RunsLI.cons r2 (Dense1.RunsLI.cons r3
      (Dense1.RunsLI.cons r4 (Dense1.RunsLI.cons r5 (Dense1.RunsLI.nil _ _))))))
    simpa [s2dBody1, declAssignE] using this
  · have : ((j + 1 : Nat) : Int) = (j : Int) + 1 := by omega
    rw [this]; exact v5

/-- **one iteration of the tail loop** at `i = j < n` -/
theorem s2d_body2_runs (ofRat : Rat → F) (N : KNames i outT bT) (fuel : Nat)
    (hn : (n : Int) < 2147483648)
    (hz : FloatOps.finite (ofRat ((0 : Int) : Rat)) = true)
    (hjn : j < n) (hs0 : spec j = ofRat ((0 : Int) : Rat))
    (h : S2DInv spec i outT bT n m ob bcb bvb crdB cellsB σ0 j σ)
    (hi : IntVar σ i j) :
    ∃ σ', RunsI fuel (s2dBody2 ofRat i outT) σ σ' 0 ∧
      S2DInv spec i outT bT n m ob bcb bvb crdB cellsB σ0 (j + 1) σ' ∧
      IntVar σ' i ((j + 1 : Nat) : Int) := by
  have hjI : (j : Int) < 2147483648 := by omega
  obtain ⟨σ2, r2, hh2, ht2, o2, v2⟩ := s2d_ptrDecl_runs (outT := outT) fuel hn hjI hi h.dim (by nm N) (by nm N)
    h.scrA
  have hi2 : IntVar σ2 i j := hi.congr (o2 _ (by nm N))
  have inv2 : S2DInv spec i outT bT n m ob bcb bvb crdB cellsB σ0 j σ2 :=
    h.vars N hh2 ht2 (fun y _ _ _ d => o2 y d)
      (fun r hr => Dense1.intVar_ty_int v2 r hr)
      (fun r hr => h.scrB r (by rw [← o2 _ (by nm N)]; exact hr))
  obtain ⟨oblk, ob1, ob2, ob3, ob4, ob5⟩ := inv2.outBlk
  have el : evalE σ2 (toIrWith ofRat (.int 0)) = .ok (.flt (ofRat ((0 : Int) : Rat))) := by
    simpa [toIrWith, evalE, chkFlt] using hz
  obtain ⟨σ3, r3, hv3, ht3, hh3⟩ := s2d_store_runs fuel ofRat inv2.out v2 hjI ob1 ob2 ob3 ob4 (by omega) el
  have e3 : ∀ x, lookupVar σ3.vars x = lookupVar σ2.vars x := fun x => by rw [hv3]
  have inv3 : S2DInv spec i outT bT n m ob bcb bvb crdB cellsB σ0 (j + 1) σ3 :=
    inv2.store hjn hv3 ht3 (fun blk hblk => by rw [ob1] at hblk; cases hblk; rw [hh3, hs0])
  have hi3 : IntVar σ3 i j := hi2.congr (e3 _)
  obtain ⟨σ5, r5, v5, o5, hh5, ht5⟩ := s2d_incr_runs fuel hi3 (evalE_intLit (σ := σ3) (v := 1) (by omega) (by omega))
    (by omega) (by omega) (by omega)
  have inv5 : S2DInv spec i outT bT n m ob bcb bvb crdB cellsB σ0 (j + 1) σ5 :=
    inv3.vars N hh5 ht5 (fun y a _ _ _ => o5 y a)
      (fun r hr => inv3.scrA r (by rw [← o5 _ (by nm N)]; exact hr))
      (fun r hr => inv3.scrB r (by rw [← o5 _ (by nm N)]; exact hr))
  refine ⟨σ5, ?_, inv5, ?_⟩
  · have := Dense1.RunsI.block (c := none) (Dense1.RunsLI.cons r2 (Dense1.RunsLI.cons
      (Dense1.RunsI.branch_true (c := .boolLit true) (f := .block [] none) (by simp [evalE]) r3)
      (Dense1.RunsLI.cons r5 (Dense1.RunsLI.nil _ _))))
    simpa [s2dBody2] using this
  · have : ((j + 1 : Nat) : Int) = (j : Int) + 1 := by omega
    rw [this]; exact v5

end

/-- the number of iterations of the merging loop: one past the last stored coordinate -/
def s2dSplit (crdB : Nat → Int) (m : Nat) : Nat := if m = 0 then 0 else (crdB (m - 1)).toNat + 1

section
variable {spec : Nat → F} {i : String} {outT bT : TensorId} {n m ob bcb bvb : Nat}
  {crdB : Nat → Int} {cellsB : Nat → F} {σ0 : State F}

/-- **the merging loop**, by induction on the number `d` of remaining iterations; ghost invariant: `q ≤ m`,
the coordinates stored below position `q` are `< j`, the coordinate at `q` (if any) is `≥ j` -/
theorem s2d_loop1_runs (ofRat : Rat → F) (N : KNames i outT bT) (hb : isSp i bT = true)
    (hn : (n : Int) < 2147483648) (hm : (m : Int) < 2147483648)
    (hz : FloatOps.finite (ofRat ((0 : Int) : Rat)) = true)
    (hfin : ∀ k, k < m → FloatOps.finite (cellsB k) = true)
    (hrng : ∀ k, k < m → 0 ≤ crdB k ∧ crdB k < n)
    (hmono : ∀ k k', k < k' → k' < m → crdB k < crdB k')
    (hs1 : ∀ k, k < m → spec (crdB k).toNat = cellsB k)
    (hs0 : ∀ x : Nat, (∀ k, k < m → crdB k ≠ x) → spec x = ofRat ((0 : Int) : Rat)) :
    ∀ (d j q : Nat) (σ : State F) (fuel : Nat), j + d = s2dSplit crdB m →
      S2DInv spec i outT bT n m ob bcb bvb crdB cellsB σ0 j σ →
      IntVar σ i j → IntVar σ (layerPointer bT.id 0) q →
      q ≤ m → (∀ k, k < q → crdB k < j) → (q < m → (j : Int) ≤ crdB q) → d + 1 ≤ fuel →
      ∃ σ', RunsI fuel (s2dLoop1 ofRat i outT bT) σ σ' d ∧
        S2DInv spec i outT bT n m ob bcb bvb crdB cellsB σ0 (s2dSplit crdB m) σ' ∧
        IntVar σ' i (s2dSplit crdB m : Nat) := by
  intro d
  induction d with
  | zero =>
    intro j q σ fuel hjd inv hi hp hqm hlo hhi hfuel
    obtain ⟨fuel', rfl⟩ := Nat.exists_eq_add_of_le hfuel
    have hq : q = m := by
      rcases Nat.lt_or_ge q m with hlt | hge
      · exfalso
        have h1 := hhi hlt
        have hm0 : m ≠ 0 := by omega
        have h2 : crdB q ≤ crdB (m - 1) := by
          rcases Nat.lt_or_ge q (m - 1) with h | h
          · exact Int.le_of_lt (hmono q (m - 1) h (by omega))
          · have : q = m - 1 := by omega
            rw [this]; exact Int.le_refl _
        have h3 := (hrng (m - 1) (by omega)).1
        simp only [s2dSplit, hm0, if_false] at hjd
        omega
      · omega
    subst hq
    have ec : evalE σ (.bin .and (.boolLit true)
        (.bin .lt (.var (layerPointer bT.id 0)) (.var (sparseEndName bT.id 0)))) =
        .ok (.bool (true && decide ((q : Int) < (q : Int)))) :=
      evalE_and (by simp [evalE]) (Merge.evalE_lt (evalE_var_int hp (by omega) hm)
        (evalE_var_int inv.pend (by omega) hm))
    have hd : (true && decide ((q : Int) < (q : Int))) = false := by simp
    rw [hd] at ec
    have hj : j = s2dSplit crdB q := by omega
    subst hj
    refine ⟨σ, ?_, inv, hi⟩
    rw [show 0 + 1 + fuel' = fuel' + 1 by omega, s2dLoop1_eq]
    exact Dense1.RunsI.loop_false ec
  | succ d ih =>
    intro j q σ fuel hjd inv hi hp hqm hlo hhi hfuel
    obtain ⟨fuel', rfl⟩ := Nat.exists_eq_add_of_le hfuel
    have hm0 : m ≠ 0 := by
      intro h0; simp only [s2dSplit, h0, if_true] at hjd; omega
    have hlast := hrng (m - 1) (by omega)
    have hjl : (j : Int) ≤ crdB (m - 1) := by
      simp only [s2dSplit, hm0, if_false] at hjd; omega
    have hq : q < m := by
      rcases Nat.lt_or_ge q m with hlt | hge
      · exact hlt
      · exfalso
        have := hlo (m - 1) (by omega)
        omega
    have hjq := hhi hq
    obtain ⟨hr0, hr1⟩ := hrng q hq
    have ec : evalE σ (.bin .and (.boolLit true)
        (.bin .lt (.var (layerPointer bT.id 0)) (.var (sparseEndName bT.id 0)))) =
        .ok (.bool (true && decide ((q : Int) < (m : Int)))) :=
      evalE_and (by simp [evalE]) (Merge.evalE_lt (evalE_var_int hp (by omega) (by omega))
        (evalE_var_int inv.pend (by omega) hm))
    have hd : (true && decide ((q : Int) < (m : Int))) = true := by simp; omega
    rw [hd] at ec
    obtain ⟨σ1, r1, inv1, hi1, hp1⟩ := s2d_body1_runs ofRat N hb (d + 1 + fuel') hn hm hz hfin hrng hq hjq
      (fun hc => by have := hs1 q hq; rw [hc] at this; simpa using this)
      (fun hc => hs0 j (fun k hk hkj => by
        rcases Nat.lt_or_ge k q with h | h
        · have := hlo k h; omega
        · rcases Nat.lt_or_ge q k with h' | h'
          · have := hmono q k h' hk; omega
          · have : k = q := by omega
            subst this; exact hc hkj)) inv hi hp
    by_cases hc : crdB q = j
    · have hp1' : IntVar σ1 (layerPointer bT.id 0) ((q + 1 : Nat) : Int) := by
        have : ((q : Int) + (if crdB q == (j : Int) then 1 else 0)) = ((q + 1 : Nat) : Int) := by
          simp [hc]
        rw [← this]; exact hp1
      obtain ⟨σ', r2, inv', hi'⟩ := ih (j + 1) (q + 1) σ1 (d + 1 + fuel') (by omega) inv1 hi1 hp1' (by omega)
        (fun k hk => by
          rcases Nat.lt_or_ge k q with h | h
          · have := hlo k h; omega
          · have : k = q := by omega
            subst this; omega)
        (fun hlt => by have := hmono q (q + 1) (by omega) hlt; omega) (by omega)
      refine ⟨σ', ?_, inv', hi'⟩
      have := Dense1.RunsI.loop_true ec r1 r2
      rw [show d + 1 + 1 + fuel' = d + 1 + fuel' + 1 by omega, s2dLoop1_eq]
      simpa using this
    · have hp1' : IntVar σ1 (layerPointer bT.id 0) (q : Int) := by
        have : ((q : Int) + (if crdB q == (j : Int) then 1 else 0)) = (q : Int) := by
          simp [hc]
        rw [← this]; exact hp1
      obtain ⟨σ', r2, inv', hi'⟩ := ih (j + 1) q σ1 (d + 1 + fuel') (by omega) inv1 hi1 hp1' hqm
        (fun k hk => by have := hlo k hk; omega)
        (fun _ => by omega) (by omega)
      refine ⟨σ', ?_, inv', hi'⟩
      have := Dense1.RunsI.loop_true ec r1 r2
      rw [show d + 1 + 1 + fuel' = d + 1 + fuel' + 1 by omega, s2dLoop1_eq]
      simpa using this

/-- **the tail loop** -/
theorem s2d_loop2_runs (ofRat : Rat → F) (N : KNames i outT bT)
    (hn : (n : Int) < 2147483648)
    (hz : FloatOps.finite (ofRat ((0 : Int) : Rat)) = true) :
    ∀ (d j : Nat) (σ : State F) (fuel : Nat), j + d = n →
      S2DInv spec i outT bT n m ob bcb bvb crdB cellsB σ0 j σ → IntVar σ i j →
      (∀ x, j ≤ x → x < n → spec x = ofRat ((0 : Int) : Rat)) → d + 1 ≤ fuel →
      ∃ σ', RunsI fuel (s2dLoop2 ofRat i outT) σ σ' d ∧
        S2DInv spec i outT bT n m ob bcb bvb crdB cellsB σ0 n σ' := by
  intro d
  induction d with
  | zero =>
    intro j σ fuel hjd inv hi hs hfuel
    obtain ⟨fuel', rfl⟩ := Nat.exists_eq_add_of_le hfuel
    have hj : j = n := by omega
    subst hj
    have ec := Merge.evalE_lt (evalE_var_int hi (by omega) hn) (evalE_var_int inv.dim (by omega) hn)
    have hd : decide ((j : Int) < (j : Int)) = false := by simp
    rw [hd] at ec
    refine ⟨σ, ?_, inv⟩
    rw [show 0 + 1 + fuel' = fuel' + 1 by omega, s2dLoop2_eq]
    exact Dense1.RunsI.loop_false ec
  | succ d ih =>
    intro j σ fuel hjd inv hi hs hfuel
    obtain ⟨fuel', rfl⟩ := Nat.exists_eq_add_of_le hfuel
    have hjn : j < n := by omega
    have ec := Merge.evalE_lt (evalE_var_int hi (by omega) (by omega)) (evalE_var_int inv.dim (by omega) hn)
    have hd : decide ((j : Int) < (n : Int)) = true := by simp; omega
    rw [hd] at ec
    obtain ⟨σ1, r1, inv1, hi1⟩ := s2d_body2_runs ofRat N (d + 1 + fuel') hn hz hjn (hs j (Nat.le_refl _) hjn)
      inv hi
    obtain ⟨σ', r2, inv'⟩ := ih (j + 1) σ1 (d + 1 + fuel') (by omega) inv1 hi1
      (fun x hx hxn => hs x (by omega) hxn) (by omega)
    refine ⟨σ', ?_, inv'⟩
    have := Dense1.RunsI.loop_true ec r1 r2
    rw [show d + 1 + 1 + fuel' = d + 1 + fuel' + 1 by omega, s2dLoop2_eq]
    simpa using this

end

end TV.Conv
