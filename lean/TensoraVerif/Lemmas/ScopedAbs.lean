import TensoraVerif.Lemmas.ScopedBasic

/-!
C06 (scoping): the abstract interpreter behind `scopeOK`, on its own.

* `invAll` algebra (idempotent, composes, commutes with `andA`);
* `WF`: the shadowing invariant — a name bound in an inner scope is invalid in every outer scope;
* inversion lemmas for `absS`;
* `absS_tail`: what a statement does to the scopes *outside* the current one is to invalidate the
  names it declares, nothing else; hence
* `absS_loop_fix`: the state a loop leaves is a fixpoint of the loop's transfer function.
-/
namespace TV.IR
variable {F : Type}

namespace Scoped

/-! ### `invP`, `invAll` -/

theorem invP_fst (N : List String) (p : String × Bool) : (invP N p).1 = p.1 := by
  unfold invP; split <;> rfl

theorem invP_nil (p : String × Bool) : invP [] p = p := by
  simp [invP]

theorem invP_snd_true {N : List String} {p : String × Bool} (h : (invP N p).2 = true) :
    p.2 = true ∧ N.contains p.1 = false := by
  unfold invP at h
  split at h
  · cases h
  · rename_i hn
    exact ⟨h, Bool.eq_false_iff.mpr hn⟩

theorem invP_snd_false {N : List String} {p : String × Bool} (h : p.2 = false) : (invP N p).2 = false := by
  unfold invP; split
  · rfl
  · exact h

theorem invP_invP (N₁ N₂ : List String) (p : String × Bool) :
    invP N₂ (invP N₁ p) = invP (N₁ ++ N₂) p := by
  obtain ⟨n, b⟩ := p
  simp only [invP, List.contains_eq_mem, List.mem_append, decide_eq_true_eq]
  by_cases h1 : n ∈ N₁ <;> by_cases h2 : n ∈ N₂ <;> simp [h1, h2]

theorem invP_idem (N : List String) (p : String × Bool) : invP N (invP N p) = invP N p := by
  obtain ⟨n, b⟩ := p
  simp only [invP, List.contains_eq_mem, decide_eq_true_eq]
  by_cases h1 : n ∈ N <;> simp [h1]

theorem invP_and (N₁ N₂ : List String) (p : String × Bool) :
    ((invP N₁ p).1, (invP N₁ p).2 && (invP N₂ p).2) = invP N₂ (invP N₁ p) := by
  obtain ⟨n, b⟩ := p
  simp only [invP, List.contains_eq_mem, decide_eq_true_eq]
  by_cases h1 : n ∈ N₁ <;> by_cases h2 : n ∈ N₂ <;> simp [h1, h2]

theorem invP_comm (N₁ N₂ : List String) (p : String × Bool) :
    invP N₂ (invP N₁ p) = invP N₁ (invP N₂ p) := by
  obtain ⟨n, b⟩ := p
  simp only [invP, List.contains_eq_mem, decide_eq_true_eq]
  by_cases h1 : n ∈ N₁ <;> by_cases h2 : n ∈ N₂ <;> simp [h1, h2]

theorem invAll_cons (N : List String) (sc : AScope) (rest : AState) :
    invAll N (sc :: rest) = sc.map (invP N) :: invAll N rest := rfl

theorem invAll_nil (A : AState) : invAll [] A = A := by
  unfold invAll
  have : (fun sc : AScope => sc.map (invP [])) = id := by
    funext sc
    have : invP [] = id := funext invP_nil
    simp [this]
  rw [this, List.map_id]

theorem invAll_invAll (N₁ N₂ : List String) (A : AState) :
    invAll N₂ (invAll N₁ A) = invAll (N₁ ++ N₂) A := by
  simp only [invAll, List.map_map]
  congr 1
  funext sc
  simp only [Function.comp, List.map_map]
  congr 1
  funext p
  exact invP_invP N₁ N₂ p

theorem invAll_idem (N : List String) (A : AState) : invAll N (invAll N A) = invAll N A := by
  simp only [invAll, List.map_map]
  congr 1
  funext sc
  simp only [Function.comp, List.map_map]
  congr 1
  funext p
  exact invP_idem N p

theorem invAll_comm (N₁ N₂ : List String) (A : AState) :
    invAll N₂ (invAll N₁ A) = invAll N₁ (invAll N₂ A) := by
  simp only [invAll, List.map_map]
  congr 1
  funext sc
  simp only [Function.comp, List.map_map]
  congr 1
  funext p
  exact invP_comm N₁ N₂ p

theorem andA_invAll (N₁ N₂ : List String) (A : AState) :
    andA (invAll N₁ A) (invAll N₂ A) = invAll N₂ (invAll N₁ A) := by
  induction A with
  | nil => rfl
  | cons sc rest ih =>
    simp only [invAll_cons]
    unfold andA
    rw [List.zipWith_cons_cons]
    congr 1
    induction sc with
    | nil => rfl
    | cons p sc ihs =>
      simp only [List.map_cons, List.zipWith_cons_cons]
      rw [ihs, invP_and]

/-- the names bound in each scope -/
def names (A : AState) : List (List String) := A.map (·.map (·.1))

theorem names_invAll (N : List String) (A : AState) : names (invAll N A) = names A := by
  simp only [names, invAll, List.map_map]
  congr 1
  funext sc
  simp only [Function.comp, List.map_map]
  congr 1
  funext p
  exact invP_fst N p

/-! ### lookups -/

theorem find_invP (N : List String) (sc : AScope) (x : String) :
    (sc.map (invP N)).find? (·.1 == x) = (sc.find? (·.1 == x)).map (invP N) := by
  rw [List.find?_map]
  have : ((fun q : String × Bool => q.1 == x) ∘ invP N) = fun q => q.1 == x := by
    funext q
    simp only [Function.comp, invP_fst]
  rw [this]

theorem lookA_cons (sc : AScope) (rest : AState) (x : String) :
    lookA (sc :: rest) x = match sc.find? (·.1 == x) with
      | some p => some p.2
      | none => lookA rest x := rfl

/-- invalidation only removes validity -/
theorem lookA_invAll {N : List String} {A : AState} {x : String} (h : lookA (invAll N A) x = some true) :
    lookA A x = some true := by
  induction A with
  | nil => exact h
  | cons sc rest ih =>
    rw [invAll_cons, lookA_cons, find_invP] at h
    rw [lookA_cons]
    cases hf : sc.find? (·.1 == x) with
    | none =>
      rw [hf] at h
      exact ih h
    | some p =>
      rw [hf] at h
      simp only [Option.map_some, Option.some.injEq] at h ⊢
      exact (invP_snd_true h).1

theorem find_none_of_any {sc : AScope} {x : String} (h : sc.any (·.1 == x) = false) :
    sc.find? (·.1 == x) = none := by
  rw [List.find?_eq_none]
  intro p hp
  have := List.any_eq_false.mp h p hp
  simpa using this

theorem find_some_of_any {sc : AScope} {x : String} (h : sc.any (·.1 == x) = true) :
    ∃ p, sc.find? (·.1 == x) = some p := by
  cases e : sc.find? (·.1 == x) with
  | some p => exact ⟨p, rfl⟩
  | none =>
    rw [List.find?_eq_none] at e
    obtain ⟨p, hp, hx⟩ := List.any_eq_true.mp h
    exact (e p hp hx).elim

/-- invalidating names other than `x` does not change how `x` resolves -/
theorem lookA_invAll_ne {N : List String} (A : AState) {x : String} (hx : N.contains x = false) :
    lookA (invAll N A) x = lookA A x := by
  induction A with
  | nil => rfl
  | cons sc rest ih =>
    rw [invAll_cons, lookA_cons, find_invP, lookA_cons, ih]
    cases hf : sc.find? (·.1 == x) with
    | none => rfl
    | some p =>
      have hp : p.1 = x := by simpa using List.find?_some hf
      simp only [Option.map_some, invP, hp, hx, Bool.false_eq_true, if_false]

theorem lookA_some_mem {A : AState} {x : String} {b : Bool} (h : lookA A x = some b) :
    ∃ q ∈ A.flatten, q.1 = x ∧ q.2 = b := by
  induction A with
  | nil => cases h
  | cons sc rest ih =>
    rw [lookA_cons] at h
    cases hf : sc.find? (·.1 == x) with
    | none =>
      rw [hf] at h
      obtain ⟨q, hq, e⟩ := ih h
      exact ⟨q, by simp [hq], e⟩
    | some p =>
      rw [hf] at h
      simp only [Option.some.injEq] at h
      refine ⟨p, ?_, by simpa using List.find?_some hf, h⟩
      simp [List.mem_of_find?_eq_some hf]

/-! ### the shadowing invariant -/

/-- a name bound in some scope is invalid in all the scopes outside it -/
def WF : AState → Prop
  | [] => True
  | sc :: rest => (∀ p ∈ sc, ∀ q ∈ rest.flatten, q.1 = p.1 → q.2 = false) ∧ WF rest

theorem WF.tail {A : AState} (h : WF A) : WF A.tail := by
  cases A with
  | nil => exact h
  | cons sc rest => exact h.2

theorem WF.push {A : AState} (h : WF A) : WF ([] :: A) :=
  ⟨fun p hp => (by cases hp), h⟩

theorem WF.inv {A : AState} (N : List String) (h : WF A) : WF (invAll N A) := by
  induction A with
  | nil => exact h
  | cons sc rest ih =>
    refine ⟨?_, ih h.2⟩
    intro p' hp' q' hq' e
    have hfl : (invAll N rest).flatten = rest.flatten.map (invP N) := by
      simp [invAll, List.map_flatten]
    obtain ⟨p, hp, rfl⟩ := List.mem_map.mp hp'
    change q' ∈ (invAll N rest).flatten at hq'
    rw [hfl] at hq'
    obtain ⟨q, hq, rfl⟩ := List.mem_map.mp hq'
    rw [invP_fst, invP_fst] at e
    exact invP_snd_false (h.1 p hp q hq e)

/-- a name of the innermost scope is not valid further out -/
theorem WF.outer_invalid {sc : AScope} {rest : AState} (h : WF (sc :: rest)) {x : String}
    (hx : sc.any (·.1 == x) = true) : lookA rest x ≠ some true := by
  intro hl
  obtain ⟨q, hq, e1, e2⟩ := lookA_some_mem hl
  obtain ⟨p, hp, hpx⟩ := List.any_eq_true.mp hx
  have := h.1 p hp q hq (by rw [e1]; exact (by simpa using hpx : p.1 = x).symm)
  rw [this] at e2
  cases e2

theorem WF.decl {sc : AScope} {rest : AState} (h : WF (sc :: rest)) (x : String) :
    WF (((x, true) :: sc) :: invAll [x] rest) := by
  have hfl : (invAll [x] rest).flatten = rest.flatten.map (invP [x]) := by
    simp [invAll, List.map_flatten]
  refine ⟨?_, WF.inv [x] h.2⟩
  intro p hp q' hq' e
  rw [hfl] at hq'
  obtain ⟨q, hq, rfl⟩ := List.mem_map.mp hq'
  rw [invP_fst] at e
  rcases List.mem_cons.mp hp with rfl | hp
  · simp only at e
    simp [invP, e]
  · exact invP_snd_false (h.1 p hp q hq e)

/-! ### inversion of the transfer function -/

theorem declA_cons {sc : AScope} {rest : AState} {x : String} {B : AState}
    (h : declA (sc :: rest) x = some B) :
    sc.any (·.1 == x) = false ∧ B = ((x, true) :: sc) :: invAll [x] rest := by
  unfold declA at h
  simp only at h
  split at h
  · cases h
  · rename_i hn
    exact ⟨Bool.eq_false_iff.mpr hn, by cases h; rfl⟩

theorem absS_expr {e : Expr F} {A B : AState} (h : absS (.expr e) A = some B) :
    usesE A e = true ∧ B = A := by
  rw [absS.eq_1] at h
  split at h
  · exact ⟨‹_›, by cases h; rfl⟩
  · cases h

theorem absS_ret {e : Expr F} {A B : AState} (h : absS (.ret e) A = some B) :
    usesE A e = true ∧ B = A := by
  rw [absS.eq_8] at h
  split at h
  · exact ⟨‹_›, by cases h; rfl⟩
  · cases h

theorem absS_assign {t v : Expr F} {A B : AState} (h : absS (.assign t v) A = some B) :
    usesE A t = true ∧ usesE A v = true ∧ B = A := by
  rw [absS.eq_3] at h
  split at h
  · rename_i hc
    simp only [Bool.and_eq_true] at hc
    exact ⟨hc.1, hc.2, by cases h; rfl⟩
  · cases h

theorem absS_declAssign {x : String} {t : Ty} {v : Expr F} {A B : AState}
    (h : absS (.declAssign x t v) A = some B) :
    v.mentions x = false ∧ usesE A v = true ∧ declA A x = some B := by
  rw [absS.eq_4] at h
  split at h
  · cases h
  · split at h
    · rename_i hn hu
      exact ⟨Bool.eq_false_iff.mpr hn, hu, h⟩
    · cases h

theorem absS_branch {c : Expr F} {t f : Stmt F} {A B : AState} (h : absS (.branch c t f) A = some B) :
    usesE A c = true ∧ ∃ Bt Bf, absS t ([] :: A) = some Bt ∧ absS f ([] :: A) = some Bf ∧
      B = andA Bt.tail Bf.tail := by
  rw [absS.eq_6] at h
  split at h
  · refine ⟨‹_›, ?_⟩
    split at h
    · cases h
      exact ⟨_, _, ‹_›, ‹_›, rfl⟩
    · cases h
  · cases h

theorem absS_loop {c : Expr F} {b : Stmt F} {A B : AState} (h : absS (.loop c b) A = some B) :
    usesE A c = true ∧ ∃ B' B'', absS b ([] :: A) = some B' ∧ B = B'.tail ∧ usesE B c = true ∧
      absS b ([] :: B) = some B'' := by
  rw [absS.eq_7] at h
  split at h
  · refine ⟨‹_›, ?_⟩
    split at h
    · rename_i B' hB'
      simp only at h
      split at h
      · split at h
        · cases h
          exact ⟨B', _, hB', rfl, ‹_›, ‹_›⟩
        · cases h
      · cases h
    · cases h
  · cases h

theorem absL_cons {s : Stmt F} {ss : List (Stmt F)} {A B : AState} (h : absL (s :: ss) A = some B) :
    ∃ B₁, absS s A = some B₁ ∧ absL ss B₁ = some B := by
  rw [absL.eq_2] at h
  split at h
  · exact ⟨_, ‹_›, h⟩
  · cases h

/-! ### effect on the outer scopes -/

theorem ex_cons {X : AScope} {Y Z : AState} (h : Y = Z) : ∃ sc', X :: Y = sc' :: Z := ⟨X, by rw [h]⟩

mutual
/-- outside the current scope, a statement invalidates exactly the names it declares -/
theorem absS_tail : ∀ (s : Stmt F) (sc : AScope) (rest B : AState), absS s (sc :: rest) = some B →
    ∃ sc', B = sc' :: invAll (s.decls.map (·.1)) rest
  | .expr e, sc, rest, B, h => by
    obtain ⟨_, rfl⟩ := absS_expr h
    exact ex_cons (by simp [Stmt.decls, invAll_nil])
  | .decl x t, sc, rest, B, h => by
    rw [absS.eq_2] at h
    obtain ⟨_, rfl⟩ := declA_cons h
    exact ex_cons (by simp [Stmt.decls])
  | .assign t v, sc, rest, B, h => by
    obtain ⟨_, _, rfl⟩ := absS_assign h
    exact ex_cons (by simp [Stmt.decls, invAll_nil])
  | .declAssign x t v, sc, rest, B, h => by
    obtain ⟨_, _, h⟩ := absS_declAssign h
    obtain ⟨_, rfl⟩ := declA_cons h
    exact ex_cons (by simp [Stmt.decls])
  | .block ss c, sc, rest, B, h => by
    rw [absS.eq_5] at h
    obtain ⟨sc', e⟩ := absL_tail ss sc rest B h
    exact ⟨sc', by simpa [Stmt.decls] using e⟩
  | .branch c t f, sc, rest, B, h => by
    obtain ⟨_, Bt, Bf, ht, hf, rfl⟩ := absS_branch h
    obtain ⟨sct, rfl⟩ := absS_tail t [] (sc :: rest) Bt ht
    obtain ⟨scf, rfl⟩ := absS_tail f [] (sc :: rest) Bf hf
    rw [List.tail_cons, List.tail_cons, andA_invAll, invAll_invAll, invAll_cons]
    exact ex_cons (by simp [Stmt.decls])
  | .loop c b, sc, rest, B, h => by
    obtain ⟨_, B', _, hb, rfl, _, _⟩ := absS_loop h
    obtain ⟨scb, rfl⟩ := absS_tail b [] (sc :: rest) B' hb
    rw [List.tail_cons, invAll_cons]
    exact ex_cons (by simp [Stmt.decls])
  | .ret e, sc, rest, B, h => by
    obtain ⟨_, rfl⟩ := absS_ret h
    exact ex_cons (by simp [Stmt.decls, invAll_nil])
theorem absL_tail : ∀ (ss : List (Stmt F)) (sc : AScope) (rest B : AState), absL ss (sc :: rest) = some B →
    ∃ sc', B = sc' :: invAll ((declsL ss).map (·.1)) rest
  | [], sc, rest, B, h => by
    rw [absL.eq_1] at h
    cases h
    exact ex_cons (by simp [declsL, invAll_nil])
  | s :: ss, sc, rest, B, h => by
    obtain ⟨B₁, h1, h2⟩ := absL_cons h
    obtain ⟨sc1, rfl⟩ := absS_tail s sc rest B₁ h1
    obtain ⟨sc2, rfl⟩ := absL_tail ss sc1 _ B h2
    exact ex_cons (by simp [declsL, invAll_invAll])
end

/-- an arm/body run in a fresh scope and popped: the names it declares are invalidated -/
theorem absS_pop {s : Stmt F} {A B : AState} (h : absS s ([] :: A) = some B) :
    B.tail = invAll (s.decls.map (·.1)) A := by
  obtain ⟨sc', rfl⟩ := absS_tail s [] A B h
  rfl

/-- a branch invalidates the names declared in either arm -/
theorem absS_branch_eq {c : Expr F} {t f : Stmt F} {A B : AState} (h : absS (.branch c t f) A = some B) :
    B = invAll (f.decls.map (·.1)) (invAll (t.decls.map (·.1)) A) := by
  obtain ⟨_, Bt, Bf, ht, hf, rfl⟩ := absS_branch h
  rw [absS_pop ht, absS_pop hf, andA_invAll]

/-- the state a loop leaves is the entry state with the body's declared names invalidated, and it is
a fixpoint of the loop's transfer function -/
theorem absS_loop_fix {c : Expr F} {b : Stmt F} {A B : AState} (h : absS (.loop c b) A = some B) :
    B = invAll (b.decls.map (·.1)) A ∧ absS (.loop c b) B = some B := by
  obtain ⟨_, B', B'', hb, rfl, hc, hb2⟩ := absS_loop h
  have e1 := absS_pop hb
  refine ⟨e1, ?_⟩
  have e2 := absS_pop hb2
  rw [e1, invAll_idem, ← e1] at e2
  rw [absS.eq_7]
  simp only [hc, hb2, e2, if_true]

end Scoped
end TV.IR
