import TensoraVerif.Model.Scoped

/-!
C06 (scoping): list-level facts about the variable environment — `lookupVar`, `setVarOpt`,
`setVarS`, `declare` — phrased through lookups only, so that no uniqueness invariant on
environments is ever needed.
-/
namespace TV.IR
variable {F : Type}

namespace Scoped

/-! ### heterogeneous "same outcome" relation on `Except Err` -/

/-- both succeed with related results, or both fail with the same error -/
def XRel {α β : Type} (R : α → β → Prop) : Except Err α → Except Err β → Prop
  | .ok a, .ok b => R a b
  | .error e₁, .error e₂ => e₁ = e₂
  | _, _ => False

theorem XRel.bind {α β α' β' : Type} {R : α → α' → Prop} {S : β → β' → Prop} {a : Except Err α}
    {b : Except Err α'} {f : α → Except Err β} {g : α' → Except Err β'} (h : XRel R a b)
    (hf : ∀ u v, R u v → XRel S (f u) (g v)) : XRel S (a >>= f) (b >>= g) := by
  cases a <;> cases b
  · exact h
  · exact h.elim
  · exact h.elim
  · exact hf _ _ h

/-- bind over the same first computation -/
theorem XRel.bind_same {α β β' : Type} {S : β → β' → Prop} (a : Except Err α)
    {f : α → Except Err β} {g : α → Except Err β'} (hf : ∀ u, XRel S (f u) (g u)) :
    XRel S (a >>= f) (a >>= g) := by
  cases a
  · rfl
  · exact hf _

theorem XRel.mono {α β : Type} {R S : α → β → Prop} {a : Except Err α} {b : Except Err β}
    (h : XRel R a b) (hrs : ∀ u v, R u v → S u v) : XRel S a b := by
  cases a <;> cases b
  · exact h
  · exact h.elim
  · exact h.elim
  · exact hrs _ _ h

theorem XRel.error {α β : Type} {R : α → β → Prop} (e : Err) :
    XRel R (.error e : Except Err α) (.error e : Except Err β) := rfl

/-! ### lookups -/

theorem lookupVar_nil (x : String) : lookupVar ([] : List (VarRec F)) x = none := rfl

theorem lookupVar_cons (r : VarRec F) (l : List (VarRec F)) (x : String) :
    lookupVar (r :: l) x = if r.name = x then some r else lookupVar l x := by
  by_cases h : r.name = x <;> simp [lookupVar, h]

theorem lookupVar_name {l : List (VarRec F)} {x : String} {r : VarRec F} (h : lookupVar l x = some r) :
    r.name = x := by
  have := List.find?_some h
  simpa using this

theorem lookupVar_append (l₁ l₂ : List (VarRec F)) (x : String) :
    lookupVar (l₁ ++ l₂) x = match lookupVar l₁ x with
      | some r => some r
      | none => lookupVar l₂ x := by
  induction l₁ with
  | nil => rfl
  | cons r l ih =>
    rw [List.cons_append, lookupVar_cons, lookupVar_cons]
    by_cases h : r.name = x
    · simp [h]
    · simp only [h, if_false]; exact ih

/-- C name resolution: the flattened view resolves a name to the innermost scope that has it -/
theorem lookupVar_flatten_cons (sc : List (VarRec F)) (rest : List (List (VarRec F))) (x : String) :
    lookupVar (sc :: rest).flatten x = match lookupVar sc x with
      | some r => some r
      | none => lookupVar rest.flatten x := by
  rw [List.flatten_cons, lookupVar_append]

theorem any_name_iff (l : List (VarRec F)) (x : String) :
    l.any (·.name == x) = true ↔ x ∈ l.map (·.name) := by
  simp only [List.any_eq_true, beq_iff_eq, List.mem_map]

theorem lookupVar_eq_none_iff (l : List (VarRec F)) (x : String) :
    lookupVar l x = none ↔ x ∉ l.map (·.name) := by
  simp only [lookupVar, List.find?_eq_none, beq_iff_eq, List.mem_map, not_exists, not_and]

theorem lookupVar_none_of_any {l : List (VarRec F)} {x : String} (h : l.any (·.name == x) = false) :
    lookupVar l x = none := by
  rw [lookupVar_eq_none_iff, ← any_name_iff, h]; simp

theorem lookupVar_some_of_any {l : List (VarRec F)} {x : String} (h : l.any (·.name == x) = true) :
    ∃ r, lookupVar l x = some r := by
  cases e : lookupVar l x with
  | some r => exact ⟨r, rfl⟩
  | none =>
    rw [lookupVar_eq_none_iff, ← any_name_iff, h] at e
    exact (e rfl).elim

/-! ### updates -/

theorem lookupVar_setVarOpt (l : List (VarRec F)) (x y : String) (v : Option (Val F)) :
    lookupVar (setVarOpt l x v) y =
      if y = x then (lookupVar l x).map (fun r => { r with val := v }) else lookupVar l y := by
  induction l with
  | nil => simp [setVarOpt, lookupVar]
  | cons r l ih =>
    rw [setVarOpt]
    by_cases hr : r.name = x
    · simp only [hr, beq_self_eq_true, if_true]
      rw [lookupVar_cons, lookupVar_cons, lookupVar_cons]
      by_cases hy : y = x
      · subst hy; simp [hr]
      · have : ¬ x = y := fun h => hy h.symm
        simp [hr, hy, this]
    · have hb : (r.name == x) = false := by simpa using hr
      simp only [hb, Bool.false_eq_true, if_false]
      rw [lookupVar_cons, lookupVar_cons, lookupVar_cons, ih]
      by_cases hy : y = x
      · subst hy; simp [hr]
      · simp only [hy, if_false]

theorem setVarOpt_names (l : List (VarRec F)) (x : String) (v : Option (Val F)) :
    (setVarOpt l x v).map (·.name) = l.map (·.name) := by
  induction l with
  | nil => rfl
  | cons r l ih =>
    rw [setVarOpt]
    split
    · rfl
    · simp only [List.map_cons, ih]

theorem setVarOpt_append (l₁ l₂ : List (VarRec F)) (x : String) (v : Option (Val F)) :
    setVarOpt (l₁ ++ l₂) x v =
      if l₁.any (·.name == x) then setVarOpt l₁ x v ++ l₂ else l₁ ++ setVarOpt l₂ x v := by
  induction l₁ with
  | nil => simp
  | cons r l ih =>
    rw [List.cons_append, setVarOpt, List.any_cons]
    by_cases hr : (r.name == x) = true
    · simp [hr, setVarOpt]
    · have hb : (r.name == x) = false := by simpa using hr
      simp only [hb, Bool.false_or, ih, Bool.false_eq_true, if_false]
      split
      · rw [setVarOpt]; simp only [hb, Bool.false_eq_true, if_false, List.cons_append]
      · rfl

theorem setVarS_flatten (scs : List (List (VarRec F))) (x : String) (v : Option (Val F)) :
    (setVarS scs x v).flatten = setVarOpt scs.flatten x v := by
  induction scs with
  | nil => rfl
  | cons sc rest ih =>
    rw [setVarS, List.flatten_cons, setVarOpt_append]
    split
    · rfl
    · rw [List.flatten_cons, ih]

theorem setVarS_names (scs : List (List (VarRec F))) (x : String) (v : Option (Val F)) :
    (setVarS scs x v).map (·.map (·.name)) = scs.map (·.map (·.name)) := by
  induction scs with
  | nil => rfl
  | cons sc rest ih =>
    rw [setVarS]
    split
    · simp only [List.map_cons, setVarOpt_names]
    · simp only [List.map_cons, ih]

/-! ### declarations on the flat machine, through lookups -/

/-- `declare` either refuses (the slot exists with another type) or succeeds, and then the new
environment answers every lookup as the old one except for `x`, which is now `⟨x, t, v⟩` -/
theorem declare_spec (σ : State F) (x : String) (t : Ty) (v : Option (Val F)) :
    (∃ r, lookupVar σ.vars x = some r ∧ r.ty ≠ t ∧ declare σ x t v = .error .redeclared) ∨
    (∃ σ', declare σ x t v = .ok σ' ∧ σ'.heap = σ.heap ∧ σ'.tensors = σ.tensors ∧
      ∀ y, lookupVar σ'.vars y = if y = x then some ⟨x, t, v⟩ else lookupVar σ.vars y) := by
  unfold declare
  cases h : lookupVar σ.vars x with
  | some r =>
    by_cases ht : r.ty = t
    · right
      refine ⟨{ σ with vars := setVarOpt σ.vars x v }, by simp only [ht, if_true], rfl, rfl, fun y => ?_⟩
      simp only [lookupVar_setVarOpt, h, Option.map_some]
      have hn := lookupVar_name h
      by_cases hy : y = x
      · simp only [hy, if_true]
        congr 1
        cases r
        simp only at hn ht
        subst hn ht
        rfl
      · simp only [hy, if_false]
    · left
      exact ⟨r, rfl, ht, by simp only [ht, if_false]⟩
  | none =>
    right
    refine ⟨{ σ with vars := σ.vars ++ [⟨x, t, v⟩] }, rfl, rfl, rfl, fun y => ?_⟩
    simp only [lookupVar_append]
    by_cases hy : y = x
    · subst hy
      simp only [h, if_true, lookupVar_cons, lookupVar_nil]
    · have : ¬ x = y := fun h => hy h.symm
      simp only [hy, if_false, lookupVar_cons, lookupVar_nil, this]
      cases lookupVar σ.vars y <;> rfl

end Scoped
end TV.IR
