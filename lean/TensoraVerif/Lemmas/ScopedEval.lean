import TensoraVerif.Lemmas.ScopedBasic
import TensoraVerif.Lemmas.FrameBasic

/-!
C06 (scoping): the evaluators of the flat machine only see the variable environment through the
lookups of the names an expression mentions. Two states with the same heap and tensors whose
environments answer those lookups identically evaluate identically (value or error).
-/
namespace TV.IR
variable {F : Type} [FloatOps F]

namespace Scoped

theorem evalE_agree {σ₁ σ₂ : State F} (hh : σ₁.heap = σ₂.heap) (ht : σ₁.tensors = σ₂.tensors)
    (e : Expr F) (hm : ∀ x, e.mentions x = true → lookupVar σ₁.vars x = lookupVar σ₂.vars x) :
    evalE σ₁ e = evalE σ₂ e := by
  obtain ⟨v₁, hp, ts⟩ := σ₁
  obtain ⟨v₂, hp', ts'⟩ := σ₂
  simp only at hh ht hm
  subst hh ht
  induction e with
  | var n => simp only [evalE, hm n (by simp [Expr.mentions])]
  | attr t a ih =>
    simp only [evalE, ih fun x hx => hm x (by simpa [Expr.mentions] using hx)]
  | idx t i iht ihi =>
    simp only [evalE, iht fun x hx => hm x (by simp [Expr.mentions, hx]),
      ihi fun x hx => hm x (by simp [Expr.mentions, hx]), readBlock]
  | intLit v => rfl
  | floatLit v => rfl
  | boolLit b => rfl
  | bin op l r ihl ihr =>
    have el := ihl fun x hx => hm x (by simp [Expr.mentions, hx])
    have er := ihr fun x hx => hm x (by simp [Expr.mentions, hx])
    cases op <;> simp only [evalE, el, er]
  | b2i e ih =>
    simp only [evalE, ih fun x hx => hm x (by simpa [Expr.mentions] using hx)]
  | alloc t n => rfl
  | realloc o t n => rfl

theorem evalLoc_agree {σ₁ σ₂ : State F} (hh : σ₁.heap = σ₂.heap) (ht : σ₁.tensors = σ₂.tensors)
    (e : Expr F) (hm : ∀ x, e.mentions x = true → lookupVar σ₁.vars x = lookupVar σ₂.vars x) :
    evalLoc σ₁ e = evalLoc σ₂ e := by
  cases e with
  | var n => rfl
  | attr t a =>
    simp only [evalLoc, evalE_agree hh ht t fun x hx => hm x (by simpa [Expr.mentions] using hx)]
  | idx t i =>
    simp only [evalLoc, evalE_agree hh ht t fun x hx => hm x (by simp [Expr.mentions, hx]),
      evalE_agree hh ht i fun x hx => hm x (by simp [Expr.mentions, hx])]
  | intLit v => rfl
  | floatLit v => rfl
  | boolLit b => rfl
  | bin op l r => rfl
  | b2i e => rfl
  | alloc t n => rfl
  | realloc o t n => rfl

/-- only a variable denotes a variable location -/
theorem evalLoc_var {σ : State F} {e : Expr F} {x : String} (h : evalLoc σ e = .ok (.var x)) :
    e = .var x := by
  cases e with
  | var n =>
    simp only [evalLoc] at h
    cases h; rfl
  | attr t a =>
    simp only [evalLoc] at h
    obtain ⟨tv, _, h⟩ := Frame.bind_ok h
    split at h
    · split at h <;> cases h
    · cases h
  | idx t i =>
    simp only [evalLoc] at h
    obtain ⟨tv, _, h⟩ := Frame.bind_ok h
    obtain ⟨iv, _, h⟩ := Frame.bind_ok h
    split at h
    · cases h
    · cases h
    · split at h <;> cases h
    · cases h
  | intLit v => simp [evalLoc] at h
  | floatLit v => simp [evalLoc] at h
  | boolLit b => simp [evalLoc] at h
  | bin op l r => simp [evalLoc] at h
  | b2i e => simp [evalLoc] at h
  | alloc t n => simp [evalLoc] at h
  | realloc o t n => simp [evalLoc] at h

/-- same heap and tensors afterwards, environments untouched -/
def HTRel (σ₁ σ₂ : State F) (a b : State F) : Prop :=
  a.heap = b.heap ∧ a.tensors = b.tensors ∧ a.vars = σ₁.vars ∧ b.vars = σ₂.vars

def RhsRel (σ₁ σ₂ : State F) (p q : State F × Val F) : Prop := HTRel σ₁ σ₂ p.1 q.1 ∧ p.2 = q.2

omit [FloatOps F] in
theorem doAlloc_agree {σ₁ σ₂ : State F} (hh : σ₁.heap = σ₂.heap) (ht : σ₁.tensors = σ₂.tensors)
    (t : Ty) (n : Val F) : XRel (RhsRel σ₁ σ₂) (doAlloc σ₁ t n) (doAlloc σ₂ t n) := by
  obtain ⟨v₁, hp, ts⟩ := σ₁
  obtain ⟨v₂, hp', ts'⟩ := σ₂
  simp only at hh ht
  subst hh ht
  simp only [doAlloc]
  refine XRel.bind_same _ fun et => ?_
  split
  · split
    · rfl
    · exact ⟨⟨rfl, rfl, rfl, rfl⟩, rfl⟩
  · rfl

omit [FloatOps F] in
theorem doRealloc_agree {σ₁ σ₂ : State F} (hh : σ₁.heap = σ₂.heap) (ht : σ₁.tensors = σ₂.tensors)
    (old : Val F) (t : Ty) (n : Val F) :
    XRel (RhsRel σ₁ σ₂) (doRealloc σ₁ old t n) (doRealloc σ₂ old t n) := by
  obtain ⟨v₁, hp, ts⟩ := σ₁
  obtain ⟨v₂, hp', ts'⟩ := σ₂
  simp only at hh ht
  subst hh ht
  simp only [doRealloc]
  refine XRel.bind_same _ fun et => ?_
  split
  · split
    · rfl
    split
    · rfl
    split
    · rfl
    split
    · rfl
    split
    · rfl
    split
    · rfl
    exact ⟨⟨rfl, rfl, rfl, rfl⟩, rfl⟩
  · split
    · rfl
    · exact ⟨⟨rfl, rfl, rfl, rfl⟩, rfl⟩
  · rfl

theorem evalRhs_agree {σ₁ σ₂ : State F} (hh : σ₁.heap = σ₂.heap) (ht : σ₁.tensors = σ₂.tensors)
    (e : Expr F) (hm : ∀ x, e.mentions x = true → lookupVar σ₁.vars x = lookupVar σ₂.vars x) :
    XRel (RhsRel σ₁ σ₂) (evalRhs σ₁ e) (evalRhs σ₂ e) := by
  cases e
  case alloc t n =>
    rw [evalRhs.eq_1, evalRhs.eq_1,
      evalE_agree hh ht n fun x hx => hm x (by simpa [Expr.mentions] using hx)]
    exact XRel.bind_same _ fun nv => doAlloc_agree hh ht _ _
  case realloc o t n =>
    rw [evalRhs.eq_2, evalRhs.eq_2,
      evalE_agree hh ht o fun x hx => hm x (by simp [Expr.mentions, hx]),
      evalE_agree hh ht n fun x hx => hm x (by simp [Expr.mentions, hx])]
    exact XRel.bind_same _ fun ov => XRel.bind_same _ fun nv => doRealloc_agree hh ht _ _ _
  all_goals
    rw [evalRhs.eq_3 _ _ (by intros; contradiction) (by intros; contradiction),
      evalRhs.eq_3 _ _ (by intros; contradiction) (by intros; contradiction), evalE_agree hh ht _ hm]
    exact XRel.bind_same _ fun v => ⟨⟨hh, ht, rfl, rfl⟩, rfl⟩

/-- a store to a heap or tensor location -/
theorem store_agree {σ₁ σ₂ : State F} (hh : σ₁.heap = σ₂.heap) (ht : σ₁.tensors = σ₂.tensors)
    (loc : Loc) (v : Val F) (hl : ∀ x, loc ≠ .var x) :
    XRel (HTRel σ₁ σ₂) (store σ₁ loc v) (store σ₂ loc v) := by
  obtain ⟨v₁, hp, ts⟩ := σ₁
  obtain ⟨v₂, hp', ts'⟩ := σ₂
  simp only at hh ht
  subst hh ht
  cases loc with
  | var y => exact (hl y rfl).elim
  | cell b off =>
    simp only [store]
    split
    · rfl
    split
    · rfl
    split
    · rfl
    split
    · rfl
    exact XRel.bind_same _ fun v' => ⟨rfl, rfl, rfl, rfl⟩
  | slot t l k =>
    simp only [store]
    split
    · rfl
    split
    · rfl
    split
    · rfl
    split
    · exact ⟨rfl, rfl, rfl, rfl⟩
    · rfl
  | vals t =>
    simp only [store]
    split
    · rfl
    split
    · rfl
    split
    · rfl
    exact ⟨rfl, rfl, rfl, rfl⟩

end Scoped
end TV.IR
