import TensoraVerif.Lemmas.ScopedSim

/-!
C06 (scoping): under the two certificates the flat machine never answers `.redeclared`.

`.redeclared` can only come out of `declare` (every other monitor of the machine reports another
error), and along a certified run the simulation relation keeps the slot of every declared name at
the type of the hoisted declaration table, so `declare` always accepts.
-/
set_option linter.unusedSectionVars false

namespace TV.IR
variable {F : Type} [FloatOps F]

namespace Scoped

/-- "does not fail with `.redeclared`" -/
def NR {α : Type} (x : Except Err α) : Prop := x ≠ .error .redeclared

theorem NR.ok {α : Type} (a : α) : NR (.ok a : Except Err α) := by
  intro h; cases h

theorem NR.err {α : Type} {e : Err} (h : e ≠ .redeclared) : NR (.error e : Except Err α) := by
  intro h'; cases h'; exact h rfl

theorem NR.bind' {α β : Type} {a : Except Err α} {f : α → Except Err β} (ha : NR a)
    (hf : ∀ u, a = .ok u → NR (f u)) : NR (a >>= f) := by
  cases a with
  | error e =>
    rw [Frame.error_bind]
    exact NR.err fun h => ha (by rw [h])
  | ok u => exact hf u rfl

theorem NR.bind {α β : Type} {a : Except Err α} {f : α → Except Err β} (ha : NR a)
    (hf : ∀ u, NR (f u)) : NR (a >>= f) := NR.bind' ha fun u _ => hf u

/-- one step of the syntactic argument "every error literal in sight is not `.redeclared`" -/
macro "nr_step" : tactic =>
  `(tactic| first
    | exact NR.ok _
    | exact NR.err (by decide)
    | assumption
    | (refine NR.bind ?_ (fun _ => ?_))
    | split)

omit [FloatOps F] in
theorem chkInt_nr (z : Int) : NR (chkInt z : Except Err (Val F)) := by
  unfold chkInt; repeat' nr_step

theorem chkFlt_nr (f : F) : NR (chkFlt f) := by
  unfold chkFlt; repeat' nr_step

theorem chkVal_nr (v : Val F) : NR (chkVal v) := by
  have h1 := @chkInt_nr F
  have h2 := @chkFlt_nr F _
  unfold chkVal
  split
  · exact h1 _
  · exact h2 _
  · exact NR.ok _

theorem readBlock_nr (σ : State F) (b : Nat) (off : Int) : NR (readBlock σ b off) := by
  have h := @chkVal_nr F _
  unfold readBlock
  repeat' (first | exact h _ | nr_step)

theorem numOp_nr (op : BinOp) (a b : Num F) : NR (numOp op a b) := by
  have h1 := @chkInt_nr F
  have h2 := @chkFlt_nr F _
  unfold numOp
  repeat' (first | exact h1 _ | exact h2 _ | nr_step)

theorem binVal_nr (op : BinOp) (a b : Val F) : NR (binVal op a b) := by
  have h := @numOp_nr F _
  unfold binVal
  repeat' (first | exact h _ _ _ | nr_step)

theorem evalE_nr (σ : State F) (e : Expr F) : NR (evalE σ e) := by
  have h1 := @chkInt_nr F
  have h2 := @chkFlt_nr F _
  have h3 := @chkVal_nr F _
  have h4 := readBlock_nr σ
  have h5 := @binVal_nr F _
  induction e with
  | var n =>
    simp only [evalE]
    repeat' (first | exact h3 _ | nr_step)
  | attr t a ih =>
    simp only [evalE]
    repeat' nr_step
  | idx t i iht ihi =>
    simp only [evalE]
    repeat' (first | exact h4 _ _ | nr_step)
  | intLit v => exact h1 _
  | floatLit v => exact h2 _
  | boolLit b => exact NR.ok _
  | bin op l r ihl ihr =>
    cases op <;> simp only [evalE] <;> repeat' (first | exact h5 _ _ _ | nr_step)
  | b2i e ih =>
    simp only [evalE]
    repeat' nr_step
  | alloc t n => exact NR.err (by decide)
  | realloc o t n => exact NR.err (by decide)

theorem evalLoc_nr (σ : State F) (e : Expr F) : NR (evalLoc σ e) := by
  have h := evalE_nr σ
  cases e <;> simp only [evalLoc] <;> repeat' (first | exact h _ | nr_step)

omit [FloatOps F] in
theorem convTo_nr [FloatOps F] (t : Ty) (v : Val F) : NR (convTo t v) := by
  unfold convTo; repeat' nr_step

omit [FloatOps F] in
theorem convElem_nr [FloatOps F] (t : ElemTy) (v : Val F) : NR (convElem t v) := by
  unfold convElem; repeat' nr_step

theorem store_nr (σ : State F) (loc : Loc) (v : Val F) : NR (store σ loc v) := by
  have h1 := @convTo_nr F _
  have h2 := @convElem_nr F _
  cases loc <;> simp only [store] <;> repeat' (first | exact h1 _ _ | exact h2 _ _ | nr_step)

theorem elemOf_nr (t : Ty) : NR (elemOf t) := by
  unfold elemOf; repeat' nr_step

theorem doAlloc_nr (σ : State F) (t : Ty) (n : Val F) : NR (doAlloc σ t n) := by
  have h := elemOf_nr
  unfold doAlloc
  repeat' (first | exact h _ | nr_step)

theorem doRealloc_nr (σ : State F) (old : Val F) (t : Ty) (n : Val F) : NR (doRealloc σ old t n) := by
  have h := elemOf_nr
  unfold doRealloc
  repeat' (first | exact h _ | nr_step)

theorem evalRhs_nr (σ : State F) (e : Expr F) : NR (evalRhs σ e) := by
  have h := evalE_nr σ
  have h1 := doAlloc_nr σ
  have h2 := doRealloc_nr σ
  cases e
  case alloc t n =>
    rw [evalRhs.eq_1]
    repeat' (first | exact h _ | exact h1 _ _ | nr_step)
  case realloc o t n =>
    rw [evalRhs.eq_2]
    repeat' (first | exact h _ | exact h2 _ _ _ | nr_step)
  all_goals
    rw [evalRhs.eq_3 _ _ (by intros; contradiction) (by intros; contradiction)]
    repeat' (first | exact h _ | nr_step)

/-- right-hand sides leave the variable environment alone -/
theorem evalRhs_vars {σ σ₁ : State F} {e : Expr F} {v : Val F} (h : evalRhs σ e = .ok (σ₁, v)) :
    σ₁.vars = σ.vars := by
  have := evalRhs_agree (σ₁ := σ) (σ₂ := σ) rfl rfl e fun _ _ => rfl
  rw [h] at this
  exact this.1.2.2.1

omit [FloatOps F] in
/-- `declare` accepts when the slot, if any, has the declared type -/
theorem declare_nr (σ : State F) (x : String) (t : Ty) (v : Option (Val F))
    (ht : ∀ r, lookupVar σ.vars x = some r → r.ty = t) : NR (declare σ x t v) := by
  rcases declare_spec σ x t v with ⟨r, hr, hne, _⟩ | ⟨σ', hσ', _⟩
  · exact (hne (ht r hr)).elim
  · rw [hσ']; exact NR.ok _

def NoRedeclS (D : List (String × Ty)) (fuel : Nat) (s : Stmt F) (σ : State F) : Prop :=
  ∀ (A B : AState) (σc : CState F), (∀ p ∈ s.decls, p ∈ D) → absS s A = some B → Rel D A σc σ →
    NR (exec fuel s σ)

def NoRedeclL (D : List (String × Ty)) (fuel : Nat) (ss : List (Stmt F)) (σ : State F) : Prop :=
  ∀ (A B : AState) (σc : CState F), (∀ p ∈ declsL ss, p ∈ D) → absL ss A = some B → Rel D A σc σ →
    NR (execL fuel ss σ)

variable {D : List (String × Ty)}

/-- from the simulation: if the flat run of a certified statement succeeds without returning, the
scoped run succeeded too and the final states are related -/
theorem sim_ok (hD : DCons D) {fuel : Nat} {s : Stmt F} {σ : State F} {A B : AState} {σc : CState F}
    (hd : ∀ p ∈ s.decls, p ∈ D) (ha : absS s A = some B) (hr : Rel D A σc σ) {o : Out F}
    (ho : exec fuel s σ = .ok o) (hn : o.ret = none) : ∃ oc : COut F, Rel D B oc.st o.st := by
  have h := sim hD fuel s σ A B σc hd ha hr
  rw [ho] at h
  cases hc : execC fuel s σc with
  | error e => rw [hc] at h; exact h.elim
  | ok oc => rw [hc] at h; exact ⟨oc, h.2.2.2.2.2 hn⟩

theorem noRedecl (hD : DCons D) (fuel : Nat) (s : Stmt F) (σ : State F) : NoRedeclS D fuel s σ := by
  induction fuel, s, σ using exec.induct (F := F)
    (motive2 := fun fuel ss σ => NoRedeclL D fuel ss σ) with
  | case1 fuel e σ =>
    intro A B σc _ _ _
    rw [exec.eq_1]
    exact NR.bind (evalE_nr σ e) fun _ => NR.ok _
  | case2 fuel x t σ =>
    intro A B σc hd _ hr
    rw [exec.eq_2]
    exact NR.bind (declare_nr σ x t none fun r h => hr.typed x r t h (hd _ (by simp [Stmt.decls])))
      fun _ => NR.ok _
  | case3 fuel t v σ =>
    intro A B σc _ _ _
    rw [exec.eq_3]
    refine NR.bind (evalRhs_nr σ v) ?_
    rintro ⟨σ1, val⟩
    exact NR.bind (evalLoc_nr σ1 t) fun loc => NR.bind (store_nr σ1 loc val) fun _ => NR.ok _
  | case4 fuel x t v σ =>
    intro A B σc hd _ hr
    rw [exec.eq_4]
    refine NR.bind' (evalRhs_nr σ v) ?_
    rintro ⟨σ1, val⟩ h1
    refine NR.bind (convTo_nr t val) fun val' => ?_
    refine NR.bind (declare_nr σ1 x t _ fun r h => ?_) fun _ => NR.ok _
    rw [evalRhs_vars h1] at h
    exact hr.typed x r t h (hd _ (by simp [Stmt.decls]))
  | case5 fuel ss c σ ih =>
    intro A B σc hd ha hr
    rw [absS.eq_5] at ha
    rw [exec.eq_5]
    exact ih A B σc (by simpa [Stmt.decls] using hd) ha hr
  | case6 fuel c t f σ iht ihf =>
    intro A B σc hd ha hr
    obtain ⟨_, Bt, Bf, ht, hf, _⟩ := absS_branch ha
    rw [exec.eq_6]
    refine NR.bind (evalE_nr σ c) fun cv => ?_
    split
    · exact NR.bind (iht ([] :: A) Bt σc.push (fun p hp => hd p (by simp [Stmt.decls, hp])) ht hr.push)
        fun _ => NR.ok _
    · exact NR.bind (ihf ([] :: A) Bf σc.push (fun p hp => hd p (by simp [Stmt.decls, hp])) hf hr.push)
        fun _ => NR.ok _
    · exact NR.err (by decide)
  | case7 c b σ =>
    intro A B σc _ _ _
    rw [exec.eq_7]
    exact NR.err (by decide)
  | case8 c b σ fuel' ihb ihl =>
    intro A B σc hd ha hr
    obtain ⟨_, hfix⟩ := absS_loop_fix ha
    obtain ⟨_, B', _, hb, hBt, _, _⟩ := absS_loop ha
    have hdb : ∀ p ∈ b.decls, p ∈ D := fun p hp => hd p (by simpa [Stmt.decls] using hp)
    rw [exec.eq_8]
    refine NR.bind (evalE_nr σ c) fun cv => ?_
    split
    · exact NR.ok _
    · refine NR.bind' (ihb ([] :: A) B' σc.push hdb hb hr.push) fun o1 ho1 => ?_
      split
      · exact NR.ok _
      · rename_i hn
        obtain ⟨oc, r⟩ := sim_ok hD hdb hb hr.push ho1 hn
        have rp : Rel D B oc.st.pop o1.st := by
          have := r.pop
          rw [← hBt] at this
          exact this
        exact NR.bind (ihl o1 B B oc.st.pop hd hfix rp) fun _ => NR.ok _
    · exact NR.err (by decide)
  | case9 fuel e σ =>
    intro A B σc _ _ _
    rw [exec.eq_9]
    exact NR.bind (evalE_nr σ e) fun _ => NR.ok _
  | case10 fuel σ =>
    intro A B σc _ _ _
    rw [execL.eq_1]
    exact NR.ok _
  | case11 fuel s ss σ ihs ihss =>
    intro A B σc hd ha hr
    obtain ⟨B₁, h1, h2⟩ := absL_cons ha
    have hds : ∀ p ∈ s.decls, p ∈ D := fun p hp => hd p (by simp [declsL, hp])
    have hdss : ∀ p ∈ declsL ss, p ∈ D := fun p hp => hd p (by simp [declsL, hp])
    rw [execL.eq_2]
    refine NR.bind' (ihs A B₁ σc hds h1 hr) fun o1 ho1 => ?_
    split
    · exact NR.ok _
    · rename_i hn
      obtain ⟨oc, r⟩ := sim_ok hD hds h1 hr ho1 hn
      exact NR.bind (ihss o1 B₁ B oc.st hdss h2 r) fun _ => NR.ok _

end Scoped
end TV.IR
