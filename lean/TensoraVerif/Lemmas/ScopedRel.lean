import TensoraVerif.Lemmas.ScopedAbs
import TensoraVerif.Lemmas.ScopedEval

/-!
C06 (scoping): the simulation relation between a block-scoped state, a flat state and an abstract
certificate state, and its preservation by the atomic operations (`{`, `}`, invalidation,
allocation, store, declaration).
-/
set_option linter.unusedSectionVars false

namespace TV.IR
variable {F : Type} [FloatOps F]

namespace Scoped

theorem XRel.map_left {α α' β : Type} {R : α → β → Prop} {S : α' → β → Prop} {a : Except Err α}
    {b : Except Err β} {f : α → α'} (h : XRel R a b) (hf : ∀ u v, R u v → S (f u) v) :
    XRel S (a >>= fun u => .ok (f u)) b := by
  cases a <;> cases b
  · exact h
  · exact h.elim
  · exact h.elim
  · exact hf _ _ h

/-- the hoisted declaration table gives every name one type -/
def DCons (D : List (String × Ty)) : Prop := ∀ x t t', (x, t) ∈ D → (x, t') ∈ D → t = t'

/-- The simulation relation.
* same heap, same tensors;
* the abstract stack has the shape of the concrete one (same names, scope by scope);
* the abstract stack satisfies the shadowing invariant;
* every name that resolves to a `valid` abstract binding resolves, in C, to the very record the flat
  machine holds for it (same type, same value);
* the flat machine's slot of a name in the declaration table has the table's type (so `declare`
  never answers `.redeclared`).
No uniqueness of records is required of the flat environment: only lookups matter. -/
structure Rel (D : List (String × Ty)) (A : AState) (σc : CState F) (σ : State F) : Prop where
  heap : σc.heap = σ.heap
  tensors : σc.tensors = σ.tensors
  shape : names A = σc.scopes.map (·.map (·.name))
  wf : WF A
  agree : ∀ x, lookA A x = some true → lookupVar σc.scopes.flatten x = lookupVar σ.vars x
  typed : ∀ x r t, lookupVar σ.vars x = some r → (x, t) ∈ D → r.ty = t

omit [FloatOps F] in
theorem any_of_names_eq {sc : AScope} {csc : List (VarRec F)} (h : sc.map (·.1) = csc.map (·.name))
    (x : String) : sc.any (·.1 == x) = csc.any (·.name == x) := by
  have e1 : sc.any (·.1 == x) = (sc.map (·.1)).any (· == x) := by rw [List.any_map]; rfl
  have e2 : csc.any (·.name == x) = (csc.map (·.name)).any (· == x) := by rw [List.any_map]; rfl
  rw [e1, e2, h]

theorem usesE_mentions {A : AState} {e : Expr F} (hu : usesE A e = true) {x : String}
    (hx : e.mentions x = true) : lookA A x = some true := by
  induction e with
  | var n =>
    simp only [Expr.mentions, beq_iff_eq] at hx
    subst hx
    simpa [usesE] using hu
  | attr t a ih => exact ih hu hx
  | idx t i iht ihi =>
    simp only [usesE, Bool.and_eq_true] at hu
    simp only [Expr.mentions, Bool.or_eq_true] at hx
    rcases hx with hx | hx
    · exact iht hu.1 hx
    · exact ihi hu.2 hx
  | intLit v => cases hx
  | floatLit v => cases hx
  | boolLit b => cases hx
  | bin op l r ihl ihr =>
    simp only [usesE, Bool.and_eq_true] at hu
    simp only [Expr.mentions, Bool.or_eq_true] at hx
    rcases hx with hx | hx
    · exact ihl hu.1 hx
    · exact ihr hu.2 hx
  | b2i e ih => exact ih hu hx
  | alloc t n ih => exact ih hu hx
  | realloc o t n iho ihn =>
    simp only [usesE, Bool.and_eq_true] at hu
    simp only [Expr.mentions, Bool.or_eq_true] at hx
    rcases hx with hx | hx
    · exact iho hu.1 hx
    · exact ihn hu.2 hx

variable {D : List (String × Ty)} {A : AState} {σc : CState F} {σ : State F}

theorem Rel.evalE (h : Rel D A σc σ) {e : Expr F} (hu : usesE A e = true) :
    evalE σc.flat e = evalE σ e :=
  evalE_agree h.heap h.tensors e fun x hx => h.agree x (usesE_mentions hu hx)

theorem Rel.evalLoc (h : Rel D A σc σ) {e : Expr F} (hu : usesE A e = true) :
    evalLoc σc.flat e = evalLoc σ e :=
  evalLoc_agree h.heap h.tensors e fun x hx => h.agree x (usesE_mentions hu hx)

/-- heap and tensors replaced by related ones -/
theorem Rel.withHT (h : Rel D A σc σ) {τc τ : State F} (r : HTRel σc.flat σ τc τ) :
    Rel D A (σc.withHT τc) τ where
  heap := r.1
  tensors := r.2.1
  shape := h.shape
  wf := h.wf
  agree x hx := by rw [r.2.2.2]; exact h.agree x hx
  typed x rr t hl hd := by rw [r.2.2.2] at hl; exact h.typed x rr t hl hd

theorem Rel.evalRhs (h : Rel D A σc σ) {e : Expr F} (hu : usesE A e = true) :
    XRel (fun p q => Rel D A (σc.withHT p.1) q.1 ∧ p.2 = q.2) (evalRhs σc.flat e) (evalRhs σ e) :=
  (evalRhs_agree h.heap h.tensors e fun x hx => h.agree x (usesE_mentions hu hx)).mono
    fun _ _ r => ⟨h.withHT r.1, r.2⟩

/-- `{` -/
theorem Rel.push (h : Rel D A σc σ) : Rel D ([] :: A) σc.push σ where
  heap := h.heap
  tensors := h.tensors
  shape := by
    have := h.shape
    simp only [names] at this
    simp only [names, CState.push, List.map_cons, List.map_nil, this]
  wf := h.wf.push
  agree x hx := h.agree x hx
  typed := h.typed

/-- `}`: by the shadowing invariant, a name that is still valid outside was not bound inside -/
theorem Rel.pop (h : Rel D A σc σ) : Rel D A.tail σc.pop σ := by
  cases A with
  | nil =>
    have hs : σc.scopes = [] := by
      have := h.shape
      simpa [names] using this.symm
    refine ⟨h.heap, h.tensors, ?_, h.wf, ?_, h.typed⟩
    · simp [names, CState.pop, hs]
    · intro x hx; cases hx
  | cons sc rest =>
    obtain ⟨scs, hp, ts⟩ := σc
    have hshape := h.shape
    cases scs with
    | nil => simp [names] at hshape
    | cons csc crest =>
      simp only [names, List.map_cons, List.cons.injEq] at hshape
      refine ⟨h.heap, h.tensors, hshape.2, h.wf.2, ?_, h.typed⟩
      intro x hx
      have hn : sc.any (·.1 == x) = false := by
        cases e : sc.any (·.1 == x) with
        | false => rfl
        | true => exact (h.wf.outer_invalid e hx).elim
      have hfull : lookA (sc :: rest) x = some true := by
        rw [lookA_cons, find_none_of_any hn]; exact hx
      have := h.agree x hfull
      simp only at this
      rw [lookupVar_flatten_cons, lookupVar_none_of_any (by rw [← any_of_names_eq hshape.1]; exact hn)] at this
      exact this

/-- forgetting validity is always sound -/
theorem Rel.inv (h : Rel D A σc σ) (N : List String) : Rel D (invAll N A) σc σ where
  heap := h.heap
  tensors := h.tensors
  shape := by rw [names_invAll]; exact h.shape
  wf := h.wf.inv N
  agree x hx := h.agree x (lookA_invAll hx)
  typed := h.typed

/-- stores -/
theorem Rel.store (h : Rel D A σc σ) (loc : Loc) (v : Val F)
    (hl : ∀ x, loc = .var x → lookA A x = some true) :
    XRel (Rel D A) (storeC σc loc v) (TV.IR.store σ loc v) := by
  cases loc with
  | var x =>
    have hx := h.agree x (hl x rfl)
    simp only [storeC, TV.IR.store, CState.flat, hx]
    cases hr : lookupVar σ.vars x with
    | none => rfl
    | some r =>
      simp only
      refine XRel.bind_same _ fun v' => ?_
      refine ⟨h.heap, h.tensors, ?_, h.wf, ?_, ?_⟩
      · simp only [setVarS_names]; exact h.shape
      · intro y hy
        simp only [setVarS_flatten, setVar, lookupVar_setVarOpt, hx]
        split
        · rfl
        · exact h.agree y hy
      · intro y r' t hl' hd
        simp only [setVar, lookupVar_setVarOpt] at hl'
        split at hl'
        · rename_i hyx
          subst hyx
          rw [hr] at hl'
          simp only [Option.map_some, Option.some.injEq] at hl'
          subst hl'
          exact h.typed y r t hr hd
        · exact h.typed y r' t hl' hd
  | cell b off =>
    simp only [storeC]
    exact XRel.map_left (store_agree h.heap h.tensors _ v (fun x e => by cases e)) fun _ _ r => h.withHT r
  | slot t l k =>
    simp only [storeC]
    exact XRel.map_left (store_agree h.heap h.tensors _ v (fun x e => by cases e)) fun _ _ r => h.withHT r
  | vals t =>
    simp only [storeC]
    exact XRel.map_left (store_agree h.heap h.tensors _ v (fun x e => by cases e)) fun _ _ r => h.withHT r

/-- declarations: C accepts because the abstract innermost scope, which has the same names, does
not contain `x`; the flat machine accepts because the slot, if any, has the table's type -/
theorem Rel.declare (h : Rel D A σc σ) (hD : DCons D) {x : String} {t : Ty} (hx : (x, t) ∈ D)
    (v : Option (Val F)) {B : AState} (hB : declA A x = some B) :
    XRel (Rel D B) (declareC σc x t v) (TV.IR.declare σ x t v) := by
  cases A with
  | nil => simp [declA] at hB
  | cons sc rest =>
    obtain ⟨hn, rfl⟩ := declA_cons hB
    obtain ⟨scs, hp, ts⟩ := σc
    have hshape := h.shape
    cases scs with
    | nil => simp [names] at hshape
    | cons csc crest =>
      simp only [names, List.map_cons, List.cons.injEq] at hshape
      have hnc : csc.any (·.name == x) = false := by rw [← any_of_names_eq hshape.1]; exact hn
      simp only [declareC, hnc, Bool.false_eq_true, if_false]
      rcases declare_spec σ x t v with ⟨r, hr, hne, _⟩ | ⟨σ', hσ', hh, ht, hlook⟩
      · exact (hne (h.typed x r t hr hx)).elim
      · rw [hσ']
        refine ⟨by rw [hh]; exact h.heap, by rw [ht]; exact h.tensors, ?_, h.wf.decl x, ?_, ?_⟩
        · simp only [names, List.map_cons, List.cons.injEq, true_and]
          exact ⟨hshape.1, by have := names_invAll [x] rest; simp only [names] at this; rw [this]; exact hshape.2⟩
        · intro y hy
          rw [hlook y]
          simp only [List.flatten_cons, List.cons_append]
          rw [lookupVar_cons]
          by_cases hyx : y = x
          · subst hyx; simp
          · have hxy : ¬ x = y := fun e => hyx e.symm
            simp only [hxy, hyx, if_false]
            have hc : [x].contains y = false := by simpa using hyx
            rw [lookA_cons, List.find?_cons] at hy
            have hb : ((x, true).1 == y) = false := by simpa using hxy
            simp only [hb] at hy
            have hy' : lookA (sc :: rest) y = some true := by
              rw [lookA_cons]
              cases hf : sc.find? (·.1 == y) with
              | some p => rw [hf] at hy; exact hy
              | none => rw [hf] at hy; simp only at hy ⊢; rw [← lookA_invAll_ne rest hc]; exact hy
            have := h.agree y hy'
            simp only [List.flatten_cons] at this
            exact this
        · intro y r' t' hl' hd
          rw [hlook y] at hl'
          split at hl'
          · rename_i hyx
            subst hyx
            simp only [Option.some.injEq] at hl'
            subst hl'
            exact hD _ _ _ hx hd
          · exact h.typed y r' t' hl' hd

end Scoped
end TV.IR
