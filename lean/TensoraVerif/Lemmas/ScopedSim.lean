import TensoraVerif.Lemmas.ScopedRel

/-!
C06 (scoping): the simulation. A block-scoped run and a flat run started in related states, of a
statement the certificate accepts, proceed in lock step: same error, or same return value, same
`iters`/`steps`, same heap and tensors, and — unless the statement returned — related final states.
Induction: the functional induction principle of `exec` (fuel, then statement size).
-/
set_option linter.unusedSectionVars false

namespace TV.IR
variable {F : Type} [FloatOps F]

namespace Scoped
open Frame

/-- what two lock-step runs agree on; the final states are related by the certificate's final
abstract state unless the statement returned (then the scopes no longer matter) -/
def OutRel (D : List (String × Ty)) (B : AState) (oc : COut F) (o : Out F) : Prop :=
  oc.ret = o.ret ∧ oc.iters = o.iters ∧ oc.steps = o.steps ∧ oc.st.heap = o.st.heap ∧
    oc.st.tensors = o.st.tensors ∧ (o.ret = none → Rel D B oc.st o.st)

def SimS (D : List (String × Ty)) (fuel : Nat) (s : Stmt F) (σ : State F) : Prop :=
  ∀ (A B : AState) (σc : CState F), (∀ p ∈ s.decls, p ∈ D) → absS s A = some B → Rel D A σc σ →
    XRel (OutRel D B) (execC fuel s σc) (exec fuel s σ)

def SimL (D : List (String × Ty)) (fuel : Nat) (ss : List (Stmt F)) (σ : State F) : Prop :=
  ∀ (A B : AState) (σc : CState F), (∀ p ∈ declsL ss, p ∈ D) → absL ss A = some B → Rel D A σc σ →
    XRel (OutRel D B) (execCL fuel ss σc) (execL fuel ss σ)

variable {D : List (String × Ty)}

theorem sim_expr (fuel : Nat) (e : Expr F) (σ : State F) : SimS D fuel (.expr e) σ := by
  intro A B σc _ ha hr
  obtain ⟨hu, rfl⟩ := absS_expr ha
  rw [execC.eq_1, exec.eq_1, hr.evalE hu]
  exact XRel.bind_same _ fun _ => ⟨rfl, rfl, rfl, hr.heap, hr.tensors, fun _ => hr⟩

theorem sim_ret (fuel : Nat) (e : Expr F) (σ : State F) : SimS D fuel (.ret e) σ := by
  intro A B σc _ ha hr
  obtain ⟨hu, rfl⟩ := absS_ret ha
  rw [execC.eq_9, exec.eq_9, hr.evalE hu]
  exact XRel.bind_same _ fun _ => ⟨rfl, rfl, rfl, hr.heap, hr.tensors, fun _ => hr⟩

theorem sim_decl (hD : DCons D) (fuel : Nat) (x : String) (t : Ty) (σ : State F) :
    SimS D fuel (.decl x t) σ := by
  intro A B σc hd ha hr
  rw [absS.eq_2] at ha
  rw [execC.eq_2, exec.eq_2]
  exact XRel.bind (hr.declare hD (hd _ (by simp [Stmt.decls])) none ha)
    fun _ _ r => ⟨rfl, rfl, rfl, r.heap, r.tensors, fun _ => r⟩

theorem sim_assign (fuel : Nat) (t v : Expr F) (σ : State F) : SimS D fuel (.assign t v) σ := by
  intro A B σc _ ha hr
  obtain ⟨hut, huv, rfl⟩ := absS_assign ha
  rw [execC.eq_3, exec.eq_3]
  refine XRel.bind (hr.evalRhs huv) ?_
  rintro ⟨τc, va⟩ ⟨τ, vb⟩ ⟨r1, r2⟩
  simp only at r1 r2 ⊢
  subst r2
  rw [r1.evalLoc hut]
  cases hl : evalLoc τ t with
  | error e => rfl
  | ok loc =>
    rw [ok_bind, ok_bind]
    refine XRel.bind (r1.store loc va ?_) fun _ _ r => ⟨rfl, rfl, rfl, r.heap, r.tensors, fun _ => r⟩
    intro x hx
    subst hx
    have := evalLoc_var hl
    subst this
    simpa [usesE] using hut

theorem sim_declAssign (hD : DCons D) (fuel : Nat) (x : String) (t : Ty) (v : Expr F) (σ : State F) :
    SimS D fuel (.declAssign x t v) σ := by
  intro A B σc hd ha hr
  obtain ⟨hm, hu, hdecl⟩ := absS_declAssign ha
  rw [execC.eq_4, exec.eq_4]
  simp only [hm, Bool.false_eq_true, if_false]
  refine XRel.bind (hr.evalRhs hu) ?_
  rintro ⟨τc, va⟩ ⟨τ, vb⟩ ⟨r1, r2⟩
  simp only at r1 r2 ⊢
  subst r2
  refine XRel.bind_same _ fun val' => ?_
  exact XRel.bind (r1.declare hD (hd _ (by simp [Stmt.decls])) (some val') hdecl)
    fun _ _ r => ⟨rfl, rfl, rfl, r.heap, r.tensors, fun _ => r⟩

theorem sim_branch {fuel : Nat} {c : Expr F} {t f : Stmt F} {σ : State F}
    (iht : SimS D fuel t σ) (ihf : SimS D fuel f σ) : SimS D fuel (.branch c t f) σ := by
  intro A B σc hd ha hr
  have hBeq := absS_branch_eq ha
  obtain ⟨hu, Bt, Bf, ht, hf, _⟩ := absS_branch ha
  have hdt : ∀ p ∈ t.decls, p ∈ D := fun p hp => hd p (by simp [Stmt.decls, hp])
  have hdf : ∀ p ∈ f.decls, p ∈ D := fun p hp => hd p (by simp [Stmt.decls, hp])
  rw [execC.eq_6, exec.eq_6, hr.evalE hu]
  refine XRel.bind_same _ fun cv => ?_
  split
  · refine XRel.bind (iht ([] :: A) Bt σc.push hdt ht hr.push) ?_
    rintro oc o ⟨r1, r2, r3, r4, r5, r6⟩
    refine ⟨r1, r2, by simp only [r3], r4, r5, fun hn => ?_⟩
    have := (r6 hn).pop
    rw [absS_pop ht] at this
    rw [hBeq]
    exact this.inv _
  · refine XRel.bind (ihf ([] :: A) Bf σc.push hdf hf hr.push) ?_
    rintro oc o ⟨r1, r2, r3, r4, r5, r6⟩
    refine ⟨r1, r2, by simp only [r3], r4, r5, fun hn => ?_⟩
    have := (r6 hn).pop
    rw [absS_pop hf] at this
    rw [hBeq, invAll_comm]
    exact this.inv _
  · split <;> first | rfl | (exfalso; simp_all)

theorem sim_loop_succ {fuel' : Nat} {c : Expr F} {b : Stmt F} {σ : State F}
    (ihb : SimS D fuel' b σ) (ihl : ∀ o1 : Out F, SimS D fuel' (.loop c b) o1.st) :
    SimS D fuel'.succ (.loop c b) σ := by
  intro A B σc hd ha hr
  obtain ⟨hBeq, hfix⟩ := absS_loop_fix ha
  obtain ⟨hu, B', B'', hb, hBt, _, _⟩ := absS_loop ha
  have hdb : ∀ p ∈ b.decls, p ∈ D := fun p hp => hd p (by simpa [Stmt.decls] using hp)
  rw [execC.eq_8, exec.eq_8, hr.evalE hu]
  refine XRel.bind_same _ fun cv => ?_
  split
  · exact ⟨rfl, rfl, rfl, hr.heap, hr.tensors, fun _ => by rw [hBeq]; exact hr.inv _⟩
  · refine XRel.bind (ihb ([] :: A) B' σc.push hdb hb hr.push) ?_
    rintro ⟨st1, ret1, it1, sp1⟩ ⟨st2, ret2, it2, sp2⟩ ⟨r1, r2, r3, r4, r5, r6⟩
    simp only at r1 r2 r3 r4 r5 r6 ⊢
    subst r1 r2 r3
    cases ret1 with
    | some rv => exact ⟨rfl, rfl, rfl, r4, r5, fun h => by cases h⟩
    | none =>
      simp only
      have rp : Rel D B st1.pop st2 := by
        have := (r6 rfl).pop
        rw [← hBt] at this
        exact this
      refine XRel.bind (ihl ⟨st2, none, it1, sp1⟩ B B st1.pop hd hfix rp) ?_
      rintro o1 o2 ⟨q1, q2, q3, q4, q5, q6⟩
      exact ⟨q1, by simp only [q2], by simp only [q3], q4, q5, q6⟩
  · split <;> first | rfl | (exfalso; simp_all)

theorem sim_cons {fuel : Nat} {s : Stmt F} {ss : List (Stmt F)} {σ : State F}
    (ihs : SimS D fuel s σ) (ihss : ∀ o1 : Out F, SimL D fuel ss o1.st) : SimL D fuel (s :: ss) σ := by
  intro A B σc hd ha hr
  obtain ⟨B₁, h1, h2⟩ := absL_cons ha
  have hds : ∀ p ∈ s.decls, p ∈ D := fun p hp => hd p (by simp [declsL, hp])
  have hdss : ∀ p ∈ declsL ss, p ∈ D := fun p hp => hd p (by simp [declsL, hp])
  rw [execCL.eq_2, execL.eq_2]
  refine XRel.bind (ihs A B₁ σc hds h1 hr) ?_
  rintro ⟨st1, ret1, it1, sp1⟩ ⟨st2, ret2, it2, sp2⟩ ⟨r1, r2, r3, r4, r5, r6⟩
  simp only at r1 r2 r3 r4 r5 r6 ⊢
  subst r1 r2 r3
  cases ret1 with
  | some rv => exact ⟨rfl, rfl, rfl, r4, r5, fun h => by cases h⟩
  | none =>
    simp only
    refine XRel.bind (ihss ⟨st2, none, it1, sp1⟩ B₁ B st1 hdss h2 (r6 rfl)) ?_
    rintro o1 o2 ⟨q1, q2, q3, q4, q5, q6⟩
    exact ⟨q1, by simp only [COut.seq, Out.seq, q2], by simp only [COut.seq, Out.seq, q3], q4, q5, q6⟩

/-- the simulation lemma -/
theorem sim (hD : DCons D) (fuel : Nat) (s : Stmt F) (σ : State F) : SimS D fuel s σ := by
  induction fuel, s, σ using exec.induct (F := F)
    (motive2 := fun fuel ss σ => SimL D fuel ss σ) with
  | case1 fuel e σ => exact sim_expr fuel e σ
  | case2 fuel n t σ => exact sim_decl hD fuel n t σ
  | case3 fuel t v σ => exact sim_assign fuel t v σ
  | case4 fuel n t v σ => exact sim_declAssign hD fuel n t v σ
  | case5 fuel ss c σ ih =>
    intro A B σc hd ha hr
    rw [absS.eq_5] at ha
    rw [execC.eq_5, exec.eq_5]
    exact ih A B σc (by simpa [Stmt.decls] using hd) ha hr
  | case6 fuel c t f σ iht ihf => exact sim_branch iht ihf
  | case7 c b σ =>
    intro A B σc _ _ _
    rw [execC.eq_7, exec.eq_7]
    rfl
  | case8 c b σ fuel' ihb ihl => exact sim_loop_succ ihb ihl
  | case9 fuel e σ => exact sim_ret fuel e σ
  | case10 fuel σ =>
    intro A B σc _ ha hr
    rw [absL.eq_1] at ha
    cases ha
    rw [execCL.eq_1, execL.eq_1]
    exact ⟨rfl, rfl, rfl, hr.heap, hr.tensors, fun _ => hr⟩
  | case11 fuel s ss σ ihs ihss => exact sim_cons ihs ihss

end Scoped
end TV.IR
