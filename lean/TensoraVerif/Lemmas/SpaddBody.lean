import TensoraVerif.Lemmas.SpaddLower
import TensoraVerif.Lemmas.SpaddPure
import TensoraVerif.Lemmas.SpmulBody

/-!
C01 for the element-wise sum of two sparse vectors, part 5: the loop body steps. Names (`Spmul.KNames`), the
loop precondition (`Spmul.LoopPre`) and the loop invariant (`Spmul.Inv`: the history of appended (coordinate,
value) entries) are those of the product kernel.

* `branch_step`: the body of ANY branch of the lattice — terminal expression `e` whose leaves are among `b`
  (cursor in range if it occurs) and `c` (likewise): `vals` allocation check, `written = false`, the terminal
  block `a_vals[p_a] = e`, `if (written) { crd assembly; p_a++ }` — appends `(i, value of e)`;
* `mid_step`: the statement between `min` and the increments of the FIRST loop, the chain of three exclusive
  branches: `b + c` when both loaded coordinates equal the index, `b` alone when only `i_b` does, `c` alone when
  only `i_c` does (`stepHist`);
* `tail_step_b`, `tail_step_c`: the statement of the two tail loops.
-/
namespace TV.Spadd
open TV.IR TV.Gen TV.Graph TV.Growth TV.Merge
open TV.Sparse1 (isSp isSp_iff outLeaf inLeaf branchBody termBlock midW)
open TV.Spmul (KNames LoopPre Inv touched env bothCond)
set_option linter.unusedSectionVars false
variable {F : Type} [FloatOps F]

section step
variable {ofRat : Rat → F} {i : String} {outT bT cT : TensorId} {mb mc bvb cvb : Nat}
  {cellsB cellsC : Nat → F} {cb0 vb0 : Nat} {σ0 : State F}

/-- **the body of a branch of the lattice**: one entry is appended. From a state satisfying the invariant after
the history `hist` (`|hist| < 2^30`), in which, for the operands that occur in `e`, the input cursors hold the positions `q`, `r`
(in range) and the index `i` holds the int32 `x`, and if every sub-result of `e` is finite: the
branch body runs without error (any fuel) and re-establishes the invariant for `hist ++ [(x, value of e)]`; it
writes only the variables `midW` and no block of the old heap other than the two output arrays. -/
theorem branch_step (N : KNames i outT bT cT) (ho : isSp i outT = true) (hb : isSp i bT = true)
    (hc : isSp i cT = true)
    (pre : LoopPre bT cT mb mc bvb cvb cellsB cellsC cb0 vb0 σ0)
    (e : IdExpr) (hne0 : e ≠ .int 0)
    (fuel : Nat) (σ : State F) (hist : List (Int × F)) (cb : Nat) (cc : Int) (vb : Nat) (vc : Int)
    (q r : Nat) (x : Int)
    (hl : ∀ t ∈ ToIr.leaves e, (t = bT ∧ q < mb ∧ IntVar σ (layerPointer bT.id 0) q) ∨
      (t = cT ∧ r < mc ∧ IntVar σ (layerPointer cT.id 0) r))
    (hlen : hist.length < 1073741824)
    (hinv : Inv i outT bT cT cb0 vb0 σ0 cb cc vb vc hist σ)
    (hi : IntVar σ i x) (hr0 : -2147483648 ≤ x) (hr1 : x < 2147483648)
    (hfin : ToIr.AllFinite ofRat (env bT (cellsB q) (cellsC r)) e) :
    ∃ σ' cb' cc' vb' vc', RunsL fuel (branchBody ofRat outT e) σ σ' ∧
      Inv i outT bT cT cb0 vb0 σ0 cb' cc' vb' vc'
        (hist ++ [(x, ToIr.valueF ofRat (env bT (cellsB q) (cellsC r)) e)]) σ' ∧
      (∀ y, y ∉ midW outT → lookupVar σ'.vars y = lookupVar σ.vars y) ∧
      (∀ k blk, k ≠ cb → k ≠ vb → σ.heap[k]? = some blk → σ'.heap[k]? = some blk) := by
  obtain ⟨ho1, ho2⟩ := (isSp_iff i outT).1 ho
  obtain ⟨hb1, hb2⟩ := (isSp_iff i bT).1 hb
  obtain ⟨hc1, hc2⟩ := (isSp_iff i cT).1 hc
  obtain ⟨hdb, hArr, hCap, hEty, hBon, hidx⟩ := Sparse1.outLeaf_facts ho
  have hsmB := pre.smallB
  have hsmC := pre.smallC
  obtain ⟨w, hw⟩ : ∃ w, w = ToIr.valueF ofRat (env bT (cellsB q) (cellsC r)) e := ⟨_, rfl⟩
  rw [← hw]
  have holen : outT.indexes.length = 1 := by rw [ho1]; rfl
  have hblen : bT.indexes.length = 1 := by rw [hb1]; rfl
  have hclen : cT.indexes.length = 1 := by rw [hc1]; rfl
  -- abbreviations
  obtain ⟨p, hp⟩ : ∃ p : Int, p = hist.length := ⟨_, rfl⟩
  have hp0 : 0 ≤ p := by omega
  have hpm : p < 1073741824 := by omega
  have hptr : IntVar σ (layerPointer outT.id 0) p := by rw [hp]; exact hinv.ptr
  have hlec : p ≤ cc := by rw [hp]; exact hinv.lec
  have hlev : p ≤ vc := by rw [hp]; exact hinv.lev
  -- 1. vals allocation
  obtain ⟨o1, vb1, vc1, e1, r1, g1, hvc1, hroom1⟩ := writePosAllocation_nodense_safe (outLeaf outT) fuel σ
    vb vc p hdb (by rw [hArr, hCap, hEty]; exact hinv.vals) hptr hp0 (by rw [hBon]; omega)
    (by rw [hBon]; intro h; omega)
  rw [hArr, hCap, hEty] at g1
  rw [hBon] at hroom1
  have hpv1 : p < vc1 := by have := hroom1 (by omega); omega
  have run1 : Runs fuel (writePosAllocation (outLeaf outT)).finalize σ o1.st := ⟨o1, e1, r1, rfl⟩
  have f1 : ∀ y, y ≠ valsName outT.name → y ≠ valsCapName outT.name →
      lookupVar o1.st.vars y = lookupVar σ.vars y := g1.vars
  -- block indices are valid
  obtain ⟨cblk, hcblk, hclive, hcown, hcty, hclen'⟩ := hinv.crd.blk
  obtain ⟨vblk, hvblk, hvlive, hvown, hvty, hvlen⟩ := hinv.vals.blk
  have hcbl : cb < σ.heap.length := lt_length_of_getElem? hcblk
  have hvbl : vb < σ.heap.length := lt_length_of_getElem? hvblk
  have hvb1 : vb1 = vb ∨ vb1 = σ.heap.length := by
    rcases g1.old with ⟨h, _⟩ | ⟨h, _⟩
    · exact .inl h
    · exact .inr h
  have hcv1 : cb ≠ vb1 := by
    rcases hvb1 with h | h
    · rw [h]; exact hinv.hne
    · omega
  -- 2. bool written = false
  obtain ⟨σ2, r2, hh2, ht2, ⟨rw2, hrw1, hrw2, _⟩, f2⟩ := Dense1.runsI_declAssign (fuel := fuel)
    (x := writtenName outT.name 0) (t := .bool) (e := (.boolLit false : Expr F)) (σ := o1.st)
    (val := .bool false) (val' := .bool false)
    (by rw [f1 _ (by snm N) (by snm N)]; exact hinv.flag) (by simp [evalE]) rfl
  have run2 : Runs fuel (declAssignE (writtenName outT.name 0) .bool (.boolLit false)) o1.st σ2 := by
    obtain ⟨o, e, r, s, _⟩ := r2; exact ⟨o, e, r, s⟩
  -- 3. the terminal block
  have hbv2 : PtrVar σ2 (valsName bT.name) bvb := pre.bvals.congr (by
    rw [f2 _ (by snm N), f1 _ (by snm N) (by snm N), hinv.vars _ (by
      simp only [touched, midW, List.mem_cons, List.mem_append, List.not_mem_nil, or_false, not_or]
      and_intros <;> snm N)])
  have hcv2 : PtrVar σ2 (valsName cT.name) cvb := pre.cvals.congr (by
    rw [f2 _ (by snm N), f1 _ (by snm N) (by snm N), hinv.vars _ (by
      simp only [touched, midW, List.mem_cons, List.mem_append, List.not_mem_nil, or_false, not_or]
      and_intros <;> snm N)])
  have hpB2 : IntVar σ (layerPointer bT.id 0) q → IntVar σ2 (layerPointer bT.id 0) q := fun hpB => hpB.congr (by
    rw [f2 _ (by snm N), f1 _ (by snm N) (by snm N)])
  have hpC2 : IntVar σ (layerPointer cT.id 0) r → IntVar σ2 (layerPointer cT.id 0) r := fun hpC => hpC.congr (by
    rw [f2 _ (by snm N), f1 _ (by snm N) (by snm N)])
  have hpA2 : IntVar σ2 (layerPointer outT.id 0) p := hptr.congr (by
    rw [f2 _ (by snm N), f1 _ (by snm N) (by snm N)])
  obtain ⟨bblk, hbblk, hblive, hbty, hbcells⟩ := pre.bblk
  obtain ⟨cblk', hcblk', hclive', hcty', hccells'⟩ := pre.cblk
  have hbl0 : bvb < σ0.heap.length := lt_length_of_getElem? hbblk
  have hcl0 : cvb < σ0.heap.length := lt_length_of_getElem? hcblk'
  have hbvb_ne : bvb ≠ vb ∧ bvb ≠ cb := by
    constructor
    · rcases hinv.hvb with h | h
      · rw [h]; exact pre.bne.2
      · omega
    · rcases hinv.hcb with h | h
      · rw [h]; exact pre.bne.1
      · omega
  have hcvb_ne : cvb ≠ vb ∧ cvb ≠ cb := by
    constructor
    · rcases hinv.hvb with h | h
      · rw [h]; exact pre.cne.2
      · omega
    · rcases hinv.hcb with h | h
      · rw [h]; exact pre.cne.1
      · omega
  have hbσ : σ.heap[bvb]? = some bblk := hinv.old bvb bblk pre.bne.1 pre.bne.2 hbblk
  have hcσ : σ.heap[cvb]? = some cblk' := hinv.old cvb cblk' pre.cne.1 pre.cne.2 hcblk'
  have hbh2 : σ2.heap[bvb]? = some bblk := by rw [hh2]; exact g1.heap bvb bblk hbvb_ne.1 hbσ
  have hch2 : σ2.heap[cvb]? = some cblk' := by rw [hh2]; exact g1.heap cvb cblk' hcvb_ne.1 hcσ
  have hleaf : ∀ t ∈ ToIr.leaves e, ToIr.LeafOK σ2 (env bT (cellsB q) (cellsC r)) t := by
    intro t ht
    rcases hl t ht with ⟨rfl, hq, hpB⟩ | ⟨rfl, hr, hpC⟩
    · refine ToIr.LeafOK.intro (p := q) hbv2 ?_ (by omega) (by omega)
        ⟨bblk, hbh2, hblive, hbty, by omega, by simpa [env] using hbcells q hq⟩
      simp only [ToIr.CursorIs, hblen]
      exact hpB2 hpB
    · refine ToIr.LeafOK.intro (p := r) hcv2 ?_ (by omega) (by omega)
        ⟨cblk', hch2, hclive', hcty', by omega, by simpa [env, Ne.symm N.idbc] using hccells' r hr⟩
      simp only [ToIr.CursorIs, hclen]
      exact hpC2 hpC
  obtain ⟨vblk1, hvblk1, hv1live, hv1own, hv1ty, hv1len⟩ := g1.inv.blk
  have hvb1l : vb1 < o1.st.heap.length := lt_length_of_getElem? hvblk1
  have hcell : ToIr.OutCell σ2 vb1 (0 + p) :=
    ⟨vblk1, by rw [hh2]; exact hvblk1, hv1live, hv1own, hv1ty, by omega, by omega⟩
  obtain ⟨tb, o3, htb, e3, r3, _, hheap3, ht3, _, hflag3, _, f3⟩ :=
    ToIr.terminal_append_sound ofRat (env bT (cellsB q) (cellsC r)) σ2 e outT .evaluate rfl 0 fuel
      vb1 0 p hleaf hfin
      (ToIr.PtrAt.of_ptrVar (g1.inv.arr.congr (f2 _ (by snm N))))
      (by
        rw [holen]
        exact evalE_var_int hpA2 (by omega) (by omega))
      hcell
      (by
        intro f hf
        rw [ToIr.activeFlags_ne _ hne0, holen, Sparse1.writtenFlags_eq outT ho2] at hf
        simp only [List.mem_cons, List.not_mem_nil, or_false] at hf
        subst hf
        exact ⟨rw2, hrw1, hrw2⟩)
  rw [holen, Sparse1.lower_terminal_eq ofRat 0 outT e ho2 holen hne0] at htb
  cases htb
  rw [holen, Sparse1.writtenFlags_eq outT ho2] at hflag3 f3
  rw [← hw] at hheap3
  have run3 : Runs fuel (termBlock ofRat outT e) σ2 o3.st := ⟨o3, e3, r3, rfl⟩
  have hcp := ToIr.writeCell_post hcell (.flt (w))
  have hlen3 : o3.st.heap.length = σ2.heap.length := by rw [hheap3]; exact hcp.len
  have hother3 : ∀ b', b' ≠ vb1 → o3.st.heap[b']? = σ2.heap[b']? := by
    intro b' hb'; rw [hheap3]; exact hcp.other b' hb'
  obtain ⟨vblk2, vblk3, hvblk2, hvblk3, hv3ty, hv3own, hv3live, hv3len, hv3cell, hv3cells⟩ := hcp.blk
  rw [← hheap3] at hvblk3
  rw [hh2, hvblk1] at hvblk2
  cases hvblk2
  have hfl3 : ToIr.FlagTrue o3.st (writtenName outT.name 0) := hflag3 hne0 _ (by simp)
  have f3' : ∀ y, y ≠ writtenName outT.name 0 → lookupVar o3.st.vars y = lookupVar σ2.vars y := by
    intro y hy; exact f3 y (by simpa using hy)
  -- 4. crd assembly
  have hcb3 : o3.st.heap[cb]? = some cblk := by
    rw [hother3 cb hcv1, hh2]; exact g1.heap cb cblk hinv.hne hcblk
  have hcrd3 : ArrInv o3.st (crdName outT.name 0) (crdCapName outT.name 0) .int cb cc :=
    ⟨hinv.crd.arr.congr (by rw [f3' _ (by snm N), f2 _ (by snm N), f1 _ (by snm N) (by snm N)]),
     hinv.crd.cap.congr (by rw [f3' _ (by snm N), f2 _ (by snm N), f1 _ (by snm N) (by snm N)]),
     ⟨cblk, hcb3, hclive, hcown, hcty, hclen'⟩, hinv.crd.pos, hinv.crd.lt⟩
  have hpA3 : IntVar o3.st (layerPointer outT.id 0) p := hpA2.congr (f3' _ (by snm N))
  have hi3 : IntVar o3.st (outLeaf outT).index x := by
    rw [hidx]
    exact hi.congr (by rw [f3' _ (by snm N), f2 _ (by snm N), f1 _ (by snm N) (by snm N)])
  obtain ⟨σ4, cb4, cc4, run4, sp, hpA4, hi4⟩ := crdAssembly_runs (outLeaf outT) fuel o3.st cb cc p x
    hcrd3 hpA3 hp0 hlec hi3 hr0 hr1 (by intro h; omega)
    (namesDistinct_of_index _ (by rw [hidx]; exact N.iu))
  have f4 : ∀ y, y ≠ crdName outT.name 0 → y ≠ crdCapName outT.name 0 →
      lookupVar σ4.vars y = lookupVar o3.st.vars y := sp.vars
  -- 5. p_a++
  have hpA4' : IntVar σ4 (layerPointer outT.id 0) p := hpA4
  have run5 := Runs.assign_int (fuel := fuel) hpA4'
    (evalE_add (evalE_var_int hpA4' (by omega) (by omega))
      (evalE_intLit (σ := σ4) (v := 1) (by omega) (by omega)) (by omega) (by omega))
  generalize hσ5 : ({ σ4 with vars := setVar σ4.vars (layerPointer outT.id 0) (.int (p + 1)) } : State F) = σ5
    at run5
  have f5 : ∀ y, y ≠ layerPointer outT.id 0 → lookupVar σ5.vars y = lookupVar σ4.vars y := by
    intro y hy; rw [← hσ5]; exact lookupVar_setVar_other _ hy
  have hh5 : σ5.heap = σ4.heap := by rw [← hσ5]
  have ht5 : σ5.tensors = σ4.tensors := by rw [← hσ5]
  have hpA5 : IntVar σ5 (layerPointer outT.id 0) (p + 1) := by
    obtain ⟨r, e1, e2, _⟩ := hpA4'
    rw [← hσ5]
    exact ⟨_, lookupVar_setVar_same _ e1, e2, rfl⟩
  -- the run
  have hrun : RunsL fuel (branchBody ofRat outT e) σ σ5 :=
    RunsL.cons run1 (RunsL.cons run2 (RunsL.cons run3
      (RunsL.cons (Runs.branch_true (Sparse1.evalE_var_flag hfl3)
        (Runs.block (RunsL.cons run4 (RunsL.cons run5 (RunsL.nil _ _))))) (RunsL.nil _ _))))
  -- frames
  have fvars : ∀ y, y ∉ midW outT → lookupVar σ5.vars y = lookupVar σ.vars y := by
    intro y hy
    simp only [midW, List.mem_cons, List.not_mem_nil, or_false, not_or] at hy
    obtain ⟨y1, y2, y3, y4, y5, y6⟩ := hy
    rw [f5 y y6, f4 y y4 y5, f3' y y3, f2 y y3, f1 y y1 y2]
  have fheap : ∀ k blk, k ≠ cb → k ≠ vb → σ.heap[k]? = some blk → σ5.heap[k]? = some blk := by
    intro k blk hk1 hk2 hk
    have hkl : k < σ.heap.length := lt_length_of_getElem? hk
    have hk3 : k ≠ vb1 := by rcases hvb1 with h | h <;> omega
    rw [hh5]
    apply sp.heap k blk hk1
    rw [hother3 k hk3, hh2]
    exact g1.heap k blk hk2 hk
  have hlen5 : σ.heap.length ≤ σ5.heap.length := by
    rw [hh5]
    refine Nat.le_trans ?_ sp.len
    rw [hlen3, hh2]; exact g1.len
  have hcb4 : cb4 = cb ∨ cb4 = o3.st.heap.length := by
    rcases sp.old with h | ⟨h, _⟩
    · exact .inl h
    · exact .inr h
  have hl13 : o3.st.heap.length = o1.st.heap.length := by rw [hlen3, hh2]
  -- the vals block in the final state
  have hv5 : σ5.heap[vb1]? = some vblk3 := by
    rw [hh5]; exact sp.heap vb1 vblk3 (Ne.symm hcv1) hvblk3
  obtain ⟨cblk4, hcblk4, hc4cell⟩ := sp.cell
  refine ⟨σ5, cb4, cc4, vb1, vc1, hrun, ?_, fvars, fheap⟩
  have hlenapp : ((hist ++ [(x, w)]).length : Int) = p + 1 := by
    simp only [List.length_append, List.length_cons, List.length_nil]; omega
  have hlenNat : hist.length = p.toNat := by omega
  refine
    { tensors := ?_, len := Nat.le_trans hinv.len hlen5, old := ?_, vars := ?_, crd := ?_, vals := ?_,
      hcb := ?_, hvb := ?_, hne := ?_, ptr := ?_, lec := ?_, lev := ?_, crdCells := ?_, valsCells := ?_,
      flag := ?_ }
  · rw [ht5, sp.tensors, ht3, ht2, g1.tensors, hinv.tensors]
  · intro k blk hk1 hk2 hk
    have hkl : k < σ0.heap.length := lt_length_of_getElem? hk
    refine fheap k blk ?_ ?_ (hinv.old k blk hk1 hk2 hk)
    · rcases hinv.hcb with h | h <;> omega
    · rcases hinv.hvb with h | h <;> omega
  · intro y hy
    rw [fvars y (by
      intro hm; apply hy; simp only [touched, List.mem_append]; exact .inl hm), hinv.vars y hy]
  · exact sp.inv.congr hh5 (f5 (crdName outT.name 0) (by snm N)) (f5 (crdCapName outT.name 0) (by snm N))
  · refine ⟨g1.inv.arr.congr ?_, g1.inv.cap.congr ?_, ⟨vblk3, hv5, ?_, ?_, ?_, ?_⟩, g1.inv.pos, g1.inv.lt⟩
    · rw [f5 _ (by snm N), f4 _ (by snm N) (by snm N), f3' _ (by snm N), f2 _ (by snm N)]
    · rw [f5 _ (by snm N), f4 _ (by snm N) (by snm N), f3' _ (by snm N), f2 _ (by snm N)]
    · rw [hv3live]; exact hv1live
    · rw [hv3own]; exact hv1own
    · rw [hv3ty]; exact hv1ty
    · rw [hv3len]; exact hv1len
  · rcases hcb4 with h | h
    · rw [h]; exact hinv.hcb
    · right; rw [h, hl13]; exact Nat.le_trans hinv.len g1.len
  · rcases hvb1 with h | h
    · rw [h]; exact hinv.hvb
    · right; rw [h]; exact hinv.len
  · rcases hcb4 with h | h
    · rw [h]; exact hcv1
    · rw [h, hl13]; omega
  · rw [hlenapp]; exact hpA5
  · rw [hlenapp]; have := sp.bound; omega
  · rw [hlenapp]; omega
  · refine ⟨cblk4, by rw [hh5]; exact hcblk4, ?_⟩
    intro j hj
    simp only [List.length_append, List.length_cons, List.length_nil] at hj
    by_cases hjp : j < hist.length
    · obtain ⟨cb', hcb', hcells'⟩ := hinv.crdCells
      rw [hcblk] at hcb'; cases hcb'
      rw [List.getElem_append_left hjp]
      rw [sp.cells cblk cblk4 hcb3 hcblk4 j (by omega) (by omega)]
      exact hcells' j hjp
    · have hje : j = hist.length := by omega
      subst hje
      rw [List.getElem_append_right (Nat.le_refl _)]
      simp only [Nat.sub_self, List.getElem_cons_zero]
      rw [hlenNat]; exact hc4cell
  · refine ⟨vblk3, hv5, ?_⟩
    intro j hj
    simp only [List.length_append, List.length_cons, List.length_nil] at hj
    by_cases hjp : j < hist.length
    · obtain ⟨vb', hvb', hcells'⟩ := hinv.valsCells
      rw [hvblk] at hvb'; cases hvb'
      rw [List.getElem_append_left hjp]
      rw [hv3cells j (by omega), g1.cells vblk vblk1 hvblk hvblk1 j (by omega)]
      exact hcells' j hjp
    · have hje : j = hist.length := by omega
      subst hje
      rw [List.getElem_append_right (Nat.le_refl _)]
      simp only [Nat.sub_self, List.getElem_cons_zero]
      rw [hlenNat]
      simpa using hv3cell
  · intro r hr
    obtain ⟨r', e1, e2, _⟩ := hfl3
    rw [f5 _ (by snm N), f4 _ (by snm N) (by snm N), e1] at hr
    cases hr; exact e2


/-! ### values and conditions -/

theorem valueF_addE (ofRat : Rat → F) (bT cT : TensorId) (h : bT.id ≠ cT.id) (u v : F) :
    ToIr.valueF ofRat (env bT u v) (addE bT cT) = FloatOps.add u v := by
  simp [addE, ToIr.valueF, env, Ne.symm h]

theorem valueF_b (ofRat : Rat → F) (bT : TensorId) (u v : F) :
    ToIr.valueF ofRat (env bT u v) (.tensor bT) = u := by
  simp [ToIr.valueF, env]

theorem valueF_c (ofRat : Rat → F) (bT cT : TensorId) (h : bT.id ≠ cT.id) (u v : F) :
    ToIr.valueF ofRat (env bT u v) (.tensor cT) = v := by
  simp [ToIr.valueF, env, Ne.symm h]

theorem allFinite_b (ofRat : Rat → F) (bT : TensorId) (u v : F) (h : FloatOps.finite u = true) :
    ToIr.AllFinite ofRat (env bT u v) (.tensor bT) := by
  simpa [ToIr.AllFinite, ToIr.allFinite, env] using h

theorem allFinite_c (ofRat : Rat → F) (bT cT : TensorId) (hne : bT.id ≠ cT.id) (u v : F)
    (h : FloatOps.finite v = true) : ToIr.AllFinite ofRat (env bT u v) (.tensor cT) := by
  simpa [ToIr.AllFinite, ToIr.allFinite, env, Ne.symm hne] using h

theorem evalE_oneCond {σ : State F} {i : String} {t : TensorId} {xt x : Int}
    (hv : IntVar σ (valueFromCrd t.id 0) xt) (hi : IntVar σ i x)
    (h0 : -2147483648 ≤ xt) (h1 : xt < 2147483648) (hr0 : -2147483648 ≤ x) (hr1 : x < 2147483648) :
    evalE σ (oneCond i t) = .ok (.bool (true && (xt == x))) :=
  evalE_and (σ := σ) (l := .boolLit true) (a := true) (by simp [evalE])
    (evalE_eqInt (evalE_var_int hv h0 h1) (evalE_var_int hi hr0 hr1))

theorem noLoop_midStmt (ofRat : Rat → F) (i : String) (outT bT cT : TensorId) :
    Sparse1.noLoopL [midStmt ofRat i outT bT cT] = true := by
  simp [Sparse1.noLoopL, Sparse1.noLoop, midStmt, branchBody, Sparse1.noLoop_writePosAllocation, termBlock,
    Sparse1.termBlockLines, declAssignE, increment, writeCrdAssembly_shape]

theorem noLoop_tailStmt (ofRat : Rat → F) (i : String) (outT t : TensorId) :
    Sparse1.noLoopL [tailStmt ofRat i outT t] = true := by
  simp [Sparse1.noLoopL, Sparse1.noLoop, tailStmt, Sparse1.midStmt, branchBody,
    Sparse1.noLoop_writePosAllocation, termBlock,
    Sparse1.termBlockLines, declAssignE, increment, writeCrdAssembly_shape]

/-- what the history becomes in one iteration of the first loop: `(i, b + c)` when both operands store the
index, `(i, b)` when only `b` does, `(i, c)` when only `c` does -/
def stepHist (hist : List (Int × F)) (xb xc x : Int) (u v : F) : List (Int × F) :=
  if xb = x ∧ xc = x then hist ++ [(x, FloatOps.add u v)]
  else if xb = x then hist ++ [(x, u)]
  else if xc = x then hist ++ [(x, v)]
  else hist

/-- **(a) The body step of the first loop: the three exclusive branches.** From a state satisfying the
invariant after the history `hist`, in which the input cursors hold positions `q < mb`, `r < mc`, the loaded
coordinates `i_b`, `i_c` hold the int32s `xb`, `xc` and the index `i` holds the int32 `x`: the statement between
the `min` and the increments runs without error (any fuel) and
* if `xb = x` and `xc = x`: appends `(x, b[q] + c[r])` (finiteness of both cells and of the sum needed);
* if only `xb = x`: appends `(x, b[q])` (finiteness of `b[q]` needed) — `c[r]` is not read;
* if only `xc = x`: appends `(x, c[r])` (finiteness of `c[r]` needed) — `b[q]` is not read;
* if neither (impossible when `x` is their minimum): the state is not changed at all.
`|hist| < 2^30` is needed when something is appended. It writes only the variables `midW` and no block of the
old heap other than the two output arrays. -/
theorem mid_step (N : KNames i outT bT cT) (ho : isSp i outT = true) (hb : isSp i bT = true)
    (hc : isSp i cT = true)
    (pre : LoopPre bT cT mb mc bvb cvb cellsB cellsC cb0 vb0 σ0)
    (fuel : Nat) (σ : State F) (hist : List (Int × F)) (cb : Nat) (cc : Int) (vb : Nat) (vc : Int)
    (q r : Nat) (xb xc x : Int) (hq : q < mb) (hr : r < mc)
    (hinv : Inv i outT bT cT cb0 vb0 σ0 cb cc vb vc hist σ)
    (hpB : IntVar σ (layerPointer bT.id 0) q) (hpC : IntVar σ (layerPointer cT.id 0) r)
    (hvB : IntVar σ (valueFromCrd bT.id 0) xb) (hvC : IntVar σ (valueFromCrd cT.id 0) xc)
    (hi : IntVar σ i x)
    (hb0 : -2147483648 ≤ xb) (hb1 : xb < 2147483648) (hc0 : -2147483648 ≤ xc) (hc1 : xc < 2147483648)
    (hr0 : -2147483648 ≤ x) (hr1 : x < 2147483648)
    (hlen : xb = x ∨ xc = x → hist.length < 1073741824)
    (hboth : xb = x → xc = x → ToIr.AllFinite ofRat (env bT (cellsB q) (cellsC r)) (addE bT cT))
    (honlyB : xb = x → xc ≠ x → FloatOps.finite (cellsB q) = true)
    (honlyC : xb ≠ x → xc = x → FloatOps.finite (cellsC r) = true) :
    ∃ σ' cb' cc' vb' vc', RunsL fuel [midStmt ofRat i outT bT cT] σ σ' ∧
      Inv i outT bT cT cb0 vb0 σ0 cb' cc' vb' vc' (stepHist hist xb xc x (cellsB q) (cellsC r)) σ' ∧
      (xb ≠ x → xc ≠ x → σ' = σ) ∧
      (∀ y, y ∉ midW outT → lookupVar σ'.vars y = lookupVar σ.vars y) ∧
      (∀ k blk, k ≠ cb → k ≠ vb → σ.heap[k]? = some blk → σ'.heap[k]? = some blk) := by
  have econd : evalE σ (bothCond i bT cT) = .ok (.bool ((true && (xb == x)) && (xc == x))) :=
    evalE_and (evalE_and (σ := σ) (l := .boolLit true) (a := true) (by simp [evalE])
      (evalE_eqInt (evalE_var_int hvB hb0 hb1) (evalE_var_int hi hr0 hr1)))
      (evalE_eqInt (evalE_var_int hvC hc0 hc1) (evalE_var_int hi hr0 hr1))
  have econdB := evalE_oneCond (t := bT) hvB hi hb0 hb1 hr0 hr1
  have econdC := evalE_oneCond (t := cT) hvC hi hc0 hc1 hr0 hr1
  by_cases h1 : xb = x
  · by_cases h2 : xc = x
    · -- both present
      obtain ⟨σ', cb', cc', vb', vc', hrun, hinv', fv, fh⟩ := branch_step (ofRat := ofRat) N ho hb hc pre
        (addE bT cT) (by simp [addE]) fuel σ hist cb cc vb vc q r x
        (by
          intro t ht
          simp only [addE, ToIr.leaves, List.cons_append, List.nil_append, List.mem_cons, List.not_mem_nil,
            or_false] at ht
          rcases ht with rfl | rfl
          · exact .inl ⟨rfl, hq, hpB⟩
          · exact .inr ⟨rfl, hr, hpC⟩)
        (hlen (.inl h1)) hinv hi hr0 hr1 (hboth h1 h2)
      rw [valueF_addE ofRat bT cT N.idbc] at hinv'
      refine ⟨σ', cb', cc', vb', vc', ?_, ?_, fun h => absurd h1 h, fv, fh⟩
      · refine RunsL.cons (Runs.branch_true ?_ (Runs.block hrun)) (RunsL.nil _ _)
        rw [econd, h1, h2]; simp
      · unfold stepHist; rw [if_pos ⟨h1, h2⟩]; exact hinv'
    · -- only b
      obtain ⟨σ', cb', cc', vb', vc', hrun, hinv', fv, fh⟩ := branch_step (ofRat := ofRat) N ho hb hc pre
        (.tensor bT) (by simp) fuel σ hist cb cc vb vc q r x
        (by
          intro t ht
          simp only [ToIr.leaves, List.mem_cons, List.not_mem_nil, or_false] at ht
          subst ht
          exact .inl ⟨rfl, hq, hpB⟩)
        (hlen (.inl h1)) hinv hi hr0 hr1 (allFinite_b ofRat bT _ _ (honlyB h1 h2))
      rw [valueF_b ofRat bT] at hinv'
      refine ⟨σ', cb', cc', vb', vc', ?_, ?_, fun h => absurd h1 h, fv, fh⟩
      · refine RunsL.cons (Runs.branch_false ?_ (Runs.branch_true ?_ (Runs.block hrun))) (RunsL.nil _ _)
        · rw [econd, h1]; simp [h2]
        · rw [econdB, h1]; simp
      · unfold stepHist; rw [if_neg (fun h => h2 h.2), if_pos h1]; exact hinv'
  · by_cases h2 : xc = x
    · -- only c
      obtain ⟨σ', cb', cc', vb', vc', hrun, hinv', fv, fh⟩ := branch_step (ofRat := ofRat) N ho hb hc pre
        (.tensor cT) (by simp) fuel σ hist cb cc vb vc q r x
        (by
          intro t ht
          simp only [ToIr.leaves, List.mem_cons, List.not_mem_nil, or_false] at ht
          subst ht
          exact .inr ⟨rfl, hr, hpC⟩)
        (hlen (.inr h2)) hinv hi hr0 hr1 (allFinite_c ofRat bT cT N.idbc _ _ (honlyC h1 h2))
      rw [valueF_c ofRat bT cT N.idbc] at hinv'
      refine ⟨σ', cb', cc', vb', vc', ?_, ?_, fun _ h => absurd h2 h, fv, fh⟩
      · refine RunsL.cons (Runs.branch_false ?_ (Runs.branch_false ?_ (Runs.branch_true ?_ (Runs.block hrun))))
          (RunsL.nil _ _)
        · rw [econd]; simp [h1]
        · rw [econdB]; simp [h1]
        · rw [econdC, h2]; simp
      · unfold stepHist; rw [if_neg (fun h => h1 h.1), if_neg h1, if_pos h2]; exact hinv'
    · refine ⟨σ, cb, cc, vb, vc, ?_, ?_, fun _ _ => rfl, fun _ _ => rfl, fun _ _ _ _ h => h⟩
      · refine RunsL.cons (Runs.branch_false ?_ (Runs.branch_false ?_ (Runs.branch_false ?_ (Runs.skip _ _ _))))
          (RunsL.nil _ _)
        · rw [econd]; simp [h1]
        · rw [econdB]; simp [h1]
        · rw [econdC]; simp [h2]
      · unfold stepHist; rw [if_neg (fun h => h1 h.1), if_neg h1, if_neg h2]; exact hinv

/-- **(a') The body step of the tail loop of `b`**: `if (true && i_b == i) { … b … }`. The cursor of `b` holds a
position `q < mb`; nothing is asked of `c` (its cursor is not read). If `xb = x` the entry `(x, b[q])` is
appended, else the state is unchanged. -/
theorem tail_step_b (N : KNames i outT bT cT) (ho : isSp i outT = true) (hb : isSp i bT = true)
    (hc : isSp i cT = true)
    (pre : LoopPre bT cT mb mc bvb cvb cellsB cellsC cb0 vb0 σ0)
    (fuel : Nat) (σ : State F) (hist : List (Int × F)) (cb : Nat) (cc : Int) (vb : Nat) (vc : Int)
    (q : Nat) (xb x : Int) (hq : q < mb)
    (hinv : Inv i outT bT cT cb0 vb0 σ0 cb cc vb vc hist σ)
    (hpB : IntVar σ (layerPointer bT.id 0) q)
    (hvB : IntVar σ (valueFromCrd bT.id 0) xb) (hi : IntVar σ i x)
    (hb0 : -2147483648 ≤ xb) (hb1 : xb < 2147483648) (hr0 : -2147483648 ≤ x) (hr1 : x < 2147483648)
    (hlen : xb = x → hist.length < 1073741824)
    (hfin : xb = x → FloatOps.finite (cellsB q) = true) :
    ∃ σ' cb' cc' vb' vc', RunsL fuel [tailStmt ofRat i outT bT] σ σ' ∧
      Inv i outT bT cT cb0 vb0 σ0 cb' cc' vb' vc' (if xb = x then hist ++ [(x, cellsB q)] else hist) σ' ∧
      (∀ y, y ∉ midW outT → lookupVar σ'.vars y = lookupVar σ.vars y) ∧
      (∀ k blk, k ≠ cb → k ≠ vb → σ.heap[k]? = some blk → σ'.heap[k]? = some blk) := by
  have econdB := evalE_oneCond (t := bT) hvB hi hb0 hb1 hr0 hr1
  by_cases h1 : xb = x
  · obtain ⟨σ', cb', cc', vb', vc', hrun, hinv', fv, fh⟩ := branch_step (ofRat := ofRat) N ho hb hc pre
      (.tensor bT) (by simp) fuel σ hist cb cc vb vc q 0 x
      (by
        intro t ht
        simp only [ToIr.leaves, List.mem_cons, List.not_mem_nil, or_false] at ht
        subst ht
        exact .inl ⟨rfl, hq, hpB⟩)
      (hlen h1) hinv hi hr0 hr1 (allFinite_b ofRat bT _ _ (hfin h1))
    rw [valueF_b ofRat bT] at hinv'
    refine ⟨σ', cb', cc', vb', vc', ?_, ?_, fv, fh⟩
    · refine RunsL.cons (Runs.branch_true ?_ (Runs.block hrun)) (RunsL.nil _ _)
      show evalE σ (oneCond i bT) = _
      rw [econdB, h1]; simp
    · rw [if_pos h1]; exact hinv'
  · refine ⟨σ, cb, cc, vb, vc, ?_, ?_, fun _ _ => rfl, fun _ _ _ _ h => h⟩
    · refine RunsL.cons (Runs.branch_false ?_ (Runs.skip _ _ _)) (RunsL.nil _ _)
      show evalE σ (oneCond i bT) = _
      rw [econdB]; simp [h1]
    · rw [if_neg h1]; exact hinv

/-- **(a'') The body step of the tail loop of `c`**, symmetric. -/
theorem tail_step_c (N : KNames i outT bT cT) (ho : isSp i outT = true) (hb : isSp i bT = true)
    (hc : isSp i cT = true)
    (pre : LoopPre bT cT mb mc bvb cvb cellsB cellsC cb0 vb0 σ0)
    (fuel : Nat) (σ : State F) (hist : List (Int × F)) (cb : Nat) (cc : Int) (vb : Nat) (vc : Int)
    (r : Nat) (xc x : Int) (hr : r < mc)
    (hinv : Inv i outT bT cT cb0 vb0 σ0 cb cc vb vc hist σ)
    (hpC : IntVar σ (layerPointer cT.id 0) r)
    (hvC : IntVar σ (valueFromCrd cT.id 0) xc) (hi : IntVar σ i x)
    (hc0 : -2147483648 ≤ xc) (hc1 : xc < 2147483648) (hr0 : -2147483648 ≤ x) (hr1 : x < 2147483648)
    (hlen : xc = x → hist.length < 1073741824)
    (hfin : xc = x → FloatOps.finite (cellsC r) = true) :
    ∃ σ' cb' cc' vb' vc', RunsL fuel [tailStmt ofRat i outT cT] σ σ' ∧
      Inv i outT bT cT cb0 vb0 σ0 cb' cc' vb' vc' (if xc = x then hist ++ [(x, cellsC r)] else hist) σ' ∧
      (∀ y, y ∉ midW outT → lookupVar σ'.vars y = lookupVar σ.vars y) ∧
      (∀ k blk, k ≠ cb → k ≠ vb → σ.heap[k]? = some blk → σ'.heap[k]? = some blk) := by
  have econdC := evalE_oneCond (t := cT) hvC hi hc0 hc1 hr0 hr1
  by_cases h1 : xc = x
  · obtain ⟨σ', cb', cc', vb', vc', hrun, hinv', fv, fh⟩ := branch_step (ofRat := ofRat) N ho hb hc pre
      (.tensor cT) (by simp) fuel σ hist cb cc vb vc 0 r x
      (by
        intro t ht
        simp only [ToIr.leaves, List.mem_cons, List.not_mem_nil, or_false] at ht
        subst ht
        exact .inr ⟨rfl, hr, hpC⟩)
      (hlen h1) hinv hi hr0 hr1 (allFinite_c ofRat bT cT N.idbc _ _ (hfin h1))
    rw [valueF_c ofRat bT cT N.idbc] at hinv'
    refine ⟨σ', cb', cc', vb', vc', ?_, ?_, fv, fh⟩
    · refine RunsL.cons (Runs.branch_true ?_ (Runs.block hrun)) (RunsL.nil _ _)
      show evalE σ (oneCond i cT) = _
      rw [econdC, h1]; simp
    · rw [if_pos h1]; exact hinv'
  · refine ⟨σ, cb, cc, vb, vc, ?_, ?_, fun _ _ => rfl, fun _ _ _ _ h => h⟩
    · refine RunsL.cons (Runs.branch_false ?_ (Runs.skip _ _ _)) (RunsL.nil _ _)
      show evalE σ (oneCond i cT) = _
      rw [econdC]; simp [h1]
    · rw [if_neg h1]; exact hinv

end step

end TV.Spadd
