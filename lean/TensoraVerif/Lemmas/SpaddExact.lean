import TensoraVerif.Lemmas.SpaddKernel
import TensoraVerif.Lemmas.SpmulExact

/-!
C01 for the element-wise sum of two sparse vectors, part 11: the result as a stored tensor and as a function of
the coordinate — the coordinates of `union b c` are strictly increasing and within the dimension
(`Storage.wfCheck` accepts), they are exactly the coordinates stored in AT LEAST ONE operand, and over the exact
carrier the dense reading of the result is C01's `Alg.denote` of the source assignment `a(i) = b(i) + c(i)`.
-/
namespace TV.Spadd
open TV.IR TV.Gen TV.Graph
open TV.Sparse1 (storedVec wfCheck_storedVec)
open TV.Spmul (Sorted assoc vecAt assoc_sorted mem_assoc assoc_length coords_pairwise env)
set_option linter.unusedSectionVars false
variable {F : Type} [FloatOps F]

theorem coord_mem_assoc {m : Nat} {crd : Nat → Int} {cells : Nat → F} {x : Int} :
    x ∈ (assoc m crd cells).map (·.1) ↔ ∃ q, q < m ∧ crd q = x := by
  simp [assoc]

/-- **the stored coordinates are exactly those stored in at least one operand** (no phantom coordinate, none
missing) -/
theorem coord_mem_union_iff {mb mc : Nat} {crdB crdC : Nat → Int} (cellsB cellsC : Nat → F) (x : Int) :
    x ∈ (union (assoc mb crdB cellsB) (assoc mc crdC cellsC)).map (·.1) ↔
      (∃ q, q < mb ∧ crdB q = x) ∨ (∃ r, r < mc ∧ crdC r = x) := by
  rw [union_coords, coord_mem_assoc, coord_mem_assoc]

/-- **every stored entry**: the sum of the two matching entries where both operands store the coordinate, the
entry of the operand that stores it otherwise; and every such entry is stored -/
theorem entry_mem_union_iff {mb mc : Nat} {crdB crdC : Nat → Int} (cellsB cellsC : Nat → F)
    (hsB : ∀ j k, j < k → k < mb → crdB j < crdB k) (hsC : ∀ j k, j < k → k < mc → crdC j < crdC k)
    (x : Int) (w : F) :
    (x, w) ∈ union (assoc mb crdB cellsB) (assoc mc crdC cellsC) ↔
      (∃ q r, q < mb ∧ r < mc ∧ crdB q = x ∧ crdC r = x ∧ w = FloatOps.add (cellsB q) (cellsC r)) ∨
      (∃ q, q < mb ∧ crdB q = x ∧ w = cellsB q ∧ ∀ r, r < mc → crdC r ≠ x) ∨
      (∃ r, r < mc ∧ crdC r = x ∧ w = cellsC r ∧ ∀ q, q < mb → crdB q ≠ x) := by
  rw [mem_union_iff _ _ (assoc_sorted cellsB hsB) (assoc_sorted cellsC hsC)]
  constructor
  · rintro (⟨u, v, h1, h2, e⟩ | ⟨h1, hn⟩ | ⟨h2, hn⟩)
    · obtain ⟨q, hq, e1, rfl⟩ := mem_assoc.1 h1
      obtain ⟨r, hr, e2, rfl⟩ := mem_assoc.1 h2
      exact .inl ⟨q, r, hq, hr, e1, e2, e⟩
    · obtain ⟨q, hq, e1, e2⟩ := mem_assoc.1 h1
      exact .inr (.inl ⟨q, hq, e1, e2.symm, fun r hr e => hn (cellsC r) (mem_assoc.2 ⟨r, hr, e, rfl⟩)⟩)
    · obtain ⟨r, hr, e1, e2⟩ := mem_assoc.1 h2
      exact .inr (.inr ⟨r, hr, e1, e2.symm, fun q hq e => hn (cellsB q) (mem_assoc.2 ⟨q, hq, e, rfl⟩)⟩)
  · rintro (⟨q, r, hq, hr, e1, e2, e⟩ | ⟨q, hq, e1, e2, hn⟩ | ⟨r, hr, e1, e2, hn⟩)
    · exact .inl ⟨cellsB q, cellsC r, mem_assoc.2 ⟨q, hq, e1, rfl⟩, mem_assoc.2 ⟨r, hr, e2, rfl⟩, e⟩
    · refine .inr (.inl ⟨mem_assoc.2 ⟨q, hq, e1, e2.symm⟩, fun v hv => ?_⟩)
      obtain ⟨r, hr, e3, _⟩ := mem_assoc.1 hv
      exact hn r hr e3
    · refine .inr (.inr ⟨mem_assoc.2 ⟨r, hr, e1, e2.symm⟩, fun u hu => ?_⟩)
      obtain ⟨q, hq, e3, _⟩ := mem_assoc.1 hu
      exact hn q hq e3

/-- **well-formedness of the result**: the structure with `pos = [0, r]`, `crd` = the coordinates of `union b c`
and one value per coordinate passes `Storage.wfCheck`, provided the coordinates of both operands are strictly
increasing and within the dimension -/
theorem wfCheck_union {mb mc : Nat} {crdB crdC : Nat → Int} (cellsB cellsC : Nat → F) (d : Nat)
    (hsB : ∀ j k, j < k → k < mb → crdB j < crdB k) (hsC : ∀ j k, j < k → k < mc → crdC j < crdC k)
    (hrB : ∀ j, j < mb → 0 ≤ crdB j ∧ crdB j < d) (hrC : ∀ j, j < mc → 0 ≤ crdC j ∧ crdC j < d)
    (vs : List Int) (hv : vs.length = (union (assoc mb crdB cellsB) (assoc mc crdC cellsC)).length) :
    Storage.wfCheck (storedVec d ((union (assoc mb crdB cellsB) (assoc mc crdC cellsC)).map (·.1)) vs) =
      true := by
  refine wfCheck_storedVec d _ vs
    (coords_pairwise (union_sorted _ _ (assoc_sorted cellsB hsB) (assoc_sorted cellsC hsC))) ?_
    (by simpa using hv)
  intro c hc
  rcases (coord_mem_union_iff cellsB cellsC c).1 hc with ⟨q, hq, rfl⟩ | ⟨r, hr, rfl⟩
  · exact hrB q hq
  · exact hrC r hr

/-! ### the exact carrier -/

/-- **the specification of the source assignment** `a(i) = b(i) + c(i)` (C01's `Alg.denote`) at the coordinate
`x` is the sum of the two inputs at `x` -/
theorem denote_add (inputs : Alg.Inputs) (sizes : Alg.Sizes) (an bn cn i : String) (x : Nat) :
    Alg.denote ⟨an, [i], .add (.tensor bn [i]) (.tensor cn [i])⟩ inputs sizes [x] =
      inputs bn [x] + inputs cn [x] := by
  simp [Alg.denote, Alg.termsOf, Alg.Term.indexes, Alg.dedup, Alg.sumOver,
    Alg.Term.val, Alg.Env.get]
  grind

/-- the source assignment desugars to the sum of the two occurrences with ids 1 and 2 -/
theorem desugar_add (an bn cn i : String) :
    Alg.desugar ⟨an, [i], .add (.tensor bn [i]) (.tensor cn [i])⟩ =
      ⟨an, [i], .add (.tensor 1 bn [i]) (.tensor 2 cn [i])⟩ := by
  simp [Alg.desugar, Alg.desugarE, Alg.indexesOf, Alg.dedup, Alg.wrap]

/-- **the dense reading of `union b c` over `Rat` is the sum of the dense readings** -/
theorem vecAt_union_rat (l1 l2 : List (Int × Rat)) (s1 : Sorted l1) (s2 : Sorted l2) (x : Int) :
    vecAt (union l1 l2) x = vecAt l1 x + vecAt l2 x :=
  vecAt_union l1 l2 s1 s2 (fun v => Rat.zero_add v) (fun u => Rat.add_zero u) x

end TV.Spadd
