import TensoraVerif.Lemmas.SpaddLower
import TensoraVerif.Lemmas.Sparse1Generate

/-!
C01 for the element-wise sum of two sparse vectors, part 3: what `generateIr` produces on the class — the whole
`evaluate` function, written out (`kernel`, `generateIr_eq`). Prologue and cleanup are those of the one-operand
class (`Sparse1.outInit`, `Sparse1.cleanupLines`), with one more tensor to unpack — literally those of the
product kernel; only the iteration block differs.
-/
namespace TV.Spadd
open TV.IR TV.Gen TV.Graph TV.Merge
open TV.Sparse1 (isSp isSp_iff sparseFormats unpackStmts outInit cleanupLines)
open TV.Spmul (isClass isClass_iff)
set_option linter.unusedSectionVars false
variable {F : Type} [FloatOps F]

/-- the statements of the `evaluate` kernel of the class, before `return 0` -/
def kernelStmts (ofRat : Rat → F) (cap : Option Int) (formats : Formats) (i : String) (outT bT cT : TensorId) :
    List (Stmt F) :=
  [.block [declAssignE (dimName i) .int (.idx (.attr (.var outT.name) "dimensions") (.intLit 0))]
      (some "Extract dimensions"),
   .block (formats.flatMap fun f => unpackStmts f.1) (some "Unpack tensors"),
   .block (outInit cap outT) (some "Output initialization"),
   .block (loopLines ofRat i outT bT cT) (some ("*** Iteration over " ++ i ++ " ***")),
   .block (cleanupLines outT) (some ("Assembling output tensor " ++ outT.name))]

/-- the `evaluate` kernel of the class -/
def kernel (ofRat : Rat → F) (cap : Option Int) (formats : Formats) (i : String) (outT bT cT : TensorId) :
    Func F :=
  ⟨"evaluate", formats.map fun f => (f.1, .ptr .tensor), .int,
    .block (kernelStmts ofRat cap formats i outT bT cT ++ [.ret (.intLit 0)]) none⟩

/-- **What `generateIr` produces on the class.** -/
theorem generateIr_eq (ofRat : Rat → F) (cap : Option Int) (a : Alg.DAssign) (formats : Formats)
    (i : String) (outT bT cT : TensorId)
    (hout : tensorId 0 a.tname formats a.tidx = some outT) (hname : outT.name = a.tname)
    (hcl : isClass i outT bT cT = true) (hf : sparseFormats formats = true)
    (hd : indexDimensions a = [(i, a.tname, 0)]) :
    generateIr ofRat cap a formats (graph i outT bT cT) .evaluate =
      .ok (kernel ofRat cap formats i outT bT cT) := by
  have ho' := (isSp_iff i outT).1 ((isClass_iff i outT bT cT).1 hcl).1
  have hsz : 4 * (graph i outT bT cT).size + 8 = 14 + 2 := by simp [graph, IGraph.size]
  have hu := Sparse1.unpackDecls_eq (F := F) formats hf
  unfold unpackDecls at hu
  unfold generateIr
  simp only [hout, Option.getD_some, hsz, lower_eq ofRat 14 i outT bT cT hcl, hd,
    Sparse1.appendDeclarations_eq1 cap outT ho'.2, Sparse1.appendCleanup_eq1 outT ho'.2, hu]
  simp [bind, Except.bind, pure, Except.pure, kernel, kernelStmts, SB.add, SB.append, SB.empty,
    SB.finalize, Kind.name, hname]

end TV.Spadd
