import TensoraVerif.Lemmas.SpaddBlock
import TensoraVerif.Lemmas.SpmulKernel

/-!
C01 for the element-wise sum of two sparse vectors, part 10: the whole `evaluate` function on the machine
(`kernel_runs`), from `Spmul.Init` to `Spmul.KernelPost` for the history `union b c`: the prologue
(`Spmul.prologue_runs`) and the cleanup (`Spmul.cleanup_runs`) are those of the product kernel.
-/
namespace TV.Spadd
open TV.IR TV.Gen TV.Graph TV.Growth TV.Merge TV.Dense1
open TV.Sparse1 (isSp isSp_iff outLeaf inLeaf cleanupLines unpackStmts capVal)
open TV.Spmul (KNames isClass isClass_iff assoc assoc_length Init KernelOK KernelPost prologue_runs cleanup_runs)
set_option linter.unusedSectionVars false
variable {F : Type} [FloatOps F]

/-- **the whole `evaluate` function on the machine** -/
theorem kernel_runs (ofRat : Rat → F) (cap : Option Int) (formats : Formats) (i : String) (outT bT cT : TensorId)
    (hcl : isClass i outT bT cT = true) (ok : KernelOK formats i outT bT cT)
    (hk0 : 1 ≤ capVal cap) (hk1 : capVal cap < 2147483648)
    {ta : Nat} {atr : TensorRec F} {n : Int}
    {tb : Nat} {btr : TensorRec F} {mb bpb bcb bvb : Nat} {crdB : Nat → Int} {cellsB : Nat → F}
    {tc : Nat} {ctr : TensorRec F} {mc cpb ccb cvb : Nat} {crdC : Nat → Int} {cellsC : Nat → F}
    {σ : State F}
    (init : Init outT bT cT ta atr n tb btr mb bpb bcb bvb crdB cellsB tc ctr mc cpb ccb cvb crdC cellsC σ)
    (hsum : mb + mc ≤ 1073741824)
    (hrngB : ∀ j, j < mb → -2147483648 ≤ crdB j ∧ crdB j < 2147483648)
    (hrngC : ∀ j, j < mc → -2147483648 ≤ crdC j ∧ crdC j < 2147483648)
    (hfB : ∀ q, q < mb → FloatOps.finite (cellsB q) = true)
    (hfC : ∀ r, r < mc → FloatOps.finite (cellsC r) = true)
    (hfS : ∀ q r, q < mb → r < mc → crdB q = crdC r →
      FloatOps.finite (FloatOps.add (cellsB q) (cellsC r)) = true)
    (fuel : Nat) (hfuel : mb + mc + 1 ≤ fuel) :
    ∃ o, exec fuel (kernel ofRat cap formats i outT bT cT).body σ = .ok o ∧ o.ret = some (.int 0) ∧
      o.iters ≤ mb + mc ∧
      o.iters = (union (assoc mb crdB cellsB) (assoc mc crdC cellsC)).length ∧
      KernelPost ta atr (union (assoc mb crdB cellsB) (assoc mc crdC cellsC)) σ o.st := by
  have N := ok.names
  obtain ⟨ho, hb, hc, _⟩ := (isClass_iff i outT bT cT).1 hcl
  obtain ⟨σC, rC, entry⟩ := prologue_runs N cap hk0 hk1 init fuel
  obtain ⟨σF, its, rF, hits1, hits2, al⟩ := iterBlock_runs (ofRat := ofRat) N ho hb hc hk0 hk1 init entry
    (by omega) (by omega) hrngB hrngC hsum hfB hfC hfS fuel hfuel
  have hHlen : (union (assoc mb crdB cellsB) (assoc mc crdC cellsC)).length ≤ 1073741824 := by omega
  obtain ⟨σG, rG, post⟩ := cleanup_runs N init.arec init.aown init.aord init.aslot al hHlen fuel
  have hunp : (formats.flatMap fun f => unpackStmts (F := F) f.1) =
      unpackStmts outT.name ++ unpackStmts bT.name ++ unpackStmts cT.name := by
    have : (formats.flatMap fun f => unpackStmts (F := F) f.1) =
        (formats.map (·.1)).flatMap unpackStmts := by
      rw [List.flatMap_map]
    rw [this, ok.fmt]
    simp
  have rAll : RunsLI fuel (kernelStmts ofRat cap formats i outT bT cT) σ σG (0 + (its + (0 + 0))) := by
    unfold kernelStmts
    rw [hunp]
    have h3 := RunsLI.append rC (RunsLI.cons (RunsI.block
      (c := some ("*** Iteration over " ++ i ++ " ***")) rF)
      (RunsLI.cons (RunsI.block (c := some ("Assembling output tensor " ++ outT.name)) rG) (RunsLI.nil _ _)))
    simpa using h3
  obtain ⟨o, eo, hret, hst, hit⟩ := execL_ret (e := .intLit 0) (v := .int 0) rAll
    (evalE_intLit (by omega) (by omega))
  refine ⟨o, ?_, hret, by rw [hit]; omega, by rw [hit, ← hits2]; omega, by rw [hst]; exact post⟩
  show exec fuel (.block (kernelStmts ofRat cap formats i outT bT cT ++ [.ret (.intLit 0)]) none) σ = _
  rw [exec.eq_5]
  exact eo

end TV.Spadd
