import TensoraVerif.Lemmas.SpaddModel
import TensoraVerif.Lemmas.SpmulLower

/-!
C01 for the element-wise sum of two sparse vectors, part 2: what `lower` emits for the graphs of the class
(`lower_eq`). The lattice of sub-graphs has FOUR points — the graph itself, `b` alone (`c` exhausted, `b + 0`
simplified to `b`), `c` alone, and the literal `0` — in this order (stable sort by decreasing number of
compressed dimensions); the last has no compressed dimension and is skipped, as a loop and as a branch.
-/
namespace TV.Spadd
open TV.IR TV.Gen TV.Graph TV.Merge
open TV.Sparse1 (isSp isSp_iff outLeaf inLeaf branchBody termBlock)
open TV.Spmul (isClass isClass_iff)
set_option linter.unusedSectionVars false
variable {F : Type} [FloatOps F]

section
variable (i : String) (outT bT cT : TensorId) (hb : isSp i bT = true) (hc : isSp i cT = true)
  (hne : bT.id ≠ cT.id)

include hb hc in
/-- the loop context of the sum: sparse, the two leaves in order, no dense leaf -/
theorem ctx_eq : extractContext (addE bT cT) i = ⟨true, [inLeaf bT, inLeaf cT], []⟩ := by
  obtain ⟨hb1, hb2⟩ := (isSp_iff i bT).1 hb
  obtain ⟨hc1, hc2⟩ := (isSp_iff i cT).1 hc
  simp [addE, extractContext, Context.add, hb1, hb2, hc1, hc2, inLeaf]

include hb in
/-- the loop context of one operand alone -/
theorem ctx_one : extractContext (.tensor bT) i = ⟨true, [inLeaf bT], []⟩ := by
  obtain ⟨hb1, hb2⟩ := (isSp_iff i bT).1 hb
  simp [extractContext, hb1, hb2, inLeaf]

include hb hc hne in
theorem compressedDims_graph : compressedDims (graph i outT bT cT) = [bT.id, cT.id] := by
  simp [compressedDims, graph, nodeContext, IGraph.context, ctx_eq i bT cT hb hc, dedupStr, inLeaf]
  exact Ne.symm hne

include hb in
theorem compressedDims_graphB : compressedDims (graphB i outT bT) = [bT.id] := by
  simp [compressedDims, graphB, nodeContext, IGraph.context, ctx_one i bT hb, dedupStr, inLeaf]

theorem compressedDims_zero : compressedDims (zeroGraph i outT) = [] := by
  simp [compressedDims, zeroGraph, nodeContext, IGraph.context, extractContext, dedupStr]

include hne in
/-- exhausting `c` leaves `b` (`b + 0` is simplified) -/
theorem exhaust_c : (graph i outT bT cT).exhaust cT.id = graphB i outT bT := by
  have hne' : (bT.id == cT.id) = false := by simpa using hne
  simp [graph, graphB, IGraph.exhaust, addE, exhaust, IdExpr.occurs, IdExpr.isZeroInt, hne']

include hne in
/-- exhausting `b` leaves `c` (`0 + c` is simplified) -/
theorem exhaust_b : (graph i outT bT cT).exhaust bT.id = graphB i outT cT := by
  have hne' : (cT.id == bT.id) = false := by simpa using Ne.symm hne
  simp [graph, graphB, IGraph.exhaust, addE, exhaust, IdExpr.occurs, IdExpr.isZeroInt, hne']

/-- exhausting the only operand leaves the literal `0` -/
theorem exhaust_one : (graphB i outT bT).exhaust bT.id = zeroGraph i outT := by
  simp [graphB, zeroGraph, IGraph.exhaust, exhaust]

include hb in
/-- the lattice below one operand: itself and the zero graph -/
theorem generateSubgraphs_one : generateSubgraphs (graphB i outT bT) = [graphB i outT bT, zeroGraph i outT] := by
  have h1 := compressedDims_graphB i outT bT hb
  have h2 := compressedDims_zero i outT
  have hx := exhaust_one i outT bT
  simp [generateSubgraphs, generateSubgraphs.go, h1, h2, hx, dictSet, sameSet, sortByLenDesc,
    List.range, List.range.loop]

include hb hc hne in
/-- **the lattice of sub-graphs**: the graph, `b` alone, `c` alone, the zero graph -/
theorem generateSubgraphs_eq :
    generateSubgraphs (graph i outT bT cT) =
      [graph i outT bT cT, graphB i outT bT, graphB i outT cT, zeroGraph i outT] := by
  have h1 := compressedDims_graph i outT bT cT hb hc hne
  have h2 := compressedDims_graphB i outT bT hb
  have h3 := compressedDims_graphB i outT cT hc
  have h4 := compressedDims_zero i outT
  have hx := exhaust_c i outT bT cT hne
  have hy := exhaust_b i outT bT cT hne
  have hz1 := exhaust_one i outT bT
  have hz2 := exhaust_one i outT cT
  simp [generateSubgraphs, generateSubgraphs.go, h1, h2, h3, h4, hx, hy, hz1, hz2, dictSet, sameSet, sortByLenDesc,
    List.range, List.range.loop, hne, Ne.symm hne, List.filter]

end

/-- **What `lower` emits on the class.** -/
theorem lower_eq (ofRat : Rat → F) (n : Nat) (i : String) (outT bT cT : TensorId)
    (hcl : isClass i outT bT cT = true) :
    lower ofRat (n + 2) (graph i outT bT cT) (.append outT 0) .evaluate =
      .ok ⟨some ("*** Iteration over " ++ i ++ " ***"), loopLines ofRat i outT bT cT⟩ := by
  obtain ⟨ho, hb, hc, hne⟩ := (isClass_iff i outT bT cT).1 hcl
  have ho' := (isSp_iff i outT).1 ho
  have hctx := ctx_eq i bT cT hb hc
  have hctxB := ctx_one i bT hb
  have hctxC := ctx_one i cT hc
  have hsub := generateSubgraphs_eq i outT bT cT hb hc hne
  have hsubB := generateSubgraphs_one i outT bT hb
  have hsubC := generateSubgraphs_one i outT cT hc
  have hcd1 := compressedDims_graph i outT bT cT hb hc hne
  have hcdB := compressedDims_graphB i outT bT hb
  have hcdC := compressedDims_graphB i outT cT hc
  have hcd0 := compressedDims_zero i outT
  have hne0 : addE bT cT ≠ .int 0 := by simp [addE]
  have hneB : IdExpr.tensor bT ≠ .int 0 := by simp
  have hneC : IdExpr.tensor cT ≠ .int 0 := by simp
  unfold graph graphB zeroGraph at hsub
  unfold graphB zeroGraph at hsubB hsubC
  unfold graph at hcd1
  unfold graphB at hcdB hcdC
  unfold zeroGraph at hcd0
  unfold graph
  unfold lower
  simp only [Kind.isCompute, Bool.not_true, Bool.false_and, Bool.false_eq_true, if_false]
  have hso : isSparseOutput (IGraph.iter i (some { tensor := outT, layer := 0 })
      (IGraph.terminal (addE bT cT))) = true := by
    simp [isSparseOutput, Leaf.mode, ho'.2]
  have hnext : ((Output.append outT 0).next (some 0) Kind.evaluate : Except GenErr (Output × SB F)) =
      .ok (.append outT 1, SB.empty) := by simp [Output.next]
  have hnc : nodeContext (IGraph.iter i (some { tensor := outT, layer := 0 }) (IGraph.terminal (addE bT cT))) =
      ⟨true, [inLeaf bT, inLeaf cT], []⟩ := by
    simp [nodeContext, IGraph.context, hctx]
  have hncB : nodeContext (IGraph.iter i (some { tensor := outT, layer := 0 }) (IGraph.terminal (.tensor bT))) =
      ⟨true, [inLeaf bT], []⟩ := by
    simp [nodeContext, IGraph.context, hctxB]
  have hncC : nodeContext (IGraph.iter i (some { tensor := outT, layer := 0 }) (IGraph.terminal (.tensor cT))) =
      ⟨true, [inLeaf cT], []⟩ := by
    simp [nodeContext, IGraph.context, hctxC]
  have hlater : (IGraph.iter i (some { tensor := outT, layer := 0 })
      (IGraph.terminal (addE bT cT))).laterIndexes = [i] := by
    simp [IGraph.laterIndexes]
  have hterm := Sparse1.lower_terminal_eq ofRat n outT (addE bT cT) ho'.2 (by rw [ho'.1]; rfl) hne0
  have htermB := Sparse1.lower_terminal_eq ofRat n outT (.tensor bT) ho'.2 (by rw [ho'.1]; rfl) hneB
  have htermC := Sparse1.lower_terminal_eq ofRat n outT (.tensor cT) ho'.2 (by rw [ho'.1]; rfl) hneC
  have hmode : ({ tensor := outT, layer := 0 } : Leaf).mode = Mode.compressed := by simp [Leaf.mode, ho'.2]
  simp only [hso, hmode, Option.map_some, hnext, hsub, hsubB, hsubC, hnc, hncB, hncC, hlater, hterm, htermB, htermC,
    hcd1, hcdB, hcdC, hcd0,
    Bool.or_true, Bool.true_and, Bool.and_self, if_true,
    List.foldlM_cons, List.foldlM_nil, bind, Except.bind, pure, Except.pure,
    List.isEmpty_nil, List.isEmpty_cons, Bool.not_true, Bool.not_false, Option.isNone_some, Bool.false_eq_true,
    if_false, List.foldl_nil, List.foldl_cons,
    List.map_nil, List.map_cons, List.nil_append, Kind.isAssemble]
  rw [Sparse1.append_commented _ _ _ (Sparse1.writePosAllocation_comment _),
    Sparse1.append_commented _ (writeCrdAssembly _) "crd assembly" rfl,
    Sparse1.append_commented _ (writePosAssembly _) "pos assembly" rfl,
    Sparse1.append_plain _ (writeSparseInit (inLeaf bT)) rfl,
    Sparse1.append_plain _ (writeSparseInit (inLeaf cT)) rfl]
  simp [SB.mk', SB.append, SB.empty, SB.add, SB.loop, SB.branch, SB.finalize, branchJoin, andJoin, joinWith,
    minJoin, loopLines, midStmt, tailStmt, Sparse1.midStmt, oneCond, Spmul.bothCond, branchBody, termBlock,
    mergeLoopL, mergeBodyL, mergeCond,
    mergeLoads, mergeMin, mergeIncs, inLeaf, outLeaf, Leaf.ptr, Sparse1.writePosAllocation_comment]
  exact ⟨rfl, rfl⟩

end TV.Spadd
