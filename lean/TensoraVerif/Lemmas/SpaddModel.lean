import TensoraVerif.Lemmas.Sparse1Model
import TensoraVerif.Lemmas.Sparse1Lower
import TensoraVerif.Lemmas.SpmulModel

/-!
C01 for the element-wise SUM of two sparse vectors (`a(i) = b(i) + c(i)`, all three compressed), part 1:
definitions.

* the class is `Spmul.isClass` (three order-1 compressed tensors indexed by the loop index, the two input
  occurrences have different ids);
* `Spadd.addE`, `Spadd.graph`: the terminal expression and the iteration graph; `graphB` (for `b` and for `c`),
  `zeroGraph`: the other three points of the co-iteration lattice (`c` exhausted: `b + 0` simplified to `b`;
  `b` exhausted: `0 + c` simplified to `c`; both exhausted: the literal `Integer 0`);
* `Spadd.midStmt`, `Spadd.loopLines`: what `lower` emits on the class, written out. THREE loops: C05's
  skeleton over the two leaves `[b, c]` whose `mid` is the chain of three exclusive branches
  `if ((true && i_b == i) && i_c == i) {b + c} else if (true && i_b == i) {b} else if (true && i_c == i) {c}`,
  then the one-leaf loop over the rest of `b` (literally the loop of `Sparse1` for the expression `b`), then the
  one-leaf loop over the rest of `c`.
-/
namespace TV.Spadd
open TV.IR TV.Gen TV.Graph TV.Merge
open TV.Sparse1 (isSp outLeaf inLeaf branchBody)

variable {F : Type} [FloatOps F]

/-- `b(i) + c(i)` -/
def addE (bT cT : TensorId) : IdExpr := .add (.tensor bT) (.tensor cT)

/-- the iteration graph of `out(i) = b(i) + c(i)` -/
def graph (i : String) (outT bT cT : TensorId) : IGraph :=
  .iter i (some ⟨outT, 0⟩) (.terminal (addE bT cT))

/-- one operand alone — `c` exhausted: `b + 0`, simplified to `b` (and `0 + c` to `c`) -/
def graphB (i : String) (outT bT : TensorId) : IGraph := .iter i (some ⟨outT, 0⟩) (.terminal (.tensor bT))

/-- both exhausted: the literal `Integer 0` -/
def zeroGraph (i : String) (outT : TensorId) : IGraph := .iter i (some ⟨outT, 0⟩) (.terminal (.int 0))

/-- `true && i_t == i`: the operand `t` stores the coordinate `i` -/
def oneCond (i : String) (t : TensorId) : Expr F :=
  .bin .and (.boolLit true) (.bin .eq (.var (valueFromCrd t.id 0)) (.var i))

/-- what `lower` puts between the `min` and the cursor increments of the FIRST loop: the three exclusive
branches of the lattice — both present (`b + c`), only `b`, only `c` -/
def midStmt (ofRat : Rat → F) (i : String) (outT bT cT : TensorId) : Stmt F :=
  .branch (Spmul.bothCond i bT cT) (.block (branchBody ofRat outT (addE bT cT)) none)
    (.branch (oneCond i bT) (.block (branchBody ofRat outT (.tensor bT)) none)
      (.branch (oneCond i cT) (.block (branchBody ofRat outT (.tensor cT)) none) (.block [] none)))

/-- the statement between `min` and the increment of a tail loop: `if (true && i_t == i) { … t … }` -/
def tailStmt (ofRat : Rat → F) (i : String) (outT t : TensorId) : Stmt F :=
  Sparse1.midStmt ofRat i outT t (.tensor t)

/-- the lines of the "Iteration over i" block: cursor/end of `b`, cursor/end of `c`, the merge loop, the tail
loop of `b`, the tail loop of `c`, pos assembly -/
def loopLines (ofRat : Rat → F) (i : String) (outT bT cT : TensorId) : List (Stmt F) :=
  (writeSparseInit (inLeaf bT)).lines ++ (writeSparseInit (inLeaf cT)).lines ++
  [mergeLoopL [inLeaf bT, inLeaf cT] i [midStmt ofRat i outT bT cT],
   mergeLoopL [inLeaf bT] i [tailStmt ofRat i outT bT],
   mergeLoopL [inLeaf cT] i [tailStmt ofRat i outT cT],
   (writePosAssembly (outLeaf outT)).finalize]

end TV.Spadd
