import TensoraVerif.Lemmas.SpmulPure

/-!
C01 for the element-wise sum of two sparse vectors, part 4: the PURE reference — `union`, the element-wise sum
of two sparse vectors given as association lists (coordinate, value) with strictly increasing coordinates (the
classical two-finger union merge): a coordinate is stored in the result iff it is stored in at least one
operand, with value `b + c` where both store it and the value of the one present otherwise.

What it stores: `union_coords` (no phantom coordinate and none missing — no sortedness needed), `union_sorted`,
`lookup_union` (the stored value at every coordinate, as an `Option`), `mem_union_iff`, the dense reading
`vecAt_union`, and one step of the merge in terms of the cursor positions (`union_drop_step`).
-/
namespace TV.Spadd
open TV.IR
open TV.Spmul (Sorted assoc vecAt assoc_drop_lt assoc_drop_all assoc_sorted mem_assoc assoc_length)

set_option linter.unusedSectionVars false
variable {F : Type} [FloatOps F]

/-- inner recursion of `union`: the head `(x, u)` (tail `xs`) of the first list against the second list;
`rec` is `union` on the tail of the first list -/
def unionAux (x : Int) (u : F) (xs : List (Int × F)) (rec : List (Int × F) → List (Int × F)) :
    List (Int × F) → List (Int × F)
  | [] => (x, u) :: xs
  | (y, v) :: ys =>
    if x = y then (x, FloatOps.add u v) :: rec ys
    else if x < y then (x, u) :: rec ((y, v) :: ys)
    else (y, v) :: unionAux x u xs rec ys

/-- **the reference function**: element-wise sum of two sparse vectors stored as association lists sorted by
coordinate — the classical two-finger union merge. A coordinate is stored in the result iff it is stored in at
least one operand; the value is `b + c` (in this order) where both store it, else the value of the operand
that stores it. -/
def union : List (Int × F) → List (Int × F) → List (Int × F)
  | [] => fun l => l
  | (x, u) :: xs => unionAux x u xs (union xs)

@[simp] theorem union_nil_left (l : List (Int × F)) : union [] l = l := rfl

@[simp] theorem union_nil_right (l : List (Int × F)) : union l [] = l := by
  cases l with
  | nil => rfl
  | cons p xs => rfl

theorem union_cons_cons (x : Int) (u : F) (xs : List (Int × F)) (y : Int) (v : F) (ys : List (Int × F)) :
    union ((x, u) :: xs) ((y, v) :: ys) =
      if x = y then (x, FloatOps.add u v) :: union xs ys
      else if x < y then (x, u) :: union xs ((y, v) :: ys)
      else (y, v) :: union ((x, u) :: xs) ys := rfl

theorem union_eq (x : Int) (u : F) (xs : List (Int × F)) (v : F) (ys : List (Int × F)) :
    union ((x, u) :: xs) ((x, v) :: ys) = (x, FloatOps.add u v) :: union xs ys := by
  rw [union_cons_cons, if_pos rfl]

theorem union_lt {x y : Int} (h : x < y) (u : F) (xs : List (Int × F)) (v : F) (ys : List (Int × F)) :
    union ((x, u) :: xs) ((y, v) :: ys) = (x, u) :: union xs ((y, v) :: ys) := by
  rw [union_cons_cons, if_neg (by omega), if_pos h]

theorem union_gt {x y : Int} (h : y < x) (u : F) (xs : List (Int × F)) (v : F) (ys : List (Int × F)) :
    union ((x, u) :: xs) ((y, v) :: ys) = (y, v) :: union ((x, u) :: xs) ys := by
  rw [union_cons_cons, if_neg (by omega), if_neg (by omega)]

/-- the result is at least as long as either operand and at most as long as both together -/
theorem union_length (l1 l2 : List (Int × F)) :
    l1.length ≤ (union l1 l2).length ∧ l2.length ≤ (union l1 l2).length ∧
      (union l1 l2).length ≤ l1.length + l2.length := by
  induction l1, l2 using Spmul.intersect_induct with
  | nilL l => simp
  | nilR l => simp
  | eq x u xs v ys ih => rw [union_eq]; simp only [List.length_cons]; omega
  | lt x u xs y v ys h ih => rw [union_lt h]; simp only [List.length_cons] at ih ⊢; omega
  | gt x u xs y v ys h ih => rw [union_gt h]; simp only [List.length_cons] at ih ⊢; omega

/-- **the stored coordinates are exactly those of either operand** (no phantom coordinate, none missing). No
sortedness needed. -/
theorem union_coords (l1 l2 : List (Int × F)) (z : Int) :
    z ∈ (union l1 l2).map (·.1) ↔ z ∈ l1.map (·.1) ∨ z ∈ l2.map (·.1) := by
  induction l1, l2 using Spmul.intersect_induct with
  | nilL l => simp
  | nilR l => simp
  | eq x u xs v ys ih =>
    rw [union_eq]
    simp only [List.map_cons, List.mem_cons] at ih ⊢
    rw [ih]
    constructor
    · rintro (h | h | h) <;> simp [h]
    · rintro ((h | h) | h | h) <;> simp [h]
  | lt x u xs y v ys h ih =>
    rw [union_lt h]
    simp only [List.map_cons, List.mem_cons] at ih ⊢
    rw [ih]
    constructor
    · rintro (h | h | h | h) <;> simp [h]
    · rintro ((h | h) | h | h) <;> simp [h]
  | gt x u xs y v ys h ih =>
    rw [union_gt h]
    simp only [List.map_cons, List.mem_cons] at ih ⊢
    rw [ih]
    constructor
    · rintro (h | (h | h) | h) <;> simp [h]
    · rintro ((h | h) | h | h) <;> simp [h]

/-- every entry of the result comes from the operands: the sum of two entries at the same coordinate, or an
entry of one of them -/
theorem mem_union_sound (l1 l2 : List (Int × F)) :
    ∀ p ∈ union l1 l2, (∃ u v, (p.1, u) ∈ l1 ∧ (p.1, v) ∈ l2 ∧ p.2 = FloatOps.add u v) ∨ p ∈ l1 ∨ p ∈ l2 := by
  induction l1, l2 using Spmul.intersect_induct with
  | nilL l => intro p hp; exact .inr (.inr hp)
  | nilR l => intro p hp; rw [union_nil_right] at hp; exact .inr (.inl hp)
  | eq x u xs v ys ih =>
    intro p hp
    rw [union_eq] at hp
    rcases List.mem_cons.1 hp with rfl | hp
    · exact .inl ⟨u, v, List.mem_cons_self, List.mem_cons_self, rfl⟩
    · rcases ih p hp with ⟨u', v', h1, h2, h3⟩ | h | h
      · exact .inl ⟨u', v', List.mem_cons_of_mem _ h1, List.mem_cons_of_mem _ h2, h3⟩
      · exact .inr (.inl (List.mem_cons_of_mem _ h))
      · exact .inr (.inr (List.mem_cons_of_mem _ h))
  | lt x u xs y v ys h ih =>
    intro p hp
    rw [union_lt h] at hp
    rcases List.mem_cons.1 hp with rfl | hp
    · exact .inr (.inl List.mem_cons_self)
    · rcases ih p hp with ⟨u', v', h1, h2, h3⟩ | h | h
      · exact .inl ⟨u', v', List.mem_cons_of_mem _ h1, h2, h3⟩
      · exact .inr (.inl (List.mem_cons_of_mem _ h))
      · exact .inr (.inr h)
  | gt x u xs y v ys h ih =>
    intro p hp
    rw [union_gt h] at hp
    rcases List.mem_cons.1 hp with rfl | hp
    · exact .inr (.inr List.mem_cons_self)
    · rcases ih p hp with ⟨u', v', h1, h2, h3⟩ | h | h
      · exact .inl ⟨u', v', h1, List.mem_cons_of_mem _ h2, h3⟩
      · exact .inr (.inl h)
      · exact .inr (.inr (List.mem_cons_of_mem _ h))

/-- the result is sorted when the operands are -/
theorem union_sorted (l1 l2 : List (Int × F)) : Sorted l1 → Sorted l2 → Sorted (union l1 l2) := by
  induction l1, l2 using Spmul.intersect_induct with
  | nilL l => intro _ h; exact h
  | nilR l => intro h _; rw [union_nil_right]; exact h
  | eq x u xs v ys ih =>
    intro s1 s2
    rw [union_eq]
    refine List.pairwise_cons.2 ⟨?_, ih s1.tail s2.tail⟩
    intro q hq
    have hq' : q.1 ∈ (union xs ys).map (·.1) := List.mem_map.2 ⟨q, hq, rfl⟩
    rcases (union_coords xs ys q.1).1 hq' with h | h
    · obtain ⟨r, hr, e⟩ := List.mem_map.1 h
      have := s1.head_lt r hr
      show x < q.1
      rw [← e]; exact this
    · obtain ⟨r, hr, e⟩ := List.mem_map.1 h
      have := s2.head_lt r hr
      show x < q.1
      rw [← e]; exact this
  | lt x u xs y v ys h ih =>
    intro s1 s2
    rw [union_lt h]
    refine List.pairwise_cons.2 ⟨?_, ih s1.tail s2⟩
    intro q hq
    have hq' : q.1 ∈ (union xs ((y, v) :: ys)).map (·.1) := List.mem_map.2 ⟨q, hq, rfl⟩
    rcases (union_coords xs _ q.1).1 hq' with h' | h'
    · obtain ⟨r, hr, e⟩ := List.mem_map.1 h'
      have := s1.head_lt r hr
      show x < q.1
      rw [← e]; exact this
    · obtain ⟨r, hr, e⟩ := List.mem_map.1 h'
      show x < q.1
      rw [← e]
      rcases List.mem_cons.1 hr with rfl | hr
      · exact h
      · have := s2.head_lt r hr
        simp only at this
        omega
  | gt x u xs y v ys h ih =>
    intro s1 s2
    rw [union_gt h]
    refine List.pairwise_cons.2 ⟨?_, ih s1 s2.tail⟩
    intro q hq
    have hq' : q.1 ∈ (union ((x, u) :: xs) ys).map (·.1) := List.mem_map.2 ⟨q, hq, rfl⟩
    rcases (union_coords _ ys q.1).1 hq' with h' | h'
    · obtain ⟨r, hr, e⟩ := List.mem_map.1 h'
      show y < q.1
      rw [← e]
      rcases List.mem_cons.1 hr with rfl | hr
      · exact h
      · have := s1.head_lt r hr
        simp only at this
        omega
    · obtain ⟨r, hr, e⟩ := List.mem_map.1 h'
      have := s2.head_lt r hr
      show y < q.1
      rw [← e]; exact this

/-! ### the stored value at a coordinate -/

/-- the value the association list `l` stores at coordinate `x`, if any (first match) -/
def lookup (l : List (Int × F)) (x : Int) : Option F := (l.find? (fun p => p.1 == x)).map (·.2)

@[simp] theorem lookup_nil (x : Int) : lookup ([] : List (Int × F)) x = none := rfl

theorem lookup_cons (y : Int) (v : F) (l : List (Int × F)) (x : Int) :
    lookup ((y, v) :: l) x = if y = x then some v else lookup l x := by
  unfold lookup
  rw [List.find?_cons]
  by_cases h : y = x
  · simp [h]
  · have : (y == x) = false := by simpa using h
    simp [this, h]

/-- the dense reading is the stored value, `0` where nothing is stored -/
theorem vecAt_eq_lookup (l : List (Int × F)) (x : Int) : vecAt l x = (lookup l x).getD FloatOps.zero := by
  unfold vecAt lookup
  cases l.find? (fun p => p.1 == x) <;> rfl

theorem lookup_none_of_lt {l : List (Int × F)} {x : Int} (h : ∀ p ∈ l, x < p.1) : lookup l x = none := by
  induction l with
  | nil => rfl
  | cons p l ih =>
    obtain ⟨y, v⟩ := p
    have := h (y, v) List.mem_cons_self
    simp only at this
    rw [lookup_cons, if_neg (by omega)]
    exact ih fun q hq => h q (List.mem_cons_of_mem _ hq)

/-- for a sorted list, `lookup` is membership -/
theorem lookup_eq_some_iff {l : List (Int × F)} (hs : Sorted l) (x : Int) (w : F) :
    lookup l x = some w ↔ (x, w) ∈ l := by
  induction l with
  | nil => simp
  | cons p l ih =>
    obtain ⟨y, v⟩ := p
    rw [lookup_cons]
    by_cases h : y = x
    · subst h
      rw [if_pos rfl]
      constructor
      · intro e; cases e; exact List.mem_cons_self
      · intro hm
        rcases List.mem_cons.1 hm with e | hm
        · cases e; rfl
        · have := hs.head_lt _ hm; simp at this
    · rw [if_neg h, ih hs.tail]
      constructor
      · exact List.mem_cons_of_mem _
      · intro hm
        rcases List.mem_cons.1 hm with e | hm
        · cases e; exact absurd rfl h
        · exact hm

theorem lookup_eq_none_iff (l : List (Int × F)) (x : Int) : lookup l x = none ↔ ∀ w, (x, w) ∉ l := by
  induction l with
  | nil => simp
  | cons p l ih =>
    obtain ⟨y, v⟩ := p
    rw [lookup_cons]
    by_cases h : y = x
    · subst h
      rw [if_pos rfl]
      constructor
      · intro e; cases e
      · intro hm; exact absurd List.mem_cons_self (hm v)
    · rw [if_neg h, ih]
      constructor
      · intro hm w hw
        rcases List.mem_cons.1 hw with e | hw
        · cases e; exact h rfl
        · exact hm w hw
      · intro hm w hw; exact hm w (List.mem_cons_of_mem _ hw)

/-- the value of a sum of two optional entries: the sum where both are present, else the one present -/
def addOpt : Option F → Option F → Option F
  | some u, some v => some (FloatOps.add u v)
  | some u, none => some u
  | none, some v => some v
  | none, none => none

@[simp] theorem addOpt_none_left (o : Option F) : addOpt none o = o := by cases o <;> rfl
@[simp] theorem addOpt_none_right (o : Option F) : addOpt o none = o := by cases o <;> rfl

/-- **the meaning of `union`**: at every coordinate, what the result stores is the sum of what the operands
store where both store something, what one of them stores where only one does, and nothing where neither does -/
theorem lookup_union (l1 l2 : List (Int × F)) : Sorted l1 → Sorted l2 → ∀ z,
    lookup (union l1 l2) z = addOpt (lookup l1 z) (lookup l2 z) := by
  induction l1, l2 using Spmul.intersect_induct with
  | nilL l => intro _ _ z; simp
  | nilR l => intro _ _ z; simp
  | eq x u xs v ys ih =>
    intro s1 s2 z
    rw [union_eq, lookup_cons, lookup_cons, lookup_cons]
    by_cases h : x = z
    · simp [h, addOpt]
    · simp only [if_neg h]; exact ih s1.tail s2.tail z
  | lt x u xs y v ys h ih =>
    intro s1 s2 z
    rw [union_lt h, lookup_cons, lookup_cons x]
    by_cases hz : x = z
    · subst hz
      have : lookup ((y, v) :: ys) x = none := by
        apply lookup_none_of_lt
        intro p hp
        rcases List.mem_cons.1 hp with rfl | hp
        · exact h
        · have := s2.head_lt p hp
          simp only at this
          omega
      simp [this]
    · simp only [if_neg hz]; exact ih s1.tail s2 z
  | gt x u xs y v ys h ih =>
    intro s1 s2 z
    rw [union_gt h, lookup_cons, lookup_cons y]
    by_cases hz : y = z
    · subst hz
      have : lookup ((x, u) :: xs) y = none := by
        apply lookup_none_of_lt
        intro p hp
        rcases List.mem_cons.1 hp with rfl | hp
        · exact h
        · have := s1.head_lt p hp
          simp only at this
          omega
      simp [this]
    · simp only [if_neg hz]; exact ih s1 s2.tail z

/-- **what `union` stores, entry by entry** (sorted operands): `(x, w)` is stored iff both operands store `x`
and `w` is the sum of the two values, or exactly one operand stores `x`, with value `w` -/
theorem mem_union_iff (l1 l2 : List (Int × F)) (s1 : Sorted l1) (s2 : Sorted l2) (x : Int) (w : F) :
    (x, w) ∈ union l1 l2 ↔
      (∃ u v, (x, u) ∈ l1 ∧ (x, v) ∈ l2 ∧ w = FloatOps.add u v) ∨
      ((x, w) ∈ l1 ∧ ∀ v, (x, v) ∉ l2) ∨ ((x, w) ∈ l2 ∧ ∀ u, (x, u) ∉ l1) := by
  rw [← lookup_eq_some_iff (union_sorted l1 l2 s1 s2), lookup_union l1 l2 s1 s2]
  cases h1 : lookup l1 x with
  | none =>
    have n1 := (lookup_eq_none_iff l1 x).1 h1
    cases h2 : lookup l2 x with
    | none =>
      have n2 := (lookup_eq_none_iff l2 x).1 h2
      simp only [addOpt]
      constructor
      · intro h; cases h
      · rintro (⟨u, _, hu, _⟩ | ⟨hu, _⟩ | ⟨hv, _⟩)
        · exact absurd hu (n1 u)
        · exact absurd hu (n1 w)
        · exact absurd hv (n2 w)
    | some v =>
      have m2 := (lookup_eq_some_iff s2 x v).1 h2
      simp only [addOpt]
      constructor
      · intro h; cases h; exact .inr (.inr ⟨m2, n1⟩)
      · rintro (⟨u, _, hu, _⟩ | ⟨hu, _⟩ | ⟨hv, _⟩)
        · exact absurd hu (n1 u)
        · exact absurd hu (n1 w)
        · rw [← (lookup_eq_some_iff s2 x w).2 hv, h2]
  | some u =>
    have m1 := (lookup_eq_some_iff s1 x u).1 h1
    cases h2 : lookup l2 x with
    | none =>
      have n2 := (lookup_eq_none_iff l2 x).1 h2
      simp only [addOpt]
      constructor
      · intro h; cases h; exact .inr (.inl ⟨m1, n2⟩)
      · rintro (⟨_, v, _, hv, _⟩ | ⟨hu, _⟩ | ⟨hv, _⟩)
        · exact absurd hv (n2 v)
        · rw [← (lookup_eq_some_iff s1 x w).2 hu, h1]
        · exact absurd hv (n2 w)
    | some v =>
      have m2 := (lookup_eq_some_iff s2 x v).1 h2
      simp only [addOpt]
      constructor
      · intro h; cases h; exact .inl ⟨u, v, m1, m2, rfl⟩
      · rintro (⟨u', v', hu, hv, e⟩ | ⟨_, hn⟩ | ⟨_, hn⟩)
        · have e1 := (lookup_eq_some_iff s1 x u').2 hu
          have e2 := (lookup_eq_some_iff s2 x v').2 hv
          rw [h1] at e1; rw [h2] at e2
          cases e1; cases e2; rw [e]
        · exact absurd m2 (hn v)
        · exact absurd m1 (hn u)

/-- **the dense reading of `union`**: at every coordinate, the sum of the dense readings of the operands,
provided `0` is neutral for `+` on both sides (`0 + v = v`, `u + 0 = u`: true of the exact carrier) -/
theorem vecAt_union (l1 l2 : List (Int × F)) (s1 : Sorted l1) (s2 : Sorted l2)
    (hz1 : ∀ v : F, FloatOps.add FloatOps.zero v = v) (hz2 : ∀ u : F, FloatOps.add u FloatOps.zero = u)
    (x : Int) : vecAt (union l1 l2) x = FloatOps.add (vecAt l1 x) (vecAt l2 x) := by
  rw [vecAt_eq_lookup, vecAt_eq_lookup, vecAt_eq_lookup, lookup_union l1 l2 s1 s2]
  cases lookup l1 x <;> cases lookup l2 x <;> simp [addOpt, hz1, hz2]

/-! ### one step of the merge on the stored vectors -/

/-- **one step of the two-finger union on the stored vectors**, in terms of the cursor positions -/
theorem union_drop_step {mb mc : Nat} (crdB crdC : Nat → Int) (cellsB cellsC : Nat → F) {p q : Nat}
    (hp : p < mb) (hq : q < mc) :
    union ((assoc mb crdB cellsB).drop p) ((assoc mc crdC cellsC).drop q) =
      if crdB p = crdC q then
        (crdB p, FloatOps.add (cellsB p) (cellsC q)) ::
          union ((assoc mb crdB cellsB).drop (p + 1)) ((assoc mc crdC cellsC).drop (q + 1))
      else if crdB p < crdC q then
        (crdB p, cellsB p) :: union ((assoc mb crdB cellsB).drop (p + 1)) ((assoc mc crdC cellsC).drop q)
      else (crdC q, cellsC q) :: union ((assoc mb crdB cellsB).drop p) ((assoc mc crdC cellsC).drop (q + 1)) := by
  rw [assoc_drop_lt crdB cellsB hp, assoc_drop_lt crdC cellsC hq, union_cons_cons,
    ← assoc_drop_lt crdB cellsB hp, ← assoc_drop_lt crdC cellsC hq]

end TV.Spadd
