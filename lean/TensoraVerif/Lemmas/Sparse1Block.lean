import TensoraVerif.Lemmas.Sparse1Loop
import TensoraVerif.Lemmas.Sparse1Prologue

/-!
C01 for sparse vector copy/scale kernels, part 10: the iteration block on the machine — `writeSparseInit`
(C05 M4), the merge loop (`loop_runs`), `pos assembly` (C05 G3) — from the state at its entry (`Entry`) to
the state before the cleanup (`AfterLoop`).
-/
namespace TV.Sparse1
open TV.IR TV.Gen TV.Graph TV.Growth TV.Merge TV.Dense1
set_option linter.unusedSectionVars false
variable {F : Type} [FloatOps F]

/-- the value `b` stores at coordinate `x` (zero if none): the first position `q < m` with `crdB q = x` -/
def bAtOf (m : Nat) (crdB : Nat → Int) (cellsB : Nat → F) (x : Int) : F :=
  match (List.range m).find? (fun q => crdB q == x) with
  | some q => cellsB q
  | none => FloatOps.zero

theorem bAtOf_crd {m : Nat} {crdB : Nat → Int} (cellsB : Nat → F)
    (hs : ∀ j k, j < k → k < m → crdB j < crdB k) (q : Nat) (hq : q < m) :
    bAtOf m crdB cellsB (crdB q) = cellsB q := by
  unfold bAtOf
  cases h : (List.range m).find? (fun q' => crdB q' == crdB q) with
  | none =>
    have := List.find?_eq_none.1 h q (List.mem_range.2 hq)
    simp at this
  | some q' =>
    have h1 : crdB q' = crdB q := by simpa using List.find?_some h
    have h2 : q' < m := List.mem_range.1 (List.mem_of_find?_eq_some h)
    have : q' = q := by
      rcases Nat.lt_trichotomy q' q with h3 | h3 | h3
      · have := hs q' q h3 hq; omega
      · exact h3
      · have := hs q q' h3 h2; omega
    rw [this]

/-- **The state before the cleanup**, relative to the initial state `σ0` of the kernel call: tensor records
and every block of the initial heap unchanged; the output's `pos` array is the fresh block
`|σ0.heap|` = `[0, m]`; the `crd` / `vals` variables point to live output blocks (fresh, different) of at
least `m` cells holding the `m` coordinates of `b` / the `m` values; the output cursor is `m`. -/
structure AfterLoop (ofRat : Rat → F) (outT : TensorId) (e : IdExpr) (ta m : Nat) (crdB : Nat → Int)
    (cellsB : Nat → F) (σ0 σF : State F) : Prop where
  tensors : σF.tensors = σ0.tensors
  old : ∀ k, k < σ0.heap.length → σF.heap[k]? = σ0.heap[k]?
  pos : σF.heap[σ0.heap.length]? = some ⟨.int, [some (.int 0), some (.int m)], .output, true⟩
  apos : PtrVar σF (posName outT.name 0) σ0.heap.length
  avar : TensorVar σF outT.name ta
  ptr : IntVar σF (layerPointer outT.id 0) m
  arrs : ∃ cb vb cblk vblk, PtrVar σF (crdName outT.name 0) cb ∧ PtrVar σF (valsName outT.name) vb ∧
    σ0.heap.length < cb ∧ σ0.heap.length < vb ∧ cb ≠ vb ∧
    σF.heap[cb]? = some cblk ∧ cblk.live = true ∧ cblk.owner = .output ∧ cblk.ty = .int ∧
    m ≤ cblk.cells.length ∧ (∀ j, j < m → cblk.cells[j]? = some (some (.int (crdB j)))) ∧
    σF.heap[vb]? = some vblk ∧ vblk.live = true ∧ vblk.owner = .output ∧ vblk.ty = .float ∧
    m ≤ vblk.cells.length ∧
    (∀ j, j < m → vblk.cells[j]? = some (some (.flt (ToIr.valueF ofRat (fun _ => cellsB j) e))))

theorem noLoop_writePosAssembly (l : Leaf) : noLoop (writePosAssembly (F := F) l).finalize = true := rfl

set_option maxHeartbeats 1000000 in
/-- **the iteration block** -/
theorem iterBlock_runs {ofRat : Rat → F} {i : String} {outT bT : TensorId} {e : IdExpr}
    (N : KNames i outT bT) (ho : isSp i outT = true) (he : isExpr i bT e = true)
    {k : Int} (hk0 : 1 ≤ k) (hk1 : k < 2147483648)
    {ta tb : Nat} {atr btr : TensorRec F} {n : Int} {m bpb bcb bvb : Nat} {crdB : Nat → Int}
    {cellsB : Nat → F} {σ0 σC : State F}
    (init : Init outT bT ta tb atr btr n m bpb bcb bvb crdB cellsB σ0)
    (entry : Entry i outT bT k bpb bcb bvb σ0 σC)
    (hm : m ≤ 1073741824)
    (hsorted : ∀ j k, j < k → k < m → crdB j < crdB k)
    (hrng : ∀ j, j < m → -2147483648 ≤ crdB j ∧ crdB j < 2147483648)
    (hfin : ∀ q, q < m → ToIr.AllFinite ofRat (fun _ => cellsB q) e)
    (fuel : Nat) (hfuel : m + 1 ≤ fuel) :
    ∃ σF, RunsLI fuel (loopLines ofRat i outT bT e) σC σF m ∧
      AfterLoop ofRat outT e ta m crdB cellsB σ0 σF := by
  obtain ⟨ho1, ho2⟩ := (isSp_iff i outT).1 ho
  have hfresh : ∀ x, nameClass x ≠ 0 → x ∉ proW i outT bT → lookupVar σC.vars x = none := by
    intro x hx hw
    rw [entry.frame x hw]
    refine init.fresh x ?_ ?_
    · intro h; rw [h, N.a0] at hx; exact hx rfl
    · intro h; rw [h, N.b0] at hx; exact hx rfl
  have hnotW : ∀ x, (∀ y ∈ proW i outT bT, x ≠ y) → x ∉ proW i outT bT := fun x h hm => h x hm rfl
  obtain ⟨pblk, hpb, hplive, hpty, hpc0, hpc1⟩ := init.bpos
  obtain ⟨cblk0, hcb, hclive, hcty, hclen, hccells⟩ := init.bcrd
  obtain ⟨vblk0, hvb, hvlive, hvty, hvcells⟩ := init.bval
  have hbpbl : bpb < σ0.heap.length := lt_length_of_getElem? hpb
  have hbcbl : bcb < σ0.heap.length := lt_length_of_getElem? hcb
  have hbvbl : bvb < σ0.heap.length := lt_length_of_getElem? hvb
  have hCold : ∀ j, j < σ0.heap.length → σC.heap[j]? = σ0.heap[j]? := by
    intro j hj; rw [entry.heap, List.getElem?_append_left hj]
  -- D: sparse init
  let c : Cur := ⟨inLeaf bT, bcb, crdB, 0, m⟩
  have hcn := cur_names (c := c) (bT := bT) rfl
  obtain ⟨n1, n2, n3, n4⟩ := hcn
  have hWp : layerPointer bT.id 0 ∉ proW i outT bT := by
    simp only [proW, List.mem_cons, List.not_mem_nil, or_false, not_or]; and_intros <;> nm N
  have hWe : sparseEndName bT.id 0 ∉ proW i outT bT := by
    simp only [proW, List.mem_cons, List.not_mem_nil, or_false, not_or]; and_intros <;> nm N
  have hWv : valueFromCrd bT.id 0 ∉ proW i outT bT := by
    simp only [proW, List.mem_cons, List.not_mem_nil, or_false, not_or]; and_intros <;> nm N
  have hWw : writtenName outT.name 0 ∉ proW i outT bT := by
    simp only [proW, List.mem_cons, List.not_mem_nil, or_false, not_or]; and_intros <;> nm N
  have hWi : i ∉ proW i outT bT := by
    simp only [proW, List.mem_cons, List.not_mem_nil, or_false, not_or]; and_intros <;> nm N
  obtain ⟨oD, eD, rD, itD, curD, frD, hhD, htD⟩ := writeSparseInit_safe c fuel σC bpb 0
    ⟨entry.bpos, by simp [PrevIs, c, inLeaf], by omega, by omega,
      ⟨pblk, by rw [hCold _ hbpbl]; exact hpb, hplive, hpty, by simpa [c] using hpc0, by simpa [c] using hpc1⟩⟩
    (by rw [n3]; exact entry.bcrd) (Nat.zero_le _) (by show (m : Int) < 2147483648; omega)
    ⟨cblk0, by rw [hCold _ hbcbl]; exact hcb, hclive, hcty, hclen, fun j _ hj => hccells j hj⟩
    (fun j _ hj => hrng j hj)
    (by rw [n1]; intro r hr; rw [hfresh _ (by simp [nc_ptr]) hWp] at hr; cases hr)
    (by rw [n2]; intro r hr; rw [hfresh _ (by simp [nc_end]) hWe] at hr; cases hr)
  rw [n1, n2] at frD
  have runD : RunsLI fuel (writeSparseInit (inLeaf bT)).lines σC oD.st 0 := by
    refine ⟨oD, ?_, rD, rfl, itD⟩
    have : (writeSparseInit (F := F) c.leaf).finalize = .block (writeSparseInit (inLeaf bT)).lines none := rfl
    rw [this, exec.eq_5] at eD
    exact eD
  generalize oD.st = σD at *
  have hDold : ∀ j, j < σ0.heap.length → σD.heap[j]? = σ0.heap[j]? := by
    intro j hj; rw [hhD]; exact hCold j hj
  -- E: the loop
  have hlenD : σD.heap.length = σ0.heap.length + 3 := by rw [hhD, entry.heap]; simp
  have pre : LoopPre ofRat bT e m bvb cellsB crdB (bAtOf m crdB cellsB) (σ0.heap.length + 1)
      (σ0.heap.length + 2) σD :=
    { bvals := entry.bvals.congr (frD _ (by nm N) (by nm N))
      bblk := ⟨vblk0, by rw [hDold _ hbvbl]; exact hvb, hvlive, hvty, hvcells⟩
      bne := ⟨by omega, by omega⟩
      cvne := by omega
      fin := hfin
      bAt := bAtOf_crd cellsB hsorted
      small := hm }
  have hkk : ((List.replicate k.toNat (none : Option (Val F))).length : Int) = k := by
    simp; omega
  have hcD : σD.heap[σ0.heap.length + 1]? =
      some (⟨.int, List.replicate k.toNat none, .output, true⟩ : Block F) := by
    rw [hhD, entry.heap]; simp
  have hvD : σD.heap[σ0.heap.length + 2]? =
      some (⟨.float, List.replicate k.toNat none, .output, true⟩ : Block F) := by
    rw [hhD, entry.heap]; simp
  have hP : P ofRat i outT bT e (bAtOf m crdB cellsB) (σ0.heap.length + 1) (σ0.heap.length + 2) σD [] σD := by
    refine ⟨σ0.heap.length + 1, k, σ0.heap.length + 2, k, ?_⟩
    refine
      { tensors := rfl, len := Nat.le_refl _, old := fun _ _ _ _ h => h, vars := fun _ _ => rfl,
        crd := ⟨entry.acrd.congr (frD _ (by nm N) (by nm N)), entry.acrdCap.congr (frD _ (by nm N) (by nm N)),
          ⟨_, hcD, rfl, rfl, rfl, hkk⟩, hk0, hk1⟩,
        vals := ⟨entry.avals.congr (frD _ (by nm N) (by nm N)),
          entry.avalsCap.congr (frD _ (by nm N) (by nm N)),
          ⟨_, hvD, rfl, rfl, rfl, hkk⟩, hk0, hk1⟩,
        hcb := .inl rfl, hvb := .inl rfl, hne := by omega,
        ptr := entry.ptr.congr (frD _ (by nm N) (by nm N)),
        lec := by simp; omega, lev := by simp; omega,
        crdCells := ⟨_, hcD, fun j h => absurd h (by simp)⟩,
        valsCells := ⟨_, hvD, fun j h => absurd h (by simp)⟩,
        flag := ?_ }
    intro r hr
    rw [frD _ (by nm N) (by nm N), hfresh _ (by simp [nc_wr]) hWw] at hr
    cases hr
  have hM : MergeInv σD [c] i := by
    refine ⟨fun d hd => ?_, fun d hd => ?_, ?_⟩
    · simp only [List.mem_cons, List.not_mem_nil, or_false] at hd; subst hd; exact curD
    · simp only [List.mem_cons, List.not_mem_nil, or_false] at hd; subst hd
      rw [n4]
      intro r hr
      rw [frD _ (by nm N) (by nm N), hfresh _ (by simp [nc_val]) hWv] at hr
      cases hr
    · intro r hr
      rw [frD _ (by nm N) (by nm N), entry.frame _ hWi, init.fresh _ N.ia N.ib] at hr
      cases hr
  obtain ⟨oE, eE, rE, itE, invE, ⟨cb, cc, vb, vc, hinv⟩⟩ := loop_runs N ho he pre bcb
    ⟨by omega, by omega, by omega⟩ fuel σD hfuel hM hP
  have runE : RunsI fuel (mergeLoopL [inLeaf bT] i [midStmt ofRat i outT bT e]) σD oE.st m :=
    ⟨oE, eE, rE, rfl, itE⟩
  generalize oE.st = σE at *
  have hlenm : ((List.map crdB (List.range m)).length : Int) = m := by simp
  -- facts in σE
  have hposE : σE.heap[σ0.heap.length]? = some ⟨.int, [some (.int 0), none], .output, true⟩ :=
    hinv.old _ _ (by omega) (by omega) (by rw [hhD, entry.heap]; simp)
  have hnt : ∀ y, (∀ z ∈ touched i outT bT, y ≠ z) → y ∉ touched i outT bT := fun y h hm => h y hm rfl
  have hTa : outT.name ∉ touched i outT bT := by
    simp only [touched, midW, List.mem_cons, List.mem_append, List.not_mem_nil, or_false, not_or]
    and_intros <;> nm N
  have hTp : posName outT.name 0 ∉ touched i outT bT := by
    simp only [touched, midW, List.mem_cons, List.mem_append, List.not_mem_nil, or_false, not_or]
    and_intros <;> nm N
  have hTc : posCapName outT.name 0 ∉ touched i outT bT := by
    simp only [touched, midW, List.mem_cons, List.mem_append, List.not_mem_nil, or_false, not_or]
    and_intros <;> nm N
  have haposE : PtrVar σE (posName outT.name 0) σ0.heap.length :=
    entry.apos.congr (by rw [hinv.vars _ hTp, frD _ (by nm N) (by nm N)])
  have hacapE : IntVar σE (posCapName outT.name 0) 2 :=
    entry.aposCap.congr (by rw [hinv.vars _ hTc, frD _ (by nm N) (by nm N)])
  have hWa : outT.name ∉ proW i outT bT := by
    simp only [proW, List.mem_cons, List.not_mem_nil, or_false, not_or]; and_intros <;> nm N
  have havarE : TensorVar σE outT.name ta :=
    init.avar.congr (by rw [hinv.vars _ hTa, frD _ (by nm N) (by nm N), entry.frame _ hWa])
  have hptrE : IntVar σE (layerPointer outT.id 0) m := by
    have := hinv.ptr; rw [hlenm] at this; exact this
  -- F: pos assembly
  obtain ⟨oF, eF, rF, sF, _⟩ := writePosAssembly_safe (outLeaf outT) fuel σE σ0.heap.length 2 m 0
    ⟨.int, [some (.int 0), none], .output, true⟩
    ⟨haposE, hacapE, ⟨_, hposE, rfl, rfl, rfl, rfl⟩, by omega, by omega⟩ hposE
    (by simp [PrevIs, outLeaf]) (by omega) (by omega) hptrE (by omega) (by omega)
  have runF : RunsI fuel (writePosAssembly (outLeaf outT)).finalize σE oF.st 0 :=
    ⟨oF, eF, rF, rfl, exec_noLoop_iters fuel _ σE (noLoop_writePosAssembly _) oF eF⟩
  generalize oF.st = σF at *
  have hlE : σ0.heap.length < σE.heap.length := by have := hinv.len; omega
  refine ⟨σF, ?_, ?_⟩
  · have := RunsLI.append runD (RunsLI.cons runE (RunsLI.cons runF (RunsLI.nil _ _)))
    simpa [loopLines] using this
  · obtain ⟨cblk, hcblk, hclive', hcown', hcty', hclen'⟩ := hinv.crd.blk
    obtain ⟨vblk, hvblk, hvlive', hvown', hvty', hvlen'⟩ := hinv.vals.blk
    obtain ⟨cblk', hcblk', hccells'⟩ := hinv.crdCells
    obtain ⟨vblk', hvblk', hvcells'⟩ := hinv.valsCells
    rw [hcblk] at hcblk'; cases hcblk'
    rw [hvblk] at hvblk'; cases hvblk'
    have hcbH : σ0.heap.length < cb := by rcases hinv.hcb with h | h <;> omega
    have hvbH : σ0.heap.length < vb := by rcases hinv.hvb with h | h <;> omega
    have hlec := hinv.lec
    have hlev := hinv.lev
    rw [hlenm] at hlec hlev
    subst sF
    refine
      { tensors := by show σE.tensors = _; rw [hinv.tensors, htD, entry.tensors],
        old := ?_, pos := ?_, apos := haposE, avar := havarE, ptr := hptrE, arrs := ?_ }
    · intro j hj
      show (σE.heap.set _ _)[j]? = _
      rw [List.getElem?_set_ne (by omega)]
      cases hj' : σ0.heap[j]? with
      | none => rw [List.getElem?_eq_none_iff] at hj'; omega
      | some blk =>
        rw [← hj', hj']
        exact hinv.old j blk (by omega) (by omega) (by rw [hDold j hj]; exact hj')
    · show (σE.heap.set _ _)[_]? = _
      rw [List.getElem?_set_self hlE]
      rfl
    · refine ⟨cb, vb, cblk, vblk, hinv.crd.arr, hinv.vals.arr, hcbH, hvbH, hinv.hne, ?_, hclive', hcown', hcty',
        by omega, ?_, ?_, hvlive', hvown', hvty', by omega, ?_⟩
      · show (σE.heap.set _ _)[cb]? = _
        rw [List.getElem?_set_ne (by omega)]; exact hcblk
      · intro j hj
        have := hccells' j (by simpa using hj)
        simpa using this
      · show (σE.heap.set _ _)[vb]? = _
        rw [List.getElem?_set_ne (by omega)]; exact hvblk
      · intro j hj
        have := hvcells' j (by simpa using hj)
        simp only [List.getElem_map, List.getElem_range] at this
        rw [this, bAtOf_crd cellsB hsorted j hj]

end TV.Sparse1
