import TensoraVerif.Lemmas.Sparse1Kernel
import TensoraVerif.Model.Storage

/-!
C01 for sparse vector copy/scale kernels, part 12: the result as a stored tensor — the structure a
compressed vector with `pos = [0, m]` and strictly increasing in-range coordinates decodes to is well-formed
(`Storage.wfCheck`).
-/
namespace TV.Sparse1
open TV.IR TV.Gen TV.Graph TV.Growth TV.Merge TV.Dense1
set_option linter.unusedSectionVars false
variable {F : Type} [FloatOps F]

/-- the level-format structure of a compressed vector of dimension `d` with coordinates `crd` and values `vs` -/
def storedVec (d : Nat) (crd : List Int) (vs : List Int) : Storage.Stored :=
  ⟨[d], [0], [⟨.compressed, [0, Int.ofNat crd.length], crd⟩], vs⟩

theorem strictlyIncreasing_of_pairwise : ∀ (l : List Int), l.Pairwise (· < ·) →
    Storage.strictlyIncreasing l = true
  | [], _ => rfl
  | [_], _ => rfl
  | a :: b :: rest, h => by
    rw [List.pairwise_cons] at h
    simp only [Storage.strictlyIncreasing, Bool.and_eq_true, decide_eq_true_eq]
    exact ⟨h.1 b List.mem_cons_self, strictlyIncreasing_of_pairwise (b :: rest) h.2⟩

/-- **well-formedness of the result**: strictly increasing coordinates within the dimension, `pos = [0, m]`,
one value per coordinate: `wfCheck` accepts -/
theorem wfCheck_storedVec (d : Nat) (crd : List Int) (vs : List Int) (hs : crd.Pairwise (· < ·))
    (hr : ∀ c ∈ crd, 0 ≤ c ∧ c < d) (hv : vs.length = crd.length) :
    Storage.wfCheck (storedVec d crd vs) = true := by
  have h1 : Storage.strictlyIncreasing crd = true := strictlyIncreasing_of_pairwise crd hs
  have h3 : Storage.segmentsSorted [0, (crd.length : Int)] crd = true := by
    simp [Storage.segmentsSorted, List.range, List.range.loop, h1]
  have h4 : Storage.monotone [0, (crd.length : Int)] = true := by
    simp [Storage.monotone]
  simp [Storage.wfCheck, storedVec, Storage.validOrdering, Storage.wfLevels, Storage.Stored.levelDims, hv,
    List.range, List.range.loop]
  rw [if_pos ⟨h4, h3, hr⟩]
  simp

theorem pairwise_map_range (m : Nat) (crdB : Nat → Int) (hsorted : ∀ j k, j < k → k < m → crdB j < crdB k) :
    ((List.range m).map crdB).Pairwise (· < ·) := by
  rw [List.pairwise_map]
  refine List.Pairwise.imp_of_mem ?_ List.pairwise_lt_range
  intro a b _ hb hab
  exact hsorted a b hab (List.mem_range.1 hb)

end TV.Sparse1
