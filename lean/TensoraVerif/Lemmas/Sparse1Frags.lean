import TensoraVerif.Lemmas.Sparse1Generate
import TensoraVerif.Lemmas.Sparse1Names
import TensoraVerif.Lemmas.Dense1Frags
import TensoraVerif.Lemmas.CleanupRun

/-!
C01 for sparse vector copy/scale kernels, part 8: prologue fragments on the machine — declaration of a
fresh variable, `t->indices[0][j]`, the default array size, "Unpack tensors" for one compressed vector.
-/
namespace TV.Sparse1
open TV.IR TV.Gen TV.Graph TV.Growth TV.Dense1
set_option linter.unusedSectionVars false
variable {F : Type} [FloatOps F]

/-- `T x = e;` for a variable not yet declared -/
theorem declFresh {fuel : Nat} {x : String} {t : Ty} {e : Expr F} {σ : State F} {val val' : Val F}
    (hx : lookupVar σ.vars x = none) (he : evalE σ e = .ok val) (hconv : convTo t val = .ok val') :
    ∃ σ', RunsI fuel (.declAssign x t e) σ σ' 0 ∧ σ'.heap = σ.heap ∧ σ'.tensors = σ.tensors ∧
      (∃ r, lookupVar σ'.vars x = some r ∧ r.ty = t ∧ r.val = some val') ∧
      ∀ y, y ≠ x → lookupVar σ'.vars y = lookupVar σ.vars y :=
  runsI_declAssign (by rw [hx]; intro r h; cases h) he hconv

/-- the value of `default_array_size` -/
def capVal : Option Int → Int
  | some k => k
  | none => 1048576

theorem evalE_default {σ : State F} (cap : Option Int) (h0 : -2147483648 ≤ capVal cap)
    (h1 : capVal cap < 2147483648) : evalE σ (defaultArraySize cap) = .ok (.int (capVal cap)) := by
  cases cap with
  | some k => exact evalE_intLit h0 h1
  | none =>
    exact evalE_mul (evalE_intLit (by omega) (by omega)) (evalE_intLit (by omega) (by omega)) (by omega)
      (by omega)

/-- `t->indices[0][j]` -/
theorem evalE_slot {σ : State F} {x : String} {k : Nat} {tr : TensorRec F} {p c : Val F} {j : Int}
    (hx : TensorVar σ x k) (htr : σ.tensors[k]? = some tr) (hord : 0 < tr.order)
    (hs : tr.slots[0]? = some (some (p, c))) (hp : isPtrVal p = true) (hc : isPtrVal c = true)
    (hj : j = 0 ∨ j = 1) :
    evalE σ (.idx (.idx (.attr (.var x) "indices") (.intLit 0)) (.intLit j)) =
      .ok (if j = 0 then p else c) := by
  have elv : evalE σ (.idx (.attr (.var x) "indices") (.intLit ((0 : Nat) : Int))) = .ok (.level k 0) :=
    Cleanup.evalE_level hx htr hord (by omega)
  have ej : evalE σ (.intLit j) = .ok (.int j) := evalE_intLit (by omega) (by omega)
  rw [evalE.eq_3]
  have elv' : evalE σ (.idx (.attr (.var x) "indices") (.intLit 0)) = .ok (.level k 0) := elv
  rcases hj with rfl | rfl <;> simp [elv', ej, bind, Except.bind, htr, hs, hp, hc]

theorem pos_ne_crd (x y : String) : posName x 0 ≠ crdName y 0 :=
  ne_of_nameClass (by simp [nc_pos, nc_crd])
theorem pos_ne_vals (x y : String) : posName x 0 ≠ valsName y :=
  ne_of_nameClass (by simp [nc_pos, nc_vals])
theorem crd_ne_vals (x y : String) : crdName x 0 ≠ valsName y :=
  ne_of_nameClass (by simp [nc_crd, nc_vals])

/-- "Unpack tensors" for one compressed vector `x`: the three declarations run and bind the new variables to
the slot contents and the `vals` pointer of the tensor record -/
theorem unpack1_runs {fuel : Nat} {σ : State F} {x : String} {k : Nat} {tr : TensorRec F} {p c : Val F}
    (hxu : '_' ∉ x.toList)
    (hx : TensorVar σ x k) (htr : σ.tensors[k]? = some tr) (hord : 0 < tr.order)
    (hs : tr.slots[0]? = some (some (p, c))) (hp : isPtrVal p = true) (hc : isPtrVal c = true)
    (hv : isPtrVal tr.vals = true)
    (f1 : lookupVar σ.vars (posName x 0) = none) (f2 : lookupVar σ.vars (crdName x 0) = none)
    (f3 : lookupVar σ.vars (valsName x) = none) :
    ∃ σ', RunsLI fuel (unpackStmts x) σ σ' 0 ∧ σ'.heap = σ.heap ∧ σ'.tensors = σ.tensors ∧
      (∃ r, lookupVar σ'.vars (posName x 0) = some r ∧ r.ty = .ptr .int ∧ r.val = some p) ∧
      (∃ r, lookupVar σ'.vars (crdName x 0) = some r ∧ r.ty = .ptr .int ∧ r.val = some c) ∧
      (∃ r, lookupVar σ'.vars (valsName x) = some r ∧ r.ty = .ptr .float ∧ r.val = some tr.vals) ∧
      ∀ y, y ≠ posName x 0 → y ≠ crdName x 0 → y ≠ valsName x →
        lookupVar σ'.vars y = lookupVar σ.vars y := by
  have hx0 : nameClass x = 0 := nc_plain hxu
  have n1 : x ≠ posName x 0 := ne_of_nameClass (by simp [hx0, nc_pos])
  have n2 : x ≠ crdName x 0 := ne_of_nameClass (by simp [hx0, nc_crd])
  obtain ⟨σ1, r1, hh1, ht1, v1, o1⟩ := declFresh (fuel := fuel) (t := .ptr .int) f1
    (evalE_slot (j := 0) hx htr hord hs hp hc (.inl rfl)) (convTo_ptr_of_isPtrVal .int hp)
  have hx1 : TensorVar σ1 x k := hx.congr (o1 _ n1)
  obtain ⟨σ2, r2, hh2, ht2, v2, o2⟩ := declFresh (fuel := fuel) (t := .ptr .int)
    (x := crdName x 0) (by rw [o1 _ (pos_ne_crd x x).symm]; exact f2)
    (evalE_slot (j := 1) hx1 (by rw [ht1]; exact htr) hord hs hp hc (.inr rfl))
    (convTo_ptr_of_isPtrVal .int hc)
  have hx2 : TensorVar σ2 x k := hx1.congr (o2 _ n2)
  obtain ⟨σ3, r3, hh3, ht3, v3, o3⟩ := declFresh (fuel := fuel) (t := .ptr .float)
    (x := valsName x) (by rw [o2 _ (crd_ne_vals x x).symm, o1 _ (pos_ne_vals x x).symm]; exact f3)
    (evalE_vals hx2 (by rw [ht2, ht1]; exact htr) hv) (convTo_ptr_of_isPtrVal .float hv)
  refine ⟨σ3, RunsLI.cons r1 (RunsLI.cons r2 (RunsLI.cons r3 (RunsLI.nil _ _))),
    by rw [hh3, hh2, hh1], by rw [ht3, ht2, ht1], ?_, ?_, v3, ?_⟩
  · obtain ⟨r, e1, e2, e3⟩ := v1
    exact ⟨r, by rw [o3 _ (pos_ne_vals x x), o2 _ (pos_ne_crd x x)]; exact e1, e2, by simpa using e3⟩
  · obtain ⟨r, e1, e2, e3⟩ := v2
    exact ⟨r, by rw [o3 _ (crd_ne_vals x x)]; exact e1, e2, by simpa using e3⟩
  · intro y y1 y2 y3
    rw [o3 y y3, o2 y y2, o1 y y1]

end TV.Sparse1
