import TensoraVerif.Lemmas.Sparse1Lower
import TensoraVerif.Lemmas.LoweringGenerate
import TensoraVerif.Lemmas.Dense1Dims

/-!
C01 for sparse vector copy/scale kernels, part 3: what `generateIr` produces on the class — the whole
`evaluate` function, written out (`kernel`, `generateIr_eq`).
-/
namespace TV.Sparse1
open TV.IR TV.Gen TV.Graph TV.Merge
set_option linter.unusedSectionVars false
variable {F : Type} [FloatOps F]

/-- all tensors of the format table are compressed vectors -/
def sparseFormats (formats : Formats) : Bool := formats.all fun f => f.2.1 == [Mode.compressed]

/-- `int* t_0_pos = t->indices[0][0]; int* t_0_crd = t->indices[0][1]; double* t_vals = t->vals;` -/
def unpackStmts (name : String) : List (Stmt F) :=
  [declAssignE (posName name 0) (.ptr .int) (.idx (.idx (.attr (.var name) "indices") (.intLit 0)) (.intLit 0)),
   declAssignE (crdName name 0) (.ptr .int) (.idx (.idx (.attr (.var name) "indices") (.intLit 0)) (.intLit 1)),
   declAssignE (valsName name) (.ptr .float) (.attr (.var name) "vals")]

theorem unpackDecls_eq (formats : Formats) (h : sparseFormats formats = true) :
    (unpackDecls formats : List (Stmt F)) = formats.flatMap fun f => unpackStmts f.1 := by
  induction formats with
  | nil => rfl
  | cons f fs ih =>
    obtain ⟨name, modes, ord⟩ := f
    simp only [sparseFormats, List.all_cons, Bool.and_eq_true, beq_iff_eq] at h
    have hm : modes = [Mode.compressed] := h.1
    have := ih (by simpa [sparseFormats] using h.2)
    simp only [unpackDecls] at this ⊢
    rw [List.flatMap_cons, this]
    simp [hm, List.range, List.range.loop, unpackStmts]

/-- the "Output initialization" block of a compressed vector -/
def outInit (cap : Option Int) (outT : TensorId) : List (Stmt F) :=
  [declAssignE (posCapName outT.name 0) .int (plus (.intLit 1) (.intLit 1)),
   .assign (.var (posName outT.name 0)) (.alloc .int (.var (posCapName outT.name 0))),
   .assign (.idx (.var (posName outT.name 0)) (.intLit 0)) (.intLit 0),
   declAssignE (crdCapName outT.name 0) .int (defaultArraySize cap),
   .assign (.var (crdName outT.name 0)) (.alloc .int (.var (crdCapName outT.name 0))),
   declAssignE (layerPointer outT.id 0) .int (.intLit 0),
   declAssignE (valsCapName outT.name) .int (defaultArraySize cap),
   .assign (.var (valsName outT.name)) (.alloc .float (.var (valsCapName outT.name)))]

theorem appendDeclarations_eq1 (cap : Option Int) (outT : TensorId) (hm : outT.modes = [.compressed]) :
    (appendDeclarations cap outT .evaluate : SB F) = ⟨some "Output initialization", outInit cap outT⟩ := by
  simp [appendDeclarations, hm, List.range, List.range.loop, Kind.isAssemble, SB.mk', SB.add,
    mulJoin, joinWith, outInit]

/-- the "Assembling output tensor" block of a compressed vector -/
def cleanupLines (outT : TensorId) : List (Stmt F) :=
  [.assign (.var (crdName outT.name 0)) (.realloc (.var (crdName outT.name 0)) .int (.var (layerPointer outT.id 0))),
   .assign (.idx (.idx (.attr (.var outT.name) "indices") (.intLit 0)) (.intLit 0)) (.var (posName outT.name 0)),
   .assign (.idx (.idx (.attr (.var outT.name) "indices") (.intLit 0)) (.intLit 1)) (.var (crdName outT.name 0)),
   .assign (.var (valsName outT.name))
     (.realloc (.var (valsName outT.name)) .float (plus (.var (layerPointer outT.id 0)) (.intLit 1))),
   .assign (.attr (.var outT.name) "vals") (.var (valsName outT.name))]

theorem appendCleanup_eq1 (outT : TensorId) (hm : outT.modes = [.compressed]) :
    (appendCleanup outT .evaluate : SB F) =
      ⟨some ("Assembling output tensor " ++ outT.name), cleanupLines outT⟩ := by
  simp [appendCleanup, hm, List.range, List.range.loop, Kind.isAssemble, SB.mk', SB.add, cleanupLines]

/-- the statements of the `evaluate` kernel of the class, before `return 0` -/
def kernelStmts (ofRat : Rat → F) (cap : Option Int) (formats : Formats) (i : String) (outT bT : TensorId)
    (e : IdExpr) : List (Stmt F) :=
  [.block [declAssignE (dimName i) .int (.idx (.attr (.var outT.name) "dimensions") (.intLit 0))]
      (some "Extract dimensions"),
   .block (formats.flatMap fun f => unpackStmts f.1) (some "Unpack tensors"),
   .block (outInit cap outT) (some "Output initialization"),
   .block (loopLines ofRat i outT bT e) (some ("*** Iteration over " ++ i ++ " ***")),
   .block (cleanupLines outT) (some ("Assembling output tensor " ++ outT.name))]

/-- the `evaluate` kernel of the class -/
def kernel (ofRat : Rat → F) (cap : Option Int) (formats : Formats) (i : String) (outT bT : TensorId)
    (e : IdExpr) : Func F :=
  ⟨"evaluate", formats.map fun f => (f.1, .ptr .tensor), .int,
    .block (kernelStmts ofRat cap formats i outT bT e ++ [.ret (.intLit 0)]) none⟩

/-- **What `generateIr` produces on the class.** -/
theorem generateIr_eq (ofRat : Rat → F) (cap : Option Int) (a : Alg.DAssign) (formats : Formats)
    (i : String) (outT bT : TensorId) (e : IdExpr)
    (hout : tensorId 0 a.tname formats a.tidx = some outT) (hname : outT.name = a.tname)
    (ho : isSp i outT = true) (he : isExpr i bT e = true) (hf : sparseFormats formats = true)
    (hd : indexDimensions a = [(i, a.tname, 0)]) :
    generateIr ofRat cap a formats (graph i outT e) .evaluate =
      .ok (kernel ofRat cap formats i outT bT e) := by
  have ho' := (isSp_iff i outT).1 ho
  have hsz : 4 * (graph i outT e).size + 8 = 14 + 2 := by simp [graph, IGraph.size]
  have hu := unpackDecls_eq (F := F) formats hf
  unfold unpackDecls at hu
  unfold generateIr
  simp only [hout, Option.getD_some, hsz, lower_eq ofRat 14 i outT bT e ho he, hd,
    appendDeclarations_eq1 cap outT ho'.2, appendCleanup_eq1 outT ho'.2, hu]
  simp [bind, Except.bind, pure, Except.pure, kernel, kernelStmts, SB.add, SB.append, SB.empty,
    SB.finalize, Kind.name, hname]

end TV.Sparse1
