import TensoraVerif.Lemmas.Sparse1Body
import TensoraVerif.Props.C05Merge

/-!
C01 for sparse vector copy/scale kernels, part 7: the whole loop, by `merge_loop_safe_ghost` (C05): the
statement between the `min` and the increments satisfies the frame condition `MidOK` with the ghost predicate
"the loop invariant `Inv` holds for the history" (`midOK`, from the body step `mid_step`), the predicate is
stable under the skeleton's own writes (`ghostStable`), hence the loop runs exactly `m` times and the
invariant holds for the history `crd[0], …, crd[m-1]` (`loop_runs`).
-/
namespace TV.Sparse1
open TV.IR TV.Gen TV.Graph TV.Growth TV.Merge
set_option linter.unusedSectionVars false
variable {F : Type} [FloatOps F]

theorem execL_noLoop_iters (fuel : Nat) (ss : List (Stmt F)) (σ : State F) (hn : noLoopL ss = true)
    (o : Out F) (h : execL fuel ss σ = .ok o) : o.iters = 0 :=
  exec_noLoop_iters fuel (.block ss none) σ (by simpa [noLoop] using hn) o (by rw [exec.eq_5]; exact h)

/-- the ghost predicate of the loop: the invariant holds for some blocks and capacities -/
def P (ofRat : Rat → F) (i : String) (outT bT : TensorId) (e : IdExpr) (bAt : Int → F)
    (cb0 vb0 : Nat) (σ0 : State F) (tr : List Int) (σ : State F) : Prop :=
  ∃ cb cc vb vc, Inv ofRat i outT bT e bAt cb0 vb0 σ0 cb cc vb vc tr σ

theorem reach_single {c0 : Cur} {cs : List Cur} (h : Reach [c0] cs) :
    ∃ c, cs = [c] ∧ c.leaf = c0.leaf ∧ c.blk = c0.blk ∧ c.crd = c0.crd ∧ c.e = c0.e ∧ c0.p ≤ c.p := by
  match cs, h with
  | [c], h => exact ⟨c, rfl, h.1⟩
  | _ :: _ :: _, h => exact absurd h.2 (by simp [Reach])

section
variable {ofRat : Rat → F} {i : String} {outT bT : TensorId} {e : IdExpr} {m bvb : Nat}
  {cellsB : Nat → F} {crdB : Nat → Int} {bAt : Int → F} {cb0 vb0 : Nat} {σ0 : State F}

theorem cur_names {c : Cur} (hc : c.leaf = inLeaf bT) :
    c.ptrN = layerPointer bT.id 0 ∧ c.endN = sparseEndName bT.id 0 ∧ c.crdN = crdName bT.name 0 ∧
    c.valN = valueFromCrd bT.id 0 := by
  simp [Cur.ptrN, Cur.endN, Cur.crdN, Cur.valN, hc, inLeaf, Leaf.ptr]

/-- the ghost predicate does not look at the variables the skeleton writes -/
theorem ghostStable (N : KNames i outT bT) {c0 : Cur} (hc0 : c0.leaf = inLeaf bT) :
    GhostStable (P ofRat i outT bT e bAt cb0 vb0 σ0) [c0] i := by
  obtain ⟨n1, n2, n3, n4⟩ := cur_names hc0
  intro tr σ σ' ⟨cb, cc, vb, vc, h⟩ hh ht hv
  have hv' : ∀ y, y ≠ i → y ≠ layerPointer bT.id 0 → y ≠ valueFromCrd bT.id 0 →
      lookupVar σ'.vars y = lookupVar σ.vars y := by
    intro y h1 h2 h3
    apply hv
    simp only [writtenNames, List.map_cons, List.map_nil, List.mem_cons, List.mem_append, List.not_mem_nil,
      or_false, n1, n4, not_or]
    exact ⟨h1, h2, h3⟩
  refine ⟨cb, cc, vb, vc, ?_⟩
  refine
    { tensors := by rw [ht]; exact h.tensors, len := by rw [hh]; exact h.len,
      old := by rw [hh]; exact h.old, vars := ?_, crd := ?_, vals := ?_,
      hcb := h.hcb, hvb := h.hvb, hne := h.hne, ptr := ?_, lec := h.lec, lev := h.lev,
      crdCells := by rw [hh]; exact h.crdCells, valsCells := by rw [hh]; exact h.valsCells, flag := ?_ }
  · intro y hy
    have hy' := hy
    simp only [touched, midW, List.mem_cons, List.mem_append, List.not_mem_nil, or_false, not_or] at hy'
    rw [hv' y hy'.2.1 hy'.2.2.1 hy'.2.2.2, h.vars y hy]
  · exact h.crd.congr hh (hv' _ (by nm N) (by nm N) (by nm N)) (hv' _ (by nm N) (by nm N) (by nm N))
  · exact h.vals.congr hh (hv' _ (by nm N) (by nm N) (by nm N)) (hv' _ (by nm N) (by nm N) (by nm N))
  · exact h.ptr.congr (hv' _ (by nm N) (by nm N) (by nm N))
  · rw [hv' _ (by nm N) (by nm N) (by nm N)]; exact h.flag

/-- **the frame condition of C05's merge loop holds for the statement between `min` and the increments** -/
theorem midOK (N : KNames i outT bT) (ho : isSp i outT = true) (he : isExpr i bT e = true)
    (pre : LoopPre ofRat bT e m bvb cellsB crdB bAt cb0 vb0 σ0)
    (c0 : Cur) (hc0 : c0.leaf = inLeaf bT) (hcrd : c0.crd = crdB) (hce : c0.e = m)
    (hblk : c0.blk ≠ cb0 ∧ c0.blk ≠ vb0 ∧ c0.blk < σ0.heap.length) :
    MidOK 0 0 m (P ofRat i outT bT e bAt cb0 vb0 σ0) [c0] i [midStmt ofRat i outT bT e] := by
  intro fuel σ cs tr _ hreach hroom hact hinvM hval hidx ⟨cb, cc, vb, vc, hinv⟩
  obtain ⟨c, rfl, hc, hcb, hcc, hcee, _⟩ := reach_single hreach
  obtain ⟨n1, n2, n3, n4⟩ := cur_names (hc.trans hc0)
  have hcm : c ∈ [c] := List.mem_cons_self
  have hactc : c.p < c.e := hact c hcm
  have hq : c.p < m := by rw [← hce, ← hcee]; exact hactc
  have hmeas : curMeasure [c] = c.e - c.p := by simp [curMeasure]
  have htr : tr.length < m := by rw [hmeas] at hroom; omega
  have hcur := hinvM.cur c hcm
  have hhere : c.here = crdB c.p := by rw [← hcrd, ← hcc]; rfl
  obtain ⟨r0, r1⟩ := hcur.rng c.p (Nat.le_refl _) hactc
  rw [hcc, hcrd] at r0 r1
  obtain ⟨σ', cb', cc', vb', vc', ⟨o, eo, ro, so⟩, hinv', fvars, fheap⟩ := mid_step N ho he pre fuel σ tr cb cc vb
    vc c.p hq htr hinv (by rw [← n1]; exact hcur.ptrv)
    (by rw [← n4, ← hhere]; exact hval c hcm)
    (by rw [← hhere]; exact hidx) r0 r1
  subst so
  refine ⟨o, eo, ro, ?_, ?_, ?_, ?_⟩
  · rw [execL_noLoop_iters fuel _ σ (noLoop_midStmt ofRat i outT bT e) o eo]; exact Nat.le_refl _
  · intro x hx
    apply fvars
    simp only [curNames, List.map_cons, List.map_nil, List.mem_cons, List.mem_append, List.not_mem_nil,
      or_false, n1, n2, n3, n4] at hx
    simp only [midW, List.mem_cons, List.not_mem_nil, or_false, not_or]
    rcases hx with rfl | ((rfl | rfl) | rfl) | rfl <;> (and_intros <;> nm N)
  · intro d hd
    simp only [List.mem_cons, List.not_mem_nil, or_false] at hd
    subst hd
    obtain ⟨blk, hb, _⟩ := hcur.cells
    rw [hb]
    refine fheap d.blk blk ?_ ?_ hb
    · rw [hcb]; rcases hinv.hcb with h | h
      · rw [h]; exact hblk.1
      · have := hblk.2.2; omega
    · rw [hcb]; rcases hinv.hvb with h | h
      · rw [h]; exact hblk.2.1
      · have := hblk.2.2; omega
  · show P ofRat i outT bT e bAt cb0 vb0 σ0 (tr ++ [curMin [c]]) o.st
    rw [curMin_single, hhere]
    exact ⟨cb', cc', vb', vc', hinv'⟩

/-- **(b) The whole loop.** From a state satisfying the merge invariant for the input leaf (cursor `0`, end
`m`) and the loop invariant for the empty history, the loop `lower` emits runs without error with any fuel
`≥ m + 1`, performs exactly `m` iterations, and ends with the input cursor at `m` and the loop invariant for
the history `crdB 0, …, crdB (m-1)`. -/
theorem loop_runs (N : KNames i outT bT) (ho : isSp i outT = true) (he : isExpr i bT e = true)
    (pre : LoopPre ofRat bT e m bvb cellsB crdB bAt cb0 vb0 σ0)
    (bcb : Nat) (hblk : bcb ≠ cb0 ∧ bcb ≠ vb0 ∧ bcb < σ0.heap.length)
    (fuel : Nat) (σ : State F) (hfuel : m + 1 ≤ fuel)
    (hM : MergeInv σ [⟨inLeaf bT, bcb, crdB, 0, m⟩] i)
    (hP : P ofRat i outT bT e bAt cb0 vb0 σ0 [] σ) :
    ∃ o, exec fuel (mergeLoopL [inLeaf bT] i [midStmt ofRat i outT bT e]) σ = .ok o ∧ o.ret = none ∧
      o.iters = m ∧ MergeInv o.st [⟨inLeaf bT, bcb, crdB, m, m⟩] i ∧
      P ofRat i outT bT e bAt cb0 vb0 σ0 ((List.range m).map crdB) o.st := by
  let c0 : Cur := ⟨inLeaf bT, bcb, crdB, 0, m⟩
  have hnames : NamesOK [c0] i := merge_names_generated [c0] i N.iu (by simp)
  have hmeas : curMeasure [c0] = m := by simp [curMeasure, c0]
  obtain ⟨o, eo, ro, inv, _, _, _, lo, hi, hp⟩ := merge_loop_safe_ghost (B := 0) (K := 0)
    (P := P ofRat i outT bT e bAt cb0 vb0 σ0) [c0] i [midStmt ofRat i outT bT e] fuel σ []
    (by simp) hnames hM hP (ghostStable N rfl)
    (by rw [hmeas]; simpa using midOK N ho he pre c0 rfl rfl rfl hblk)
    (by rw [hmeas]; omega)
  have hle : c0.p ≤ c0.e := Nat.zero_le _
  rw [mergeFinal_single c0 hle] at inv
  rw [mergeTrace_single_length c0 hle] at lo hi
  rw [mergeTrace_single c0 hle] at hp
  have hr : List.range' c0.p (c0.e - c0.p) = List.range m := by
    simp [c0, List.range_eq_range']
  rw [hr] at hp
  refine ⟨o, eo, ro, ?_, inv, by simpa using hp⟩
  simp only [c0, Nat.sub_zero] at lo hi
  omega

end

end TV.Sparse1
