import TensoraVerif.Lemmas.Sparse1Model
import TensoraVerif.Lemmas.ToIrTerminal
import TensoraVerif.Lemmas.LowerableComplete

/-!
C01 for sparse vector copy/scale kernels, part 2: what `lower` emits for the graphs of the class.
-/
namespace TV.Sparse1
open TV.IR TV.Gen TV.Graph TV.Merge
set_option linter.unusedSectionVars false
variable {F : Type} [FloatOps F]

theorem isSp_iff (i : String) (t : TensorId) :
    isSp i t = true ↔ t.indexes = [i] ∧ t.modes = [.compressed] := by
  simp [isSp]

theorem isExpr_iff (i : String) (bT : TensorId) (e : IdExpr) :
    isExpr i bT e = true ↔ ToIr.leaves e = [bT] ∧ (bT.indexes = [i] ∧ bT.modes = [.compressed]) ∧
      (extractContext e i).isSparse = true := by
  simp [isExpr, isSp, and_assoc]

/-- the loop context when every tensor occurrence is a compressed vector over `i`: one sparse leaf per
occurrence, no dense leaf -/
theorem extractContext_leaves (i : String) (e : IdExpr) (h : ∀ t ∈ ToIr.leaves e, isSp i t = true) :
    (extractContext e i).sparseLeaves = (ToIr.leaves e).map (fun t => ⟨t, 0⟩) ∧
    (extractContext e i).denseLeaves = [] := by
  induction e with
  | int v => simp [extractContext, ToIr.leaves]
  | flt v => simp [extractContext, ToIr.leaves]
  | tensor t =>
    have ht := (isSp_iff i t).1 (h t (by simp [ToIr.leaves]))
    simp [extractContext, ToIr.leaves, ht.1, ht.2]
  | add l r ihl ihr =>
    have hl := ihl (fun t ht => h t (by simp [ToIr.leaves, ht]))
    have hr := ihr (fun t ht => h t (by simp [ToIr.leaves, ht]))
    simp [extractContext, Context.add, ToIr.leaves, hl, hr]
  | mul l r ihl ihr =>
    have hl := ihl (fun t ht => h t (by simp [ToIr.leaves, ht]))
    have hr := ihr (fun t ht => h t (by simp [ToIr.leaves, ht]))
    simp [extractContext, Context.mul, ToIr.leaves, hl, hr]

theorem occurs_false_leaves (ref : String) (e : IdExpr) (h : e.occurs ref = false) :
    ∀ t ∈ ToIr.leaves e, t.id ≠ ref := by
  induction e with
  | int v => simp [ToIr.leaves]
  | flt v => simp [ToIr.leaves]
  | tensor t => simpa [ToIr.leaves, IdExpr.occurs] using h
  | add l r ihl ihr =>
    simp only [IdExpr.occurs, Bool.or_eq_false_iff] at h
    intro t ht
    simp only [ToIr.leaves, List.mem_append] at ht
    rcases ht with ht | ht
    · exact ihl h.1 t ht
    · exact ihr h.2 t ht
  | mul l r ihl ihr =>
    simp only [IdExpr.occurs, Bool.or_eq_false_iff] at h
    intro t ht
    simp only [ToIr.leaves, List.mem_append] at ht
    rcases ht with ht | ht
    · exact ihl h.1 t ht
    · exact ihr h.2 t ht

/-- exhausting `ref` only removes tensor occurrences, and removes every occurrence of `ref` -/
theorem exhaust_leaves (ref : String) (e : IdExpr) :
    ∀ t ∈ ToIr.leaves (exhaust e ref), t ∈ ToIr.leaves e ∧ t.id ≠ ref := by
  induction e with
  | int v => simp [exhaust, ToIr.leaves]
  | flt v => simp [exhaust, ToIr.leaves]
  | tensor t =>
    intro t' ht'
    simp only [exhaust] at ht'
    split at ht'
    · simp [ToIr.leaves] at ht'
    · rename_i hne
      simp only [ToIr.leaves, List.mem_cons, List.not_mem_nil, or_false] at ht'
      subst ht'
      exact ⟨by simp [ToIr.leaves], by simpa using hne⟩
  | add l r ihl ihr =>
    intro t ht
    simp only [exhaust] at ht
    split at ht
    · rename_i hno
      simp only [Bool.and_eq_true, Bool.not_eq_true'] at hno
      refine ⟨ht, ?_⟩
      simp only [ToIr.leaves, List.mem_append] at ht
      rcases ht with ht | ht
      · exact occurs_false_leaves ref l hno.1 t ht
      · exact occurs_false_leaves ref r hno.2 t ht
    · split at ht
      · obtain ⟨h1, h2⟩ := ihr t ht
        exact ⟨by simp [ToIr.leaves, h1], h2⟩
      · split at ht
        · obtain ⟨h1, h2⟩ := ihl t ht
          exact ⟨by simp [ToIr.leaves, h1], h2⟩
        · simp only [ToIr.leaves, List.mem_append] at ht
          rcases ht with ht | ht
          · obtain ⟨h1, h2⟩ := ihl t ht
            exact ⟨by simp [ToIr.leaves, h1], h2⟩
          · obtain ⟨h1, h2⟩ := ihr t ht
            exact ⟨by simp [ToIr.leaves, h1], h2⟩
  | mul l r ihl ihr =>
    intro t ht
    simp only [exhaust] at ht
    split at ht
    · rename_i hno
      simp only [Bool.and_eq_true, Bool.not_eq_true'] at hno
      refine ⟨ht, ?_⟩
      simp only [ToIr.leaves, List.mem_append] at ht
      rcases ht with ht | ht
      · exact occurs_false_leaves ref l hno.1 t ht
      · exact occurs_false_leaves ref r hno.2 t ht
    · split at ht
      · simp [ToIr.leaves] at ht
      · simp only [ToIr.leaves, List.mem_append] at ht
        rcases ht with ht | ht
        · obtain ⟨h1, h2⟩ := ihl t ht
          exact ⟨by simp [ToIr.leaves, h1], h2⟩
        · obtain ⟨h1, h2⟩ := ihr t ht
          exact ⟨by simp [ToIr.leaves, h1], h2⟩

theorem exhaust_leaves_nil {bT : TensorId} {e : IdExpr} (h : ToIr.leaves e = [bT]) :
    ToIr.leaves (exhaust e bT.id) = [] := by
  apply List.eq_nil_iff_forall_not_mem.2
  intro t ht
  obtain ⟨h1, h2⟩ := exhaust_leaves bT.id e t ht
  rw [h] at h1
  simp only [List.mem_cons, List.not_mem_nil, or_false] at h1
  exact h2 (by rw [h1])

section
variable (i : String) (outT bT : TensorId) (e : IdExpr) (he : isExpr i bT e = true)
include he

theorem ctx_eq : (extractContext e i).isSparse = true ∧
    (extractContext e i).sparseLeaves = [inLeaf bT] ∧ (extractContext e i).denseLeaves = [] := by
  obtain ⟨hl, hb, hs⟩ := (isExpr_iff i bT e).1 he
  have := extractContext_leaves i e (by
    intro t ht; rw [hl] at ht
    simp only [List.mem_cons, List.not_mem_nil, or_false] at ht
    subst ht; exact (isSp_iff i t).2 hb)
  rw [hl] at this
  exact ⟨hs, this.1, this.2⟩

theorem ctx_exhaust_eq : (extractContext (exhaust e bT.id) i).sparseLeaves = [] := by
  obtain ⟨hl, hb, hs⟩ := (isExpr_iff i bT e).1 he
  have hn := exhaust_leaves_nil hl
  have := extractContext_leaves i (exhaust e bT.id) (by rw [hn]; intro t ht; cases ht)
  rw [hn] at this
  exact this.1

theorem compressedDims_graph : compressedDims (graph i outT e) = [bT.id] := by
  simp [compressedDims, graph, nodeContext, IGraph.context, (ctx_eq i bT e he).2.1, dedupStr, inLeaf]

theorem compressedDims_exhausted :
    compressedDims (graph i outT (exhaust e bT.id)) = [] := by
  simp [compressedDims, graph, nodeContext, IGraph.context, ctx_exhaust_eq i bT e he, dedupStr]

/-- the lattice of sub-graphs: the graph itself and the graph in which `b` is exhausted -/
theorem generateSubgraphs_eq :
    generateSubgraphs (graph i outT e) = [graph i outT e, graph i outT (exhaust e bT.id)] := by
  have h1 := compressedDims_graph i outT bT e he
  have h2 := compressedDims_exhausted i outT bT e he
  have hx : (graph i outT e).exhaust bT.id = graph i outT (exhaust e bT.id) := by
    simp [graph, IGraph.exhaust]
  simp [generateSubgraphs, generateSubgraphs.go, h1, h2, hx, dictSet, sameSet, sortByLenDesc,
    List.range, List.range.loop]

end

theorem append_commented (b x : SB F) (c : String) (h : x.comment = some c) :
    b.append x = b.add (.block x.lines (some c)) := by
  simp [SB.append, SB.add, h]

theorem append_plain (b x : SB F) (h : x.comment = none) :
    b.append x = ⟨b.comment, b.lines ++ x.lines⟩ := by
  simp [SB.append, h]

theorem writePosAllocation_comment (l : Leaf) :
    (writePosAllocation (F := F) l).comment = some (Growth.allocComment l) := by
  unfold writePosAllocation Growth.allocComment Growth.allocIsVals Growth.allocTarget
  simp only []
  split <;> rfl

theorem finalize_eq (x : SB F) (c : String) (h : x.comment = some c) :
    x.finalize = .block x.lines (some c) := by
  simp [SB.finalize, h]

theorem lower_terminal_eq (ofRat : Rat → F) (n : Nat) (outT : TensorId) (e : IdExpr)
    (hm : outT.modes = [.compressed]) (hi : outT.indexes.length = 1) (hne : e ≠ .int 0) :
    lower ofRat (n + 1) (.terminal e) (.append outT 1) .evaluate =
      .ok ⟨some "*** Computation of expression ***", (termBlockLines ofRat outT e)⟩ := by
  have hw := ToIr.writeAssignment_append_eq (F := F) outT (toIrWith ofRat e)
  rw [hi] at hw
  rw [ToIr.lower_terminal_eq ofRat .evaluate rfl n e (.append outT 1) _ hw, ToIr.activeFlags_ne _ hne]
  have hfl : (Output.append outT 1).writtenFlags = [writtenName outT.name 0] := by
    simp [Output.writtenFlags, Output.tensor, hm, List.range, List.range.loop]
  simp [hfl, termBlockLines, ToIr.flagStmt, prevLayerPointer]

/-- **What `lower` emits on the class.** -/
theorem lower_eq (ofRat : Rat → F) (n : Nat) (i : String) (outT bT : TensorId) (e : IdExpr)
    (ho : isSp i outT = true) (he : isExpr i bT e = true) :
    lower ofRat (n + 2) (graph i outT e) (.append outT 0) .evaluate =
      .ok ⟨some ("*** Iteration over " ++ i ++ " ***"), loopLines ofRat i outT bT e⟩ := by
  have ho' := (isSp_iff i outT).1 ho
  have hctx := ctx_eq i bT e he
  have hsub := generateSubgraphs_eq i outT bT e he
  have hcd1 := compressedDims_graph i outT bT e he
  have hcd2 := compressedDims_exhausted i outT bT e he
  have hne : e ≠ .int 0 := by
    intro h; have := ((isExpr_iff i bT e).1 he).1; rw [h] at this; simp [ToIr.leaves] at this
  unfold graph at hsub hcd1 hcd2 ⊢
  unfold lower
  simp only [Kind.isCompute, Bool.not_true, Bool.false_and, Bool.false_eq_true, if_false]
  have hso : isSparseOutput (IGraph.iter i (some { tensor := outT, layer := 0 }) (IGraph.terminal e)) = true := by
    simp [isSparseOutput, Leaf.mode, ho'.2]
  have hnext : ((Output.append outT 0).next (some 0) Kind.evaluate : Except GenErr (Output × SB F)) =
      .ok (.append outT 1, SB.empty) := by simp [Output.next]
  have hnc : nodeContext (IGraph.iter i (some { tensor := outT, layer := 0 }) (IGraph.terminal e)) =
      extractContext e i := by
    simp [nodeContext, IGraph.context]
  have hlater : (IGraph.iter i (some { tensor := outT, layer := 0 }) (IGraph.terminal e)).laterIndexes = [i] := by
    simp [IGraph.laterIndexes]
  have hterm := lower_terminal_eq ofRat n outT e ho'.2 (by rw [ho'.1]; rfl) hne
  have hmode : ({ tensor := outT, layer := 0 } : Leaf).mode = Mode.compressed := by simp [Leaf.mode, ho'.2]
  simp only [hso, hmode, Option.map_some, hnext, hsub, hnc, hctx.1, hctx.2.1, hctx.2.2, hlater, hterm, hcd1, hcd2,
    Bool.or_true, Bool.true_and, Bool.and_self, if_true,
    List.foldlM_cons, List.foldlM_nil, bind, Except.bind, pure, Except.pure,
    List.isEmpty_nil, List.isEmpty_cons, Bool.not_true, Bool.not_false, Option.isNone_some, Bool.false_eq_true,
    if_false, List.foldl_nil, List.foldl_cons,
    List.map_nil, List.map_cons, List.nil_append, Kind.isAssemble]
  rw [append_commented _ _ _ (writePosAllocation_comment _),
    append_commented _ (writeCrdAssembly _) "crd assembly" rfl,
    append_commented _ (writePosAssembly _) "pos assembly" rfl,
    append_plain _ (writeSparseInit _) rfl]
  simp [SB.mk', SB.append, SB.empty, SB.add, SB.loop, SB.branch, SB.finalize, branchJoin, andJoin, joinWith,
    minJoin, loopLines, midStmt, branchBody, termBlock, mergeLoopL, mergeBodyL, mergeCond,
    mergeLoads, mergeMin, mergeIncs, inLeaf, outLeaf, Leaf.ptr, writePosAllocation_comment]
  exact ⟨rfl, rfl⟩

end TV.Sparse1
