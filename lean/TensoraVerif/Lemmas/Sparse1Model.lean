import TensoraVerif.Model.GenerateIR
import TensoraVerif.Model.Machine
import TensoraVerif.Lemmas.ToIrBasic
import TensoraVerif.Lemmas.MergeBasic

/-!
C01 for the sparse vector copy/scale kernels (`a(i) = e`, `a` compressed, `e` mentioning exactly one
compressed vector `b(i)`), part 1: definitions.

* `Sparse1.isSp`, `Sparse1.isExpr`: the class of right-hand sides (`ToIr.leaves e = [bT]`, `bT` an order-1
  compressed tensor indexed by the loop index, and the loop over `i` is sparse for `e`);
* `Sparse1.graph`: the iteration graph of the class;
* `Sparse1.loopLines`: what `lower` emits on the class, written out (the whole kernel: `Sparse1Generate.lean`).
-/
namespace TV.Sparse1
open TV.IR TV.Gen TV.Graph TV.Merge

variable {F : Type} [FloatOps F]

/-- an order-1 tensor indexed by `i` and stored compressed -/
def isSp (i : String) (t : TensorId) : Bool := t.indexes == [i] && t.modes == [Mode.compressed]

/-- `e` mentions exactly ONE tensor occurrence, `bT`, which is an order-1 compressed tensor indexed by
`i`, and the loop over `i` is sparse for `e` (`extract_context(i).is_sparse`: `b`, `2 * b`, `b * 2.5`,
`b + 0` … but not `b + 2`) -/
def isExpr (i : String) (bT : TensorId) (e : IdExpr) : Bool :=
  ToIr.leaves e == [bT] && isSp i bT && (extractContext e i).isSparse

/-- the iteration graph of `out(i) = e` -/
def graph (i : String) (outT : TensorId) (e : IdExpr) : IGraph :=
  .iter i (some ⟨outT, 0⟩) (.terminal e)

/-! ### the emitted loop -/

/-- the output leaf and the input leaf -/
def outLeaf (outT : TensorId) : Leaf := ⟨outT, 0⟩
def inLeaf (bT : TensorId) : Leaf := ⟨bT, 0⟩

/-- the lines of the terminal block: `written = true; out_vals[p_out] = <e>;` -/
def termBlockLines (ofRat : Rat → F) (outT : TensorId) (e : IdExpr) : List (Stmt F) :=
  [.assign (.var (writtenName outT.name 0)) (.boolLit true),
   .assign (.idx (.var (valsName outT.name)) (.var (layerPointer outT.id 0))) (toIrWith ofRat e)]

/-- the terminal block -/
def termBlock (ofRat : Rat → F) (outT : TensorId) (e : IdExpr) : Stmt F :=
  .block (termBlockLines ofRat outT e) (some "*** Computation of expression ***")

/-- the statements of the branch taken at every stored coordinate -/
def branchBody (ofRat : Rat → F) (outT : TensorId) (e : IdExpr) : List (Stmt F) :=
  [(writePosAllocation (outLeaf outT)).finalize,
   declAssignE (writtenName outT.name 0) .bool (.boolLit false),
   termBlock ofRat outT e,
   .branch (.var (writtenName outT.name 0))
     (.block [(writeCrdAssembly (outLeaf outT)).finalize,
        increment (.var (layerPointer outT.id 0)) (.intLit 1)] none)
     (.block [] none)]

/-- what `lower` puts between the `min` and the cursor increments: `if (i_b == i) { … }` -/
def midStmt (ofRat : Rat → F) (i : String) (outT bT : TensorId) (e : IdExpr) : Stmt F :=
  .branch (.bin .and (.boolLit true) (.bin .eq (.var (valueFromCrd bT.id 0)) (.var i)))
    (.block (branchBody ofRat outT e) none) (.block [] none)

/-- the lines of the "Iteration over i" block -/
def loopLines (ofRat : Rat → F) (i : String) (outT bT : TensorId) (e : IdExpr) : List (Stmt F) :=
  (writeSparseInit (inLeaf bT)).lines ++
  [mergeLoopL [inLeaf bT] i [midStmt ofRat i outT bT e],
   (writePosAssembly (outLeaf outT)).finalize]

end TV.Sparse1
