import TensoraVerif.Lemmas.Sparse1Model
import TensoraVerif.Lemmas.MergeNames

/-!
C01 for sparse vector copy/scale kernels, part 4: the names of the kernel are pairwise distinct.
Every generated name is classified by its last characters (and, for the names ending in `_0`, by its
first character): `nameClass`. Names of different classes are different; names of the same class are
compared by injectivity of the naming functions.
-/
namespace TV.Sparse1
open TV.IR TV.Gen TV.Graph TV.Merge

/-- classification of a reversed name (and its first character) -/
def revClass (r : List Char) (h : Option Char) : Nat :=
  if ['m','i','d','_'].isPrefixOf r then 1
  else if ['s','o','p','_'].isPrefixOf r then 2
  else if ['d','r','c','_'].isPrefixOf r then 3
  else if ['s','l','a','v','_'].isPrefixOf r then 4
  else if "yticapac_sop_".toList.isPrefixOf r then 5
  else if "yticapac_drc_".toList.isPrefixOf r then 6
  else if "yticapac_slav_".toList.isPrefixOf r then 7
  else if ['d','n','e','_'].isPrefixOf r then 8
  else if ['0','_'].isPrefixOf r then
    (if h = some 'p' then 9 else if h = some 'i' then 10 else if h = some 'w' then 11 else 12)
  else 13

/-- `0` for the user-chosen names (no `'_'`), otherwise the kind of generated name -/
def nameClass (s : String) : Nat :=
  if '_' ∈ s.toList then revClass s.toList.reverse s.toList.head? else 0

theorem ne_of_nameClass {s t : String} (h : nameClass s ≠ nameClass t) : s ≠ t := by
  intro e; exact h (by rw [e])

theorem nc_plain {s : String} (h : '_' ∉ s.toList) : nameClass s = 0 := by simp [nameClass, h]
theorem nc_dim (x : String) : nameClass (dimName x) = 1 := by
  simp [nameClass, dimName, String.toList_append, revClass]
theorem nc_pos (x : String) : nameClass (posName x 0) = 2 := by
  simp [nameClass, posName, String.toList_append, revClass]
theorem nc_crd (x : String) : nameClass (crdName x 0) = 3 := by
  simp [nameClass, crdName, String.toList_append, revClass]
theorem nc_vals (x : String) : nameClass (valsName x) = 4 := by
  simp [nameClass, valsName, String.toList_append, revClass]
theorem nc_posCap (x : String) : nameClass (posCapName x 0) = 5 := by
  simp [nameClass, posCapName, String.toList_append, revClass]
theorem nc_crdCap (x : String) : nameClass (crdCapName x 0) = 6 := by
  simp [nameClass, crdCapName, String.toList_append, revClass]
theorem nc_valsCap (x : String) : nameClass (valsCapName x) = 7 := by
  simp [nameClass, valsCapName, String.toList_append, revClass]
theorem nc_end (x : String) : nameClass (sparseEndName x 0) = 8 := by
  simp [nameClass, sparseEndName, String.toList_append, revClass]
theorem nc_ptr (x : String) : nameClass (layerPointer x 0) = 9 := by
  simp [nameClass, layerPointer, String.toList_append, revClass]
theorem nc_val (x : String) : nameClass (valueFromCrd x 0) = 10 := by
  simp [nameClass, valueFromCrd, String.toList_append, revClass]
theorem nc_wr (x : String) : nameClass (writtenName x 0) = 11 := by
  simp [nameClass, writtenName, String.toList_append, revClass]

/-- `nc_ne N` proves `x ≠ y` for two names of different classes; `N : KNames …` supplies the classes of the
user-chosen names -/
macro "nc_ne" N:term : tactic =>
  `(tactic| (apply ne_of_nameClass
             simp [nc_dim, nc_pos, nc_crd, nc_vals, nc_posCap, nc_crdCap, nc_valsCap, nc_end, nc_ptr,
               nc_val, nc_wr, ($N).i0, ($N).a0, ($N).b0]
             done))

theorem posName_inj0 {a b : String} (h : posName a 0 = posName b 0) : a = b :=
  (String.append_left_inj _).1 ((String.append_left_inj _).1 ((String.append_left_inj _).1 h))
theorem crdName_inj0 {a b : String} (h : crdName a 0 = crdName b 0) : a = b :=
  (String.append_left_inj _).1 ((String.append_left_inj _).1 ((String.append_left_inj _).1 h))
theorem valsName_inj0 {a b : String} (h : valsName a = valsName b) : a = b :=
  (String.append_left_inj _).1 h

/-- the static name hypotheses of the class: index and tensor names without `'_'` (every name the parser
admits is alphanumeric), pairwise different, and the two tensor ids different -/
structure KNames (i : String) (outT bT : TensorId) : Prop where
  iu : '_' ∉ i.toList
  au : '_' ∉ outT.name.toList
  bu : '_' ∉ bT.name.toList
  ab : outT.name ≠ bT.name
  ia : i ≠ outT.name
  ib : i ≠ bT.name
  ids : outT.id ≠ bT.id

section
variable {i : String} {outT bT : TensorId} (N : KNames i outT bT)
include N
theorem KNames.i0 : nameClass i = 0 := nc_plain N.iu
theorem KNames.a0 : nameClass outT.name = 0 := nc_plain N.au
theorem KNames.b0 : nameClass bT.name = 0 := nc_plain N.bu
theorem KNames.ptr_ne : layerPointer outT.id 0 ≠ layerPointer bT.id 0 :=
  fun h => N.ids (layerPointer_inj h).1
end

/-- `nm N` proves an inequality between two names of the kernel -/
macro "nm" N:term : tactic => `(tactic| first
  | nc_ne $N
  | exact ($N).ptr_ne | exact ($N).ptr_ne.symm
  | exact fun h => ($N).ab (valsName_inj0 h) | exact fun h => ($N).ab (valsName_inj0 h.symm)
  | exact fun h => ($N).ab (crdName_inj0 h) | exact fun h => ($N).ab (crdName_inj0 h.symm)
  | exact fun h => ($N).ab (posName_inj0 h) | exact fun h => ($N).ab (posName_inj0 h.symm)
  | exact ($N).ia | exact ($N).ia.symm | exact ($N).ib | exact ($N).ib.symm
  | exact ($N).ab | exact ($N).ab.symm)

example {i : String} {outT bT : TensorId} (N : KNames i outT bT) :
    valsName outT.name ≠ valsName bT.name ∧ layerPointer bT.id 0 ≠ layerPointer outT.id 0 ∧
    i ≠ writtenName outT.name 0 ∧ crdCapName outT.name 0 ≠ valueFromCrd bT.id 0 ∧ bT.name ≠ dimName i := by
  and_intros <;> nm N

end TV.Sparse1
