import TensoraVerif.Lemmas.FrameFuel
import TensoraVerif.Lemmas.MergeBasic

/-!
C01 for sparse vector copy/scale kernels, part 5: a loop-free statement performs no loop iteration
(`exec_noLoop_iters`), so the `Runs` results of the building blocks (C05 growth fragments, C01 terminal
block) are `RunsN … 0` results.
-/
namespace TV.Sparse1
open TV.IR TV.Gen TV.Graph TV.Growth TV.Merge
set_option linter.unusedSectionVars false
variable {F : Type} [FloatOps F]

mutual
/-- the statement contains no `while` -/
def noLoop : Stmt F → Bool
  | .block ss _ => noLoopL ss
  | .branch _ t f => noLoop t && noLoop f
  | .loop _ _ => false
  | _ => true
def noLoopL : List (Stmt F) → Bool
  | [] => true
  | s :: ss => noLoop s && noLoopL ss
end

def NLS (fuel : Nat) (s : Stmt F) (σ : State F) : Prop :=
  noLoop s = true → ∀ o, exec fuel s σ = .ok o → o.iters = 0
def NLL (fuel : Nat) (ss : List (Stmt F)) (σ : State F) : Prop :=
  noLoopL ss = true → ∀ o, execL fuel ss σ = .ok o → o.iters = 0

theorem exec_noLoop_iters (fuel : Nat) (s : Stmt F) (σ : State F) : NLS fuel s σ := by
  induction fuel, s, σ using exec.induct (F := F)
    (motive2 := fun fuel ss σ => NLL fuel ss σ) with
  | case1 fuel e σ =>
    intro _ o h; rw [exec.eq_1] at h
    obtain ⟨_, _, h⟩ := Frame.bind_ok h; cases h; rfl
  | case2 fuel n t σ =>
    intro _ o h; rw [exec.eq_2] at h
    obtain ⟨_, _, h⟩ := Frame.bind_ok h; cases h; rfl
  | case3 fuel t v σ =>
    intro _ o h; rw [exec.eq_3] at h
    obtain ⟨_, _, h⟩ := Frame.bind_ok h
    obtain ⟨_, _, h⟩ := Frame.bind_ok h
    obtain ⟨_, _, h⟩ := Frame.bind_ok h
    cases h; rfl
  | case4 fuel n t v σ =>
    intro _ o h; rw [exec.eq_4] at h
    obtain ⟨_, _, h⟩ := Frame.bind_ok h
    obtain ⟨_, _, h⟩ := Frame.bind_ok h
    obtain ⟨_, _, h⟩ := Frame.bind_ok h
    cases h; rfl
  | case5 fuel ss c σ ih =>
    intro hn o h; rw [exec.eq_5] at h
    exact ih (by simpa [noLoop] using hn) o h
  | case6 fuel c t f σ iht ihf =>
    intro hn o h
    simp only [noLoop, Bool.and_eq_true] at hn
    rw [exec.eq_6] at h
    obtain ⟨cv, ec, h⟩ := Frame.bind_ok h
    split at h
    · obtain ⟨ot, et, h⟩ := Frame.bind_ok h
      cases h; exact iht hn.1 ot et
    · obtain ⟨ot, et, h⟩ := Frame.bind_ok h
      cases h; exact ihf hn.2 ot et
    · cases h
  | case7 c b σ => intro hn; simp [noLoop] at hn
  | case8 c b σ fuel' ihb ihl => intro hn; simp [noLoop] at hn
  | case9 fuel e σ =>
    intro _ o h; rw [exec.eq_9] at h
    obtain ⟨_, _, h⟩ := Frame.bind_ok h; cases h; rfl
  | case10 fuel σ => intro _ o h; rw [execL.eq_1] at h; cases h; rfl
  | case11 fuel s ss σ ihs ihss =>
    intro hn o h
    simp only [noLoopL, Bool.and_eq_true] at hn
    rw [execL.eq_2] at h
    obtain ⟨o1, e1, h⟩ := Frame.bind_ok h
    have i1 := ihs hn.1 o1 e1
    split at h
    · cases h; exact i1
    · obtain ⟨o2, e2, h⟩ := Frame.bind_ok h
      cases h
      have i2 := ihss o1 hn.2 o2 e2
      simp [Out.seq, i1, i2]

/-- a `Runs` result of a loop-free statement counts no iteration -/
theorem RunsN.of_runs {fuel : Nat} {s : Stmt F} {σ σ' : State F} (h : Runs fuel s σ σ')
    (hn : noLoop s = true) : RunsN fuel s σ σ' 0 := by
  obtain ⟨o, e, r, st⟩ := h
  exact ⟨o, e, r, st, exec_noLoop_iters fuel s σ hn o e⟩

end TV.Sparse1
