import TensoraVerif.Props.C05Growth
import TensoraVerif.Lemmas.ToIrStore

/-!
C01 for sparse matrix copy/scale kernels, part 6: state vocabulary independent of the kernel.

* `VFrame W σ σ'`: the variables outside `W` are unchanged;
* `Arr σ arr cap ety b c cells`: a growing output array — C05's array invariant `ArrInv`, plus "the first
  `|cells|` cells hold `cells`" — with the transfer lemmas along C05's post-conditions (`GrowPost`:
  `Arr.of_grow`; `StorePost`: `Arr.of_store`; a single-cell overwrite `CellSet`: `Arr.push`);
* `Sep5 H n …`: five block numbers, pairwise distinct, all in `[H, n)` (the five arrays of the output above
  the initial heap), stable when one of them is replaced by a fresh block.
-/
namespace TV.Sparse2
open TV.IR TV.Gen TV.Graph TV.Growth

set_option linter.unusedSectionVars false
variable {F : Type} [FloatOps F]

/-! ### variable frames -/

/-- the variables outside `W` are unchanged -/
def VFrame (W : List String) (σ σ' : State F) : Prop :=
  ∀ y, y ∉ W → lookupVar σ'.vars y = lookupVar σ.vars y

theorem VFrame.refl (W : List String) (σ : State F) : VFrame W σ σ := fun _ _ => rfl

theorem VFrame.trans {W1 W2 : List String} {σ σ1 σ2 : State F} (h1 : VFrame W1 σ σ1) (h2 : VFrame W2 σ1 σ2) :
    VFrame (W1 ++ W2) σ σ2 := by
  intro y hy
  simp only [List.mem_append, not_or] at hy
  rw [h2 y hy.2, h1 y hy.1]

theorem VFrame.mono {W W' : List String} {σ σ' : State F} (h : VFrame W σ σ') (hs : ∀ x ∈ W, x ∈ W') :
    VFrame W' σ σ' := fun y hy => h y fun hm => hy (hs y hm)

theorem VFrame.of1 {x : String} {σ σ' : State F} (h : ∀ y, y ≠ x → lookupVar σ'.vars y = lookupVar σ.vars y) :
    VFrame [x] σ σ' := fun y hy => h y (by simpa using hy)

theorem VFrame.of2 {x1 x2 : String} {σ σ' : State F}
    (h : ∀ y, y ≠ x1 → y ≠ x2 → lookupVar σ'.vars y = lookupVar σ.vars y) : VFrame [x1, x2] σ σ' := by
  intro y hy
  simp only [List.mem_cons, List.not_mem_nil, or_false, not_or] at hy
  exact h y hy.1 hy.2

theorem VFrame.of_eq {σ σ' : State F} (h : σ'.vars = σ.vars) : VFrame [] σ σ' := fun y _ => by rw [h]

/-! ### a growing array with known contents -/

/-- the array variable `arr` (capacity variable `cap`) satisfies C05's array invariant for block `b` and
capacity `c`, and the first `|cells|` cells of the block hold `cells` -/
structure Arr (σ : State F) (arr cap : String) (ety : ElemTy) (b : Nat) (c : Int) (cells : List (Val F)) :
    Prop where
  inv : ArrInv σ arr cap ety b c
  le : (cells.length : Int) ≤ c
  holds : ∀ blk, σ.heap[b]? = some blk → ∀ k (h : k < cells.length), blk.cells[k]? = some (some cells[k])

section
variable {σ σ' : State F} {arr cap : String} {ety : ElemTy} {b b' : Nat} {c c' : Int} {cells : List (Val F)}

theorem Arr.lt_len (h : Arr σ arr cap ety b c cells) : b < σ.heap.length := by
  obtain ⟨blk, hb, _⟩ := h.inv.blk
  exact lt_length_of_getElem? hb

/-- `Arr` only looks at the two variables and at the block -/
theorem Arr.congr (h : Arr σ arr cap ety b c cells)
    (ha : lookupVar σ'.vars arr = lookupVar σ.vars arr) (hc : lookupVar σ'.vars cap = lookupVar σ.vars cap)
    (hb : σ'.heap[b]? = σ.heap[b]?) : Arr σ' arr cap ety b c cells := by
  obtain ⟨blk, e, r⟩ := h.inv.blk
  exact ⟨⟨h.inv.arr.congr ha, h.inv.cap.congr hc, ⟨blk, by rw [hb]; exact e, r⟩, h.inv.pos, h.inv.lt⟩, h.le,
    fun blk' hb' k hk => h.holds blk' (by rw [← hb]; exact hb') k hk⟩

/-- after C05's growth step the contents are still there -/
theorem Arr.of_grow (h : Arr σ arr cap ety b c cells) (g : GrowPost σ σ' arr cap ety b c b' c') :
    Arr σ' arr cap ety b' c' cells := by
  obtain ⟨blk, hb, _, _, _, hlen⟩ := h.inv.blk
  refine ⟨g.inv, by have := h.le; have := g.mono; omega, ?_⟩
  intro blk' hb' k hk
  have hkl : k < blk.cells.length := by have := h.le; omega
  rw [g.cells blk blk' hb hb' k hkl]
  exact h.holds blk hb k hk

/-- after C05's append step (cell `|cells|` receives `v`) the contents are `cells ++ [v]` -/
theorem Arr.of_store {v : Val F} (h : Arr σ arr cap ety b c cells)
    (s : StorePost σ σ' arr cap ety b c (cells.length : Int) v b' c') :
    Arr σ' arr cap ety b' c' (cells ++ [v]) := by
  obtain ⟨blk, hb, _, _, _, hlen⟩ := h.inv.blk
  refine ⟨s.inv, by have := s.bound; simp only [List.length_append, List.length_cons, List.length_nil]; omega, ?_⟩
  intro blk' hb' k hk
  simp only [List.length_append, List.length_cons, List.length_nil] at hk
  by_cases hkc : k < cells.length
  · have hkl : k < blk.cells.length := by have := h.le; omega
    rw [List.getElem_append_left hkc, s.cells blk blk' hb hb' k hkl (by simp; omega)]
    exact h.holds blk hb k hkc
  · have hke : k = cells.length := by omega
    subst hke
    obtain ⟨blk'', hb'', hc''⟩ := s.cell
    rw [hb'] at hb''; cases hb''
    rw [List.getElem_append_right (Nat.le_refl _)]
    simpa using hc''

/-- a prefix of the known contents -/
theorem Arr.take {extra : List (Val F)} (h : Arr σ arr cap ety b c (cells ++ extra)) :
    Arr σ arr cap ety b c cells := by
  refine ⟨h.inv, by have := h.le; simp only [List.length_append] at this; omega, ?_⟩
  intro blk hb k hk
  have := h.holds blk hb k (by simp only [List.length_append]; omega)
  rw [List.getElem_append_left hk] at this
  exact this
end

/-- block `b` of `σ'` is block `b` of `σ` with cell `n` overwritten by `v` (same type, owner, liveness, length) -/
def CellSet (σ σ' : State F) (b n : Nat) (v : Val F) : Prop :=
  ∃ blk blk', σ.heap[b]? = some blk ∧ σ'.heap[b]? = some blk' ∧
    blk'.ty = blk.ty ∧ blk'.owner = blk.owner ∧ blk'.live = blk.live ∧
    blk'.cells.length = blk.cells.length ∧ blk'.cells[n]? = some (some v) ∧
    ∀ j, j ≠ n → blk'.cells[j]? = blk.cells[j]?

theorem CellSet.of_cellPost {σ σ' : State F} {b : Nat} {k : Int} {v : Val F} (h : ToIr.CellPost σ σ' b k v) :
    CellSet σ σ' b k.toNat v := h.blk

theorem CellSet.congr {σ σ1 σ' : State F} {b n : Nat} {v : Val F} (h : CellSet σ σ1 b n v)
    (hh : σ'.heap = σ1.heap) : CellSet σ σ' b n v := by
  obtain ⟨blk, blk', h1, h2, r⟩ := h
  exact ⟨blk, blk', h1, by rw [hh]; exact h2, r⟩

/-- the state `σ` with cell `n` of block `b` (contents `blk`) set to `v` -/
theorem CellSet.of_set {σ : State F} {b n : Nat} {blk : Block F} {v : Val F} (hb : σ.heap[b]? = some blk)
    (hn : n < blk.cells.length) :
    CellSet σ { σ with heap := σ.heap.set b { blk with cells := blk.cells.set n (some v) } } b n v := by
  have hbl := lt_length_of_getElem? hb
  refine ⟨blk, { blk with cells := blk.cells.set n (some v) }, hb, ?_, rfl, rfl, rfl, by simp, by simp [hn], ?_⟩
  · show (σ.heap.set b _)[b]? = _
    rw [List.getElem?_set_self hbl]
  · intro j hj
    show (blk.cells.set n (some v))[j]? = _
    rw [List.getElem?_set_ne (Ne.symm hj)]

/-- overwriting cell `|cells|` (within the capacity) appends to the known contents -/
theorem Arr.push {σ σ' : State F} {arr cap : String} {ety : ElemTy} {b : Nat} {c : Int} {cells : List (Val F)}
    {v : Val F} (h : Arr σ arr cap ety b c cells) (hlt : (cells.length : Int) < c)
    (hs : CellSet σ σ' b cells.length v)
    (ha : lookupVar σ'.vars arr = lookupVar σ.vars arr) (hc : lookupVar σ'.vars cap = lookupVar σ.vars cap) :
    Arr σ' arr cap ety b c (cells ++ [v]) := by
  obtain ⟨blk0, hb0, hlive, hown, hty, hlen⟩ := h.inv.blk
  obtain ⟨blk, blk', hb, hb', e1, e2, e3, e4, e5, e6⟩ := hs
  rw [hb0] at hb; cases hb
  refine ⟨⟨h.inv.arr.congr ha, h.inv.cap.congr hc, ⟨blk', hb', by rw [e3]; exact hlive, by rw [e2]; exact hown,
    by rw [e1]; exact hty, by rw [e4]; exact hlen⟩, h.inv.pos, h.inv.lt⟩,
    by simp only [List.length_append, List.length_cons, List.length_nil]; omega, ?_⟩
  intro blk'' hb'' k hk
  rw [hb'] at hb''; cases hb''
  simp only [List.length_append, List.length_cons, List.length_nil] at hk
  by_cases hkc : k < cells.length
  · rw [List.getElem_append_left hkc, e6 k (by omega)]
    exact h.holds blk0 hb0 k hkc
  · have hke : k = cells.length := by omega
    subst hke
    rw [List.getElem_append_right (Nat.le_refl _)]
    simpa using e5

/-! ### five separated blocks -/

/-- five block numbers, pairwise distinct, all in `[H, n)` -/
structure Sep5 (H n p0 c0 p1 c1 v : Nat) : Prop where
  p0c0 : p0 ≠ c0
  p0p1 : p0 ≠ p1
  p0c1 : p0 ≠ c1
  p0v : p0 ≠ v
  c0p1 : c0 ≠ p1
  c0c1 : c0 ≠ c1
  c0v : c0 ≠ v
  p1c1 : p1 ≠ c1
  p1v : p1 ≠ v
  c1v : c1 ≠ v
  rp0 : H ≤ p0 ∧ p0 < n
  rc0 : H ≤ c0 ∧ c0 < n
  rp1 : H ≤ p1 ∧ p1 < n
  rc1 : H ≤ c1 ∧ c1 < n
  rv : H ≤ v ∧ v < n

section
variable {H n n' p0 c0 p1 c1 v x : Nat}

theorem Sep5.mono (h : Sep5 H n p0 c0 p1 c1 v) (hn : n ≤ n') : Sep5 H n' p0 c0 p1 c1 v :=
  ⟨h.p0c0, h.p0p1, h.p0c1, h.p0v, h.c0p1, h.c0c1, h.c0v, h.p1c1, h.p1v, h.c1v,
    ⟨h.rp0.1, by have := h.rp0.2; omega⟩, ⟨h.rc0.1, by have := h.rc0.2; omega⟩,
    ⟨h.rp1.1, by have := h.rp1.2; omega⟩, ⟨h.rc1.1, by have := h.rc1.2; omega⟩,
    ⟨h.rv.1, by have := h.rv.2; omega⟩⟩

/-- replacing a block by itself or by a fresh one -/
theorem Sep5.set_c0 (h : Sep5 H n p0 c0 p1 c1 v) (hx : x = c0 ∨ (n ≤ x ∧ x < n')) (hn : n ≤ n') :
    Sep5 H n' p0 x p1 c1 v := by
  rcases hx with rfl | hx
  · exact h.mono hn
  · have h' := h.mono hn
    have r0 := h.rp0; have r1 := h.rc0; have r2 := h.rp1; have r3 := h.rc1; have r4 := h.rv
    exact ⟨by omega, h.p0p1, h.p0c1, h.p0v, by omega, by omega, by omega, h.p1c1, h.p1v, h.c1v,
      h'.rp0, by omega, h'.rp1, h'.rc1, h'.rv⟩

theorem Sep5.set_p1 (h : Sep5 H n p0 c0 p1 c1 v) (hx : x = p1 ∨ (n ≤ x ∧ x < n')) (hn : n ≤ n') :
    Sep5 H n' p0 c0 x c1 v := by
  rcases hx with rfl | hx
  · exact h.mono hn
  · have h' := h.mono hn
    have r0 := h.rp0; have r1 := h.rc0; have r2 := h.rp1; have r3 := h.rc1; have r4 := h.rv
    exact ⟨h.p0c0, by omega, h.p0c1, h.p0v, by omega, h.c0c1, h.c0v, by omega, by omega, h.c1v,
      h'.rp0, h'.rc0, by omega, h'.rc1, h'.rv⟩

theorem Sep5.set_c1 (h : Sep5 H n p0 c0 p1 c1 v) (hx : x = c1 ∨ (n ≤ x ∧ x < n')) (hn : n ≤ n') :
    Sep5 H n' p0 c0 p1 x v := by
  rcases hx with rfl | hx
  · exact h.mono hn
  · have h' := h.mono hn
    have r0 := h.rp0; have r1 := h.rc0; have r2 := h.rp1; have r3 := h.rc1; have r4 := h.rv
    exact ⟨h.p0c0, h.p0p1, by omega, h.p0v, h.c0p1, by omega, h.c0v, by omega, h.p1v, by omega,
      h'.rp0, h'.rc0, h'.rp1, by omega, h'.rv⟩

theorem Sep5.set_v (h : Sep5 H n p0 c0 p1 c1 v) (hx : x = v ∨ (n ≤ x ∧ x < n')) (hn : n ≤ n') :
    Sep5 H n' p0 c0 p1 c1 x := by
  rcases hx with rfl | hx
  · exact h.mono hn
  · have h' := h.mono hn
    have r0 := h.rp0; have r1 := h.rc0; have r2 := h.rp1; have r3 := h.rc1; have r4 := h.rv
    exact ⟨h.p0c0, h.p0p1, h.p0c1, by omega, h.c0p1, h.c0c1, by omega, h.p1c1, by omega, by omega,
      h'.rp0, h'.rc0, h'.rp1, h'.rc1, by omega⟩
end

/-! ### what C05's post-conditions say about the old heap -/

/-- a step that changes only block `b ≥ H` leaves the blocks below `H` alone -/
theorem old_of_heap {σ σ' : State F} {H b : Nat}
    (hheap : ∀ k blk, k ≠ b → σ.heap[k]? = some blk → σ'.heap[k]? = some blk) (hb : H ≤ b)
    (hH : H ≤ σ.heap.length) : ∀ k, k < H → σ'.heap[k]? = σ.heap[k]? := by
  intro k hk
  cases hk' : σ.heap[k]? with
  | none => rw [List.getElem?_eq_none_iff] at hk'; omega
  | some blk => exact hheap k blk (by omega) hk'

/-- the new block of a `GrowPost` is the old one or fresh -/
theorem GrowPost.block_cases {σ σ' : State F} {arr cap : String} {ety : ElemTy} {b b' : Nat} {c c' : Int}
    (g : GrowPost σ σ' arr cap ety b c b' c') :
    b' = b ∨ (σ.heap.length ≤ b' ∧ b' < σ'.heap.length) := by
  rcases g.old with ⟨h, _⟩ | ⟨h, _⟩
  · exact .inl h
  · refine .inr ⟨by omega, ?_⟩
    obtain ⟨blk, hb, _⟩ := g.inv.blk
    exact lt_length_of_getElem? hb

theorem StorePost.block_cases {σ σ' : State F} {arr cap : String} {ety : ElemTy} {b b' : Nat} {c c' p : Int}
    {v : Val F} (s : StorePost σ σ' arr cap ety b c p v b' c') :
    b' = b ∨ (σ.heap.length ≤ b' ∧ b' < σ'.heap.length) := by
  rcases s.old with h | ⟨h, _⟩
  · exact .inl h
  · refine .inr ⟨by omega, ?_⟩
    obtain ⟨blk, hb, _⟩ := s.inv.blk
    exact lt_length_of_getElem? hb

end TV.Sparse2
