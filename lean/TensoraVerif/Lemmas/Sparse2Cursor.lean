import TensoraVerif.Props.C05Merge

/-!
C01 for sparse matrix copy/scale kernels, part 4: C05's merge loop over ONE leaf with a ghost predicate indexed
by the cursor POSITION and an EXACT count of the loop iterations performed inside the statements between the
`min` and the increment (`cursor_loop_exact`).

`merge_loop_safe_ghost` / `merge_loop_cursor_ghost` bound the iterations of nested loops by a constant `K` per
iteration; for a loop nest whose inner trip count varies with the position (the rows of a compressed matrix)
the total is `Σ_q (κ q + 1)`, which this variant states exactly. Same skeleton `mergeLoopL [l] idx mid`, same
invariant `MergeInv`; the proof is the one of `Merge.iter_run` / `Merge.loop_run` for a single cursor.
-/
namespace TV.Sparse2
open TV.IR TV.Gen TV.Graph TV.Growth TV.Merge

set_option linter.unusedSectionVars false
variable {F : Type} [FloatOps F]

/-- the cursor record `c0` moved to position `q` -/
def curAt (c0 : Cur) (q : Nat) : Cur := { c0 with p := q }

@[simp] theorem curAt_leaf (c0 : Cur) (q : Nat) : (curAt c0 q).leaf = c0.leaf := rfl
@[simp] theorem curAt_blk (c0 : Cur) (q : Nat) : (curAt c0 q).blk = c0.blk := rfl
@[simp] theorem curAt_crd (c0 : Cur) (q : Nat) : (curAt c0 q).crd = c0.crd := rfl
@[simp] theorem curAt_e (c0 : Cur) (q : Nat) : (curAt c0 q).e = c0.e := rfl
@[simp] theorem curAt_p (c0 : Cur) (q : Nat) : (curAt c0 q).p = q := rfl
@[simp] theorem curAt_ptrN (c0 : Cur) (q : Nat) : (curAt c0 q).ptrN = c0.ptrN := rfl
@[simp] theorem curAt_endN (c0 : Cur) (q : Nat) : (curAt c0 q).endN = c0.endN := rfl
@[simp] theorem curAt_crdN (c0 : Cur) (q : Nat) : (curAt c0 q).crdN = c0.crdN := rfl
@[simp] theorem curAt_valN (c0 : Cur) (q : Nat) : (curAt c0 q).valN = c0.valN := rfl
@[simp] theorem curAt_here (c0 : Cur) (q : Nat) : (curAt c0 q).here = c0.crd q := rfl
theorem curAt_self (c0 : Cur) : curAt c0 c0.p = c0 := rfl

theorem curAt_adv (c0 : Cur) (q : Nat) : (curAt c0 q).adv (c0.crd q) = curAt c0 (q + 1) := by
  simp [Cur.adv, curAt]

/-- `Σ_{k < n} f (p + k)` -/
def sumFrom (f : Nat → Nat) : Nat → Nat → Nat
  | _, 0 => 0
  | p, n + 1 => f p + sumFrom f (p + 1) n

/-- the position-indexed ghost predicate does not look at the variables the skeleton itself writes -/
def PosStable (Q : Nat → State F → Prop) (c0 : Cur) (idx : String) : Prop :=
  ∀ q σ σ', Q q σ → σ'.heap = σ.heap → σ'.tensors = σ.tensors →
    (∀ y, y ≠ idx → y ≠ c0.ptrN → y ≠ c0.valN → lookupVar σ'.vars y = lookupVar σ.vars y) → Q q σ'

/-- **The frame condition on the statements between the `min` and the increment, position-indexed, with an
exact iteration count.** At position `q` of the segment (cursor, loaded coordinate and index bound), `mid` runs
without error and without `return`, performs EXACTLY `κ q` loop iterations of its own, preserves the variables
of the skeleton and the `crd` block, and turns `Q q` into `Q (q + 1)`. -/
def MidAt (B : Nat) (κ : Nat → Nat) (Q : Nat → State F → Prop) (c0 : Cur) (idx : String)
    (mid : List (Stmt F)) : Prop :=
  ∀ (fuel : Nat) (σ : State F) (q : Nat), B ≤ fuel → c0.p ≤ q → q < c0.e →
    MergeInv σ [curAt c0 q] idx → IntVar σ c0.valN (c0.crd q) → IntVar σ idx (c0.crd q) → Q q σ →
    ∃ o, execL fuel mid σ = .ok o ∧ o.ret = none ∧ o.iters = κ q ∧
      (∀ x ∈ curNames [c0] idx, lookupVar o.st.vars x = lookupVar σ.vars x) ∧
      o.st.heap[c0.blk]? = σ.heap[c0.blk]? ∧ Q (q + 1) o.st

theorem namesOK_curAt {c0 : Cur} {idx : String} (h : NamesOK [c0] idx) (q : Nat) : NamesOK [curAt c0 q] idx := by
  have hm : c0 ∈ [c0] := List.mem_cons_self
  refine ⟨?_, by simp, by simp, ?_⟩
  · intro c hc
    simp only [List.mem_cons, List.not_mem_nil, or_false] at hc
    subst hc
    exact h.i_ne c0 hm
  · intro a ha b hb
    simp only [List.mem_cons, List.not_mem_nil, or_false] at ha hb
    subst ha hb
    exact h.cross c0 hm c0 hm

/-- one iteration of the skeleton at position `q` -/
theorem cursor_iter {B : Nat} {κ : Nat → Nat} {Q : Nat → State F → Prop} {c0 : Cur} {idx : String}
    {mid : List (Stmt F)} {fuel : Nat} {σ : State F} {q : Nat}
    (hN0 : NamesOK [c0] idx) (hq0 : c0.p ≤ q) (hq : q < c0.e) (hinv : MergeInv σ [curAt c0 q] idx)
    (hQ : Q q σ) (hstab : PosStable Q c0 idx) (hmid : MidAt B κ Q c0 idx mid) (hfuel : B ≤ fuel) :
    ∃ σ', RunsLN fuel (mergeBodyL [c0.leaf] idx mid) σ σ' (κ q) ∧
      MergeInv σ' [curAt c0 (q + 1)] idx ∧ Q (q + 1) σ' := by
  have hN := namesOK_curAt hN0 q
  let c := curAt c0 q
  have hcm : c ∈ [c] := List.mem_cons_self
  have hne : ([c] : List Cur) ≠ [] := by simp
  have hact : ∀ d ∈ [c], d.p < d.e := by
    intro d hd
    simp only [List.mem_cons, List.not_mem_nil, or_false] at hd
    subst hd; exact hq
  obtain ⟨m0, m1⟩ := curMin_range hne hinv.cur hact
  have hmin : curMin [c] = c0.crd q := rfl
  rw [hmin] at m0 m1
  -- load
  obtain ⟨σ1, r1, v1, fr1, hp1, ht1⟩ := loads_run fuel [c] σ hinv.cur hact hinv.val hN.val_pw
    (fun a ha b hb => ⟨(hN.cross b hb a ha).2.2.1, (hN.cross b hb a ha).2.2.2.2.2,
      (hN.cross b hb a ha).2.2.2.2.1⟩)
  have inv1 : ∀ d ∈ [c], CurInv σ1 d := fun d hd =>
    (hinv.cur d hd).congr (fr1 _ fun a ha => (hN.cross d hd a ha).2.2.2.2.2)
      (fr1 _ fun a ha => (hN.cross d hd a ha).2.2.1) (fr1 _ fun a ha => (hN.cross d hd a ha).2.2.2.2.1)
      (by rw [hp1])
  -- min
  have hval1 : ∀ d ∈ [c], evalE σ1 (.var d.valN) = .ok (.int d.here) := fun d hd => by
    obtain ⟨q0, q1⟩ := (hinv.cur d hd).rng d.p (Nat.le_refl _) (hact d hd)
    exact evalE_var_int (v1 d hd) q0 q1
  obtain ⟨σ2, r2, vi2, fr2, hp2, ht2⟩ := declInt_run (fuel := fuel) (x := idx)
    (hinv.idx.congr (fr1 _ fun a ha => (hN.i_ne a ha).2.2.2)) (evalE_minJoin hne hval1)
  rw [hmin] at vi2
  have inv2 : MergeInv σ2 [c] idx :=
    ⟨fun d hd => (inv1 d hd).congr (fr2 _ (Ne.symm (hN.i_ne d hd).2.2.1)) (fr2 _ (Ne.symm (hN.i_ne d hd).1))
        (fr2 _ (Ne.symm (hN.i_ne d hd).2.1)) (by rw [hp2]),
      fun d hd => DeclOK.of_intVar ((v1 d hd).congr (fr2 _ (Ne.symm (hN.i_ne d hd).2.2.2))),
      DeclOK.of_intVar vi2⟩
  have v2 : IntVar σ2 c0.valN (c0.crd q) := (v1 c hcm).congr (fr2 _ (Ne.symm (hN.i_ne c hcm).2.2.2))
  have Q1 : Q q σ1 := hstab q σ σ1 hQ hp1 ht1 fun y _ _ h3 => fr1 y fun d hd => by
    simp only [List.mem_cons, List.not_mem_nil, or_false] at hd
    subst hd; exact h3
  have Q2 : Q q σ2 := hstab q σ1 σ2 Q1 hp2 ht2 fun y h1 _ _ => fr2 y h1
  -- mid
  obtain ⟨o, eo, ro, ko, fr3, hb3, Q3⟩ := hmid fuel σ2 q hfuel hq0 hq inv2 v2 vi2 Q2
  have r3 : RunsLN fuel mid σ2 o.st (κ q) := ⟨o, eo, ro, rfl, ko⟩
  have hcn : ∀ x ∈ curNames [c] idx, lookupVar o.st.vars x = lookupVar σ2.vars x := fr3
  -- increment
  have vi3 : IntVar o.st idx (c0.crd q) := vi2.congr (hcn _ (by simp [curNames]))
  obtain ⟨σ4, r4, v4, fr4, hp4, ht4⟩ := incs_run fuel idx (c0.crd q) m0 m1 [c] o.st vi3
    (fun d hd => (inv2.cur d hd).ptrv.congr (hcn _ (mem_curNames hd).1))
    (fun d hd => by
      have := (mem_curNames (i := idx) hd).2.2.2
      simp only [List.mem_cons, List.not_mem_nil, or_false] at hd
      subst hd
      exact v2.congr (hcn _ this))
    (fun d hd => ⟨hact d hd, (hinv.cur d hd).lt, (hinv.cur d hd).rng d.p (Nat.le_refl _) (hact d hd)⟩)
    hN.ptr_pw (fun a ha b hb => Ne.symm (hN.cross a ha b hb).2.2.1) (fun a ha => (hN.i_ne a ha).1)
  have hadv : c.adv (c0.crd q) = curAt c0 (q + 1) := curAt_adv c0 q
  refine ⟨σ4, ?_, ?_, ?_⟩
  · have hrun := RunsLN.append (RunsLN.append (RunsLN.append r1 (RunsLN.cons r2 (RunsLN.nil _ _))) r3) r4
    have hb : mergeBodyL [c0.leaf] idx mid = loadsOf [c] ++ [declAssignE idx .int
        (minJoin ([c].map fun d => (.var d.valN : Expr F)))] ++ mid ++ incsOf [c] idx := by
      have h1 := mergeLoads_map (F := F) [c]
      have h2 := mergeMin_map (F := F) [c] idx
      have h3 := mergeIncs_map (F := F) [c] idx
      simp only [List.map_cons, List.map_nil, c, curAt_leaf] at h1 h2 h3
      unfold mergeBodyL
      rw [h1, h2, h3]
      rfl
    rw [hb]
    have hz : 0 + 0 + κ q + 0 = κ q := by omega
    rw [hz] at hrun
    exact hrun
  · refine ⟨?_, ?_, ?_⟩
    · intro c' hc'
      simp only [List.mem_cons, List.not_mem_nil, or_false] at hc'
      subst hc'
      rw [← hadv]
      refine (inv2.cur c hcm).adv hq ?_ (v4 c hcm) ?_ ?_
      · rw [fr4 _ fun a ha => Ne.symm (hN.cross a ha c hcm).2.1, hcn _ (mem_curNames hcm).2.2.1]
      · rw [fr4 _ fun a ha => Ne.symm (hN.cross a ha c hcm).1, hcn _ (mem_curNames hcm).2.1]
      · rw [hp4]; exact hb3
    · intro c' hc'
      simp only [List.mem_cons, List.not_mem_nil, or_false] at hc'
      subst hc'
      exact DeclOK.of_intVar ((v2.congr (hcn _ (mem_curNames hcm).2.2.2)).congr
        (fr4 _ fun a ha => Ne.symm (hN.cross a ha c hcm).2.2.1))
    · exact DeclOK.of_intVar (vi3.congr (fr4 _ fun a ha => (hN.i_ne a ha).1))
  · refine hstab _ o.st σ4 Q3 hp4 ht4 fun y _ h2 _ => fr4 y fun d hd => ?_
    simp only [List.mem_cons, List.not_mem_nil, or_false] at hd
    subst hd; exact h2

/-- **C05's merge loop over one leaf, position-indexed, with the exact iteration count.** From a state
satisfying the merge invariant for the cursor at position `c0.p` and the ghost predicate `Q c0.p`, the loop
runs without error with any fuel `≥ (e − p) + 1 + B`, ends with the cursor at `e` and `Q e`, and
`o.iters = Σ_{p ≤ q < e} (κ q + 1)` — the iterations of the loop itself plus those of the loops nested in
`mid`. -/
theorem cursor_loop_exact {B : Nat} {κ : Nat → Nat} {Q : Nat → State F → Prop} (c0 : Cur) (idx : String)
    (mid : List (Stmt F)) (hN0 : NamesOK [c0] idx) (hstab : PosStable Q c0 idx)
    (hmid : MidAt B κ Q c0 idx mid) :
    ∀ (rem q : Nat) (σ : State F) (fuel : Nat), q + rem = c0.e → c0.p ≤ q →
      MergeInv σ [curAt c0 q] idx → Q q σ → rem + 1 + B ≤ fuel →
      ∃ o, exec fuel (mergeLoopL [c0.leaf] idx mid) σ = .ok o ∧ o.ret = none ∧
        o.iters = sumFrom κ q rem + rem ∧ MergeInv o.st [curAt c0 c0.e] idx ∧ Q c0.e o.st := by
  intro rem
  induction rem with
  | zero =>
    intro q σ fuel hq _ hinv hQ hfuel
    obtain ⟨f, rfl⟩ : ∃ f, fuel = f + 1 := ⟨fuel - 1, by omega⟩
    have hqe : q = c0.e := by omega
    subst hqe
    have hb : curActive [curAt c0 c0.e] = false := by simp [curActive]
    have hc := evalE_mergeCond (F := F) hinv.cur
    rw [hb] at hc
    simp only [List.map_cons, List.map_nil, curAt_leaf] at hc
    exact ⟨⟨σ, none, 0, 1⟩, exec_loop_exit f hc, rfl, by simp [sumFrom], hinv, hQ⟩
  | succ rem ih =>
    intro q σ fuel hq hq0 hinv hQ hfuel
    obtain ⟨f, rfl⟩ : ∃ f, fuel = f + 1 := ⟨fuel - 1, by omega⟩
    have hlt : q < c0.e := by omega
    have hb : curActive [curAt c0 q] = true := by simp [curActive, hlt]
    have hc := evalE_mergeCond (F := F) hinv.cur
    rw [hb] at hc
    simp only [List.map_cons, List.map_nil, curAt_leaf] at hc
    obtain ⟨σ', rb, inv', Q'⟩ := cursor_iter (fuel := f) hN0 hq0 hlt hinv hQ hstab hmid (by omega)
    obtain ⟨o1, e1, ret1, st1, it1⟩ := RunsN.block (c := none) rb
    obtain ⟨o2, e2, ret2, it2, inv2, Q2⟩ := ih (q + 1) σ' f (by omega) (by omega) inv' Q' (by omega)
    subst st1
    refine ⟨_, exec_loop_step hc e1 ret1 e2, ret2, ?_, inv2, Q2⟩
    simp only [sumFrom, it1, it2]
    omega

end TV.Sparse2
