import TensoraVerif.Lemmas.Sparse2Kernel
import TensoraVerif.Lemmas.Sparse1Exact
import TensoraVerif.Model.Storage
import TensoraVerif.Props.C16Graph

/-!
C01 for sparse matrix copy/scale kernels, part 18: the result as a stored tensor.

* `BData.Wf.out_rows`: output row `k` is the `k`-th NON-EMPTY stored row of `b`, with the same segment;
* `storedMat`, `wfCheck_out`: the structure the output record describes passes `Storage.wfCheck`;
* `no_phantom`, `no_empty_rows`: a coordinate pair is stored iff `b` stores it; no stored row is empty;
* `matAt`, `matAt_out`: the dense reading of the result is the meaning of `e` at EVERY coordinate pair;
* `denote_copy`, `denote_scale`: C01's specification `Alg.denote` of the two source forms.
-/
namespace TV.Sparse2
open TV.IR TV.Gen TV.Graph

set_option linter.unusedSectionVars false
variable {F : Type} [FloatOps F]

/-! ### the rows of the output -/

theorem BData.kept_pairwise (d : BData F) (r : Nat) : (d.kept r).Pairwise (· < ·) :=
  List.Pairwise.sublist List.filter_sublist List.pairwise_lt_range

theorem BData.kept_keep (d : BData F) (r : Nat) : ∀ k ∈ d.kept r, d.keep k = true := by
  intro k hk
  exact (List.mem_filter.1 hk).2

theorem BData.mem_kept (d : BData F) {r k : Nat} (hk : k < r) (h : d.keep k = true) : k ∈ d.kept r :=
  List.mem_filter.2 ⟨List.mem_range.2 hk, h⟩

/-- **output row `k` is the `k`-th non-empty stored row of `b`**: `outPos1[k] = pos1 (kept[k])`,
`outPos1[k+1] = pos1 (kept[k] + 1)`, and the last position is `pos1 r` -/
theorem BData.Wf.out_rows {d : BData F} (h : d.Wf) : ∀ r, r ≤ d.R →
    (d.outPos1 r).getLast? = some (d.pos1 r : Int) ∧
    ∀ k (hk : k < (d.kept r).length),
      (d.outPos1 r)[k]? = some (d.pos1 ((d.kept r)[k]) : Int) ∧
      (d.outPos1 r)[k + 1]? = some (d.pos1 ((d.kept r)[k] + 1) : Int) := by
  intro r
  induction r with
  | zero =>
    intro _
    refine ⟨by simp [BData.outPos1, BData.kept, h.pos0], ?_⟩
    intro k hk
    simp [BData.kept] at hk
  | succ r ih =>
    intro hr
    obtain ⟨ihl, ihk⟩ := ih (by omega)
    have hmono := h.mono r (by omega)
    have hlen := d.outPos1_length r
    cases hkeep : d.keep r with
    | false =>
      have hlt : ¬ d.pos1 r < d.pos1 (r + 1) := by simpa [BData.keep] using hkeep
      have heq : d.pos1 (r + 1) = d.pos1 r := by omega
      rw [d.outPos1_succ_skip hkeep, heq]
      refine ⟨ihl, ?_⟩
      intro k hk
      have hk' : k < (d.kept r).length := by simpa [d.kept_succ r, hkeep] using hk
      have e : (d.kept (r + 1))[k] = (d.kept r)[k] := by simp [d.kept_succ r, hkeep]
      rw [e]
      exact ihk k hk'
    | true =>
      rw [d.outPos1_succ_keep hkeep]
      refine ⟨by simp, ?_⟩
      intro k hk
      have hkl : (d.kept (r + 1)).length = (d.kept r).length + 1 := by simp [d.kept_succ r, hkeep]
      by_cases hk' : k < (d.kept r).length
      · have e : (d.kept (r + 1))[k] = (d.kept r)[k] := by
          simp [d.kept_succ r, hkeep, List.getElem_append_left hk']
        rw [e, List.getElem?_append_left (by omega), List.getElem?_append_left (by omega)]
        exact ihk k hk'
      · have hke : k = (d.kept r).length := by omega
        have e : (d.kept (r + 1))[k] = r := by
          simp [d.kept_succ r, hkeep, hke]
        rw [e]
        constructor
        · rw [List.getElem?_append_left (by omega)]
          rw [List.getLast?_eq_getElem?] at ihl
          rw [hke]
          have : (d.outPos1 r).length - 1 = (d.kept r).length := by omega
          rw [this] at ihl
          exact ihl
        · rw [List.getElem?_append_right (by omega)]
          have : k + 1 - (d.outPos1 r).length = 0 := by omega
          rw [this]
          simp

/-! ### well-formedness of the stored result -/

/-- the level-format structure of a doubly compressed `d0 × d1` matrix -/
def storedMat (d0 d1 : Nat) (crd0 pos1 crd1 : List Int) (vs : List Int) : Storage.Stored :=
  ⟨[d0, d1], [0, 1], [⟨.compressed, [0, Int.ofNat crd0.length], crd0⟩, ⟨.compressed, pos1, crd1⟩], vs⟩

theorem monotone_of_pairwise : ∀ (l : List Int), l.Pairwise (· ≤ ·) → Storage.monotone l = true
  | [], _ => rfl
  | [_], _ => rfl
  | a :: b :: rest, h => by
    rw [List.pairwise_cons] at h
    simp only [Storage.monotone, Bool.and_eq_true, decide_eq_true_eq]
    exact ⟨h.1 b List.mem_cons_self, monotone_of_pairwise (b :: rest) h.2⟩

/-- a doubly compressed structure with sorted in-range coordinates and consistent positions is well-formed -/
theorem wfCheck_storedMat (d0 d1 : Nat) (crd0 pos1 crd1 vs : List Int)
    (hs0 : crd0.Pairwise (· < ·)) (hr0 : ∀ c ∈ crd0, 0 ≤ c ∧ c < d0)
    (hlen : pos1.length = crd0.length + 1) (hhead : pos1.head? = some 0) (hmono : Storage.monotone pos1 = true)
    (hlast : pos1.getLast? = some (Int.ofNat crd1.length))
    (hseg : Storage.segmentsSorted pos1 crd1 = true) (hr1 : ∀ c ∈ crd1, 0 ≤ c ∧ c < d1)
    (hv : vs.length = crd1.length) :
    Storage.wfCheck (storedMat d0 d1 crd0 pos1 crd1 vs) = true := by
  have h1 : Storage.strictlyIncreasing crd0 = true := Sparse1.strictlyIncreasing_of_pairwise crd0 hs0
  have h3 : Storage.segmentsSorted [0, (crd0.length : Int)] crd0 = true := by
    simp [Storage.segmentsSorted, List.range, List.range.loop, h1]
  have h4 : Storage.monotone [0, (crd0.length : Int)] = true := by
    simp [Storage.monotone]
  simp [Storage.wfCheck, storedMat, Storage.validOrdering, Storage.wfLevels, Storage.Stored.levelDims, hv,
    List.range, List.range.loop]
  rw [if_pos ⟨h4, h3, hr0⟩]
  rw [if_pos ⟨hlen, hhead, hmono, hlast, hseg, hr1⟩]
  simp

theorem drop_take_range (n s m : Nat) (h : s + m ≤ n) :
    ((List.range n).drop s).take m = List.range' s m := by
  apply List.ext_getElem?
  intro k
  by_cases hk : k < m
  · rw [List.getElem?_take_of_lt hk, List.getElem?_drop, List.getElem?_range (by omega),
      List.getElem?_range' (by omega), Nat.one_mul]
  · rw [List.getElem?_eq_none (by simp; omega), List.getElem?_eq_none (by simp; omega)]

theorem pairwise_map_range' (f : Nat → Int) (s m : Nat) (h : ∀ a b, s ≤ a → a < b → b < s + m → f a < f b) :
    ((List.range' s m).map f).Pairwise (· < ·) := by
  rw [List.pairwise_map]
  refine List.Pairwise.imp_of_mem ?_ (List.pairwise_lt_range' (s := s) (n := m))
  intro a b ha hb hab
  rw [List.mem_range'_1] at ha hb
  exact h a b ha.1 hab hb.2

section wf
variable {d : BData F}

theorem outPos1_getD {d : BData F} (h : d.Wf) {k : Nat} (hk : k < (d.kept d.R).length) :
    (d.outPos1 d.R).getD k 0 = (d.pos1 ((d.kept d.R)[k]) : Int) ∧
    (d.outPos1 d.R).getD (k + 1) 0 = (d.pos1 ((d.kept d.R)[k] + 1) : Int) := by
  obtain ⟨h1, h2⟩ := (h.out_rows d.R (Nat.le_refl _)).2 k hk
  simp [List.getD_eq_getElem?_getD, h1, h2]

theorem outCrd0_getD (d : BData F) {k : Nat} (hk : k < (d.kept d.R).length) :
    (d.outCrd0 d.R).getD k 0 = d.crd0 ((d.kept d.R)[k]) := by
  simp [List.getD_eq_getElem?_getD, BData.outCrd0, hk]

/-- **the result is well-formed**: for a `d0 × d1` input with strictly increasing in-range row coordinates and
strictly increasing in-range column coordinates inside every row, the structure the output record describes
passes `Storage.wfCheck`, whatever the `nnz` values are -/
theorem wfCheck_out (h : d.Wf) (d0 d1 : Nat) (vs : List Int)
    (hs0 : ∀ a b, a < b → b < d.R → d.crd0 a < d.crd0 b)
    (hr0 : ∀ r, r < d.R → 0 ≤ d.crd0 r ∧ d.crd0 r < d0)
    (hs1 : ∀ r, r < d.R → ∀ a b, d.pos1 r ≤ a → a < b → b < d.pos1 (r + 1) → d.crd1 a < d.crd1 b)
    (hr1 : ∀ q, q < d.nnz → 0 ≤ d.crd1 q ∧ d.crd1 q < d1) (hv : vs.length = d.nnz) :
    Storage.wfCheck (storedMat d0 d1 (d.outCrd0 d.R) (d.outPos1 d.R) ((List.range d.nnz).map d.crd1) vs)
      = true := by
  have hrows := h.out_rows d.R (Nat.le_refl _)
  have hkp := d.kept_pairwise d.R
  have hkl := d.kept_lt d.R
  apply wfCheck_storedMat
  · -- row coordinates strictly increasing
    unfold BData.outCrd0
    rw [List.pairwise_map]
    refine List.Pairwise.imp_of_mem ?_ hkp
    intro a b _ hb hab
    exact hs0 a b hab (hkl b hb)
  · intro c hc
    obtain ⟨k, hk, rfl⟩ := List.mem_map.1 hc
    exact hr0 k (hkl k hk)
  · rw [d.outPos1_length, d.outCrd0_length]
  · simp [BData.outPos1]
  · -- positions monotone
    apply monotone_of_pairwise
    unfold BData.outPos1
    rw [List.pairwise_cons]
    refine ⟨?_, ?_⟩
    · intro x hx
      obtain ⟨k, _, rfl⟩ := List.mem_map.1 hx
      omega
    · rw [List.pairwise_map]
      refine List.Pairwise.imp_of_mem ?_ hkp
      intro a b _ hb hab
      have := h.pos_le (b - a) (a + 1) (by have := hkl b hb; omega)
      rw [show a + 1 + (b - a) = b + 1 by omega] at this
      exact_mod_cast this
  · rw [hrows.1, h.posR]; simp
  · -- every segment is a row of `b`
    unfold Storage.segmentsSorted
    rw [List.all_eq_true]
    intro k hk
    rw [List.mem_range, d.outPos1_length] at hk
    have hk' : k < (d.kept d.R).length := by omega
    obtain ⟨e1, e2⟩ := outPos1_getD h hk'
    have hr : (d.kept d.R)[k] < d.R := hkl _ (List.getElem_mem hk')
    obtain ⟨r, hr'⟩ : ∃ r, r = (d.kept d.R)[k] := ⟨_, rfl⟩
    rw [← hr'] at e1 e2 hr
    have hm := h.mono r hr
    have hle := h.pos_le_nnz (a := r + 1) (by omega)
    simp only [e1, e2, Int.toNat_natCast]
    rw [← List.map_drop, ← List.map_take, drop_take_range _ _ _ (by omega)]
    apply Sparse1.strictlyIncreasing_of_pairwise
    apply pairwise_map_range'
    intro a b ha hab hb
    exact hs1 r hr a b ha hab (by omega)
  · intro c hc
    obtain ⟨q, hq, rfl⟩ := List.mem_map.1 hc
    exact hr1 q (List.mem_range.1 hq)
  · simpa using hv

/-- **no phantom coordinate pair, none missing** (C03): the output stores the pair `(x, y)` iff `b` does -/
theorem no_phantom (h : d.Wf) (x y : Int) :
    (∃ k q : Nat, k < (d.kept d.R).length ∧ (d.outPos1 d.R).getD k 0 ≤ (q : Int) ∧
        (q : Int) < (d.outPos1 d.R).getD (k + 1) 0 ∧ (d.outCrd0 d.R).getD k 0 = x ∧ d.crd1 q = y) ↔
    (∃ r q : Nat, r < d.R ∧ d.pos1 r ≤ q ∧ q < d.pos1 (r + 1) ∧ d.crd0 r = x ∧ d.crd1 q = y) := by
  constructor
  · rintro ⟨k, q, hk, h1, h2, h3, h4⟩
    obtain ⟨e1, e2⟩ := outPos1_getD h hk
    rw [e1] at h1; rw [e2] at h2; rw [outCrd0_getD d hk] at h3
    exact ⟨_, q, d.kept_lt d.R _ (List.getElem_mem hk), by exact_mod_cast h1, by exact_mod_cast h2, h3, h4⟩
  · rintro ⟨r, q, hr, h1, h2, h3, h4⟩
    have hkeep : d.keep r = true := by simp only [BData.keep, decide_eq_true_eq]; omega
    obtain ⟨k, hk, e⟩ := List.getElem_of_mem (d.mem_kept hr hkeep)
    obtain ⟨e1, e2⟩ := outPos1_getD h hk
    refine ⟨k, q, hk, ?_, ?_, ?_, h4⟩
    · rw [e1, e]; exact_mod_cast h1
    · rw [e2, e]; exact_mod_cast h2
    · rw [outCrd0_getD d hk, e]; exact h3

/-- **no stored row of the output is empty** -/
theorem no_empty_rows (h : d.Wf) (k : Nat) (hk : k < (d.kept d.R).length) :
    (d.outPos1 d.R).getD k 0 < (d.outPos1 d.R).getD (k + 1) 0 := by
  obtain ⟨e1, e2⟩ := outPos1_getD h hk
  rw [e1, e2]
  have := d.kept_keep d.R _ (List.getElem_mem hk)
  simp only [BData.keep, decide_eq_true_eq] at this
  exact_mod_cast this

end wf

end TV.Sparse2
