import TensoraVerif.Lemmas.Sparse2Generate
import TensoraVerif.Lemmas.Sparse2Arr
import TensoraVerif.Lemmas.Sparse1Frags

/-!
C01 for sparse matrix copy/scale kernels, part 14: prologue fragments on the machine — `t->dimensions[k]`,
`t->indices[l][j]`, "Unpack tensors" for one doubly compressed matrix (`unpack2_runs`), the allocation of one
output array (`allocPart_runs`) and the store `pos[0] = 0` (`store0_runs`).
-/
namespace TV.Sparse2
open TV.IR TV.Gen TV.Graph TV.Growth TV.Dense1

set_option linter.unusedSectionVars false
variable {F : Type} [FloatOps F]

/-- `t->dimensions[d]` -/
theorem evalE_dim {σ : State F} {x : String} {k : Nat} {tr : TensorRec F} {blk : Block F} {n : Int} (d : Nat)
    (hx : TensorVar σ x k) (htr : σ.tensors[k]? = some tr) (hb : σ.heap[tr.dimsBlk]? = some blk)
    (hlive : blk.live = true) (hty : blk.ty = .int) (hc : blk.cells[d]? = some (some (.int n)))
    (hd : (d : Int) < 2147483648) (hn0 : -2147483648 ≤ n) (hn : n < 2147483648) :
    evalE σ (.idx (.attr (.var x) "dimensions") (.intLit d)) = .ok (.int n) := by
  have e1 : evalE σ (.attr (.var x) "dimensions") = .ok (.ptr tr.dimsBlk 0) := by
    rw [evalE, evalE_var_tensor hx]
    simp [bind, Except.bind, htr]
  have hlen : d < blk.cells.length := lt_length_of_getElem? hc
  have hlen' : ¬ ((blk.cells.length : Int) ≤ (d : Int)) := by omega
  rw [evalE, e1, evalE_intLit (by omega) hd]
  simp [bind, Except.bind, readBlock, hb, hlive, Block.len, hlen', hc, hty, hasElemTy, chkVal, chkInt,
    inI32_of hn0 hn]

/-- `t->indices[l][j]` -/
theorem evalE_slot {σ : State F} {x : String} {k : Nat} {tr : TensorRec F} {p c : Val F} {j : Int} (l : Nat)
    (hx : TensorVar σ x k) (htr : σ.tensors[k]? = some tr) (hord : l < tr.order) (hl : (l : Int) < 2147483648)
    (hs : tr.slots[l]? = some (some (p, c))) (hp : isPtrVal p = true) (hc : isPtrVal c = true)
    (hj : j = 0 ∨ j = 1) :
    evalE σ (.idx (.idx (.attr (.var x) "indices") (.intLit l)) (.intLit j)) =
      .ok (if j = 0 then p else c) := by
  have elv : evalE σ (.idx (.attr (.var x) "indices") (.intLit (l : Int))) = .ok (.level k l) :=
    Cleanup.evalE_level hx htr hord hl
  have ej : evalE σ (.intLit j) = .ok (.int j) := evalE_intLit (by omega) (by omega)
  rw [evalE.eq_3]
  rcases hj with rfl | rfl <;> simp [elv, ej, bind, Except.bind, htr, hs, hp, hc]

/-- "Unpack tensors" for one doubly compressed matrix `x`: the five declarations run and bind the new
variables to the slot contents and the `vals` pointer of the tensor record -/
theorem unpack2_runs {fuel : Nat} {σ : State F} {x : String} {k : Nat} {tr : TensorRec F}
    {p0 c0 p1 c1 : Val F}
    (hx : TensorVar σ x k) (htr : σ.tensors[k]? = some tr) (hord : 2 ≤ tr.order)
    (hs0 : tr.slots[0]? = some (some (p0, c0))) (hs1 : tr.slots[1]? = some (some (p1, c1)))
    (hp0 : isPtrVal p0 = true) (hc0 : isPtrVal c0 = true) (hp1 : isPtrVal p1 = true) (hc1 : isPtrVal c1 = true)
    (hv : isPtrVal tr.vals = true)
    (hnd : [x, posName x 0, crdName x 0, posName x 1, crdName x 1, valsName x].Nodup)
    (f1 : lookupVar σ.vars (posName x 0) = none) (f2 : lookupVar σ.vars (crdName x 0) = none)
    (f3 : lookupVar σ.vars (posName x 1) = none) (f4 : lookupVar σ.vars (crdName x 1) = none)
    (f5 : lookupVar σ.vars (valsName x) = none) :
    ∃ σ', RunsLI fuel (unpackStmts x) σ σ' 0 ∧ σ'.heap = σ.heap ∧ σ'.tensors = σ.tensors ∧
      (∃ r, lookupVar σ'.vars (posName x 0) = some r ∧ r.ty = .ptr .int ∧ r.val = some p0) ∧
      (∃ r, lookupVar σ'.vars (crdName x 0) = some r ∧ r.ty = .ptr .int ∧ r.val = some c0) ∧
      (∃ r, lookupVar σ'.vars (posName x 1) = some r ∧ r.ty = .ptr .int ∧ r.val = some p1) ∧
      (∃ r, lookupVar σ'.vars (crdName x 1) = some r ∧ r.ty = .ptr .int ∧ r.val = some c1) ∧
      (∃ r, lookupVar σ'.vars (valsName x) = some r ∧ r.ty = .ptr .float ∧ r.val = some tr.vals) ∧
      VFrame [posName x 0, crdName x 0, posName x 1, crdName x 1, valsName x] σ σ' := by
  simp only [List.nodup_cons, List.mem_cons, List.not_mem_nil, or_false, not_or, List.nodup_nil, and_true,
    not_false_eq_true] at hnd
  obtain ⟨⟨n01, n02, n03, n04, n05⟩, ⟨n12, n13, n14, n15⟩, ⟨n23, n24, n25⟩, ⟨n34, n35⟩, n45⟩ := hnd
  obtain ⟨σ1, r1, hh1, ht1, v1, o1⟩ := Sparse1.declFresh (fuel := fuel) (t := .ptr .int) f1
    (evalE_slot (j := 0) 0 hx htr (by omega) (by omega) hs0 hp0 hc0 (.inl rfl)) (convTo_ptr_of_isPtrVal .int hp0)
  have hx1 : TensorVar σ1 x k := hx.congr (o1 _ n01)
  obtain ⟨σ2, r2, hh2, ht2, v2, o2⟩ := Sparse1.declFresh (fuel := fuel) (t := .ptr .int)
    (x := crdName x 0) (by rw [o1 _ (Ne.symm n12)]; exact f2)
    (evalE_slot (j := 1) 0 hx1 (by rw [ht1]; exact htr) (by omega) (by omega) hs0 hp0 hc0 (.inr rfl))
    (convTo_ptr_of_isPtrVal .int hc0)
  have hx2 : TensorVar σ2 x k := hx1.congr (o2 _ n02)
  obtain ⟨σ3, r3, hh3, ht3, v3, o3⟩ := Sparse1.declFresh (fuel := fuel) (t := .ptr .int)
    (x := posName x 1) (by rw [o2 _ (Ne.symm n23), o1 _ (Ne.symm n13)]; exact f3)
    (evalE_slot (j := 0) 1 hx2 (by rw [ht2, ht1]; exact htr) (by omega) (by omega) hs1 hp1 hc1 (.inl rfl))
    (convTo_ptr_of_isPtrVal .int hp1)
  have hx3 : TensorVar σ3 x k := hx2.congr (o3 _ n03)
  obtain ⟨σ4, r4, hh4, ht4, v4, o4⟩ := Sparse1.declFresh (fuel := fuel) (t := .ptr .int)
    (x := crdName x 1) (by rw [o3 _ (Ne.symm n34), o2 _ (Ne.symm n24), o1 _ (Ne.symm n14)]; exact f4)
    (evalE_slot (j := 1) 1 hx3 (by rw [ht3, ht2, ht1]; exact htr) (by omega) (by omega) hs1 hp1 hc1 (.inr rfl))
    (convTo_ptr_of_isPtrVal .int hc1)
  have hx4 : TensorVar σ4 x k := hx3.congr (o4 _ n04)
  obtain ⟨σ5, r5, hh5, ht5, v5, o5⟩ := Sparse1.declFresh (fuel := fuel) (t := .ptr .float)
    (x := valsName x)
    (by rw [o4 _ (Ne.symm n45), o3 _ (Ne.symm n35), o2 _ (Ne.symm n25), o1 _ (Ne.symm n15)]; exact f5)
    (evalE_vals hx4 (by rw [ht4, ht3, ht2, ht1]; exact htr) hv) (convTo_ptr_of_isPtrVal .float hv)
  refine ⟨σ5, RunsLI.cons r1 (RunsLI.cons r2 (RunsLI.cons r3 (RunsLI.cons r4 (RunsLI.cons r5 (RunsLI.nil _ _))))),
    by rw [hh5, hh4, hh3, hh2, hh1], by rw [ht5, ht4, ht3, ht2, ht1], ?_, ?_, ?_, ?_, v5, ?_⟩
  · obtain ⟨r, e1, e2, e3⟩ := v1
    exact ⟨r, by rw [o5 _ n15, o4 _ n14, o3 _ n13, o2 _ n12]; exact e1, e2, by simpa using e3⟩
  · obtain ⟨r, e1, e2, e3⟩ := v2
    exact ⟨r, by rw [o5 _ n25, o4 _ n24, o3 _ n23]; exact e1, e2, by simpa using e3⟩
  · obtain ⟨r, e1, e2, e3⟩ := v3
    exact ⟨r, by rw [o5 _ n35, o4 _ n34]; exact e1, e2, by simpa using e3⟩
  · obtain ⟨r, e1, e2, e3⟩ := v4
    exact ⟨r, by rw [o5 _ n45]; exact e1, e2, by simpa using e3⟩
  · intro y hy
    simp only [List.mem_cons, List.not_mem_nil, or_false, not_or] at hy
    rw [o5 y hy.2.2.2.2, o4 y hy.2.2.2.1, o3 y hy.2.2.1, o2 y hy.2.1, o1 y hy.1]

/-- `int cap = e; arr = malloc(sizeof(ty) * cap);` for a fresh capacity variable and a declared pointer -/
theorem allocPart_runs {fuel : Nat} {σ : State F} {capN arrN : String} {ty : Ty} {ety : ElemTy} {e : Expr F}
    {k : Int} {r : VarRec F} {t : Ty}
    (hne : arrN ≠ capN) (hcap : lookupVar σ.vars capN = none)
    (harr : lookupVar σ.vars arrN = some r) (hrt : r.ty = .ptr t)
    (he : evalE σ e = .ok (.int k)) (h0 : 0 ≤ k) (h1 : k < 2147483648) (hty : elemOf ty = .ok ety) :
    ∃ σ', RunsLI fuel [declAssignE capN .int e, .assign (.var arrN) (.alloc ty (.var capN))] σ σ' 0 ∧
      σ'.heap = σ.heap ++ [⟨ety, List.replicate k.toNat none, .output, true⟩] ∧ σ'.tensors = σ.tensors ∧
      IntVar σ' capN k ∧ PtrVar σ' arrN σ.heap.length ∧ VFrame [capN, arrN] σ σ' := by
  obtain ⟨σ1, r1, hh1, ht1, v1, o1⟩ := Sparse1.declFresh (fuel := fuel) (x := capN) (t := .int)
    (val' := .int k) hcap he rfl
  have v1' : IntVar σ1 capN k := v1
  obtain ⟨σ2, r2, ht2, hh2, v2, o2⟩ := runsI_alloc (fuel := fuel) (σ := σ1) (ty := ty) (ety := ety)
    (arr := arrN) (r := r) (t := t) (by rw [o1 _ hne]; exact harr) hrt v1' h0 h1 hty
  refine ⟨σ2, RunsLI.cons r1 (RunsLI.cons r2 (RunsLI.nil _ _)), by rw [hh2, hh1], by rw [ht2, ht1],
    v1'.congr (o2 _ (Ne.symm hne)), by rw [← hh1]; exact v2, ?_⟩
  intro y hy
  simp only [List.mem_cons, List.not_mem_nil, or_false, not_or] at hy
  rw [o2 y hy.2, o1 y hy.1]

/-- `arr[0] = 0;` for an `int` output block with at least one cell -/
theorem store0_runs {fuel : Nat} {σ : State F} {arrN : String} {b : Nat} {blk : Block F}
    (ha : PtrVar σ arrN b) (hb : σ.heap[b]? = some blk) (hlive : blk.live = true) (hown : blk.owner = .output)
    (hty : blk.ty = .int) (hlen : 0 < blk.cells.length) :
    ∃ σ', RunsI fuel (.assign (.idx (.var arrN) (.intLit 0)) (.intLit 0)) σ σ' 0 ∧ σ'.vars = σ.vars ∧
      σ'.tensors = σ.tensors ∧
      σ'.heap = σ.heap.set b { blk with cells := blk.cells.set 0 (some (.int 0)) } :=
  ⟨_, RunsI.of_assign (Runs.store_cell (fuel := fuel) (i := (.intLit 0 : Expr F)) (e := (.intLit 0 : Expr F))
    (k := 0) (val := .int 0) (val' := .int 0) ha (evalE_intLit (by omega) (by omega))
    (evalE_intLit (by omega) (by omega)) hb hlive hown (by omega) (by omega) (by rw [hty]; rfl)), rfl, rfl, rfl⟩

end TV.Sparse2
