import TensoraVerif.Lemmas.Sparse2Lower
import TensoraVerif.Lemmas.LoweringGenerate
import TensoraVerif.Lemmas.DenseNGenerate

/-!
C01 for sparse matrix copy/scale kernels, part 3: what `generateIr` produces on the class — the whole
`evaluate` function, written out (`kernel`, `generateIr_eq`).
-/
namespace TV.Sparse2
open TV.IR TV.Gen TV.Graph TV.Merge
set_option linter.unusedSectionVars false
variable {F : Type} [FloatOps F]

/-- all tensors of the format table are doubly compressed matrices -/
def ssFormats (formats : Formats) : Bool :=
  formats.all fun f => f.2.1 == [Mode.compressed, Mode.compressed]

/-- `int* t_0_pos = t->indices[0][0]; int* t_0_crd = t->indices[0][1]; int* t_1_pos = t->indices[1][0];
int* t_1_crd = t->indices[1][1]; double* t_vals = t->vals;` -/
def unpackStmts (name : String) : List (Stmt F) :=
  [declAssignE (posName name 0) (.ptr .int) (.idx (.idx (.attr (.var name) "indices") (.intLit 0)) (.intLit 0)),
   declAssignE (crdName name 0) (.ptr .int) (.idx (.idx (.attr (.var name) "indices") (.intLit 0)) (.intLit 1)),
   declAssignE (posName name 1) (.ptr .int) (.idx (.idx (.attr (.var name) "indices") (.intLit 1)) (.intLit 0)),
   declAssignE (crdName name 1) (.ptr .int) (.idx (.idx (.attr (.var name) "indices") (.intLit 1)) (.intLit 1)),
   declAssignE (valsName name) (.ptr .float) (.attr (.var name) "vals")]

theorem unpackDecls_eq (formats : Formats) (h : ssFormats formats = true) :
    (unpackDecls formats : List (Stmt F)) = formats.flatMap fun f => unpackStmts f.1 := by
  induction formats with
  | nil => rfl
  | cons f fs ih =>
    obtain ⟨name, modes, ord⟩ := f
    simp only [ssFormats, List.all_cons, Bool.and_eq_true, beq_iff_eq] at h
    have hm : modes = [Mode.compressed, Mode.compressed] := h.1
    have := ih (by simpa [ssFormats] using h.2)
    simp only [unpackDecls] at this ⊢
    rw [List.flatMap_cons, this]
    simp [hm, List.range, List.range.loop, unpackStmts]

/-- the "Output initialization" block of a doubly compressed matrix -/
def outInit (cap : Option Int) (outT : TensorId) : List (Stmt F) :=
  [declAssignE (posCapName outT.name 0) .int (plus (.intLit 1) (.intLit 1)),
   .assign (.var (posName outT.name 0)) (.alloc .int (.var (posCapName outT.name 0))),
   .assign (.idx (.var (posName outT.name 0)) (.intLit 0)) (.intLit 0),
   declAssignE (crdCapName outT.name 0) .int (defaultArraySize cap),
   .assign (.var (crdName outT.name 0)) (.alloc .int (.var (crdCapName outT.name 0))),
   declAssignE (layerPointer outT.id 0) .int (.intLit 0),
   declAssignE (posCapName outT.name 1) .int (defaultArraySize cap),
   .assign (.var (posName outT.name 1)) (.alloc .int (.var (posCapName outT.name 1))),
   .assign (.idx (.var (posName outT.name 1)) (.intLit 0)) (.intLit 0),
   declAssignE (crdCapName outT.name 1) .int (defaultArraySize cap),
   .assign (.var (crdName outT.name 1)) (.alloc .int (.var (crdCapName outT.name 1))),
   declAssignE (layerPointer outT.id 1) .int (.intLit 0),
   declAssignE (valsCapName outT.name) .int (defaultArraySize cap),
   .assign (.var (valsName outT.name)) (.alloc .float (.var (valsCapName outT.name)))]

theorem appendDeclarations_eq2 (cap : Option Int) (outT : TensorId)
    (hm : outT.modes = [.compressed, .compressed]) :
    (appendDeclarations cap outT .evaluate : SB F) = ⟨some "Output initialization", outInit cap outT⟩ := by
  simp [appendDeclarations, hm, List.range, List.range.loop, Kind.isAssemble, SB.mk', SB.add,
    mulJoin, joinWith, outInit]

/-- the "Assembling output tensor" block of a doubly compressed matrix -/
def cleanupLines (outT : TensorId) : List (Stmt F) :=
  [.assign (.var (crdName outT.name 0)) (.realloc (.var (crdName outT.name 0)) .int (.var (layerPointer outT.id 0))),
   .assign (.idx (.idx (.attr (.var outT.name) "indices") (.intLit 0)) (.intLit 0)) (.var (posName outT.name 0)),
   .assign (.idx (.idx (.attr (.var outT.name) "indices") (.intLit 0)) (.intLit 1)) (.var (crdName outT.name 0)),
   .assign (.var (posName outT.name 1))
     (.realloc (.var (posName outT.name 1)) .int (plus (.var (layerPointer outT.id 0)) (.intLit 1))),
   .assign (.var (crdName outT.name 1)) (.realloc (.var (crdName outT.name 1)) .int (.var (layerPointer outT.id 1))),
   .assign (.idx (.idx (.attr (.var outT.name) "indices") (.intLit 1)) (.intLit 0)) (.var (posName outT.name 1)),
   .assign (.idx (.idx (.attr (.var outT.name) "indices") (.intLit 1)) (.intLit 1)) (.var (crdName outT.name 1)),
   .assign (.var (valsName outT.name))
     (.realloc (.var (valsName outT.name)) .float (plus (.var (layerPointer outT.id 1)) (.intLit 1))),
   .assign (.attr (.var outT.name) "vals") (.var (valsName outT.name))]

theorem appendCleanup_eq2 (outT : TensorId) (hm : outT.modes = [.compressed, .compressed]) :
    (appendCleanup outT .evaluate : SB F) =
      ⟨some ("Assembling output tensor " ++ outT.name), cleanupLines outT⟩ := by
  simp [appendCleanup, hm, List.range, List.range.loop, Kind.isAssemble, SB.mk', SB.add, cleanupLines]

/-- `int i_dim = out->dimensions[0]; int j_dim = out->dimensions[1];` -/
def dimStmts (i j : String) (outT : TensorId) : List (Stmt F) :=
  [declAssignE (dimName i) .int (.idx (.attr (.var outT.name) "dimensions") (.intLit 0)),
   declAssignE (dimName j) .int (.idx (.attr (.var outT.name) "dimensions") (.intLit 1))]

/-- the statements of the `evaluate` kernel of the class, before `return 0` -/
def kernelStmts (ofRat : Rat → F) (cap : Option Int) (formats : Formats) (i j : String) (outT bT : TensorId)
    (e : IdExpr) : List (Stmt F) :=
  [.block (dimStmts i j outT) (some "Extract dimensions"),
   .block (formats.flatMap fun f => unpackStmts f.1) (some "Unpack tensors"),
   .block (outInit cap outT) (some "Output initialization"),
   .block (loopLines ofRat i j outT bT e) (some ("*** Iteration over " ++ i ++ " ***")),
   .block (cleanupLines outT) (some ("Assembling output tensor " ++ outT.name))]

/-- the `evaluate` kernel of the class -/
def kernel (ofRat : Rat → F) (cap : Option Int) (formats : Formats) (i j : String) (outT bT : TensorId)
    (e : IdExpr) : Func F :=
  ⟨"evaluate", formats.map fun f => (f.1, .ptr .tensor), .int,
    .block (kernelStmts ofRat cap formats i j outT bT e ++ [.ret (.intLit 0)]) none⟩

/-- **What `generateIr` produces on the class.** -/
theorem generateIr_eq (ofRat : Rat → F) (cap : Option Int) (a : Alg.DAssign) (formats : Formats)
    (i j : String) (outT bT : TensorId) (e : IdExpr)
    (hout : tensorId 0 a.tname formats a.tidx = some outT) (hname : outT.name = a.tname)
    (hij : i ≠ j) (ho : isSS i j outT = true) (he : isExpr i j bT e = true) (hf : ssFormats formats = true)
    (hd : indexDimensions a = [(i, a.tname, 0), (j, a.tname, 1)]) :
    generateIr ofRat cap a formats (graph i j outT e) .evaluate =
      .ok (kernel ofRat cap formats i j outT bT e) := by
  have ho' := (isSS_iff i j outT).1 ho
  have hsz : 4 * (graph i j outT e).size + 8 = 17 + 3 := by simp [graph, innerGraph, IGraph.size]
  have hu := unpackDecls_eq (F := F) formats hf
  unfold unpackDecls at hu
  unfold generateIr
  simp only [hout, Option.getD_some, hsz, lower_eq ofRat 17 i j outT bT e hij ho he, hd,
    appendDeclarations_eq2 cap outT ho'.2, appendCleanup_eq2 outT ho'.2, hu]
  simp [bind, Except.bind, pure, Except.pure, kernel, kernelStmts, dimStmts, SB.add, SB.append, SB.empty,
    SB.finalize, Kind.name, hname]

/-- the dimension variables of the assignments of the class -/
theorem indexDimensions_eq (a : Alg.DAssign) (i j : String) (hij : i ≠ j) (hidx : a.tidx = [i, j])
    (hrhs : DenseN.rhsIdx [i, j] a.rhs = true) :
    indexDimensions a = [(i, a.tname, 0), (j, a.tname, 1)] := by
  rw [DenseN.indexDimensions_eq a [i, j] hidx (by simp [hij]) hrhs]
  simp [DenseN.dimTriples, List.range, List.range.loop]

end TV.Sparse2
