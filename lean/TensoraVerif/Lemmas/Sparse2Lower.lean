import TensoraVerif.Lemmas.Sparse2Model
import TensoraVerif.Lemmas.Sparse1Lower

/-!
C01 for sparse matrix copy/scale kernels, part 2: what `lower` emits for the graphs of the class
(`lower_inner_eq`, `lower_eq`).
-/
namespace TV.Sparse2
open TV.IR TV.Gen TV.Graph TV.Merge
set_option linter.unusedSectionVars false
variable {F : Type} [FloatOps F]

theorem isSS_iff (i j : String) (t : TensorId) :
    isSS i j t = true ↔ t.indexes = [i, j] ∧ t.modes = [.compressed, .compressed] := by
  simp [isSS]

theorem isExpr_iff (i j : String) (bT : TensorId) (e : IdExpr) :
    isExpr i j bT e = true ↔ ToIr.leaves e = [bT] ∧ (bT.indexes = [i, j] ∧ bT.modes = [.compressed, .compressed]) ∧
      (extractContext e i).isSparse = true ∧ (extractContext e j).isSparse = true := by
  simp [isExpr, isSS, and_assoc]

/-- the loop context over index `x` when every tensor occurrence has `x` at the compressed level `l`: one
sparse leaf per occurrence, no dense leaf -/
theorem extractContext_leaves (x : String) (l : Nat) (e : IdExpr)
    (h : ∀ t ∈ ToIr.leaves e, t.indexes.findIdx? (· == x) = some l ∧ t.modes.getD l .dense = .compressed) :
    (extractContext e x).sparseLeaves = (ToIr.leaves e).map (fun t => ⟨t, l⟩) ∧
    (extractContext e x).denseLeaves = [] := by
  induction e with
  | int v => simp [extractContext, ToIr.leaves]
  | flt v => simp [extractContext, ToIr.leaves]
  | tensor t =>
    have ht := h t (by simp [ToIr.leaves])
    have ht2 := ht.2
    rw [List.getD_eq_getElem?_getD] at ht2
    simp [extractContext, ToIr.leaves, ht.1, ht2]
  | add l' r ihl ihr =>
    have hl := ihl (fun t ht => h t (by simp [ToIr.leaves, ht]))
    have hr := ihr (fun t ht => h t (by simp [ToIr.leaves, ht]))
    simp [extractContext, Context.add, ToIr.leaves, hl, hr]
  | mul l' r ihl ihr =>
    have hl := ihl (fun t ht => h t (by simp [ToIr.leaves, ht]))
    have hr := ihr (fun t ht => h t (by simp [ToIr.leaves, ht]))
    simp [extractContext, Context.mul, ToIr.leaves, hl, hr]

theorem append_commented (b x : SB F) (c : String) (h : x.comment = some c) :
    b.append x = b.add (.block x.lines (some c)) := by
  simp [SB.append, SB.add, h]

theorem append_plain (b x : SB F) (h : x.comment = none) :
    b.append x = ⟨b.comment, b.lines ++ x.lines⟩ := by
  simp [SB.append, h]

/-- a graph with one compressed dimension `r` that disappears when `r` is exhausted has the two-element
lattice of sub-graphs -/
theorem generateSubgraphs_two (g : IGraph) (r : String) (h1 : compressedDims g = [r])
    (h2 : compressedDims (g.exhaust r) = []) : generateSubgraphs g = [g, g.exhaust r] := by
  simp [generateSubgraphs, generateSubgraphs.go, h1, h2, dictSet, sameSet, sortByLenDesc,
    List.range, List.range.loop]

section
variable (i j : String) (outT bT : TensorId) (e : IdExpr) (hij : i ≠ j) (he : isExpr i j bT e = true)
include hij he

theorem ctx_i : (extractContext e i).isSparse = true ∧
    (extractContext e i).sparseLeaves = [in0 bT] ∧ (extractContext e i).denseLeaves = [] := by
  obtain ⟨hl, ⟨hb1, hb2⟩, hs, _⟩ := (isExpr_iff i j bT e).1 he
  have := extractContext_leaves i 0 e (by
    intro t ht; rw [hl] at ht
    simp only [List.mem_cons, List.not_mem_nil, or_false] at ht
    subst ht
    simp [hb1, hb2, List.findIdx?_cons])
  rw [hl] at this
  exact ⟨hs, this.1, this.2⟩

theorem ctx_j : (extractContext e j).isSparse = true ∧
    (extractContext e j).sparseLeaves = [in1 bT] ∧ (extractContext e j).denseLeaves = [] := by
  obtain ⟨hl, ⟨hb1, hb2⟩, _, hs⟩ := (isExpr_iff i j bT e).1 he
  have := extractContext_leaves j 1 e (by
    intro t ht; rw [hl] at ht
    simp only [List.mem_cons, List.not_mem_nil, or_false] at ht
    subst ht
    simp [hb1, hb2, List.findIdx?_cons, hij])
  rw [hl] at this
  exact ⟨hs, this.1, this.2⟩

theorem ctx_exhaust (x : String) : (extractContext (exhaust e bT.id) x).sparseLeaves = [] := by
  obtain ⟨hl, _, _, _⟩ := (isExpr_iff i j bT e).1 he
  have hn := Sparse1.exhaust_leaves_nil hl
  have := extractContext_leaves x 0 (exhaust e bT.id) (by rw [hn]; intro t ht; cases ht)
  rw [hn] at this
  exact this.1

theorem compressedDims_inner : compressedDims (innerGraph j outT e) = [bT.id] := by
  simp [compressedDims, innerGraph, nodeContext, IGraph.context, (ctx_j i j bT e hij he).2.1, dedupStr, in1]

theorem compressedDims_inner_exhausted :
    compressedDims ((innerGraph j outT e).exhaust bT.id) = [] := by
  simp [compressedDims, innerGraph, IGraph.exhaust, nodeContext, IGraph.context, ctx_exhaust i j bT e hij he,
    dedupStr]

theorem compressedDims_graph : compressedDims (graph i j outT e) = [bT.id] := by
  simp [compressedDims, graph, innerGraph, nodeContext, IGraph.context, (ctx_i i j bT e hij he).2.1, dedupStr,
    in0]

theorem compressedDims_graph_exhausted :
    compressedDims ((graph i j outT e).exhaust bT.id) = [] := by
  simp [compressedDims, graph, innerGraph, IGraph.exhaust, nodeContext, IGraph.context,
    ctx_exhaust i j bT e hij he, dedupStr]

end

theorem writtenFlags_eq (outT : TensorId) (hm : outT.modes = [.compressed, .compressed]) :
    (Output.append outT 2).writtenFlags = [writtenName outT.name 0, writtenName outT.name 1] := by
  simp [Output.writtenFlags, Output.tensor, hm, List.range, List.range.loop]

theorem lower_terminal_eq (ofRat : Rat → F) (n : Nat) (outT : TensorId) (e : IdExpr)
    (hm : outT.modes = [.compressed, .compressed]) (hi : outT.indexes.length = 2) (hne : e ≠ .int 0) :
    lower ofRat (n + 1) (.terminal e) (.append outT 2) .evaluate =
      .ok ⟨some "*** Computation of expression ***", (termLines ofRat outT e)⟩ := by
  have hw := ToIr.writeAssignment_append_eq (F := F) outT (toIrWith ofRat e)
  rw [hi] at hw
  rw [ToIr.lower_terminal_eq ofRat .evaluate rfl n e (.append outT 2) _ hw, ToIr.activeFlags_ne _ hne,
    writtenFlags_eq outT hm]
  simp [termLines, ToIr.flagStmt, prevLayerPointer]

/-- **What `lower` emits on the inner node.** -/
theorem lower_inner_eq (ofRat : Rat → F) (n : Nat) (i j : String) (outT bT : TensorId) (e : IdExpr)
    (hij : i ≠ j) (ho : isSS i j outT = true) (he : isExpr i j bT e = true) :
    lower ofRat (n + 2) (innerGraph j outT e) (.append outT 1) .evaluate =
      .ok ⟨some ("*** Iteration over " ++ j ++ " ***"), innerLines ofRat j outT bT e⟩ := by
  have ho' := (isSS_iff i j outT).1 ho
  have hctx := ctx_j i j bT e hij he
  have hcd1 := compressedDims_inner i j outT bT e hij he
  have hcd2 := compressedDims_inner_exhausted i j outT bT e hij he
  have hsub := generateSubgraphs_two _ _ hcd1 hcd2
  have hne : e ≠ .int 0 := by
    intro h; have := ((isExpr_iff i j bT e).1 he).1; rw [h] at this; simp [ToIr.leaves] at this
  unfold innerGraph at hsub hcd1 hcd2 ⊢
  simp only [IGraph.exhaust] at hsub hcd2
  unfold lower
  simp only [Kind.isCompute, Bool.not_true, Bool.false_and, Bool.false_eq_true, if_false]
  have hso : isSparseOutput (IGraph.iter j (some { tensor := outT, layer := 1 }) (IGraph.terminal e)) = true := by
    simp [isSparseOutput, Leaf.mode, ho'.2]
  have hnext : ((Output.append outT 1).next (some 1) Kind.evaluate : Except GenErr (Output × SB F)) =
      .ok (.append outT 2, SB.empty) := by simp [Output.next]
  have hnc : nodeContext (IGraph.iter j (some { tensor := outT, layer := 1 }) (IGraph.terminal e)) =
      extractContext e j := by
    simp [nodeContext, IGraph.context]
  have hlater : (IGraph.iter j (some { tensor := outT, layer := 1 }) (IGraph.terminal e)).laterIndexes = [j] := by
    simp [IGraph.laterIndexes]
  have hterm := lower_terminal_eq ofRat n outT e ho'.2 (by rw [ho'.1]; rfl) hne
  have hmode : ({ tensor := outT, layer := 1 } : Leaf).mode = Mode.compressed := by simp [Leaf.mode, ho'.2]
  simp only [hso, hmode, Option.map_some, hnext, hsub, hnc, hctx.1, hctx.2.1, hctx.2.2, hlater, hterm, hcd1, hcd2,
    Bool.or_true, Bool.true_and, Bool.and_self, if_true,
    List.foldlM_cons, List.foldlM_nil, bind, Except.bind, pure, Except.pure,
    List.isEmpty_nil, List.isEmpty_cons, Bool.not_true, Bool.not_false, Option.isNone_some, Bool.false_eq_true,
    if_false, List.foldl_nil, List.foldl_cons,
    List.map_nil, List.map_cons, List.nil_append, Kind.isAssemble]
  rw [append_commented _ _ _ (Sparse1.writePosAllocation_comment _),
    append_commented _ (writeCrdAssembly _) "crd assembly" rfl,
    append_commented _ (writePosAssembly _) "pos assembly" rfl,
    append_plain _ (writeSparseInit _) rfl]
  simp [SB.mk', SB.append, SB.empty, SB.add, SB.loop, SB.branch, SB.finalize, branchJoin, andJoin, joinWith,
    minJoin, innerLines, mid1, branch1, termBlock, mergeLoopL, mergeBodyL, mergeCond,
    mergeLoads, mergeMin, mergeIncs, in1, out1, Leaf.ptr, Sparse1.writePosAllocation_comment]
  exact ⟨rfl, rfl⟩

/-- **What `lower` emits on the class.** -/
theorem lower_eq (ofRat : Rat → F) (n : Nat) (i j : String) (outT bT : TensorId) (e : IdExpr)
    (hij : i ≠ j) (ho : isSS i j outT = true) (he : isExpr i j bT e = true) :
    lower ofRat (n + 3) (graph i j outT e) (.append outT 0) .evaluate =
      .ok ⟨some ("*** Iteration over " ++ i ++ " ***"), loopLines ofRat i j outT bT e⟩ := by
  have ho' := (isSS_iff i j outT).1 ho
  have hctx := ctx_i i j bT e hij he
  have hcd1 := compressedDims_graph i j outT bT e hij he
  have hcd2 := compressedDims_graph_exhausted i j outT bT e hij he
  have hsub := generateSubgraphs_two _ _ hcd1 hcd2
  have hinner := lower_inner_eq ofRat n i j outT bT e hij ho he
  simp only [graph, innerGraph, IGraph.exhaust] at hsub hcd1 hcd2 hinner ⊢
  unfold lower
  simp only [Kind.isCompute, Bool.not_true, Bool.false_and, Bool.false_eq_true, if_false]
  have hso : isSparseOutput (IGraph.iter i (some { tensor := outT, layer := 0 })
      (IGraph.iter j (some { tensor := outT, layer := 1 }) (IGraph.terminal e))) = true := by
    simp [isSparseOutput, Leaf.mode, ho'.2]
  have hnext : ((Output.append outT 0).next (some 0) Kind.evaluate : Except GenErr (Output × SB F)) =
      .ok (.append outT 1, SB.empty) := by simp [Output.next]
  have hnc : nodeContext (IGraph.iter i (some { tensor := outT, layer := 0 })
      (IGraph.iter j (some { tensor := outT, layer := 1 }) (IGraph.terminal e))) = extractContext e i := by
    simp [nodeContext, IGraph.context]
  have hlater : (IGraph.iter i (some { tensor := outT, layer := 0 })
      (IGraph.iter j (some { tensor := outT, layer := 1 }) (IGraph.terminal e))).laterIndexes = [i, j] := by
    simp [IGraph.laterIndexes]
  have hmode : ({ tensor := outT, layer := 0 } : Leaf).mode = Mode.compressed := by simp [Leaf.mode, ho'.2]
  simp only [hso, hmode, Option.map_some, hnext, hsub, hnc, hctx.1, hctx.2.1, hctx.2.2, hlater, hinner, hcd1, hcd2,
    Bool.or_true, Bool.true_and, Bool.and_self, if_true,
    List.foldlM_cons, List.foldlM_nil, bind, Except.bind, pure, Except.pure,
    List.isEmpty_nil, List.isEmpty_cons, Bool.not_true, Bool.not_false, Option.isNone_some, Bool.false_eq_true,
    if_false, List.foldl_nil, List.foldl_cons,
    List.map_nil, List.map_cons, List.nil_append, Kind.isAssemble]
  rw [append_commented _ _ _ (Sparse1.writePosAllocation_comment _),
    append_commented _ (writeCrdAssembly _) "crd assembly" rfl,
    append_commented _ (writePosAssembly _) "pos assembly" rfl,
    append_plain _ (writeSparseInit _) rfl]
  simp [SB.mk', SB.append, SB.empty, SB.add, SB.loop, SB.branch, SB.finalize, branchJoin, andJoin, joinWith,
    minJoin, loopLines, mid0, branch0, innerBlock, mergeLoopL, mergeBodyL, mergeCond,
    mergeLoads, mergeMin, mergeIncs, in0, out0, Leaf.ptr, Sparse1.writePosAllocation_comment]
  exact ⟨rfl, rfl⟩

end TV.Sparse2
