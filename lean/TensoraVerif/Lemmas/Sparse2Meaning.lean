import TensoraVerif.Lemmas.Sparse2Exact
import TensoraVerif.Model.Algebra

/-!
C01 for sparse matrix copy/scale kernels, part 19: the meaning of the stored result over the exact carrier.

* `matAt`: the dense reading of a doubly compressed structure (value at the coordinate pair `(x, y)`, `0` where
  nothing is stored); `BData.at` (the input), `BData.outAt` (the output the kernel theorem describes);
* `matAt_out`: for strictly increasing row coordinates and an expression that vanishes with `b`, the dense reading
  of the output is the meaning of `e` applied to the dense reading of `b`, at EVERY coordinate pair;
* `denote_copy`, `denote_scale`: C01's specification `Alg.denote` of the two source forms.
-/
namespace TV.Sparse2
open TV.IR TV.Gen TV.Graph

set_option linter.unusedSectionVars false

/-- dense reading of a doubly compressed structure: the value at `(x, y)` -/
def matAt (R : Nat) (crd0 : Nat → Int) (pos1 : Nat → Nat) (crd1 : Nat → Int) (vals : Nat → Rat) (x y : Int) :
    Rat :=
  match (List.range R).find? (fun r => crd0 r == x) with
  | none => 0
  | some r =>
    match (List.range' (pos1 r) (pos1 (r + 1) - pos1 r)).find? (fun q => crd1 q == y) with
    | none => 0
    | some q => vals q

/-- the dense reading of the input -/
def BData.at (d : BData Rat) : Int → Int → Rat := matAt d.R d.crd0 d.pos1 d.crd1 d.vals

/-- the dense reading of the output: `R'` rows with coordinates `outCrd0`, positions `outPos1`, the column
coordinates of `b` and the values `⟦e⟧(vals q)` -/
def BData.outAt (d : BData Rat) (e : IdExpr) : Int → Int → Rat :=
  matAt (d.kept d.R).length (fun k => (d.outCrd0 d.R).getD k 0) (fun k => ((d.outPos1 d.R).getD k 0).toNat)
    d.crd1 (fun q => value (fun _ => d.vals q) e)

theorem find_unique {α : Type} {l : List α} {p : α → Bool} {a : α} (ha : a ∈ l) (hp : p a = true)
    (hu : ∀ b ∈ l, p b = true → b = a) : l.find? p = some a := by
  cases h : l.find? p with
  | none => exact absurd hp (by simpa using List.find?_eq_none.1 h a ha)
  | some b => rw [hu b (List.mem_of_find?_eq_some h) (List.find?_some h)]

/-- **the meaning of the stored result**: at every coordinate pair the dense reading of the output is the
meaning of `e` at the dense reading of `b` -/
theorem matAt_out {d : BData Rat} (h : d.Wf) (e : IdExpr) (hz : value (fun _ => 0) e = 0)
    (hs0 : ∀ a b, a < b → b < d.R → d.crd0 a < d.crd0 b) (x y : Int) :
    d.outAt e x y = value (fun _ => d.at x y) e := by
  have hinj : ∀ a b, a < d.R → b < d.R → d.crd0 a = d.crd0 b → a = b := by
    intro a b ha hb hab
    rcases Nat.lt_trichotomy a b with h1 | h1 | h1
    · have := hs0 a b h1 hb; omega
    · exact h1
    · have := hs0 b a h1 ha; omega
  have hkl := d.kept_lt d.R
  have hnd : (d.kept d.R).Nodup := (d.kept_pairwise d.R).imp (fun h => Nat.ne_of_lt h)
  unfold BData.outAt BData.at matAt
  cases hb : (List.range d.R).find? (fun r => d.crd0 r == x) with
  | none =>
    have hnone : (List.range (d.kept d.R).length).find? (fun k => (d.outCrd0 d.R).getD k 0 == x) = none := by
      rw [List.find?_eq_none]
      intro k hk
      rw [List.mem_range] at hk
      rw [outCrd0_getD d hk]
      exact List.find?_eq_none.1 hb _ (List.mem_range.2 (hkl _ (List.getElem_mem hk)))
    rw [hnone]
    simp only []
    exact hz.symm
  | some r =>
    have hr : r < d.R := List.mem_range.1 (List.mem_of_find?_eq_some hb)
    have hx : d.crd0 r = x := by simpa using List.find?_some hb
    cases hkeep : d.keep r with
    | true =>
      obtain ⟨k, hk, ek⟩ := List.getElem_of_mem (d.mem_kept hr hkeep)
      have hfind : (List.range (d.kept d.R).length).find? (fun k => (d.outCrd0 d.R).getD k 0 == x) = some k := by
        apply find_unique (List.mem_range.2 hk)
        · show ((d.outCrd0 d.R).getD k 0 == x) = true
          rw [outCrd0_getD d hk, ek, hx]; simp
        · intro k' hk' hp
          rw [List.mem_range] at hk'
          rw [outCrd0_getD d hk'] at hp
          have e1 : d.crd0 ((d.kept d.R)[k']) = d.crd0 r := by rw [hx]; simpa using hp
          have e2 := hinj _ _ (hkl _ (List.getElem_mem hk')) hr e1
          exact (List.getElem_inj hnd).1 (e2.trans ek.symm)
      obtain ⟨e1, e2⟩ := outPos1_getD h hk
      rw [hfind]
      simp only [e1, e2, ek, Int.toNat_natCast]
      cases (List.range' (d.pos1 r) (d.pos1 (r + 1) - d.pos1 r)).find? (fun q => d.crd1 q == y) with
      | none => exact hz.symm
      | some q => rfl
    | false =>
      have hlt : ¬ d.pos1 r < d.pos1 (r + 1) := by simpa [BData.keep] using hkeep
      have hz' : d.pos1 (r + 1) - d.pos1 r = 0 := by omega
      have hnone : (List.range (d.kept d.R).length).find? (fun k => (d.outCrd0 d.R).getD k 0 == x) = none := by
        rw [List.find?_eq_none]
        intro k hk hp
        rw [List.mem_range] at hk
        rw [outCrd0_getD d hk] at hp
        have e1 : d.crd0 ((d.kept d.R)[k]) = d.crd0 r := by rw [hx]; simpa using hp
        have e2 := hinj _ _ (hkl _ (List.getElem_mem hk)) hr e1
        have := d.kept_keep d.R _ (List.getElem_mem hk)
        rw [e2, hkeep] at this
        cases this
      simp only [hnone, hz', List.range'_zero, List.find?_nil]
      exact hz.symm

/-- an expression of the class vanishes where `b` stores nothing -/
theorem value_zero_of_isExpr {i j : String} {bT : TensorId} {e : IdExpr} (hij : i ≠ j)
    (he : isExpr i j bT e = true) : value (fun _ => 0) e = 0 := by
  obtain ⟨hs, _, _⟩ := ctx_i i j bT e hij he
  exact context_sparse_sound _ e i hs (fun _ _ => rfl)

/-! ### C01's specification of the two source forms -/

theorem denote_copy (an bn i j : String) (hij : i ≠ j) (inputs : Alg.Inputs) (sizes : Alg.Sizes) (x y : Nat) :
    Alg.denote ⟨an, [i, j], .tensor bn [i, j]⟩ inputs sizes [x, y] = inputs bn [x, y] := by
  have hji : j ≠ i := Ne.symm hij
  have hb : (i == j) = false := by simpa using hij
  simp [Alg.denote, Alg.termsOf, Alg.Term.indexes, Alg.dedup, hji, hij, Alg.sumOver, Alg.Term.val, Alg.Env.get,
    List.find?, hb, Rat.zero_add]

theorem denote_scale (an bn i j : String) (hij : i ≠ j) (c : Int) (inputs : Alg.Inputs) (sizes : Alg.Sizes)
    (x y : Nat) :
    Alg.denote ⟨an, [i, j], .mul (.int c) (.tensor bn [i, j])⟩ inputs sizes [x, y] = c * inputs bn [x, y] := by
  have hji : j ≠ i := Ne.symm hij
  have hb : (i == j) = false := by simpa using hij
  simp [Alg.denote, Alg.termsOf, Alg.Term.mul, Alg.Term.indexes, Alg.dedup, hji, hij, Alg.sumOver, Alg.Term.val,
    Alg.Env.get, List.find?, hb, Rat.zero_add]

end TV.Sparse2
