import TensoraVerif.Model.GenerateIR
import TensoraVerif.Model.Machine
import TensoraVerif.Lemmas.ToIrBasic
import TensoraVerif.Lemmas.MergeBasic

/-!
C01 for the sparse MATRIX copy/scale kernels (`a(i,j) = e`, `a` doubly compressed (`ss`), `e` mentioning
exactly one doubly compressed matrix `b(i,j)`), part 1: definitions.

* `Sparse2.isSS`, `Sparse2.isExpr`: the class (`ToIr.leaves e = [bT]`, `bT` an order-2 tensor indexed by
  `[i, j]` with both levels compressed, and the loops over `i` and over `j` are sparse for `e`);
* `Sparse2.graph`: the iteration graph of the class (two nested iteration nodes, both with an output level);
* `Sparse2.loopLines`: what `lower` emits on the class, written out: the outer merge loop over the stored rows
  (`mergeLoopL [b₀] i [mid0]`), whose branch contains the pos allocation of `a_1_pos`, the outer flag, the inner
  block (`innerLines`: inner cursors from `b_1_pos[p_b_0]`, inner merge loop `mergeLoopL [b₁] j [mid1]`,
  pos assembly `a_1_pos[p_a_0 + 1] = p_a_1`) and the guarded append of the row coordinate.
-/
namespace TV.Sparse2
open TV.IR TV.Gen TV.Graph TV.Merge

variable {F : Type} [FloatOps F]

/-- an order-2 tensor indexed by `[i, j]` with both levels compressed -/
def isSS (i j : String) (t : TensorId) : Bool :=
  t.indexes == [i, j] && t.modes == [Mode.compressed, Mode.compressed]

/-- `e` mentions exactly ONE tensor occurrence, `bT`, a doubly compressed matrix indexed by `[i, j]`, and the
loops over `i` and over `j` are sparse for `e` (`b`, `2 * b`, `b * 2.5`, `b + 0` … but not `b + 2`) -/
def isExpr (i j : String) (bT : TensorId) (e : IdExpr) : Bool :=
  ToIr.leaves e == [bT] && isSS i j bT && (extractContext e i).isSparse && (extractContext e j).isSparse

/-- the inner node of the iteration graph -/
def innerGraph (j : String) (outT : TensorId) (e : IdExpr) : IGraph :=
  .iter j (some ⟨outT, 1⟩) (.terminal e)

/-- the iteration graph of `out(i,j) = e` -/
def graph (i j : String) (outT : TensorId) (e : IdExpr) : IGraph :=
  .iter i (some ⟨outT, 0⟩) (innerGraph j outT e)

/-! ### the emitted loop nest -/

/-- the output leaves and the input leaves -/
def out0 (outT : TensorId) : Leaf := ⟨outT, 0⟩
def out1 (outT : TensorId) : Leaf := ⟨outT, 1⟩
def in0 (bT : TensorId) : Leaf := ⟨bT, 0⟩
def in1 (bT : TensorId) : Leaf := ⟨bT, 1⟩

/-- the lines of the terminal block: BOTH flags are raised, then `out_vals[p_out_1] = <e>;` -/
def termLines (ofRat : Rat → F) (outT : TensorId) (e : IdExpr) : List (Stmt F) :=
  [.assign (.var (writtenName outT.name 0)) (.boolLit true),
   .assign (.var (writtenName outT.name 1)) (.boolLit true),
   .assign (.idx (.var (valsName outT.name)) (.var (layerPointer outT.id 1))) (toIrWith ofRat e)]

/-- the terminal block -/
def termBlock (ofRat : Rat → F) (outT : TensorId) (e : IdExpr) : Stmt F :=
  .block (termLines ofRat outT e) (some "*** Computation of expression ***")

/-- the statements of the inner branch, taken at every stored entry of the row -/
def branch1 (ofRat : Rat → F) (outT : TensorId) (e : IdExpr) : List (Stmt F) :=
  [(writePosAllocation (out1 outT)).finalize,
   declAssignE (writtenName outT.name 1) .bool (.boolLit false),
   termBlock ofRat outT e,
   .branch (.var (writtenName outT.name 1))
     (.block [(writeCrdAssembly (out1 outT)).finalize,
        increment (.var (layerPointer outT.id 1)) (.intLit 1)] none)
     (.block [] none)]

/-- what `lower` puts between the `min` and the cursor increment of the INNER loop: `if (i_b_1 == j) { … }` -/
def mid1 (ofRat : Rat → F) (j : String) (outT bT : TensorId) (e : IdExpr) : Stmt F :=
  .branch (.bin .and (.boolLit true) (.bin .eq (.var (valueFromCrd bT.id 1)) (.var j)))
    (.block (branch1 ofRat outT e) none) (.block [] none)

/-- the lines of the "Iteration over j" block: inner cursors from `b_1_pos[p_b_0]`, `b_1_pos[p_b_0 + 1]`, the
inner merge loop, `a_1_pos[p_a_0 + 1] = p_a_1` -/
def innerLines (ofRat : Rat → F) (j : String) (outT bT : TensorId) (e : IdExpr) : List (Stmt F) :=
  (writeSparseInit (in1 bT)).lines ++
  [mergeLoopL [in1 bT] j [mid1 ofRat j outT bT e],
   (writePosAssembly (out1 outT)).finalize]

/-- the "Iteration over j" block -/
def innerBlock (ofRat : Rat → F) (j : String) (outT bT : TensorId) (e : IdExpr) : Stmt F :=
  .block (innerLines ofRat j outT bT e) (some ("*** Iteration over " ++ j ++ " ***"))

/-- the statements of the outer branch, taken at every stored row -/
def branch0 (ofRat : Rat → F) (j : String) (outT bT : TensorId) (e : IdExpr) : List (Stmt F) :=
  [(writePosAllocation (out0 outT)).finalize,
   declAssignE (writtenName outT.name 0) .bool (.boolLit false),
   innerBlock ofRat j outT bT e,
   .branch (.var (writtenName outT.name 0))
     (.block [(writeCrdAssembly (out0 outT)).finalize,
        increment (.var (layerPointer outT.id 0)) (.intLit 1)] none)
     (.block [] none)]

/-- what `lower` puts between the `min` and the cursor increment of the OUTER loop: `if (i_b_0 == i) { … }` -/
def mid0 (ofRat : Rat → F) (i j : String) (outT bT : TensorId) (e : IdExpr) : Stmt F :=
  .branch (.bin .and (.boolLit true) (.bin .eq (.var (valueFromCrd bT.id 0)) (.var i)))
    (.block (branch0 ofRat j outT bT e) none) (.block [] none)

/-- the lines of the "Iteration over i" block -/
def loopLines (ofRat : Rat → F) (i j : String) (outT bT : TensorId) (e : IdExpr) : List (Stmt F) :=
  (writeSparseInit (in0 bT)).lines ++
  [mergeLoopL [in0 bT] i [mid0 ofRat i j outT bT e],
   (writePosAssembly (out0 outT)).finalize]

end TV.Sparse2
