import TensoraVerif.Lemmas.Sparse2Model

/-!
C01 for sparse matrix copy/scale kernels, part 5: the variable names of the kernel.

* `allNames i j outT bT`: every variable of the kernel; the name-distinctness condition is
  `(allNames …).Nodup` (decidable; true of the names the pipeline builds: `Sparse2NamesNodup.lean`);
* `Nm`: the same names as an enumeration, `nameOf … : Nm → String`; under the condition `nameOf` is injective
  (`nameOf_inj`), so that every (in)equality between two names of the kernel is decided by comparing
  constructors (`simp only [nameOf_inj hN, reduceCtorEq]`).
-/
namespace TV.Sparse2
open TV.IR TV.Gen TV.Graph

/-- every variable of the kernel: **the names that must be pairwise distinct** -/
def allNames (i j : String) (outT bT : TensorId) : List String :=
  [i, j, outT.name, bT.name, dimName i, dimName j,
   posName outT.name 0, crdName outT.name 0, posName outT.name 1, crdName outT.name 1, valsName outT.name,
   posName bT.name 0, crdName bT.name 0, posName bT.name 1, crdName bT.name 1, valsName bT.name,
   posCapName outT.name 0, crdCapName outT.name 0, posCapName outT.name 1, crdCapName outT.name 1,
   valsCapName outT.name,
   layerPointer outT.id 0, layerPointer outT.id 1,
   layerPointer bT.id 0, sparseEndName bT.id 0, valueFromCrd bT.id 0,
   layerPointer bT.id 1, sparseEndName bT.id 1, valueFromCrd bT.id 1,
   writtenName outT.name 0, writtenName outT.name 1]

/-- the variables of the kernel, enumerated: indices, tensor parameters, dimension variables, the five arrays
of the output (`a…`) and of the input (`b…`), the capacities (`k…`), the output cursors, the cursors / ends /
loaded coordinates of the two input levels, the two written flags -/
inductive Nm where
  | i | j | a | b | di | dj | ap0 | ac0 | ap1 | ac1 | av | bp0 | bc0 | bp1 | bc1 | bv
  | kp0 | kc0 | kp1 | kc1 | kv | pA0 | pA1 | pB0 | eB0 | vB0 | pB1 | eB1 | vB1 | w0 | w1
  deriving DecidableEq, Repr

/-- position in `allNames` -/
def Nm.idx : Nm → Nat
  | .i => 0 | .j => 1 | .a => 2 | .b => 3 | .di => 4 | .dj => 5 | .ap0 => 6 | .ac0 => 7 | .ap1 => 8 | .ac1 => 9
  | .av => 10 | .bp0 => 11 | .bc0 => 12 | .bp1 => 13 | .bc1 => 14 | .bv => 15
  | .kp0 => 16 | .kc0 => 17 | .kp1 => 18 | .kc1 => 19 | .kv => 20 | .pA0 => 21 | .pA1 => 22
  | .pB0 => 23 | .eB0 => 24 | .vB0 => 25 | .pB1 => 26 | .eB1 => 27 | .vB1 => 28 | .w0 => 29 | .w1 => 30

/-- the name of a variable of the kernel -/
def nameOf (i j : String) (outT bT : TensorId) : Nm → String
  | .i => i | .j => j | .a => outT.name | .b => bT.name | .di => dimName i | .dj => dimName j
  | .ap0 => posName outT.name 0 | .ac0 => crdName outT.name 0 | .ap1 => posName outT.name 1
  | .ac1 => crdName outT.name 1 | .av => valsName outT.name
  | .bp0 => posName bT.name 0 | .bc0 => crdName bT.name 0 | .bp1 => posName bT.name 1
  | .bc1 => crdName bT.name 1 | .bv => valsName bT.name
  | .kp0 => posCapName outT.name 0 | .kc0 => crdCapName outT.name 0 | .kp1 => posCapName outT.name 1
  | .kc1 => crdCapName outT.name 1 | .kv => valsCapName outT.name
  | .pA0 => layerPointer outT.id 0 | .pA1 => layerPointer outT.id 1
  | .pB0 => layerPointer bT.id 0 | .eB0 => sparseEndName bT.id 0 | .vB0 => valueFromCrd bT.id 0
  | .pB1 => layerPointer bT.id 1 | .eB1 => sparseEndName bT.id 1 | .vB1 => valueFromCrd bT.id 1
  | .w0 => writtenName outT.name 0 | .w1 => writtenName outT.name 1

theorem nameOf_get (i j : String) (outT bT : TensorId) (c : Nm) :
    (allNames i j outT bT)[c.idx]? = some (nameOf i j outT bT c) := by
  cases c <;> rfl

theorem Nm.idx_inj {c d : Nm} (h : c.idx = d.idx) : c = d := by
  revert h; cases c <;> cases d <;> simp [Nm.idx]

/-- under the name-distinctness condition two names of the kernel are equal iff they are the same variable -/
theorem nameOf_inj {i j : String} {outT bT : TensorId} (hN : (allNames i j outT bT).Nodup) (c d : Nm) :
    nameOf i j outT bT c = nameOf i j outT bT d ↔ c = d := by
  constructor
  · intro h
    have hc := nameOf_get i j outT bT c
    have hd := nameOf_get i j outT bT d
    have hcl : c.idx < (allNames i j outT bT).length := by
      have hlen : (allNames i j outT bT).length = 31 := rfl
      rw [hlen]; cases c <;> decide
    rw [h] at hc
    exact Nm.idx_inj ((List.getElem?_inj hcl hN).1 (hc.trans hd.symm))
  · intro h; rw [h]

end TV.Sparse2
