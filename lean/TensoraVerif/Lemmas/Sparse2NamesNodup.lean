import TensoraVerif.Lemmas.Sparse2Names
import TensoraVerif.Lemmas.SpmvNames

/-!
C01 for sparse matrix copy/scale kernels, part 20: the name-distinctness condition `(allNames …).Nodup` holds
for the names the pipeline builds — index and tensor names without `'_'` (every name the parser accepts is
alphanumeric), pairwise different, tensor ids `0_<a>` (what `tensorId 0` produces for the output) and `<k>_<b>`
(occurrence number `k` from `Alg.desugar`). Every generated name is split at its `'_'` characters
(`Spmv.segs`); different names have different segment lists.
-/
namespace TV.Sparse2
open TV.IR TV.Gen TV.Graph
open TV.Spmv (segs segs_append segs_nous nodup_of_map toList_ne)

/-- the tensors of `a(i,j) = e(b(i,j))` as the pipeline builds them -/
def pOut (an i j : String) : TensorId := ⟨"0_" ++ an, an, [i, j], [.compressed, .compressed]⟩
def pB (ks bn i j : String) : TensorId := ⟨ks ++ "_" ++ bn, bn, [i, j], [.compressed, .compressed]⟩

set_option maxRecDepth 8000 in
/-- **names.** The naming scheme makes all the variable names of the kernel pairwise distinct. -/
theorem allNames_nodup (i j an bn ks : String)
    (hi : '_' ∉ i.toList) (hj : '_' ∉ j.toList) (ha : '_' ∉ an.toList) (hb : '_' ∉ bn.toList)
    (hk : '_' ∉ ks.toList)
    (hij : i ≠ j) (hia : i ≠ an) (hib : i ≠ bn) (hja : j ≠ an) (hjb : j ≠ bn) (hab : an ≠ bn) :
    (allNames i j (pOut an i j) (pB ks bn i j)).Nodup := by
  apply nodup_of_map (fun s : String => segs s.toList)
  have t0 : Nat.toDigits 10 0 = ['0'] := by rfl
  have t1 : Nat.toDigits 10 1 = ['1'] := by rfl
  have e : (allNames i j (pOut an i j) (pB ks bn i j)).map (fun s : String => segs s.toList) =
      [[i.toList], [j.toList], [an.toList], [bn.toList], [i.toList, "dim".toList], [j.toList, "dim".toList],
       [an.toList, "0".toList, "pos".toList], [an.toList, "0".toList, "crd".toList],
       [an.toList, "1".toList, "pos".toList], [an.toList, "1".toList, "crd".toList], [an.toList, "vals".toList],
       [bn.toList, "0".toList, "pos".toList], [bn.toList, "0".toList, "crd".toList],
       [bn.toList, "1".toList, "pos".toList], [bn.toList, "1".toList, "crd".toList], [bn.toList, "vals".toList],
       [an.toList, "0".toList, "pos".toList, "capacity".toList],
       [an.toList, "0".toList, "crd".toList, "capacity".toList],
       [an.toList, "1".toList, "pos".toList, "capacity".toList],
       [an.toList, "1".toList, "crd".toList, "capacity".toList],
       [an.toList, "vals".toList, "capacity".toList],
       ["p".toList, "0".toList, an.toList, "0".toList], ["p".toList, "0".toList, an.toList, "1".toList],
       ["p".toList, ks.toList, bn.toList, "0".toList], ["p".toList, ks.toList, bn.toList, "0".toList, "end".toList],
       ["i".toList, ks.toList, bn.toList, "0".toList],
       ["p".toList, ks.toList, bn.toList, "1".toList], ["p".toList, ks.toList, bn.toList, "1".toList, "end".toList],
       ["i".toList, ks.toList, bn.toList, "1".toList],
       ["written".toList, an.toList, "0".toList], ["written".toList, an.toList, "1".toList]] := by
    simp [allNames, pOut, pB, dimName, valsName, posName, crdName, layerPointer, sparseEndName, valueFromCrd,
      valsCapName, posCapName, crdCapName, writtenName, String.toList_append, List.append_assoc, segs_append,
      segs_nous, hi, hj, ha, hb, hk, segs, t0, t1]
  rw [e]
  have n1 := toList_ne hij
  have n2 := toList_ne hia
  have n3 := toList_ne hib
  have n5 := toList_ne hja
  have n6 := toList_ne hjb
  have n8 := toList_ne hab
  simp [List.nodup_cons, n1, n2, n3, n5, n6, n8, Ne.symm n1, Ne.symm n2, Ne.symm n3,
    Ne.symm n5, Ne.symm n6, Ne.symm n8]

end TV.Sparse2
