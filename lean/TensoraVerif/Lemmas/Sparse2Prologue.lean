import TensoraVerif.Lemmas.Sparse2Frags
import TensoraVerif.Lemmas.Sparse2Block

/-!
C01 for sparse matrix copy/scale kernels, part 15: the prologue on the machine — "Extract dimensions", "Unpack
tensors", "Output initialization" — from an initial state as the driver builds it (`Init`) to the state at the
entry of the iteration block (`Entry`): five fresh output blocks `a_0_pos = [0, ·]`, `a_0_crd`,
`a_1_pos = [0, …]`, `a_1_crd`, `a_vals` (capacities `2, k, k, k, k`).
-/
namespace TV.Sparse2
open TV.IR TV.Gen TV.Graph TV.Growth TV.Merge TV.Dense1
open TV.Sparse1 (capVal declFresh evalE_default)

set_option linter.unusedSectionVars false
variable {F : Type} [FloatOps F]

/-- **Initial machine state of a kernel call** for `a(i,j) = e(b(i,j))`, both doubly compressed: heap and
tensor records are those of the context; the variables are exactly the two tensor parameters, bound to records
`ta` (contents `atr`) and `tb` (`btr`); the output record is output-owned, of order `≥ 2`, with slot pairs of
pointers (or `NULL`s) at levels 0 and 1 and a pointer or `NULL` in `vals`, and its `dimensions` block holds the
int32s `n`, `m`; the slots of the input record point to the blocks of the context. -/
structure Init (K : Ctx F) (atr btr : TensorRec F) (tb : Nat) (n m : Int) (σ : State F) : Prop where
  heap : σ.heap = K.heap0
  tensors : σ.tensors = K.tensors0
  avar : TensorVar σ (K.n .a) K.ta
  bvar : TensorVar σ (K.n .b) tb
  fresh : ∀ x, x ≠ K.n .a → x ≠ K.n .b → lookupVar σ.vars x = none
  arec : K.tensors0[K.ta]? = some atr
  aown : atr.owner = .output
  aord : 2 ≤ atr.order
  aslot0 : ∃ p c, atr.slots[0]? = some (some (p, c)) ∧ isPtrVal p = true ∧ isPtrVal c = true
  aslot1 : ∃ p c, atr.slots[1]? = some (some (p, c)) ∧ isPtrVal p = true ∧ isPtrVal c = true
  avals : isPtrVal atr.vals = true
  adim : ∃ blk, K.heap0[atr.dimsBlk]? = some blk ∧ blk.live = true ∧ blk.ty = .int ∧
    blk.cells[0]? = some (some (.int n)) ∧ blk.cells[1]? = some (some (.int m))
  n32 : -2147483648 ≤ n ∧ n < 2147483648
  m32 : -2147483648 ≤ m ∧ m < 2147483648
  brec : K.tensors0[tb]? = some btr
  bord : 2 ≤ btr.order
  bslot0 : btr.slots[0]? = some (some (.ptr K.bp0 0, .ptr K.bc0 0))
  bslot1 : btr.slots[1]? = some (some (.ptr K.bp1 0, .ptr K.bc1 0))
  bvals : btr.vals = .ptr K.bv 0

/-- the description of the five output arrays at the entry of the iteration block -/
def entrySt (K : Ctx F) (k : Int) : OutSt F :=
  ⟨fun x => match x with
    | .p0 => K.heap0.length | .c0 => K.heap0.length + 1 | .p1 => K.heap0.length + 2
    | .c1 => K.heap0.length + 3 | .v => K.heap0.length + 4,
   fun x => match x with | .p0 => 2 | _ => k,
   fun x => match x with | .p0 => [.int 0] | .p1 => [.int 0] | _ => []⟩

theorem ptrVar_of {σ : State F} {x : String} {t : Ty} {b : Nat}
    (h : ∃ r, lookupVar σ.vars x = some r ∧ r.ty = .ptr t ∧ r.val = some (.ptr b 0)) : PtrVar σ x b := by
  obtain ⟨r, e1, e2, e3⟩ := h; exact ⟨r, t, e1, e2, e3⟩

theorem declOK_of_none {σ : State F} {x : String} (h : lookupVar σ.vars x = none) : DeclOK σ x := by
  intro r hr; rw [h] at hr; cases hr

theorem flagOK_of_none {σ : State F} {x : String} (h : lookupVar σ.vars x = none) : FlagOK σ x := by
  intro r hr; rw [h] at hr; cases hr

section
variable {K : Ctx F}

/-- the names declared by "Extract dimensions" and "Unpack tensors" -/
def proW1 (K : Ctx F) : List String :=
  ([K.n .di] ++ [K.n .dj]) ++ [K.n .ap0, K.n .ac0, K.n .ap1, K.n .ac1, K.n .av] ++
    [K.n .bp0, K.n .bc0, K.n .bp1, K.n .bc1, K.n .bv]

/-- **the first two blocks of the prologue** -/
theorem prologue1_runs (ok : K.OK) {atr btr : TensorRec F} {tb : Nat} {n m : Int} {σ : State F}
    (init : Init K atr btr tb n m σ) (fuel : Nat) :
    ∃ σB, RunsLI fuel
        [.block (dimStmts K.i K.j K.outT) (some "Extract dimensions"),
         .block (unpackStmts K.outT.name ++ unpackStmts K.bT.name) (some "Unpack tensors")] σ σB 0 ∧
      σB.heap = σ.heap ∧ σB.tensors = σ.tensors ∧ VFrame (proW1 K) σ σB ∧
      (∀ c ∈ [Nm.ap0, .ac0, .ap1, .ac1], ∃ r, lookupVar σB.vars (K.n c) = some r ∧ r.ty = .ptr .int) ∧
      (∃ r, lookupVar σB.vars (K.n .av) = some r ∧ r.ty = .ptr .float) ∧
      PtrVar σB (K.n .bp0) K.bp0 ∧ PtrVar σB (K.n .bc0) K.bc0 ∧ PtrVar σB (K.n .bp1) K.bp1 ∧
      PtrVar σB (K.n .bc1) K.bc1 ∧ PtrVar σB (K.n .bv) K.bv := by
  have hN := ok.names
  have hfr : ∀ c : Nm, c ≠ .a → c ≠ .b → lookupVar σ.vars (K.n c) = none := by
    intro c h1 h2
    exact init.fresh _ (by nmx hN; exact h1) (by nmx hN; exact h2)
  obtain ⟨dblk, hdb, hdlive, hdty, hdc0, hdc1⟩ := init.adim
  obtain ⟨ap0, ac0, hasl0, hap0, hac0⟩ := init.aslot0
  obtain ⟨ap1, ac1, hasl1, hap1, hac1⟩ := init.aslot1
  have harec : σ.tensors[K.ta]? = some atr := by rw [init.tensors]; exact init.arec
  have hbrec : σ.tensors[tb]? = some btr := by rw [init.tensors]; exact init.brec
  -- A: the dimension variables
  obtain ⟨σA1, rA1, hhA1, htA1, _, oA1⟩ := declFresh (fuel := fuel) (x := K.n .di) (t := .int) (val' := .int n)
    (hfr _ (by decide) (by decide))
    (evalE_dim 0 init.avar harec (by rw [init.heap]; exact hdb) hdlive hdty hdc0 (by omega) init.n32.1 init.n32.2)
    rfl
  have fA1 : VFrame [K.n .di] σ σA1 := VFrame.of1 oA1
  obtain ⟨σA, rA2, hhA2, htA2, _, oA2⟩ := declFresh (fuel := fuel) (x := K.n .dj) (t := .int) (val' := .int m)
    (σ := σA1) (by rw [fA1 _ (by nmx hN)]; exact hfr _ (by decide) (by decide))
    (evalE_dim 1 (init.avar.congr (fA1 _ (by nmx hN))) (by rw [htA1]; exact harec)
      (by rw [hhA1, init.heap]; exact hdb) hdlive hdty hdc1 (by omega) init.m32.1 init.m32.2) rfl
  have fA := fA1.trans (VFrame.of1 oA2)
  have hhA : σA.heap = σ.heap := by rw [hhA2, hhA1]
  have htA : σA.tensors = σ.tensors := by rw [htA2, htA1]
  -- B: unpack the output
  have hndA : [K.n .a, posName (K.n .a) 0, crdName (K.n .a) 0, posName (K.n .a) 1, crdName (K.n .a) 1,
      valsName (K.n .a)].Nodup := by
    show [K.n .a, K.n .ap0, K.n .ac0, K.n .ap1, K.n .ac1, K.n .av].Nodup
    simp only [List.nodup_cons, List.nodup_nil]
    nmx hN
  obtain ⟨σB1, rB1, hhB1, htB1, vp0, vc0, vp1, vc1, vv, fB1'⟩ := unpack2_runs (fuel := fuel) (σ := σA)
    (init.avar.congr (fA _ (by nmx hN))) (by rw [htA]; exact harec) init.aord hasl0 hasl1 hap0 hac0 hap1 hac1
    init.avals hndA
    (by show lookupVar σA.vars (K.n .ap0) = none; rw [fA _ (by nmx hN)]; exact hfr _ (by decide) (by decide))
    (by show lookupVar σA.vars (K.n .ac0) = none; rw [fA _ (by nmx hN)]; exact hfr _ (by decide) (by decide))
    (by show lookupVar σA.vars (K.n .ap1) = none; rw [fA _ (by nmx hN)]; exact hfr _ (by decide) (by decide))
    (by show lookupVar σA.vars (K.n .ac1) = none; rw [fA _ (by nmx hN)]; exact hfr _ (by decide) (by decide))
    (by show lookupVar σA.vars (K.n .av) = none; rw [fA _ (by nmx hN)]; exact hfr _ (by decide) (by decide))
  have fB1 : VFrame [K.n .ap0, K.n .ac0, K.n .ap1, K.n .ac1, K.n .av] σA σB1 := fB1'
  have fAB1 := fA.trans fB1
  -- B: unpack the input
  have hndB : [K.n .b, posName (K.n .b) 0, crdName (K.n .b) 0, posName (K.n .b) 1, crdName (K.n .b) 1,
      valsName (K.n .b)].Nodup := by
    show [K.n .b, K.n .bp0, K.n .bc0, K.n .bp1, K.n .bc1, K.n .bv].Nodup
    simp only [List.nodup_cons, List.nodup_nil]
    nmx hN
  obtain ⟨σB, rB2, hhB2, htB2, wp0, wc0, wp1, wc1, wv, fB2'⟩ := unpack2_runs (fuel := fuel) (σ := σB1)
    (init.bvar.congr (fAB1 _ (by nmx hN))) (by rw [htB1, htA]; exact hbrec) init.bord init.bslot0 init.bslot1
    rfl rfl rfl rfl (by rw [init.bvals]; rfl) hndB
    (by show lookupVar σB1.vars (K.n .bp0) = none; rw [fAB1 _ (by nmx hN)]; exact hfr _ (by decide) (by decide))
    (by show lookupVar σB1.vars (K.n .bc0) = none; rw [fAB1 _ (by nmx hN)]; exact hfr _ (by decide) (by decide))
    (by show lookupVar σB1.vars (K.n .bp1) = none; rw [fAB1 _ (by nmx hN)]; exact hfr _ (by decide) (by decide))
    (by show lookupVar σB1.vars (K.n .bc1) = none; rw [fAB1 _ (by nmx hN)]; exact hfr _ (by decide) (by decide))
    (by show lookupVar σB1.vars (K.n .bv) = none; rw [fAB1 _ (by nmx hN)]; exact hfr _ (by decide) (by decide))
  have fB2 : VFrame [K.n .bp0, K.n .bc0, K.n .bp1, K.n .bc1, K.n .bv] σB1 σB := fB2'
  refine ⟨σB, ?_, by rw [hhB2, hhB1, hhA], by rw [htB2, htB1, htA], fAB1.trans fB2, ?_, ?_,
    ptrVar_of wp0, ptrVar_of wc0, ptrVar_of wp1, ptrVar_of wc1, ?_⟩
  · exact RunsLI.cons (RunsI.block (RunsLI.cons rA1 (RunsLI.cons rA2 (RunsLI.nil _ _))))
      (RunsLI.cons (RunsI.block (RunsLI.append rB1 rB2)) (RunsLI.nil _ _))
  · intro c hc
    simp only [List.mem_cons, List.not_mem_nil, or_false] at hc
    rcases hc with rfl | rfl | rfl | rfl
    · obtain ⟨r, e1, e2, _⟩ := vp0; exact ⟨r, by rw [fB2 _ (by nmx hN)]; exact e1, e2⟩
    · obtain ⟨r, e1, e2, _⟩ := vc0; exact ⟨r, by rw [fB2 _ (by nmx hN)]; exact e1, e2⟩
    · obtain ⟨r, e1, e2, _⟩ := vp1; exact ⟨r, by rw [fB2 _ (by nmx hN)]; exact e1, e2⟩
    · obtain ⟨r, e1, e2, _⟩ := vc1; exact ⟨r, by rw [fB2 _ (by nmx hN)]; exact e1, e2⟩
  · obtain ⟨r, e1, e2, _⟩ := vv; exact ⟨r, by rw [fB2 _ (by nmx hN)]; exact e1, e2⟩
  · refine ptrVar_of (t := .float) ?_
    obtain ⟨r, e1, e2, e3⟩ := wv
    exact ⟨r, e1, e2, by rw [e3, init.bvals]⟩

/-- the names the prologue leaves undeclared -/
def locals : List Nm :=
  [.kp0, .kc0, .kp1, .kc1, .kv, .pA0, .pA1, .pB0, .eB0, .vB0, .pB1, .eB1, .vB1, .w0, .w1, .i, .j]

/-- the names declared by "Output initialization" -/
def proW2 (K : Ctx F) : List String :=
  [K.n .kp0, K.n .ap0] ++ ([] ++ ([K.n .kc0, K.n .ac0] ++ ([K.n .pA0] ++ ([K.n .kp1, K.n .ap1] ++ ([] ++
    ([K.n .kc1, K.n .ac1] ++ ([K.n .pA1] ++ [K.n .kv, K.n .av])))))))

/-- **"Output initialization"**: the five arrays of the output are allocated (`a_0_pos`: 2 cells, the others:
the initial capacity `k ≥ 1`), `a_0_pos[0] = a_1_pos[0] = 0`, both cursors are `0` -/
theorem outInit_runs (ok : K.OK) (cap : Option Int) (hk0 : 1 ≤ capVal cap) (hk1 : capVal cap < 2147483648)
    (σB : State F) (fuel : Nat) (hheap : σB.heap = K.heap0) (htens : σB.tensors = K.tensors0)
    (hint : ∀ c ∈ [Nm.ap0, .ac0, .ap1, .ac1], ∃ r, lookupVar σB.vars (K.n c) = some r ∧ r.ty = .ptr .int)
    (hflt : ∃ r, lookupVar σB.vars (K.n .av) = some r ∧ r.ty = .ptr .float)
    (hbp0 : PtrVar σB (K.n .bp0) K.bp0) (hbc0 : PtrVar σB (K.n .bc0) K.bc0) (hbp1 : PtrVar σB (K.n .bp1) K.bp1)
    (hbc1 : PtrVar σB (K.n .bc1) K.bc1) (hbv : PtrVar σB (K.n .bv) K.bv) (havar : TensorVar σB (K.n .a) K.ta)
    (hfr : ∀ c ∈ locals, lookupVar σB.vars (K.n c) = none) :
    ∃ σC, RunsLI fuel (outInit cap K.outT) σB σC 0 ∧ Entry K (entrySt K (capVal cap)) σC ∧
      VFrame (proW2 K) σB σC := by
  have hN := ok.names
  obtain ⟨k, hk⟩ : ∃ k, k = capVal cap := ⟨_, rfl⟩
  rw [← hk] at hk0 hk1 ⊢
  have hkn : 0 < k.toNat := by omega
  obtain ⟨rp0, hrp0, hrp0t⟩ := hint .ap0 (by simp)
  obtain ⟨rc0, hrc0, hrc0t⟩ := hint .ac0 (by simp)
  obtain ⟨rp1, hrp1, hrp1t⟩ := hint .ap1 (by simp)
  obtain ⟨rc1, hrc1, hrc1t⟩ := hint .ac1 (by simp)
  obtain ⟨rv, hrv, hrvt⟩ := hflt
  have edef : ∀ σ : State F, evalE σ (defaultArraySize cap) = .ok (.int k) := fun σ => by
    rw [hk]; exact evalE_default cap (by omega) (by omega)
  -- C1-2: a_0_pos
  obtain ⟨σ1, r1, hh1, ht1, vk1, va1, f1⟩ := allocPart_runs (fuel := fuel) (σ := σB) (capN := K.n .kp0)
    (arrN := K.n .ap0) (ty := .int) (ety := .int) (e := plus (.intLit 1) (.intLit 1)) (k := 1 + 1)
    (by nmx hN) (hfr .kp0 (by simp [locals])) hrp0 hrp0t
    (evalE_add (evalE_intLit (by omega) (by omega)) (evalE_intLit (by omega) (by omega)) (by omega) (by omega))
    (by omega) (by omega) rfl
  rw [hheap] at hh1 va1
  -- C3: a_0_pos[0] = 0
  obtain ⟨σ2, r2, hv2, ht2, hh2'⟩ := store0_runs (fuel := fuel) (σ := σ1) (arrN := K.n .ap0)
    (b := K.heap0.length)
    (blk := ⟨.int, List.replicate ((1 : Int) + 1).toNat none, .output, true⟩) va1 (by rw [hh1]; simp) rfl rfl rfl
    (by simp)
  have hh2 : σ2.heap = K.heap0 ++ [⟨.int, [some (.int 0), none], .output, true⟩] := by
    rw [hh2', hh1]
    simp [List.replicate]
  have f2 : VFrame [] σ1 σ2 := VFrame.of_eq hv2
  have f12 := f1.trans f2
  -- C4-5: a_0_crd
  obtain ⟨σ3, r3, hh3, ht3, vk3, va3, f3⟩ := allocPart_runs (fuel := fuel) (σ := σ2) (capN := K.n .kc0)
    (arrN := K.n .ac0) (ty := .int) (ety := .int) (e := defaultArraySize cap) (k := k)
    (by nmx hN) (by rw [f12 _ (by nmx hN)]; exact hfr .kc0 (by simp [locals]))
    (by rw [f12 _ (by nmx hN)]; exact hrc0) hrc0t (edef _) (by omega) hk1 rfl
  rw [hh2] at hh3 va3
  have f123 := f12.trans f3
  -- C6: int p_a_0 = 0
  obtain ⟨σ4, r4, hh4, ht4, vp4, o4⟩ := declFresh (fuel := fuel) (x := K.n .pA0) (t := .int) (σ := σ3)
    (val' := .int 0) (by rw [f123 _ (by nmx hN)]; exact hfr .pA0 (by simp [locals]))
    (evalE_intLit (by omega) (by omega)) rfl
  have vp4' : IntVar σ4 (K.n .pA0) 0 := vp4
  have f4 : VFrame [K.n .pA0] σ3 σ4 := VFrame.of1 o4
  have f1234 := f123.trans f4
  -- C7-8: a_1_pos
  obtain ⟨σ5, r5, hh5, ht5, vk5, va5, f5⟩ := allocPart_runs (fuel := fuel) (σ := σ4) (capN := K.n .kp1)
    (arrN := K.n .ap1) (ty := .int) (ety := .int) (e := defaultArraySize cap) (k := k)
    (by nmx hN) (by rw [f1234 _ (by nmx hN)]; exact hfr .kp1 (by simp [locals]))
    (by rw [f1234 _ (by nmx hN)]; exact hrp1) hrp1t (edef _) (by omega) hk1 rfl
  rw [hh4, hh3] at hh5 va5
  have hlen5 : (K.heap0 ++ [(⟨.int, [some (.int 0), none], .output, true⟩ : Block F)] ++
      [(⟨.int, List.replicate k.toNat none, .output, true⟩ : Block F)]).length = K.heap0.length + 2 := by simp
  rw [hlen5] at va5
  -- C9: a_1_pos[0] = 0
  obtain ⟨σ6, r6, hv6, ht6, hh6'⟩ := store0_runs (fuel := fuel) (σ := σ5) (arrN := K.n .ap1)
    (b := K.heap0.length + 2)
    (blk := ⟨.int, List.replicate k.toNat none, .output, true⟩) va5 (by rw [hh5]; simp) rfl rfl rfl
    (by simpa using hkn)
  have hh6 : σ6.heap = K.heap0 ++ [⟨.int, [some (.int 0), none], .output, true⟩,
      ⟨.int, List.replicate k.toNat none, .output, true⟩,
      ⟨.int, (List.replicate k.toNat none).set 0 (some (.int 0)), .output, true⟩] := by
    rw [hh6', hh5]
    simp
  have f6 : VFrame [] σ5 σ6 := VFrame.of_eq hv6
  have f1_6 := (f1234.trans f5).trans f6
  -- C10-11: a_1_crd
  obtain ⟨σ7, r7, hh7, ht7, vk7, va7, f7⟩ := allocPart_runs (fuel := fuel) (σ := σ6) (capN := K.n .kc1)
    (arrN := K.n .ac1) (ty := .int) (ety := .int) (e := defaultArraySize cap) (k := k)
    (by nmx hN) (by rw [f1_6 _ (by nmx hN)]; exact hfr .kc1 (by simp [locals]))
    (by rw [f1_6 _ (by nmx hN)]; exact hrc1) hrc1t (edef _) (by omega) hk1 rfl
  rw [hh6] at hh7 va7
  have f1_7 := f1_6.trans f7
  -- C12: int p_a_1 = 0
  obtain ⟨σ8, r8, hh8, ht8, vp8, o8⟩ := declFresh (fuel := fuel) (x := K.n .pA1) (t := .int) (σ := σ7)
    (val' := .int 0) (by rw [f1_7 _ (by nmx hN)]; exact hfr .pA1 (by simp [locals]))
    (evalE_intLit (by omega) (by omega)) rfl
  have vp8' : IntVar σ8 (K.n .pA1) 0 := vp8
  have f8 : VFrame [K.n .pA1] σ7 σ8 := VFrame.of1 o8
  have f1_8 := f1_7.trans f8
  -- C13-14: a_vals
  obtain ⟨σ9, r9, hh9, ht9, vk9, va9, f9⟩ := allocPart_runs (fuel := fuel) (σ := σ8) (capN := K.n .kv)
    (arrN := K.n .av) (ty := .float) (ety := .float) (e := defaultArraySize cap) (k := k)
    (by nmx hN) (by rw [f1_8 _ (by nmx hN)]; exact hfr .kv (by simp [locals]))
    (by rw [f1_8 _ (by nmx hN)]; exact hrv) hrvt (edef _) (by omega) hk1 rfl
  rw [hh8, hh7] at hh9 va9
  have hH : K.heap0.length = K.heap0.length := rfl
  have hheap9 : σ9.heap = K.heap0 ++ [⟨.int, [some (.int 0), none], .output, true⟩,
      ⟨.int, List.replicate k.toNat none, .output, true⟩,
      ⟨.int, (List.replicate k.toNat none).set 0 (some (.int 0)), .output, true⟩,
      ⟨.int, List.replicate k.toNat none, .output, true⟩,
      ⟨.float, List.replicate k.toNat none, .output, true⟩] := by
    rw [hh9]; simp
  have htens9 : σ9.tensors = K.tensors0 := by rw [ht9, ht8, ht7, ht6, ht5, ht4, ht3, ht2, ht1, htens]
  -- suffix frames
  have g8 := f9
  have g7 := f8.trans g8
  have g6 := f7.trans g7
  have g5 := f6.trans g6
  have g4 := f5.trans g5
  have g3 := f4.trans g4
  have g2 := f3.trans g3
  have g1 := f2.trans g2
  have fall := f1.trans g1
  -- the variables at the end
  have hap0 : PtrVar σ9 (K.n .ap0) K.heap0.length := va1.congr (g1 _ (by nmx hN))
  have hkp0 : IntVar σ9 (K.n .kp0) 2 := vk1.congr (g1 _ (by nmx hN))
  have hac0 : PtrVar σ9 (K.n .ac0) (K.heap0.length + 1) := by
    have : PtrVar σ3 (K.n .ac0) (K.heap0.length + 1) := by simpa using va3
    exact this.congr (g3 _ (by nmx hN))
  have hkc0 : IntVar σ9 (K.n .kc0) k := vk3.congr (g3 _ (by nmx hN))
  have hpA0 : IntVar σ9 (K.n .pA0) 0 := vp4'.congr (g4 _ (by nmx hN))
  have hap1 : PtrVar σ9 (K.n .ap1) (K.heap0.length + 2) := va5.congr (g5 _ (by nmx hN))
  have hkp1 : IntVar σ9 (K.n .kp1) k := vk5.congr (g5 _ (by nmx hN))
  have hac1 : PtrVar σ9 (K.n .ac1) (K.heap0.length + 3) := by
    have : PtrVar σ7 (K.n .ac1) (K.heap0.length + 3) := by simpa using va7
    exact this.congr (g7 _ (by nmx hN))
  have hkc1 : IntVar σ9 (K.n .kc1) k := vk7.congr (g7 _ (by nmx hN))
  have hpA1 : IntVar σ9 (K.n .pA1) 0 := vp8'.congr (g8 _ (by nmx hN))
  have hav : PtrVar σ9 (K.n .av) (K.heap0.length + 4) := by simpa using va9
  have hkv : IntVar σ9 (K.n .kv) k := vk9
  have hnone : ∀ c ∈ locals, (K.n c ∉ proW2 K) → lookupVar σ9.vars (K.n c) = none := by
    intro c hc hw
    rw [fall _ hw]; exact hfr c hc
  have hb9 : ∀ j (blk : Block F), ([(⟨.int, [some (.int 0), none], .output, true⟩ : Block F),
      ⟨.int, List.replicate k.toNat none, .output, true⟩,
      ⟨.int, (List.replicate k.toNat none).set 0 (some (.int 0)), .output, true⟩,
      ⟨.int, List.replicate k.toNat none, .output, true⟩,
      ⟨.float, List.replicate k.toNat none, .output, true⟩])[j]? = some blk →
      σ9.heap[K.heap0.length + j]? = some blk := by
    intro j blk hj
    rw [hheap9, List.getElem?_append_right (by omega)]
    simpa using hj
  have hkk : ((List.replicate k.toNat (none : Option (Val F))).length : Int) = k := by simp; omega
  have hkk' : (((List.replicate k.toNat (none : Option (Val F))).set 0 (some (.int 0))).length : Int) = k := by
    simp; omega
  refine ⟨σ9, ?_, ?_, fall⟩
  · have := RunsLI.append r1 (RunsLI.cons r2 (RunsLI.append r3 (RunsLI.cons r4 (RunsLI.append r5
      (RunsLI.cons r6 (RunsLI.append r7 (RunsLI.cons r8 r9)))))))
    exact this
  · refine ⟨⟨⟨htens9, by rw [hheap9]; simp, ?_, hbp0.congr (fall _ (by nmx hN)), hbc0.congr (fall _ (by nmx hN)),
        hbp1.congr (fall _ (by nmx hN)), hbc1.congr (fall _ (by nmx hN)), hbv.congr (fall _ (by nmx hN)),
        havar.congr (fall _ (by nmx hN))⟩, ⟨?_, ?_, ?_⟩⟩,
      ⟨rfl, rfl, by simp [entrySt, BData.outCrd0, BData.kept], by simp [entrySt, BData.outPos1, BData.kept],
        by simp [entrySt, ok.wf.pos0, Ctx.crd1Cells], by simp [entrySt, ok.wf.pos0, Ctx.valsCells]⟩,
      hpA0, hpA1, ?_, ?_, ?_, ?_, ?_⟩
    · intro j hj
      rw [hheap9, List.getElem?_append_left hj]
    · have b0 : σ9.heap[K.heap0.length]? = some ⟨.int, [some (.int 0), none], .output, true⟩ := hb9 0 _ rfl
      have b1 : σ9.heap[K.heap0.length + 1]? = some ⟨.int, List.replicate k.toNat none, .output, true⟩ :=
        hb9 1 _ rfl
      have b2 : σ9.heap[K.heap0.length + 2]? =
          some ⟨.int, (List.replicate k.toNat none).set 0 (some (.int 0)), .output, true⟩ := hb9 2 _ rfl
      have b3 : σ9.heap[K.heap0.length + 3]? = some ⟨.int, List.replicate k.toNat none, .output, true⟩ :=
        hb9 3 _ rfl
      have b4 : σ9.heap[K.heap0.length + 4]? = some ⟨.float, List.replicate k.toNat none, .output, true⟩ :=
        hb9 4 _ rfl
      intro x
      cases x
      · show Arr σ9 (K.n .ap0) (K.n .kp0) .int K.heap0.length 2 [.int 0]
        refine ⟨⟨hap0, hkp0, ⟨_, b0, rfl, rfl, rfl, rfl⟩, by omega, by omega⟩, by simp, ?_⟩
        intro blk hb j hj
        rw [b0] at hb; cases hb
        have hj0 : j = 0 := by simpa using hj
        subst hj0; rfl
      · show Arr σ9 (K.n .ac0) (K.n .kc0) .int (K.heap0.length + 1) k []
        exact ⟨⟨hac0, hkc0, ⟨_, b1, rfl, rfl, rfl, hkk⟩, hk0, hk1⟩, by simp; omega,
          fun blk hb j hj => by simp at hj⟩
      · show Arr σ9 (K.n .ap1) (K.n .kp1) .int (K.heap0.length + 2) k [.int 0]
        refine ⟨⟨hap1, hkp1, ⟨_, b2, rfl, rfl, rfl, hkk'⟩, hk0, hk1⟩, by simp; omega, ?_⟩
        intro blk hb j hj
        rw [b2] at hb; cases hb
        have hj0 : j = 0 := by simpa using hj
        subst hj0
        simp [hkn]
      · show Arr σ9 (K.n .ac1) (K.n .kc1) .int (K.heap0.length + 3) k []
        exact ⟨⟨hac1, hkc1, ⟨_, b3, rfl, rfl, rfl, hkk⟩, hk0, hk1⟩, by simp; omega,
          fun blk hb j hj => by simp at hj⟩
      · show Arr σ9 (K.n .av) (K.n .kv) .float (K.heap0.length + 4) k []
        exact ⟨⟨hav, hkv, ⟨_, b4, rfl, rfl, rfl, hkk⟩, hk0, hk1⟩, by simp; omega,
          fun blk hb j hj => by simp at hj⟩
    · intro x y hxy
      cases x <;> cases y <;> first | exact absurd rfl hxy | (simp only [entrySt]; omega)
    · intro x
      cases x <;> (simp only [entrySt]; omega)
    · exact ⟨declOK_of_none (hnone .pB1 (by simp [locals]) (by simp only [proW2]; nmx hN)),
        declOK_of_none (hnone .eB1 (by simp [locals]) (by simp only [proW2]; nmx hN)),
        declOK_of_none (hnone .vB1 (by simp [locals]) (by simp only [proW2]; nmx hN)),
        declOK_of_none (hnone .j (by simp [locals]) (by simp only [proW2]; nmx hN)),
        flagOK_of_none (hnone .w0 (by simp [locals]) (by simp only [proW2]; nmx hN)),
        flagOK_of_none (hnone .w1 (by simp [locals]) (by simp only [proW2]; nmx hN))⟩
    · exact declOK_of_none (hnone .pB0 (by simp [locals]) (by simp only [proW2]; nmx hN))
    · exact declOK_of_none (hnone .eB0 (by simp [locals]) (by simp only [proW2]; nmx hN))
    · exact declOK_of_none (hnone .vB0 (by simp [locals]) (by simp only [proW2]; nmx hN))
    · exact declOK_of_none (hnone .i (by simp [locals]) (by simp only [proW2]; nmx hN))

/-- **The prologue**: from `Init` to `Entry`. -/
theorem prologue_runs (ok : K.OK) (cap : Option Int) (hk0 : 1 ≤ capVal cap) (hk1 : capVal cap < 2147483648)
    {atr btr : TensorRec F} {tb : Nat} {n m : Int} {σ : State F} (init : Init K atr btr tb n m σ) (fuel : Nat) :
    ∃ σC, RunsLI fuel
        [.block (dimStmts K.i K.j K.outT) (some "Extract dimensions"),
         .block (unpackStmts K.outT.name ++ unpackStmts K.bT.name) (some "Unpack tensors"),
         .block (outInit cap K.outT) (some "Output initialization")] σ σC 0 ∧
      Entry K (entrySt K (capVal cap)) σC := by
  have hN := ok.names
  obtain ⟨σB, rB, hhB, htB, fB, hint, hflt, b1, b2, b3, b4, b5⟩ := prologue1_runs ok init fuel
  have hfr : ∀ c ∈ locals, lookupVar σB.vars (K.n c) = none := by
    have hall : ∀ c ∈ locals, K.n c ∉ proW1 K ∧ K.n c ≠ K.n .a ∧ K.n c ≠ K.n .b := by
      simp only [locals, proW1]
      nmx hN
    intro c hc
    obtain ⟨h1, h2, h3⟩ := hall c hc
    rw [fB _ h1]; exact init.fresh _ h2 h3
  obtain ⟨σC, rC, entry, _⟩ := outInit_runs ok cap hk0 hk1 σB fuel (by rw [hhB]; exact init.heap)
    (by rw [htB]; exact init.tensors) hint hflt b1 b2 b3 b4 b5
    (init.avar.congr (fB _ (by simp only [proW1]; nmx hN))) hfr
  refine ⟨σC, ?_, entry⟩
  have := RunsLI.append rB (RunsLI.cons (RunsI.block (c := some "Output initialization") rC) (RunsLI.nil _ _))
  exact this

end

end TV.Sparse2
