import TensoraVerif.Lemmas.SpdotNames
import TensoraVerif.Lemmas.SpmulBody
import TensoraVerif.Props.C01Terminal

/-!
C01 for the sparse dot product, part 4: the loop body step. The statement between the `min` and the cursor
increments is `if ((true && i_b == i) && i_c == i) { bucket[0] = bucket[0] + b_vals[p_b] * c_vals[p_c]; }`:

* when BOTH loaded coordinates equal the index (`branch_step`): the accumulator cell goes from `acc` to
  `acc + b[p_b] * c[p_c]` (C01 `writeAssignment_bucket_runs`), nothing else changes;
* otherwise nothing at all happens (`mid_step`).
-/
namespace TV.Spdot
open TV.IR TV.Gen TV.Graph TV.Growth TV.Merge
open TV.Sparse1 (isSp isSp_iff inLeaf)
open TV.Spmul (mulE bothCond env valueF_mulE)
set_option linter.unusedSectionVars false
variable {F : Type} [FloatOps F]

/-- the names written by the loop: the skeleton's own (index, the two cursors, the two loaded coordinates) -/
def touched (i : String) (bT cT : TensorId) : List String :=
  [i, layerPointer bT.id 0, valueFromCrd bT.id 0, layerPointer cT.id 0, valueFromCrd cT.id 0]

/-- the accumulated sum of the values of a list of entries, added in list order starting from `ofInt 0` (what
the bucket initialisation stores) -/
def dotSum (l : List (Int × F)) : F := l.foldl (fun f p => FloatOps.add f p.2) (FloatOps.ofInt 0)

theorem dotSum_append (l : List (Int × F)) (e : Int × F) :
    dotSum (l ++ [e]) = FloatOps.add (dotSum l) e.2 := by
  simp [dotSum, List.foldl_append]

/-- the one-cell output block holding `acc` -/
def accBlock (acc : F) : Block F := ⟨.float, [some (.flt acc)], .output, true⟩

/-- **what the loop needs of the state `σ0` at loop entry and of the inputs**: `b_vals` / `c_vals` point to
live float blocks `bvb` / `cvb` whose first `mb` / `mc` cells hold `cellsB` / `cellsC`; the bucket pointer
points to the block `vb0` (the output's `vals`), which is none of them; `mb, mc ≤ 2^30`. -/
structure LoopPre (outT bT cT : TensorId) (mb mc bvb cvb : Nat) (cellsB cellsC : Nat → F)
    (vb0 : Nat) (σ0 : State F) : Prop where
  bvals : PtrVar σ0 (valsName bT.name) bvb
  cvals : PtrVar σ0 (valsName cT.name) cvb
  bucket : PtrVar σ0 (bkN outT) vb0
  bblk : ∃ blk, σ0.heap[bvb]? = some blk ∧ blk.live = true ∧ blk.ty = .float ∧
    ∀ j, j < mb → blk.cells[j]? = some (some (.flt (cellsB j)))
  cblk : ∃ blk, σ0.heap[cvb]? = some blk ∧ blk.live = true ∧ blk.ty = .float ∧
    ∀ j, j < mc → blk.cells[j]? = some (some (.flt (cellsC j)))
  olen : vb0 < σ0.heap.length
  bne : bvb ≠ vb0
  cne : cvb ≠ vb0
  smallB : mb ≤ 1073741824
  smallC : mc ≤ 1073741824

/-- **The loop invariant** when the accumulator holds `acc` (relative to the state `σ0` at loop entry): tensor
records unchanged; the heap is that of `σ0` with block `vb0` = the one-cell output block `[acc]`; the
variables not written by the loop unchanged. -/
structure Inv (i : String) (bT cT : TensorId) (vb0 : Nat) (σ0 : State F) (acc : F) (σ : State F) : Prop where
  tensors : σ.tensors = σ0.tensors
  heap : σ.heap = σ0.heap.set vb0 (accBlock acc)
  vars : ∀ y, y ∉ touched i bT cT → lookupVar σ.vars y = lookupVar σ0.vars y

theorem noLoop_midStmt (ofRat : Rat → F) (i : String) (outT bT cT : TensorId) :
    Sparse1.noLoopL [midStmt ofRat i outT bT cT] = true := by
  simp [Sparse1.noLoopL, Sparse1.noLoop, midStmt, termBlock, accStmt, increment]

section step
variable {ofRat : Rat → F} {i : String} {outT bT cT : TensorId} {mb mc bvb cvb : Nat}
  {cellsB cellsC : Nat → F} {vb0 : Nat} {σ0 : State F}

macro "dnotouch" N:term : tactic =>
  `(tactic| (simp only [touched, List.mem_cons, List.not_mem_nil, or_false, not_or]
             and_intros <;> dnm $N))

/-- **the branch "both present"**: one product is added to the accumulator. -/
theorem branch_step (N : KNames i outT bT cT) (hb : isSp i bT = true) (hc : isSp i cT = true)
    (pre : LoopPre outT bT cT mb mc bvb cvb cellsB cellsC vb0 σ0)
    (fuel : Nat) (σ : State F) (acc : F) (q r : Nat) (hq : q < mb) (hr : r < mc)
    (hinv : Inv i bT cT vb0 σ0 acc σ)
    (hpB : IntVar σ (layerPointer bT.id 0) q) (hpC : IntVar σ (layerPointer cT.id 0) r)
    (hfin : ToIr.AllFinite ofRat (env bT (cellsB q) (cellsC r)) (mulE bT cT))
    (hacc : FloatOps.finite acc = true)
    (hsum : FloatOps.finite (FloatOps.add acc (FloatOps.mul (cellsB q) (cellsC r))) = true) :
    ∃ σ', Runs fuel (termBlock ofRat outT bT cT) σ σ' ∧
      Inv i bT cT vb0 σ0 (FloatOps.add acc (FloatOps.mul (cellsB q) (cellsC r))) σ' ∧
      σ'.vars = σ.vars := by
  obtain ⟨hb1, hb2⟩ := (isSp_iff i bT).1 hb
  obtain ⟨hc1, hc2⟩ := (isSp_iff i cT).1 hc
  have hsmB := pre.smallB
  have hsmC := pre.smallC
  have hblen : bT.indexes.length = 1 := by rw [hb1]; rfl
  have hclen : cT.indexes.length = 1 := by rw [hc1]; rfl
  have hl : ToIr.leaves (mulE bT cT) = [bT, cT] := rfl
  obtain ⟨bblk, hbblk, hblive, hbty, hbcells⟩ := pre.bblk
  obtain ⟨cblk, hcblk, hclive, hcty, hccells⟩ := pre.cblk
  have hvl := pre.olen
  have hbσ : σ.heap[bvb]? = some bblk := by
    rw [hinv.heap, List.getElem?_set_ne (Ne.symm pre.bne)]; exact hbblk
  have hcσ : σ.heap[cvb]? = some cblk := by
    rw [hinv.heap, List.getElem?_set_ne (Ne.symm pre.cne)]; exact hcblk
  have hoσ : σ.heap[vb0]? = some (accBlock acc) := by
    rw [hinv.heap, List.getElem?_set_self hvl]
  have hbv : PtrVar σ (valsName bT.name) bvb := pre.bvals.congr (hinv.vars _ (by dnotouch N))
  have hcv : PtrVar σ (valsName cT.name) cvb := pre.cvals.congr (hinv.vars _ (by dnotouch N))
  have hbk : PtrVar σ (bkN outT) vb0 := pre.bucket.congr (hinv.vars _ (by dnotouch N))
  have hleaf : ∀ t ∈ ToIr.leaves (mulE bT cT), ToIr.LeafOK σ (env bT (cellsB q) (cellsC r)) t := by
    intro t ht
    rw [hl] at ht
    simp only [List.mem_cons, List.not_mem_nil, or_false] at ht
    rcases ht with rfl | rfl
    · refine ToIr.LeafOK.intro (p := q) hbv ?_ (by omega) (by omega)
        ⟨bblk, hbσ, hblive, hbty, by omega, by simpa [env] using hbcells q hq⟩
      simp only [ToIr.CursorIs, hblen]
      exact hpB
    · refine ToIr.LeafOK.intro (p := r) hcv ?_ (by omega) (by omega)
        ⟨cblk, hcσ, hclive, hcty, by omega, by simpa [env, Ne.symm N.base.idbc] using hccells r hr⟩
      simp only [ToIr.CursorIs, hclen]
      exact hpC
  have hcell : ToIr.OutCell σ vb0 (0 + 0) := ⟨accBlock acc, hoσ, rfl, rfl, rfl, by omega, by simp [accBlock]⟩
  have hw : ToIr.FloatCell σ vb0 (0 + 0) acc := ⟨accBlock acc, hoσ, rfl, rfl, by omega, by simp [accBlock]⟩
  have hidx : evalE σ (ravelIndexes (bucketDims outT [])
      (([] : List Nat).map fun l => (.var (outT.indexes.getD l "") : Expr F))) = .ok (.int 0) := by
    simp [ravelIndexes, bucketDims, addJoin, joinWith, evalE, chkInt, inI32]
  have hrun := ToIr.writeAssignment_bucket_runs ofRat (env bT (cellsB q) (cellsC r)) σ (mulE bT cT) outT []
    fuel vb0 0 0 acc hleaf hfin (ToIr.PtrAt.of_ptrVar hbk) hidx hcell hw hacc
    (by rw [valueF_mulE ofRat bT cT N.base.idbc]; exact hsum)
  rw [valueF_mulE ofRat bT cT N.base.idbc] at hrun
  have hshape : increment (.idx (.var (bucketName outT []))
      (ravelIndexes (bucketDims outT []) (([] : List Nat).map fun l => (.var (outT.indexes.getD l "") : Expr F))))
      (toIrWith ofRat (mulE bT cT)) = accStmt ofRat outT bT cT := by
    simp [accStmt, bkN, ravelIndexes, bucketDims, addJoin, joinWith]
  rw [hshape] at hrun
  refine ⟨_, Runs.block (RunsL.cons hrun (RunsL.nil _ _)), ?_, ToIr.writeCell_vars ..⟩
  refine { tensors := ?_, heap := ?_, vars := ?_ }
  · rw [ToIr.writeCell_tensors]; exact hinv.tensors
  · simp only [ToIr.writeCell, hoσ]
    rw [hinv.heap, List.set_set]
    simp [accBlock]
  · intro y hy
    rw [ToIr.writeCell_vars]; exact hinv.vars y hy

/-- what the accumulator becomes in one iteration -/
def stepAcc (acc : F) (xb xc x : Int) (u v : F) : F :=
  if xb = x ∧ xc = x then FloatOps.add acc (FloatOps.mul u v) else acc

/-- **(a) The loop body step.** If both operands store the coordinate the product of the two values is added to
the accumulator; otherwise the state is NOT CHANGED AT ALL. The variables are never changed. -/
theorem mid_step (N : KNames i outT bT cT) (hb : isSp i bT = true) (hc : isSp i cT = true)
    (pre : LoopPre outT bT cT mb mc bvb cvb cellsB cellsC vb0 σ0)
    (fuel : Nat) (σ : State F) (acc : F) (q r : Nat) (xb xc x : Int) (hq : q < mb) (hr : r < mc)
    (hinv : Inv i bT cT vb0 σ0 acc σ)
    (hpB : IntVar σ (layerPointer bT.id 0) q) (hpC : IntVar σ (layerPointer cT.id 0) r)
    (hvB : IntVar σ (valueFromCrd bT.id 0) xb) (hvC : IntVar σ (valueFromCrd cT.id 0) xc)
    (hi : IntVar σ i x)
    (hb0 : -2147483648 ≤ xb) (hb1 : xb < 2147483648) (hc0 : -2147483648 ≤ xc) (hc1 : xc < 2147483648)
    (hr0 : -2147483648 ≤ x) (hr1 : x < 2147483648)
    (hboth : xb = x → xc = x → ToIr.AllFinite ofRat (env bT (cellsB q) (cellsC r)) (mulE bT cT) ∧
      FloatOps.finite acc = true ∧
      FloatOps.finite (FloatOps.add acc (FloatOps.mul (cellsB q) (cellsC r))) = true) :
    ∃ σ', RunsL fuel [midStmt ofRat i outT bT cT] σ σ' ∧
      Inv i bT cT vb0 σ0 (stepAcc acc xb xc x (cellsB q) (cellsC r)) σ' ∧
      (¬ (xb = x ∧ xc = x) → σ' = σ) ∧ σ'.vars = σ.vars ∧
      (∀ k, k ≠ vb0 → σ'.heap[k]? = σ.heap[k]?) := by
  have econd : evalE σ (bothCond i bT cT) = .ok (.bool ((true && (xb == x)) && (xc == x))) :=
    evalE_and (evalE_and (σ := σ) (l := .boolLit true) (a := true) (by simp [evalE])
      (evalE_eqInt (evalE_var_int hvB hb0 hb1) (evalE_var_int hi hr0 hr1)))
      (evalE_eqInt (evalE_var_int hvC hc0 hc1) (evalE_var_int hi hr0 hr1))
  by_cases hcase : xb = x ∧ xc = x
  · obtain ⟨hfin, hacc, hsum⟩ := hboth hcase.1 hcase.2
    obtain ⟨σ', hrun, hinv', hv⟩ := branch_step (ofRat := ofRat) N hb hc pre fuel σ acc q r hq hr hinv hpB hpC hfin
      hacc hsum
    refine ⟨σ', ?_, ?_, fun h => absurd hcase h, hv, ?_⟩
    · refine RunsL.cons (Runs.branch_true ?_ (Runs.block (RunsL.cons hrun (RunsL.nil _ _)))) (RunsL.nil _ _)
      rw [econd, hcase.1, hcase.2]; simp
    · unfold stepAcc; rw [if_pos hcase]; exact hinv'
    · intro k hk
      rw [hinv'.heap, hinv.heap, List.getElem?_set_ne (Ne.symm hk), List.getElem?_set_ne (Ne.symm hk)]
  · refine ⟨σ, ?_, ?_, fun _ => rfl, rfl, fun _ _ => rfl⟩
    · refine RunsL.cons (Runs.branch_false ?_ (Runs.skip _ _ _)) (RunsL.nil _ _)
      rw [econd]
      have : ((true && (xb == x)) && (xc == x)) = false := by
        by_cases h1 : xb = x
        · have h2 : xc ≠ x := fun h2 => hcase ⟨h1, h2⟩
          simp [h1, h2]
        · simp [h1]
      rw [this]
    · unfold stepAcc; rw [if_neg hcase]; exact hinv

end step

end TV.Spdot
