import TensoraVerif.Lemmas.SpdotKernel
import TensoraVerif.Lemmas.SpmulExact
import TensoraVerif.Lemmas.Dense2Exact
import TensoraVerif.Lemmas.DenseTermExact

/-!
C01 for the sparse dot product, part 8: the exact carrier. Over `Rat`, for strictly increasing coordinates (those
of `b` within the dimension `d`), the accumulated sum of the matched products `dotSum (intersect b c)` is the sum
over ALL coordinates `x < d` of the product of the dense readings, i.e. `Alg.denote` of the source assignment
`a() = b(i) * c(i)` at `[]`.
-/
namespace TV.Spdot
open TV.IR TV.Gen TV.Graph
open TV.Spmul (intersect assoc Sorted vecAt)
open TV.Dense2 (sumRange_succ sumRange_congr)

theorem sumRange_zero' (m : Nat) : Alg.sumRange m (fun _ => 0) = 0 := by
  induction m with
  | zero => rfl
  | succ m ih => rw [sumRange_succ, ih]; exact Rat.add_zero _

theorem sumRange_add' (m : Nat) (f g : Nat → Rat) :
    Alg.sumRange m (fun v => f v + g v) = Alg.sumRange m f + Alg.sumRange m g := by
  induction m with
  | zero => exact (Rat.add_zero _).symm
  | succ m ih =>
    rw [sumRange_succ, sumRange_succ, sumRange_succ, ih]
    grind

/-- a sum with a single non-zero term -/
theorem sumRange_point (m c : Nat) (hc : c < m) (a : Rat) :
    Alg.sumRange m (fun v => if c = v then a else 0) = a := by
  induction m with
  | zero => omega
  | succ m ih =>
    rw [sumRange_succ]
    by_cases hcm : c = m
    · subst hcm
      rw [sumRange_congr c _ (fun _ => 0) (fun v hv => by
        have : c ≠ v := by omega
        simp [this]), sumRange_zero']
      simp [Rat.zero_add]
    · rw [ih (by omega)]
      simp [hcm, Rat.add_zero]

theorem foldl_add_init (L : List (Int × Rat)) (a : Rat) :
    L.foldl (fun f p => f + p.2) a = a + L.foldl (fun f p => f + p.2) 0 := by
  induction L generalizing a with
  | nil => exact (Rat.add_zero a).symm
  | cons p L ih =>
    rw [List.foldl_cons, List.foldl_cons, ih (a + p.2), ih (0 + p.2), Rat.zero_add, Rat.add_assoc]

/-- the plain rational sum of the values of a list of entries -/
def ratSum (L : List (Int × Rat)) : Rat := L.foldl (fun f p => f + p.2) 0

theorem ratSum_cons (p : Int × Rat) (L : List (Int × Rat)) : ratSum (p :: L) = p.2 + ratSum L := by
  unfold ratSum
  rw [List.foldl_cons, foldl_add_init, Rat.zero_add]

theorem vecAt_cons (x : Int) (u : Rat) (L : List (Int × Rat)) (y : Int) :
    vecAt ((x, u) :: L) y = if x = y then u else vecAt L y := by
  unfold vecAt
  by_cases h : x = y
  · simp [h]
  · simp [List.find?_cons, h]

/-- **the sum of the dense reading over the whole dimension is the sum of the stored values** (sorted
coordinates within `[0, d)`) -/
theorem sum_vecAt (d : Nat) (L : List (Int × Rat)) (hs : Sorted L)
    (hr : ∀ p ∈ L, 0 ≤ p.1 ∧ p.1 < d) :
    Alg.sumRange d (fun v => vecAt L (v : Int)) = ratSum L := by
  induction L with
  | nil =>
    have : (fun v : Nat => vecAt ([] : List (Int × Rat)) (v : Int)) = fun _ => (0 : Rat) := by
      funext v; rfl
    rw [this, sumRange_zero']; rfl
  | cons p L ih =>
    obtain ⟨x, u⟩ := p
    obtain ⟨hx0, hxd⟩ := hr (x, u) List.mem_cons_self
    have hnot : vecAt L x = 0 := by
      apply Spmul.vecAt_of_not_mem
      intro w hw
      have := hs.head_lt _ hw
      simp at this
    have h1 : Alg.sumRange d (fun v => vecAt ((x, u) :: L) (v : Int)) =
        Alg.sumRange d (fun v => (if x.toNat = v then u else 0) + vecAt L (v : Int)) := by
      apply sumRange_congr
      intro v _
      rw [vecAt_cons]
      by_cases hv : x = (v : Int)
      · have : x.toNat = v := by omega
        rw [if_pos hv, if_pos this, ← hv, hnot, Rat.add_zero]
      · have : x.toNat ≠ v := by omega
        rw [if_neg hv, if_neg this, Rat.zero_add]
    have hlt : x.toNat < d := by simp at hx0 hxd; omega
    rw [h1, sumRange_add', sumRange_point d x.toNat hlt u, ratSum_cons,
      ih hs.tail (fun q hq => hr q (List.mem_cons_of_mem _ hq))]

/-- over `Rat` the machine's accumulator (`ofInt 0`, then `add` in merge order) is the plain sum -/
theorem dotSum_rat (L : List (Int × Rat)) : dotSum L = ratSum L := rfl

/-- **D4 (the meaning of the stored result).** Over `Rat`, for strictly increasing coordinates, those of `b`
within the dimension `sizes i`: the accumulated sum of the matched products is C01's specification `Alg.denote` of
the SOURCE assignment `a() = b(i) * c(i)` at the empty coordinate — `Σ_{x < sizes i} b[x] * c[x]` — for every
valuation that reads `b` and `c` as the dense readings of the two stored inputs. -/
theorem dotSum_denote {mb mc : Nat} {crdB crdC : Nat → Int} (cellsB cellsC : Nat → Rat)
    (hsB : ∀ j k, j < k → k < mb → crdB j < crdB k) (hsC : ∀ j k, j < k → k < mc → crdC j < crdC k)
    (an bn cn i : String) (inputs : Alg.Inputs) (sizes : Alg.Sizes)
    (hrB : ∀ j, j < mb → 0 ≤ crdB j ∧ crdB j < sizes i)
    (hinB : ∀ x : Nat, inputs bn [x] = vecAt (assoc mb crdB cellsB) x)
    (hinC : ∀ x : Nat, inputs cn [x] = vecAt (assoc mc crdC cellsC) x) :
    dotSum (intersect (assoc mb crdB cellsB) (assoc mc crdC cellsC)) =
      Alg.denote ⟨an, [], .mul (.tensor bn [i]) (.tensor cn [i])⟩ inputs sizes [] := by
  have sB := Spmul.assoc_sorted cellsB hsB
  have sC := Spmul.assoc_sorted cellsC hsC
  rw [DenseTerm.denote_dot, dotSum_rat,
    ← sum_vecAt (sizes i) _ (Spmul.intersect_sorted _ _ sB sC) (by
      intro p hp
      obtain ⟨u, v, h1, _, _⟩ := Spmul.mem_intersect_sound _ _ p hp
      obtain ⟨q, hq, e, _⟩ := Spmul.mem_assoc.1 h1
      rw [← e]; exact hrB q hq)]
  apply sumRange_congr
  intro v _
  rw [hinB, hinC]
  exact Spmul.vecAt_intersect_rat _ _ sB sC v

end TV.Spdot
