import TensoraVerif.Lemmas.SpdotModel
import TensoraVerif.Lemmas.Dense1Exact

/-!
C01 for the sparse dot product, part 2: what `generateIr` produces on the class — the whole `evaluate`
function, written out (`kernel`, `generateIr_eq`): `i_dim` is extracted from `b` (the first tensor that has the
index), only `vals` of the scalar output is unpacked, the output initialisation is `a_vals_capacity = 1;
a_vals = malloc`, the cleanup is the hand-over `a->vals = a_vals`.
-/
namespace TV.Spdot
open TV.IR TV.Gen TV.Graph TV.Merge
open TV.Sparse1 (isSp isSp_iff unpackStmts)
open TV.Spmul (mulE)
set_option linter.unusedSectionVars false
set_option linter.unusedSimpArgs false
variable {F : Type} [FloatOps F]

/-- the format table: the scalar output first, then the two compressed vectors -/
def FmtOK (formats : Formats) (outT bT cT : TensorId) : Prop :=
  ∃ oa ob oc, formats = [(outT.name, [], oa), (bT.name, [.compressed], ob), (cT.name, [.compressed], oc)]

/-- the statements of the `evaluate` kernel of the class, before `return 0` -/
def kernelStmts (ofRat : Rat → F) (i : String) (outT bT cT : TensorId) : List (Stmt F) :=
  [.block [declAssignE (dimName i) .int (.idx (.attr (.var bT.name) "dimensions") (.intLit 0))]
      (some "Extract dimensions"),
   .block ([declAssignE (valsName outT.name) (.ptr .float) (.attr (.var outT.name) "vals")] ++
      unpackStmts bT.name ++ unpackStmts cT.name) (some "Unpack tensors"),
   .block [declAssignE (valsCapName outT.name) .int (.intLit 1),
      .assign (.var (valsName outT.name)) (.alloc .float (.var (valsCapName outT.name)))]
      (some "Output initialization"),
   .block (loopLines ofRat i outT bT cT) (some ("*** Iteration over " ++ i ++ " ***")),
   .block [.assign (.attr (.var outT.name) "vals") (.var (valsName outT.name))]
      (some ("Assembling output tensor " ++ outT.name))]

/-- the `evaluate` kernel of the class -/
def kernel (ofRat : Rat → F) (formats : Formats) (i : String) (outT bT cT : TensorId) : Func F :=
  ⟨"evaluate", formats.map fun f => (f.1, .ptr .tensor), .int,
    .block (kernelStmts ofRat i outT bT cT ++ [.ret (.intLit 0)]) none⟩

/-- **What `generateIr` produces on the class.** -/
theorem generateIr_eq (ofRat : Rat → F) (cap : Option Int) (a : Alg.DAssign) (formats : Formats)
    (i : String) (outT bT cT : TensorId)
    (hout : tensorId 0 a.tname formats a.tidx = some outT) (hname : outT.name = a.tname)
    (hcl : isClass i outT bT cT = true) (hf : FmtOK formats outT bT cT)
    (hd : indexDimensions a = [(i, bT.name, 0)]) :
    generateIr ofRat cap a formats (graph i bT cT) .evaluate =
      .ok (kernel ofRat formats i outT bT cT) := by
  obtain ⟨ho1, ho2, _⟩ := (isClass_iff i outT bT cT).1 hcl
  obtain ⟨oa, ob, oc, rfl⟩ := hf
  have hsz : 4 * (graph i bT cT).size + 8 = 14 + 2 := by simp [graph, IGraph.size]
  have hdecl : (appendDeclarations cap outT .evaluate : SB F) = ⟨some "Output initialization",
      [declAssignE (valsCapName outT.name) .int (.intLit 1),
       .assign (.var (valsName outT.name)) (.alloc .float (.var (valsCapName outT.name)))]⟩ := by
    simp [appendDeclarations, ho1, ho2, List.range, List.range.loop, Kind.isAssemble, SB.mk', SB.add,
      mulJoin, joinWith]
  have hclean : (appendCleanup outT .evaluate : SB F) = ⟨some ("Assembling output tensor " ++ outT.name),
      [.assign (.attr (.var outT.name) "vals") (.var (valsName outT.name))]⟩ := by
    simp [appendCleanup, ho2, List.range, List.range.loop, Kind.isAssemble, SB.mk', SB.add]
  unfold generateIr
  simp only [hout, Option.getD_some, hsz, lower_eq ofRat 14 i outT bT cT hcl, hd, hdecl, hclean]
  simp [bind, Except.bind, pure, Except.pure, kernel, kernelStmts, SB.add, SB.append, SB.empty,
    SB.finalize, Kind.name, hname, unpackStmts, List.range, List.range.loop, declAssignE]

end TV.Spdot
