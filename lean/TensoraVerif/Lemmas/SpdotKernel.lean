import TensoraVerif.Lemmas.SpdotLoop
import TensoraVerif.Lemmas.SpdotPrologue
import TensoraVerif.Lemmas.SpmulBlock

/-!
C01 for the sparse dot product, part 7: the iteration block on the machine — bucket initialisation,
`writeSparseInit` for `b` and for `c` (C05 M4), the merge loop (`loop_runs`) — the hand-over `a->vals = a_vals`
and the whole `evaluate` function (`kernel_runs`), from `Init` to `KernelPost`.
-/
namespace TV.Spdot
open TV.IR TV.Gen TV.Graph TV.Growth TV.Merge TV.Dense1
open TV.Sparse1 (isSp isSp_iff inLeaf unpackStmts nameClass nc_ptr nc_end nc_val)
open TV.Spmul (mulE env intersect assoc cur_namesB)
set_option linter.unusedSectionVars false
variable {F : Type} [FloatOps F]

/-- **Final state of a kernel call** `σ → σ'` (output record `ta`, initially `atr`) that has computed the sum
`s`: EXACTLY one block has been appended to the heap — the live, output-owned one-cell float block `[s]` — and
the `vals` field of the output record is its base address; every other field of the record, every other record
and every block of the initial heap (the inputs) is unchanged. -/
structure KernelPost (ta : Nat) (atr : TensorRec F) (s : F) (σ σ' : State F) : Prop where
  tensors : σ'.tensors = σ.tensors.set ta { atr with vals := .ptr σ.heap.length 0 }
  heap : σ'.heap = σ.heap ++ [accBlock s]

/-- static side conditions of the kernel theorem: the names (`KNames`) and the format table -/
structure KernelOK (formats : Formats) (i : String) (outT bT cT : TensorId) : Prop where
  names : KNames i outT bT cT
  fmt : FmtOK formats outT bT cT

set_option maxHeartbeats 1000000 in
/-- **the iteration block and the hand-over** -/
theorem iterBlock_runs {ofRat : Rat → F} {i : String} {outT bT cT : TensorId}
    (N : KNames i outT bT cT) (hb : isSp i bT = true) (hc : isSp i cT = true)
    {ta : Nat} {atr : TensorRec F} {n : Int}
    {tb : Nat} {btr : TensorRec F} {mb bpb bcb bvb : Nat} {crdB : Nat → Int} {cellsB : Nat → F}
    {tc : Nat} {ctr : TensorRec F} {mc cpb ccb cvb : Nat} {crdC : Nat → Int} {cellsC : Nat → F}
    {σ0 σC : State F}
    (init : Init outT bT cT ta atr n tb btr mb bpb bcb bvb crdB cellsB tc ctr mc cpb ccb cvb crdC cellsC σ0)
    (entry : Entry i outT bT cT bpb bcb bvb cpb ccb cvb σ0 σC)
    (hmb : mb ≤ 1073741824) (hmc : mc ≤ 1073741824)
    (hrngB : ∀ j, j < mb → -2147483648 ≤ crdB j ∧ crdB j < 2147483648)
    (hrngC : ∀ j, j < mc → -2147483648 ≤ crdC j ∧ crdC j < 2147483648)
    (hfin : ∀ q r, q < mb → r < mc → crdB q = crdC r →
      ToIr.AllFinite ofRat (env bT (cellsB q) (cellsC r)) (mulE bT cT))
    (hsum : SumsFinite (intersect (assoc mb crdB cellsB) (assoc mc crdC cellsC)))
    (fuel : Nat) (hfuel : mb + mc + 2 ≤ fuel) :
    ∃ σG its, RunsLI fuel
        [.block (loopLines ofRat i outT bT cT) (some ("*** Iteration over " ++ i ++ " ***")),
         .block [.assign (.attr (.var outT.name) "vals") (.var (valsName outT.name))]
           (some ("Assembling output tensor " ++ outT.name))] σC σG (its + 1) ∧
      its ≤ mb + mc ∧
      its = (mergeTrace [⟨inLeaf bT, bcb, crdB, 0, mb⟩, ⟨inLeaf cT, ccb, crdC, 0, mc⟩]).length ∧
      KernelPost ta atr (dotSum (intersect (assoc mb crdB cellsB) (assoc mc crdC cellsC))) σ0 σG := by
  have hfresh : ∀ x, nameClass x ≠ 0 → x ∉ proW i outT bT cT → lookupVar σC.vars x = none := by
    intro x hx hw
    rw [entry.frame x hw]
    refine init.fresh x ?_ ?_ ?_
    · intro h; rw [h, N.base.a0] at hx; exact hx rfl
    · intro h; rw [h, N.base.b0] at hx; exact hx rfl
    · intro h; rw [h, N.base.c0] at hx; exact hx rfl
  obtain ⟨pblkB, hpbB, hpliveB, hptyB, hpc0B, hpc1B⟩ := init.b.pos
  obtain ⟨cblk0B, hcbB, hcliveB, hctyB, hclenB, hccellsB⟩ := init.b.crd
  obtain ⟨vblk0B, hvbB, hvliveB, hvtyB, hvcellsB⟩ := init.b.val
  obtain ⟨pblkC, hpbC, hpliveC, hptyC, hpc0C, hpc1C⟩ := init.c.pos
  obtain ⟨cblk0C, hcbC, hcliveC, hctyC, hclenC, hccellsC⟩ := init.c.crd
  obtain ⟨vblk0C, hvbC, hvliveC, hvtyC, hvcellsC⟩ := init.c.val
  have hbpbl : bpb < σ0.heap.length := lt_length_of_getElem? hpbB
  have hbcbl : bcb < σ0.heap.length := lt_length_of_getElem? hcbB
  have hbvbl : bvb < σ0.heap.length := lt_length_of_getElem? hvbB
  have hcpbl : cpb < σ0.heap.length := lt_length_of_getElem? hpbC
  have hccbl : ccb < σ0.heap.length := lt_length_of_getElem? hcbC
  have hcvbl : cvb < σ0.heap.length := lt_length_of_getElem? hvbC
  -- D0: bucket initialisation
  have hWbk : bkN outT ∉ proW i outT bT cT := by dnotin N
  have hWbl : blN outT ∉ proW i outT bT cT := by dnotin N
  obtain ⟨σB, rB, hhB, htB, hbkB, frB⟩ := bucketInit_runs (outT := outT) (σC := σC) (vb := σ0.heap.length)
    entry.avals (by rw [entry.heap]; simp)
    (hfresh _ (by rw [N.kb]; decide) hWbk) (hfresh _ (by rw [N.kl]; decide) hWbl) fuel (by omega)
  have hBold : ∀ j, j < σ0.heap.length → σB.heap[j]? = σ0.heap[j]? := by
    intro j hj
    rw [hhB, List.getElem?_set_ne (by omega), entry.heap, List.getElem?_append_left hj]
  have hfreshB : ∀ x, nameClass x ≠ 0 → x ∉ proW i outT bT cT → x ≠ bkN outT → x ≠ blN outT →
      lookupVar σB.vars x = none := by
    intro x h1 h2 h3 h4; rw [frB x h3 h4]; exact hfresh x h1 h2
  -- D1: sparse init of b
  let cB : Cur := ⟨inLeaf bT, bcb, crdB, 0, mb⟩
  let cC : Cur := ⟨inLeaf cT, ccb, crdC, 0, mc⟩
  obtain ⟨n1, n2, n3, n4⟩ := cur_namesB (c := cB) (bT := bT) rfl
  obtain ⟨m1, m2, m3, m4⟩ := cur_namesB (c := cC) (bT := cT) rfl
  have hWpB : layerPointer bT.id 0 ∉ proW i outT bT cT := by dnotin N
  have hWeB : sparseEndName bT.id 0 ∉ proW i outT bT cT := by dnotin N
  have hWvB : valueFromCrd bT.id 0 ∉ proW i outT bT cT := by dnotin N
  have hWpC : layerPointer cT.id 0 ∉ proW i outT bT cT := by dnotin N
  have hWeC : sparseEndName cT.id 0 ∉ proW i outT bT cT := by dnotin N
  have hWvC : valueFromCrd cT.id 0 ∉ proW i outT bT cT := by dnotin N
  have hWi : i ∉ proW i outT bT cT := by dnotin N
  obtain ⟨oD, eD, rD, itD, curD, frD, hhD, htD⟩ := writeSparseInit_safe cB fuel σB bpb 0
    ⟨entry.bpos.congr (frB _ (by dnm N) (by dnm N)), by simp [PrevIs, cB, inLeaf], by omega, by omega,
      ⟨pblkB, by rw [hBold _ hbpbl]; exact hpbB, hpliveB, hptyB, by simpa [cB] using hpc0B,
        by simpa [cB] using hpc1B⟩⟩
    (by rw [n3]; exact entry.bcrd.congr (frB _ (by dnm N) (by dnm N))) (Nat.zero_le _)
    (by show (mb : Int) < 2147483648; omega)
    ⟨cblk0B, by rw [hBold _ hbcbl]; exact hcbB, hcliveB, hctyB, hclenB, fun j _ hj => hccellsB j hj⟩
    (fun j _ hj => hrngB j hj)
    (by
      rw [n1]; intro r hr
      rw [hfreshB _ (by simp [nc_ptr]) hWpB (by dnm N) (by dnm N)] at hr; cases hr)
    (by
      rw [n2]; intro r hr
      rw [hfreshB _ (by simp [nc_end]) hWeB (by dnm N) (by dnm N)] at hr; cases hr)
  rw [n1, n2] at frD
  have runD : RunsLI fuel (writeSparseInit (inLeaf bT)).lines σB oD.st 0 := by
    refine ⟨oD, ?_, rD, rfl, itD⟩
    have : (writeSparseInit (F := F) cB.leaf).finalize = .block (writeSparseInit (inLeaf bT)).lines none := rfl
    rw [this, exec.eq_5] at eD
    exact eD
  generalize oD.st = σD at *
  -- D2: sparse init of c
  obtain ⟨oE, eE, rE, itE, curE, frE, hhE, htE⟩ := writeSparseInit_safe cC fuel σD cpb 0
    ⟨entry.cpos.congr (by rw [frD _ (by dnm N) (by dnm N), frB _ (by dnm N) (by dnm N)]),
      by simp [PrevIs, cC, inLeaf], by omega, by omega,
      ⟨pblkC, by rw [hhD, hBold _ hcpbl]; exact hpbC, hpliveC, hptyC, by simpa [cC] using hpc0C,
        by simpa [cC] using hpc1C⟩⟩
    (by
      rw [m3]
      exact entry.ccrd.congr (by rw [frD _ (by dnm N) (by dnm N), frB _ (by dnm N) (by dnm N)]))
    (Nat.zero_le _)
    (by show (mc : Int) < 2147483648; omega)
    ⟨cblk0C, by rw [hhD, hBold _ hccbl]; exact hcbC, hcliveC, hctyC, hclenC, fun j _ hj => hccellsC j hj⟩
    (fun j _ hj => hrngC j hj)
    (by
      rw [m1]; intro r hr
      rw [frD _ (by dnm N) (by dnm N), hfreshB _ (by simp [nc_ptr]) hWpC (by dnm N) (by dnm N)] at hr
      cases hr)
    (by
      rw [m2]; intro r hr
      rw [frD _ (by dnm N) (by dnm N), hfreshB _ (by simp [nc_end]) hWeC (by dnm N) (by dnm N)] at hr
      cases hr)
  rw [m1, m2] at frE
  have runE : RunsLI fuel (writeSparseInit (inLeaf cT)).lines σD oE.st 0 := by
    refine ⟨oE, ?_, rE, rfl, itE⟩
    have : (writeSparseInit (F := F) cC.leaf).finalize = .block (writeSparseInit (inLeaf cT)).lines none := rfl
    rw [this, exec.eq_5] at eE
    exact eE
  generalize oE.st = σE at *
  -- all frames together
  have frAll : ∀ y, y ≠ layerPointer bT.id 0 → y ≠ sparseEndName bT.id 0 → y ≠ layerPointer cT.id 0 →
      y ≠ sparseEndName cT.id 0 → y ≠ bkN outT → y ≠ blN outT →
      lookupVar σE.vars y = lookupVar σC.vars y := by
    intro y h1 h2 h3 h4 h5 h6; rw [frE y h3 h4, frD y h1 h2, frB y h5 h6]
  have hhE' : σE.heap = σC.heap.set σ0.heap.length (accBlock (FloatOps.ofInt 0)) := by rw [hhE, hhD, hhB]
  have hEold : ∀ j, j < σ0.heap.length → σE.heap[j]? = σ0.heap[j]? := by
    intro j hj; rw [hhE, hhD]; exact hBold j hj
  have curD' : CurInv σE cB := curD.congr (by rw [n3]; exact frE _ (by dnm N) (by dnm N))
    (by rw [n1]; exact frE _ (by dnm N) (by dnm N)) (by rw [n2]; exact frE _ (by dnm N) (by dnm N))
    (by rw [hhE])
  have hlenC : σC.heap.length = σ0.heap.length + 1 := by rw [entry.heap]; simp
  have hlenE : σE.heap.length = σ0.heap.length + 1 := by rw [hhE', List.length_set, hlenC]
  -- the loop
  have pre : LoopPre outT bT cT mb mc bvb cvb cellsB cellsC σ0.heap.length σE :=
    { bvals := entry.bvals.congr (frAll _ (by dnm N) (by dnm N) (by dnm N) (by dnm N) (by dnm N) (by dnm N))
      cvals := entry.cvals.congr (frAll _ (by dnm N) (by dnm N) (by dnm N) (by dnm N) (by dnm N) (by dnm N))
      bucket := hbkB.congr (by rw [frE _ (by dnm N) (by dnm N), frD _ (by dnm N) (by dnm N)])
      bblk := ⟨vblk0B, by rw [hEold _ hbvbl]; exact hvbB, hvliveB, hvtyB, hvcellsB⟩
      cblk := ⟨vblk0C, by rw [hEold _ hcvbl]; exact hvbC, hvliveC, hvtyC, hvcellsC⟩
      olen := by omega
      bne := by omega
      cne := by omega
      smallB := hmb
      smallC := hmc }
  have hP : Inv i bT cT σ0.heap.length σE (FloatOps.ofInt 0) σE :=
    { tensors := rfl, heap := by rw [hhE', List.set_set], vars := fun _ _ => rfl }
  have hM : MergeInv σE [cB, cC] i := by
    refine ⟨fun d hd => ?_, fun d hd => ?_, ?_⟩
    · simp only [List.mem_cons, List.not_mem_nil, or_false] at hd
      rcases hd with rfl | rfl
      · exact curD'
      · exact curE
    · simp only [List.mem_cons, List.not_mem_nil, or_false] at hd
      rcases hd with rfl | rfl
      · rw [n4]
        intro r hr
        rw [frAll _ (by dnm N) (by dnm N) (by dnm N) (by dnm N) (by dnm N) (by dnm N),
          hfresh _ (by simp [nc_val]) hWvB] at hr
        cases hr
      · rw [m4]
        intro r hr
        rw [frAll _ (by dnm N) (by dnm N) (by dnm N) (by dnm N) (by dnm N) (by dnm N),
          hfresh _ (by simp [nc_val]) hWvC] at hr
        cases hr
    · intro r hr
      rw [frAll _ (by dnm N) (by dnm N) (by dnm N) (by dnm N) (by dnm N) (by dnm N), entry.frame _ hWi,
        init.fresh _ N.base.ia N.base.ib N.base.ic] at hr
      cases hr
  obtain ⟨oL, eL, rL, itL1, itL2, hinv⟩ := loop_runs (ofRat := ofRat) N hb hc pre hfin hsum bcb ccb
    (by omega) (by omega) fuel σE (by omega) hM hP
  have runL : RunsI fuel (mergeLoopL [inLeaf bT, inLeaf cT] i [midStmt ofRat i outT bT cT]) σE oL.st oL.iters :=
    ⟨oL, eL, rL, rfl, rfl⟩
  generalize hits : oL.iters = its at *
  generalize oL.st = σL at *
  generalize hS : dotSum (intersect (assoc mb crdB cellsB) (assoc mc crdC cellsC)) = S at *
  -- the hand-over
  have hTa : outT.name ∉ touched i bT cT := by dnotouch N
  have hTv : valsName outT.name ∉ touched i bT cT := by dnotouch N
  have hWa : outT.name ∉ proW i outT bT cT := by dnotin N
  have havarL : TensorVar σL outT.name ta :=
    init.avar.congr (by
      rw [hinv.vars _ hTa, frAll _ (by dnm N) (by dnm N) (by dnm N) (by dnm N) (by dnm N) (by dnm N),
        entry.frame _ hWa])
  have havalsL : PtrVar σL (valsName outT.name) σ0.heap.length :=
    entry.avals.congr (by
      rw [hinv.vars _ hTv, frAll _ (by dnm N) (by dnm N) (by dnm N) (by dnm N) (by dnm N) (by dnm N)])
  have htL : σL.tensors = σ0.tensors := by rw [hinv.tensors, htE, htD, htB, entry.tensors]
  have rG := runsI_storeVals (fuel := fuel) havarL havalsL (by rw [htL]; exact init.arec) init.aown
  refine ⟨{ σL with tensors := σL.tensors.set ta { atr with vals := .ptr σ0.heap.length 0 } }, its, ?_,
    itL1, itL2, ?_⟩
  · have hblock : RunsLI fuel (loopLines ofRat i outT bT cT) σC σL (1 + (0 + (0 + (its + 0)))) := by
      have := RunsLI.cons rB (RunsLI.append runD (RunsLI.append runE (RunsLI.cons runL (RunsLI.nil _ _))))
      simpa [loopLines] using this
    have := RunsLI.cons (RunsI.block (c := some ("*** Iteration over " ++ i ++ " ***")) hblock)
      (RunsLI.cons (RunsI.block (c := some ("Assembling output tensor " ++ outT.name))
        (RunsLI.cons rG (RunsLI.nil _ _))) (RunsLI.nil _ _))
    have hk : 1 + (0 + (0 + (its + 0))) + (0 + 0 + 0) = its + 1 := by omega
    rw [hk] at this
    exact this
  · refine { tensors := ?_, heap := ?_ }
    · show σL.tensors.set ta _ = _
      rw [htL]
    · show σL.heap = _
      rw [hinv.heap, hhE', List.set_set, entry.heap]
      simp

/-- **the whole `evaluate` function on the machine** -/
theorem kernel_runs (ofRat : Rat → F) (formats : Formats) (i : String) (outT bT cT : TensorId)
    (hcl : isClass i outT bT cT = true) (N : KNames i outT bT cT)
    {ta : Nat} {atr : TensorRec F} {n : Int}
    {tb : Nat} {btr : TensorRec F} {mb bpb bcb bvb : Nat} {crdB : Nat → Int} {cellsB : Nat → F}
    {tc : Nat} {ctr : TensorRec F} {mc cpb ccb cvb : Nat} {crdC : Nat → Int} {cellsC : Nat → F}
    {σ : State F}
    (init : Init outT bT cT ta atr n tb btr mb bpb bcb bvb crdB cellsB tc ctr mc cpb ccb cvb crdC cellsC σ)
    (hmb : mb ≤ 1073741824) (hmc : mc ≤ 1073741824)
    (hrngB : ∀ j, j < mb → -2147483648 ≤ crdB j ∧ crdB j < 2147483648)
    (hrngC : ∀ j, j < mc → -2147483648 ≤ crdC j ∧ crdC j < 2147483648)
    (hfin : ∀ q r, q < mb → r < mc → crdB q = crdC r →
      ToIr.AllFinite ofRat (env bT (cellsB q) (cellsC r)) (mulE bT cT))
    (hsum : SumsFinite (intersect (assoc mb crdB cellsB) (assoc mc crdC cellsC)))
    (fuel : Nat) (hfuel : mb + mc + 2 ≤ fuel) :
    ∃ o, exec fuel (kernel ofRat formats i outT bT cT).body σ = .ok o ∧ o.ret = some (.int 0) ∧
      o.iters ≤ mb + mc + 1 ∧
      o.iters = (mergeTrace [⟨inLeaf bT, bcb, crdB, 0, mb⟩, ⟨inLeaf cT, ccb, crdC, 0, mc⟩]).length + 1 ∧
      KernelPost ta atr (dotSum (intersect (assoc mb crdB cellsB) (assoc mc crdC cellsC))) σ o.st := by
  obtain ⟨_, _, hb, hc, _⟩ := (isClass_iff i outT bT cT).1 hcl
  obtain ⟨σC, rC, entry⟩ := prologue_runs N init fuel
  obtain ⟨σG, its, rF, hits1, hits2, post⟩ := iterBlock_runs (ofRat := ofRat) N hb hc init entry hmb hmc
    hrngB hrngC hfin hsum fuel hfuel
  have rAll : RunsLI fuel (kernelStmts ofRat i outT bT cT) σ σG (0 + (its + 1)) := by
    unfold kernelStmts
    have h3 := RunsLI.append rC rF
    simpa using h3
  obtain ⟨o, eo, hret, hst, hit⟩ := execL_ret (e := .intLit 0) (v := .int 0) rAll
    (evalE_intLit (by omega) (by omega))
  refine ⟨o, ?_, hret, by rw [hit]; omega, by rw [hit, ← hits2]; omega, by rw [hst]; exact post⟩
  show exec fuel (.block (kernelStmts ofRat i outT bT cT ++ [.ret (.intLit 0)]) none) σ = _
  rw [exec.eq_5]
  exact eo

end TV.Spdot
