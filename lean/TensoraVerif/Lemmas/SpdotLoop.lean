import TensoraVerif.Lemmas.SpdotBody
import TensoraVerif.Lemmas.SpmulLoop

/-!
C01 for the sparse dot product, part 5: the whole loop, by the cursor-indexed merge loop theorem
(`Spmul.merge_loop_cursor_ghost`). The ghost predicate `P [c_b, c_c] σ` says: the loop invariant `Inv` holds
with the accumulator `dotSum hist` for a list `hist` of matched entries with

  `hist ++ intersect (b from p_b on) (c from p_c on) = intersect b c`

(the invariant of the element-wise product, `Spmul.hist_step`, with the history folded into one cell).
-/
namespace TV.Spdot
open TV.IR TV.Gen TV.Graph TV.Growth TV.Merge
open TV.Sparse1 (isSp isSp_iff inLeaf)
open TV.Spmul (mulE env intersect assoc stepHist hist_step reach_pair cur_namesB merge_loop_cursor_ghost
  CurStable MidOKc)
set_option linter.unusedSectionVars false
variable {F : Type} [FloatOps F]

/-- the finiteness side condition on the accumulator: every prefix sum of the matched products, in merge
order, is finite (the machine re-reads the accumulator at every match) -/
def SumsFinite (H : List (Int × F)) : Prop :=
  ∀ n, n ≤ H.length → FloatOps.finite (dotSum (H.take n)) = true

theorem SumsFinite.prefix {H : List (Int × F)} (h : SumsFinite H) {hist rest : List (Int × F)}
    (e : hist ++ rest = H) : FloatOps.finite (dotSum hist) = true := by
  have := h hist.length (by rw [← e]; simp)
  rwa [← e, List.take_left'  rfl] at this

theorem stepAcc_dotSum (hist : List (Int × F)) (xb xc x : Int) (u v : F) :
    stepAcc (dotSum hist) xb xc x u v = dotSum (stepHist hist xb xc x u v) := by
  unfold stepAcc stepHist
  split
  · rw [dotSum_append]
  · rfl

/-- the ghost predicate of the loop, indexed by the two cursor records -/
def P (i : String) (bT cT : TensorId) (mb mc : Nat) (crdB crdC : Nat → Int) (cellsB cellsC : Nat → F)
    (vb0 : Nat) (σ0 : State F) (cs : List Cur) (σ : State F) : Prop :=
  ∃ pb pc hist, cs.map Cur.p = [pb, pc] ∧
    Inv i bT cT vb0 σ0 (dotSum hist) σ ∧
    hist ++ intersect ((assoc mb crdB cellsB).drop pb) ((assoc mc crdC cellsC).drop pc) =
      intersect (assoc mb crdB cellsB) (assoc mc crdC cellsC)

section
variable {ofRat : Rat → F} {i : String} {outT bT cT : TensorId} {mb mc bvb cvb : Nat}
  {cellsB cellsC : Nat → F} {crdB crdC : Nat → Int} {vb0 : Nat} {σ0 : State F}

/-- the ghost predicate does not look at the variables the skeleton writes -/
theorem curStable {c0b c0c : Cur} (hb0 : c0b.leaf = inLeaf bT) (hc0 : c0c.leaf = inLeaf cT) :
    CurStable (P i bT cT mb mc crdB crdC cellsB cellsC vb0 σ0) [c0b, c0c] i := by
  intro cs σ σ' hreach ⟨pb, pc, hist, hps, h, hrel⟩ hh ht hv
  obtain ⟨c1, c2, rfl, ⟨l1, _⟩, ⟨l2, _⟩⟩ := reach_pair hreach
  obtain ⟨n1, n2, n3, n4⟩ := cur_namesB (l1.trans hb0)
  obtain ⟨m1, m2, m3, m4⟩ := cur_namesB (l2.trans hc0)
  refine ⟨pb, pc, hist, hps, ?_, hrel⟩
  refine { tensors := by rw [ht]; exact h.tensors, heap := by rw [hh]; exact h.heap, vars := ?_ }
  intro y hy
  have hy' := hy
  simp only [touched, List.mem_cons, List.not_mem_nil, or_false, not_or] at hy'
  rw [hv y (by
    simp only [writtenNames, List.map_cons, List.map_nil, List.mem_cons, List.mem_append, List.not_mem_nil,
      or_false, n1, n4, m1, m4, not_or]
    exact ⟨hy'.1, ⟨hy'.2.1, hy'.2.2.2.1⟩, hy'.2.2.1, hy'.2.2.2.2⟩), h.vars y hy]

/-- **the frame condition of the merge loop holds for the statement between `min` and the increments** -/
theorem midOKc (N : KNames i outT bT cT) (hb : isSp i bT = true) (hc : isSp i cT = true)
    (pre : LoopPre outT bT cT mb mc bvb cvb cellsB cellsC vb0 σ0)
    (hfin : ∀ q r, q < mb → r < mc → crdB q = crdC r →
      ToIr.AllFinite ofRat (env bT (cellsB q) (cellsC r)) (mulE bT cT))
    (hsum : SumsFinite (intersect (assoc mb crdB cellsB) (assoc mc crdC cellsC)))
    (c0b c0c : Cur) (hb0 : c0b.leaf = inLeaf bT) (hc0 : c0c.leaf = inLeaf cT)
    (hcrdB : c0b.crd = crdB) (hcrdC : c0c.crd = crdC) (heB : c0b.e = mb) (heC : c0c.e = mc)
    (hblkB : c0b.blk ≠ vb0) (hblkC : c0c.blk ≠ vb0) :
    MidOKc 0 0 (P i bT cT mb mc crdB crdC cellsB cellsC vb0 σ0) [c0b, c0c] i
      [midStmt ofRat i outT bT cT] := by
  intro fuel σ cs _ hreach hact hinvM hval hidx ⟨pb, pc, hist, hps, hinv, hrel⟩
  obtain ⟨c1, c2, rfl, ⟨l1, k1, d1, e1, _⟩, ⟨l2, k2, d2, e2, _⟩⟩ := reach_pair hreach
  obtain ⟨n1, n2, n3, n4⟩ := cur_namesB (l1.trans hb0)
  obtain ⟨m1, m2, m3, m4⟩ := cur_namesB (l2.trans hc0)
  simp only [List.map_cons, List.map_nil, List.cons.injEq, and_true] at hps
  obtain ⟨rfl, rfl⟩ := hps
  have hm1 : c1 ∈ [c1, c2] := List.mem_cons_self
  have hm2 : c2 ∈ [c1, c2] := List.mem_cons_of_mem _ List.mem_cons_self
  have hq : c1.p < mb := by rw [← heB, ← e1]; exact hact c1 hm1
  have hr : c2.p < mc := by rw [← heC, ← e2]; exact hact c2 hm2
  have hcur1 := hinvM.cur c1 hm1
  have hcur2 := hinvM.cur c2 hm2
  have hhere1 : c1.here = crdB c1.p := by rw [← hcrdB, ← d1]; rfl
  have hhere2 : c2.here = crdC c2.p := by rw [← hcrdC, ← d2]; rfl
  have hmin : curMin [c1, c2] = min (crdB c1.p) (crdC c2.p) := by
    simp [curMin, hhere1, hhere2]
  obtain ⟨b0, b1⟩ := hcur1.rng c1.p (Nat.le_refl _) (hact c1 hm1)
  obtain ⟨g0, g1⟩ := hcur2.rng c2.p (Nat.le_refl _) (hact c2 hm2)
  rw [d1, hcrdB] at b0 b1
  rw [d2, hcrdC] at g0 g1
  have hx0 : -2147483648 ≤ min (crdB c1.p) (crdC c2.p) := by omega
  have hx1 : min (crdB c1.p) (crdC c2.p) < 2147483648 := by omega
  have hrel' := hist_step crdB crdC cellsB cellsC hq hr hist _ hrel
  obtain ⟨σ', ⟨o, eo, ro, so⟩, hinv', _, fvars, fheap⟩ := mid_step (ofRat := ofRat) N hb hc
    pre fuel σ (dotSum hist) c1.p c2.p (crdB c1.p) (crdC c2.p) (min (crdB c1.p) (crdC c2.p)) hq hr hinv
    (by rw [← n1]; exact hcur1.ptrv) (by rw [← m1]; exact hcur2.ptrv)
    (by rw [← n4, ← hhere1]; exact hval c1 hm1) (by rw [← m4, ← hhere2]; exact hval c2 hm2)
    (by rw [← hmin]; exact hidx) b0 b1 g0 g1 hx0 hx1
    (by
      intro h1 h2
      have heq : crdB c1.p = crdC c2.p := h1.trans h2.symm
      refine ⟨hfin c1.p c2.p hq hr heq, hsum.prefix hrel, ?_⟩
      have := hsum.prefix hrel'
      rw [← stepAcc_dotSum] at this
      unfold stepAcc at this
      rwa [if_pos ⟨h1, h2⟩] at this)
  subst so
  refine ⟨o, eo, ro, ?_, ?_, ?_, ?_⟩
  · rw [Sparse1.execL_noLoop_iters fuel _ σ (noLoop_midStmt ofRat i outT bT cT) o eo]; exact Nat.le_refl _
  · intro x _
    rw [fvars]
  · intro d hd
    simp only [List.mem_cons, List.not_mem_nil, or_false] at hd
    apply fheap
    rcases hd with rfl | rfl
    · rw [k1]; exact hblkB
    · rw [k2]; exact hblkC
  · refine ⟨(c1.adv (curMin [c1, c2])).p, (c2.adv (curMin [c1, c2])).p,
      stepHist hist (crdB c1.p) (crdC c2.p) (min (crdB c1.p) (crdC c2.p)) (cellsB c1.p) (cellsC c2.p),
      rfl, ?_, ?_⟩
    · rw [← stepAcc_dotSum]; exact hinv'
    · rw [adv_p_eq, adv_p_eq, hmin, d1, hcrdB, d2, hcrdC]
      exact hrel'

/-- **(b) The whole loop.** From a state satisfying the merge invariant for the two input leaves (cursors
`0`, ends `mb`, `mc`) and the loop invariant for the accumulator `ofInt 0`, the loop `lower` emits runs without
error with any fuel `≥ mb + mc + 1`, performs at most `mb + mc` iterations (exactly `|mergeTrace|`), and ends
with the loop invariant for the accumulator `dotSum (intersect b c)`. -/
theorem loop_runs (N : KNames i outT bT cT) (hb : isSp i bT = true) (hc : isSp i cT = true)
    (pre : LoopPre outT bT cT mb mc bvb cvb cellsB cellsC vb0 σ0)
    (hfin : ∀ q r, q < mb → r < mc → crdB q = crdC r →
      ToIr.AllFinite ofRat (env bT (cellsB q) (cellsC r)) (mulE bT cT))
    (hsum : SumsFinite (intersect (assoc mb crdB cellsB) (assoc mc crdC cellsC)))
    (bcb ccb : Nat) (hblkB : bcb ≠ vb0) (hblkC : ccb ≠ vb0)
    (fuel : Nat) (σ : State F) (hfuel : mb + mc + 1 ≤ fuel)
    (hM : MergeInv σ [⟨inLeaf bT, bcb, crdB, 0, mb⟩, ⟨inLeaf cT, ccb, crdC, 0, mc⟩] i)
    (hP : Inv i bT cT vb0 σ0 (FloatOps.ofInt 0) σ) :
    ∃ o, exec fuel (mergeLoopL [inLeaf bT, inLeaf cT] i [midStmt ofRat i outT bT cT]) σ = .ok o ∧
      o.ret = none ∧ o.iters ≤ mb + mc ∧
      o.iters = (mergeTrace [⟨inLeaf bT, bcb, crdB, 0, mb⟩, ⟨inLeaf cT, ccb, crdC, 0, mc⟩]).length ∧
      Inv i bT cT vb0 σ0 (dotSum (intersect (assoc mb crdB cellsB) (assoc mc crdC cellsC))) o.st := by
  let c0b : Cur := ⟨inLeaf bT, bcb, crdB, 0, mb⟩
  let c0c : Cur := ⟨inLeaf cT, ccb, crdC, 0, mc⟩
  have hnames : NamesOK [c0b, c0c] i := merge_names_generated [c0b, c0c] i N.base.iu (by
    simp only [List.pairwise_cons, List.mem_cons, List.not_mem_nil, or_false, forall_eq, List.Pairwise.nil,
      and_true, false_imp_iff, implies_true]
    intro h; exact N.base.idbc h.1)
  have hmeas : curMeasure [c0b, c0c] = mb + mc := by simp [curMeasure, c0b, c0c]
  obtain ⟨o, eo, ro, inv, hreach, ⟨cx, hcx, hcxe⟩, hl, lo, hi, pb, pc, hist, hps, hinvF, hrel⟩ :=
    merge_loop_cursor_ghost (B := 0) (K := 0)
      (P := P i bT cT mb mc crdB crdC cellsB cellsC vb0 σ0) [c0b, c0c] i
      [midStmt ofRat i outT bT cT] fuel σ (by simp) hnames hM
      ⟨0, 0, [], rfl, hP, by simp⟩
      (curStable rfl rfl)
      (midOKc N hb hc pre hfin hsum c0b c0c rfl rfl rfl rfl rfl rfl hblkB hblkC)
      (by rw [hmeas]; omega)
  simp only [Nat.zero_add, Nat.mul_one] at hi
  refine ⟨o, eo, ro, ?_, ?_, ?_⟩
  · rw [hmeas] at hl; omega
  · exact Nat.le_antisymm hi lo
  · obtain ⟨c1, c2, hcs, ⟨_, _, _, e1, _⟩, ⟨_, _, _, e2, _⟩⟩ := reach_pair hreach
    rw [hcs] at hps hcx
    simp only [List.map_cons, List.map_nil, List.cons.injEq, and_true] at hps
    obtain ⟨rfl, rfl⟩ := hps
    have hnil : intersect ((assoc mb crdB cellsB).drop c1.p) ((assoc mc crdC cellsC).drop c2.p) = [] := by
      simp only [List.mem_cons, List.not_mem_nil, or_false] at hcx
      rcases hcx with rfl | rfl
      · rw [hcxe, e1, show c0b.e = mb from rfl, Spmul.assoc_drop_all]; rfl
      · rw [hcxe, e2, show c0c.e = mc from rfl, Spmul.assoc_drop_all, Spmul.intersect_nil_right]
    rw [hnil, List.append_nil] at hrel
    rw [← hrel]; exact hinvF

end

end TV.Spdot
