import TensoraVerif.Lemmas.SpmulLower
import TensoraVerif.Lemmas.Sparse1Generate

/-!
C01 for the sparse dot product `a() = b(i) * c(i)` (`a` a scalar, format ``; `b`, `c` compressed vectors),
part 1: definitions, what `lower` emits (`lower_eq`) and what `generateIr` produces (`generateIr_eq`).

The graph is `.iter i none (.terminal (b * c))`: a CONTRACTION loop (no output layer) that is sparse. The
output switches to bucket mode at once (`Output.next`: all remaining — zero — output modes are dense); the
bucket has no layer (`bucket_<id>`, one cell, `= a_vals + 0 * 1`). The lattice of sub-graphs is the one of the
element-wise product (`[graph, zero graph]`): one merge loop over `[b, c]`, one branch "both present", no tail
loop. No `written` flag, no `crd`/`pos` output.
-/
namespace TV.Spdot
open TV.IR TV.Gen TV.Graph TV.Merge
open TV.Sparse1 (isSp isSp_iff inLeaf unpackStmts)
open TV.Spmul (mulE bothCond)
set_option linter.unusedSectionVars false
set_option linter.unusedSimpArgs false
variable {F : Type} [FloatOps F]

/-- the output is a scalar (no index, no mode), the two inputs are compressed vectors over `i`, and the two
input occurrences are different -/
def isClass (i : String) (outT bT cT : TensorId) : Bool :=
  outT.indexes == [] && outT.modes == [] && isSp i bT && isSp i cT && bT.id != cT.id

theorem isClass_iff (i : String) (outT bT cT : TensorId) :
    isClass i outT bT cT = true ↔
      outT.indexes = [] ∧ outT.modes = [] ∧ isSp i bT = true ∧ isSp i cT = true ∧ bT.id ≠ cT.id := by
  simp [isClass, and_assoc]

/-- the iteration graph of `out() = b(i) * c(i)`: a contraction loop over `i` -/
def graph (i : String) (bT cT : TensorId) : IGraph := .iter i none (.terminal (mulE bT cT))

/-- the zero graph: the terminal has been exhausted to the literal `Integer 0` -/
def zeroGraph (i : String) : IGraph := .iter i none (.terminal (.int 0))

/-- the bucket pointer `bucket_<id>` and the index of its initialisation loop `i_bucket_<id>` -/
def bkN (outT : TensorId) : String := bucketName outT []
def blN (outT : TensorId) : String := bucketLoopName outT []

/-- `bucket[0] = bucket[0] + b_vals[p_b] * c_vals[p_c];` -/
def accStmt (ofRat : Rat → F) (outT bT cT : TensorId) : Stmt F :=
  increment (.idx (.var (bkN outT)) (.intLit 0)) (toIrWith ofRat (mulE bT cT))

/-- the terminal block -/
def termBlock (ofRat : Rat → F) (outT bT cT : TensorId) : Stmt F :=
  .block [accStmt ofRat outT bT cT] (some "*** Computation of expression ***")

/-- what `lower` puts between the `min` and the cursor increments:
`if ((true && i_b == i) && i_c == i) { bucket[0] += … }` — no `else if` -/
def midStmt (ofRat : Rat → F) (i : String) (outT bT cT : TensorId) : Stmt F :=
  .branch (bothCond i bT cT) (.block [termBlock ofRat outT bT cT] none) (.block [] none)

/-- the lines of the "Bucket initialization" block: `double* bucket = a_vals + 0 * 1; int i_bucket = 0;
while (i_bucket < 1) { bucket[i_bucket] = 0; i_bucket = i_bucket + 1; }` -/
def bucketInitLines (outT : TensorId) : List (Stmt F) :=
  [declAssignE (bkN outT) (.ptr .float)
     (plus (.var (valsName outT.name)) (times (.intLit 0) (.intLit 1))),
   declAssignE (blN outT) .int (.intLit 0),
   .loop (.bin .lt (.var (blN outT)) (.intLit 1))
     (.block [.assign (.idx (.var (bkN outT)) (.var (blN outT))) (.intLit 0),
        increment (.var (blN outT)) (.intLit 1)] none)]

/-- the lines of the "Iteration over i" block: bucket initialisation, cursor/end of `b`, cursor/end of `c`,
ONE loop. -/
def loopLines (ofRat : Rat → F) (i : String) (outT bT cT : TensorId) : List (Stmt F) :=
  [.block (bucketInitLines outT) (some "Bucket initialization")] ++
  (writeSparseInit (inLeaf bT)).lines ++ (writeSparseInit (inLeaf cT)).lines ++
  [mergeLoopL [inLeaf bT, inLeaf cT] i [midStmt ofRat i outT bT cT]]

/-! ### the lattice -/

section
variable (i : String) (bT cT : TensorId) (hb : isSp i bT = true) (hc : isSp i cT = true)
  (hne : bT.id ≠ cT.id)
include hb hc hne

theorem compressedDims_graph : compressedDims (graph i bT cT) = [bT.id, cT.id] := by
  simp [compressedDims, graph, nodeContext, IGraph.context, Spmul.ctx_eq i bT cT hb hc, dedupStr, inLeaf]
  exact Ne.symm hne

omit hb hc in
theorem exhaust_c : (graph i bT cT).exhaust cT.id = zeroGraph i := by
  have hne' : (bT.id == cT.id) = false := by simpa using hne
  simp [graph, zeroGraph, IGraph.exhaust, mulE, exhaust, IdExpr.occurs, IdExpr.isZeroInt, hne']

omit hb hc hne in
theorem exhaust_b : (graph i bT cT).exhaust bT.id = zeroGraph i := by
  by_cases h : cT.id = bT.id
  · simp [graph, zeroGraph, IGraph.exhaust, mulE, exhaust, IdExpr.occurs, IdExpr.isZeroInt, h]
  · have h' : (cT.id == bT.id) = false := by simpa using h
    simp [graph, zeroGraph, IGraph.exhaust, mulE, exhaust, IdExpr.occurs, IdExpr.isZeroInt, h']

omit hb hc hne in
theorem compressedDims_zero : compressedDims (zeroGraph i) = [] := by
  simp [compressedDims, zeroGraph, nodeContext, IGraph.context, extractContext, dedupStr]

/-- **the lattice of sub-graphs**: the graph itself and the zero graph -/
theorem generateSubgraphs_eq : generateSubgraphs (graph i bT cT) = [graph i bT cT, zeroGraph i] := by
  have h1 := compressedDims_graph i bT cT hb hc hne
  have h2 := compressedDims_zero i
  have hx := exhaust_c i bT cT hne
  have hy := exhaust_b i bT cT
  simp [generateSubgraphs, generateSubgraphs.go, h1, h2, hx, hy, dictSet, sameSet, sortByLenDesc,
    List.range, List.range.loop]

end

/-- the terminal in bucket mode (no bucket layer, no flag) -/
theorem lower_terminal_eq (ofRat : Rat → F) (n : Nat) (outT bT cT : TensorId) (hm : outT.modes = []) :
    lower ofRat (n + 1) (.terminal (mulE bT cT)) (.bucket outT []) .evaluate =
      .ok ⟨some "*** Computation of expression ***", [accStmt ofRat outT bT cT]⟩ := by
  have hw := ToIr.writeAssignment_bucket_eq (F := F) outT [] (toIrWith ofRat (mulE bT cT))
  rw [ToIr.lower_terminal_eq ofRat .evaluate rfl n _ (.bucket outT []) _ hw]
  have hfl : (Output.bucket outT []).writtenFlags = [] := by
    simp [Output.writtenFlags, Output.tensor, hm]
  simp [ToIr.activeFlags, hfl, accStmt, bkN, ravelIndexes, bucketDims, addJoin, joinWith]

/-- **What `lower` emits on the class.** -/
theorem lower_eq (ofRat : Rat → F) (n : Nat) (i : String) (outT bT cT : TensorId)
    (hcl : isClass i outT bT cT = true) :
    lower ofRat (n + 2) (graph i bT cT) (.append outT 0) .evaluate =
      .ok ⟨some ("*** Iteration over " ++ i ++ " ***"), loopLines ofRat i outT bT cT⟩ := by
  obtain ⟨ho1, ho2, hb, hc, hne⟩ := (isClass_iff i outT bT cT).1 hcl
  have hctx := Spmul.ctx_eq i bT cT hb hc
  have hsub := generateSubgraphs_eq i bT cT hb hc hne
  have hcd1 := compressedDims_graph i bT cT hb hc hne
  have hcd2 := compressedDims_zero i
  unfold graph zeroGraph at hsub
  unfold graph at hcd1
  unfold zeroGraph at hcd2
  unfold graph
  unfold lower
  simp only [Kind.isCompute, Bool.not_true, Bool.false_and, Bool.false_eq_true, if_false]
  have hso : isSparseOutput (IGraph.iter i none (IGraph.terminal (mulE bT cT))) = false := by
    simp [isSparseOutput]
  have hnext : ((Output.append outT 0).next none Kind.evaluate : Except GenErr (Output × SB F)) =
      .ok (.bucket outT [], bucketDeclarations outT []
        (plus (.var (valsName outT.name)) (times (.intLit 0) (.intLit 1)))) := by
    simp [Output.next, ho1, ho2, Kind.isCompute, prevLayerPointer, mulJoin, joinWith]
  have hnc : nodeContext (IGraph.iter i none (IGraph.terminal (mulE bT cT))) =
      ⟨true, [inLeaf bT, inLeaf cT], []⟩ := by
    simp [nodeContext, IGraph.context, hctx]
  have hlater : (IGraph.iter i none (IGraph.terminal (mulE bT cT))).laterIndexes = [i] := by
    simp [IGraph.laterIndexes]
  have hterm := lower_terminal_eq ofRat n outT bT cT ho2
  have hbd : (bucketDeclarations (F := F) outT []
      (plus (.var (valsName outT.name)) (times (.intLit 0) (.intLit 1)))) =
      ⟨some "Bucket initialization", bucketInitLines outT⟩ := by
    simp [bucketDeclarations, SB.mk', SB.add, SB.loop, bucketInitLines, bkN, blN, bucketDims, mulJoin,
      joinWith]
  simp only [hso, Option.map_none, hnext, hsub, hnc, hlater, hterm, hcd1, hcd2, hbd,
    Bool.or_true, Bool.true_and, Bool.and_self, if_true, Option.isNone_none,
    List.foldlM_cons, List.foldlM_nil, bind, Except.bind, pure, Except.pure,
    List.isEmpty_nil, List.isEmpty_cons, Bool.not_true, Bool.not_false, Bool.false_eq_true,
    if_false, List.foldl_nil, List.foldl_cons, Bool.and_false, Bool.or_false,
    List.map_nil, List.map_cons, List.nil_append, Kind.isAssemble]
  rw [Sparse1.append_commented _ ⟨some "Bucket initialization", bucketInitLines outT⟩
      "Bucket initialization" rfl,
    Sparse1.append_plain _ (writeSparseInit (inLeaf bT)) rfl,
    Sparse1.append_plain _ (writeSparseInit (inLeaf cT)) rfl]
  simp [SB.mk', SB.append, SB.empty, SB.add, SB.loop, SB.branch, SB.finalize, branchJoin, andJoin, joinWith,
    minJoin, loopLines, midStmt, bothCond, termBlock, mergeLoopL, mergeBodyL, mergeCond,
    mergeLoads, mergeMin, mergeIncs, inLeaf, Leaf.ptr]

end TV.Spdot
