import TensoraVerif.Lemmas.SpmulNames
import TensoraVerif.Lemmas.SpdotModel
import TensoraVerif.Lemmas.DenseTermSpec

/-!
C01 for the sparse dot product, part 3: the names of the kernel are pairwise distinct (`KNames`, tactic `dnm`):
those of the element-wise product (`Spmul.KNames`) plus the bucket pointer `bucket_<id>` and the index
`i_bucket_<id>` of its initialisation loop, which must be of none of the other kinds of generated names
(`Sparse1.nameClass … = 13`: decidable on every closed instance; true of `bucket_0_a`, `i_bucket_0_a`).
-/
namespace TV.Spdot
open TV.IR TV.Gen TV.Graph TV.Merge
open TV.Sparse1 (nameClass ne_of_nameClass nc_plain nc_dim nc_pos nc_crd nc_vals nc_posCap nc_crdCap nc_valsCap
  nc_end nc_ptr nc_val nc_wr)

/-- the static name hypotheses of the class -/
structure KNames (i : String) (outT bT cT : TensorId) : Prop where
  base : Spmul.KNames i outT bT cT
  kb : nameClass (bkN outT) = 13
  kl : nameClass (blN outT) = 13

theorem bk_ne_bl (outT : TensorId) : bkN outT ≠ blN outT :=
  ToIr.ne_of_head?_ne (by
    rw [bkN, blN, DenseTerm.head?_bucketName, DenseTerm.head?_bucketLoopName]; decide)

/-- `dnm N` proves an inequality between two names of the kernel -/
macro "dnm" N:term : tactic => `(tactic| first
  | (apply ne_of_nameClass
     simp [nc_dim, nc_pos, nc_crd, nc_vals, nc_posCap, nc_crdCap, nc_valsCap, nc_end, nc_ptr,
       nc_val, nc_wr, ($N).base.i0, ($N).base.a0, ($N).base.b0, ($N).base.c0, ($N).kb, ($N).kl]
     done)
  | exact bk_ne_bl _ | exact (bk_ne_bl _).symm
  | snm ($N).base)

example {i : String} {outT bT cT : TensorId} (N : KNames i outT bT cT) :
    valsName cT.name ≠ valsName bT.name ∧ layerPointer bT.id 0 ≠ bkN outT ∧ blN outT ≠ bkN outT ∧
    i ≠ blN outT ∧ bkN outT ≠ valsName outT.name ∧ valsCapName outT.name ≠ blN outT ∧
    sparseEndName cT.id 0 ≠ sparseEndName bT.id 0 ∧ outT.name ≠ bkN outT := by
  and_intros <;> dnm N

end TV.Spdot
