import TensoraVerif.Lemmas.SpdotGenerate
import TensoraVerif.Lemmas.SpdotBody
import TensoraVerif.Lemmas.SpmulPrologue
import TensoraVerif.Lemmas.Dense2Spec

/-!
C01 for the sparse dot product, part 6: the prologue on the machine — "Extract dimensions" (from `b`), "Unpack
tensors" (`a_vals`; `pos`/`crd`/`vals` of `b` and `c`), "Output initialization" (`a_vals_capacity = 1; a_vals =
malloc`) — from an initial state as the driver builds it (`Init`) to the state at the entry of the iteration
block (`Entry`); and the "Bucket initialization" block (`bucketInit_runs`: ONE iteration of its loop, the cell
holds `ofInt 0`).
-/
namespace TV.Spdot
open TV.IR TV.Gen TV.Graph TV.Growth TV.Dense1
open TV.Sparse1 (isSp unpackStmts declFresh unpack1_runs ptrVar_of nameClass
  nc_dim nc_pos nc_crd nc_vals nc_posCap nc_crdCap nc_valsCap nc_ptr)
open TV.Spmul (InputVec)
set_option linter.unusedSectionVars false
variable {F : Type} [FloatOps F]

/-- **Initial machine state of a kernel call** for `a() = b(i) * c(i)`: the variables are exactly the three
tensor parameters; the output record `ta` (contents `atr`) is output-owned and has a pointer or `NULL` in `vals`;
the two inputs are well-formed compressed vectors (`Spmul.InputVec`), and the `dimensions` block of `b` holds the
int32 `n`. -/
structure Init (outT bT cT : TensorId) (ta : Nat) (atr : TensorRec F) (n : Int)
    (tb : Nat) (btr : TensorRec F) (mb bpb bcb bvb : Nat) (crdB : Nat → Int) (cellsB : Nat → F)
    (tc : Nat) (ctr : TensorRec F) (mc cpb ccb cvb : Nat) (crdC : Nat → Int) (cellsC : Nat → F)
    (σ : State F) : Prop where
  avar : TensorVar σ outT.name ta
  fresh : ∀ x, x ≠ outT.name → x ≠ bT.name → x ≠ cT.name → lookupVar σ.vars x = none
  arec : σ.tensors[ta]? = some atr
  aown : atr.owner = .output
  avals : isPtrVal atr.vals = true
  bdim : ∃ blk, σ.heap[btr.dimsBlk]? = some blk ∧ blk.live = true ∧ blk.ty = .int ∧
    blk.cells[0]? = some (some (.int n))
  n32 : -2147483648 ≤ n ∧ n < 2147483648
  b : InputVec σ bT.name tb btr mb bpb bcb bvb crdB cellsB
  c : InputVec σ cT.name tc ctr mc cpb ccb cvb crdC cellsC

/-- the names declared by the prologue -/
def proW (i : String) (outT bT cT : TensorId) : List String :=
  [dimName i, valsName outT.name, posName bT.name 0, crdName bT.name 0, valsName bT.name,
   posName cT.name 0, crdName cT.name 0, valsName cT.name, valsCapName outT.name]

/-- **The state at the entry of the iteration block**, relative to the initial state `σ`: ONE fresh output
block — the `vals` array of the scalar output, one uninitialised float cell — has been appended to the heap;
`a_vals` points to it; the array variables of the inputs point to their blocks; nothing else changed. -/
structure Entry (i : String) (outT bT cT : TensorId) (bpb bcb bvb cpb ccb cvb : Nat)
    (σ σC : State F) : Prop where
  heap : σC.heap = σ.heap ++ [⟨.float, [none], .output, true⟩]
  tensors : σC.tensors = σ.tensors
  frame : ∀ y, y ∉ proW i outT bT cT → lookupVar σC.vars y = lookupVar σ.vars y
  bpos : PtrVar σC (posName bT.name 0) bpb
  bcrd : PtrVar σC (crdName bT.name 0) bcb
  bvals : PtrVar σC (valsName bT.name) bvb
  cpos : PtrVar σC (posName cT.name 0) cpb
  ccrd : PtrVar σC (crdName cT.name 0) ccb
  cvals : PtrVar σC (valsName cT.name) cvb
  avals : PtrVar σC (valsName outT.name) σ.heap.length

/-- a name is not in `proW` -/
macro "dnotin" N:term : tactic =>
  `(tactic| (simp only [proW, List.mem_cons, List.mem_append, List.not_mem_nil, or_false, not_or]
             and_intros <;> dnm $N))

set_option maxHeartbeats 1000000 in
/-- **(c) The prologue.** -/
theorem prologue_runs {i : String} {outT bT cT : TensorId} (N : KNames i outT bT cT)
    {ta : Nat} {atr : TensorRec F} {n : Int}
    {tb : Nat} {btr : TensorRec F} {mb bpb bcb bvb : Nat} {crdB : Nat → Int} {cellsB : Nat → F}
    {tc : Nat} {ctr : TensorRec F} {mc cpb ccb cvb : Nat} {crdC : Nat → Int} {cellsC : Nat → F}
    {σ : State F}
    (init : Init outT bT cT ta atr n tb btr mb bpb bcb bvb crdB cellsB tc ctr mc cpb ccb cvb crdC cellsC σ)
    (fuel : Nat) :
    ∃ σC, RunsLI fuel
        [.block [declAssignE (dimName i) .int (.idx (.attr (.var bT.name) "dimensions") (.intLit 0))]
          (some "Extract dimensions"),
         .block ([declAssignE (valsName outT.name) (.ptr .float) (.attr (.var outT.name) "vals")] ++
            unpackStmts bT.name ++ unpackStmts cT.name) (some "Unpack tensors"),
         .block [declAssignE (valsCapName outT.name) .int (.intLit 1),
            .assign (.var (valsName outT.name)) (.alloc .float (.var (valsCapName outT.name)))]
            (some "Output initialization")] σ σC 0 ∧
      Entry i outT bT cT bpb bcb bvb cpb ccb cvb σ σC := by
  have hfr : ∀ x, nameClass x ≠ 0 → lookupVar σ.vars x = none := by
    intro x hx
    refine init.fresh x ?_ ?_ ?_
    · intro h; rw [h, N.base.a0] at hx; exact hx rfl
    · intro h; rw [h, N.base.b0] at hx; exact hx rfl
    · intro h; rw [h, N.base.c0] at hx; exact hx rfl
  obtain ⟨dblk, hdb, hdlive, hdty, hdc⟩ := init.bdim
  -- A
  obtain ⟨σA, rA, hhA, htA, _, oA⟩ := declFresh (fuel := fuel) (x := dimName i) (t := .int) (val' := .int n)
    (hfr _ (by simp [nc_dim])) (evalE_dim0 init.b.var init.b.hrec hdb hdlive hdty hdc init.n32.1 init.n32.2) rfl
  -- B, output: double* a_vals = a->vals
  obtain ⟨σB1, rB1, hhB1, htB1, vB1v, oB1⟩ := declFresh (fuel := fuel) (x := valsName outT.name)
    (t := .ptr .float) (σ := σA)
    (by rw [oA _ (by dnm N)]; exact hfr _ (by simp [nc_vals]))
    (evalE_vals (init.avar.congr (oA _ (by dnm N))) (by rw [htA]; exact init.arec) init.avals)
    (convTo_ptr_of_isPtrVal .float init.avals)
  -- B, input b
  obtain ⟨σB2, rB2, hhB2, htB2, vBp, vBc, vBv, oB2⟩ := unpack1_runs (fuel := fuel) (σ := σB1) N.base.bu
    (init.b.var.congr (by rw [oB1 _ (by dnm N), oA _ (by dnm N)]))
    (by rw [htB1, htA]; exact init.b.hrec) init.b.ord init.b.slot rfl rfl (by rw [init.b.vals]; rfl)
    (by rw [oB1 _ (by dnm N), oA _ (by dnm N)]; exact hfr _ (by simp [nc_pos]))
    (by rw [oB1 _ (by dnm N), oA _ (by dnm N)]; exact hfr _ (by simp [nc_crd]))
    (by rw [oB1 _ (by dnm N), oA _ (by dnm N)]; exact hfr _ (by simp [nc_vals]))
  -- B, input c
  obtain ⟨σB, rB3, hhB3, htB3, vCp, vCc, vCv, oB3⟩ := unpack1_runs (fuel := fuel) (σ := σB2) N.base.cu
    (init.c.var.congr (by
      rw [oB2 _ (by dnm N) (by dnm N) (by dnm N), oB1 _ (by dnm N), oA _ (by dnm N)]))
    (by rw [htB2, htB1, htA]; exact init.c.hrec) init.c.ord init.c.slot rfl rfl (by rw [init.c.vals]; rfl)
    (by
      rw [oB2 _ (by dnm N) (by dnm N) (by dnm N), oB1 _ (by dnm N), oA _ (by dnm N)]
      exact hfr _ (by simp [nc_pos]))
    (by
      rw [oB2 _ (by dnm N) (by dnm N) (by dnm N), oB1 _ (by dnm N), oA _ (by dnm N)]
      exact hfr _ (by simp [nc_crd]))
    (by
      rw [oB2 _ (by dnm N) (by dnm N) (by dnm N), oB1 _ (by dnm N), oA _ (by dnm N)]
      exact hfr _ (by simp [nc_vals]))
  have hhB : σB.heap = σ.heap := by rw [hhB3, hhB2, hhB1, hhA]
  have htB : σB.tensors = σ.tensors := by rw [htB3, htB2, htB1, htA]
  have oB : ∀ y, y ∉ [dimName i, valsName outT.name,
      posName bT.name 0, crdName bT.name 0, valsName bT.name, posName cT.name 0, crdName cT.name 0,
      valsName cT.name] → lookupVar σB.vars y = lookupVar σ.vars y := by
    intro y hy
    simp only [List.mem_cons, List.not_mem_nil, or_false, not_or] at hy
    obtain ⟨h1, h2, h5, h6, h7, h8, h9, h10⟩ := hy
    rw [oB3 y h8 h9 h10, oB2 y h5 h6 h7, oB1 y h2, oA y h1]
  have oB23 : ∀ y, y ≠ posName bT.name 0 → y ≠ crdName bT.name 0 → y ≠ valsName bT.name →
      y ≠ posName cT.name 0 → y ≠ crdName cT.name 0 → y ≠ valsName cT.name →
      lookupVar σB.vars y = lookupVar σB1.vars y := by
    intro y h5 h6 h7 h8 h9 h10
    rw [oB3 y h8 h9 h10, oB2 y h5 h6 h7]
  -- C1: int a_vals_capacity = 1
  obtain ⟨σC1, rC1, hhC1, htC1, vC1, oC1⟩ := declFresh (fuel := fuel) (x := valsCapName outT.name)
    (t := .int) (σ := σB) (val' := .int 1)
    (by
      rw [oB _ (by
        simp only [List.mem_cons, List.not_mem_nil, or_false, not_or]
        and_intros <;> dnm N)]
      exact hfr _ (by simp [nc_valsCap]))
    (evalE_intLit (by omega) (by omega)) rfl
  have vC1' : IntVar σC1 (valsCapName outT.name) 1 := vC1
  -- C2: a_vals = malloc
  obtain ⟨rv, hrv1, hrv2, _⟩ := vB1v
  obtain ⟨σC2, rC2, htC2, hhC2, vC2, oC2⟩ := runsI_alloc (fuel := fuel) (σ := σC1) (ty := .float)
    (ety := .float) (arr := valsName outT.name) (r := rv) (t := .float)
    (by
      rw [oC1 _ (by dnm N), oB23 _ (by dnm N) (by dnm N) (by dnm N) (by dnm N) (by dnm N) (by dnm N)]
      exact hrv1) hrv2 vC1' (by omega) (by omega) rfl
  have hlenC1 : σC1.heap.length = σ.heap.length := by rw [hhC1, hhB]
  rw [hlenC1] at vC2
  have g1 : ∀ y, y ≠ valsCapName outT.name → y ≠ valsName outT.name →
      lookupVar σC2.vars y = lookupVar σB.vars y := fun y h1 h2 => (oC2 y h2).trans (oC1 y h1)
  refine ⟨σC2, ?_, ?_⟩
  · exact RunsLI.cons (RunsI.block (RunsLI.cons rA (RunsLI.nil _ _)))
      (RunsLI.cons (RunsI.block (RunsLI.append (RunsLI.append (RunsLI.cons rB1 (RunsLI.nil _ _)) rB2) rB3))
        (RunsLI.cons (RunsI.block (RunsLI.cons rC1 (RunsLI.cons rC2 (RunsLI.nil _ _))))
        (RunsLI.nil _ _)))
  · refine
      { heap := (by rw [hhC2, hhC1, hhB]; rfl), tensors := ?_, frame := ?_, bpos := ?_, bcrd := ?_, bvals := ?_,
        cpos := ?_, ccrd := ?_, cvals := ?_, avals := vC2 }
    · rw [htC2, htC1, htB]
    · intro y hy
      simp only [proW, List.mem_cons, List.not_mem_nil, or_false, not_or] at hy
      obtain ⟨y1, y2, y3, y4, y5, y6, y7, y8, y9⟩ := hy
      rw [g1 y y9 y2, oB y (by
        simp only [List.mem_cons, List.not_mem_nil, or_false, not_or]
        exact ⟨y1, y2, y3, y4, y5, y6, y7, y8⟩)]
    · exact ((ptrVar_of vBp).congr (oB3 _ (by dnm N) (by dnm N) (by dnm N))).congr
        (g1 _ (by dnm N) (by dnm N))
    · exact ((ptrVar_of vBc).congr (oB3 _ (by dnm N) (by dnm N) (by dnm N))).congr
        (g1 _ (by dnm N) (by dnm N))
    · refine ((ptrVar_of (t := .float) ?_).congr (oB3 _ (by dnm N) (by dnm N) (by dnm N))).congr
        (g1 _ (by dnm N) (by dnm N))
      obtain ⟨r, e1, e2, e3⟩ := vBv
      exact ⟨r, e1, e2, by rw [e3, init.b.vals]⟩
    · exact (ptrVar_of vCp).congr (g1 _ (by dnm N) (by dnm N))
    · exact (ptrVar_of vCc).congr (g1 _ (by dnm N) (by dnm N))
    · refine (ptrVar_of (t := .float) ?_).congr (g1 _ (by dnm N) (by dnm N))
      obtain ⟨r, e1, e2, e3⟩ := vCv
      exact ⟨r, e1, e2, by rw [e3, init.c.vals]⟩

/-- **the "Bucket initialization" block**: the bucket pointer is declared and points to the output's one-cell
`vals` block, which is set to `ofInt 0` in ONE iteration of the initialisation loop. -/
theorem bucketInit_runs {outT : TensorId} {σC : State F} {vb : Nat}
    (havals : PtrVar σC (valsName outT.name) vb)
    (hblk : σC.heap[vb]? = some ⟨.float, [none], .output, true⟩)
    (hfb : lookupVar σC.vars (bkN outT) = none) (hfl : lookupVar σC.vars (blN outT) = none)
    (fuel : Nat) (hfuel : 2 ≤ fuel) :
    ∃ σD, RunsI fuel (.block (bucketInitLines outT) (some "Bucket initialization")) σC σD 1 ∧
      σD.heap = σC.heap.set vb (accBlock (FloatOps.ofInt 0)) ∧ σD.tensors = σC.tensors ∧
      PtrVar σD (bkN outT) vb ∧
      ∀ y, y ≠ bkN outT → y ≠ blN outT → lookupVar σD.vars y = lookupVar σC.vars y := by
  obtain ⟨f, rfl⟩ : ∃ f, fuel = f + 2 := ⟨fuel - 2, by omega⟩
  have hne := bk_ne_bl outT
  -- double* bucket = a_vals + 0 * 1
  have e1 : evalE σC (plus (.var (valsName outT.name)) (times (.intLit 0) (.intLit 1)) : Expr F) =
      .ok (.ptr vb 0) := by
    have := Dense2.evalE_ptr_add (evalE_var_ptr havals)
      (evalE_mul (σ := σC) (evalE_intLit (v := 0) (by omega) (by omega))
        (evalE_intLit (v := 1) (by omega) (by omega)) (by omega) (by omega))
    simpa [plus, times] using this
  obtain ⟨σ1, r1, hh1, ht1, ⟨rb, hb1, hb2, hb3⟩, o1⟩ := declFresh (fuel := f + 2) (x := bkN outT)
    (t := .ptr .float) (val' := .ptr vb 0) hfb e1 rfl
  have hbk1 : PtrVar σ1 (bkN outT) vb := ⟨rb, .float, hb1, hb2, hb3⟩
  -- int i_bucket = 0
  obtain ⟨σ2, r2, hh2, ht2, vl2, o2⟩ := declFresh (fuel := f + 2) (x := blN outT) (t := .int) (σ := σ1)
    (val' := .int 0) (by rw [o1 _ hne.symm]; exact hfl) (evalE_intLit (by omega) (by omega)) rfl
  have vl2' : IntVar σ2 (blN outT) 0 := vl2
  have hbk2 : PtrVar σ2 (bkN outT) vb := hbk1.congr (o2 _ hne)
  have hheap2 : σ2.heap = σC.heap := by rw [hh2, hh1]
  -- the loop: one iteration
  have hc1 : evalE σ2 (.bin .lt (.var (blN outT)) (.intLit 1) : Expr F) = .ok (.bool true) := by
    rw [evalE_lt (evalE_var_int vl2' (by omega) (by omega)) (evalE_intLit (by omega) (by omega))]; rfl
  have hcell : ToIr.OutCell σ2 vb (0 + 0) :=
    ⟨_, by rw [hheap2]; exact hblk, rfl, rfl, rfl, by omega, by simp⟩
  have hstore := Dense2.runs_assign_cell_int (fuel := f + 1) (ToIr.evalE_var_ptrAt (ToIr.PtrAt.of_ptrVar hbk2))
    (evalE_var_int vl2' (by omega) (by omega))
    (evalE_intLit (σ := σ2) (v := 0) (by omega) (by omega)) hcell
  generalize hσ3 : ToIr.writeCell σ2 vb (0 + 0) (.flt (FloatOps.ofInt 0)) = σ3 at hstore
  have hv3 : σ3.vars = σ2.vars := by rw [← hσ3]; exact ToIr.writeCell_vars ..
  have ht3 : σ3.tensors = σ2.tensors := by rw [← hσ3]; exact ToIr.writeCell_tensors ..
  have hh3 : σ3.heap = σC.heap.set vb (accBlock (FloatOps.ofInt 0)) := by
    rw [← hσ3]
    simp only [ToIr.writeCell, hheap2, hblk]
    simp [accBlock]
  have vl3 : IntVar σ3 (blN outT) 0 := vl2'.congr (by rw [hv3])
  have hinc := Runs.assign_int (fuel := f + 1) (e := plus (.var (blN outT)) (.intLit 1)) vl3
    (evalE_add (evalE_var_int vl3 (by omega) (by omega)) (evalE_intLit (by omega) (by omega))
      (by omega) (by omega))
  generalize hσ4 : ({ σ3 with vars := setVar σ3.vars (blN outT) (.int (0 + 1)) } : State F) = σ4 at hinc
  have vl4 : IntVar σ4 (blN outT) 1 := by
    obtain ⟨r, e1, e2, _⟩ := vl3
    rw [← hσ4]
    exact ⟨_, lookupVar_setVar_same _ e1, e2, rfl⟩
  have o4 : ∀ y, y ≠ blN outT → lookupVar σ4.vars y = lookupVar σ3.vars y := by
    intro y hy; rw [← hσ4]; exact lookupVar_setVar_other _ hy
  have hh4 : σ4.heap = σ3.heap := by rw [← hσ4]
  have ht4 : σ4.tensors = σ3.tensors := by rw [← hσ4]
  have hc2 : evalE σ4 (.bin .lt (.var (blN outT)) (.intLit 1) : Expr F) = .ok (.bool false) := by
    rw [evalE_lt (evalE_var_int vl4 (by omega) (by omega)) (evalE_intLit (by omega) (by omega))]; rfl
  have rbody : RunsI (f + 1) (.block [.assign (.idx (.var (bkN outT)) (.var (blN outT))) (.intLit 0),
      increment (.var (blN outT)) (.intLit 1)] none) σ2 σ4 (0 + (0 + 0)) :=
    RunsI.block (RunsLI.cons (RunsI.of_assign hstore) (RunsLI.cons (RunsI.of_assign hinc) (RunsLI.nil _ _)))
  have rloop := RunsI.loop_true hc1 rbody (RunsI.loop_false (fuel := f) hc2)
  refine ⟨σ4, ?_, by rw [hh4, hh3], by rw [ht4, ht3, ht2, ht1], ?_, ?_⟩
  · have := RunsI.block (c := some "Bucket initialization")
      (RunsLI.cons r1 (RunsLI.cons r2 (RunsLI.cons rloop (RunsLI.nil _ _))))
    simpa [bucketInitLines, declAssignE] using this
  · exact hbk2.congr (by rw [o4 _ hne, hv3])
  · intro y h1 h2
    rw [o4 y h2, hv3, o2 y h2, o1 y h1]

end TV.Spdot
