import TensoraVerif.Lemmas.SpmulLower
import TensoraVerif.Lemmas.SpmulNames
import TensoraVerif.Lemmas.SpmulPure
import TensoraVerif.Lemmas.Sparse1Body

/-!
C01 for the element-wise product of two sparse vectors, part 7: the loop body step. The statement between
the `min` and the cursor increments is `if ((true && i_b == i) && i_c == i) { … }`:

* when BOTH loaded coordinates equal the index (`branch_step`): the `vals` allocation check (C05
  `writePosAllocation_nodense_safe`), `written = false`, the terminal block `a_vals[p_a] = b_vals[p_b] *
  c_vals[p_c]` (C01 `terminal_append_sound`), `if (written) { crd assembly (C05 `crdAssembly_runs`); p_a++ }`
  — the history of appended entries grows by `(i, b[p_b] * c[p_c])` and the invariant `Inv` is re-established;
* otherwise the condition evaluates to `false` and nothing at all happens (`mid_step`): no `else` branch.
-/
namespace TV.Spmul
open TV.IR TV.Gen TV.Graph TV.Growth TV.Merge
open TV.Sparse1 (isSp isSp_iff outLeaf inLeaf branchBody termBlock midW)
set_option linter.unusedSectionVars false
variable {F : Type} [FloatOps F]

/-- the names written by the loop: those of `Sparse1.midW` (output arrays, capacities, flag, output cursor)
and the skeleton's own (index, the two cursors, the two loaded coordinates) -/
def touched (i : String) (outT bT cT : TensorId) : List String :=
  midW outT ++ [i, layerPointer bT.id 0, valueFromCrd bT.id 0, layerPointer cT.id 0, valueFromCrd cT.id 0]

/-- the valuation of the two tensor occurrences of `b * c`: `b ↦ u`, everything else (`c`) `↦ v` -/
def env (bT : TensorId) (u v : F) : String → F := fun id => if id = bT.id then u else v

theorem valueF_mulE (ofRat : Rat → F) (bT cT : TensorId) (h : bT.id ≠ cT.id) (u v : F) :
    ToIr.valueF ofRat (env bT u v) (mulE bT cT) = FloatOps.mul u v := by
  simp [mulE, ToIr.valueF, env, Ne.symm h]

/-- **what the loop needs of the state `σ0` at loop entry and of the inputs**: `b_vals` / `c_vals` point to
live float blocks `bvb` / `cvb` whose first `mb` / `mc` cells hold `cellsB` / `cellsC`; these blocks are none
of the two growing arrays of the output (`cb0`, `vb0`: the blocks of `a_0_crd`, `a_vals` at loop entry), which
are different; `mb, mc ≤ 2^30` (so that cursors and doubled capacities stay within int32). -/
structure LoopPre (bT cT : TensorId) (mb mc bvb cvb : Nat) (cellsB cellsC : Nat → F)
    (cb0 vb0 : Nat) (σ0 : State F) : Prop where
  bvals : PtrVar σ0 (valsName bT.name) bvb
  cvals : PtrVar σ0 (valsName cT.name) cvb
  bblk : ∃ blk, σ0.heap[bvb]? = some blk ∧ blk.live = true ∧ blk.ty = .float ∧
    ∀ j, j < mb → blk.cells[j]? = some (some (.flt (cellsB j)))
  cblk : ∃ blk, σ0.heap[cvb]? = some blk ∧ blk.live = true ∧ blk.ty = .float ∧
    ∀ j, j < mc → blk.cells[j]? = some (some (.flt (cellsC j)))
  bne : bvb ≠ cb0 ∧ bvb ≠ vb0
  cne : cvb ≠ cb0 ∧ cvb ≠ vb0
  cvne : cb0 ≠ vb0
  smallB : mb ≤ 1073741824
  smallC : mc ≤ 1073741824

/-- **The loop invariant** after the entries `hist` (coordinate, value) have been appended to the output
(relative to the state `σ0` at loop entry): tensor records unchanged; every block of `σ0`'s heap other than
the two initial output arrays unchanged; the variables not written by the loop unchanged; the output's `crd`
and `vals` arrays satisfy the array invariant (blocks `cb`, `vb` — still the initial ones or fresh —,
capacities `cc`, `vc`); the output cursor is `|hist|`, within both capacities; `crd[j] = hist[j].1` and
`vals[j] = hist[j].2` for `j < |hist|`; the `written` flag is undeclared or `bool`. -/
structure Inv (i : String) (outT bT cT : TensorId) (cb0 vb0 : Nat) (σ0 : State F) (cb : Nat) (cc : Int)
    (vb : Nat) (vc : Int) (hist : List (Int × F)) (σ : State F) : Prop where
  tensors : σ.tensors = σ0.tensors
  len : σ0.heap.length ≤ σ.heap.length
  old : ∀ k blk, k ≠ cb0 → k ≠ vb0 → σ0.heap[k]? = some blk → σ.heap[k]? = some blk
  vars : ∀ y, y ∉ touched i outT bT cT → lookupVar σ.vars y = lookupVar σ0.vars y
  crd : ArrInv σ (crdName outT.name 0) (crdCapName outT.name 0) .int cb cc
  vals : ArrInv σ (valsName outT.name) (valsCapName outT.name) .float vb vc
  hcb : cb = cb0 ∨ σ0.heap.length ≤ cb
  hvb : vb = vb0 ∨ σ0.heap.length ≤ vb
  hne : cb ≠ vb
  ptr : IntVar σ (layerPointer outT.id 0) hist.length
  lec : (hist.length : Int) ≤ cc
  lev : (hist.length : Int) ≤ vc
  crdCells : ∃ blk, σ.heap[cb]? = some blk ∧
    ∀ j (h : j < hist.length), blk.cells[j]? = some (some (.int hist[j].1))
  valsCells : ∃ blk, σ.heap[vb]? = some blk ∧
    ∀ j (h : j < hist.length), blk.cells[j]? = some (some (.flt hist[j].2))
  flag : ∀ r, lookupVar σ.vars (writtenName outT.name 0) = some r → r.ty = .bool

theorem noLoop_midStmt (ofRat : Rat → F) (i : String) (outT bT cT : TensorId) :
    Sparse1.noLoopL [midStmt ofRat i outT bT cT] = true := by
  simp [Sparse1.noLoopL, Sparse1.noLoop, midStmt, branchBody, Sparse1.noLoop_writePosAllocation, termBlock,
    Sparse1.termBlockLines, declAssignE, increment, writeCrdAssembly_shape]

section step
variable {ofRat : Rat → F} {i : String} {outT bT cT : TensorId} {mb mc bvb cvb : Nat}
  {cellsB cellsC : Nat → F} {cb0 vb0 : Nat} {σ0 : State F}

/-- **the branch "both present"**: one entry is appended. From a state satisfying the invariant after the
history `hist` (`|hist| < 2^30`), in which the input cursors hold positions `q < mb`, `r < mc` and the index
`i` holds the int32 `x`, and if the product of the two cells (and both cells) are finite: the branch body runs
without error (any fuel) and re-establishes the invariant for `hist ++ [(x, b[q] * c[r])]`; it writes only the
variables `midW` and no block of the old heap other than the two output arrays. -/
theorem branch_step (N : KNames i outT bT cT) (ho : isSp i outT = true) (hb : isSp i bT = true)
    (hc : isSp i cT = true)
    (pre : LoopPre bT cT mb mc bvb cvb cellsB cellsC cb0 vb0 σ0)
    (fuel : Nat) (σ : State F) (hist : List (Int × F)) (cb : Nat) (cc : Int) (vb : Nat) (vc : Int)
    (q r : Nat) (x : Int) (hq : q < mb) (hr : r < mc) (hlen : hist.length < 1073741824)
    (hinv : Inv i outT bT cT cb0 vb0 σ0 cb cc vb vc hist σ)
    (hpB : IntVar σ (layerPointer bT.id 0) q) (hpC : IntVar σ (layerPointer cT.id 0) r)
    (hi : IntVar σ i x) (hr0 : -2147483648 ≤ x) (hr1 : x < 2147483648)
    (hfin : ToIr.AllFinite ofRat (env bT (cellsB q) (cellsC r)) (mulE bT cT)) :
    ∃ σ' cb' cc' vb' vc', RunsL fuel (branchBody ofRat outT (mulE bT cT)) σ σ' ∧
      Inv i outT bT cT cb0 vb0 σ0 cb' cc' vb' vc' (hist ++ [(x, FloatOps.mul (cellsB q) (cellsC r))]) σ' ∧
      (∀ y, y ∉ midW outT → lookupVar σ'.vars y = lookupVar σ.vars y) ∧
      (∀ k blk, k ≠ cb → k ≠ vb → σ.heap[k]? = some blk → σ'.heap[k]? = some blk) := by
  obtain ⟨ho1, ho2⟩ := (isSp_iff i outT).1 ho
  obtain ⟨hb1, hb2⟩ := (isSp_iff i bT).1 hb
  obtain ⟨hc1, hc2⟩ := (isSp_iff i cT).1 hc
  obtain ⟨hdb, hArr, hCap, hEty, hBon, hidx⟩ := Sparse1.outLeaf_facts ho
  have hsmB := pre.smallB
  have hsmC := pre.smallC
  have hne0 : mulE bT cT ≠ .int 0 := by simp [mulE]
  have hl : ToIr.leaves (mulE bT cT) = [bT, cT] := rfl
  have holen : outT.indexes.length = 1 := by rw [ho1]; rfl
  have hblen : bT.indexes.length = 1 := by rw [hb1]; rfl
  have hclen : cT.indexes.length = 1 := by rw [hc1]; rfl
  -- abbreviations
  obtain ⟨p, hp⟩ : ∃ p : Int, p = hist.length := ⟨_, rfl⟩
  have hp0 : 0 ≤ p := by omega
  have hpm : p < 1073741824 := by omega
  have hptr : IntVar σ (layerPointer outT.id 0) p := by rw [hp]; exact hinv.ptr
  have hlec : p ≤ cc := by rw [hp]; exact hinv.lec
  have hlev : p ≤ vc := by rw [hp]; exact hinv.lev
  -- 1. vals allocation
  obtain ⟨o1, vb1, vc1, e1, r1, g1, hvc1, hroom1⟩ := writePosAllocation_nodense_safe (outLeaf outT) fuel σ
    vb vc p hdb (by rw [hArr, hCap, hEty]; exact hinv.vals) hptr hp0 (by rw [hBon]; omega)
    (by rw [hBon]; intro h; omega)
  rw [hArr, hCap, hEty] at g1
  rw [hBon] at hroom1
  have hpv1 : p < vc1 := by have := hroom1 (by omega); omega
  have run1 : Runs fuel (writePosAllocation (outLeaf outT)).finalize σ o1.st := ⟨o1, e1, r1, rfl⟩
  have f1 : ∀ y, y ≠ valsName outT.name → y ≠ valsCapName outT.name →
      lookupVar o1.st.vars y = lookupVar σ.vars y := g1.vars
  -- block indices are valid
  obtain ⟨cblk, hcblk, hclive, hcown, hcty, hclen'⟩ := hinv.crd.blk
  obtain ⟨vblk, hvblk, hvlive, hvown, hvty, hvlen⟩ := hinv.vals.blk
  have hcbl : cb < σ.heap.length := lt_length_of_getElem? hcblk
  have hvbl : vb < σ.heap.length := lt_length_of_getElem? hvblk
  have hvb1 : vb1 = vb ∨ vb1 = σ.heap.length := by
    rcases g1.old with ⟨h, _⟩ | ⟨h, _⟩
    · exact .inl h
    · exact .inr h
  have hcv1 : cb ≠ vb1 := by
    rcases hvb1 with h | h
    · rw [h]; exact hinv.hne
    · omega
  -- 2. bool written = false
  obtain ⟨σ2, r2, hh2, ht2, ⟨rw2, hrw1, hrw2, _⟩, f2⟩ := Dense1.runsI_declAssign (fuel := fuel)
    (x := writtenName outT.name 0) (t := .bool) (e := (.boolLit false : Expr F)) (σ := o1.st)
    (val := .bool false) (val' := .bool false)
    (by rw [f1 _ (by snm N) (by snm N)]; exact hinv.flag) (by simp [evalE]) rfl
  have run2 : Runs fuel (declAssignE (writtenName outT.name 0) .bool (.boolLit false)) o1.st σ2 := by
    obtain ⟨o, e, r, s, _⟩ := r2; exact ⟨o, e, r, s⟩
  -- 3. the terminal block
  have hbv2 : PtrVar σ2 (valsName bT.name) bvb := pre.bvals.congr (by
    rw [f2 _ (by snm N), f1 _ (by snm N) (by snm N), hinv.vars _ (by
      simp only [touched, midW, List.mem_cons, List.mem_append, List.not_mem_nil, or_false, not_or]
      and_intros <;> snm N)])
  have hcv2 : PtrVar σ2 (valsName cT.name) cvb := pre.cvals.congr (by
    rw [f2 _ (by snm N), f1 _ (by snm N) (by snm N), hinv.vars _ (by
      simp only [touched, midW, List.mem_cons, List.mem_append, List.not_mem_nil, or_false, not_or]
      and_intros <;> snm N)])
  have hpB2 : IntVar σ2 (layerPointer bT.id 0) q := hpB.congr (by
    rw [f2 _ (by snm N), f1 _ (by snm N) (by snm N)])
  have hpC2 : IntVar σ2 (layerPointer cT.id 0) r := hpC.congr (by
    rw [f2 _ (by snm N), f1 _ (by snm N) (by snm N)])
  have hpA2 : IntVar σ2 (layerPointer outT.id 0) p := hptr.congr (by
    rw [f2 _ (by snm N), f1 _ (by snm N) (by snm N)])
  obtain ⟨bblk, hbblk, hblive, hbty, hbcells⟩ := pre.bblk
  obtain ⟨cblk', hcblk', hclive', hcty', hccells'⟩ := pre.cblk
  have hbl0 : bvb < σ0.heap.length := lt_length_of_getElem? hbblk
  have hcl0 : cvb < σ0.heap.length := lt_length_of_getElem? hcblk'
  have hbvb_ne : bvb ≠ vb ∧ bvb ≠ cb := by
    constructor
    · rcases hinv.hvb with h | h
      · rw [h]; exact pre.bne.2
      · omega
    · rcases hinv.hcb with h | h
      · rw [h]; exact pre.bne.1
      · omega
  have hcvb_ne : cvb ≠ vb ∧ cvb ≠ cb := by
    constructor
    · rcases hinv.hvb with h | h
      · rw [h]; exact pre.cne.2
      · omega
    · rcases hinv.hcb with h | h
      · rw [h]; exact pre.cne.1
      · omega
  have hbσ : σ.heap[bvb]? = some bblk := hinv.old bvb bblk pre.bne.1 pre.bne.2 hbblk
  have hcσ : σ.heap[cvb]? = some cblk' := hinv.old cvb cblk' pre.cne.1 pre.cne.2 hcblk'
  have hbh2 : σ2.heap[bvb]? = some bblk := by rw [hh2]; exact g1.heap bvb bblk hbvb_ne.1 hbσ
  have hch2 : σ2.heap[cvb]? = some cblk' := by rw [hh2]; exact g1.heap cvb cblk' hcvb_ne.1 hcσ
  have hleaf : ∀ t ∈ ToIr.leaves (mulE bT cT), ToIr.LeafOK σ2 (env bT (cellsB q) (cellsC r)) t := by
    intro t ht
    rw [hl] at ht
    simp only [List.mem_cons, List.not_mem_nil, or_false] at ht
    rcases ht with rfl | rfl
    · refine ToIr.LeafOK.intro (p := q) hbv2 ?_ (by omega) (by omega)
        ⟨bblk, hbh2, hblive, hbty, by omega, by simpa [env] using hbcells q hq⟩
      simp only [ToIr.CursorIs, hblen]
      exact hpB2
    · refine ToIr.LeafOK.intro (p := r) hcv2 ?_ (by omega) (by omega)
        ⟨cblk', hch2, hclive', hcty', by omega, by simpa [env, Ne.symm N.idbc] using hccells' r hr⟩
      simp only [ToIr.CursorIs, hclen]
      exact hpC2
  obtain ⟨vblk1, hvblk1, hv1live, hv1own, hv1ty, hv1len⟩ := g1.inv.blk
  have hvb1l : vb1 < o1.st.heap.length := lt_length_of_getElem? hvblk1
  have hcell : ToIr.OutCell σ2 vb1 (0 + p) :=
    ⟨vblk1, by rw [hh2]; exact hvblk1, hv1live, hv1own, hv1ty, by omega, by omega⟩
  obtain ⟨tb, o3, htb, e3, r3, _, hheap3, ht3, _, hflag3, _, f3⟩ :=
    ToIr.terminal_append_sound ofRat (env bT (cellsB q) (cellsC r)) σ2 (mulE bT cT) outT .evaluate rfl 0 fuel
      vb1 0 p hleaf hfin
      (ToIr.PtrAt.of_ptrVar (g1.inv.arr.congr (f2 _ (by snm N))))
      (by
        rw [holen]
        exact evalE_var_int hpA2 (by omega) (by omega))
      hcell
      (by
        intro f hf
        rw [ToIr.activeFlags_ne _ hne0, holen, Sparse1.writtenFlags_eq outT ho2] at hf
        simp only [List.mem_cons, List.not_mem_nil, or_false] at hf
        subst hf
        exact ⟨rw2, hrw1, hrw2⟩)
  rw [holen, Sparse1.lower_terminal_eq ofRat 0 outT (mulE bT cT) ho2 holen hne0] at htb
  cases htb
  rw [holen, Sparse1.writtenFlags_eq outT ho2] at hflag3 f3
  rw [valueF_mulE ofRat bT cT N.idbc] at hheap3
  have run3 : Runs fuel (termBlock ofRat outT (mulE bT cT)) σ2 o3.st := ⟨o3, e3, r3, rfl⟩
  have hcp := ToIr.writeCell_post hcell (.flt (FloatOps.mul (cellsB q) (cellsC r)))
  have hlen3 : o3.st.heap.length = σ2.heap.length := by rw [hheap3]; exact hcp.len
  have hother3 : ∀ b', b' ≠ vb1 → o3.st.heap[b']? = σ2.heap[b']? := by
    intro b' hb'; rw [hheap3]; exact hcp.other b' hb'
  obtain ⟨vblk2, vblk3, hvblk2, hvblk3, hv3ty, hv3own, hv3live, hv3len, hv3cell, hv3cells⟩ := hcp.blk
  rw [← hheap3] at hvblk3
  rw [hh2, hvblk1] at hvblk2
  cases hvblk2
  have hfl3 : ToIr.FlagTrue o3.st (writtenName outT.name 0) := hflag3 hne0 _ (by simp)
  have f3' : ∀ y, y ≠ writtenName outT.name 0 → lookupVar o3.st.vars y = lookupVar σ2.vars y := by
    intro y hy; exact f3 y (by simpa using hy)
  -- 4. crd assembly
  have hcb3 : o3.st.heap[cb]? = some cblk := by
    rw [hother3 cb hcv1, hh2]; exact g1.heap cb cblk hinv.hne hcblk
  have hcrd3 : ArrInv o3.st (crdName outT.name 0) (crdCapName outT.name 0) .int cb cc :=
    ⟨hinv.crd.arr.congr (by rw [f3' _ (by snm N), f2 _ (by snm N), f1 _ (by snm N) (by snm N)]),
     hinv.crd.cap.congr (by rw [f3' _ (by snm N), f2 _ (by snm N), f1 _ (by snm N) (by snm N)]),
     ⟨cblk, hcb3, hclive, hcown, hcty, hclen'⟩, hinv.crd.pos, hinv.crd.lt⟩
  have hpA3 : IntVar o3.st (layerPointer outT.id 0) p := hpA2.congr (f3' _ (by snm N))
  have hi3 : IntVar o3.st (outLeaf outT).index x := by
    rw [hidx]
    exact hi.congr (by rw [f3' _ (by snm N), f2 _ (by snm N), f1 _ (by snm N) (by snm N)])
  obtain ⟨σ4, cb4, cc4, run4, sp, hpA4, hi4⟩ := crdAssembly_runs (outLeaf outT) fuel o3.st cb cc p x
    hcrd3 hpA3 hp0 hlec hi3 hr0 hr1 (by intro h; omega)
    (namesDistinct_of_index _ (by rw [hidx]; exact N.iu))
  have f4 : ∀ y, y ≠ crdName outT.name 0 → y ≠ crdCapName outT.name 0 →
      lookupVar σ4.vars y = lookupVar o3.st.vars y := sp.vars
  -- 5. p_a++
  have hpA4' : IntVar σ4 (layerPointer outT.id 0) p := hpA4
  have run5 := Runs.assign_int (fuel := fuel) hpA4'
    (evalE_add (evalE_var_int hpA4' (by omega) (by omega))
      (evalE_intLit (σ := σ4) (v := 1) (by omega) (by omega)) (by omega) (by omega))
  generalize hσ5 : ({ σ4 with vars := setVar σ4.vars (layerPointer outT.id 0) (.int (p + 1)) } : State F) = σ5
    at run5
  have f5 : ∀ y, y ≠ layerPointer outT.id 0 → lookupVar σ5.vars y = lookupVar σ4.vars y := by
    intro y hy; rw [← hσ5]; exact lookupVar_setVar_other _ hy
  have hh5 : σ5.heap = σ4.heap := by rw [← hσ5]
  have ht5 : σ5.tensors = σ4.tensors := by rw [← hσ5]
  have hpA5 : IntVar σ5 (layerPointer outT.id 0) (p + 1) := by
    obtain ⟨r, e1, e2, _⟩ := hpA4'
    rw [← hσ5]
    exact ⟨_, lookupVar_setVar_same _ e1, e2, rfl⟩
  -- the run
  have hrun : RunsL fuel (branchBody ofRat outT (mulE bT cT)) σ σ5 :=
    RunsL.cons run1 (RunsL.cons run2 (RunsL.cons run3
      (RunsL.cons (Runs.branch_true (Sparse1.evalE_var_flag hfl3)
        (Runs.block (RunsL.cons run4 (RunsL.cons run5 (RunsL.nil _ _))))) (RunsL.nil _ _))))
  -- frames
  have fvars : ∀ y, y ∉ midW outT → lookupVar σ5.vars y = lookupVar σ.vars y := by
    intro y hy
    simp only [midW, List.mem_cons, List.not_mem_nil, or_false, not_or] at hy
    obtain ⟨y1, y2, y3, y4, y5, y6⟩ := hy
    rw [f5 y y6, f4 y y4 y5, f3' y y3, f2 y y3, f1 y y1 y2]
  have fheap : ∀ k blk, k ≠ cb → k ≠ vb → σ.heap[k]? = some blk → σ5.heap[k]? = some blk := by
    intro k blk hk1 hk2 hk
    have hkl : k < σ.heap.length := lt_length_of_getElem? hk
    have hk3 : k ≠ vb1 := by rcases hvb1 with h | h <;> omega
    rw [hh5]
    apply sp.heap k blk hk1
    rw [hother3 k hk3, hh2]
    exact g1.heap k blk hk2 hk
  have hlen5 : σ.heap.length ≤ σ5.heap.length := by
    rw [hh5]
    refine Nat.le_trans ?_ sp.len
    rw [hlen3, hh2]; exact g1.len
  have hcb4 : cb4 = cb ∨ cb4 = o3.st.heap.length := by
    rcases sp.old with h | ⟨h, _⟩
    · exact .inl h
    · exact .inr h
  have hl13 : o3.st.heap.length = o1.st.heap.length := by rw [hlen3, hh2]
  -- the vals block in the final state
  have hv5 : σ5.heap[vb1]? = some vblk3 := by
    rw [hh5]; exact sp.heap vb1 vblk3 (Ne.symm hcv1) hvblk3
  obtain ⟨cblk4, hcblk4, hc4cell⟩ := sp.cell
  refine ⟨σ5, cb4, cc4, vb1, vc1, hrun, ?_, fvars, fheap⟩
  have hlenapp : ((hist ++ [(x, FloatOps.mul (cellsB q) (cellsC r))]).length : Int) = p + 1 := by
    simp only [List.length_append, List.length_cons, List.length_nil]; omega
  have hlenNat : hist.length = p.toNat := by omega
  refine
    { tensors := ?_, len := Nat.le_trans hinv.len hlen5, old := ?_, vars := ?_, crd := ?_, vals := ?_,
      hcb := ?_, hvb := ?_, hne := ?_, ptr := ?_, lec := ?_, lev := ?_, crdCells := ?_, valsCells := ?_,
      flag := ?_ }
  · rw [ht5, sp.tensors, ht3, ht2, g1.tensors, hinv.tensors]
  · intro k blk hk1 hk2 hk
    have hkl : k < σ0.heap.length := lt_length_of_getElem? hk
    refine fheap k blk ?_ ?_ (hinv.old k blk hk1 hk2 hk)
    · rcases hinv.hcb with h | h <;> omega
    · rcases hinv.hvb with h | h <;> omega
  · intro y hy
    rw [fvars y (by
      intro hm; apply hy; simp only [touched, List.mem_append]; exact .inl hm), hinv.vars y hy]
  · exact sp.inv.congr hh5 (f5 (crdName outT.name 0) (by snm N)) (f5 (crdCapName outT.name 0) (by snm N))
  · refine ⟨g1.inv.arr.congr ?_, g1.inv.cap.congr ?_, ⟨vblk3, hv5, ?_, ?_, ?_, ?_⟩, g1.inv.pos, g1.inv.lt⟩
    · rw [f5 _ (by snm N), f4 _ (by snm N) (by snm N), f3' _ (by snm N), f2 _ (by snm N)]
    · rw [f5 _ (by snm N), f4 _ (by snm N) (by snm N), f3' _ (by snm N), f2 _ (by snm N)]
    · rw [hv3live]; exact hv1live
    · rw [hv3own]; exact hv1own
    · rw [hv3ty]; exact hv1ty
    · rw [hv3len]; exact hv1len
  · rcases hcb4 with h | h
    · rw [h]; exact hinv.hcb
    · right; rw [h, hl13]; exact Nat.le_trans hinv.len g1.len
  · rcases hvb1 with h | h
    · rw [h]; exact hinv.hvb
    · right; rw [h]; exact hinv.len
  · rcases hcb4 with h | h
    · rw [h]; exact hcv1
    · rw [h, hl13]; omega
  · rw [hlenapp]; exact hpA5
  · rw [hlenapp]; have := sp.bound; omega
  · rw [hlenapp]; omega
  · refine ⟨cblk4, by rw [hh5]; exact hcblk4, ?_⟩
    intro j hj
    simp only [List.length_append, List.length_cons, List.length_nil] at hj
    by_cases hjp : j < hist.length
    · obtain ⟨cb', hcb', hcells'⟩ := hinv.crdCells
      rw [hcblk] at hcb'; cases hcb'
      rw [List.getElem_append_left hjp]
      rw [sp.cells cblk cblk4 hcb3 hcblk4 j (by omega) (by omega)]
      exact hcells' j hjp
    · have hje : j = hist.length := by omega
      subst hje
      rw [List.getElem_append_right (Nat.le_refl _)]
      simp only [Nat.sub_self, List.getElem_cons_zero]
      rw [hlenNat]; exact hc4cell
  · refine ⟨vblk3, hv5, ?_⟩
    intro j hj
    simp only [List.length_append, List.length_cons, List.length_nil] at hj
    by_cases hjp : j < hist.length
    · obtain ⟨vb', hvb', hcells'⟩ := hinv.valsCells
      rw [hvblk] at hvb'; cases hvb'
      rw [List.getElem_append_left hjp]
      rw [hv3cells j (by omega), g1.cells vblk vblk1 hvblk hvblk1 j (by omega)]
      exact hcells' j hjp
    · have hje : j = hist.length := by omega
      subst hje
      rw [List.getElem_append_right (Nat.le_refl _)]
      simp only [Nat.sub_self, List.getElem_cons_zero]
      rw [hlenNat]
      simpa using hv3cell
  · intro r hr
    obtain ⟨r', e1, e2, _⟩ := hfl3
    rw [f5 _ (by snm N), f4 _ (by snm N) (by snm N), e1] at hr
    cases hr; exact e2

/-- what the history becomes in one iteration: one entry more iff both operands store the index -/
def stepHist (hist : List (Int × F)) (xb xc x : Int) (u v : F) : List (Int × F) :=
  if xb = x ∧ xc = x then hist ++ [(x, FloatOps.mul u v)] else hist

/-- **(a) The loop body step.** From a state satisfying the invariant after the history `hist`, in which the
input cursors hold positions `q < mb`, `r < mc`, the loaded coordinates `i_b`, `i_c` hold the int32s `xb`,
`xc` and the index `i` holds the int32 `x`: the statement between the `min` and the increments runs without
error (any fuel). If `xb = x` and `xc = x` (both operands store the coordinate; then `|hist| < 2^30` and
finiteness of the product are needed) the entry `(x, b[q] * c[r])` is appended; otherwise the state is NOT
CHANGED AT ALL (the branch is skipped: no phantom coordinate, C03). It writes only the variables `midW` and no
block of the old heap other than the two output arrays. -/
theorem mid_step (N : KNames i outT bT cT) (ho : isSp i outT = true) (hb : isSp i bT = true)
    (hc : isSp i cT = true)
    (pre : LoopPre bT cT mb mc bvb cvb cellsB cellsC cb0 vb0 σ0)
    (fuel : Nat) (σ : State F) (hist : List (Int × F)) (cb : Nat) (cc : Int) (vb : Nat) (vc : Int)
    (q r : Nat) (xb xc x : Int) (hq : q < mb) (hr : r < mc)
    (hinv : Inv i outT bT cT cb0 vb0 σ0 cb cc vb vc hist σ)
    (hpB : IntVar σ (layerPointer bT.id 0) q) (hpC : IntVar σ (layerPointer cT.id 0) r)
    (hvB : IntVar σ (valueFromCrd bT.id 0) xb) (hvC : IntVar σ (valueFromCrd cT.id 0) xc)
    (hi : IntVar σ i x)
    (hb0 : -2147483648 ≤ xb) (hb1 : xb < 2147483648) (hc0 : -2147483648 ≤ xc) (hc1 : xc < 2147483648)
    (hr0 : -2147483648 ≤ x) (hr1 : x < 2147483648)
    (hboth : xb = x → xc = x → hist.length < 1073741824 ∧
      ToIr.AllFinite ofRat (env bT (cellsB q) (cellsC r)) (mulE bT cT)) :
    ∃ σ' cb' cc' vb' vc', RunsL fuel [midStmt ofRat i outT bT cT] σ σ' ∧
      Inv i outT bT cT cb0 vb0 σ0 cb' cc' vb' vc' (stepHist hist xb xc x (cellsB q) (cellsC r)) σ' ∧
      (¬ (xb = x ∧ xc = x) → σ' = σ) ∧
      (∀ y, y ∉ midW outT → lookupVar σ'.vars y = lookupVar σ.vars y) ∧
      (∀ k blk, k ≠ cb → k ≠ vb → σ.heap[k]? = some blk → σ'.heap[k]? = some blk) := by
  have econd : evalE σ (bothCond i bT cT) = .ok (.bool ((true && (xb == x)) && (xc == x))) :=
    evalE_and (evalE_and (σ := σ) (l := .boolLit true) (a := true) (by simp [evalE])
      (evalE_eqInt (evalE_var_int hvB hb0 hb1) (evalE_var_int hi hr0 hr1)))
      (evalE_eqInt (evalE_var_int hvC hc0 hc1) (evalE_var_int hi hr0 hr1))
  by_cases hcase : xb = x ∧ xc = x
  · obtain ⟨hlen, hfin⟩ := hboth hcase.1 hcase.2
    obtain ⟨σ', cb', cc', vb', vc', hrun, hinv', fv, fh⟩ := branch_step N ho hb hc pre fuel σ hist cb cc vb vc
      q r x hq hr hlen hinv hpB hpC hi hr0 hr1 hfin
    refine ⟨σ', cb', cc', vb', vc', ?_, ?_, fun h => absurd hcase h, fv, fh⟩
    · refine RunsL.cons (Runs.branch_true ?_ (Runs.block hrun)) (RunsL.nil _ _)
      rw [econd, hcase.1, hcase.2]; simp
    · unfold stepHist; rw [if_pos hcase]; exact hinv'
  · refine ⟨σ, cb, cc, vb, vc, ?_, ?_, fun _ => rfl, fun _ _ => rfl, fun _ _ _ _ h => h⟩
    · refine RunsL.cons (Runs.branch_false ?_ (Runs.skip _ _ _)) (RunsL.nil _ _)
      rw [econd]
      have : ((true && (xb == x)) && (xc == x)) = false := by
        by_cases h1 : xb = x
        · have h2 : xc ≠ x := fun h2 => hcase ⟨h1, h2⟩
          simp [h1, h2]
        · simp [h1]
      rw [this]
    · unfold stepHist; rw [if_neg hcase]; exact hinv

end step

end TV.Spmul
