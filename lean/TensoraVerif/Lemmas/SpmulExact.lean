import TensoraVerif.Lemmas.SpmulKernel
import TensoraVerif.Lemmas.Sparse1Exact
import TensoraVerif.Lemmas.ToIrRat

/-!
C01 for the element-wise product of two sparse vectors, part 12: the result as a stored tensor and as a
function of the coordinate — the coordinates of `intersect b c` are strictly increasing and within the
dimension (`Storage.wfCheck` accepts), they are exactly the coordinates stored in BOTH operands, and over the
exact carrier the dense reading of the result is C01's `Alg.denote` of the source assignment
`a(i) = b(i) * c(i)`.
-/
namespace TV.Spmul
open TV.IR TV.Gen TV.Graph
open TV.Sparse1 (storedVec wfCheck_storedVec)
set_option linter.unusedSectionVars false
variable {F : Type} [FloatOps F]

/-- the coordinates of a sorted association list are strictly increasing -/
theorem coords_pairwise {l : List (Int × F)} (h : Sorted l) : (l.map (·.1)).Pairwise (· < ·) := by
  rw [List.pairwise_map]; exact h

/-- **the stored coordinates are exactly those stored in both operands** (C03: no phantom coordinate; and
none missing) -/
theorem coord_mem_intersect_iff {mb mc : Nat} {crdB crdC : Nat → Int} (cellsB cellsC : Nat → F)
    (hsB : ∀ j k, j < k → k < mb → crdB j < crdB k) (hsC : ∀ j k, j < k → k < mc → crdC j < crdC k) (x : Int) :
    x ∈ (intersect (assoc mb crdB cellsB) (assoc mc crdC cellsC)).map (·.1) ↔
      (∃ q, q < mb ∧ crdB q = x) ∧ (∃ r, r < mc ∧ crdC r = x) := by
  constructor
  · intro h
    obtain ⟨p, hp, rfl⟩ := List.mem_map.1 h
    obtain ⟨u, v, h1, h2, _⟩ := mem_intersect_sound _ _ p hp
    obtain ⟨q, hq, e1, _⟩ := mem_assoc.1 h1
    obtain ⟨r, hr, e2, _⟩ := mem_assoc.1 h2
    exact ⟨⟨q, hq, e1⟩, ⟨r, hr, e2⟩⟩
  · rintro ⟨⟨q, hq, rfl⟩, ⟨r, hr, e⟩⟩
    have := mem_intersect_complete _ _ (assoc_sorted cellsB hsB) (assoc_sorted cellsC hsC) (crdB q) (cellsB q)
      (cellsC r) (mem_assoc.2 ⟨q, hq, rfl, rfl⟩) (mem_assoc.2 ⟨r, hr, e, rfl⟩)
    exact List.mem_map.2 ⟨_, this, rfl⟩

/-- **every stored entry is the product of the matching entries**, and every matching pair is stored -/
theorem entry_mem_intersect_iff {mb mc : Nat} {crdB crdC : Nat → Int} (cellsB cellsC : Nat → F)
    (hsB : ∀ j k, j < k → k < mb → crdB j < crdB k) (hsC : ∀ j k, j < k → k < mc → crdC j < crdC k)
    (x : Int) (w : F) :
    (x, w) ∈ intersect (assoc mb crdB cellsB) (assoc mc crdC cellsC) ↔
      ∃ q r, q < mb ∧ r < mc ∧ crdB q = x ∧ crdC r = x ∧ w = FloatOps.mul (cellsB q) (cellsC r) := by
  constructor
  · intro h
    obtain ⟨u, v, h1, h2, e⟩ := mem_intersect_sound _ _ _ h
    obtain ⟨q, hq, e1, rfl⟩ := mem_assoc.1 h1
    obtain ⟨r, hr, e2, rfl⟩ := mem_assoc.1 h2
    exact ⟨q, r, hq, hr, e1, e2, e⟩
  · rintro ⟨q, r, hq, hr, rfl, e, rfl⟩
    exact mem_intersect_complete _ _ (assoc_sorted cellsB hsB) (assoc_sorted cellsC hsC) (crdB q) (cellsB q)
      (cellsC r) (mem_assoc.2 ⟨q, hq, rfl, rfl⟩) (mem_assoc.2 ⟨r, hr, e, rfl⟩)

/-- **well-formedness of the result**: the structure with `pos = [0, r]`, `crd` = the coordinates of
`intersect b c` and one value per coordinate passes `Storage.wfCheck`, provided `b`'s coordinates are strictly
increasing and within the dimension and `c`'s are strictly increasing -/
theorem wfCheck_intersect {mb mc : Nat} {crdB crdC : Nat → Int} (cellsB cellsC : Nat → F) (d : Nat)
    (hsB : ∀ j k, j < k → k < mb → crdB j < crdB k) (hsC : ∀ j k, j < k → k < mc → crdC j < crdC k)
    (hrB : ∀ j, j < mb → 0 ≤ crdB j ∧ crdB j < d) (vs : List Int)
    (hv : vs.length = (intersect (assoc mb crdB cellsB) (assoc mc crdC cellsC)).length) :
    Storage.wfCheck (storedVec d ((intersect (assoc mb crdB cellsB) (assoc mc crdC cellsC)).map (·.1)) vs) =
      true := by
  refine wfCheck_storedVec d _ vs
    (coords_pairwise (intersect_sorted _ _ (assoc_sorted cellsB hsB) (assoc_sorted cellsC hsC))) ?_
    (by simpa using hv)
  intro c hc
  obtain ⟨⟨q, hq, rfl⟩, _⟩ := (coord_mem_intersect_iff cellsB cellsC hsB hsC c).1 hc
  exact hrB q hq

/-! ### the exact carrier -/

/-- over the exact carrier nothing can be non-finite -/
theorem allFinite_rat (ofRat : Rat → Rat) (bT cT : TensorId) (u v : Rat) :
    ToIr.AllFinite ofRat (env bT u v) (mulE bT cT) := ToIr.allFinite_rat _ _ _

/-- **the specification of the source assignment** `a(i) = b(i) * c(i)` (C01's `Alg.denote`) at the coordinate
`x` is the product of the two inputs at `x` -/
theorem denote_mul (inputs : Alg.Inputs) (sizes : Alg.Sizes) (an bn cn i : String) (x : Nat) :
    Alg.denote ⟨an, [i], .mul (.tensor bn [i]) (.tensor cn [i])⟩ inputs sizes [x] =
      inputs bn [x] * inputs cn [x] := by
  simp [Alg.denote, Alg.termsOf, Alg.Term.mul, Alg.Term.indexes, Alg.dedup, Alg.sumOver,
    Alg.Term.val, Alg.Env.get]
  exact Rat.zero_add _

/-- the source assignment desugars to the product of the two occurrences with ids 1 and 2 -/
theorem desugar_mul (an bn cn i : String) :
    Alg.desugar ⟨an, [i], .mul (.tensor bn [i]) (.tensor cn [i])⟩ =
      ⟨an, [i], .mul (.tensor 1 bn [i]) (.tensor 2 cn [i])⟩ := by
  simp [Alg.desugar, Alg.desugarE, Alg.indexesOf, Alg.dedup, Alg.wrap]

/-- **the dense reading of `intersect b c` over `Rat` is the product of the dense readings** -/
theorem vecAt_intersect_rat (l1 l2 : List (Int × Rat)) (s1 : Sorted l1) (s2 : Sorted l2) (x : Int) :
    vecAt (intersect l1 l2) x = vecAt l1 x * vecAt l2 x :=
  vecAt_intersect l1 l2 s1 s2 (fun v => Rat.zero_mul v) (fun u => Rat.mul_zero u) x

end TV.Spmul
