import TensoraVerif.Lemmas.SpmulModel

/-!
C01 for the element-wise product of two sparse vectors, part 2: what `lower` emits for the graphs of the
class (`lower_eq`): the lattice of sub-graphs has two points — the graph itself and the graph whose terminal
is the literal `0` (whichever operand is exhausted, `b * 0` and `0 * c` are simplified to `Integer 0`) — and
the second is skipped both as a loop (no tail loop) and as a branch (no `else if`).
-/
namespace TV.Spmul
open TV.IR TV.Gen TV.Graph TV.Merge
open TV.Sparse1 (isSp isSp_iff outLeaf inLeaf branchBody termBlock)
set_option linter.unusedSectionVars false
variable {F : Type} [FloatOps F]

theorem isClass_iff (i : String) (outT bT cT : TensorId) :
    isClass i outT bT cT = true ↔ isSp i outT = true ∧ isSp i bT = true ∧ isSp i cT = true ∧ bT.id ≠ cT.id := by
  simp [isClass, and_assoc]

/-- the zero graph: the terminal has been exhausted to the literal `Integer 0` -/
def zeroGraph (i : String) (outT : TensorId) : IGraph := .iter i (some ⟨outT, 0⟩) (.terminal (.int 0))

section
variable (i : String) (outT bT cT : TensorId) (hb : isSp i bT = true) (hc : isSp i cT = true)
  (hne : bT.id ≠ cT.id)
include hb hc

/-- the loop context: sparse, the two leaves in order, no dense leaf -/
theorem ctx_eq : extractContext (mulE bT cT) i = ⟨true, [inLeaf bT, inLeaf cT], []⟩ := by
  obtain ⟨hb1, hb2⟩ := (isSp_iff i bT).1 hb
  obtain ⟨hc1, hc2⟩ := (isSp_iff i cT).1 hc
  simp [mulE, extractContext, Context.mul, hb1, hb2, hc1, hc2, inLeaf]

include hne

theorem compressedDims_graph : compressedDims (graph i outT bT cT) = [bT.id, cT.id] := by
  simp [compressedDims, graph, nodeContext, IGraph.context, ctx_eq i bT cT hb hc, dedupStr, inLeaf]
  exact Ne.symm hne

omit hb hc in
theorem exhaust_c : (graph i outT bT cT).exhaust cT.id = zeroGraph i outT := by
  have hne' : (bT.id == cT.id) = false := by simpa using hne
  simp [graph, zeroGraph, IGraph.exhaust, mulE, exhaust, IdExpr.occurs, IdExpr.isZeroInt, hne']

omit hb hc hne in
theorem exhaust_b : (graph i outT bT cT).exhaust bT.id = zeroGraph i outT := by
  by_cases h : cT.id = bT.id
  · simp [graph, zeroGraph, IGraph.exhaust, mulE, exhaust, IdExpr.occurs, IdExpr.isZeroInt, h]
  · have h' : (cT.id == bT.id) = false := by simpa using h
    simp [graph, zeroGraph, IGraph.exhaust, mulE, exhaust, IdExpr.occurs, IdExpr.isZeroInt, h']

omit hb hc hne in
theorem compressedDims_zero : compressedDims (zeroGraph i outT) = [] := by
  simp [compressedDims, zeroGraph, nodeContext, IGraph.context, extractContext, dedupStr]

/-- **the lattice of sub-graphs**: the graph itself and the zero graph -/
theorem generateSubgraphs_eq :
    generateSubgraphs (graph i outT bT cT) = [graph i outT bT cT, zeroGraph i outT] := by
  have h1 := compressedDims_graph i outT bT cT hb hc hne
  have h2 := compressedDims_zero i outT
  have hx := exhaust_c i outT bT cT hne
  have hy := exhaust_b i outT bT cT
  simp [generateSubgraphs, generateSubgraphs.go, h1, h2, hx, hy, dictSet, sameSet, sortByLenDesc,
    List.range, List.range.loop]

end

/-- **What `lower` emits on the class.** -/
theorem lower_eq (ofRat : Rat → F) (n : Nat) (i : String) (outT bT cT : TensorId)
    (hcl : isClass i outT bT cT = true) :
    lower ofRat (n + 2) (graph i outT bT cT) (.append outT 0) .evaluate =
      .ok ⟨some ("*** Iteration over " ++ i ++ " ***"), loopLines ofRat i outT bT cT⟩ := by
  obtain ⟨ho, hb, hc, hne⟩ := (isClass_iff i outT bT cT).1 hcl
  have ho' := (isSp_iff i outT).1 ho
  have hctx := ctx_eq i bT cT hb hc
  have hsub := generateSubgraphs_eq i outT bT cT hb hc hne
  have hcd1 := compressedDims_graph i outT bT cT hb hc hne
  have hcd2 := compressedDims_zero i outT
  have hne0 : mulE bT cT ≠ .int 0 := by simp [mulE]
  unfold graph zeroGraph at hsub
  unfold graph at hcd1
  unfold zeroGraph at hcd2
  unfold graph
  unfold lower
  simp only [Kind.isCompute, Bool.not_true, Bool.false_and, Bool.false_eq_true, if_false]
  have hso : isSparseOutput (IGraph.iter i (some { tensor := outT, layer := 0 })
      (IGraph.terminal (mulE bT cT))) = true := by
    simp [isSparseOutput, Leaf.mode, ho'.2]
  have hnext : ((Output.append outT 0).next (some 0) Kind.evaluate : Except GenErr (Output × SB F)) =
      .ok (.append outT 1, SB.empty) := by simp [Output.next]
  have hnc : nodeContext (IGraph.iter i (some { tensor := outT, layer := 0 }) (IGraph.terminal (mulE bT cT))) =
      ⟨true, [inLeaf bT, inLeaf cT], []⟩ := by
    simp [nodeContext, IGraph.context, hctx]
  have hlater : (IGraph.iter i (some { tensor := outT, layer := 0 })
      (IGraph.terminal (mulE bT cT))).laterIndexes = [i] := by
    simp [IGraph.laterIndexes]
  have hterm := Sparse1.lower_terminal_eq ofRat n outT (mulE bT cT) ho'.2 (by rw [ho'.1]; rfl) hne0
  have hmode : ({ tensor := outT, layer := 0 } : Leaf).mode = Mode.compressed := by simp [Leaf.mode, ho'.2]
  simp only [hso, hmode, Option.map_some, hnext, hsub, hnc, hlater, hterm, hcd1, hcd2,
    Bool.or_true, Bool.true_and, Bool.and_self, if_true,
    List.foldlM_cons, List.foldlM_nil, bind, Except.bind, pure, Except.pure,
    List.isEmpty_nil, List.isEmpty_cons, Bool.not_true, Bool.not_false, Option.isNone_some, Bool.false_eq_true,
    if_false, List.foldl_nil, List.foldl_cons,
    List.map_nil, List.map_cons, List.nil_append, Kind.isAssemble]
  rw [Sparse1.append_commented _ _ _ (Sparse1.writePosAllocation_comment _),
    Sparse1.append_commented _ (writeCrdAssembly _) "crd assembly" rfl,
    Sparse1.append_commented _ (writePosAssembly _) "pos assembly" rfl,
    Sparse1.append_plain _ (writeSparseInit (inLeaf bT)) rfl,
    Sparse1.append_plain _ (writeSparseInit (inLeaf cT)) rfl]
  simp [SB.mk', SB.append, SB.empty, SB.add, SB.loop, SB.branch, SB.finalize, branchJoin, andJoin, joinWith,
    minJoin, loopLines, midStmt, bothCond, branchBody, termBlock, mergeLoopL, mergeBodyL, mergeCond,
    mergeLoads, mergeMin, mergeIncs, inLeaf, outLeaf, Leaf.ptr, Sparse1.writePosAllocation_comment]
  exact ⟨rfl, rfl⟩

end TV.Spmul
