import TensoraVerif.Props.C05Merge

/-!
C01 for the element-wise product of two sparse vectors, part 4: C05's merge loop with a ghost predicate that
depends on the CURSORS (`P cs σ`) instead of the history of the loop index.

`merge_loop_safe_ghost` (C05Merge) lets the statements between the `min` and the increments maintain a
predicate `P tr σ` on the list `tr` of the values taken by the loop index, but tells them nothing about the
relation between `tr` and the current cursors. For an INTERSECTION the decision "append or not" depends on the
cursors (both operands sit on the minimum), and what has been appended so far is a function of the cursor
positions, not of `tr` alone. `merge_loop_cursor_ghost` is the same theorem (same skeleton `mergeLoopL`, same
invariant `MergeInv`, same pure model `mergeFinal`) for a predicate indexed by the logical cursor records:
`mid` must turn `P cs` into `P (cs advanced by the minimum)`. The proof is the one of `Merge.iter_run` /
`Merge.loop_run` with the predicate re-indexed.
-/
namespace TV.Spmul
open TV.IR TV.Gen TV.Graph TV.Growth TV.Merge

set_option linter.unusedSectionVars false
variable {F : Type} [FloatOps F]

/-- the cursor-indexed ghost predicate does not look at the variables the skeleton itself writes (`i`, the
cursors, the loaded coordinates) -/
def CurStable (P : List Cur → State F → Prop) (cs0 : List Cur) (i : String) : Prop :=
  ∀ cs σ σ', Reach cs0 cs → P cs σ → σ'.heap = σ.heap → σ'.tensors = σ.tensors →
    (∀ y, y ∉ writtenNames cs i → lookupVar σ'.vars y = lookupVar σ.vars y) → P cs σ'

/-- **The frame condition on the statements between the `min` and the increments, cursor-indexed.** As
`Merge.MidOK`, but the ghost predicate is indexed by the cursor records: `mid` re-establishes it for the
cursors advanced by the current minimum (the increments themselves come after `mid`). -/
def MidOKc (B K : Nat) (P : List Cur → State F → Prop) (cs0 : List Cur) (i : String)
    (mid : List (Stmt F)) : Prop :=
  ∀ (fuel : Nat) (σ : State F) (cs : List Cur), B ≤ fuel → Reach cs0 cs →
    (∀ c ∈ cs, c.p < c.e) → MergeInv σ cs i → (∀ c ∈ cs, IntVar σ c.valN c.here) →
    IntVar σ i (curMin cs) → P cs σ →
    ∃ o, execL fuel mid σ = .ok o ∧ o.ret = none ∧ o.iters ≤ K ∧
      (∀ x ∈ curNames cs i, lookupVar o.st.vars x = lookupVar σ.vars x) ∧
      (∀ c ∈ cs, o.st.heap[c.blk]? = σ.heap[c.blk]?) ∧
      P (cs.map (Cur.adv (curMin cs))) o.st

/-- one iteration of the skeleton -/
theorem iter_run_c {B K : Nat} {P : List Cur → State F → Prop} {cs0 cs : List Cur} {i : String}
    {mid : List (Stmt F)} {fuel : Nat} {σ : State F}
    (hN : NamesOK cs i) (hne : cs ≠ []) (hreach : Reach cs0 cs) (hinv : MergeInv σ cs i)
    (hact : ∀ c ∈ cs, c.p < c.e) (hP : P cs σ) (hstab : CurStable P cs0 i)
    (hmid : MidOKc B K P cs0 i mid) (hfuel : B ≤ fuel) :
    ∃ σ' n, RunsLN fuel (mergeBodyL (cs.map Cur.leaf) i mid) σ σ' n ∧ n ≤ K ∧
      MergeInv σ' (cs.map (Cur.adv (curMin cs))) i ∧ P (cs.map (Cur.adv (curMin cs))) σ' := by
  obtain ⟨m0, m1⟩ := curMin_range hne hinv.cur hact
  -- loads
  obtain ⟨σ1, r1, v1, fr1, hp1, ht1⟩ := loads_run fuel cs σ hinv.cur hact hinv.val hN.val_pw
    (fun a ha b hb => ⟨(hN.cross b hb a ha).2.2.1, (hN.cross b hb a ha).2.2.2.2.2,
      (hN.cross b hb a ha).2.2.2.2.1⟩)
  have inv1 : ∀ c ∈ cs, CurInv σ1 c := fun c hc =>
    (hinv.cur c hc).congr (fr1 _ fun a ha => (hN.cross c hc a ha).2.2.2.2.2)
      (fr1 _ fun a ha => (hN.cross c hc a ha).2.2.1) (fr1 _ fun a ha => (hN.cross c hc a ha).2.2.2.2.1)
      (by rw [hp1])
  -- min
  have hval1 : ∀ c ∈ cs, evalE σ1 (.var c.valN) = .ok (.int c.here) := fun c hc => by
    obtain ⟨q0, q1⟩ := (hinv.cur c hc).rng c.p (Nat.le_refl _) (hact c hc)
    exact evalE_var_int (v1 c hc) q0 q1
  obtain ⟨σ2, r2, vi2, fr2, hp2, ht2⟩ := declInt_run (fuel := fuel) (x := i)
    (hinv.idx.congr (fr1 _ fun a ha => (hN.i_ne a ha).2.2.2)) (evalE_minJoin hne hval1)
  have inv2 : MergeInv σ2 cs i :=
    ⟨fun c hc => (inv1 c hc).congr (fr2 _ (Ne.symm (hN.i_ne c hc).2.2.1)) (fr2 _ (Ne.symm (hN.i_ne c hc).1))
        (fr2 _ (Ne.symm (hN.i_ne c hc).2.1)) (by rw [hp2]),
      fun c hc => DeclOK.of_intVar ((v1 c hc).congr (fr2 _ (Ne.symm (hN.i_ne c hc).2.2.2))),
      DeclOK.of_intVar vi2⟩
  have v2 : ∀ c ∈ cs, IntVar σ2 c.valN c.here := fun c hc =>
    (v1 c hc).congr (fr2 _ (Ne.symm (hN.i_ne c hc).2.2.2))
  have P1 : P cs σ1 := hstab cs σ σ1 hreach hP hp1 ht1 fun y hy =>
    fr1 y fun c hc => ((not_mem_writtenNames hy).2 c hc).2
  have P2 : P cs σ2 := hstab cs σ1 σ2 hreach P1 hp2 ht2 fun y hy => fr2 y (not_mem_writtenNames hy).1
  -- mid
  obtain ⟨o, eo, ro, ko, fr3, hb3, P3⟩ := hmid fuel σ2 cs hfuel hreach hact inv2 v2 vi2 P2
  have r3 : RunsLN fuel mid σ2 o.st o.iters := ⟨o, eo, ro, rfl, rfl⟩
  -- increments
  have vi3 : IntVar o.st i (curMin cs) := vi2.congr (fr3 _ (by simp [curNames]))
  obtain ⟨σ4, r4, v4, fr4, hp4, ht4⟩ := incs_run fuel i (curMin cs) m0 m1 cs o.st vi3
    (fun c hc => (inv2.cur c hc).ptrv.congr (fr3 _ (mem_curNames hc).1))
    (fun c hc => (v2 c hc).congr (fr3 _ (mem_curNames hc).2.2.2))
    (fun c hc => ⟨hact c hc, (hinv.cur c hc).lt, (hinv.cur c hc).rng c.p (Nat.le_refl _) (hact c hc)⟩)
    hN.ptr_pw (fun a ha b hb => Ne.symm (hN.cross a ha b hb).2.2.1) (fun a ha => (hN.i_ne a ha).1)
  refine ⟨σ4, 0 + 0 + o.iters + 0, ?_, by omega, ?_, ?_⟩
  · unfold mergeBodyL
    rw [mergeLoads_map, mergeMin_map, mergeIncs_map]
    exact RunsLN.append (RunsLN.append (RunsLN.append r1 (RunsLN.cons r2 (RunsLN.nil _ _))) r3) r4
  · refine ⟨?_, ?_, ?_⟩
    · intro c' hc'
      obtain ⟨c, hc, rfl⟩ := List.mem_map.1 hc'
      refine (inv2.cur c hc).adv (hact c hc) ?_ (v4 c hc) ?_ ?_
      · rw [fr4 _ fun a ha => Ne.symm (hN.cross a ha c hc).2.1, fr3 _ (mem_curNames hc).2.2.1]
      · rw [fr4 _ fun a ha => Ne.symm (hN.cross a ha c hc).1, fr3 _ (mem_curNames hc).2.1]
      · rw [hp4, hb3 c hc]
    · intro c' hc'
      obtain ⟨c, hc, rfl⟩ := List.mem_map.1 hc'
      exact DeclOK.of_intVar (((v2 c hc).congr (fr3 _ (mem_curNames hc).2.2.2)).congr
        (fr4 _ fun a ha => Ne.symm (hN.cross a ha c hc).2.2.1))
    · exact DeclOK.of_intVar (vi3.congr (fr4 _ fun a ha => (hN.i_ne a ha).1))
  · refine hstab _ o.st σ4 (hreach.adv _) P3 hp4 ht4 fun y hy => fr4 y fun c hc => ?_
    rw [writtenNames_adv] at hy
    exact ((not_mem_writtenNames hy).2 c hc).1

/-- the loop of the skeleton, for every bound `n ≥ Σ (e_l − p_l)` and fuel `≥ n + 1 + B` -/
theorem loop_run_c {B K : Nat} {P : List Cur → State F → Prop} {cs0 : List Cur} {i : String}
    {mid : List (Stmt F)} (hmid : MidOKc B K P cs0 i mid) (hstab : CurStable P cs0 i) :
    ∀ (n : Nat) (cs : List Cur) (σ : State F) (fuel : Nat),
      cs ≠ [] → NamesOK cs i → Reach cs0 cs → curMeasure cs ≤ n →
      n + 1 + B ≤ fuel → MergeInv σ cs i → P cs σ →
      ∃ o, exec fuel (mergeLoopL (cs.map Cur.leaf) i mid) σ = .ok o ∧ o.ret = none ∧
        MergeInv o.st (mergeRun n cs).2 i ∧ P (mergeRun n cs).2 o.st ∧
        (mergeRun n cs).1.length ≤ o.iters ∧ o.iters ≤ (mergeRun n cs).1.length * (K + 1) := by
  intro n
  induction n with
  | zero =>
    intro cs σ fuel hne _ _ hmeas hfuel hinv hP
    obtain ⟨f, rfl⟩ : ∃ f, fuel = f + 1 := ⟨fuel - 1, by omega⟩
    have hb := curMeasure_zero_inactive hne (by omega)
    refine ⟨⟨σ, none, 0, 1⟩, ?_, rfl, ?_, ?_, ?_, ?_⟩
    · exact exec_loop_exit f (by rw [evalE_mergeCond hinv.cur, hb])
    · exact hinv
    · simpa [mergeRun] using hP
    · simp [mergeRun]
    · simp [mergeRun]
  | succ n ih =>
    intro cs σ fuel hne hN hreach hmeas hfuel hinv hP
    obtain ⟨f, rfl⟩ : ∃ f, fuel = f + 1 := ⟨fuel - 1, by omega⟩
    cases hb : curActive cs with
    | false =>
      rw [mergeRun_inactive _ hb]
      refine ⟨⟨σ, none, 0, 1⟩, ?_, rfl, hinv, hP, by simp, by simp⟩
      exact exec_loop_exit f (by rw [evalE_mergeCond hinv.cur, hb])
    | true =>
      have hact := (curActive_iff cs).1 hb
      rw [mergeRun_active _ hb]
      obtain ⟨σ', k, rb, hk, inv', P'⟩ :=
        iter_run_c (fuel := f) hN hne hreach hinv hact hP hstab hmid (by omega)
      obtain ⟨o1, e1, ret1, st1, it1⟩ := RunsN.block (c := none) rb
      have hlt := curMeasure_adv_lt hne hact
      obtain ⟨o2, e2, ret2, inv2, P2, lo2, hi2⟩ := ih (cs.map (Cur.adv (curMin cs))) σ' f
        (map_adv_ne_nil hne) (hN.adv _) (hreach.adv _) (by omega) (by omega) inv' P'
      rw [map_adv_leaf] at e2
      subst st1
      refine ⟨_, exec_loop_step (by rw [evalE_mergeCond hinv.cur, hb]) e1 ret1 e2, ret2, inv2, P2, ?_, ?_⟩
      · simp only [List.length_cons]; omega
      · simp only [List.length_cons]
        rw [Nat.add_mul]
        omega

/-- **C05's merge loop with a cursor-indexed ghost predicate.** Hypotheses and conclusions of
`merge_loop_safe_ghost`, with `P cs σ` in place of `P tr σ`: at exit `P` holds for the final cursors
`mergeFinal cs` (one of which has reached its end). -/
theorem merge_loop_cursor_ghost {B K : Nat} {P : List Cur → State F → Prop} (cs : List Cur) (i : String)
    (mid : List (Stmt F)) (fuel : Nat) (σ : State F)
    (hne : cs ≠ []) (hnames : NamesOK cs i) (hinv : MergeInv σ cs i)
    (hP : P cs σ) (hstab : CurStable P cs i) (hmid : MidOKc B K P cs i mid)
    (hfuel : curMeasure cs + 1 + B ≤ fuel) :
    ∃ o, exec fuel (mergeLoopL (cs.map Cur.leaf) i mid) σ = .ok o ∧ o.ret = none ∧
      MergeInv o.st (mergeFinal cs) i ∧ Reach cs (mergeFinal cs) ∧ (∃ c ∈ mergeFinal cs, c.p = c.e) ∧
      (mergeTrace cs).length ≤ curMeasure cs ∧
      (mergeTrace cs).length ≤ o.iters ∧ o.iters ≤ (mergeTrace cs).length * (K + 1) ∧
      P (mergeFinal cs) o.st := by
  obtain ⟨o, e, r, inv, hp, lo, hi⟩ := loop_run_c hmid hstab (curMeasure cs) cs σ fuel hne
    hnames (Reach.refl cs) (Nat.le_refl _) hfuel hinv hP
  exact ⟨o, e, r, inv, mergeRun_reach _ (Reach.refl cs),
    exists_exhausted inv (mergeRun_final_inactive _ cs hne (Nat.le_refl _)),
    mergeRun_length_le _ cs hne, lo, hi, hp⟩

end TV.Spmul
