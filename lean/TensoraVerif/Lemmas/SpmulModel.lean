import TensoraVerif.Lemmas.Sparse1Model
import TensoraVerif.Lemmas.Sparse1Lower

/-!
C01 for the element-wise product of two sparse vectors (`a(i) = b(i) * c(i)`, all three compressed),
part 1: definitions.

* `Spmul.isClass`: the class (three order-1 compressed tensors indexed by the loop index, the two input
  occurrences have different ids);
* `Spmul.mulE`, `Spmul.graph`: the terminal expression and the iteration graph;
* `Spmul.midStmt`, `Spmul.loopLines`: what `lower` emits on the class, written out. The loop is C05's
  skeleton over the TWO leaves `[b, c]`; the only branch of the co-iteration lattice that is emitted is
  "both present" (`(true && i_b == i) && i_c == i`), whose body is the one of the one-operand class
  (`Sparse1.branchBody`) for the expression `b * c`; there is no `else` branch and no tail loop.
-/
namespace TV.Spmul
open TV.IR TV.Gen TV.Graph TV.Merge
open TV.Sparse1 (isSp outLeaf inLeaf branchBody)

variable {F : Type} [FloatOps F]

/-- the three tensors are compressed vectors over `i`, and the two input occurrences are different -/
def isClass (i : String) (outT bT cT : TensorId) : Bool :=
  isSp i outT && isSp i bT && isSp i cT && bT.id != cT.id

/-- `b(i) * c(i)` -/
def mulE (bT cT : TensorId) : IdExpr := .mul (.tensor bT) (.tensor cT)

/-- the iteration graph of `out(i) = b(i) * c(i)` -/
def graph (i : String) (outT bT cT : TensorId) : IGraph :=
  .iter i (some ⟨outT, 0⟩) (.terminal (mulE bT cT))

/-- the condition of the only emitted branch: both operands store the coordinate `i` -/
def bothCond (i : String) (bT cT : TensorId) : Expr F :=
  .bin .and (.bin .and (.boolLit true) (.bin .eq (.var (valueFromCrd bT.id 0)) (.var i)))
    (.bin .eq (.var (valueFromCrd cT.id 0)) (.var i))

/-- what `lower` puts between the `min` and the cursor increments:
`if ((true && i_b == i) && i_c == i) { … }` — no `else if` -/
def midStmt (ofRat : Rat → F) (i : String) (outT bT cT : TensorId) : Stmt F :=
  .branch (bothCond i bT cT) (.block (branchBody ofRat outT (mulE bT cT)) none) (.block [] none)

/-- the lines of the "Iteration over i" block: cursor/end of `b`, cursor/end of `c`, ONE loop, pos assembly -/
def loopLines (ofRat : Rat → F) (i : String) (outT bT cT : TensorId) : List (Stmt F) :=
  (writeSparseInit (inLeaf bT)).lines ++ (writeSparseInit (inLeaf cT)).lines ++
  [mergeLoopL [inLeaf bT, inLeaf cT] i [midStmt ofRat i outT bT cT],
   (writePosAssembly (outLeaf outT)).finalize]

end TV.Spmul
