import TensoraVerif.Lemmas.Sparse1Names
import TensoraVerif.Lemmas.SpmulModel

/-!
C01 for the element-wise product of two sparse vectors, part 6: the names of the kernel are pairwise distinct
(`KNames`, tactic `snm`), by the classification `Sparse1.nameClass` and injectivity of the naming functions.
-/
namespace TV.Spmul
open TV.IR TV.Gen TV.Graph TV.Merge
open TV.Sparse1 (nameClass ne_of_nameClass nc_plain nc_dim nc_pos nc_crd nc_vals nc_posCap nc_crdCap nc_valsCap
  nc_end nc_ptr nc_val nc_wr posName_inj0 crdName_inj0 valsName_inj0)

/-- the static name hypotheses of the class: index and tensor names without `'_'` (every name the parser
admits is alphanumeric), pairwise different, and the three tensor ids different -/
structure KNames (i : String) (outT bT cT : TensorId) : Prop where
  iu : '_' ∉ i.toList
  au : '_' ∉ outT.name.toList
  bu : '_' ∉ bT.name.toList
  cu : '_' ∉ cT.name.toList
  ab : outT.name ≠ bT.name
  ac : outT.name ≠ cT.name
  bc : bT.name ≠ cT.name
  ia : i ≠ outT.name
  ib : i ≠ bT.name
  ic : i ≠ cT.name
  idab : outT.id ≠ bT.id
  idac : outT.id ≠ cT.id
  idbc : bT.id ≠ cT.id

theorem sparseEndName_inj0 {r r' : String} (h : sparseEndName r 0 = sparseEndName r' 0) : r = r' :=
  (layerPointer_inj ((String.append_left_inj _).1 h)).1

section
variable {i : String} {outT bT cT : TensorId} (N : KNames i outT bT cT)
include N
theorem KNames.i0 : nameClass i = 0 := nc_plain N.iu
theorem KNames.a0 : nameClass outT.name = 0 := nc_plain N.au
theorem KNames.b0 : nameClass bT.name = 0 := nc_plain N.bu
theorem KNames.c0 : nameClass cT.name = 0 := nc_plain N.cu
theorem KNames.ptr_ab : layerPointer outT.id 0 ≠ layerPointer bT.id 0 :=
  fun h => N.idab (layerPointer_inj h).1
theorem KNames.ptr_ac : layerPointer outT.id 0 ≠ layerPointer cT.id 0 :=
  fun h => N.idac (layerPointer_inj h).1
theorem KNames.ptr_bc : layerPointer bT.id 0 ≠ layerPointer cT.id 0 :=
  fun h => N.idbc (layerPointer_inj h).1
theorem KNames.val_bc : valueFromCrd bT.id 0 ≠ valueFromCrd cT.id 0 :=
  fun h => N.idbc (valueFromCrd_inj h).1
theorem KNames.end_bc : sparseEndName bT.id 0 ≠ sparseEndName cT.id 0 :=
  fun h => N.idbc (sparseEndName_inj0 h)
/-- the one-operand name hypotheses, for either input -/
theorem KNames.toB : Sparse1.KNames i outT bT := ⟨N.iu, N.au, N.bu, N.ab, N.ia, N.ib, N.idab⟩
theorem KNames.toC : Sparse1.KNames i outT cT := ⟨N.iu, N.au, N.cu, N.ac, N.ia, N.ic, N.idac⟩
end

/-- `snc_ne N` proves `x ≠ y` for two names of different classes -/
macro "snc_ne" N:term : tactic =>
  `(tactic| (apply ne_of_nameClass
             simp [nc_dim, nc_pos, nc_crd, nc_vals, nc_posCap, nc_crdCap, nc_valsCap, nc_end, nc_ptr,
               nc_val, nc_wr, ($N).i0, ($N).a0, ($N).b0, ($N).c0]
             done))

/-- `snm N` proves an inequality between two names of the kernel -/
macro "snm" N:term : tactic => `(tactic| first
  | snc_ne $N
  | exact ($N).ptr_ab | exact ($N).ptr_ab.symm | exact ($N).ptr_ac | exact ($N).ptr_ac.symm
  | exact ($N).ptr_bc | exact ($N).ptr_bc.symm | exact ($N).val_bc | exact ($N).val_bc.symm
  | exact ($N).end_bc | exact ($N).end_bc.symm
  | exact fun h => ($N).ab (valsName_inj0 h) | exact fun h => ($N).ab (valsName_inj0 h.symm)
  | exact fun h => ($N).ac (valsName_inj0 h) | exact fun h => ($N).ac (valsName_inj0 h.symm)
  | exact fun h => ($N).bc (valsName_inj0 h) | exact fun h => ($N).bc (valsName_inj0 h.symm)
  | exact fun h => ($N).ab (crdName_inj0 h) | exact fun h => ($N).ab (crdName_inj0 h.symm)
  | exact fun h => ($N).ac (crdName_inj0 h) | exact fun h => ($N).ac (crdName_inj0 h.symm)
  | exact fun h => ($N).bc (crdName_inj0 h) | exact fun h => ($N).bc (crdName_inj0 h.symm)
  | exact fun h => ($N).ab (posName_inj0 h) | exact fun h => ($N).ab (posName_inj0 h.symm)
  | exact fun h => ($N).ac (posName_inj0 h) | exact fun h => ($N).ac (posName_inj0 h.symm)
  | exact fun h => ($N).bc (posName_inj0 h) | exact fun h => ($N).bc (posName_inj0 h.symm)
  | exact ($N).ia | exact ($N).ia.symm | exact ($N).ib | exact ($N).ib.symm
  | exact ($N).ic | exact ($N).ic.symm
  | exact ($N).ab | exact ($N).ab.symm | exact ($N).ac | exact ($N).ac.symm
  | exact ($N).bc | exact ($N).bc.symm)

example {i : String} {outT bT cT : TensorId} (N : KNames i outT bT cT) :
    valsName cT.name ≠ valsName bT.name ∧ layerPointer bT.id 0 ≠ layerPointer cT.id 0 ∧
    i ≠ writtenName outT.name 0 ∧ crdCapName outT.name 0 ≠ valueFromCrd cT.id 0 ∧ cT.name ≠ dimName i ∧
    sparseEndName cT.id 0 ≠ sparseEndName bT.id 0 ∧ posName bT.name 0 ≠ posName cT.name 0 := by
  and_intros <;> snm N

end TV.Spmul
