import TensoraVerif.Model.Machine

/-!
C01 for the element-wise product of two sparse vectors, part 5: the PURE reference — `intersect`, the
element-wise product of two sparse vectors given as association lists (coordinate, value) with strictly
increasing coordinates; what it stores (`mem_intersect_sound`: no phantom coordinate; `mem_intersect_complete`:
no coordinate missing; `intersect_sorted`), the dense reading `vecAt` of an association list, and the
stored vectors as association lists (`assoc`).
-/
namespace TV.Spmul
open TV.IR

set_option linter.unusedSectionVars false
variable {F : Type} [FloatOps F]

/-- inner recursion of `intersect`: the head `(x, u)` of the first list against the second list; `rec` is
`intersect` on the tail of the first list -/
def interAux (x : Int) (u : F) (rec : List (Int × F) → List (Int × F)) : List (Int × F) → List (Int × F)
  | [] => []
  | (y, v) :: ys =>
    if x = y then (x, FloatOps.mul u v) :: rec ys
    else if x < y then rec ((y, v) :: ys)
    else interAux x u rec ys

/-- **the reference function**: element-wise product of two sparse vectors stored as association lists
sorted by coordinate — the classical two-finger intersection. A coordinate is stored in the result iff it is
stored in both operands, with the product of the two values (in this order: `b * c`). -/
def intersect : List (Int × F) → List (Int × F) → List (Int × F)
  | [] => fun _ => []
  | (x, u) :: xs => interAux x u (intersect xs)

@[simp] theorem intersect_nil_left (l : List (Int × F)) : intersect [] l = [] := rfl

@[simp] theorem intersect_nil_right (l : List (Int × F)) : intersect l [] = [] := by
  cases l with
  | nil => rfl
  | cons p xs => rfl

theorem intersect_cons_cons (x : Int) (u : F) (xs : List (Int × F)) (y : Int) (v : F) (ys : List (Int × F)) :
    intersect ((x, u) :: xs) ((y, v) :: ys) =
      if x = y then (x, FloatOps.mul u v) :: intersect xs ys
      else if x < y then intersect xs ((y, v) :: ys)
      else intersect ((x, u) :: xs) ys := rfl

/-- induction principle following the recursion of `intersect` -/
theorem intersect_induct {motive : List (Int × F) → List (Int × F) → Prop}
    (nilL : ∀ l, motive [] l) (nilR : ∀ l, motive l [])
    (eq : ∀ x u xs v ys, motive xs ys → motive ((x, u) :: xs) ((x, v) :: ys))
    (lt : ∀ x u xs y v ys, x < y → motive xs ((y, v) :: ys) → motive ((x, u) :: xs) ((y, v) :: ys))
    (gt : ∀ x u xs y v ys, y < x → motive ((x, u) :: xs) ys → motive ((x, u) :: xs) ((y, v) :: ys)) :
    ∀ l1 l2, motive l1 l2 := by
  intro l1
  induction l1 with
  | nil => exact nilL
  | cons p xs ih1 =>
    obtain ⟨x, u⟩ := p
    intro l2
    induction l2 with
    | nil => exact nilR _
    | cons q ys ih2 =>
      obtain ⟨y, v⟩ := q
      rcases Int.lt_trichotomy x y with h | h | h
      · exact lt x u xs y v ys h (ih1 _)
      · subst h; exact eq x u xs v ys (ih1 _)
      · exact gt x u xs y v ys h ih2

theorem intersect_eq (x : Int) (u : F) (xs : List (Int × F)) (v : F) (ys : List (Int × F)) :
    intersect ((x, u) :: xs) ((x, v) :: ys) = (x, FloatOps.mul u v) :: intersect xs ys := by
  rw [intersect_cons_cons, if_pos rfl]

theorem intersect_lt {x y : Int} (h : x < y) (u : F) (xs : List (Int × F)) (v : F) (ys : List (Int × F)) :
    intersect ((x, u) :: xs) ((y, v) :: ys) = intersect xs ((y, v) :: ys) := by
  rw [intersect_cons_cons, if_neg (by omega), if_pos h]

theorem intersect_gt {x y : Int} (h : y < x) (u : F) (xs : List (Int × F)) (v : F) (ys : List (Int × F)) :
    intersect ((x, u) :: xs) ((y, v) :: ys) = intersect ((x, u) :: xs) ys := by
  rw [intersect_cons_cons, if_neg (by omega), if_neg (by omega)]

/-- the result is not longer than either operand -/
theorem intersect_length_le (l1 l2 : List (Int × F)) :
    (intersect l1 l2).length ≤ l1.length ∧ (intersect l1 l2).length ≤ l2.length := by
  induction l1, l2 using intersect_induct with
  | nilL l => simp
  | nilR l => simp
  | eq x u xs v ys ih => rw [intersect_eq]; simp only [List.length_cons]; omega
  | lt x u xs y v ys h ih => rw [intersect_lt h]; simp only [List.length_cons] at ih ⊢; omega
  | gt x u xs y v ys h ih => rw [intersect_gt h]; simp only [List.length_cons] at ih ⊢; omega

/-- **no phantom coordinate** (C03): every stored entry of the result comes from an entry of `b` and an entry
of `c` at the SAME coordinate, and its value is their product. No sortedness needed. -/
theorem mem_intersect_sound (l1 l2 : List (Int × F)) :
    ∀ p ∈ intersect l1 l2, ∃ u v, (p.1, u) ∈ l1 ∧ (p.1, v) ∈ l2 ∧ p.2 = FloatOps.mul u v := by
  induction l1, l2 using intersect_induct with
  | nilL l => intro p hp; simp at hp
  | nilR l => intro p hp; simp at hp
  | eq x u xs v ys ih =>
    intro p hp
    rw [intersect_eq] at hp
    rcases List.mem_cons.1 hp with rfl | hp
    · exact ⟨u, v, List.mem_cons_self, List.mem_cons_self, rfl⟩
    · obtain ⟨u', v', h1, h2, h3⟩ := ih p hp
      exact ⟨u', v', List.mem_cons_of_mem _ h1, List.mem_cons_of_mem _ h2, h3⟩
  | lt x u xs y v ys h ih =>
    intro p hp
    rw [intersect_lt h] at hp
    obtain ⟨u', v', h1, h2, h3⟩ := ih p hp
    exact ⟨u', v', List.mem_cons_of_mem _ h1, h2, h3⟩
  | gt x u xs y v ys h ih =>
    intro p hp
    rw [intersect_gt h] at hp
    obtain ⟨u', v', h1, h2, h3⟩ := ih p hp
    exact ⟨u', v', h1, List.mem_cons_of_mem _ h2, h3⟩

/-- strictly increasing coordinates -/
def Sorted (l : List (Int × F)) : Prop := l.Pairwise (fun a b => a.1 < b.1)

theorem Sorted.tail {p : Int × F} {l : List (Int × F)} (h : Sorted (p :: l)) : Sorted l :=
  (List.pairwise_cons.1 h).2

theorem Sorted.head_lt {p : Int × F} {l : List (Int × F)} (h : Sorted (p :: l)) :
    ∀ q ∈ l, p.1 < q.1 := (List.pairwise_cons.1 h).1

/-- **no coordinate missing**: for sorted operands, a coordinate stored in both is stored in the result with
the product of the values -/
theorem mem_intersect_complete (l1 l2 : List (Int × F)) :
    Sorted l1 → Sorted l2 → ∀ x u v, (x, u) ∈ l1 → (x, v) ∈ l2 →
      (x, FloatOps.mul u v) ∈ intersect l1 l2 := by
  induction l1, l2 using intersect_induct with
  | nilL l => intro _ _ x u v h; cases h
  | nilR l => intro _ _ x u v _ h; cases h
  | eq x u xs v ys ih =>
    intro s1 s2 z u' v' h1 h2
    rw [intersect_eq]
    rcases List.mem_cons.1 h1 with e1 | h1
    · cases e1
      rcases List.mem_cons.1 h2 with e2 | h2
      · cases e2; exact List.mem_cons_self
      · have := s2.head_lt _ h2; simp at this
    · rcases List.mem_cons.1 h2 with e2 | h2
      · cases e2
        have := s1.head_lt _ h1; simp at this
      · exact List.mem_cons_of_mem _ (ih s1.tail s2.tail z u' v' h1 h2)
  | lt x u xs y v ys h ih =>
    intro s1 s2 z u' v' h1 h2
    rw [intersect_lt h]
    rcases List.mem_cons.1 h1 with e1 | h1
    · cases e1
      rcases List.mem_cons.1 h2 with e2 | h2
      · cases e2; omega
      · have := s2.head_lt _ h2; simp at this; omega
    · exact ih s1.tail s2 z u' v' h1 h2
  | gt x u xs y v ys h ih =>
    intro s1 s2 z u' v' h1 h2
    rw [intersect_gt h]
    rcases List.mem_cons.1 h2 with e2 | h2
    · cases e2
      rcases List.mem_cons.1 h1 with e1 | h1
      · cases e1; omega
      · have := s1.head_lt _ h1; simp at this; omega
    · exact ih s1 s2.tail z u' v' h1 h2

/-- the result is sorted when the operands are -/
theorem intersect_sorted (l1 l2 : List (Int × F)) : Sorted l1 → Sorted l2 → Sorted (intersect l1 l2) := by
  induction l1, l2 using intersect_induct with
  | nilL l => intro _ _; exact List.Pairwise.nil
  | nilR l => intro _ _; rw [intersect_nil_right]; exact List.Pairwise.nil
  | eq x u xs v ys ih =>
    intro s1 s2
    rw [intersect_eq]
    refine List.pairwise_cons.2 ⟨?_, ih s1.tail s2.tail⟩
    intro q hq
    obtain ⟨u', _, h1, _, _⟩ := mem_intersect_sound xs ys q hq
    exact s1.head_lt (q.1, u') h1
  | lt x u xs y v ys h ih => intro s1 s2; rw [intersect_lt h]; exact ih s1.tail s2
  | gt x u xs y v ys h ih => intro s1 s2; rw [intersect_gt h]; exact ih s1 s2.tail

/-! ### the dense reading of an association list -/

/-- the value the sparse vector `l` has at coordinate `x`: the stored value, `0` where nothing is stored -/
def vecAt (l : List (Int × F)) (x : Int) : F :=
  match l.find? (fun p => p.1 == x) with
  | some p => p.2
  | none => FloatOps.zero

theorem vecAt_of_mem {l : List (Int × F)} (hs : Sorted l) {x : Int} {u : F} (h : (x, u) ∈ l) :
    vecAt l x = u := by
  induction l with
  | nil => cases h
  | cons p l ih =>
    unfold vecAt
    rcases List.mem_cons.1 h with e | h
    · subst e; simp
    · have hlt := hs.head_lt _ h
      have hne : (p.1 == x) = false := by simp at hlt ⊢; omega
      rw [List.find?_cons, hne]
      exact ih hs.tail h

theorem vecAt_of_not_mem {l : List (Int × F)} {x : Int} (h : ∀ u, (x, u) ∉ l) :
    vecAt l x = FloatOps.zero := by
  unfold vecAt
  cases hf : l.find? (fun p => p.1 == x) with
  | none => rfl
  | some p =>
    have h1 : p.1 = x := by simpa using List.find?_some hf
    have h2 := List.mem_of_find?_eq_some hf
    exact absurd (by rw [← h1]; exact h2) (h p.2)

/-- **the meaning of `intersect`**: at every coordinate, the product of the values of the operands, provided
zero annihilates (`0 * v = 0`, `u * 0 = 0`: true of the exact carrier, and of finite floats) -/
theorem vecAt_intersect (l1 l2 : List (Int × F)) (s1 : Sorted l1) (s2 : Sorted l2)
    (hz1 : ∀ v : F, FloatOps.mul FloatOps.zero v = FloatOps.zero)
    (hz2 : ∀ u : F, FloatOps.mul u FloatOps.zero = FloatOps.zero) (x : Int) :
    vecAt (intersect l1 l2) x = FloatOps.mul (vecAt l1 x) (vecAt l2 x) := by
  by_cases h1 : ∃ u, (x, u) ∈ l1
  · obtain ⟨u, hu⟩ := h1
    by_cases h2 : ∃ v, (x, v) ∈ l2
    · obtain ⟨v, hv⟩ := h2
      rw [vecAt_of_mem s1 hu, vecAt_of_mem s2 hv]
      exact vecAt_of_mem (intersect_sorted l1 l2 s1 s2) (mem_intersect_complete l1 l2 s1 s2 x u v hu hv)
    · have h2' : ∀ v, (x, v) ∉ l2 := fun v hv => h2 ⟨v, hv⟩
      rw [vecAt_of_not_mem h2', hz2]
      apply vecAt_of_not_mem
      intro w hw
      obtain ⟨_, v', _, hv', _⟩ := mem_intersect_sound l1 l2 _ hw
      exact h2' v' hv'
  · have h1' : ∀ u, (x, u) ∉ l1 := fun u hu => h1 ⟨u, hu⟩
    rw [vecAt_of_not_mem h1', hz1]
    apply vecAt_of_not_mem
    intro w hw
    obtain ⟨u', _, hu', _, _⟩ := mem_intersect_sound l1 l2 _ hw
    exact h1' u' hu'

/-! ### stored vectors as association lists -/

/-- the association list of a compressed vector with `m` stored entries: coordinates `crd 0 … crd (m-1)`,
values `cells 0 … cells (m-1)` -/
def assoc (m : Nat) (crd : Nat → Int) (cells : Nat → F) : List (Int × F) :=
  (List.range m).map fun q => (crd q, cells q)

@[simp] theorem assoc_length (m : Nat) (crd : Nat → Int) (cells : Nat → F) : (assoc m crd cells).length = m := by
  simp [assoc]

theorem assoc_drop_lt {m : Nat} (crd : Nat → Int) (cells : Nat → F) {p : Nat} (h : p < m) :
    (assoc m crd cells).drop p = (crd p, cells p) :: (assoc m crd cells).drop (p + 1) := by
  rw [List.drop_eq_getElem_cons (by simpa using h)]
  simp [assoc]

theorem assoc_drop_all (m : Nat) (crd : Nat → Int) (cells : Nat → F) : (assoc m crd cells).drop m = [] := by
  rw [List.drop_eq_nil_iff]; simp

theorem assoc_sorted {m : Nat} {crd : Nat → Int} (cells : Nat → F)
    (hs : ∀ j k, j < k → k < m → crd j < crd k) : Sorted (assoc m crd cells) := by
  unfold Sorted assoc
  rw [List.pairwise_map]
  refine List.Pairwise.imp_of_mem ?_ List.pairwise_lt_range
  intro a b _ hb hab
  exact hs a b hab (List.mem_range.1 hb)

theorem mem_assoc {m : Nat} {crd : Nat → Int} {cells : Nat → F} {x : Int} {u : F} :
    (x, u) ∈ assoc m crd cells ↔ ∃ q, q < m ∧ crd q = x ∧ cells q = u := by
  simp [assoc]

/-- **one step of the two-finger intersection on the stored vectors**, in terms of the cursor positions -/
theorem intersect_drop_step {mb mc : Nat} (crdB crdC : Nat → Int) (cellsB cellsC : Nat → F) {p q : Nat}
    (hp : p < mb) (hq : q < mc) :
    intersect ((assoc mb crdB cellsB).drop p) ((assoc mc crdC cellsC).drop q) =
      if crdB p = crdC q then
        (crdB p, FloatOps.mul (cellsB p) (cellsC q)) ::
          intersect ((assoc mb crdB cellsB).drop (p + 1)) ((assoc mc crdC cellsC).drop (q + 1))
      else if crdB p < crdC q then
        intersect ((assoc mb crdB cellsB).drop (p + 1)) ((assoc mc crdC cellsC).drop q)
      else intersect ((assoc mb crdB cellsB).drop p) ((assoc mc crdC cellsC).drop (q + 1)) := by
  rw [assoc_drop_lt crdB cellsB hp, assoc_drop_lt crdC cellsC hq, intersect_cons_cons]

end TV.Spmul
