import TensoraVerif.Lemmas.SpmvKernel
import TensoraVerif.Lemmas.Dense2Exact

/-!
C01 for the CSR matrix–vector product, part 8 (V4): the exact carrier. Over `Rat` the row sum in loop
order over the STORED entries equals the sum over ALL columns `jj < m` of the decoded matrix entry
(`csrAt`: the sum of the stored entries of the row whose column is `jj`) times `c[jj]` — no sortedness
needed; under strictly increasing columns within the row the decoded entry is the unique stored entry
with that column, or `0`.
-/
namespace TV.Spmv
open TV.IR TV.Gen TV.Graph
open TV.Dense1 (ratFloatOps)
open TV.Dense2 (sumRange_succ sumRange_congr)

/-- the sum of the stored entries `p0, …, p0 + k - 1` whose column is `jj` -/
def entrySum (vB : Nat → Rat) (crd : Nat → Nat) (p0 jj : Nat) : Nat → Rat
  | 0 => 0
  | k + 1 => entrySum vB crd p0 jj k + (if crd (p0 + k) = jj then vB (p0 + k) else 0)

/-- **the decoded matrix**: entry `(ii, jj)` of the matrix that the CSR arrays represent — the sum of
the stored entries of row `ii` with column `jj` (a single entry, or `0`, when the columns of the row
are strictly increasing: `csrAt_sorted`) -/
def csrAt (vB : Nat → Rat) (pos crd : Nat → Nat) (ii jj : Nat) : Rat :=
  entrySum vB crd (pos ii) jj (pos (ii + 1) - pos ii)

theorem sumRange_zero (m : Nat) : Alg.sumRange m (fun _ => 0) = 0 := by
  induction m with
  | zero => rfl
  | succ m ih => rw [sumRange_succ, ih]; exact Rat.add_zero _

theorem sumRange_add (m : Nat) (f g : Nat → Rat) :
    Alg.sumRange m (fun v => f v + g v) = Alg.sumRange m f + Alg.sumRange m g := by
  induction m with
  | zero => exact (Rat.add_zero _).symm
  | succ m ih =>
    rw [sumRange_succ, sumRange_succ, sumRange_succ, ih]
    grind

/-- a sum with a single non-zero term -/
theorem sumRange_single (m c : Nat) (hc : c < m) (a : Rat) (g : Nat → Rat) :
    Alg.sumRange m (fun jj => (if c = jj then a else 0) * g jj) = a * g c := by
  induction m with
  | zero => omega
  | succ m ih =>
    rw [sumRange_succ]
    by_cases hcm : c = m
    · subst hcm
      have h0 : Alg.sumRange c (fun jj => (if c = jj then a else 0) * g jj) = 0 := by
        rw [sumRange_congr c _ (fun _ => 0) (fun v hv => by
          have : c ≠ v := by omega
          simp [this, Rat.zero_mul])]
        exact sumRange_zero c
      rw [h0]
      simp [Rat.zero_add]
    · rw [ih (by omega)]
      simp [hcm, Rat.zero_mul, Rat.add_zero]

/-- **over the exact carrier the sum in loop order over the stored entries is the sum over all
columns of the decoded entries** -/
theorem accF_rat (vB vC : Nat → Rat) (crd : Nat → Nat) (m p0 : Nat) :
    ∀ k, (∀ t, t < k → crd (p0 + t) < m) →
      accF (F := Rat) vB vC crd p0 k = Alg.sumRange m (fun jj => entrySum vB crd p0 jj k * vC jj) := by
  intro k
  induction k with
  | zero =>
    intro _
    have : (fun jj => entrySum vB crd p0 jj 0 * vC jj) = fun _ => (0 : Rat) := by
      funext jj; simp [entrySum, Rat.zero_mul]
    rw [this, sumRange_zero]
    rfl
  | succ k ih =>
    intro h
    have hstep : accF (F := Rat) vB vC crd p0 (k + 1) =
        accF (F := Rat) vB vC crd p0 k + vB (p0 + k) * vC (crd (p0 + k)) := rfl
    rw [hstep, ih (fun t ht => h t (by omega))]
    have hf : (fun jj => entrySum vB crd p0 jj (k + 1) * vC jj) =
        fun jj => entrySum vB crd p0 jj k * vC jj +
          (if crd (p0 + k) = jj then vB (p0 + k) else 0) * vC jj := by
      funext jj
      simp only [entrySum]
      exact Rat.add_mul _ _ _
    rw [hf, sumRange_add, sumRange_single m (crd (p0 + k)) (h k (by omega))]

/-- a column that is not stored in the segment decodes to `0` -/
theorem entrySum_absent (vB : Nat → Rat) (crd : Nat → Nat) (p0 jj : Nat) :
    ∀ k, (∀ t, t < k → crd (p0 + t) ≠ jj) → entrySum vB crd p0 jj k = 0 := by
  intro k
  induction k with
  | zero => intro _; rfl
  | succ k ih =>
    intro h
    simp only [entrySum]
    rw [ih (fun t ht => h t (by omega)), if_neg (h k (by omega))]
    exact Rat.add_zero _

/-- with strictly increasing columns, a stored column decodes to its unique stored entry -/
theorem entrySum_sorted (vB : Nat → Rat) (crd : Nat → Nat) (p0 : Nat) :
    ∀ k, (∀ a b, a < b → b < k → crd (p0 + a) < crd (p0 + b)) →
      ∀ t, t < k → entrySum vB crd p0 (crd (p0 + t)) k = vB (p0 + t) := by
  intro k
  induction k with
  | zero => intro _ t ht; omega
  | succ k ih =>
    intro hs t ht
    simp only [entrySum]
    by_cases htk : t = k
    · subst htk
      rw [entrySum_absent vB crd p0 _ t (fun a ha => by have := hs a t ha (by omega); omega)]
      simp [Rat.zero_add]
    · have hlt := hs t k (by omega) (by omega)
      rw [ih (fun a b hab hb => hs a b hab (by omega)) t (by omega),
        if_neg (by omega)]
      exact Rat.add_zero _

/-- **the decoded matrix under strict sortedness within the row**: the entry at a stored column is
that stored value; every other entry is `0` -/
theorem csrAt_sorted (vB : Nat → Rat) (pos crd : Nat → Nat) (ii : Nat)
    (hle : pos ii ≤ pos (ii + 1))
    (hs : ∀ p q, pos ii ≤ p → p < q → q < pos (ii + 1) → crd p < crd q) :
    (∀ p, pos ii ≤ p → p < pos (ii + 1) → csrAt vB pos crd ii (crd p) = vB p) ∧
    (∀ jj, (∀ p, pos ii ≤ p → p < pos (ii + 1) → crd p ≠ jj) → csrAt vB pos crd ii jj = 0) := by
  constructor
  · intro p h1 h2
    have := entrySum_sorted vB crd (pos ii) (pos (ii + 1) - pos ii)
      (fun a b hab hb => hs _ _ (by omega) (by omega) (by omega)) (p - pos ii) (by omega)
    rw [show pos ii + (p - pos ii) = p by omega] at this
    exact this
  · intro jj h
    exact entrySum_absent vB crd (pos ii) jj _ (fun t ht => h _ (by omega) (by omega))

/-- over the exact carrier row `ii` of the product is `Σ_{jj < m} B[ii,jj] * c[jj]` with `B` the
decoded matrix -/
theorem rowDotF_rat {n m nnz : Nat} {pos crd : Nat → Nat} (hcsr : Csr n m nnz pos crd)
    (vB vC : Nat → Rat) (ii : Nat) (hii : ii < n) :
    rowDotF (F := Rat) vB vC pos crd ii =
      Alg.sumRange m (fun jj => csrAt vB pos crd ii jj * vC jj) := by
  unfold rowDotF csrAt
  apply accF_rat
  intro t ht
  have h2 := hcsr.pos_le_nnz (a := ii + 1) (by omega)
  exact hcsr.crdLt _ (by omega)

/-- over the exact carrier nothing can be non-finite -/
theorem stepFinite_rat (vB vC : Nat → Rat) (crd : Nat → Nat) (p0 k : Nat) :
    stepFinite (F := Rat) vB vC crd p0 k = true := rfl

/-- on a carrier where every value is finite, every check passes -/
theorem stepFinite_of_total {F : Type} [FloatOps F] (h : ∀ x : F, FloatOps.finite x = true)
    (vB vC : Nat → F) (crd : Nat → Nat) (p0 k : Nat) : stepFinite vB vC crd p0 k = true := by
  simp only [stepFinite, h, Bool.and_self]

end TV.Spmv
