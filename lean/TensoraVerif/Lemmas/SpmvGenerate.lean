import TensoraVerif.Lemmas.SpmvLower
import TensoraVerif.Lemmas.Dense2Generate

/-!
C01 for the CSR matrix–vector product, part 3 (V1): what `generateIr` produces — the whole `evaluate`
function, written out (`kernel`, `generateIr_eq`).
-/
namespace TV.Spmv
open TV.IR TV.Gen TV.Graph
open TV.Dense2 (isI isJ isI_iff isJ_iff)
variable {F : Type}

/-- the format table: `a: d`, `B: ds` (CSR), `c: d`, identity orderings -/
def spFormats (an Bn cn : String) : Formats :=
  [(an, [.dense], [0]), (Bn, [.dense, .compressed], [0, 1]), (cn, [.dense], [0])]

/-- "Unpack tensors": `double* a_vals = a->vals; int* B_1_pos = B->indices[1][0];
int* B_1_crd = B->indices[1][1]; double* B_vals = B->vals; double* c_vals = c->vals;` -/
def unpackLines (an Bn cn : String) : List (Stmt F) :=
  [declAssignE (valsName an) (.ptr .float) (.attr (.var an) "vals"),
   declAssignE (posName Bn 1) (.ptr .int) (.idx (.idx (.attr (.var Bn) "indices") (.intLit 1)) (.intLit 0)),
   declAssignE (crdName Bn 1) (.ptr .int) (.idx (.idx (.attr (.var Bn) "indices") (.intLit 1)) (.intLit 1)),
   declAssignE (valsName Bn) (.ptr .float) (.attr (.var Bn) "vals"),
   declAssignE (valsName cn) (.ptr .float) (.attr (.var cn) "vals")]

/-- the statements of the `evaluate` kernel, before `return 0` -/
def kernelStmts (ofRat : Rat → F) (i j : String) (outT tB tC : TensorId) : List (Stmt F) :=
  [.block [declAssignE (dimName i) .int (.idx (.attr (.var outT.name) "dimensions") (.intLit 0)),
           declAssignE (dimName j) .int (.idx (.attr (.var tB.name) "dimensions") (.intLit 1))]
      (some "Extract dimensions"),
   .block (unpackLines outT.name tB.name tC.name) (some "Unpack tensors"),
   .block [declAssignE (valsCapName outT.name) .int
        (.bin .mul (.intLit 1) (.idx (.attr (.var outT.name) "dimensions") (.intLit 0))),
      .assign (.var (valsName outT.name)) (.alloc .float (.var (valsCapName outT.name)))]
      (some "Output initialization"),
   .block (loopLines ofRat i j outT tB tC) (some ("*** Iteration over " ++ i ++ " ***")),
   .block [.assign (.attr (.var outT.name) "vals") (.var (valsName outT.name))]
      (some ("Assembling output tensor " ++ outT.name))]

/-- the `evaluate` kernel of the CSR matrix–vector product -/
def kernel (ofRat : Rat → F) (i j : String) (outT tB tC : TensorId) : Func F :=
  ⟨"evaluate", [(outT.name, .ptr .tensor), (tB.name, .ptr .tensor), (tC.name, .ptr .tensor)], .int,
    .block (kernelStmts ofRat i j outT tB tC ++ [.ret (.intLit 0)]) none⟩

/-- **What `generateIr` produces.** -/
theorem generateIr_eq (ofRat : Rat → F) (cap : Option Int) (a : Alg.DAssign)
    (i j : String) (hij : i ≠ j) (outT tB tC : TensorId)
    (hout : tensorId 0 a.tname (spFormats outT.name tB.name tC.name) a.tidx = some outT)
    (hname : outT.name = a.tname)
    (ho : isI i outT = true) (hB : isCsr i j tB = true) (hC : isJ j tC = true)
    (hd : indexDimensions a = [(i, a.tname, 0), (j, tB.name, 1)]) :
    generateIr ofRat cap a (spFormats outT.name tB.name tC.name) (graph i j outT tB tC) .evaluate =
      .ok (kernel ofRat i j outT tB tC) := by
  have ho' := (isI_iff i outT).1 ho
  have hsz : 4 * (graph i j outT tB tC).size + 8 = 17 + 3 := by simp [graph, IGraph.size]
  unfold generateIr
  simp only [hout, Option.getD_some, hsz, lower_eq ofRat 17 i j hij outT tB tC ho hB hC, hd,
    Dense1.appendDeclarations_eq1 cap outT ho'.2 (by rw [ho'.1]; rfl),
    Dense1.appendCleanup_eq1 outT ho'.2]
  simp [bind, Except.bind, pure, Except.pure, kernel, kernelStmts, unpackLines, spFormats, SB.add,
    SB.append, SB.empty, SB.finalize, Kind.name, hname, List.range, List.range.loop]

/-- the output tensor `generateIr` computes from the format table -/
theorem tensorId_out (an Bn cn i : String) :
    tensorId 0 an (spFormats an Bn cn) [i] = some ⟨"0_" ++ an, an, [i], [.dense]⟩ := by
  simp [tensorId, spFormats]
  rfl

end TV.Spmv
