import TensoraVerif.Lemmas.SpmvSpec
import TensoraVerif.Lemmas.SpmvLower

/-!
C01 for the CSR matrix–vector product, part 5: the inner block on the machine — the bucket
initialisation (`bucketInit_runs`), the row segment read from `B_1_pos` (`sparseInit_runs`), one
iteration of the merge loop over the stored entries of the row (`innerIter_runs`), the loop by induction
on the remaining entries (`innerLoop_runs`), and the whole block (`innerLines_runs`).
-/
namespace TV.Spmv
open TV.IR TV.Gen TV.Graph TV.Growth TV.Merge
open TV.ToIr hiding leaves valueF allFinite evalE_fadd evalE_fmul
open TV.Dense1 (RunsI RunsLI ptrDecl)
open TV.Dense2 (bN bL reqTy Frame OutIs isI isJ isI_iff isJ_iff bucketInitLines bucketZeroBody accStmt
  ptrAt_congr runs_assign_cell_int writeCell_out evalE_ptr_add)
set_option linter.unusedSectionVars false
variable {F : Type} [FloatOps F]

/-! ### CSR arithmetic -/

theorem Csr.pos_le {n m nnz : Nat} {pos crd : Nat → Nat} (h : Csr n m nnz pos crd) :
    ∀ (d a : Nat), a + d ≤ n → pos a ≤ pos (a + d) := by
  intro d
  induction d with
  | zero => intro a _; exact Nat.le_refl _
  | succ d ih =>
    intro a ha
    have h1 := ih a (by omega)
    have h2 := h.mono (a + d) (by omega)
    rw [show a + (d + 1) = a + d + 1 by omega]
    omega

theorem Csr.pos_le_nnz {n m nnz : Nat} {pos crd : Nat → Nat} (h : Csr n m nnz pos crd) {a : Nat}
    (ha : a ≤ n) : pos a ≤ nnz := by
  have := h.pos_le (n - a) a (by omega)
  rw [show a + (n - a) = n by omega, h.posn] at this
  exact this

/-! ### the emitted fragments, written out -/

theorem sparseInit_lines (tB : TensorId) :
    ((writeSparseInit (bLeaf tB)).lines : List (Stmt F)) =
      [declAssignE (layerPointer tB.id 1) .int
         (.idx (.var (posName tB.name 1)) (.var (layerPointer tB.id 0))),
       declAssignE (sparseEndName tB.id 1) .int
         (.idx (.var (posName tB.name 1)) (plus (.var (layerPointer tB.id 0)) (.intLit 1)))] := by
  simp [writeSparseInit, bLeaf, Leaf.prevPtr, Leaf.ptr, prevLayerPointer, SB.add, SB.empty]

/-- the statements of one iteration of the inner loop -/
def innerBody (ofRat : Rat → F) (j : String) (outT tB tC : TensorId) : List (Stmt F) :=
  [declAssignE (valueFromCrd tB.id 1) .int (.idx (.var (crdName tB.name 1)) (.var (layerPointer tB.id 1))),
   declAssignE j .int (.var (valueFromCrd tB.id 1)),
   ptrDecl j tC,
   .branch (.bin .and (.boolLit true) (.bin .eq (.var (valueFromCrd tB.id 1)) (.var j)))
      (.block [.block [accStmt ofRat outT (spE tB tC)] (some "*** Computation of expression ***")] none)
      (.block [] none),
   increment (.var (layerPointer tB.id 1)) (.b2i (.bin .eq (.var (valueFromCrd tB.id 1)) (.var j)))]

/-- the loop test `true && p_<B>_1 < p_<B>_1_end` -/
def innerCond (tB : TensorId) : Expr F :=
  .bin .and (.boolLit true) (.bin .lt (.var (layerPointer tB.id 1)) (.var (sparseEndName tB.id 1)))

theorem innerLoop_eq (ofRat : Rat → F) (j : String) (outT tB tC : TensorId) :
    innerLoop ofRat j outT tB tC = .loop (innerCond tB) (.block (innerBody ofRat j outT tB tC) none) := by
  simp [innerLoop, mergeLoopL, mergeCond, mergeBodyL, mergeLoads, mergeMin, mergeIncs, minJoin, andJoin,
    joinWith, bLeaf, Leaf.ptr, innerCond, innerBody, midLines]

section
variable {i j : String} {outT tB tC : TensorId} {n m nnz ob pb cb vb xb : Nat}
  {pos crd : Nat → Nat} {vB vC : Nat → F}

/-! ### the bucket initialisation -/

/-- **"Bucket initialization"**: `double* bucket = a_vals + p_<a>_0 * 1; int i_bucket = 0;
while (i_bucket < 1) { bucket[i_bucket] = 0; i_bucket++; }` — the bucket points to cell `ii` of the
output block, that cell holds `FloatOps.ofInt 0`, one loop iteration. -/
theorem bucketInit_runs {σ : State F} (hN : (allNames i j outT tB tC).Nodup)
    (henv : Env i j outT tB tC n m nnz ob pb cb vb xb pos crd vB vC σ)
    {cells : List (Option (Val F))} (hout : OutIs σ ob cells) (ii : Nat)
    (hp : IntVar σ (layerPointer outT.id 0) ii) (hii : ii < cells.length) (hI : (ii : Int) < 2147483648)
    (fuel : Nat) (hfuel : 2 ≤ fuel) :
    ∃ σ', RunsLI fuel (bucketInitLines outT) σ σ' 1 ∧
      Env i j outT tB tC n m nnz ob pb cb vb xb pos crd vB vC σ' ∧
      Frame (innerW j outT tB tC) ob σ σ' ∧
      OutIs σ' ob (cells.set ii (some (.flt (FloatOps.ofInt 0)))) ∧
      PtrAt σ' (bN outT) ob ii := by
  obtain ⟨fuel', rfl⟩ := Nat.exists_eq_add_of_le hfuel
  have hW := innerW_sub i j outT tB tC
  have hbN : bN outT ∈ innerW j outT tB tC := by simp [innerW]
  have hbL : bL outT ∈ innerW j outT tB tC := by simp [innerW]
  have hLN : bL outT ≠ bN outT := by spnm hN
  -- double* bucket = out_vals + p * 1
  have e1 : evalE σ (plus (.var (valsName outT.name)) (times (.var (layerPointer outT.id 0)) (.intLit 1))) =
      .ok (.ptr ob (0 + (ii : Int) * 1)) :=
    evalE_ptr_add (evalE_var_ptr henv.out)
      (evalE_mul (evalE_var_int hp (by omega) hI) (evalE_intLit (by omega) (by omega)) (by omega) (by omega))
  obtain ⟨σ1, r1, hh1, henv1, hf1, ⟨rb, hb1, hb2, hb3⟩, ho1⟩ := declStep hN henv (2 + fuel')
    (innerW j outT tB tC) (hW _ hbN) (Dense2.reqTy_bN outT) hbN
    e1 (val' := .ptr ob (0 + (ii : Int) * 1)) rfl
  have hk : (0 + (ii : Int) * 1) = (ii : Int) := by omega
  rw [hk] at hb3
  have hbkt1 : PtrAt σ1 (bN outT) ob ii := ⟨rb, .float, hb1, hb2, hb3⟩
  -- int i_bucket = 0
  obtain ⟨σ2, r2, hh2, henv2, hf2, hl2, ho2⟩ := declStep hN henv1 (2 + fuel')
    (innerW j outT tB tC) (hW _ hbL) (reqTy_int hLN)
    hbL (evalE_intLit (σ := σ1) (v := 0) (by omega) (by omega))
    (val' := .int 0) rfl
  have hl2 : IntVar σ2 (bL outT) 0 := hl2
  have hbkt2 : PtrAt σ2 (bN outT) ob ii := ptrAt_congr hbkt1 (ho2 _ (Ne.symm hLN))
  have hout2 : OutIs σ2 ob cells := hout.congr (hh2.trans hh1)
  -- the loop: one iteration
  have ec2 := Dense1.evalE_lt (evalE_var_int hl2 (by omega) (by omega))
    (evalE_intLit (σ := σ2) (v := 1) (by omega) (by omega))
  have hd2 : decide ((0 : Int) < 1) = true := by decide
  rw [hd2] at ec2
  have hcell : OutCell σ2 ob ((ii : Int) + 0) := hout2.outCell (by omega) (by omega)
  have hst := runs_assign_cell_int (fuel := 1 + fuel') (evalE_var_ptrAt hbkt2)
    (evalE_var_int hl2 (by omega) (by omega)) (evalE_intLit (σ := σ2) (v := 0) (by omega) (by omega)) hcell
  have hk2 : ((ii : Int) + 0) = ((ii : Nat) : Int) := by omega
  rw [hk2] at hst
  obtain ⟨hout3, hf3, hv3⟩ := writeCell_out hout2 ii (.flt (FloatOps.ofInt 0)) (innerW j outT tB tC)
  have henv3 := henv2.writeCell hN hout2 ii (.flt (FloatOps.ofInt 0))
  have hl3 : IntVar (writeCell σ2 ob ii (.flt (FloatOps.ofInt 0))) (bL outT) 0 :=
    hl2.congr (by rw [hv3])
  -- i_bucket = i_bucket + 1
  obtain ⟨σ4, r4, hh4, henv4, hf4, hl4, ho4⟩ := assignIntStep hN henv3 (1 + fuel')
    (innerW j outT tB tC) (hW _ hbL) hbL hl3
    (evalE_add (evalE_var_int hl3 (by omega) (by omega)) (evalE_intLit (v := 1) (by omega) (by omega))
      (by omega) (by omega))
  have ec4 := Dense1.evalE_lt (evalE_var_int hl4 (by omega) (by omega))
    (evalE_intLit (σ := σ4) (v := 1) (by omega) (by omega))
  have hd4 : decide ((0 : Int) + 1 < 1) = false := by decide
  rw [hd4] at ec4
  have rbody : RunsLI (1 + fuel') (bucketZeroBody outT) σ2 σ4 0 :=
    Dense1.RunsLI.cons (Dense1.RunsI.of_assign hst) (Dense1.RunsLI.cons r4 (Dense1.RunsLI.nil _ _))
  have rloop : RunsI (1 + fuel' + 1) (.loop (.bin .lt (.var (bL outT)) (.intLit 1))
      (.block (bucketZeroBody outT) none)) σ2 σ4 (0 + 0 + 1) :=
    Dense1.RunsI.loop_true ec2 (Dense1.RunsI.block rbody)
      (by rw [show 1 + fuel' = fuel' + 1 by omega]; exact Dense1.RunsI.loop_false ec4)
  rw [show 1 + fuel' + 1 = 2 + fuel' by omega] at rloop
  refine ⟨σ4, ?_, henv4, hf1.trans (hf2.trans (hf3.trans hf4)), hout3.congr hh4, ?_⟩
  · exact Dense1.RunsLI.cons r1 (Dense1.RunsLI.cons r2 (Dense1.RunsLI.cons rloop (Dense1.RunsLI.nil _ _)))
  · refine ptrAt_congr (ptrAt_congr hbkt2 (by rw [hv3])) (ho4 _ (Ne.symm hLN))

/-! ### the row segment -/

/-- `int p_<B>_1 = B_1_pos[p_<B>_0]; int p_<B>_1_end = B_1_pos[p_<B>_0 + 1];` at row `ii`: the cursor
holds `pos ii`, the end `pos (ii + 1)` -/
theorem sparseInit_runs {σ : State F} (hN : (allNames i j outT tB tC).Nodup)
    (hcsr : Csr n m nnz pos crd) (hnnz : (nnz : Int) < 2147483648)
    (henv : Env i j outT tB tC n m nnz ob pb cb vb xb pos crd vB vC σ)
    (ii : Nat) (hii : ii < n) (hI : (ii : Int) + 1 < 2147483648)
    (hp : IntVar σ (layerPointer tB.id 0) ii) (fuel : Nat) :
    ∃ σ', RunsLI fuel ((writeSparseInit (bLeaf tB)).lines) σ σ' 0 ∧ σ'.heap = σ.heap ∧
      Env i j outT tB tC n m nnz ob pb cb vb xb pos crd vB vC σ' ∧
      Frame (innerW j outT tB tC) ob σ σ' ∧
      IntVar σ' (layerPointer tB.id 1) (pos ii) ∧ IntVar σ' (sparseEndName tB.id 1) (pos (ii + 1)) ∧
      (∀ y, y ≠ layerPointer tB.id 1 → y ≠ sparseEndName tB.id 1 →
        lookupVar σ'.vars y = lookupVar σ.vars y) := by
  have hW := innerW_sub i j outT tB tC
  have hx1 : layerPointer tB.id 1 ∈ innerW j outT tB tC := by simp [innerW]
  have hx2 : sparseEndName tB.id 1 ∈ innerW j outT tB tC := by simp [innerW]
  have hle1 := hcsr.pos_le_nnz (a := ii) (by omega)
  have hle2 := hcsr.pos_le_nnz (a := ii + 1) (by omega)
  obtain ⟨blk, b1, b2, b3, b4⟩ := henv.posBlk
  have ev1 : evalE σ (.idx (.var (posName tB.name 1)) (.var (layerPointer tB.id 0))) =
      .ok (.int (pos ii)) :=
    evalE_posLoad henv.posv (evalE_var_int hp (by omega) (by omega)) (by omega)
      ⟨blk, b1, b2, b3, by simpa using b4 ii (by omega)⟩ (by omega) (by omega)
  obtain ⟨σ1, r1, hh1, henv1, hf1, hl1, ho1⟩ := declStep hN henv fuel (innerW j outT tB tC)
    (hW _ hx1) (reqTy_int (by spnm hN)) hx1 ev1 (val' := .int (pos ii)) rfl
  have hp1 : IntVar σ1 (layerPointer tB.id 0) ii := hp.congr (ho1 _ (by spnm hN))
  obtain ⟨blk', c1, c2, c3, c4⟩ := henv1.posBlk
  have eidx := evalE_add (evalE_var_int hp1 (by omega) (by omega))
    (evalE_intLit (σ := σ1) (v := 1) (by omega) (by omega)) (by omega) (by omega)
  have htn : ((ii : Int) + 1).toNat = ii + 1 := by omega
  have ev2 : evalE σ1 (.idx (.var (posName tB.name 1)) (plus (.var (layerPointer tB.id 0)) (.intLit 1))) =
      .ok (.int (pos (ii + 1))) :=
    evalE_posLoad henv1.posv eidx (by omega)
      ⟨blk', c1, c2, c3, by rw [htn]; exact c4 (ii + 1) (by omega)⟩ (by omega) (by omega)
  obtain ⟨σ2, r2, hh2, henv2, hf2, hl2, ho2⟩ := declStep hN henv1 fuel (innerW j outT tB tC)
    (hW _ hx2) (reqTy_int (by spnm hN)) hx2 ev2 (val' := .int (pos (ii + 1))) rfl
  refine ⟨σ2, ?_, hh2.trans hh1, henv2, hf1.trans hf2, ?_, hl2, ?_⟩
  · rw [sparseInit_lines]
    exact Dense1.RunsLI.cons r1 (Dense1.RunsLI.cons r2 (Dense1.RunsLI.nil _ _))
  · have h1 : IntVar σ1 (layerPointer tB.id 1) (pos ii) := hl1
    exact h1.congr (ho2 _ (by spnm hN))
  · intro y y1 y2
    rw [ho2 y y2, ho1 y y1]

/-! ### one iteration of the inner loop -/

/-- **the invariant of the inner loop** of row `ii` (segment `[p0, e)`) after `k` stored entries: the
environment; cell `ii` of the output block holds the running sum `accF … p0 k`, the other cells are
those of `cells`; the bucket points to cell `ii`; the row cursor holds `p0 + k`, the end `e` -/
structure InnerInv (i j : String) (outT tB tC : TensorId) (n m nnz ob pb cb vb xb : Nat)
    (pos crd : Nat → Nat) (vB vC : Nat → F) (ii : Nat) (cells : List (Option (Val F)))
    (p0 e k : Nat) (σ : State F) : Prop where
  env : Env i j outT tB tC n m nnz ob pb cb vb xb pos crd vB vC σ
  out : OutIs σ ob (cells.set ii (some (.flt (accF vB vC crd p0 k))))
  bkt : PtrAt σ (bN outT) ob ii
  cur : IntVar σ (layerPointer tB.id 1) ((p0 + k : Nat) : Int)
  fin : IntVar σ (sparseEndName tB.id 1) e

theorem evalE_eqInt {σ : State F} {l r : Expr F} {x y : Int} (hl : evalE σ l = .ok (.int x))
    (hr : evalE σ r = .ok (.int y)) :
    evalE σ (.bin .eq l r) = .ok (.bool (x == y)) := Merge.evalE_eqInt hl hr

theorem innerIter_runs (fuel : Nat) (ofRat : Rat → F) (hN : (allNames i j outT tB tC).Nodup)
    (hB : isCsr i j tB = true) (hC : isJ j tC = true)
    (hnnz : (nnz : Int) < 2147483648) (hm : (m : Int) < 2147483648)
    (hcrd : ∀ p, p < nnz → crd p < m)
    {ii : Nat} {cells : List (Option (Val F))} (hlen : ii < cells.length)
    {p0 e k : Nat} (hk : p0 + k < e) (he : e ≤ nnz) {σ : State F}
    (hinv : InnerInv i j outT tB tC n m nnz ob pb cb vb xb pos crd vB vC ii cells p0 e k σ)
    (hfin : stepFinite vB vC crd p0 k = true) :
    ∃ σ', RunsLI fuel (innerBody ofRat j outT tB tC) σ σ' 0 ∧
      InnerInv i j outT tB tC n m nnz ob pb cb vb xb pos crd vB vC ii cells p0 e (k + 1) σ' ∧
      Frame (innerW j outT tB tC) ob σ σ' := by
  obtain ⟨henv, hout, hbkt, hcur, hend⟩ := hinv
  simp only [stepFinite, Bool.and_eq_true] at hfin
  obtain ⟨⟨⟨⟨hfB, hfC⟩, hfT⟩, hfw⟩, hfw'⟩ := hfin
  have hB' := (isCsr_iff i j tB).1 hB
  have hC' := (isJ_iff j tC).1 hC
  have hW := innerW_sub i j outT tB tC
  have hq : p0 + k < nnz := by omega
  have hcq := hcrd (p0 + k) hq
  have hxv : valueFromCrd tB.id 1 ∈ innerW j outT tB tC := by simp [innerW]
  have hxj : j ∈ innerW j outT tB tC := by simp [innerW]
  have hxc : layerPointer tC.id 0 ∈ innerW j outT tB tC := by simp [innerW]
  have hxp : layerPointer tB.id 1 ∈ innerW j outT tB tC := by simp [innerW]
  -- int i_B_1 = B_1_crd[p_B_1]
  obtain ⟨cblk, c1, c2, c3, _, c5⟩ := henv.crdBlk
  have ev1 : evalE σ (.idx (.var (crdName tB.name 1)) (.var (layerPointer tB.id 1))) =
      .ok (.int (crd (p0 + k))) :=
    evalE_posLoad henv.crdv (evalE_var_int hcur (by omega) (by omega)) (by omega)
      ⟨cblk, c1, c2, c3, by
        rw [show (((p0 + k : Nat) : Int)).toNat = p0 + k by omega]; exact c5 (p0 + k) hq⟩
      (by omega) (by omega)
  obtain ⟨σ1, r1, hh1, henv1, hf1, hl1, ho1⟩ := declStep hN henv fuel (innerW j outT tB tC)
    (hW _ hxv) (reqTy_int (by spnm hN)) hxv ev1 (val' := .int (crd (p0 + k))) rfl
  have hv1 : IntVar σ1 (valueFromCrd tB.id 1) (crd (p0 + k)) := hl1
  -- int j = i_B_1
  obtain ⟨σ2, r2, hh2, henv2, hf2, hl2, ho2⟩ := declStep hN henv1 fuel (innerW j outT tB tC)
    (hW _ hxj) (reqTy_int (by spnm hN)) hxj (evalE_var_int hv1 (by omega) (by omega))
    (val' := .int (crd (p0 + k))) rfl
  have hj2 : IntVar σ2 j (crd (p0 + k)) := hl2
  have hv2 : IntVar σ2 (valueFromCrd tB.id 1) (crd (p0 + k)) := hv1.congr (ho2 _ (by spnm hN))
  -- int p_c_0 = 0 * j_dim + j
  have ev3 : evalE σ2 (plus (times (.intLit 0) (.var (dimName j))) (.var j)) =
      .ok (.int (0 * (m : Int) + crd (p0 + k))) :=
    evalE_add (evalE_mul (evalE_intLit (by omega) (by omega))
      (evalE_var_int henv2.dimJ (by omega) hm) (by omega) (by omega))
      (evalE_var_int hj2 (by omega) (by omega)) (by omega) (by omega)
  obtain ⟨σ3, r3, hh3, henv3, hf3, hl3, ho3⟩ := declStep hN henv2 fuel (innerW j outT tB tC)
    (hW _ hxc) (reqTy_int (by spnm hN)) hxc ev3 (val' := .int (0 * (m : Int) + crd (p0 + k))) rfl
  have hpc3 : IntVar σ3 (layerPointer tC.id 0) (crd (p0 + k)) := by
    obtain ⟨r, h1', h2', h3'⟩ := hl3
    refine ⟨r, h1', h2', ?_⟩
    rw [h3']; congr 2; omega
  have hj3 : IntVar σ3 j (crd (p0 + k)) := hj2.congr (ho3 _ (by spnm hN))
  have hv3 : IntVar σ3 (valueFromCrd tB.id 1) (crd (p0 + k)) := hv2.congr (ho3 _ (by spnm hN))
  have h13 : ∀ y, y ≠ valueFromCrd tB.id 1 → y ≠ j → y ≠ layerPointer tC.id 0 →
      lookupVar σ3.vars y = lookupVar σ.vars y := by
    intro y y1 y2 y3
    rw [ho3 y y3, ho2 y y2, ho1 y y1]
  have hcur3 : IntVar σ3 (layerPointer tB.id 1) ((p0 + k : Nat) : Int) :=
    hcur.congr (h13 _ (by spnm hN) (by spnm hN) (by spnm hN))
  have hbkt3 : PtrAt σ3 (bN outT) ob ii :=
    ptrAt_congr hbkt (h13 _ (by spnm hN) (by spnm hN) (by spnm hN))
  have hheap3 : σ3.heap = σ.heap := by rw [hh3, hh2, hh1]
  have hout3 : OutIs σ3 ob (cells.set ii (some (.flt (accF vB vC crd p0 k)))) := hout.congr hheap3
  -- the condition
  have econd : evalE σ3 (.bin .and (.boolLit true)
      (.bin .eq (.var (valueFromCrd tB.id 1)) (.var j))) = .ok (.bool true) := by
    have := evalE_and (σ := σ3) (l := .boolLit true) (a := true) (by simp [evalE])
      (evalE_eqInt (evalE_var_int hv3 (by omega) (by omega)) (evalE_var_int hj3 (by omega) (by omega)))
    simpa using this
  -- the right-hand side
  obtain ⟨bblk, b1, b2, b3, b4⟩ := henv3.bBlk
  obtain ⟨xblk, x1, x2, x3, x4⟩ := henv3.cBlk
  have eB : evalE σ3 (.idx (.var (valsName tB.name)) (.var (layerPointer tB.id 1))) =
      .ok (.flt (vB (p0 + k))) :=
    Dense1.evalE_load henv3.bvals hcur3 (by omega) b1 b2 b3 (b4 (p0 + k) hq) hfB
  have eC : evalE σ3 (.idx (.var (valsName tC.name)) (.var (layerPointer tC.id 0))) =
      .ok (.flt (vC (crd (p0 + k)))) :=
    Dense1.evalE_load henv3.cvals hpc3 (by omega) x1 x2 x3 (x4 (crd (p0 + k)) hcq) hfC
  have erhs : evalE σ3 (toIrWith ofRat (spE tB tC)) = .ok (.flt (termF vB vC crd (p0 + k))) := by
    have h2 : tB.indexes.length = 2 := by rw [hB'.1]; rfl
    have h1 : tC.indexes.length = 1 := by rw [hC'.1]; rfl
    simp only [spE, toIrWith, h2, h1, prevLayerPointer]
    exact Dense1.evalE_fmul eB eC hfT
  -- bucket[0] = bucket[0] + rhs
  have hcell : OutCell σ3 ob ((ii : Int) + 0) := hout3.outCell (by omega) (by simp; omega)
  have hk0 : ((ii : Int) + 0) = ((ii : Nat) : Int) := by omega
  have hold : FloatCell σ3 ob ((ii : Int) + 0) (accF vB vC crd p0 k) := by
    rw [hk0]; exact hout3.floatCell (by simp [hlen])
  have hst := Runs.increment_cell (fuel := fuel) (rhs := toIrWith ofRat (spE tB tC))
    (evalE_var_ptrAt hbkt3) (evalE_intLit (σ := σ3) (v := 0) (by omega) (by omega)) erhs hcell hold hfw hfw'
  rw [hk0] at hst
  obtain ⟨hout4, hf4, hvars4⟩ := writeCell_out hout3 ii
    (.flt (FloatOps.add (accF vB vC crd p0 k) (termF vB vC crd (p0 + k)))) (innerW j outT tB tC)
  have henv4 := henv3.writeCell hN hout3 ii
    (.flt (FloatOps.add (accF vB vC crd p0 k) (termF vB vC crd (p0 + k))))
  rw [List.set_set] at hout4
  have r4 : RunsI fuel (.branch (.bin .and (.boolLit true)
        (.bin .eq (.var (valueFromCrd tB.id 1)) (.var j)))
      (.block [.block [accStmt ofRat outT (spE tB tC)] (some "*** Computation of expression ***")] none)
      (.block [] none)) σ3 _ 0 :=
    Dense1.RunsI.branch_true econd
      (Dense1.RunsI.block (Dense1.RunsLI.cons (Dense1.RunsI.block (Dense1.RunsLI.cons
        (Dense1.RunsI.of_assign hst) (Dense1.RunsLI.nil _ _))) (Dense1.RunsLI.nil _ _)))
  -- p_B_1 = p_B_1 + (int)(i_B_1 == j)
  generalize hσ4 : writeCell σ3 ob ii
    (.flt (FloatOps.add (accF vB vC crd p0 k) (termF vB vC crd (p0 + k)))) = σ4 at *
  have hl4 : ∀ y, lookupVar σ4.vars y = lookupVar σ3.vars y := fun y => by rw [hvars4]
  have hcur4 : IntVar σ4 (layerPointer tB.id 1) ((p0 + k : Nat) : Int) := hcur3.congr (hl4 _)
  have hv4 : IntVar σ4 (valueFromCrd tB.id 1) (crd (p0 + k)) := hv3.congr (hl4 _)
  have hj4 : IntVar σ4 j (crd (p0 + k)) := hj3.congr (hl4 _)
  have einc : evalE σ4 (plus (.var (layerPointer tB.id 1))
      (.b2i (.bin .eq (.var (valueFromCrd tB.id 1)) (.var j)))) = .ok (.int (((p0 + k : Nat) : Int) + 1)) := by
    have e1 := evalE_b2i (evalE_eqInt (evalE_var_int hv4 (by omega) (by omega))
      (evalE_var_int hj4 (by omega) (by omega)))
    simp only [beq_self_eq_true, if_true] at e1
    exact evalE_add (evalE_var_int hcur4 (by omega) (by omega)) e1 (by omega) (by omega)
  obtain ⟨σ5, r5, hh5, henv5, hf5, hl5, ho5⟩ := assignIntStep hN henv4 fuel (innerW j outT tB tC)
    (hW _ hxp) hxp hcur4 einc
  refine ⟨σ5, ?_, ⟨henv5, hout4.congr hh5, ?_, ?_, ?_⟩, ?_⟩
  · exact Dense1.RunsLI.cons r1 (Dense1.RunsLI.cons r2 (Dense1.RunsLI.cons r3 (Dense1.RunsLI.cons r4
      (Dense1.RunsLI.cons r5 (Dense1.RunsLI.nil _ _)))))
  · exact ptrAt_congr (ptrAt_congr hbkt3 (hl4 _)) (ho5 _ (by spnm hN))
  · obtain ⟨r, h1, h2, h3⟩ := hl5
    exact ⟨r, h1, h2, by rw [h3]; push_cast; rfl⟩
  · refine ((hend.congr (h13 _ (by spnm hN) (by spnm hN) (by spnm hN))).congr (hl4 _)).congr
      (ho5 _ (by spnm hN))
  · exact (hf1.trans (hf2.trans hf3)).trans (hf4.trans hf5)

/-! ### the inner loop -/

/-- **the inner `while` loop**, by induction on the number `rem` of remaining stored entries of the
row: it performs exactly `rem` iterations -/
theorem innerLoop_runs (ofRat : Rat → F) (hN : (allNames i j outT tB tC).Nodup)
    (hB : isCsr i j tB = true) (hC : isJ j tC = true)
    (hnnz : (nnz : Int) < 2147483648) (hm : (m : Int) < 2147483648)
    (hcrd : ∀ p, p < nnz → crd p < m)
    {ii : Nat} {cells : List (Option (Val F))} (hlen : ii < cells.length)
    {p0 e : Nat} (he : e ≤ nnz)
    (hfin : ∀ k, p0 + k < e → stepFinite vB vC crd p0 k = true) :
    ∀ (rem k : Nat) (σ : State F) (fuel : Nat), p0 + k + rem = e →
      InnerInv i j outT tB tC n m nnz ob pb cb vb xb pos crd vB vC ii cells p0 e k σ →
      rem + 1 ≤ fuel →
      ∃ σ', RunsI fuel (innerLoop ofRat j outT tB tC) σ σ' rem ∧
        InnerInv i j outT tB tC n m nnz ob pb cb vb xb pos crd vB vC ii cells p0 e (e - p0) σ' ∧
        Frame (innerW j outT tB tC) ob σ σ' := by
  intro rem
  induction rem with
  | zero =>
    intro k σ fuel hke hinv hfuel
    obtain ⟨fuel', rfl⟩ := Nat.exists_eq_add_of_le hfuel
    have hk : e - p0 = k := by omega
    have ec : evalE σ (innerCond tB) = .ok (.bool false) := by
      have := evalE_and (σ := σ) (l := .boolLit true) (a := true) (by simp [evalE])
        (Dense1.evalE_lt (evalE_var_int hinv.cur (by omega) (by omega))
          (evalE_var_int hinv.fin (by omega) (by omega)))
      have hd : decide (((p0 + k : Nat) : Int) < (e : Int)) = false := by
        simp only [decide_eq_false_iff_not]; omega
      rw [hd] at this
      simpa [innerCond] using this
    refine ⟨σ, ?_, by rw [hk]; exact hinv, Frame.refl _ _ _⟩
    rw [innerLoop_eq, show 0 + 1 + fuel' = fuel' + 1 by omega]
    exact Dense1.RunsI.loop_false ec
  | succ rem ih =>
    intro k σ fuel hke hinv hfuel
    obtain ⟨fuel', rfl⟩ := Nat.exists_eq_add_of_le hfuel
    have hk : p0 + k < e := by omega
    have ec : evalE σ (innerCond tB) = .ok (.bool true) := by
      have := evalE_and (σ := σ) (l := .boolLit true) (a := true) (by simp [evalE])
        (Dense1.evalE_lt (evalE_var_int hinv.cur (by omega) (by omega))
          (evalE_var_int hinv.fin (by omega) (by omega)))
      have hd : decide (((p0 + k : Nat) : Int) < (e : Int)) = true := by
        simp only [decide_eq_true_eq]; omega
      rw [hd] at this
      simpa [innerCond] using this
    obtain ⟨σ1, r1, hinv1, hf1⟩ := innerIter_runs (rem + 1 + fuel') ofRat hN hB hC hnnz hm hcrd hlen hk he
      hinv (hfin k hk)
    obtain ⟨σ', r2, hinv', hf2⟩ := ih (k + 1) σ1 (rem + 1 + fuel') (by omega) hinv1 (by omega)
    refine ⟨σ', ?_, hinv', hf1.trans hf2⟩
    rw [innerLoop_eq] at r2 ⊢
    have := Dense1.RunsI.loop_true ec (Dense1.RunsI.block (c := none) r1) r2
    rw [show rem + 1 + 1 + fuel' = rem + 1 + fuel' + 1 by omega]
    simpa using this

/-- **one outer iteration's work**: `{bucket initialisation} int p = pos[ii]; int end = pos[ii+1];
while (…) {…}` leaves the row sum `rowDotF … ii` in cell `ii` of the output block after
`1 + (pos (ii+1) − pos ii)` loop iterations -/
theorem innerLines_runs (ofRat : Rat → F) (hN : (allNames i j outT tB tC).Nodup)
    (hB : isCsr i j tB = true) (hC : isJ j tC = true)
    (hcsr : Csr n m nnz pos crd)
    (hnnz : (nnz : Int) < 2147483648) (hm : (m : Int) < 2147483648) (hn : (n : Int) < 2147483648)
    {ii : Nat} (hii : ii < n) {cells : List (Option (Val F))} (hlen : ii < cells.length)
    (hfin : ∀ k, pos ii + k < pos (ii + 1) → stepFinite vB vC crd (pos ii) k = true)
    (σ : State F) (fuel : Nat) (henv : Env i j outT tB tC n m nnz ob pb cb vb xb pos crd vB vC σ)
    (hout : OutIs σ ob cells) (hpa : IntVar σ (layerPointer outT.id 0) ii)
    (hpb : IntVar σ (layerPointer tB.id 0) ii)
    (hfuel : (pos (ii + 1) - pos ii) + 2 ≤ fuel) :
    ∃ σ', RunsLI fuel (innerLines ofRat j outT tB tC) σ σ' (1 + (pos (ii + 1) - pos ii)) ∧
      Env i j outT tB tC n m nnz ob pb cb vb xb pos crd vB vC σ' ∧
      OutIs σ' ob (cells.set ii (some (.flt (rowDotF vB vC pos crd ii)))) ∧
      Frame (innerW j outT tB tC) ob σ σ' := by
  have hmono := hcsr.mono ii hii
  have hle2 := hcsr.pos_le_nnz (a := ii + 1) (by omega)
  -- bucket initialisation
  obtain ⟨σ1, r1, henv1, hf1, hout1, hbkt1⟩ := bucketInit_runs hN henv hout ii hpa hlen (by omega) fuel
    (by omega)
  -- the row segment
  have hpb1 : IntVar σ1 (layerPointer tB.id 0) ii :=
    hpb.congr (hf1.vars _ (by
      simp only [innerW, List.mem_cons, List.not_mem_nil, or_false, not_or]
      refine ⟨?_, ?_, ?_, ?_, ?_, ?_, ?_⟩ <;> spnm hN))
  obtain ⟨σ2, r2, hh2, henv2, hf2, hcur2, hend2, ho2⟩ := sparseInit_runs hN hcsr hnnz henv1 ii hii
    (by omega) hpb1 fuel
  have hbkt2 : PtrAt σ2 (bN outT) ob ii := ptrAt_congr hbkt1 (ho2 _ (by spnm hN) (by spnm hN))
  have hinv2 : InnerInv i j outT tB tC n m nnz ob pb cb vb xb pos crd vB vC ii cells (pos ii)
      (pos (ii + 1)) 0 σ2 := ⟨henv2, hout1.congr hh2, hbkt2, by simpa using hcur2, hend2⟩
  obtain ⟨σ3, r3, hinv3, hf3⟩ := innerLoop_runs ofRat hN hB hC hnnz hm hcsr.crdLt hlen hle2 hfin
    (pos (ii + 1) - pos ii) 0 σ2 fuel (by omega) hinv2 (by omega)
  refine ⟨σ3, ?_, hinv3.env, hinv3.out, hf1.trans (hf2.trans hf3)⟩
  have := Dense1.RunsLI.cons (Dense1.RunsI.block (c := some "Bucket initialization") r1)
    (Dense1.RunsLI.append r2 (Dense1.RunsLI.cons r3 (Dense1.RunsLI.nil _ _)))
  simpa [innerLines] using this

end

end TV.Spmv
