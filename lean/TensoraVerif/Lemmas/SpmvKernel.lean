import TensoraVerif.Lemmas.SpmvOuter
import TensoraVerif.Lemmas.SpmvGenerate
import TensoraVerif.Lemmas.Dense2Kernel
import TensoraVerif.Lemmas.Sparse1Frags

/-!
C01 for the CSR matrix–vector product, part 7 (V3): the whole `evaluate` function on the machine
(`kernel_runs`): from an initial state as the driver builds it (`Init`) to the final state (`KernelPost`),
through "Extract dimensions" (`i_dim`, `j_dim`), "Unpack tensors" (`a_vals`, `B_1_pos`, `B_1_crd`,
`B_vals`, `c_vals`), "Output initialization", the loop nest and "Assembling output tensor".
-/
namespace TV.Spmv
open TV.IR TV.Gen TV.Graph TV.Growth TV.Merge
open TV.Dense1 (RunsI RunsLI TensorVar)
open TV.Dense2 (bN bL reqTy Frame OutIs isI isJ)
set_option linter.unusedSectionVars false
variable {F : Type} [FloatOps F]

/-- every variable of the kernel: those of the loop nest, the three tensor parameters and
`a_vals_capacity`; **the names that must be pairwise distinct** -/
def kernelNames (i j : String) (outT tB tC : TensorId) : List String :=
  [dimName i, dimName j, valsName outT.name, posName tB.name 1, crdName tB.name 1, valsName tB.name,
   valsName tC.name,
   i, layerPointer outT.id 0, layerPointer tB.id 0, bN outT, bL outT, layerPointer tB.id 1,
   sparseEndName tB.id 1, valueFromCrd tB.id 1, j, layerPointer tC.id 0,
   outT.name, tB.name, tC.name, valsCapName outT.name]

theorem allNames_nodup {i j : String} {outT tB tC : TensorId}
    (hK : (kernelNames i j outT tB tC).Nodup) : (allNames i j outT tB tC).Nodup := by
  have hK' : (allNames i j outT tB tC ++ [outT.name, tB.name, tC.name, valsCapName outT.name]).Nodup := hK
  exact (List.nodup_append.1 hK').1

/-- `t->indices[l][jj]` -/
theorem evalE_slotAt {σ : State F} {x : String} {k : Nat} {tr : TensorRec F} {l : Nat} {p c : Val F}
    {jj : Int} (hx : TensorVar σ x k) (htr : σ.tensors[k]? = some tr) (hord : l < tr.order)
    (hl32 : (l : Int) < 2147483648)
    (hs : tr.slots[l]? = some (some (p, c))) (hp : isPtrVal p = true) (hc : isPtrVal c = true)
    (hj : jj = 0 ∨ jj = 1) :
    evalE σ (.idx (.idx (.attr (.var x) "indices") (.intLit l)) (.intLit jj)) =
      .ok (if jj = 0 then p else c) := by
  have elv : evalE σ (.idx (.attr (.var x) "indices") (.intLit (l : Int))) = .ok (.level k l) :=
    Cleanup.evalE_level hx htr hord hl32
  have ej : evalE σ (.intLit jj) = .ok (.int jj) := evalE_intLit (by omega) (by omega)
  rw [evalE.eq_3]
  rcases hj with rfl | rfl <;> simp [elv, ej, bind, Except.bind, htr, hs, hp, hc]

/-- **Initial machine state of a kernel call**, as the driver builds it: the variables are exactly the
three tensor parameters, bound to the tensor records `ta`, `tb`, `tc`; the output record is
output-owned, has a pointer (or `NULL`) in `vals` and its `dimensions` block holds `n` at position 0;
the record of `B` has order ≥ 2, its `dimensions` block holds `m` at position 1, its slot 1 is
`(pos, crd)` = the base addresses of blocks `pb`, `cb`, and its `vals` points to block `vb`; the record
of `c` has `vals` pointing to block `xb`; `pb` is a live `int` block whose cells `0 … n` hold `pos`, `cb`
a live `int` block whose first `nnz` cells hold `crd`, `vb` a live float block whose first `nnz` cells
hold `vB`, `xb` a live float block whose first `m` cells hold `vC`. -/
structure Init (outT tB tC : TensorId) (n m nnz ta tb tc pb cb vb xb : Nat)
    (pos crd : Nat → Nat) (vB vC : Nat → F) (σ : State F) : Prop where
  pa : TensorVar σ outT.name ta
  pB : TensorVar σ tB.name tb
  pC : TensorVar σ tC.name tc
  fresh : ∀ x, x ≠ outT.name → x ≠ tB.name → x ≠ tC.name → lookupVar σ.vars x = none
  outRec : ∃ tr blk, σ.tensors[ta]? = some tr ∧ tr.owner = .output ∧ isPtrVal tr.vals = true ∧
    σ.heap[tr.dimsBlk]? = some blk ∧ blk.live = true ∧ blk.ty = .int ∧
    blk.cells[0]? = some (some (.int n))
  bRec : ∃ tr blk, σ.tensors[tb]? = some tr ∧ 1 < tr.order ∧
    tr.slots[1]? = some (some (.ptr pb 0, .ptr cb 0)) ∧ tr.vals = .ptr vb 0 ∧
    σ.heap[tr.dimsBlk]? = some blk ∧ blk.live = true ∧ blk.ty = .int ∧
    blk.cells[1]? = some (some (.int m))
  cRec : ∃ tr, σ.tensors[tc]? = some tr ∧ tr.vals = .ptr xb 0
  posBlk : ∃ blk, σ.heap[pb]? = some blk ∧ blk.live = true ∧ blk.ty = .int ∧
    ∀ k, k ≤ n → blk.cells[k]? = some (some (.int (pos k)))
  crdBlk : ∃ blk, σ.heap[cb]? = some blk ∧ blk.live = true ∧ blk.ty = .int ∧ nnz ≤ blk.cells.length ∧
    ∀ p, p < nnz → blk.cells[p]? = some (some (.int (crd p)))
  bBlk : ∃ blk, σ.heap[vb]? = some blk ∧ blk.live = true ∧ blk.ty = .float ∧
    ∀ p, p < nnz → blk.cells[p]? = some (some (.flt (vB p)))
  cBlk : ∃ blk, σ.heap[xb]? = some blk ∧ blk.live = true ∧ blk.ty = .float ∧
    ∀ k, k < m → blk.cells[k]? = some (some (.flt (vC k)))

/-- **Final state of a kernel call** `σ → σ'` with output record `k`: the record's `vals` points to the
fresh block `σ.heap.length`, a live output-owned float block with exactly `n` cells, cell `ii` holding
the row sum in loop order; every old block and every other record is unchanged. -/
structure KernelPost (n : Nat) (k : Nat) (pos crd : Nat → Nat) (vB vC : Nat → F)
    (σ σ' : State F) : Prop where
  outRec : ∃ tr, σ.tensors[k]? = some tr ∧ σ'.tensors[k]? = some { tr with vals := .ptr σ.heap.length 0 }
  otherRecs : ∀ k', k' ≠ k → σ'.tensors[k']? = σ.tensors[k']?
  blk : ∃ blk, σ'.heap[σ.heap.length]? = some blk ∧ blk.live = true ∧ blk.owner = .output ∧
    blk.ty = .float ∧
    blk.cells = (List.range n).map fun ii => some (.flt (rowDotF vB vC pos crd ii))
  heap : ∀ b, b < σ.heap.length → σ'.heap[b]? = σ.heap[b]?
  heapLen : σ'.heap.length = σ.heap.length + 1

/-- the state after "Extract dimensions" and "Unpack tensors" -/
structure Unpacked (i j : String) (outT tB tC : TensorId) (n m pb cb vb xb : Nat) (σ σ' : State F) :
    Prop where
  heap : σ'.heap = σ.heap
  tensors : σ'.tensors = σ.tensors
  dimI : IntVar σ' (dimName i) n
  dimJ : IntVar σ' (dimName j) m
  avals : ∃ r, lookupVar σ'.vars (valsName outT.name) = some r ∧ r.ty = .ptr .float
  posv : PtrVar σ' (posName tB.name 1) pb
  crdv : PtrVar σ' (crdName tB.name 1) cb
  bvals : PtrVar σ' (valsName tB.name) vb
  cvals : PtrVar σ' (valsName tC.name) xb
  other : ∀ y, y ≠ dimName i → y ≠ dimName j → y ≠ valsName outT.name → y ≠ posName tB.name 1 →
      y ≠ crdName tB.name 1 → y ≠ valsName tB.name → y ≠ valsName tC.name →
      lookupVar σ'.vars y = lookupVar σ.vars y

/-- "Extract dimensions" and "Unpack tensors" on the machine -/
theorem unpack_runs (i j : String) (outT tB tC : TensorId)
    (hK : (kernelNames i j outT tB tC).Nodup)
    {n m nnz ta tb tc pb cb vb xb : Nat} {pos crd : Nat → Nat} {vB vC : Nat → F} {σ : State F}
    (hm : (m : Int) < 2147483648) (hn : (n : Int) < 2147483648)
    (hinit : Init outT tB tC n m nnz ta tb tc pb cb vb xb pos crd vB vC σ) (fuel : Nat) :
    ∃ σ', RunsLI fuel
        [.block [declAssignE (dimName i) .int (.idx (.attr (.var outT.name) "dimensions") (.intLit 0)),
                 declAssignE (dimName j) .int (.idx (.attr (.var tB.name) "dimensions") (.intLit 1))]
            (some "Extract dimensions"),
         .block (unpackLines outT.name tB.name tC.name) (some "Unpack tensors")] σ σ' 0 ∧
      Unpacked i j outT tB tC n m pb cb vb xb σ σ' := by
  obtain ⟨hpa, hpB, hpC, hfresh, ⟨otr, dblk, hotr, hown, hovals, hdb, hdlive, hdty, hdc⟩,
    ⟨btr, jblk, hbtr, hbord, hbslot, hbvals, hjb, hjlive, hjty, hjc⟩, ⟨ctr, hctr, hcvals⟩,
    hposB, hcrdB, hbB, hcB⟩ := hinit
  have fr : ∀ x, x ≠ outT.name → x ≠ tB.name → x ≠ tC.name → lookupVar σ.vars x = none := hfresh
  -- A1: int i_dim = a->dimensions[0]
  obtain ⟨σ1, r1, hh1, ht1, hv1, ho1⟩ := Sparse1.declFresh (fuel := fuel) (x := dimName i) (t := .int)
    (val' := .int n) (fr _ (by spnm hK) (by spnm hK) (by spnm hK))
    (Dense1.evalE_dim0 hpa hotr hdb hdlive hdty hdc (by omega) hn) rfl
  have hdimI1 : IntVar σ1 (dimName i) n := hv1
  -- A2: int j_dim = B->dimensions[1]
  have hpB1 : TensorVar σ1 tB.name tb := hpB.congr (ho1 _ (by spnm hK))
  obtain ⟨σ2, r2, hh2, ht2, hv2, ho2⟩ := Sparse1.declFresh (fuel := fuel) (x := dimName j) (t := .int)
    (val' := .int m)
    (by rw [ho1 _ (by spnm hK)]; exact fr _ (by spnm hK) (by spnm hK) (by spnm hK))
    (Dense2.evalE_dimAt (d := 1) hpB1 (by rw [ht1]; exact hbtr) (by rw [hh1]; exact hjb) hjlive hjty hjc
      (by omega) (by omega) hm) rfl
  have hdimJ2 : IntVar σ2 (dimName j) m := hv2
  have hH2 : σ2.heap = σ.heap := hh2.trans hh1
  have hT2 : σ2.tensors = σ.tensors := ht2.trans ht1
  have o2 : ∀ y, y ≠ dimName i → y ≠ dimName j → lookupVar σ2.vars y = lookupVar σ.vars y :=
    fun y h1 h2 => (ho2 y h2).trans (ho1 y h1)
  -- B1: double* a_vals = a->vals
  have hpa2 : TensorVar σ2 outT.name ta := hpa.congr (o2 _ (by spnm hK) (by spnm hK))
  obtain ⟨σ3, r3, hh3, ht3, hv3, ho3⟩ := Sparse1.declFresh (fuel := fuel) (x := valsName outT.name)
    (t := .ptr .float) (val' := otr.vals)
    (by rw [o2 _ (by spnm hK) (by spnm hK)]; exact fr _ (by spnm hK) (by spnm hK) (by spnm hK))
    (Dense1.evalE_vals hpa2 (by rw [hT2]; exact hotr) hovals)
    (Dense1.convTo_ptr_of_isPtrVal .float hovals)
  -- B2: int* B_1_pos = B->indices[1][0]
  have hpB3 : TensorVar σ3 tB.name tb :=
    hpB.congr ((ho3 _ (by spnm hK)).trans (o2 _ (by spnm hK) (by spnm hK)))
  have hT3 : σ3.tensors = σ.tensors := ht3.trans hT2
  obtain ⟨σ4, r4, hh4, ht4, hv4, ho4⟩ := Sparse1.declFresh (fuel := fuel) (x := posName tB.name 1)
    (t := .ptr .int) (val' := .ptr pb 0)
    (by
      rw [ho3 _ (by spnm hK), o2 _ (by spnm hK) (by spnm hK)]
      exact fr _ (by spnm hK) (by spnm hK) (by spnm hK))
    (evalE_slotAt (l := 1) (jj := 0) hpB3 (by rw [hT3]; exact hbtr) hbord (by omega) hbslot rfl rfl
      (.inl rfl)) rfl
  -- B3: int* B_1_crd = B->indices[1][1]
  have hpB4 : TensorVar σ4 tB.name tb := hpB3.congr (ho4 _ (by spnm hK))
  have hT4 : σ4.tensors = σ.tensors := ht4.trans hT3
  obtain ⟨σ5, r5, hh5, ht5, hv5, ho5⟩ := Sparse1.declFresh (fuel := fuel) (x := crdName tB.name 1)
    (t := .ptr .int) (val' := .ptr cb 0)
    (by
      rw [ho4 _ (by spnm hK), ho3 _ (by spnm hK), o2 _ (by spnm hK) (by spnm hK)]
      exact fr _ (by spnm hK) (by spnm hK) (by spnm hK))
    (evalE_slotAt (l := 1) (jj := 1) hpB4 (by rw [hT4]; exact hbtr) hbord (by omega) hbslot rfl rfl
      (.inr rfl)) rfl
  -- B4: double* B_vals = B->vals
  have hpB5 : TensorVar σ5 tB.name tb := hpB4.congr (ho5 _ (by spnm hK))
  have hT5 : σ5.tensors = σ.tensors := ht5.trans hT4
  have hbvp : isPtrVal btr.vals = true := by rw [hbvals]; rfl
  obtain ⟨σ6, r6, hh6, ht6, hv6, ho6⟩ := Sparse1.declFresh (fuel := fuel) (x := valsName tB.name)
    (t := .ptr .float) (val' := btr.vals)
    (by
      rw [ho5 _ (by spnm hK), ho4 _ (by spnm hK), ho3 _ (by spnm hK), o2 _ (by spnm hK) (by spnm hK)]
      exact fr _ (by spnm hK) (by spnm hK) (by spnm hK))
    (Dense1.evalE_vals hpB5 (by rw [hT5]; exact hbtr) hbvp)
    (Dense1.convTo_ptr_of_isPtrVal .float hbvp)
  -- B5: double* c_vals = c->vals
  have o6 : ∀ y, y ≠ dimName i → y ≠ dimName j → y ≠ valsName outT.name → y ≠ posName tB.name 1 →
      y ≠ crdName tB.name 1 → y ≠ valsName tB.name → lookupVar σ6.vars y = lookupVar σ.vars y := by
    intro y y1 y2 y3 y4 y5 y6
    rw [ho6 y y6, ho5 y y5, ho4 y y4, ho3 y y3, o2 y y1 y2]
  have hpC6 : TensorVar σ6 tC.name tc :=
    hpC.congr (o6 _ (by spnm hK) (by spnm hK) (by spnm hK) (by spnm hK) (by spnm hK) (by spnm hK))
  have hT6 : σ6.tensors = σ.tensors := ht6.trans hT5
  have hcvp : isPtrVal ctr.vals = true := by rw [hcvals]; rfl
  obtain ⟨σ7, r7, hh7, ht7, hv7, ho7⟩ := Sparse1.declFresh (fuel := fuel) (x := valsName tC.name)
    (t := .ptr .float) (val' := ctr.vals)
    (by
      rw [o6 _ (by spnm hK) (by spnm hK) (by spnm hK) (by spnm hK) (by spnm hK) (by spnm hK)]
      exact fr _ (by spnm hK) (by spnm hK) (by spnm hK))
    (Dense1.evalE_vals hpC6 (by rw [hT6]; exact hctr) hcvp)
    (Dense1.convTo_ptr_of_isPtrVal .float hcvp)
  refine ⟨σ7, ?_, ?_⟩
  · exact Dense1.RunsLI.cons (Dense1.RunsI.block (c := some "Extract dimensions")
        (Dense1.RunsLI.cons r1 (Dense1.RunsLI.cons r2 (Dense1.RunsLI.nil _ _))))
      (Dense1.RunsLI.cons (Dense1.RunsI.block (c := some "Unpack tensors")
          (Dense1.RunsLI.cons r3 (Dense1.RunsLI.cons r4 (Dense1.RunsLI.cons r5 (Dense1.RunsLI.cons r6
            (Dense1.RunsLI.cons r7 (Dense1.RunsLI.nil _ _)))))))
        (Dense1.RunsLI.nil _ _))
  · refine ⟨by rw [hh7, hh6, hh5, hh4, hh3, hH2], ht7.trans hT6, ?_, ?_, ?_, ?_, ?_, ?_, ?_, ?_⟩
    · refine hdimI1.congr ?_
      rw [ho7 _ (by spnm hK), ho6 _ (by spnm hK),
        ho5 _ (by spnm hK), ho4 _ (by spnm hK), ho3 _ (by spnm hK), ho2 _ (by spnm hK)]
    · refine hdimJ2.congr ?_
      rw [ho7 _ (by spnm hK), ho6 _ (by spnm hK),
        ho5 _ (by spnm hK), ho4 _ (by spnm hK), ho3 _ (by spnm hK)]
    · obtain ⟨r, e1, e2, _⟩ := hv3
      refine ⟨r, ?_, e2⟩
      rw [ho7 _ (by spnm hK), ho6 _ (by spnm hK), ho5 _ (by spnm hK), ho4 _ (by spnm hK)]
      exact e1
    · obtain ⟨r, e1, e2, e3⟩ := hv4
      refine ⟨r, .int, ?_, e2, e3⟩
      rw [ho7 _ (by spnm hK), ho6 _ (by spnm hK), ho5 _ (by spnm hK)]
      exact e1
    · obtain ⟨r, e1, e2, e3⟩ := hv5
      refine ⟨r, .int, ?_, e2, e3⟩
      rw [ho7 _ (by spnm hK), ho6 _ (by spnm hK)]
      exact e1
    · obtain ⟨r, e1, e2, e3⟩ := hv6
      refine ⟨r, .float, ?_, e2, by rw [e3, hbvals]⟩
      rw [ho7 _ (by spnm hK)]
      exact e1
    · obtain ⟨r, e1, e2, e3⟩ := hv7
      exact ⟨r, .float, e1, e2, by rw [e3, hcvals]⟩
    · intro y y1 y2 y3 y4 y5 y6 y7
      rw [ho7 y y7, o6 y y1 y2 y3 y4 y5 y6]

/-- a scratch name is none of the names the prologue declares and none of the parameters -/
theorem scratch_fresh {i j : String} {outT tB tC : TensorId}
    (hK : (kernelNames i j outT tB tC).Nodup) {x : String} (hx : x ∈ scratch i j outT tB tC) :
    x ∉ readOnly i j outT tB tC ∧ x ∉ [outT.name, tB.name, tC.name, valsCapName outT.name] := by
  have hK' : (readOnly i j outT tB tC ++
      (scratch i j outT tB tC ++ [outT.name, tB.name, tC.name, valsCapName outT.name])).Nodup := hK
  obtain ⟨_, h2, h3⟩ := List.nodup_append.1 hK'
  obtain ⟨_, _, h6⟩ := List.nodup_append.1 h2
  exact ⟨fun h => h3 x h x (List.mem_append_left _ hx) rfl, fun h => h6 x hx x h rfl⟩

theorem kernel_runs (ofRat : Rat → F) (i j : String) (outT tB tC : TensorId)
    (hK : (kernelNames i j outT tB tC).Nodup)
    (hB : isCsr i j tB = true) (hC : isJ j tC = true)
    {n m nnz ta tb tc pb cb vb xb : Nat} {pos crd : Nat → Nat} {vB vC : Nat → F} {σ : State F}
    (hcsr : Csr n m nnz pos crd)
    (hnnz : (nnz : Int) < 2147483648) (hm : (m : Int) < 2147483648) (hn : (n : Int) < 2147483648)
    (L : Nat) (hL : ∀ ii, ii < n → pos (ii + 1) - pos ii ≤ L)
    (hfin : ∀ ii, ii < n → RowFinite vB vC pos crd ii)
    (hinit : Init outT tB tC n m nnz ta tb tc pb cb vb xb pos crd vB vC σ) (fuel : Nat)
    (hfuel : n + L + 2 ≤ fuel) :
    ∃ o, exec fuel (kernel ofRat i j outT tB tC).body σ = .ok o ∧ o.ret = some (.int 0) ∧
      o.iters = 2 * n + nnz ∧ KernelPost n ta pos crd vB vC σ o.st := by
  have hN := allNames_nodup hK
  obtain ⟨σ7, r17, hU⟩ := unpack_runs i j outT tB tC hK hm hn hinit fuel
  obtain ⟨hpa, hpB, hpC, hfresh, ⟨otr, dblk, hotr, hown, hovals, hdb, hdlive, hdty, hdc⟩,
    _, _, hposB, hcrdB, hbB, hcB⟩ := hinit
  have fr : ∀ x, x ≠ outT.name → x ≠ tB.name → x ≠ tC.name → lookupVar σ.vars x = none := hfresh
  have o7 := hU.other
  have hT7 := hU.tensors
  have hH7 := hU.heap
  -- C1: int a_vals_capacity = 1 * a->dimensions[0]
  have hpa7 : TensorVar σ7 outT.name ta :=
    hpa.congr (o7 _ (by spnm hK) (by spnm hK) (by spnm hK) (by spnm hK) (by spnm hK) (by spnm hK)
      (by spnm hK))
  have eC : evalE σ7 (.bin .mul (.intLit 1) (.idx (.attr (.var outT.name) "dimensions") (.intLit 0))) =
      .ok (.int (1 * (n : Int))) :=
    evalE_mul (evalE_intLit (by omega) (by omega))
      (Dense1.evalE_dim0 hpa7 (by rw [hT7]; exact hotr) (by rw [hH7]; exact hdb) hdlive hdty hdc
        (by omega) hn) (by omega) (by omega)
  obtain ⟨σ8, r8, hh8, ht8, hv8, ho8⟩ := Sparse1.declFresh (fuel := fuel) (x := valsCapName outT.name)
    (t := .int) (val' := .int (1 * (n : Int)))
    (by
      rw [o7 _ (by spnm hK) (by spnm hK) (by spnm hK) (by spnm hK) (by spnm hK) (by spnm hK) (by spnm hK)]
      exact fr _ (by spnm hK) (by spnm hK) (by spnm hK)) eC rfl
  have hcap8 : IntVar σ8 (valsCapName outT.name) (1 * (n : Int)) := hv8
  -- C2: a_vals = malloc(a_vals_capacity)
  obtain ⟨ro, hro1, hro2⟩ := hU.avals
  have hro8 : lookupVar σ8.vars (valsName outT.name) = some ro := by
    rw [ho8 _ (by spnm hK)]
    exact hro1
  obtain ⟨σ9, r9, ht9, hh9, hout9, ho9⟩ := Dense1.runsI_alloc (fuel := fuel) (ty := .float) (ety := .float)
    (ha := hro8) hro2 hcap8 (by omega) (by omega) rfl
  have hlen8 : σ8.heap.length = σ.heap.length := by rw [hh8, hH7]
  rw [hlen8] at hout9
  have hheap9 : σ9.heap = σ.heap ++ [⟨.float, List.replicate n none, .output, true⟩] := by
    rw [hh9, hh8, hH7]
    simp
  have hT9 : σ9.tensors = σ.tensors := by rw [ht9, ht8, hT7]
  have o97 : ∀ y, y ≠ valsName outT.name → y ≠ valsCapName outT.name →
      lookupVar σ9.vars y = lookupVar σ7.vars y := by
    intro y y3 y8
    rw [ho9 y y3, ho8 y y8]
  -- the environment of the loop nest
  have old : ∀ b blk, σ.heap[b]? = some blk → σ9.heap[b]? = some blk ∧ b ≠ σ.heap.length := by
    intro b blk hb
    have hlt : b < σ.heap.length := lt_length_of_getElem? hb
    exact ⟨by rw [hheap9, List.getElem?_append_left hlt]; exact hb, by omega⟩
  obtain ⟨pblk, p1, p2, p3, p4⟩ := hposB
  obtain ⟨cblk, c1, c2, c3, c4, c5⟩ := hcrdB
  obtain ⟨bblk, b1, b2, b3, b4⟩ := hbB
  obtain ⟨xblk, x1, x2, x3, x4⟩ := hcB
  have henv : Env i j outT tB tC n m nnz σ.heap.length pb cb vb xb pos crd vB vC σ9 := by
    refine ⟨hU.dimI.congr (o97 _ (by spnm hK) (by spnm hK)), hU.dimJ.congr (o97 _ (by spnm hK) (by spnm hK)),
      hout9, hU.posv.congr (o97 _ (by spnm hK) (by spnm hK)), hU.crdv.congr (o97 _ (by spnm hK) (by spnm hK)),
      hU.bvals.congr (o97 _ (by spnm hK) (by spnm hK)), hU.cvals.congr (o97 _ (by spnm hK) (by spnm hK)),
      ⟨pblk, (old _ _ p1).1, p2, p3, p4⟩,
      ⟨cblk, (old _ _ c1).1, c2, c3, c4, c5⟩, ⟨bblk, (old _ _ b1).1, b2, b3, b4⟩,
      ⟨xblk, (old _ _ x1).1, x2, x3, x4⟩,
      ⟨(old _ _ p1).2, (old _ _ c1).2, (old _ _ b1).2, (old _ _ x1).2⟩, ?_⟩
    intro x hx r hr
    obtain ⟨f1, f2⟩ := scratch_fresh hK hx
    simp only [readOnly, List.mem_cons, List.not_mem_nil, or_false, not_or] at f1 f2
    obtain ⟨g1, g2, g3, g4, g5, g6, g7⟩ := f1
    obtain ⟨k1, k2, k3, k4⟩ := f2
    rw [o97 x g3 k4, o7 x g1 g2 g3 g4 g5 g6 g7, fr x k1 k2 k3] at hr
    cases hr
  have houtIs : OutIs σ9 σ.heap.length (List.replicate n none) := by
    unfold OutIs; rw [hheap9]; simp
  -- D: the loop nest
  obtain ⟨σD, rD, hpost⟩ := loopLines_runs ofRat hN hB hC hcsr hnnz hm hn L hL hfin σ9 fuel _ henv houtIs
    (by simp) hfuel
  -- E: a->vals = a_vals
  have hns1 : outT.name ∉ scratch i j outT tB tC := fun h => (scratch_fresh hK h).2 (by simp)
  have hns2 : valsName outT.name ∉ scratch i j outT tB tC :=
    fun h => (scratch_fresh hK h).1 (by simp [readOnly])
  have hpaD : TensorVar σD outT.name ta := by
    refine hpa7.congr ?_
    rw [hpost.frame.vars _ hns1, o97 _ (by spnm hK) (by spnm hK)]
  have houtD : PtrVar σD (valsName outT.name) σ.heap.length :=
    hout9.congr (hpost.frame.vars _ hns2)
  have htD : σD.tensors = σ.tensors := by rw [hpost.frame.tensors, hT9]
  have rE := Dense1.runsI_storeVals (fuel := fuel) hpaD houtD (by rw [htD]; exact hotr) hown
  -- the whole body
  have rAll := Dense1.RunsLI.append r17
      (Dense1.RunsLI.cons (Dense1.RunsI.block (c := some "Output initialization")
          (Dense1.RunsLI.cons r8 (Dense1.RunsLI.cons r9 (Dense1.RunsLI.nil _ _))))
        (Dense1.RunsLI.cons (Dense1.RunsI.block (c := some ("*** Iteration over " ++ i ++ " ***")) rD)
          (Dense1.RunsLI.cons (Dense1.RunsI.block (c := some ("Assembling output tensor " ++ outT.name))
              (Dense1.RunsLI.cons rE (Dense1.RunsLI.nil _ _))) (Dense1.RunsLI.nil _ _))))
  obtain ⟨o, eo, hret, hst, hit⟩ := Dense1.execL_ret (e := .intLit 0) (v := .int 0) rAll
    (evalE_intLit (by omega) (by omega))
  refine ⟨o, ?_, hret, by rw [hit]; omega, ?_⟩
  · show exec fuel (.block (kernelStmts ofRat i j outT tB tC ++ [.ret (.intLit 0)]) none) σ = _
    rw [exec.eq_5]
    exact eo
  · rw [hst]
    have hklt : ta < σ.tensors.length := lt_length_of_getElem? hotr
    obtain ⟨cells', hb', hlen, hc1, _⟩ := hpost.out
    refine ⟨⟨otr, hotr, ?_⟩, ?_, ⟨_, hb', rfl, rfl, rfl, ?_⟩, ?_, ?_⟩
    · show (σD.tensors.set _ _)[_]? = _
      rw [htD, List.getElem?_set_self hklt]
    · intro k' hk'
      show (σD.tensors.set _ _)[_]? = _
      rw [htD, List.getElem?_set_ne (Ne.symm hk')]
    · show cells' = _
      apply List.ext_getElem?
      intro k
      simp only [List.length_replicate] at hlen
      by_cases hk : k < n
      · rw [hc1 k (by omega) hk]
        simp [hk]
      · rw [List.getElem?_eq_none (by omega), List.getElem?_eq_none (by simp; omega)]
    · intro b hb
      show σD.heap[b]? = _
      rw [hpost.frame.heap b (by omega), hheap9, List.getElem?_append_left hb]
    · show σD.heap.length = _
      rw [hpost.frame.heapLen, hheap9]; simp

end TV.Spmv
