import TensoraVerif.Lemmas.SpmvModel
import TensoraVerif.Lemmas.Dense2LowerEq
import TensoraVerif.Lemmas.Sparse1Lower

/-!
C01 for the CSR matrix–vector product, part 2 (V1): what `lower` emits for the graph of the class.
`lower` is defined by well-founded recursion; the equation is obtained by unfolding it once per node and
computing every case distinction of the pass on the class.
-/
namespace TV.Spmv
open TV.IR TV.Gen TV.Graph TV.Merge
open TV.Dense1 (ptrDecl)
open TV.Dense2 (isI isJ isI_iff isJ_iff bucketInitLines accStmt)
variable {F : Type}

theorem isCsr_iff (i j : String) (t : TensorId) :
    isCsr i j t = true ↔ t.indexes = [i, j] ∧ t.modes = [.dense, .compressed] := by simp [isCsr]

section ctx
variable {i j : String} (hij : i ≠ j) {tB tC : TensorId} (hB : isCsr i j tB = true) (hC : isJ j tC = true)
include hij hB hC

/-- the loop context of `B * c` at `i`: the dense level 0 of `B` -/
theorem extractContext_i :
    extractContext (spE tB tC) i = ⟨false, [], [⟨tB, 0⟩]⟩ := by
  have h1 := (isCsr_iff i j tB).1 hB
  have h2 := (isJ_iff j tC).1 hC
  have hfi : List.findIdx? (fun x => x == i) [i, j] = some 0 := by simp [List.findIdx?_cons]
  simp [spE, extractContext, Context.mul, h1.1, h1.2, h2.1, hfi, Ne.symm hij]

/-- the loop context of `B * c` at `j`: sparse, with the compressed level 1 of `B` as its only sparse
leaf and the dense level 0 of `c` as its only dense leaf -/
theorem extractContext_j :
    extractContext (spE tB tC) j = ⟨true, [⟨tB, 1⟩], [⟨tC, 0⟩]⟩ := by
  have h1 := (isCsr_iff i j tB).1 hB
  have h2 := (isJ_iff j tC).1 hC
  have hfi : List.findIdx? (fun x => x == j) [i, j] = some 1 := by simp [List.findIdx?_cons, hij]
  simp [spE, extractContext, Context.mul, h1.1, h1.2, h2.1, h2.2, hfi]

omit hij hB hC in
theorem exhaust_spE : exhaust (spE tB tC) tB.id = .int 0 := by
  simp [spE, exhaust, IdExpr.occurs, IdExpr.isZeroInt]

theorem generateSubgraphs_outer (outT : TensorId) :
    generateSubgraphs (graph i j outT tB tC) = [graph i j outT tB tC] := by
  have hc : compressedDims (graph i j outT tB tC) = [] := by
    simp [compressedDims, graph, nodeContext, IGraph.context, extractContext_i hij hB hC, dedupStr]
  simp [generateSubgraphs, hc, generateSubgraphs.go, sortByLenDesc]

theorem compressedDims_inner :
    compressedDims (.iter j none (.terminal (spE tB tC))) = [tB.id] := by
  simp [compressedDims, nodeContext, IGraph.context, extractContext_j hij hB hC, dedupStr]

omit hij hB hC in
theorem compressedDims_zero : compressedDims (.iter j none (.terminal (.int 0))) = [] := by
  simp [compressedDims, nodeContext, IGraph.context, extractContext, dedupStr]

/-- the lattice of sub-graphs of the inner node: the node itself and the node with `B` exhausted
(terminal `0`; skipped by `lower` because the loop is sparse) -/
theorem generateSubgraphs_inner :
    generateSubgraphs (.iter j none (.terminal (spE tB tC))) =
      [.iter j none (.terminal (spE tB tC)), .iter j none (.terminal (.int 0))] := by
  have h1 := compressedDims_inner hij hB hC
  have h2 := compressedDims_zero (j := j)
  have hx : (IGraph.iter j none (.terminal (spE tB tC))).exhaust tB.id =
      .iter j none (.terminal (.int 0)) := by
    simp [IGraph.exhaust, exhaust_spE]
  simp [generateSubgraphs, generateSubgraphs.go, h1, h2, hx, dictSet, sameSet, sortByLenDesc,
    List.range, List.range.loop]

end ctx

theorem append_plain (b x : SB F) (h : x.comment = none) :
    b.append x = ⟨b.comment, b.lines ++ x.lines⟩ := by
  simp [SB.append, h]

/-- the dense cursor of `c` becomes computable in the loop over `j` -/
theorem layersToWrite_c (j : String) (tC : TensorId) (hC : isJ j tC = true) :
    layersToWrite ⟨tC, 0⟩ j [j] = [⟨tC, 0⟩] := Dense1.layersToWrite_eq j tC hC

/-- the dense cursor of level 0 of `B` / of the output becomes computable in the loop over `i` -/
theorem layersToWrite_B (i j : String) (hij : i ≠ j) (tB : TensorId) (hB : isCsr i j tB = true) :
    layersToWrite ⟨tB, 0⟩ i [i, j] = [⟨tB, 0⟩] := by
  have h' := (isCsr_iff i j tB).1 hB
  simp [layersToWrite, h'.1, h'.2, List.range, List.range.loop, hij]

theorem layersToWrite_out (i j : String) (outT : TensorId) (ho : isI i outT = true) :
    layersToWrite ⟨outT, 0⟩ i [i, j] = [⟨outT, 0⟩] := by
  have h' := (isI_iff i outT).1 ho
  simp [layersToWrite, h'.1, h'.2, List.range, List.range.loop]

/-- **the inner node**: under the append output at layer 1 of an order-1 output, `lower` opens a
bucket (`Output.next none`), zero-initialises it, reads the row segment from `B_1_pos`
(`writeSparseInit`) and emits the merge loop over the single sparse leaf `⟨B, 1⟩` accumulating into
the bucket. There is NO `int j = 0` and `j_dim` is only read by the dense cursor of `c`. -/
theorem lower_inner_eq (ofRat : Rat → F) (n : Nat) (i j : String) (hij : i ≠ j) (outT tB tC : TensorId)
    (ho : isI i outT = true) (hB : isCsr i j tB = true) (hC : isJ j tC = true) :
    lower ofRat (n + 2) (.iter j none (.terminal (spE tB tC))) (.append outT 1) .evaluate =
      .ok ⟨some ("*** Iteration over " ++ j ++ " ***"), innerLines ofRat j outT tB tC⟩ := by
  have ho' := (isI_iff i outT).1 ho
  have hC' := (isJ_iff j tC).1 hC
  have hctx := extractContext_j hij hB hC
  have hsub := generateSubgraphs_inner hij hB hC
  have hcd1 := compressedDims_inner hij hB hC
  have hcd2 := compressedDims_zero (j := j)
  unfold lower
  simp only [Kind.isCompute, Bool.not_true, Bool.false_and, Bool.false_eq_true, if_false]
  have hnext : ((Output.append outT 1).next none Kind.evaluate : Except GenErr (Output × SB F)) =
      .ok (.bucket outT [], ⟨some "Bucket initialization", bucketInitLines outT⟩) := by
    simp [Output.next, ho'.1, ho'.2, Kind.isCompute, bucketDeclarations, SB.mk', SB.add, SB.loop,
      bucketInitLines, Dense2.bucketZeroLoop, Dense2.bucketZeroBody, bucketDims, mulJoin, joinWith,
      prevLayerPointer, List.range, List.range.loop]
  have hnc : nodeContext (.iter j none (.terminal (spE tB tC))) = extractContext (spE tB tC) j := by
    simp [nodeContext, IGraph.context]
  have hnc0 : nodeContext (.iter j none (.terminal (.int 0))) = ⟨true, [], []⟩ := by
    simp [nodeContext, IGraph.context, extractContext]
  have hlater : (IGraph.iter j none (IGraph.terminal (spE tB tC))).laterIndexes = [j] := by
    simp [IGraph.laterIndexes]
  have hterm := Dense2.lower_terminal_bucket ofRat n outT (spE tB tC) ho'.2
  simp only [isSparseOutput, Option.map_none, hnext, hsub, hnc, hnc0, hctx, hcd1, hcd2, hlater, hterm,
    layersToWrite_c j tC hC,
    Bool.or_false, Bool.true_and, Bool.and_self, Bool.false_eq_true, if_false,
    if_true, List.foldlM_cons, List.foldlM_nil, bind, Except.bind, pure, Except.pure,
    List.isEmpty_nil, List.isEmpty_cons, Bool.not_true, Option.isNone_none, Bool.not_false, List.foldl_nil,
    List.foldl_cons, List.map_nil, List.map_cons, List.nil_append]
  rw [append_plain _ (writeSparseInit _) rfl]
  simp [SB.mk', SB.append, SB.empty, SB.add, SB.loop, SB.finalize, branchJoin, andJoin, joinWith, minJoin,
    innerLines, innerLoop, midLines, bLeaf, mergeLoopL, mergeBodyL, mergeCond, mergeLoads, mergeMin,
    mergeIncs, ptrDecl, Leaf.index, Leaf.ptr, Leaf.prevPtr, prevLayerPointer, hC'.1]

/-- **V1. What `lower` emits on the class**: `int i = 0; while (i < i_dim) { … }` (`loopLines`). -/
theorem lower_eq (ofRat : Rat → F) (n : Nat) (i j : String) (hij : i ≠ j) (outT tB tC : TensorId)
    (ho : isI i outT = true) (hB : isCsr i j tB = true) (hC : isJ j tC = true) :
    lower ofRat (n + 3) (graph i j outT tB tC) (.append outT 0) .evaluate =
      .ok ⟨some ("*** Iteration over " ++ i ++ " ***"), loopLines ofRat i j outT tB tC⟩ := by
  have ho' := (isI_iff i outT).1 ho
  have hB' := (isCsr_iff i j tB).1 hB
  have hctx := extractContext_i hij hB hC
  have hsub := generateSubgraphs_outer hij hB hC outT
  have hnc : nodeContext (graph i j outT tB tC) = extractContext (spE tB tC) i := by
    simp [graph, nodeContext, IGraph.context]
  unfold graph at hsub hnc ⊢
  unfold lower
  simp only [Kind.isCompute, Bool.not_true, Bool.false_and, Bool.false_eq_true, if_false]
  have hso : isSparseOutput (IGraph.iter i (some { tensor := outT, layer := 0 })
      (IGraph.iter j none (IGraph.terminal (spE tB tC)))) = false := by
    simp [isSparseOutput, Leaf.mode, ho'.2]
  have hmode : ({ tensor := outT, layer := 0 } : Leaf).mode = Mode.dense := by simp [Leaf.mode, ho'.2]
  have hnext : ((Output.append outT 0).next (some 0) Kind.evaluate : Except GenErr (Output × SB F)) =
      .ok (.append outT 1, SB.empty) := by simp [Output.next]
  have hlater : (IGraph.iter i (some { tensor := outT, layer := 0 })
      (IGraph.iter j none (IGraph.terminal (spE tB tC)))).laterIndexes = [i, j] := by
    simp [IGraph.laterIndexes]
  have hin := lower_inner_eq ofRat n i j hij outT tB tC ho hB hC
  simp only [hso, hmode, Option.map_some, hnext, hsub, hnc, hctx, hlater, hin,
    layersToWrite_B i j hij tB hB, layersToWrite_out i j outT ho,
    Bool.and_false, Bool.or_false, Bool.false_and, Bool.false_eq_true, if_false, if_true,
    List.foldlM_cons, List.foldlM_nil, bind, Except.bind, pure, Except.pure,
    List.isEmpty_nil, Bool.not_true, Option.isNone_some, Bool.not_false, List.foldl_nil, List.foldl_cons,
    beq_self_eq_true, List.map_nil, List.nil_append, List.cons_append]
  simp [SB.mk', SB.append, SB.empty, SB.add, SB.loop, SB.finalize, branchJoin, andJoin, joinWith,
    loopLines, outerLoop, outerBody, ptrDecl, Leaf.index, Leaf.ptr, Leaf.prevPtr, prevLayerPointer,
    ho'.1, hB'.1]

end TV.Spmv
