import TensoraVerif.Lemmas.Dense2Model
import TensoraVerif.Lemmas.MergeBasic

/-!
C01 for the CSR sparse matrix–vector product `a(i) = B(i,j) * c(j)` (formats `a: d`, `B: ds`, `c: d`),
part 1: definitions.

* the class: `outT` an order-1 dense tensor indexed by `[i]` (`Dense2.isI`), `tB` an order-2 tensor
  indexed by `[i, j]` with modes `[dense, compressed]` (`isCsr`: dense rows, compressed columns = CSR),
  `tC` an order-1 dense tensor indexed by `[j]` (`Dense2.isJ`);
* `Spmv.graph`: the iteration graph the pipeline chooses;
* the CSR data model (`Csr`), the row sum IN LOOP ORDER (`accF`, `rowDotF`), what the machine checks at
  every stored entry (`stepFinite`);
* `Spmv.loopLines`: the loop nest that `lower` emits, written out.
-/
namespace TV.Spmv
open TV.IR TV.Gen TV.Graph TV.Merge
open TV.Dense1 (ptrDecl)
open TV.Dense2 (isI isJ bucketInitLines accStmt)

variable {F : Type} [FloatOps F]

/-! ### the class -/

/-- an order-2 tensor indexed by `[i, j]`, dense rows and compressed columns (CSR) -/
def isCsr (i j : String) (t : TensorId) : Bool :=
  t.indexes == [i, j] && t.modes == [Mode.dense, Mode.compressed]

/-- the terminal expression `B(i,j) * c(j)` -/
def spE (tB tC : TensorId) : IdExpr := .mul (.tensor tB) (.tensor tC)

/-- the iteration graph of `a(i) = Σ_j B(i,j) * c(j)`: dense loop over `i` (writing level 0 of the
output), loop over `j` below it -/
def graph (i j : String) (outT tB tC : TensorId) : IGraph :=
  .iter i (some ⟨outT, 0⟩) (.iter j none (.terminal (spE tB tC)))

/-- the sparse leaf of the inner loop: level 1 of `B` -/
def bLeaf (tB : TensorId) : Leaf := ⟨tB, 1⟩

/-! ### the data: a CSR matrix and a dense vector -/

/-- **Well-formed CSR arrays** of an `n × m` matrix with `nnz` stored entries: `pos` (used at
`0 … n`) starts at `0`, is non-decreasing and ends at `nnz`; every stored column `crd p`, `p < nnz`,
lies in `[0, m)`. Sortedness of the columns within a row is NOT part of it. -/
structure Csr (n m nnz : Nat) (pos : Nat → Nat) (crd : Nat → Nat) : Prop where
  pos0 : pos 0 = 0
  mono : ∀ k, k < n → pos k ≤ pos (k + 1)
  posn : pos n = nnz
  crdLt : ∀ p, p < nnz → crd p < m

/-- the product of stored entry `p` with the vector entry of its column -/
def termF (vB : Nat → F) (vC : Nat → F) (crd : Nat → Nat) (p : Nat) : F :=
  FloatOps.mul (vB p) (vC (crd p))

/-- **the sum in loop order** over the stored entries `p0, p0 + 1, …, p0 + k - 1`:
`((0 + t_{p0}) + t_{p0+1}) + …` with `0 = FloatOps.ofInt 0` (what the bucket initialisation stores:
the statement is `bucket[k] = 0` with an INTEGER literal, converted by the store) -/
def accF (vB : Nat → F) (vC : Nat → F) (crd : Nat → Nat) (p0 : Nat) : Nat → F
  | 0 => FloatOps.ofInt 0
  | k + 1 => FloatOps.add (accF vB vC crd p0 k) (termF vB vC crd (p0 + k))

/-- **row `ii` of the product**: `Σ_{p ∈ [pos ii, pos (ii+1))} B_vals[p] * c_vals[crd[p]]`, accumulated
in loop order from `ofInt 0` -/
def rowDotF (vB : Nat → F) (vC : Nat → F) (pos : Nat → Nat) (crd : Nat → Nat) (ii : Nat) : F :=
  accF vB vC crd (pos ii) (pos (ii + 1) - pos ii)

/-- what the machine checks at stored entry `p0 + k` of a row starting at `p0`: the two loaded
values, their product, the accumulator read back and the new running sum are finite -/
def stepFinite (vB : Nat → F) (vC : Nat → F) (crd : Nat → Nat) (p0 k : Nat) : Bool :=
  FloatOps.finite (vB (p0 + k)) && FloatOps.finite (vC (crd (p0 + k))) &&
  FloatOps.finite (termF vB vC crd (p0 + k)) &&
  FloatOps.finite (accF vB vC crd p0 k) && FloatOps.finite (accF vB vC crd p0 (k + 1))

/-! ### the emitted loop nest -/

/-- the statements between the `min` and the cursor increment of the inner loop:
`int p_<c>_0 = 0 * j_dim + j; if (true && i_<B>_1 == j) { bucket[0] = bucket[0] + B_vals[p_<B>_1] * c_vals[p_<c>_0]; }` -/
def midLines (ofRat : Rat → F) (j : String) (outT tB tC : TensorId) : List (Stmt F) :=
  [ptrDecl j tC,
   .branch (.bin .and (.boolLit true) (.bin .eq (.var (valueFromCrd tB.id 1)) (.var j)))
      (.block [.block [accStmt ofRat outT (spE tB tC)] (some "*** Computation of expression ***")] none)
      (.block [] none)]

/-- `while (true && p_<B>_1 < p_<B>_1_end) { int i_<B>_1 = B_1_crd[p_<B>_1]; int j = i_<B>_1; <mid>
p_<B>_1 = p_<B>_1 + (int)(i_<B>_1 == j); }` — C05's merge skeleton over the single leaf `⟨B, 1⟩` -/
def innerLoop (ofRat : Rat → F) (j : String) (outT tB tC : TensorId) : Stmt F :=
  mergeLoopL [bLeaf tB] j (midLines ofRat j outT tB tC)

/-- `{bucket initialisation} int p_<B>_1 = B_1_pos[p_<B>_0]; int p_<B>_1_end = B_1_pos[p_<B>_0 + 1];
while (…) { … }` -/
def innerLines (ofRat : Rat → F) (j : String) (outT tB tC : TensorId) : List (Stmt F) :=
  .block (bucketInitLines outT) (some "Bucket initialization") ::
    ((writeSparseInit (bLeaf tB)).lines ++ [innerLoop ofRat j outT tB tC])

def outerBody (ofRat : Rat → F) (i j : String) (outT tB tC : TensorId) : List (Stmt F) :=
  [ptrDecl i outT, ptrDecl i tB,
   .branch (.boolLit true)
      (.block [.block (innerLines ofRat j outT tB tC) (some ("*** Iteration over " ++ j ++ " ***"))] none)
      (.block [] none),
   increment (.var i) (.intLit 1)]

/-- `while (i < i_dim) { … }` -/
def outerLoop (ofRat : Rat → F) (i j : String) (outT tB tC : TensorId) : Stmt F :=
  .loop (.bin .lt (.var i) (.var (dimName i))) (.block (outerBody ofRat i j outT tB tC) none)

/-- `int i = 0; while (i < i_dim) { … }` -/
def loopLines (ofRat : Rat → F) (i j : String) (outT tB tC : TensorId) : List (Stmt F) :=
  [declAssignE i .int (.intLit 0), outerLoop ofRat i j outT tB tC]

end TV.Spmv
