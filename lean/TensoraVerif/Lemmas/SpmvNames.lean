import TensoraVerif.Lemmas.SpmvKernel

/-!
C01 for the CSR matrix–vector product, part 9: the name hypothesis of V2/V3 (`kernelNames … .Nodup`)
holds for the names the pipeline builds — index and tensor names without `'_'` (every name the parser
accepts is alphanumeric), pairwise different, tensor ids `0_<a>`, `1_<B>`, `2_<c>` (what `tensorId` and
`Alg.desugar` produce for `a(i) = B(i,j) * c(j)`). Every generated name is split at its `'_'`
characters (`segs`); different names have different segment lists.
-/
namespace TV.Spmv
open TV.IR TV.Gen TV.Graph
open TV.Dense2 (bN bL)

/-- split a character list at every `'_'` -/
def segs : List Char → List (List Char)
  | [] => [[]]
  | c :: cs =>
    if c = '_' then [] :: segs cs
    else match segs cs with
      | [] => [[c]]
      | s :: ss => (c :: s) :: ss

theorem segs_nous : ∀ {a : List Char}, '_' ∉ a → segs a = [a]
  | [], _ => rfl
  | c :: cs, h => by
    have hc : c ≠ '_' := fun e => h (by simp [e])
    have hcs : '_' ∉ cs := fun e => h (by simp [e])
    simp [segs, hc, segs_nous hcs]

theorem segs_append : ∀ {a : List Char} (r : List Char), '_' ∉ a → segs (a ++ '_' :: r) = a :: segs r
  | [], r, _ => by simp [segs]
  | c :: cs, r, h => by
    have hc : c ≠ '_' := fun e => h (by simp [e])
    have hcs : '_' ∉ cs := fun e => h (by simp [e])
    simp [segs, hc, segs_append r hcs]

/-- the tensors of `a(i) = B(i,j) * c(j)` as the pipeline builds them (`tensorId 0` for the output,
occurrence numbers 1 and 2 from `Alg.desugar`) -/
def pOut (an i : String) : TensorId := ⟨"0_" ++ an, an, [i], [.dense]⟩
def pB (Bn i j : String) : TensorId := ⟨"1_" ++ Bn, Bn, [i, j], [.dense, .compressed]⟩
def pC (cn j : String) : TensorId := ⟨"2_" ++ cn, cn, [j], [.dense]⟩

theorem nodup_of_map {α β : Type} (f : α → β) : ∀ {l : List α}, (l.map f).Nodup → l.Nodup
  | [], _ => List.nodup_nil
  | a :: l, h => by
    rw [List.map_cons, List.nodup_cons] at h
    rw [List.nodup_cons]
    exact ⟨fun hm => h.1 (List.mem_map_of_mem hm), nodup_of_map f h.2⟩

theorem toList_ne {a b : String} (h : a ≠ b) : a.toList ≠ b.toList :=
  fun e => h (String.toList_inj.1 e)

set_option maxRecDepth 4000 in
/-- **names.** The naming scheme makes all the variable names of the kernel pairwise distinct. -/
theorem kernelNames_nodup (i j an Bn cn : String)
    (hi : '_' ∉ i.toList) (hj : '_' ∉ j.toList) (ha : '_' ∉ an.toList) (hb : '_' ∉ Bn.toList)
    (hc : '_' ∉ cn.toList)
    (hij : i ≠ j) (hia : i ≠ an) (hib : i ≠ Bn) (hic : i ≠ cn) (hja : j ≠ an) (hjb : j ≠ Bn)
    (hjc : j ≠ cn) (hab : an ≠ Bn) (hac : an ≠ cn) (hbc : Bn ≠ cn) :
    (kernelNames i j (pOut an i) (pB Bn i j) (pC cn j)).Nodup := by
  apply nodup_of_map (fun s : String => segs s.toList)
  have t0 : Nat.toDigits 10 0 = ['0'] := by rfl
  have t1 : Nat.toDigits 10 1 = ['1'] := by rfl
  have e : (kernelNames i j (pOut an i) (pB Bn i j) (pC cn j)).map (fun s : String => segs s.toList) =
      [[i.toList, "dim".toList], [j.toList, "dim".toList], [an.toList, "vals".toList],
       [Bn.toList, "1".toList, "pos".toList], [Bn.toList, "1".toList, "crd".toList],
       [Bn.toList, "vals".toList], [cn.toList, "vals".toList],
       [i.toList], ["p".toList, "0".toList, an.toList, "0".toList],
       ["p".toList, "1".toList, Bn.toList, "0".toList], ["bucket".toList, "0".toList, an.toList],
       ["i".toList, "bucket".toList, "0".toList, an.toList],
       ["p".toList, "1".toList, Bn.toList, "1".toList],
       ["p".toList, "1".toList, Bn.toList, "1".toList, "end".toList],
       ["i".toList, "1".toList, Bn.toList, "1".toList], [j.toList],
       ["p".toList, "2".toList, cn.toList, "0".toList],
       [an.toList], [Bn.toList], [cn.toList], [an.toList, "vals".toList, "capacity".toList]] := by
    simp [kernelNames, pOut, pB, pC, dimName, valsName, posName, crdName, layerPointer, bN, bL, bucketName,
      bucketLoopName, bucketSuffix, sparseEndName, valueFromCrd, valsCapName, String.toList_append,
      List.append_assoc, segs_append, segs_nous, hi, hj, ha, hb, hc, segs, t0, t1]
  rw [e]
  have n1 := toList_ne hij
  have n2 := toList_ne hia
  have n3 := toList_ne hib
  have n4 := toList_ne hic
  have n5 := toList_ne hja
  have n6 := toList_ne hjb
  have n7 := toList_ne hjc
  have n8 := toList_ne hab
  have n9 := toList_ne hac
  have n10 := toList_ne hbc
  simp [List.nodup_cons, n1, n2, n3, n4, n5, n6, n7, n8, n9, n10, Ne.symm n1, Ne.symm n2, Ne.symm n3,
    Ne.symm n4, Ne.symm n5, Ne.symm n6, Ne.symm n7, Ne.symm n8, Ne.symm n9, Ne.symm n10]

end TV.Spmv
