import TensoraVerif.Lemmas.SpmvInner

/-!
C01 for the CSR matrix–vector product, part 6: the outer loop on the machine — one iteration
(`outerBody_runs`), the `while` loop by induction on the remaining rows (`outerLoop_runs`), and the
lowered loop nest with its initialisation (`loopLines_runs`): V2.
-/
namespace TV.Spmv
open TV.IR TV.Gen TV.Graph TV.Growth TV.Merge
open TV.ToIr hiding leaves valueF allFinite evalE_fadd evalE_fmul
open TV.Dense1 (RunsI RunsLI ptrDecl)
open TV.Dense2 (bN bL reqTy Frame OutIs isI isJ)
set_option linter.unusedSectionVars false
variable {F : Type} [FloatOps F]

section
variable {i j : String} {outT tB tC : TensorId} {n m nnz ob pb cb vb xb : Nat}
  {pos crd : Nat → Nat} {vB vC : Nat → F}

/-- every check of row `ii` passes -/
def RowFinite (vB vC : Nat → F) (pos crd : Nat → Nat) (ii : Nat) : Prop :=
  ∀ k, pos ii + k < pos (ii + 1) → stepFinite vB vC crd (pos ii) k = true

/-- **one iteration of the outer loop** at `i = ii` -/
theorem outerBody_runs (ofRat : Rat → F) (hN : (allNames i j outT tB tC).Nodup)
    (hB : isCsr i j tB = true) (hC : isJ j tC = true)
    (hcsr : Csr n m nnz pos crd)
    (hnnz : (nnz : Int) < 2147483648) (hm : (m : Int) < 2147483648) (hn : (n : Int) < 2147483648)
    {ii : Nat} (hii : ii < n) {cells : List (Option (Val F))} (hlen : ii < cells.length)
    (hfin : RowFinite vB vC pos crd ii)
    (σ : State F) (fuel : Nat) (henv : Env i j outT tB tC n m nnz ob pb cb vb xb pos crd vB vC σ)
    (hout : OutIs σ ob cells) (hi : IntVar σ i ii) (hfuel : (pos (ii + 1) - pos ii) + 2 ≤ fuel) :
    ∃ σ', RunsLI fuel (outerBody ofRat i j outT tB tC) σ σ' (1 + (pos (ii + 1) - pos ii)) ∧
      Env i j outT tB tC n m nnz ob pb cb vb xb pos crd vB vC σ' ∧
      OutIs σ' ob (cells.set ii (some (.flt (rowDotF vB vC pos crd ii)))) ∧
      IntVar σ' i ((ii + 1 : Nat) : Int) ∧
      Frame (scratch i j outT tB tC) ob σ σ' := by
  have hiiI : (ii : Int) < 2147483648 := by omega
  have hS : ∀ x, x ∈ scratch i j outT tB tC → x ∈ scratch i j outT tB tC := fun _ h => h
  have hxa : layerPointer outT.id 0 ∈ scratch i j outT tB tC := by simp [scratch]
  have hxb : layerPointer tB.id 0 ∈ scratch i j outT tB tC := by simp [scratch]
  have hxi : i ∈ scratch i j outT tB tC := by simp [scratch]
  -- int p_a_0 = 0 * i_dim + i
  have ev1 : evalE σ (plus (times (.intLit 0) (.var (dimName i))) (.var i)) =
      .ok (.int (0 * (n : Int) + ii)) :=
    evalE_add (evalE_mul (evalE_intLit (by omega) (by omega))
      (evalE_var_int henv.dimI (by omega) hn) (by omega) (by omega))
      (evalE_var_int hi (by omega) hiiI) (by omega) (by omega)
  obtain ⟨σ1, r1, hh1, henv1, hf1, hl1, ho1⟩ := declStep hN henv fuel (scratch i j outT tB tC)
    hxa (reqTy_int (by spnm hN)) hxa ev1 (val' := .int (0 * (n : Int) + ii)) rfl
  have hpa1 : IntVar σ1 (layerPointer outT.id 0) ii := by
    obtain ⟨r, h1', h2', h3'⟩ := hl1
    exact ⟨r, h1', h2', by rw [h3']; congr 2; omega⟩
  have hi1 : IntVar σ1 i ii := hi.congr (ho1 _ (by spnm hN))
  -- int p_B_0 = 0 * i_dim + i
  have ev2 : evalE σ1 (plus (times (.intLit 0) (.var (dimName i))) (.var i)) =
      .ok (.int (0 * (n : Int) + ii)) :=
    evalE_add (evalE_mul (evalE_intLit (by omega) (by omega))
      (evalE_var_int henv1.dimI (by omega) hn) (by omega) (by omega))
      (evalE_var_int hi1 (by omega) hiiI) (by omega) (by omega)
  obtain ⟨σ2, r2, hh2, henv2, hf2, hl2, ho2⟩ := declStep hN henv1 fuel (scratch i j outT tB tC)
    hxb (reqTy_int (by spnm hN)) hxb ev2 (val' := .int (0 * (n : Int) + ii)) rfl
  have hpb2 : IntVar σ2 (layerPointer tB.id 0) ii := by
    obtain ⟨r, h1', h2', h3'⟩ := hl2
    exact ⟨r, h1', h2', by rw [h3']; congr 2; omega⟩
  have hpa2 : IntVar σ2 (layerPointer outT.id 0) ii := hpa1.congr (ho2 _ (by spnm hN))
  have hi2 : IntVar σ2 i ii := hi1.congr (ho2 _ (by spnm hN))
  -- the inner block
  obtain ⟨σ3, r3, henv3, hout3, hf3⟩ := innerLines_runs ofRat hN hB hC hcsr hnnz hm hn hii hlen hfin σ2
    fuel henv2 (hout.congr (hh2.trans hh1)) hpa2 hpb2 hfuel
  have hi3 : IntVar σ3 i ii := hi2.congr (hf3.vars _ (by
    simp only [innerW, List.mem_cons, List.not_mem_nil, or_false, not_or]
    refine ⟨?_, ?_, ?_, ?_, ?_, ?_, ?_⟩ <;> spnm hN))
  have rb : RunsI fuel (.branch (.boolLit true)
      (.block [.block (innerLines ofRat j outT tB tC) (some ("*** Iteration over " ++ j ++ " ***"))] none)
      (.block [] none)) σ2 σ3 (1 + (pos (ii + 1) - pos ii)) := by
    have := Dense1.RunsI.branch_true (f := (.block [] none : Stmt F)) (c := .boolLit true) (by simp [evalE])
      (Dense1.RunsI.block (c := none) (Dense1.RunsLI.cons
        (Dense1.RunsI.block (c := some ("*** Iteration over " ++ j ++ " ***")) r3)
        (Dense1.RunsLI.nil _ _)))
    simpa using this
  -- i = i + 1
  obtain ⟨σ4, r4, hh4, henv4, hf4, hi4, ho4⟩ := assignIntStep hN henv3 fuel (scratch i j outT tB tC)
    hxi hxi hi3
    (evalE_add (evalE_var_int hi3 (by omega) hiiI) (evalE_intLit (v := 1) (by omega) (by omega))
      (by omega) (by omega))
  refine ⟨σ4, ?_, henv4, hout3.congr hh4, ?_, ?_⟩
  · have := Dense1.RunsLI.cons r1 (Dense1.RunsLI.cons r2 (Dense1.RunsLI.cons rb
      (Dense1.RunsLI.cons r4 (Dense1.RunsLI.nil _ _))))
    simpa [outerBody, increment, plus, ptrDecl] using this
  · obtain ⟨r, h1, h2, h3⟩ := hi4
    exact ⟨r, h1, h2, by rw [h3]; push_cast; rfl⟩
  · exact (hf1.trans hf2).trans ((hf3.mono (innerW_sub i j outT tB tC)).trans hf4)

/-- **Postcondition of the loop nest** run from `σ` (outer index at `i0`) to `σ'`: cells
`i0 ≤ k < n` of the output block hold the row sums in loop order, every other cell of it is unchanged;
every other block, every tensor record and every non-scratch variable is unchanged; the outer index
ends at `n` -/
structure Post (i j : String) (outT tB tC : TensorId) (n ob : Nat) (pos crd : Nat → Nat)
    (vB vC : Nat → F) (i0 : Nat) (cells : List (Option (Val F))) (σ σ' : State F) : Prop where
  frame : Frame (scratch i j outT tB tC) ob σ σ'
  out : ∃ cells', OutIs σ' ob cells' ∧ cells'.length = cells.length ∧
    (∀ k, i0 ≤ k → k < n → cells'[k]? = some (some (.flt (rowDotF vB vC pos crd k)))) ∧
    (∀ k, (k < i0 ∨ n ≤ k) → cells'[k]? = cells[k]?)
  idx : IntVar σ' i n

/-- **the outer `while` loop**, by induction on the number `rem` of remaining rows: it performs
`2 * rem + (pos n − pos ii)` loop iterations (outer, bucket initialisation, one per stored entry) -/
theorem outerLoop_runs (ofRat : Rat → F) (hN : (allNames i j outT tB tC).Nodup)
    (hB : isCsr i j tB = true) (hC : isJ j tC = true)
    (hcsr : Csr n m nnz pos crd)
    (hnnz : (nnz : Int) < 2147483648) (hm : (m : Int) < 2147483648) (hn : (n : Int) < 2147483648)
    (L : Nat) (hL : ∀ ii, ii < n → pos (ii + 1) - pos ii ≤ L)
    (hfin : ∀ ii, ii < n → RowFinite vB vC pos crd ii) :
    ∀ (rem ii : Nat) (σ : State F) (fuel : Nat) (cells : List (Option (Val F))), ii + rem = n →
      Env i j outT tB tC n m nnz ob pb cb vb xb pos crd vB vC σ → OutIs σ ob cells → n ≤ cells.length →
      IntVar σ i ii → rem + L + 2 ≤ fuel →
      ∃ σ', RunsI fuel (outerLoop ofRat i j outT tB tC) σ σ' (2 * rem + (pos n - pos ii)) ∧
        Post i j outT tB tC n ob pos crd vB vC ii cells σ σ' := by
  intro rem
  induction rem with
  | zero =>
    intro ii σ fuel cells hin henv hout hlen hi hfuel
    obtain ⟨fuel', rfl⟩ := Nat.exists_eq_add_of_le (show 1 ≤ fuel by omega)
    have hjn : ii = n := by omega
    subst hjn
    have ec := Dense1.evalE_lt (evalE_var_int hi (by omega) hn) (evalE_var_int henv.dimI (by omega) hn)
    have hd : decide ((ii : Int) < (ii : Int)) = false := by simp
    rw [hd] at ec
    refine ⟨σ, ?_, Frame.refl _ _ _, ⟨cells, hout, rfl, fun k h1 h2 => by omega, fun _ _ => rfl⟩, hi⟩
    rw [show 1 + fuel' = fuel' + 1 by omega, Nat.sub_self]
    exact Dense1.RunsI.loop_false ec
  | succ rem ih =>
    intro ii σ fuel cells hin henv hout hlen hi hfuel
    obtain ⟨fuel', rfl⟩ := Nat.exists_eq_add_of_le (show 1 ≤ fuel by omega)
    have hii : ii < n := by omega
    have ec := Dense1.evalE_lt (evalE_var_int hi (by omega) (by omega))
      (evalE_var_int henv.dimI (by omega) hn)
    have hd : decide ((ii : Int) < (n : Int)) = true := by simp; omega
    rw [hd] at ec
    have hLi := hL ii hii
    obtain ⟨σ1, r1, henv1, hout1, hi1, hf1⟩ := outerBody_runs ofRat hN hB hC hcsr hnnz hm hn hii (by omega)
      (hfin ii hii) σ fuel' henv hout hi (by omega)
    obtain ⟨σ', r2, hp⟩ := ih (ii + 1) σ1 fuel' _ (by omega) henv1 hout1 (by simpa using hlen) hi1
      (by omega)
    refine ⟨σ', ?_, hf1.trans hp.frame, ?_, hp.idx⟩
    · have := Dense1.RunsI.loop_true ec (Dense1.RunsI.block r1) r2
      have h1 := hcsr.mono ii hii
      have h2 := hcsr.pos_le (n - (ii + 1)) (ii + 1) (by omega)
      rw [show ii + 1 + (n - (ii + 1)) = n by omega] at h2
      rw [show 1 + fuel' = fuel' + 1 by omega,
        show 2 * (rem + 1) + (pos n - pos ii) =
          1 + (pos (ii + 1) - pos ii) + (2 * rem + (pos n - pos (ii + 1))) + 1 by omega]
      simpa [outerLoop] using this
    · obtain ⟨cells', ho', hl', hc1, hc2⟩ := hp.out
      refine ⟨cells', ho', by simpa using hl', ?_, ?_⟩
      · intro k hk1 hk2
        by_cases hki : k = ii
        · subst hki
          rw [hc2 k (Or.inl (by omega))]
          simp only [List.getElem?_set_self (by omega : k < cells.length)]
        · exact hc1 k (by omega) hk2
      · intro k hk
        rw [hc2 k (by omega), List.getElem?_set_ne (by omega)]

/-- **V2 core: the lowered loop nest** `int i = 0; while (i < i_dim) { … }` runs in exactly
`2 * n + nnz` loop iterations -/
theorem loopLines_runs (ofRat : Rat → F) (hN : (allNames i j outT tB tC).Nodup)
    (hB : isCsr i j tB = true) (hC : isJ j tC = true)
    (hcsr : Csr n m nnz pos crd)
    (hnnz : (nnz : Int) < 2147483648) (hm : (m : Int) < 2147483648) (hn : (n : Int) < 2147483648)
    (L : Nat) (hL : ∀ ii, ii < n → pos (ii + 1) - pos ii ≤ L)
    (hfin : ∀ ii, ii < n → RowFinite vB vC pos crd ii)
    (σ : State F) (fuel : Nat) (cells : List (Option (Val F)))
    (henv : Env i j outT tB tC n m nnz ob pb cb vb xb pos crd vB vC σ) (hout : OutIs σ ob cells)
    (hlen : n ≤ cells.length) (hfuel : n + L + 2 ≤ fuel) :
    ∃ σ', RunsLI fuel (loopLines ofRat i j outT tB tC) σ σ' (2 * n + nnz) ∧
      Post i j outT tB tC n ob pos crd vB vC 0 cells σ σ' := by
  have hxi : i ∈ scratch i j outT tB tC := by simp [scratch]
  obtain ⟨σa, ra, hh, henva, hfa, hla, hoa⟩ := declStep hN henv fuel (scratch i j outT tB tC)
    hxi (reqTy_int (by spnm hN)) hxi
    (evalE_intLit (σ := σ) (v := 0) (by omega) (by omega)) (val' := .int 0) rfl
  have hi : IntVar σa i ((0 : Nat) : Int) := hla
  obtain ⟨σ', rl, hp⟩ := outerLoop_runs ofRat hN hB hC hcsr hnnz hm hn L hL hfin n 0 σa fuel cells
    (by omega) henva (hout.congr hh) hlen hi hfuel
  refine ⟨σ', ?_, hfa.trans hp.frame, hp.out, hp.idx⟩
  have := Dense1.RunsLI.cons ra (Dense1.RunsLI.cons rl (Dense1.RunsLI.nil _ _))
  rw [hcsr.pos0, hcsr.posn] at this
  simpa [loopLines] using this

end

end TV.Spmv
