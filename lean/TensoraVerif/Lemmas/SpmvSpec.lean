import TensoraVerif.Lemmas.SpmvModel
import TensoraVerif.Lemmas.Dense2Steps
import TensoraVerif.Lemmas.MergeInit

/-!
C01 for the CSR matrix–vector product, part 4: the specification vocabulary of the loop nest (V2) —
the variables it writes (`scratch`) and only reads (`readOnly`), the name-distinctness condition
(`allNames … .Nodup`, with the tactic `spnm`), the part of the state it only reads (`Env`) — and the
single-statement lemmas that thread the environment (`declStep`, `assignIntStep`).
-/
namespace TV.Spmv
open TV.IR TV.Gen TV.Graph TV.Growth TV.Merge
open TV.ToIr hiding leaves valueF allFinite evalE_fadd evalE_fmul
open TV.Dense1 (RunsI RunsLI)
open TV.Dense2 (bN bL reqTy Frame OutIs)
set_option linter.unusedSectionVars false
variable {F : Type} [FloatOps F]

/-! ### names -/

/-- the variables the loop nest reads but never writes: `i_dim`, `j_dim`, `a_vals`, `B_1_pos`,
`B_1_crd`, `B_vals`, `c_vals` -/
def readOnly (i j : String) (outT tB tC : TensorId) : List String :=
  [dimName i, dimName j, valsName outT.name, posName tB.name 1, crdName tB.name 1, valsName tB.name,
   valsName tC.name]

/-- everything the loop nest writes: `i`, the cursors `p_<a>_0`, `p_<B>_0`, the bucket pointer and its
loop index, the row cursor `p_<B>_1` and its end, the loaded column `i_<B>_1`, `j`, the cursor
`p_<c>_0` -/
def scratch (i j : String) (outT tB tC : TensorId) : List String :=
  [i, layerPointer outT.id 0, layerPointer tB.id 0, bN outT, bL outT, layerPointer tB.id 1,
   sparseEndName tB.id 1, valueFromCrd tB.id 1, j, layerPointer tC.id 0]

/-- everything one run of the inner lines (one outer iteration's work) writes -/
def innerW (j : String) (outT tB tC : TensorId) : List String :=
  [bN outT, bL outT, layerPointer tB.id 1, sparseEndName tB.id 1, valueFromCrd tB.id 1, j,
   layerPointer tC.id 0]

theorem innerW_sub (i j : String) (outT tB tC : TensorId) :
    ∀ x ∈ innerW j outT tB tC, x ∈ scratch i j outT tB tC := by
  intro x hx
  exact (List.mem_append_right [i, layerPointer outT.id 0, layerPointer tB.id 0] hx :
    x ∈ [i, layerPointer outT.id 0, layerPointer tB.id 0] ++ innerW j outT tB tC)

/-- every variable of the loop nest; **the names that must be pairwise distinct** (decidable; true of
the names the pipeline builds) -/
def allNames (i j : String) (outT tB tC : TensorId) : List String :=
  [dimName i, dimName j, valsName outT.name, posName tB.name 1, crdName tB.name 1, valsName tB.name,
   valsName tC.name,
   i, layerPointer outT.id 0, layerPointer tB.id 0, bN outT, bL outT, layerPointer tB.id 1,
   sparseEndName tB.id 1, valueFromCrd tB.id 1, j, layerPointer tC.id 0]

/-- `x` is the element at position `a` of `l` -/
def At (l : List String) (a : Nat) (x : String) : Prop := l[a]? = some x

theorem At.head {x : String} {l : List String} : At (x :: l) 0 x := rfl
theorem At.tail {x y : String} {l : List String} {a : Nat} (h : At l a x) : At (y :: l) (a + 1) x := h

theorem ne_of_nodup_at {l : List String} (h : l.Nodup) {a b : Nat} {x y : String}
    (hx : At l a x) (hy : At l b y) (hab : a ≠ b) : x ≠ y := by
  intro e
  subst e
  unfold At at hx hy
  have ha : a < l.length := by
    rcases Nat.lt_or_ge a l.length with h' | h'
    · exact h'
    · rw [List.getElem?_eq_none h'] at hx; cases hx
  exact hab ((List.getElem?_inj ha h).1 (hx.trans hy.symm))

/-- find the position of a name in an explicit list (syntactic match) -/
syntax "sp_at" : tactic
macro_rules
  | `(tactic| sp_at) => `(tactic| first | exact At.head | (apply At.tail; sp_at))

/-- `spnm hN` proves `x ≠ y` for two names occurring at different positions of the list `l` of
`hN : l.Nodup` -/
macro "spnm " hN:term : tactic =>
  `(tactic| (apply ne_of_nodup_at $hN; sp_at; sp_at; decide))

theorem scratch_sub (i j : String) (outT tB tC : TensorId) :
    ∀ x ∈ scratch i j outT tB tC, x ∈ allNames i j outT tB tC := by
  intro x hx
  exact (List.mem_append_right (readOnly i j outT tB tC) hx : x ∈ readOnly i j outT tB tC ++ scratch i j outT tB tC)

/-- a read-only name is not a scratch name -/
theorem readOnly_not_scratch {i j : String} {outT tB tC : TensorId}
    (hN : (allNames i j outT tB tC).Nodup) :
    ∀ x ∈ readOnly i j outT tB tC, x ∉ scratch i j outT tB tC := by
  have hN' : (readOnly i j outT tB tC ++ scratch i j outT tB tC).Nodup := hN
  intro x hx hs
  exact (List.nodup_append.1 hN').2.2 x hx x hs rfl

theorem scratch_nodup {i j : String} {outT tB tC : TensorId}
    (hN : (allNames i j outT tB tC).Nodup) : (scratch i j outT tB tC).Nodup := by
  have hN' : (readOnly i j outT tB tC ++ scratch i j outT tB tC).Nodup := hN
  exact (List.nodup_append.1 hN').2.1

/-! ### the state -/

/-- **the part of the state the loop nest reads.** `i_dim = n`, `j_dim = m`; `<a>_vals` points to block
`ob`; `B_1_pos` points to a live `int` block (`pb`) whose cells `0 … n` hold `pos`; `B_1_crd` to a live
`int` block (`cb`) whose first `nnz` cells hold `crd`; `B_vals` to a live float block (`vb`) whose first
`nnz` cells hold `vB`; `c_vals` to a live float block (`xb`) whose first `m` cells hold `vC`; none of
these four blocks is `ob`; the scratch variables are undeclared or declared with the type the nest
declares them with. -/
structure Env (i j : String) (outT tB tC : TensorId) (n m nnz ob pb cb vb xb : Nat)
    (pos crd : Nat → Nat) (vB vC : Nat → F) (σ : State F) : Prop where
  dimI : IntVar σ (dimName i) n
  dimJ : IntVar σ (dimName j) m
  out : PtrVar σ (valsName outT.name) ob
  posv : PtrVar σ (posName tB.name 1) pb
  crdv : PtrVar σ (crdName tB.name 1) cb
  bvals : PtrVar σ (valsName tB.name) vb
  cvals : PtrVar σ (valsName tC.name) xb
  posBlk : ∃ blk, σ.heap[pb]? = some blk ∧ blk.live = true ∧ blk.ty = .int ∧
    ∀ k, k ≤ n → blk.cells[k]? = some (some (.int (pos k)))
  crdBlk : ∃ blk, σ.heap[cb]? = some blk ∧ blk.live = true ∧ blk.ty = .int ∧ nnz ≤ blk.cells.length ∧
    ∀ p, p < nnz → blk.cells[p]? = some (some (.int (crd p)))
  bBlk : ∃ blk, σ.heap[vb]? = some blk ∧ blk.live = true ∧ blk.ty = .float ∧
    ∀ p, p < nnz → blk.cells[p]? = some (some (.flt (vB p)))
  cBlk : ∃ blk, σ.heap[xb]? = some blk ∧ blk.live = true ∧ blk.ty = .float ∧
    ∀ k, k < m → blk.cells[k]? = some (some (.flt (vC k)))
  ne : pb ≠ ob ∧ cb ≠ ob ∧ vb ≠ ob ∧ xb ≠ ob
  typed : ∀ x ∈ scratch i j outT tB tC, ∀ r, lookupVar σ.vars x = some r → r.ty = reqTy outT x

section
variable {i j : String} {outT tB tC : TensorId} {n m nnz ob pb cb vb xb : Nat}
  {pos crd : Nat → Nat} {vB vC : Nat → F}

/-- the environment is stable under runs that only write scratch variables and block `ob` -/
theorem Env.transfer {σ σ' : State F} {W : List String}
    (hN : (allNames i j outT tB tC).Nodup)
    (henv : Env i j outT tB tC n m nnz ob pb cb vb xb pos crd vB vC σ)
    (hf : Frame W ob σ σ') (hW : ∀ x ∈ W, x ∈ scratch i j outT tB tC)
    (hty : ∀ x ∈ W, ∀ r, lookupVar σ'.vars x = some r → r.ty = reqTy outT x) :
    Env i j outT tB tC n m nnz ob pb cb vb xb pos crd vB vC σ' := by
  have hro : ∀ x ∈ readOnly i j outT tB tC, lookupVar σ'.vars x = lookupVar σ.vars x :=
    fun x hx => hf.vars x (fun hm => readOnly_not_scratch hN x hx (hW x hm))
  obtain ⟨n1, n2, n3, n4⟩ := henv.ne
  refine ⟨henv.dimI.congr (hro _ (by simp [readOnly])), henv.dimJ.congr (hro _ (by simp [readOnly])),
    henv.out.congr (hro _ (by simp [readOnly])), henv.posv.congr (hro _ (by simp [readOnly])),
    henv.crdv.congr (hro _ (by simp [readOnly])), henv.bvals.congr (hro _ (by simp [readOnly])),
    henv.cvals.congr (hro _ (by simp [readOnly])), ?_, ?_, ?_, ?_, henv.ne, ?_⟩
  · rw [hf.heap _ n1]; exact henv.posBlk
  · rw [hf.heap _ n2]; exact henv.crdBlk
  · rw [hf.heap _ n3]; exact henv.bBlk
  · rw [hf.heap _ n4]; exact henv.cBlk
  · intro x hx r hr
    by_cases hxW : x ∈ W
    · exact hty x hxW r hr
    · rw [hf.vars x hxW] at hr; exact henv.typed x hx r hr

theorem Env.writeCell {σ : State F} {cells : List (Option (Val F))}
    (hN : (allNames i j outT tB tC).Nodup)
    (henv : Env i j outT tB tC n m nnz ob pb cb vb xb pos crd vB vC σ)
    (h : OutIs σ ob cells) (k : Nat) (v : Val F) :
    Env i j outT tB tC n m nnz ob pb cb vb xb pos crd vB vC (writeCell σ ob k v) := by
  obtain ⟨_, hf, hv⟩ := Dense2.writeCell_out h k v []
  refine henv.transfer hN hf (fun x hx => by cases hx) (fun x hx => by cases hx)

/-- `T x = e;` for a scratch variable, with the environment and the footprint -/
theorem declStep {σ : State F} (hN : (allNames i j outT tB tC).Nodup)
    (henv : Env i j outT tB tC n m nnz ob pb cb vb xb pos crd vB vC σ)
    (fuel : Nat) {x : String} {t : Ty} {ex : Expr F} {val val' : Val F} (W : List String)
    (hx : x ∈ scratch i j outT tB tC) (ht : reqTy outT x = t) (hxW : x ∈ W)
    (he : evalE σ ex = .ok val) (hconv : convTo t val = .ok val') :
    ∃ σ', RunsI fuel (declAssignE x t ex) σ σ' 0 ∧ σ'.heap = σ.heap ∧
      Env i j outT tB tC n m nnz ob pb cb vb xb pos crd vB vC σ' ∧
      Frame W ob σ σ' ∧
      (∃ r, lookupVar σ'.vars x = some r ∧ r.ty = t ∧ r.val = some val') ∧
      ∀ y, y ≠ x → lookupVar σ'.vars y = lookupVar σ.vars y := by
  obtain ⟨σ', r, hh, htn, ⟨rr, hr1, hr2, hr3⟩, ho⟩ := Dense1.runsI_declAssign (fuel := fuel) (x := x)
    (t := t) (e := ex) (val := val) (val' := val')
    (fun r hr => (henv.typed x hx r hr).trans ht) he hconv
  have hf1 : Frame [x] ob σ σ' := Frame.of_vars hh htn (fun y hy => ho y (by simpa using hy))
  refine ⟨σ', r, hh, ?_, hf1.mono (by simpa using hxW), ⟨rr, hr1, hr2, hr3⟩, ho⟩
  refine henv.transfer hN hf1 (by simpa using hx) ?_
  intro y hy r' hr'
  simp only [List.mem_singleton] at hy
  subst hy
  rw [hr1] at hr'; cases hr'
  rw [hr2, ht]

/-- `x = e;` for an `int` scratch variable -/
theorem assignIntStep {σ : State F} (hN : (allNames i j outT tB tC).Nodup)
    (henv : Env i j outT tB tC n m nnz ob pb cb vb xb pos crd vB vC σ)
    (fuel : Nat) {x : String} {ex : Expr F} {v0 v : Int} (W : List String)
    (hx : x ∈ scratch i j outT tB tC) (hxW : x ∈ W)
    (hv : IntVar σ x v0) (he : evalE σ ex = .ok (.int v)) :
    ∃ σ', RunsI fuel (.assign (.var x) ex) σ σ' 0 ∧ σ'.heap = σ.heap ∧
      Env i j outT tB tC n m nnz ob pb cb vb xb pos crd vB vC σ' ∧
      Frame W ob σ σ' ∧ IntVar σ' x v ∧
      ∀ y, y ≠ x → lookupVar σ'.vars y = lookupVar σ.vars y := by
  have hrun := Dense1.RunsI.of_assign (Runs.assign_int (fuel := fuel) hv he)
  obtain ⟨r, hr1, hr2, _⟩ := hv
  have hl : lookupVar (setVar σ.vars x (.int v)) x = some { r with val := some (.int v) } :=
    lookupVar_setVar_same _ hr1
  have ho : ∀ y, y ≠ x → lookupVar (setVar σ.vars x (.int v)) y = lookupVar σ.vars y :=
    fun y hy => lookupVar_setVar_other _ hy
  have hf1 : Frame [x] ob σ { σ with vars := setVar σ.vars x (.int v) } :=
    Frame.of_vars rfl rfl (fun y hy => ho y (by simpa using hy))
  refine ⟨_, hrun, rfl, ?_, hf1.mono (by simpa using hxW), ⟨_, hl, hr2, rfl⟩, ho⟩
  refine henv.transfer hN hf1 (by simpa using hx) ?_
  intro y hy r' hr'
  simp only [List.mem_singleton] at hy
  subst hy
  have hr'' : lookupVar (setVar σ.vars y (.int v)) y = some r' := hr'
  rw [hl] at hr''; cases hr''
  exact henv.typed y hx r hr1

end

/-- the declared type of every scratch variable except the bucket pointer is `int` -/
theorem reqTy_int {outT : TensorId} {x : String} (h : x ≠ bN outT) : reqTy outT x = .int :=
  Dense2.reqTy_of_ne h

end TV.Spmv
