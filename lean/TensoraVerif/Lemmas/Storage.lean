import TensoraVerif.Model.Storage

/-! Helper lemmas about the storage model (M5). Property theorems live in `Props/C09.lean`. -/
namespace TV.Storage

abbrev SInc (l : List Int) : Prop := l.Pairwise (· < ·)

theorem insertSorted_mem (k x : Int) (l : List Int) :
    x ∈ insertSorted k l ↔ x = k ∨ x ∈ l := by
  induction l with
  | nil => simp [insertSorted]
  | cons y ys ih =>
    unfold insertSorted
    split
    · simp
    · split
      · rename_i h1 h2; subst h2; simp
      · simp [ih]; constructor
        · rintro (h | h | h) <;> simp [h]
        · rintro (h | h | h) <;> simp [h]

theorem insertSorted_sinc (k : Int) (l : List Int) (h : SInc l) : SInc (insertSorted k l) := by
  induction l with
  | nil => simp [insertSorted, SInc]
  | cons y ys ih =>
    unfold insertSorted
    have hy : ∀ z ∈ ys, y < z := (List.pairwise_cons.mp h).1
    have hys : SInc ys := (List.pairwise_cons.mp h).2
    split
    · rename_i hk
      refine List.pairwise_cons.mpr ⟨?_, h⟩
      intro z hz
      rcases List.mem_cons.mp hz with hz | hz
      · subst hz; exact hk
      · exact Int.lt_trans hk (hy z hz)
    · split
      · exact h
      · rename_i h1 h2
        refine List.pairwise_cons.mpr ⟨?_, ih hys⟩
        intro z hz
        rcases (insertSorted_mem k z ys).mp hz with hz | hz
        · subst hz; omega
        · exact hy z hz

theorem keys_sinc (es : List Entry) : SInc (keys es) := by
  unfold keys
  induction es with
  | nil => simp [SInc]
  | cons e es ih =>
    simp only [List.foldr_cons]
    split
    · exact insertSorted_sinc _ _ ih
    · exact ih

theorem keys_mem (es : List Entry) (k : Int) :
    k ∈ keys es ↔ ∃ e ∈ es, e.1.head? = some k := by
  unfold keys
  induction es with
  | nil => simp
  | cons e es ih =>
    simp only [List.foldr_cons]
    split
    · rename_i c cs hc
      rw [insertSorted_mem, ih]
      constructor
      · rintro (h | ⟨e', he', hk⟩)
        · exact ⟨e, by simp, by simp [hc, h]⟩
        · exact ⟨e', by simp [he'], hk⟩
      · rintro ⟨e', he', hk⟩
        rcases List.mem_cons.mp he' with h | h
        · subst h; left; simp [hc] at hk; exact hk.symm
        · right; exact ⟨e', h, hk⟩
    · rename_i hc
      rw [ih]
      constructor
      · rintro ⟨e', he', hk⟩; exact ⟨e', by simp [he'], hk⟩
      · rintro ⟨e', he', hk⟩
        rcases List.mem_cons.mp he' with h | h
        · subst h
          simp [hc] at hk
        · exact ⟨e', h, hk⟩

/-- strictly increasing lists are determined by their members -/
theorem sinc_ext : ∀ (l₁ l₂ : List Int), SInc l₁ → SInc l₂ → (∀ x, x ∈ l₁ ↔ x ∈ l₂) → l₁ = l₂
  | [], [], _, _, _ => rfl
  | [], b :: _, _, _, h => by have := (h b).mpr (by simp); simp at this
  | a :: _, [], _, _, h => by have := (h a).mp (by simp); simp at this
  | a :: as, b :: bs, h1, h2, h => by
    have ha := (List.pairwise_cons.mp h1)
    have hb := (List.pairwise_cons.mp h2)
    have hab : a = b := by
      have h1' := (h a).mp (by simp)
      have h2' := (h b).mpr (by simp)
      rcases List.mem_cons.mp h1' with e | e
      · exact e
      · rcases List.mem_cons.mp h2' with e' | e'
        · exact e'.symm
        · have := ha.1 b e'; have := hb.1 a e; omega
    subst hab
    congr 1
    apply sinc_ext as bs ha.2 hb.2
    intro x
    constructor
    · intro hx
      have := (h x).mp (by simp [hx])
      rcases List.mem_cons.mp this with e | e
      · subst e; have := ha.1 x hx; omega
      · exact e
    · intro hx
      have := (h x).mpr (by simp [hx])
      rcases List.mem_cons.mp this with e | e
      · subst e; have := hb.1 x hx; omega
      · exact e

theorem keys_perm {es es' : List Entry} (h : es.Perm es') : keys es = keys es' := by
  apply sinc_ext _ _ (keys_sinc _) (keys_sinc _)
  intro x
  rw [keys_mem, keys_mem]
  constructor
  · rintro ⟨e, he, hk⟩; exact ⟨e, h.mem_iff.mp he, hk⟩
  · rintro ⟨e, he, hk⟩; exact ⟨e, h.mem_iff.mpr he, hk⟩

theorem subEntries_perm {es es' : List Entry} (h : es.Perm es') (k : Int) :
    (subEntries es k).Perm (subEntries es' k) := by
  unfold subEntries; exact h.filterMap _

theorem sumVals_perm {es es' : List Entry} (h : es.Perm es') : sumVals es = sumVals es' := by
  unfold sumVals
  apply h.foldl_eq'
  intro x _ y _ z
  omega

/-- the per-level arrays do not depend on the order in which entries are supplied -/
theorem enc_perm : ∀ (ms : List Mode) (ds : List Nat) {es es' : List Entry},
    es.Perm es' → enc ms ds es = enc ms ds es'
  | [], _, _, _, h => by simp [enc, sumVals_perm h]
  | m :: ms, ds, es, es', h => by
    unfold enc
    have hk : keys es = keys es' := keys_perm h
    have hsub : ∀ k, enc ms ds.tail (subEntries es k) = enc ms ds.tail (subEntries es' k) :=
      fun k => enc_perm ms ds.tail (subEntries_perm h k)
    simp only [hk, hsub]

end TV.Storage
