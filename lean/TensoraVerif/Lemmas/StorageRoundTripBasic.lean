import TensoraVerif.Lemmas.Storage

/-! Generic list facts used by the C09 round-trip proof: `cumFrom`, `foldlM` over `Option`,
`mergeLvs` algebra, the foldr-form of the sibling loop of `enc`. -/
namespace TV.Storage

/-! ### cumulative sums -/

theorem cumFrom_length (s : Nat) (seg : List Nat) : (cumFrom s seg).length = seg.length + 1 := by
  induction seg generalizing s with
  | nil => simp [cumFrom]
  | cons x xs ih => simp [cumFrom, ih]

theorem cumFrom_head (s : Nat) (seg : List Nat) : (cumFrom s seg).head? = some s := by
  cases seg <;> simp [cumFrom]

theorem cumFrom_getLast (s : Nat) (seg : List Nat) : (cumFrom s seg).getLast? = some (s + seg.sum) := by
  induction seg generalizing s with
  | nil => simp [cumFrom]
  | cons x xs ih =>
    have hne : cumFrom (s + x) xs ≠ [] := by
      intro h; have := cumFrom_length (s + x) xs; simp [h] at this
    simp only [cumFrom, List.sum_cons]
    rw [List.getLast?_cons_of_ne_nil hne, ih]
    simp [Nat.add_assoc]

theorem cumFrom_getElem? (s : Nat) (seg : List Nat) (k : Nat) (hk : k ≤ seg.length) :
    (cumFrom s seg)[k]? = some (s + (seg.take k).sum) := by
  induction seg generalizing s k with
  | nil => simp at hk; subst hk; simp [cumFrom]
  | cons x xs ih =>
    cases k with
    | zero => simp [cumFrom]
    | succ k =>
      simp only [cumFrom, List.getElem?_cons_succ, List.take_succ_cons, List.sum_cons]
      rw [ih _ _ (by simpa using hk)]
      simp [Nat.add_assoc]

theorem cumFrom_split (xs : List Nat) (y : Nat) (ys : List Nat) :
    (cumFrom 0 (xs ++ (y :: ys)))[xs.length]? = some xs.sum ∧
    (cumFrom 0 (xs ++ (y :: ys)))[xs.length + 1]? = some (xs.sum + y) := by
  constructor
  · rw [cumFrom_getElem? _ _ _ (by simp)]; simp
  · rw [cumFrom_getElem? _ _ _ (by simp)]
    simp [List.take_add_one]

/-! ### `foldlM` over `Option` that appends results -/

theorem foldlM_append_some {α β : Type} (body : List β → α → Option (List β)) (g : α → List β)
    (l : List α) (h : ∀ acc, ∀ x ∈ l, body acc x = some (acc ++ g x)) (init : List β) :
    l.foldlM body init = some (init ++ l.flatMap g) := by
  induction l generalizing init with
  | nil => simp
  | cons x xs ih =>
    simp only [List.foldlM_cons, List.flatMap_cons]
    rw [h init x (by simp)]
    simp only [Option.bind_eq_bind, Option.bind_some]
    rw [ih (fun acc y hy => h acc y (by simp [hy]))]
    simp

theorem map_range_getD {α : Type} (l : List α) (d : α) :
    (List.range l.length).map (fun j => l.getD j d) = l := by
  apply List.ext_getElem
  · simp
  · intro i h1 h2
    simp at h1
    simp [h1]

theorem flatMap_range_getD {α β : Type} (l : List α) (d : α) (G : α → List β) :
    (List.range l.length).flatMap (fun j => G (l.getD j d)) = l.flatMap G := by
  have : (List.range l.length).flatMap (fun j => G (l.getD j d))
      = ((List.range l.length).map (fun j => l.getD j d)).flatMap G := by
    rw [List.flatMap_map]
  rw [this, map_range_getD]

/-! ### `mergeLvs` -/

theorem Lv.append_assoc (a b c : Lv) : (a.append b).append c = a.append (b.append c) := by
  simp [Lv.append, List.append_assoc]

theorem mergeLvs_assoc : ∀ (a b c : List Lv),
    mergeLvs (mergeLvs a b) c = mergeLvs a (mergeLvs b c)
  | [], _, _ => by simp [mergeLvs]
  | _ :: _, [], _ => by simp [mergeLvs]
  | _ :: _, _ :: _, [] => by simp [mergeLvs]
  | a :: as, b :: bs, c :: cs => by simp [mergeLvs, Lv.append_assoc, mergeLvs_assoc as bs cs]

theorem mergeLvs_length : ∀ (a b : List Lv), (mergeLvs a b).length = min a.length b.length
  | [], _ => by simp [mergeLvs]
  | _ :: _, [] => by simp [mergeLvs]
  | a :: as, b :: bs => by simp [mergeLvs, mergeLvs_length as bs]

theorem emptyLvs_length (ms : List Mode) : (emptyLvs ms).length = ms.length := by simp [emptyLvs]

theorem emptyLvs_merge : ∀ (ms : List Mode) (a : List Lv), a.length = ms.length →
    mergeLvs (emptyLvs ms) a = a
  | [], [], _ => by simp [mergeLvs, emptyLvs]
  | [], _ :: _, h => by simp at h
  | _ :: _, [], h => by simp at h
  | m :: ms, a :: as, h => by
    have := emptyLvs_merge ms as (by simpa using h)
    simp only [emptyLvs] at this
    simp only [emptyLvs, List.map_cons, mergeLvs, this]
    simp [Lv.append, Lv.empty]

theorem merge_emptyLvs : ∀ (ms : List Mode) (a : List Lv), a.length = ms.length →
    mergeLvs a (emptyLvs ms) = a
  | [], [], _ => by simp [mergeLvs]
  | [], _ :: _, h => by simp at h
  | _ :: _, [], h => by simp at h
  | m :: ms, a :: as, h => by
    have := merge_emptyLvs ms as (by simpa using h)
    simp only [emptyLvs] at this
    simp only [emptyLvs, List.map_cons, mergeLvs, this]
    simp [Lv.append, Lv.empty]

/-- merge of (arrays, values) pairs -/
def mergeP (x y : List Lv × List Int) : List Lv × List Int := (mergeLvs x.1 y.1, x.2 ++ y.2)

@[simp] theorem mergeP_fst (x y : List Lv × List Int) : (mergeP x y).1 = mergeLvs x.1 y.1 := rfl
@[simp] theorem mergeP_snd (x y : List Lv × List Int) : (mergeP x y).2 = x.2 ++ y.2 := rfl

theorem mergeP_assoc (x y z : List Lv × List Int) :
    mergeP (mergeP x y) z = mergeP x (mergeP y z) := by
  simp [mergeP, mergeLvs_assoc, List.append_assoc]

/-- the sibling loop of `enc`, in `foldr` form -/
def encKids (ms : List Mode) (ds : List Nat) (es : List Entry) : List Int → List Lv × List Int
  | [] => (emptyLvs ms, [])
  | k :: ks => mergeP (enc ms ds (subEntries es k)) (encKids ms ds es ks)

/-- the keys visited below a node -/
def nodeKeys (m : Mode) (ds : List Nat) (es : List Entry) : List Int :=
  match m with
  | .dense => denseKeys (ds.headD 0)
  | .compressed => keys es

/-- what `enc` emits at the current level -/
def nodeHere (m : Mode) (ks : List Int) : Lv :=
  match m with
  | .dense => Lv.empty
  | .compressed => ⟨[ks.length], ks⟩

theorem foldr_mergeP_length (ms : List Mode) (g : Int → List Lv × List Int)
    (hg : ∀ k, (g k).1.length = ms.length) (ks : List Int) :
    (ks.foldr (fun k r => mergeP (g k) r) (emptyLvs ms, [])).1.length = ms.length := by
  induction ks with
  | nil => simp [emptyLvs]
  | cons k ks ih =>
    simp only [List.foldr_cons, mergeP_fst, mergeLvs_length, hg, ih, Nat.min_self]

theorem foldl_mergeP (ms : List Mode) (g : Int → List Lv × List Int)
    (hg : ∀ k, (g k).1.length = ms.length) (ks : List Int) (init : List Lv × List Int)
    (hi : init.1.length = ms.length) :
    ks.foldl (fun acc k => mergeP acc (g k)) init
      = mergeP init (ks.foldr (fun k r => mergeP (g k) r) (emptyLvs ms, [])) := by
  induction ks generalizing init with
  | nil => simp [mergeP, merge_emptyLvs ms init.1 hi]
  | cons k ks ih =>
    simp only [List.foldl_cons, List.foldr_cons]
    rw [ih _ (by simp [mergeP, mergeLvs_length, hg, hi]), mergeP_assoc]

theorem encKids_eq_foldr (ms : List Mode) (ds : List Nat) (es : List Entry) (ks : List Int) :
    encKids ms ds es ks
      = ks.foldr (fun k r => mergeP (enc ms ds (subEntries es k)) r) (emptyLvs ms, []) := by
  induction ks with
  | nil => rfl
  | cons k ks ih => simp [encKids, ih]

theorem enc_fold_eq (ms : List Mode) (ds : List Nat) (es : List Entry)
    (hg : ∀ k, (enc ms ds (subEntries es k)).1.length = ms.length) (ks : List Int) :
    ks.foldl (fun acc k =>
        let ch := enc ms ds (subEntries es k)
        (mergeLvs acc.1 ch.1, acc.2 ++ ch.2)) (emptyLvs ms, [])
      = ks.foldr (fun k r => mergeP (enc ms ds (subEntries es k)) r) (emptyLvs ms, []) := by
  have h := foldl_mergeP ms (fun k => enc ms ds (subEntries es k)) hg ks (emptyLvs ms, [])
    (by simp [emptyLvs])
  have h2 := foldr_mergeP_length ms (fun k => enc ms ds (subEntries es k)) hg ks
  have h3 : mergeP (emptyLvs ms, [])
      (ks.foldr (fun k r => mergeP (enc ms ds (subEntries es k)) r) (emptyLvs ms, []))
      = ks.foldr (fun k r => mergeP (enc ms ds (subEntries es k)) r) (emptyLvs ms, []) := by
    apply Prod.ext
    · simp only [mergeP_fst]; exact emptyLvs_merge ms _ h2
    · simp
  rw [h3] at h
  exact h

theorem enc_length : ∀ (ms : List Mode) (ds : List Nat) (es : List Entry),
    (enc ms ds es).1.length = ms.length
  | [], _, _ => by simp [enc]
  | m :: ms, ds, es => by
    have hg : ∀ k, (enc ms ds.tail (subEntries es k)).1.length = ms.length :=
      fun k => enc_length ms ds.tail _
    unfold enc
    simp only [List.length_cons, Nat.add_right_cancel_iff]
    rw [enc_fold_eq ms ds.tail es hg]
    exact foldr_mergeP_length ms _ hg _

theorem encKids_length (ms : List Mode) (ds : List Nat) (es : List Entry) (ks : List Int) :
    (encKids ms ds es ks).1.length = ms.length := by
  rw [encKids_eq_foldr]
  exact foldr_mergeP_length ms _ (fun k => enc_length ms ds _) ks

theorem enc_cons (m : Mode) (ms : List Mode) (ds : List Nat) (es : List Entry) :
    enc (m :: ms) ds es
      = (nodeHere m (nodeKeys m ds es) :: (encKids ms ds.tail es (nodeKeys m ds es)).1,
         (encKids ms ds.tail es (nodeKeys m ds es)).2) := by
  have hg : ∀ k, (enc ms ds.tail (subEntries es k)).1.length = ms.length :=
    fun k => enc_length ms ds.tail _
  rw [encKids_eq_foldr]
  conv => lhs; unfold enc
  simp only [enc_fold_eq ms ds.tail es hg]
  cases m <;> simp [nodeHere, nodeKeys]

end TV.Storage
