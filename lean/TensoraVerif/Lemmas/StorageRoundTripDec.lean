import TensoraVerif.Lemmas.StorageRoundTripInv

/-! The reader lemma: `dec` on the arrays of a node embedded between earlier and later siblings. -/
namespace TV.Storage

/-- statement of the reader lemma for a fixed list of remaining levels -/
def DecSpec (ms : List Mode) (ds : List Nat) : Prop :=
  ∀ (es : List Entry) (Pre Post : List Lv) (vpre vpost : List Int) (pre : List Int) (p : Nat),
    (∀ e ∈ es, CoordOk ms ds e.1) → Inv ms ds Pre vpre p → Post.length = ms.length →
    dec (vpre ++ (enc ms ds es).2 ++ vpost)
        (mkLevels ms (mergeLvs Pre (mergeLvs (enc ms ds es).1 Post))) ds pre p
      = some ((items0 ms ds es).map fun e => (pre.reverse ++ e.1, e.2))

theorem readKids (ms : List Mode) (ds : List Nat) (es : List Entry) (IH : DecSpec ms ds) :
    ∀ (ks : List Int) (Pre Post : List Lv) (vpre vpost : List Int) (base : Nat),
      (∀ k, ∀ e ∈ subEntries es k, CoordOk ms ds e.1) → Inv ms ds Pre vpre base →
      Post.length = ms.length →
      ∀ (j : Nat) (hj : j < ks.length) (pre : List Int),
        dec (vpre ++ (encKids ms ds es ks).2 ++ vpost)
            (mkLevels ms (mergeLvs Pre (mergeLvs (encKids ms ds es ks).1 Post))) ds
            (ks[j] :: pre) (base + j)
          = some ((items0 ms ds (subEntries es ks[j])).map
              fun e => ((ks[j] :: pre).reverse ++ e.1, e.2)) := by
  intro ks
  induction ks with
  | nil => intro _ _ _ _ _ _ _ _ j hj; simp at hj
  | cons k ks ih =>
    intro Pre Post vpre vpost base hes hinv hpost j hj pre
    cases j with
    | zero =>
      have := IH (subEntries es k) Pre (mergeLvs (encKids ms ds es ks).1 Post) vpre
        ((encKids ms ds es ks).2 ++ vpost) (k :: pre) base (hes k) hinv
        (by simp [mergeLvs_length, encKids_length, hpost])
      simpa [encKids, mergeLvs_assoc, List.append_assoc] using this
    | succ j =>
      have hinv' := Inv_merge hinv (Inv_enc ms ds (subEntries es k) (hes k))
      have := ih (mergeLvs Pre (enc ms ds (subEntries es k)).1) Post
        (vpre ++ (enc ms ds (subEntries es k)).2) vpost (base + 1) hes hinv' hpost j
        (by simpa using hj) pre
      have e : base + 1 + j = base + (j + 1) := by omega
      simpa [encKids, mergeLvs_assoc, List.append_assoc, e] using this

theorem items0_cons_map (m : Mode) (ms : List Mode) (ds : List Nat) (es : List Entry)
    (pre : List Int) :
    (items0 (m :: ms) ds es).map (fun e => (pre.reverse ++ e.1, e.2))
      = (nodeKeys m ds es).flatMap (fun k =>
          (items0 ms ds.tail (subEntries es k)).map fun e => ((k :: pre).reverse ++ e.1, e.2)) := by
  simp [items0, List.map_flatMap, Function.comp_def]

theorem denseKeys_getElem (d j : Nat) (h : j < (denseKeys d).length) :
    (denseKeys d)[j] = Int.ofNat j := by
  simp [denseKeys]

theorem dec_enc : ∀ (ms : List Mode) (ds : List Nat), DecSpec ms ds
  | [], ds => by
    intro es Pre Post vpre vpost pre p hes hinv hpost
    simp only [Inv] at hinv
    obtain ⟨rfl, hl⟩ := hinv
    simp [enc, mkLevels, dec, items0, ← hl]
  | m :: ms, ds => by
    intro es Pre Post vpre vpost pre p hes hinv hpost
    obtain ⟨a, Pre', rfl, hm⟩ := hinv
    match Post, hpost with
    | b :: Post', hpost =>
    have hpost' : Post'.length = ms.length := by simpa using hpost
    rw [enc_cons]
    have hsub : ∀ k, ∀ e ∈ subEntries es k, CoordOk ms ds.tail e.1 := fun k => CoordOk_sub hes k
    have RK := readKids ms ds.tail es (dec_enc ms ds.tail) (nodeKeys m ds es) Pre' Post' vpre vpost
    cases m with
    | dense =>
      simp only at hm
      have RK' := RK _ hsub hm hpost'
      simp only [mergeLvs, mkLevels, dec]
      rw [items0_cons_map, ← flatMap_range_getD _ 0]
      have hlen : (nodeKeys Mode.dense ds es).length = ds.headD 0 := by simp [nodeKeys, denseKeys]
      rw [foldlM_append_some _ (fun j =>
          (items0 ms ds.tail (subEntries es ((nodeKeys Mode.dense ds es).getD j 0))).map
            fun e => (((nodeKeys Mode.dense ds es).getD j 0 :: pre).reverse ++ e.1, e.2))]
      · simp [hlen]
      · intro acc c hc
        have hc' : c < (nodeKeys Mode.dense ds es).length := by simpa [hlen] using hc
        have h1 := RK' c hc' pre
        have h2 : (nodeKeys Mode.dense ds es)[c] = Int.ofNat c := denseKeys_getElem _ _ hc'
        have h3 : (nodeKeys Mode.dense ds es).getD c 0 = Int.ofNat c := by
          rw [← h2]; simp [hc']
        rw [h2, Nat.mul_comm] at h1
        rw [h3, h1]
        simp
    | compressed =>
      obtain ⟨hseg, hm⟩ := hm
      have RK' := RK _ hsub hm hpost'
      simp only [mergeLvs, mkLevels, dec]
      have hp : p = a.seg.length := hseg.seg_length.symm
      have hsum := hseg.seg_sum
      obtain ⟨h1, h2⟩ := cumFrom_split a.seg (nodeKeys Mode.compressed ds es).length b.seg
      subst hp
      simp only [Lv.append, nodeHere, List.singleton_append, List.getElem?_map, h1, h2,
        Option.map_some]
      have e1 : (Int.ofNat (a.seg.sum + (nodeKeys Mode.compressed ds es).length)
          - Int.ofNat a.seg.sum).toNat = (nodeKeys Mode.compressed ds es).length := by
        simp only [Int.ofNat_eq_natCast]; omega
      have e2 : ¬ (Int.ofNat a.seg.sum < 0) := by simp only [Int.ofNat_eq_natCast]; omega
      have e3 : (Int.ofNat a.seg.sum).toNat = a.crd.length := by
        simp only [Int.ofNat_eq_natCast, Int.toNat_natCast]; exact hsum
      simp only [e1, e2, e3, if_false]
      rw [items0_cons_map, ← flatMap_range_getD _ 0]
      rw [foldlM_append_some _ (fun j =>
          (items0 ms ds.tail (subEntries es ((nodeKeys Mode.compressed ds es).getD j 0))).map
            fun e => (((nodeKeys Mode.compressed ds es).getD j 0 :: pre).reverse ++ e.1, e.2))]
      · simp
      · intro acc j hj
        have hj' : j < (nodeKeys Mode.compressed ds es).length := by simpa using hj
        have h1 := RK' j hj' pre
        have h3 : (nodeKeys Mode.compressed ds es).getD j 0 = (nodeKeys Mode.compressed ds es)[j] := by
          simp [hj']
        have h4 : (a.crd ++ (nodeKeys Mode.compressed ds es ++ b.crd))[a.crd.length + j]?
            = some (nodeKeys Mode.compressed ds es)[j] := by
          rw [List.getElem?_append_right (by omega)]
          simp only [Nat.add_sub_cancel_left]
          rw [List.getElem?_append_left hj']
          simp
        rw [h3, h4]
        simp only [h1]
        simp

/-- reading back the arrays of a whole tensor (level order) -/
theorem dec_enc_top (ms : List Mode) (ds : List Nat) (es : List Entry)
    (hes : ∀ e ∈ es, CoordOk ms ds e.1) :
    dec (enc ms ds es).2 (mkLevels ms (enc ms ds es).1) ds [] 0 = some (items0 ms ds es) := by
  have := dec_enc ms ds es (emptyLvs ms) (emptyLvs ms) [] [] [] 0 hes (Inv_empty ms ds)
    (emptyLvs_length ms)
  rw [merge_emptyLvs ms _ (enc_length ms ds es), emptyLvs_merge ms _ (enc_length ms ds es)] at this
  simpa using this

end TV.Storage
