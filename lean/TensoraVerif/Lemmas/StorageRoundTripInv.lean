import TensoraVerif.Lemmas.StorageRoundTripBasic

/-! The counting / well-formedness invariant of the arrays produced by `enc`, and the reader
lemma `dec_enc`: reading back the arrays of a node embedded between the arrays of earlier and
later siblings returns exactly `items0`. -/
namespace TV.Storage

/-- a level-order coordinate that fits the remaining levels and dimensions -/
def CoordOk : List Mode → List Nat → List Int → Prop
  | [], _, c => c = []
  | _ :: ms, ds, c => ∃ k cs, c = k :: cs ∧ 0 ≤ k ∧ k < ((ds.headD 0 : Nat) : Int) ∧
      CoordOk ms ds.tail cs

/-- a compressed level in segment form consisting of `n` sorted in-range segments -/
def SegOk (d : Nat) (a : Lv) (n : Nat) : Prop :=
  ∃ ss : List (List Int), a.seg = ss.map List.length ∧ a.crd = ss.flatten ∧ ss.length = n ∧
    ∀ s ∈ ss, SInc s ∧ ∀ c ∈ s, 0 ≤ c ∧ c < (d : Int)

/-- arrays `A` (one `Lv` per remaining level) and values `v` emitted for `n` parent positions -/
def Inv : List Mode → List Nat → List Lv → List Int → Nat → Prop
  | [], _, A, v, n => A = [] ∧ v.length = n
  | m :: ms, ds, A, v, n => ∃ a A', A = a :: A' ∧
      match m with
      | .dense => Inv ms ds.tail A' v (n * ds.headD 0)
      | .compressed => SegOk (ds.headD 0) a n ∧ Inv ms ds.tail A' v a.crd.length

/-- the (level-order coordinate, value) pairs below a node, in storage order -/
def items0 : List Mode → List Nat → List Entry → List (List Int × Int)
  | [], _, es => [([], sumVals es)]
  | m :: ms, ds, es =>
    (nodeKeys m ds es).flatMap fun k =>
      (items0 ms ds.tail (subEntries es k)).map fun e => (k :: e.1, e.2)

theorem SegOk.empty (d : Nat) : SegOk d Lv.empty 0 := ⟨[], by simp [Lv.empty]⟩

theorem SegOk.append {d : Nat} {a b : Lv} {n m : Nat} (ha : SegOk d a n) (hb : SegOk d b m) :
    SegOk d (a.append b) (n + m) := by
  obtain ⟨sa, h1, h2, h3, h4⟩ := ha
  obtain ⟨sb, g1, g2, g3, g4⟩ := hb
  refine ⟨sa ++ sb, by simp [Lv.append, h1, g1], by simp [Lv.append, h2, g2], by simp [h3, g3], ?_⟩
  intro s hs
  rcases List.mem_append.mp hs with h | h
  · exact h4 s h
  · exact g4 s h

theorem SegOk.seg_length {d : Nat} {a : Lv} {n : Nat} (h : SegOk d a n) : a.seg.length = n := by
  obtain ⟨ss, h1, _, h3, _⟩ := h; simp [h1, h3]

theorem SegOk.seg_sum {d : Nat} {a : Lv} {n : Nat} (h : SegOk d a n) :
    a.seg.sum = a.crd.length := by
  obtain ⟨ss, h1, h2, _, _⟩ := h; simp [h1, h2, List.length_flatten]

theorem Inv_length : ∀ {ms : List Mode} {ds : List Nat} {A : List Lv} {v : List Int} {n : Nat},
    Inv ms ds A v n → A.length = ms.length
  | [], _, _, _, _, h => by simp [Inv] at h; simp [h.1]
  | m :: ms, ds, A, v, n, h => by
    obtain ⟨a, A', rfl, h⟩ := h
    cases m
    · simp [Inv_length h]
    · simp [Inv_length h.2]

theorem Inv_empty : ∀ (ms : List Mode) (ds : List Nat), Inv ms ds (emptyLvs ms) [] 0
  | [], _ => by simp [Inv, emptyLvs]
  | m :: ms, ds => by
    refine ⟨Lv.empty, emptyLvs ms, by simp [emptyLvs], ?_⟩
    cases m
    · simpa using Inv_empty ms ds.tail
    · exact ⟨SegOk.empty _, by simpa [Lv.empty] using Inv_empty ms ds.tail⟩

theorem Inv_merge : ∀ {ms : List Mode} {ds : List Nat} {A B : List Lv} {v w : List Int} {n m : Nat},
    Inv ms ds A v n → Inv ms ds B w m → Inv ms ds (mergeLvs A B) (v ++ w) (n + m)
  | [], _, _, _, _, _, _, _, hA, hB => by
    simp [Inv] at hA hB ⊢
    simp [hA.1, hB.1, hA.2, hB.2, mergeLvs]
  | md :: ms, ds, A, B, v, w, n, m, hA, hB => by
    obtain ⟨a, A', rfl, hA⟩ := hA
    obtain ⟨b, B', rfl, hB⟩ := hB
    refine ⟨a.append b, mergeLvs A' B', by simp [mergeLvs], ?_⟩
    cases md
    · have := Inv_merge hA hB
      simpa [Nat.add_mul] using this
    · refine ⟨hA.1.append hB.1, ?_⟩
      have := Inv_merge hA.2 hB.2
      simpa [Lv.append] using this

theorem subEntries_mem {es : List Entry} {k : Int} {e : Entry} (h : e ∈ subEntries es k) :
    (k :: e.1, e.2) ∈ es := by
  unfold subEntries at h
  obtain ⟨a, ha, hm⟩ := List.mem_filterMap.mp h
  rcases a with ⟨c, v⟩
  cases c with
  | nil => simp at hm
  | cons x xs =>
    simp only at hm
    split at hm
    · rename_i hx; subst hx
      simp at hm; subst hm; exact ha
    · simp at hm

theorem CoordOk_sub {m : Mode} {ms : List Mode} {ds : List Nat} {es : List Entry}
    (hes : ∀ e ∈ es, CoordOk (m :: ms) ds e.1) (k : Int) :
    ∀ e ∈ subEntries es k, CoordOk ms ds.tail e.1 := by
  intro e he
  have := hes _ (subEntries_mem he)
  obtain ⟨k', cs, h1, _, _, h4⟩ := this
  simp at h1
  rw [h1.2]; exact h4

theorem nodeKeys_range {m : Mode} {ms : List Mode} {ds : List Nat} {es : List Entry}
    (hes : ∀ e ∈ es, CoordOk (m :: ms) ds e.1) :
    ∀ k ∈ nodeKeys m ds es, 0 ≤ k ∧ k < ((ds.headD 0 : Nat) : Int) := by
  intro k hk
  cases m
  · simp [nodeKeys, denseKeys] at hk
    obtain ⟨a, ha, rfl⟩ := hk
    simp; omega
  · simp only [nodeKeys] at hk
    obtain ⟨e, he, hh⟩ := (keys_mem es k).mp hk
    obtain ⟨k', cs, h1, h2, h3, _⟩ := hes e he
    rw [h1] at hh; simp at hh; subst hh
    exact ⟨h2, h3⟩

theorem nodeKeys_sinc (m : Mode) (ds : List Nat) (es : List Entry) : SInc (nodeKeys m ds es) := by
  cases m
  · simp only [nodeKeys, denseKeys, SInc]
    rw [List.pairwise_map]
    have := @List.pairwise_lt_range (ds.headD 0)
    exact this.imp (fun h => by simpa using h)
  · exact keys_sinc es

theorem Inv_enc : ∀ (ms : List Mode) (ds : List Nat) (es : List Entry),
    (∀ e ∈ es, CoordOk ms ds e.1) → Inv ms ds (enc ms ds es).1 (enc ms ds es).2 1
  | [], _, _, _ => by simp [Inv, enc]
  | m :: ms, ds, es, hes => by
    rw [enc_cons]
    have hkids : ∀ ks : List Int, Inv ms ds.tail (encKids ms ds.tail es ks).1
        (encKids ms ds.tail es ks).2 ks.length := by
      intro ks
      induction ks with
      | nil => simpa [encKids] using Inv_empty ms ds.tail
      | cons k ks ih =>
        have h1 := Inv_enc ms ds.tail (subEntries es k) (CoordOk_sub hes k)
        have := Inv_merge h1 ih
        simpa [encKids, Nat.add_comm] using this
    refine ⟨_, _, rfl, ?_⟩
    cases m
    · have := hkids (nodeKeys .dense ds es)
      simpa [nodeKeys, denseKeys] using this
    · refine ⟨⟨[nodeKeys .compressed ds es], by simp [nodeHere], by simp [nodeHere], rfl, ?_⟩, ?_⟩
      · intro s hs
        simp at hs; subst hs
        exact ⟨nodeKeys_sinc _ _ _, nodeKeys_range hes⟩
      · simpa [nodeHere] using hkids (nodeKeys .compressed ds es)

theorem Inv_encKids {m : Mode} (ms : List Mode) (ds : List Nat) (es : List Entry)
    (hes : ∀ e ∈ es, CoordOk (m :: ms) ds e.1) (ks : List Int) :
    Inv ms ds.tail (encKids ms ds.tail es ks).1 (encKids ms ds.tail es ks).2 ks.length := by
  induction ks with
  | nil => simpa [encKids] using Inv_empty ms ds.tail
  | cons k ks ih =>
    have h1 := Inv_enc ms ds.tail (subEntries es k) (CoordOk_sub hes k)
    have := Inv_merge h1 ih
    simpa [encKids, Nat.add_comm] using this

end TV.Storage
