import TensoraVerif.Lemmas.StorageRoundTripInv

/-! Pure list facts about `items0`: values, distinctness, range. -/
namespace TV.Storage

/-- same body as `valueAt` in `Props/C09.lean` -/
def valAt (es : List (List Int × Int)) (c : List Int) : Int :=
  (es.filter (fun e => e.1 = c)).foldl (fun a e => a + e.2) 0

theorem foldl_add_shift (l : List (List Int × Int)) (a : Int) :
    l.foldl (fun a e => a + e.2) a = a + l.foldl (fun a e => a + e.2) 0 := by
  induction l generalizing a with
  | nil => simp
  | cons x xs ih =>
    simp only [List.foldl_cons]
    rw [ih (a + x.2), ih (0 + x.2)]
    omega

@[simp] theorem valAt_nil (c : List Int) : valAt [] c = 0 := by simp [valAt]

theorem valAt_cons (e : List Int × Int) (es : List (List Int × Int)) (c : List Int) :
    valAt (e :: es) c = (if e.1 = c then e.2 else 0) + valAt es c := by
  unfold valAt
  by_cases h : e.1 = c
  · simp only [List.filter_cons, h, decide_true, if_true, List.foldl_cons]
    rw [foldl_add_shift]; omega
  · simp [h]

theorem valAt_append (l1 l2 : List (List Int × Int)) (c : List Int) :
    valAt (l1 ++ l2) c = valAt l1 c + valAt l2 c := by
  induction l1 with
  | nil => simp
  | cons x xs ih => simp only [List.cons_append, valAt_cons, ih]; omega

theorem valAt_eq_zero (es : List (List Int × Int)) (c : List Int) (h : ∀ e ∈ es, e.1 ≠ c) :
    valAt es c = 0 := by
  induction es with
  | nil => simp
  | cons x xs ih =>
    rw [valAt_cons, ih (fun e he => h e (by simp [he])), if_neg (h x (by simp))]; rfl

theorem valAt_all (es : List (List Int × Int)) (c : List Int) (h : ∀ e ∈ es, e.1 = c) :
    valAt es c = sumVals es := by
  unfold valAt sumVals
  rw [List.filter_eq_self.mpr]
  intro e he; simp [h e he]

theorem valAt_map_cons (l : List (List Int × Int)) (k k' : Int) (cs : List Int) :
    valAt (l.map fun e => (k :: e.1, e.2)) (k' :: cs) = if k = k' then valAt l cs else 0 := by
  induction l with
  | nil => simp
  | cons x xs ih =>
    simp only [List.map_cons, valAt_cons, ih]
    by_cases h : k = k'
    · subst h; simp
    · simp [h]

theorem valAt_map_cons_nil (l : List (List Int × Int)) (k : Int) :
    valAt (l.map fun e => (k :: e.1, e.2)) [] = 0 := by
  apply valAt_eq_zero
  intro e he
  obtain ⟨a, _, rfl⟩ := List.mem_map.mp he
  simp

theorem valAt_subEntries (es : List Entry) (k : Int) (cs : List Int) :
    valAt (subEntries es k) cs = valAt es (k :: cs) := by
  induction es with
  | nil => simp [subEntries]
  | cons e es ih =>
    rw [valAt_cons, ← ih]
    rcases e with ⟨c, v⟩
    cases c with
    | nil => simp [subEntries]
    | cons x xs =>
      by_cases h : x = k
      · subst h
        simp only [subEntries, List.filterMap_cons, if_true]
        rw [valAt_cons]
        simp
      · simp [subEntries, h]

theorem valAt_flatMap_single {α : Type} [DecidableEq α] (ks : List α) (f : α → List (List Int × Int))
    (c : List Int) (k' : α) (hnd : ks.Nodup) (hz : ∀ k ∈ ks, k ≠ k' → valAt (f k) c = 0) :
    valAt (ks.flatMap f) c = if k' ∈ ks then valAt (f k') c else 0 := by
  induction ks with
  | nil => simp
  | cons k ks ih =>
    have hnd' := List.nodup_cons.mp hnd
    rw [List.flatMap_cons, valAt_append, ih hnd'.2 (fun k hk => hz k (by simp [hk]))]
    by_cases h : k = k'
    · subst h
      simp [hnd'.1]
    · rw [hz k (by simp) h]
      have : (k' ∈ k :: ks) ↔ k' ∈ ks := by
        simp only [List.mem_cons]
        constructor
        · rintro (e | e)
          · exact absurd e.symm h
          · exact e
        · exact Or.inr
      simp only [this]; omega

theorem sinc_nodup {l : List Int} (h : SInc l) : l.Nodup :=
  List.Pairwise.imp (fun hab => by omega) h

theorem head_mem_nodeKeys {m : Mode} {ms : List Mode} {ds : List Nat} {es : List Entry}
    (hes : ∀ e ∈ es, CoordOk (m :: ms) ds e.1) {e : Entry} (he : e ∈ es) {k : Int} {cs : List Int}
    (hk : e.1 = k :: cs) : k ∈ nodeKeys m ds es := by
  cases m
  · obtain ⟨k', cs', h1, h2, h3, _⟩ := hes e he
    rw [hk] at h1
    simp only [List.cons.injEq] at h1
    obtain ⟨rfl, _⟩ := h1
    simp only [nodeKeys, denseKeys, List.mem_map, List.mem_range]
    exact ⟨k.toNat, by omega, by simp; omega⟩
  · simp only [nodeKeys]
    exact (keys_mem es k).mpr ⟨e, he, by simp [hk]⟩

theorem valAt_items0 : ∀ (ms : List Mode) (ds : List Nat) (es : List Entry),
    (∀ e ∈ es, CoordOk ms ds e.1) → ∀ c, valAt (items0 ms ds es) c = valAt es c
  | [], ds, es, hes, c => by
    simp only [CoordOk] at hes
    simp only [items0, valAt_cons, valAt_nil]
    by_cases h : c = []
    · subst h
      rw [valAt_all es [] hes]; simp
    · rw [valAt_eq_zero es c (fun e he => by rw [hes e he]; exact fun h' => h h'.symm)]
      simp [Ne.symm h]
  | m :: ms, ds, es, hes, c => by
    simp only [items0]
    cases c with
    | nil =>
      rw [valAt_eq_zero es [] ?_, valAt_eq_zero _ [] ?_]
      · intro e he
        obtain ⟨k, _, he⟩ := List.mem_flatMap.mp he
        obtain ⟨a, _, rfl⟩ := List.mem_map.mp he
        simp
      · intro e he
        obtain ⟨k', cs', h1, _⟩ := hes e he
        simp [h1]
    | cons k' cs =>
      rw [valAt_flatMap_single _ _ _ k' (sinc_nodup (nodeKeys_sinc m ds es))]
      · rw [valAt_map_cons, if_pos rfl, valAt_items0 ms ds.tail _ (CoordOk_sub hes k') cs,
          valAt_subEntries]
        split
        · rfl
        · rename_i hk
          symm
          apply valAt_eq_zero
          intro e he h
          exact hk (head_mem_nodeKeys hes he h)
      · intro k _ hne
        rw [valAt_map_cons, if_neg hne]

theorem items0_nodup : ∀ (ms : List Mode) (ds : List Nat) (es : List Entry),
    ((items0 ms ds es).map (·.1)).Nodup
  | [], _, _ => by simp [items0]
  | m :: ms, ds, es => by
    simp only [items0, List.map_flatMap, List.map_map, Function.comp_def]
    rw [List.nodup_iff_pairwise_ne, List.pairwise_flatMap]
    constructor
    · intro k _
      have ih := items0_nodup ms ds.tail (subEntries es k)
      rw [List.nodup_iff_pairwise_ne, List.pairwise_map] at ih
      rw [List.pairwise_map]
      exact ih.imp (fun h => by simpa using h)
    · apply (nodeKeys_sinc m ds es).imp
      intro a b hab x hx y hy
      obtain ⟨_, _, rfl⟩ := List.mem_map.mp hx
      obtain ⟨_, _, rfl⟩ := List.mem_map.mp hy
      simp only [ne_eq, List.cons.injEq, not_and]
      intro h; omega

theorem items0_coordOk : ∀ (ms : List Mode) (ds : List Nat) (es : List Entry),
    (∀ e ∈ es, CoordOk ms ds e.1) → ∀ e ∈ items0 ms ds es, CoordOk ms ds e.1
  | [], _, _, _, e, he => by
    simp only [items0, List.mem_singleton] at he
    simp [he, CoordOk]
  | m :: ms, ds, es, hes, e, he => by
    simp only [items0] at he
    obtain ⟨k, hk, he⟩ := List.mem_flatMap.mp he
    obtain ⟨e', he', rfl⟩ := List.mem_map.mp he
    have hr := nodeKeys_range hes k hk
    exact ⟨k, e'.1, rfl, hr.1, hr.2, items0_coordOk ms ds.tail _ (CoordOk_sub hes k) e' he'⟩

end TV.Storage
