import TensoraVerif.Lemmas.StorageRoundTripItems

/-! The mode-ordering permutation: `toLevelOrder` / `fromLevelOrder` are mutually inverse on
coordinates of the right length, and range conditions transfer. -/
namespace TV.Storage

/-- total version of `toLevelOrder` -/
def lo (ordering : List Nat) (c : List Int) : List Int := ordering.map fun i => c.getD i 0

/-- same body as `InRange` in `Props/C09.lean` -/
def InRangeL (dims : List Nat) (c : List Int) : Prop :=
  c.length = dims.length ∧ ∀ k (h : k < c.length), 0 ≤ c[k] ∧ c[k] < (dims.getD k 0 : Nat)

/-- pigeonhole: a list of length `n` containing every `i < n` is a duplicate-free list of
numbers below `n` -/
theorem perm_of_covers : ∀ (n : Nat) (l : List Nat), l.length = n → (∀ i, i < n → i ∈ l) →
    l.Nodup ∧ ∀ x ∈ l, x < n
  | 0, l, hl, _ => by
    have : l = [] := List.length_eq_zero_iff.mp hl
    subst this; simp
  | n + 1, l, hl, hc => by
    have hn : n ∈ l := hc n (by omega)
    have hp := List.perm_cons_erase hn
    have ih := perm_of_covers n (l.erase n) (by rw [List.length_erase_of_mem hn, hl]; rfl)
      (fun i hi => (List.mem_erase_of_ne (by omega)).mpr (hc i (by omega)))
    constructor
    · rw [hp.nodup_iff, List.nodup_cons]
      exact ⟨fun h => by have := ih.2 n h; omega, ih.1⟩
    · intro x hx
      rcases List.mem_cons.mp (hp.mem_iff.mp hx) with h | h
      · omega
      · have := ih.2 x h; omega

structure ValidOrd (ordering : List Nat) (n : Nat) : Prop where
  len : ordering.length = n
  covers : ∀ i, i < n → i ∈ ordering
  nodup : ordering.Nodup
  lt : ∀ x ∈ ordering, x < n

theorem validOrd_of {ordering : List Nat} {n : Nat} (h : validOrdering ordering n = true) :
    ValidOrd ordering n := by
  unfold validOrdering at h
  simp only [Bool.and_eq_true, beq_iff_eq, List.all_eq_true, List.mem_range,
    List.contains_iff_mem] at h
  obtain ⟨h1, h2⟩ := h
  have := perm_of_covers n ordering h1 h2
  exact ⟨h1, h2, this.1, this.2⟩

theorem mapM_getElem? (c : List Int) : ∀ (l : List Nat), (∀ i ∈ l, i < c.length) →
    l.mapM (fun i => c[i]?) = some (l.map fun i => c.getD i 0)
  | [], _ => by simp
  | i :: l, h => by
    have ih := mapM_getElem? c l (fun j hj => h j (by simp [hj]))
    have hi : i < c.length := h i (by simp)
    simp [List.mapM_cons, ih, hi]

theorem toLevelOrder_eq {ordering : List Nat} {n : Nat} (hv : ValidOrd ordering n) {c : List Int}
    (hc : c.length = n) : toLevelOrder ordering c = some (lo ordering c) := by
  unfold toLevelOrder lo
  exact mapM_getElem? c ordering (fun i hi => by rw [hc]; exact hv.lt i hi)

theorem lo_length (ordering : List Nat) (c : List Int) : (lo ordering c).length = ordering.length := by
  simp [lo]

theorem fromLevelOrder_length (ordering : List Nat) (pre : List Int) :
    (fromLevelOrder ordering pre).length = ordering.length := by
  simp [fromLevelOrder]

theorem indexOf_spec {ordering : List Nat} {n : Nat} (hv : ValidOrd ordering n) {i : Nat}
    (hi : i < n) : ∃ h : indexOf ordering i < ordering.length, ordering[indexOf ordering i] = i := by
  have hm := hv.covers i hi
  have h1 : List.idxOf i ordering < ordering.length := List.idxOf_lt_length_iff.mpr hm
  exact ⟨h1, List.getElem_idxOf h1⟩

theorem indexOf_getElem {ordering : List Nat} {n : Nat} (hv : ValidOrd ordering n) (l : Nat)
    (hl : l < ordering.length) : indexOf ordering ordering[l] = l :=
  hv.nodup.idxOf_getElem l hl

theorem fromLevelOrder_getD {ordering : List Nat} {n : Nat} (hv : ValidOrd ordering n)
    (pre : List Int) {i : Nat} (hi : i < n) :
    (fromLevelOrder ordering pre).getD i 0 = pre.getD (indexOf ordering i) 0 := by
  have : i < ordering.length := by rw [hv.len]; exact hi
  simp [fromLevelOrder, this]

theorem from_lo {ordering : List Nat} {n : Nat} (hv : ValidOrd ordering n) {c : List Int}
    (hc : c.length = n) : fromLevelOrder ordering (lo ordering c) = c := by
  apply List.ext_getElem
  · rw [fromLevelOrder_length, hv.len, hc]
  · intro i h1 h2
    have hi : i < n := by rw [← hc]; exact h2
    obtain ⟨hx, hy⟩ := indexOf_spec hv hi
    have := fromLevelOrder_getD hv (lo ordering c) hi
    rw [List.getD_eq_getElem?_getD, List.getElem?_eq_getElem h1] at this
    simp only [Option.getD_some] at this
    rw [this]
    simp [lo, hx, hy, h2]

theorem lo_from {ordering : List Nat} {n : Nat} (hv : ValidOrd ordering n) {pre : List Int}
    (hp : pre.length = n) : lo ordering (fromLevelOrder ordering pre) = pre := by
  apply List.ext_getElem
  · rw [lo_length, hv.len, hp]
  · intro l h1 h2
    have hl : l < ordering.length := by rw [hv.len, ← hp]; exact h2
    have hlt : ordering[l] < n := hv.lt _ (List.getElem_mem hl)
    simp only [lo, List.getElem_map]
    rw [fromLevelOrder_getD hv pre hlt, indexOf_getElem hv l hl]
    simp [h2]

theorem coordOk_map : ∀ (l : List Nat) (ms : List Mode) (f : Nat → Nat) (g : Nat → Int),
    l.length = ms.length → (∀ i ∈ l, 0 ≤ g i ∧ g i < (f i : Int)) →
    CoordOk ms (l.map f) (l.map g)
  | [], [], _, _, _, _ => by simp [CoordOk]
  | [], _ :: _, _, _, h, _ => by simp at h
  | _ :: _, [], _, _, h, _ => by simp at h
  | i :: l, m :: ms, f, g, hl, h => by
    refine ⟨g i, l.map g, rfl, (h i (by simp)).1, by simpa using (h i (by simp)).2, ?_⟩
    simpa using coordOk_map l ms f g (by simpa using hl) (fun j hj => h j (by simp [hj]))

theorem coordOk_getD : ∀ (ms : List Mode) (ds : List Nat) (c : List Int), CoordOk ms ds c →
    c.length = ms.length ∧ ∀ l, l < ms.length → 0 ≤ c.getD l 0 ∧ c.getD l 0 < (ds.getD l 0 : Nat)
  | [], _, c, h => by simp only [CoordOk] at h; subst h; simp
  | m :: ms, ds, c, h => by
    obtain ⟨k, cs, rfl, h1, h2, h3⟩ := h
    have ih := coordOk_getD ms ds.tail cs h3
    refine ⟨by simp [ih.1], ?_⟩
    intro l hl
    cases l with
    | zero =>
      cases ds <;> simp_all
    | succ l =>
      have := ih.2 l (by simpa using hl)
      cases ds with
      | nil => simp at this; omega
      | cons d ds => simpa using this

theorem inRangeL_length {dims : List Nat} {c : List Int} (h : InRangeL dims c) :
    c.length = dims.length := h.1

theorem coordOk_lo {ordering : List Nat} {ms : List Mode} (hv : ValidOrd ordering ms.length)
    {dims : List Nat} (hd : dims.length = ms.length) {c : List Int} (hc : InRangeL dims c) :
    CoordOk ms (ordering.map fun i => dims.getD i 0) (lo ordering c) := by
  unfold lo
  apply coordOk_map ordering ms _ _ hv.len
  intro i hi
  have hlt : i < c.length := by rw [hc.1, hd]; exact hv.lt i hi
  have := hc.2 i hlt
  simpa [hlt] using this

theorem inRangeL_from {ordering : List Nat} {ms : List Mode} (hv : ValidOrd ordering ms.length)
    {dims : List Nat} (hd : dims.length = ms.length) {pre : List Int}
    (hp : CoordOk ms (ordering.map fun i => dims.getD i 0) pre) :
    InRangeL dims (fromLevelOrder ordering pre) := by
  have hg := coordOk_getD ms _ pre hp
  refine ⟨by rw [fromLevelOrder_length, hv.len, hd], ?_⟩
  intro k hk
  have hk' : k < ms.length := by rw [fromLevelOrder_length, hv.len] at hk; exact hk
  obtain ⟨hx, hy⟩ := indexOf_spec hv hk'
  have h1 := fromLevelOrder_getD hv pre hk'
  rw [List.getD_eq_getElem?_getD, List.getElem?_eq_getElem hk] at h1
  simp only [Option.getD_some] at h1
  rw [h1]
  have := hg.2 (indexOf ordering k) (by rw [← hv.len]; exact hx)
  simpa [hx, hy] using this

theorem valAt_map_inj (f : List Int → List Int) (l : List (List Int × Int)) (c : List Int)
    (hinj : ∀ e ∈ l, f e.1 = f c → e.1 = c) :
    valAt (l.map fun e => (f e.1, e.2)) (f c) = valAt l c := by
  induction l with
  | nil => simp
  | cons x xs ih =>
    simp only [List.map_cons, valAt_cons]
    rw [ih (fun e he => hinj e (by simp [he]))]
    by_cases h : x.1 = c
    · simp [h]
    · have : ¬ f x.1 = f c := fun h' => h (hinj x (by simp) h')
      simp [h, this]

end TV.Storage
