import TensoraVerif.Lemmas.StorageRoundTripInv

/-! Well-formedness (`wfLevels`, `crdRangeOk`) of arrays satisfying the invariant `Inv`. -/
namespace TV.Storage

theorem monotone_cumFrom (s : Nat) (seg : List Nat) :
    monotone ((cumFrom s seg).map Int.ofNat) = true := by
  induction seg generalizing s with
  | nil => simp [cumFrom, monotone]
  | cons x xs ih =>
    have := ih (s + x)
    cases xs with
    | nil => simp [cumFrom, monotone]; omega
    | cons y ys =>
      simp only [cumFrom, List.map_cons, monotone, Bool.and_eq_true, decide_eq_true_eq] at this ⊢
      refine ⟨?_, this⟩
      simp only [Int.ofNat_eq_natCast]; omega

theorem strictlyIncreasing_of_sinc : ∀ (l : List Int), SInc l → strictlyIncreasing l = true
  | [], _ => by simp [strictlyIncreasing]
  | [_], _ => by simp [strictlyIncreasing]
  | a :: b :: rest, h => by
    have h1 := List.pairwise_cons.mp h
    simp only [strictlyIncreasing, Bool.and_eq_true, decide_eq_true_eq]
    exact ⟨h1.1 b (by simp), strictlyIncreasing_of_sinc (b :: rest) h1.2⟩

theorem flatten_drop_take : ∀ (ss : List (List Int)) (k : Nat) (hk : k < ss.length),
    (ss.flatten.drop ((ss.map List.length).take k).sum).take
      (((ss.map List.length).take (k + 1)).sum - ((ss.map List.length).take k).sum) = ss[k]
  | [], _, hk => by simp at hk
  | s :: rest, 0, _ => by simp
  | s :: rest, k + 1, hk => by
    have ih := flatten_drop_take rest k (by simpa using hk)
    simp only [List.map_cons, List.take_succ_cons, List.sum_cons, List.flatten_cons,
      List.getElem_cons_succ]
    rw [List.drop_append]
    have e1 : List.drop (s.length + ((rest.map List.length).take k).sum) s = [] := by
      apply List.drop_eq_nil_of_le; omega
    have e2 : s.length + ((rest.map List.length).take k).sum - s.length
        = ((rest.map List.length).take k).sum := by omega
    have e3 : s.length + ((rest.map List.length).take (k + 1)).sum
          - (s.length + ((rest.map List.length).take k).sum)
        = ((rest.map List.length).take (k + 1)).sum - ((rest.map List.length).take k).sum := by
      omega
    rw [e1, e2, e3, List.nil_append]
    exact ih

theorem segmentsSorted_of (ss : List (List Int)) (h : ∀ s ∈ ss, SInc s) :
    segmentsSorted ((cumFrom 0 (ss.map List.length)).map Int.ofNat) ss.flatten = true := by
  unfold segmentsSorted
  rw [List.all_eq_true]
  intro k hk
  simp only [List.length_map, cumFrom_length, Nat.add_sub_cancel, List.mem_range] at hk
  have g1 : ((cumFrom 0 (ss.map List.length)).map Int.ofNat).getD k 0
      = Int.ofNat (((ss.map List.length).take k).sum) := by
    rw [List.getD_eq_getElem?_getD, List.getElem?_map,
      cumFrom_getElem? _ _ _ (by simp; omega)]
    simp
  have g2 : ((cumFrom 0 (ss.map List.length)).map Int.ofNat).getD (k + 1) 0
      = Int.ofNat (((ss.map List.length).take (k + 1)).sum) := by
    rw [List.getD_eq_getElem?_getD, List.getElem?_map,
      cumFrom_getElem? _ _ _ (by simp; omega)]
    simp
  simp only [g1, g2, Int.ofNat_eq_natCast, Int.toNat_natCast]
  rw [flatten_drop_take ss k hk]
  exact strictlyIncreasing_of_sinc _ (h _ (List.getElem_mem hk))

theorem mkLevels_length : ∀ (ms : List Mode) (A : List Lv), A.length = ms.length →
    (mkLevels ms A).length = ms.length
  | [], _, _ => by simp [mkLevels]
  | _ :: _, [], h => by simp at h
  | m :: ms, a :: A, h => by simp [mkLevels, mkLevels_length ms A (by simpa using h)]

theorem mkLevels_modes : ∀ (ms : List Mode) (A : List Lv), A.length = ms.length →
    (mkLevels ms A).map (·.mode) = ms
  | [], _, _ => by simp [mkLevels]
  | _ :: _, [], h => by simp at h
  | m :: ms, a :: A, h => by
    cases m <;> simp [mkLevels, mkLevels_modes ms A (by simpa using h)]

theorem wfLevels_of_Inv : ∀ (ms : List Mode) (ds : List Nat) (A : List Lv) (v : List Int) (n : Nat),
    Inv ms ds A v n → wfLevels (mkLevels ms A) ds n = some v.length
  | [], _, _, _, _, h => by
    simp only [Inv] at h
    simp [mkLevels, wfLevels, h.2]
  | m :: ms, ds, A, v, n, h => by
    obtain ⟨a, A', rfl, h⟩ := h
    cases m with
    | dense =>
      simp only at h
      have ih := wfLevels_of_Inv ms ds.tail A' v _ h
      simp only [mkLevels, wfLevels]
      rw [if_pos (by simp), ih]
    | compressed =>
      obtain ⟨⟨ss, h1, h2, h3, h4⟩, hI⟩ := h
      have ih := wfLevels_of_Inv ms ds.tail A' v _ hI
      simp only [mkLevels, wfLevels]
      rw [if_pos, ih]
      refine ⟨?_, ?_, ?_, ?_, ?_, ?_⟩
      · simp [cumFrom_length, h1, h3]
      · simp [List.head?_map, cumFrom_head]
      · exact monotone_cumFrom _ _
      · rw [List.getLast?_map, cumFrom_getLast]
        simp [h1, h2, List.length_flatten]
      · rw [h1, h2]; exact segmentsSorted_of ss (fun s hs => (h4 s hs).1)
      · rw [List.all_eq_true]
        intro c hc
        rw [h2] at hc
        obtain ⟨s, hs, hcs⟩ := List.mem_flatten.mp hc
        simpa using (h4 s hs).2 c hcs

theorem crdRangeOk_of_Inv : ∀ (ms : List Mode) (ds : List Nat) (A : List Lv) (v : List Int)
    (n i : Nat), Inv ms ds A v n → crdRangeOk (mkLevels ms A) ds i = none
  | [], _, _, _, _, _, h => by
    simp only [Inv] at h
    simp [mkLevels, crdRangeOk]
  | m :: ms, ds, A, v, n, i, h => by
    obtain ⟨a, A', rfl, h⟩ := h
    cases m with
    | dense =>
      simp only at h
      have ih := crdRangeOk_of_Inv ms ds.tail A' v _ (i + 1) h
      simp only [mkLevels, crdRangeOk]
      rw [if_neg (by simp), ih]
    | compressed =>
      obtain ⟨⟨ss, h1, h2, h3, h4⟩, hI⟩ := h
      have ih := crdRangeOk_of_Inv ms ds.tail A' v _ (i + 1) hI
      simp only [mkLevels, crdRangeOk]
      rw [if_neg, ih]
      intro hc
      apply hc.2
      rw [List.all_eq_true]
      intro c hc
      rw [h2] at hc
      obtain ⟨s, hs, hcs⟩ := List.mem_flatten.mp hc
      simpa using (h4 s hs).2 c hcs

end TV.Storage
