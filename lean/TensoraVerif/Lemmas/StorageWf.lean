import TensoraVerif.Lemmas.StorageRoundTripPerm

/-!
Consequences of well-formedness (`wfLevels`) of an arbitrary stored tensor (not necessarily one
produced by `encode`): it passes `validateLevels`, `dec` performs no out-of-range read, and the
level-order coordinates it yields are pairwise distinct.
-/
namespace TV.Storage

/-! ### validation -/

theorem wfLevels_validate : ∀ (ls : List Level) (dims : List Nat) (n m : Nat),
    wfLevels ls dims n = some m → validateLevels ls dims n = some m
  | [], _, _, _, h => h
  | l :: ls, dims, n, m, h => by
    unfold wfLevels at h
    unfold validateLevels
    cases hm : l.mode with
    | dense =>
      simp only [hm] at h ⊢
      split at h
      · rename_i hc
        rw [if_pos hc]
        exact wfLevels_validate _ _ _ _ h
      · cases h
    | compressed =>
      simp only [hm] at h ⊢
      split at h
      · rename_i hc
        rw [if_pos ⟨hc.1, hc.2.1, hc.2.2.1, hc.2.2.2.1, hc.2.2.2.2.2⟩]
        exact wfLevels_validate _ _ _ _ h
      · cases h

/-! ### `monotone` / `strictlyIncreasing` as `Pairwise` -/

theorem monotone_pairwise : ∀ l : List Int, monotone l = true → l.Pairwise (· ≤ ·)
  | [], _ => .nil
  | [a], _ => by simp
  | a :: b :: rest, h => by
    simp only [monotone, Bool.and_eq_true, decide_eq_true_eq] at h
    have ih := monotone_pairwise (b :: rest) h.2
    refine List.pairwise_cons.mpr ⟨fun x hx => ?_, ih⟩
    rcases List.mem_cons.mp hx with rfl | hx
    · exact h.1
    · exact Int.le_trans h.1 ((List.pairwise_cons.mp ih).1 x hx)

theorem sinc_of_strictlyIncreasing : ∀ l : List Int, strictlyIncreasing l = true → SInc l
  | [], _ => .nil
  | [a], _ => by simp [SInc]
  | a :: b :: rest, h => by
    simp only [strictlyIncreasing, Bool.and_eq_true, decide_eq_true_eq] at h
    have ih := sinc_of_strictlyIncreasing (b :: rest) h.2
    refine List.pairwise_cons.mpr ⟨fun x hx => ?_, ih⟩
    rcases List.mem_cons.mp hx with rfl | hx
    · exact h.1
    · exact Int.lt_trans h.1 ((List.pairwise_cons.mp ih).1 x hx)

/-- the arithmetic content of the `pos` checks: the segment of parent `p` is `[s, e)` with
`s ≤ e ≤ len` -/
theorem pos_facts {pos : List Int} {n len : Nat} (hlen : pos.length = n + 1)
    (hhead : pos.head? = some 0) (hmono : monotone pos = true)
    (hlast : pos.getLast? = some (Int.ofNat len)) {p : Nat} (hp : p < n) :
    ∃ s e : Nat, pos[p]? = some (s : Int) ∧ pos[p + 1]? = some (e : Int) ∧ s ≤ e ∧ e ≤ len := by
  have hpw := List.pairwise_iff_getElem.mp (monotone_pairwise pos hmono)
  have h0 : pos[0]'(by omega) = 0 := by
    rw [List.head?_eq_getElem?, List.getElem?_eq_getElem (by omega)] at hhead
    exact Option.some.inj hhead
  have hn : pos[n]'(by omega) = (len : Int) := by
    rw [List.getLast?_eq_getElem?, hlen, Nat.add_sub_cancel, List.getElem?_eq_getElem (by omega)]
      at hlast
    exact Option.some.inj hlast
  have h1 : 0 ≤ pos[p]'(by omega) := by
    by_cases hp0 : p = 0
    · subst hp0; omega
    · have := hpw 0 p (by omega) (by omega) (by omega); omega
  have h2 : pos[p]'(by omega) ≤ pos[p + 1]'(by omega) := hpw p (p + 1) (by omega) (by omega) (by omega)
  have h3 : pos[p + 1]'(by omega) ≤ (len : Int) := by
    by_cases hpn : p + 1 = n
    · subst hpn; omega
    · have := hpw (p + 1) n (by omega) (by omega) (by omega); omega
  refine ⟨(pos[p]'(by omega)).toNat, (pos[p + 1]'(by omega)).toNat, ?_, ?_, by omega, by omega⟩
  · rw [List.getElem?_eq_getElem (by omega), Int.toNat_of_nonneg h1]
  · rw [List.getElem?_eq_getElem (by omega), Int.toNat_of_nonneg (by omega)]

/-! ### total read-back -/

/-- what `dec` returns when no read is out of range (reads outside the arrays default to 0) -/
def decT (vals : List Int) : List Level → List Nat → List Int → Nat → List (List Int × Int)
  | [], _, pre, p => [(pre.reverse, vals.getD p 0)]
  | l :: ls, dims, pre, p =>
    match l.mode with
    | .dense =>
      (List.range (dims.headD 0)).flatMap fun c =>
        decT vals ls dims.tail (Int.ofNat c :: pre) (dims.headD 0 * p + c)
    | .compressed =>
      (List.range ((l.pos.getD (p + 1) 0) - (l.pos.getD p 0)).toNat).flatMap fun j =>
        decT vals ls dims.tail (l.crd.getD ((l.pos.getD p 0).toNat + j) 0 :: pre)
          ((l.pos.getD p 0).toNat + j)

theorem dense_child_lt {d p c n : Nat} (hp : p < n) (hc : c < d) : d * p + c < n * d := by
  have : d * (p + 1) ≤ d * n := Nat.mul_le_mul_left d hp
  rw [Nat.mul_succ] at this
  rw [Nat.mul_comm n d]
  omega

/-- no out-of-range array access below a well-formed level list -/
theorem dec_total (vals : List Int) : ∀ (ls : List Level) (dims : List Nat) (n m : Nat)
    (pre : List Int) (p : Nat), wfLevels ls dims n = some m → m ≤ vals.length → p < n →
    dec vals ls dims pre p = some (decT vals ls dims pre p)
  | [], dims, n, m, pre, p, h, hv, hp => by
    simp only [wfLevels, Option.some.injEq] at h
    have : p < vals.length := by omega
    simp [dec, decT, this]
  | l :: ls, dims, n, m, pre, p, h, hv, hp => by
    unfold wfLevels at h
    unfold dec decT
    cases hm : l.mode with
    | dense =>
      simp only [hm] at h ⊢
      split at h
      · refine (foldlM_append_some _
          (fun c => decT vals ls dims.tail (Int.ofNat c :: pre) (dims.headD 0 * p + c)) _ ?_ []).trans
          (by rw [List.nil_append])
        intro acc c hc
        rw [dec_total vals ls dims.tail _ m _ _ h hv (dense_child_lt hp (List.mem_range.mp hc))]
        rfl
      · cases h
    | compressed =>
      simp only [hm] at h ⊢
      split at h
      · rename_i hc
        obtain ⟨s, e, hs, he, hse, hel⟩ := pos_facts hc.1 hc.2.1 hc.2.2.1 hc.2.2.2.1 hp
        have hsD : l.pos.getD p 0 = (s : Int) := by rw [List.getD_eq_getElem?_getD, hs]; rfl
        have heD : l.pos.getD (p + 1) 0 = (e : Int) := by rw [List.getD_eq_getElem?_getD, he]; rfl
        simp only [hs, he, hsD, heD]
        refine (foldlM_append_some _
          (fun j => decT vals ls dims.tail (l.crd.getD ((s : Int).toNat + j) 0 :: pre)
            ((s : Int).toNat + j)) _ ?_ []).trans (by rw [List.nil_append])
        intro acc j hj
        have hj' : j < e - s := by have := List.mem_range.mp hj; omega
        have hq : (s : Int).toNat + j < l.crd.length := by omega
        have hneg : ¬ ((s : Int) < 0) := by omega
        rw [if_neg hneg, List.getElem?_eq_getElem hq]
        simp only
        rw [dec_total vals ls dims.tail _ m _ _ h hv hq, List.getD_eq_getElem?_getD,
          List.getElem?_eq_getElem hq]
        rfl
      · cases h

/-! ### distinct coordinates -/

/-- every coordinate read below a node extends the node's prefix by one coordinate per level -/
theorem decT_shape (vals : List Int) : ∀ (ls : List Level) (dims : List Nat) (pre : List Int) (p : Nat),
    ∀ e ∈ decT vals ls dims pre p, ∃ suf, e.1 = pre.reverse ++ suf ∧ suf.length = ls.length
  | [], _, pre, p, e, he => by
    simp only [decT, List.mem_singleton] at he
    exact ⟨[], by simp [he]⟩
  | l :: ls, dims, pre, p, e, he => by
    unfold decT at he
    cases hm : l.mode with
    | dense =>
      simp only [hm, List.mem_flatMap] at he
      obtain ⟨c, _, he⟩ := he
      obtain ⟨suf, h1, h2⟩ := decT_shape vals ls dims.tail _ _ e he
      exact ⟨Int.ofNat c :: suf, by simp [h1], by simp [h2]⟩
    | compressed =>
      simp only [hm, List.mem_flatMap] at he
      obtain ⟨j, _, he⟩ := he
      obtain ⟨suf, h1, h2⟩ := decT_shape vals ls dims.tail _ _ e he
      refine ⟨l.crd.getD ((l.pos.getD p 0).toNat + j) 0 :: suf, ?_, by simp [h2]⟩
      rw [h1, List.reverse_cons, List.append_assoc]
      rfl

/-- children with different coordinates yield different coordinates -/
theorem decT_child_ne (vals : List Int) (ls : List Level) (dims : List Nat) (pre : List Int)
    {c c' : Int} {q q' : Nat} (hne : c ≠ c') {x y : List Int × Int}
    (hx : x ∈ decT vals ls dims (c :: pre) q) (hy : y ∈ decT vals ls dims (c' :: pre) q') :
    x.1 ≠ y.1 := by
  obtain ⟨s1, h1, _⟩ := decT_shape vals ls dims _ _ x hx
  obtain ⟨s2, h2, _⟩ := decT_shape vals ls dims _ _ y hy
  intro h
  rw [h1, h2, List.reverse_cons, List.reverse_cons, List.append_assoc, List.append_assoc] at h
  have := List.append_cancel_left h
  simp only [List.singleton_append, List.cons.injEq] at this
  exact hne this.1

/-- the level-order coordinates read below a node of a well-formed level list are pairwise distinct -/
theorem decT_nodup (vals : List Int) : ∀ (ls : List Level) (dims : List Nat) (n m : Nat)
    (pre : List Int) (p : Nat), wfLevels ls dims n = some m → p < n →
    (decT vals ls dims pre p).Pairwise (fun a b => a.1 ≠ b.1)
  | [], _, _, _, pre, p, _, _ => by simp [decT]
  | l :: ls, dims, n, m, pre, p, h, hp => by
    unfold wfLevels at h
    unfold decT
    cases hm : l.mode with
    | dense =>
      simp only [hm] at h ⊢
      split at h
      · rw [List.pairwise_flatMap]
        constructor
        · intro c hc
          exact decT_nodup vals ls dims.tail _ m _ _ h (dense_child_lt hp (List.mem_range.mp hc))
        · refine List.pairwise_lt_range.imp ?_
          intro a b hab x hx y hy
          exact decT_child_ne vals ls dims.tail pre (by simp; omega) hx hy
      · cases h
    | compressed =>
      simp only [hm] at h ⊢
      split at h
      · rename_i hc
        obtain ⟨s, e, hs, he, hse, hel⟩ := pos_facts hc.1 hc.2.1 hc.2.2.1 hc.2.2.2.1 hp
        have hsD : l.pos.getD p 0 = (s : Int) := by rw [List.getD_eq_getElem?_getD, hs]; rfl
        have heD : l.pos.getD (p + 1) 0 = (e : Int) := by rw [List.getD_eq_getElem?_getD, he]; rfl
        -- the segment of `p` is strictly increasing
        have hseg : SInc ((l.crd.drop s).take (e - s)) := by
          have := hc.2.2.2.2.1
          unfold segmentsSorted at this
          rw [List.all_eq_true] at this
          have := this p (List.mem_range.mpr (by omega))
          simp only [hsD, heD, Int.toNat_natCast] at this
          exact sinc_of_strictlyIncreasing _ this
        have hseglen : ((l.crd.drop s).take (e - s)).length = e - s := by
          rw [List.length_take, List.length_drop]; omega
        have hlt : ∀ j j', j < j' → j' < e - s → l.crd.getD (s + j) 0 < l.crd.getD (s + j') 0 := by
          intro j j' hjj hj'
          have := List.pairwise_iff_getElem.mp hseg j j' (by omega) (by omega) hjj
          simp only [List.getElem_take, List.getElem_drop] at this
          rw [List.getD_eq_getElem?_getD, List.getD_eq_getElem?_getD,
            List.getElem?_eq_getElem (by omega), List.getElem?_eq_getElem (by omega)]
          exact this
        simp only [hsD, heD, Int.toNat_natCast]
        rw [List.pairwise_flatMap]
        constructor
        · intro j hj
          have := List.mem_range.mp hj
          exact decT_nodup vals ls dims.tail _ m _ _ h (by omega)
        · refine List.pairwise_lt_range.imp_of_mem ?_
          intro a b _ hb hab x hx y hy
          have hb' := List.mem_range.mp hb
          exact decT_child_ne vals ls dims.tail pre
            (Int.ne_of_lt (hlt a b hab (by omega))) hx hy
      · cases h

/-! ### the permutation back to dimension order is injective on coordinates of full length -/

theorem fromLevelOrder_inj {ordering : List Nat} {n : Nat} (hv : ValidOrd ordering n)
    {a b : List Int} (ha : a.length = n) (hb : b.length = n)
    (h : fromLevelOrder ordering a = fromLevelOrder ordering b) : a = b := by
  have := congrArg (lo ordering) h
  rwa [lo_from hv ha, lo_from hv hb] at this

end TV.Storage
