import TensoraVerif.Lemmas.LoweringGenerate

/-!
A parametrised syntactic certificate about STORE TARGETS, `storeCert okVar okArr okAttr out`:
every `.assign target _` of the program, at any depth, has a target of one of the shapes
* `.var x` with `okVar x` (assignment to a local variable),
* `.idx (.var arr) _` with `okArr arr` (store into the array the local pointer variable `arr` points to),
* `.attr (.var out) "vals"` or `.idx (.idx (.attr (.var out) "indices") _) _`, and only if `okAttr`
  (hand-over of an array to the struct of the tensor called `out`),
and nothing else (`.decl` / `.declAssign` are declarations, not stores).

This file: the definition, list lemmas, the builder (`SB`) lemmas and the helper statements of the
lowering pass. The lowering pass is then analysed once, for arbitrary parameters.
-/
namespace TV.IR
variable {F : Type}

/-- the admissible left-hand sides of an assignment -/
def Expr.storeTarget (okVar okArr : String → Bool) (okAttr : Bool) (out : String) : Expr F → Bool
  | .var x => okVar x
  | .idx (.var arr) _ => okArr arr
  | .attr (.var t) a => okAttr && (t == out && a == "vals")
  | .idx (.idx (.attr (.var t) a) _) _ => okAttr && (t == out && a == "indices")
  | _ => false

mutual
def Stmt.storeCert (okVar okArr : String → Bool) (okAttr : Bool) (out : String) : Stmt F → Bool
  | .expr _ => true
  | .decl _ _ => true
  | .assign t _ => t.storeTarget okVar okArr okAttr out
  | .declAssign _ _ _ => true
  | .block ss _ => storeCertL okVar okArr okAttr out ss
  | .branch _ t f => t.storeCert okVar okArr okAttr out && f.storeCert okVar okArr okAttr out
  | .loop _ b => b.storeCert okVar okArr okAttr out
  | .ret _ => true
def storeCertL (okVar okArr : String → Bool) (okAttr : Bool) (out : String) : List (Stmt F) → Bool
  | [] => true
  | s :: ss => s.storeCert okVar okArr okAttr out && storeCertL okVar okArr okAttr out ss
end

section
variable (ov oa : String → Bool) (ot : Bool) (o : String)

@[simp] theorem storeTarget_var (x : String) : (Expr.var x : Expr F).storeTarget ov oa ot o = ov x := by
  simp [Expr.storeTarget]

@[simp] theorem storeTarget_idx_var (arr : String) (i : Expr F) :
    (Expr.idx (.var arr) i : Expr F).storeTarget ov oa ot o = oa arr := by
  simp [Expr.storeTarget]

@[simp] theorem storeTarget_attr_var (t a : String) :
    (Expr.attr (.var t) a : Expr F).storeTarget ov oa ot o = (ot && (t == o && a == "vals")) := by
  simp [Expr.storeTarget]

@[simp] theorem storeTarget_indices (t a : String) (i j : Expr F) :
    (Expr.idx (.idx (.attr (.var t) a) i) j : Expr F).storeTarget ov oa ot o =
      (ot && (t == o && a == "indices")) := by
  simp [Expr.storeTarget]

/-! ### lists of statements -/

theorem storeCertL_append (xs ys : List (Stmt F)) :
    storeCertL ov oa ot o (xs ++ ys) = (storeCertL ov oa ot o xs && storeCertL ov oa ot o ys) := by
  induction xs with
  | nil => simp [storeCertL]
  | cons x xs ih => simp [storeCertL, ih, Bool.and_assoc]

theorem storeCertL_iff (xs : List (Stmt F)) :
    storeCertL ov oa ot o xs = true ↔ ∀ s ∈ xs, s.storeCert ov oa ot o = true := by
  induction xs with
  | nil => simp [storeCertL]
  | cons x xs ih => simp [storeCertL, ih]

/-- a list of declarations stores nothing -/
theorem storeCertL_of_forall (xs : List (Stmt F)) (h : ∀ s ∈ xs, s.storeCert ov oa ot o = true) :
    storeCertL ov oa ot o xs = true := (storeCertL_iff ov oa ot o xs).2 h

/-! ### monotonicity: a certificate with smaller predicates implies the one with larger predicates -/

theorem storeTarget_mono {ov oa ov' oa' : String → Bool} {ot ot' : Bool} {o : String}
    (hv : ∀ x, ov x = true → ov' x = true) (ha : ∀ x, oa x = true → oa' x = true)
    (ht : ot = true → ot' = true) (e : Expr F) (h : e.storeTarget ov oa ot o = true) :
    e.storeTarget ov' oa' ot' o = true := by
  unfold Expr.storeTarget at h ⊢
  split at h
  · exact hv _ h
  · exact ha _ h
  · simp only [Bool.and_eq_true] at h ⊢; exact ⟨ht h.1, h.2⟩
  · simp only [Bool.and_eq_true] at h ⊢; exact ⟨ht h.1, h.2⟩
  · cases h

mutual
theorem storeCert_mono {ov oa ov' oa' : String → Bool} {ot ot' : Bool} {o : String}
    (hv : ∀ x, ov x = true → ov' x = true) (ha : ∀ x, oa x = true → oa' x = true)
    (ht : ot = true → ot' = true) (s : Stmt F) (h : s.storeCert ov oa ot o = true) :
    s.storeCert ov' oa' ot' o = true := by
  cases s with
  | assign t v => simp only [Stmt.storeCert] at h ⊢; exact storeTarget_mono hv ha ht t h
  | block ss c => simp only [Stmt.storeCert] at h ⊢; exact storeCertL_mono hv ha ht ss h
  | branch c t f =>
    simp only [Stmt.storeCert, Bool.and_eq_true] at h ⊢
    exact ⟨storeCert_mono hv ha ht t h.1, storeCert_mono hv ha ht f h.2⟩
  | loop c b => simp only [Stmt.storeCert] at h ⊢; exact storeCert_mono hv ha ht b h
  | _ => simp [Stmt.storeCert]
theorem storeCertL_mono {ov oa ov' oa' : String → Bool} {ot ot' : Bool} {o : String}
    (hv : ∀ x, ov x = true → ov' x = true) (ha : ∀ x, oa x = true → oa' x = true)
    (ht : ot = true → ot' = true) (ss : List (Stmt F)) (h : storeCertL ov oa ot o ss = true) :
    storeCertL ov' oa' ot' o ss = true := by
  cases ss with
  | nil => simp [storeCertL]
  | cons s ss =>
    simp only [storeCertL, Bool.and_eq_true] at h ⊢
    exact ⟨storeCert_mono hv ha ht s h.1, storeCertL_mono hv ha ht ss h.2⟩
end

end
end TV.IR

namespace TV.Gen
open TV.IR TV.Graph
variable {F : Type}

section
variable (ov oa : String → Bool) (ot : Bool) (o : String)

/-! ### the builder -/

def SB.sc (b : SB F) : Bool := storeCertL ov oa ot o b.lines

@[simp] theorem SB.sc_empty : (SB.empty : SB F).sc ov oa ot o = true := by
  simp [SB.sc, SB.empty, storeCertL]

@[simp] theorem SB.sc_mk' (c : Option String) : (SB.mk' c : SB F).sc ov oa ot o = true := by
  simp [SB.sc, SB.mk', storeCertL]

@[simp] theorem SB.sc_add (b : SB F) (s : Stmt F) :
    (b.add s).sc ov oa ot o = (b.sc ov oa ot o && s.storeCert ov oa ot o) := by
  simp [SB.sc, SB.add, storeCertL_append, storeCertL]

@[simp] theorem SB.sc_append (b x : SB F) :
    (b.append x).sc ov oa ot o = (b.sc ov oa ot o && x.sc ov oa ot o) := by
  unfold SB.append
  split <;> simp [SB.sc, storeCertL_append, storeCertL, Stmt.storeCert]

@[simp] theorem SB.sc_finalize (b : SB F) : b.finalize.storeCert ov oa ot o = b.sc ov oa ot o := by
  simp [SB.finalize, SB.sc, Stmt.storeCert]

@[simp] theorem SB.sc_branch (b : SB F) (c : Expr F) (body : List (Stmt F)) :
    (b.branch c body).sc ov oa ot o = (b.sc ov oa ot o && storeCertL ov oa ot o body) := by
  simp [SB.branch, Stmt.storeCert, storeCertL]

@[simp] theorem SB.sc_loop (b : SB F) (c : Expr F) (body : List (Stmt F)) :
    (b.loop c body).sc ov oa ot o = (b.sc ov oa ot o && storeCertL ov oa ot o body) := by
  simp [SB.loop, Stmt.storeCert]

theorem SB.sc_lines (b : SB F) : storeCertL ov oa ot o b.lines = b.sc ov oa ot o := rfl

theorem SB.sc_appended (x : SB F) : storeCertL ov oa ot o x.appended = x.sc ov oa ot o := by
  unfold SB.appended
  split <;> simp [storeCertL, Stmt.storeCert, SB.sc]

/-! ### statement helpers -/

@[simp] theorem sc_declAssignE (n : String) (t : Ty) (e : Expr F) :
    (declAssignE n t e).storeCert ov oa ot o = true := by simp [declAssignE, Stmt.storeCert]

@[simp] theorem sc_increment (t a : Expr F) :
    (increment t a).storeCert ov oa ot o = t.storeTarget ov oa ot o := by
  simp [increment, Stmt.storeCert]

theorem sc_branchJoin (xs : List (Expr F × Stmt F))
    (hx : ∀ p ∈ xs, p.2.storeCert ov oa ot o = true) : (branchJoin xs).storeCert ov oa ot o = true := by
  induction xs with
  | nil => simp [branchJoin, Stmt.storeCert, storeCertL]
  | cons p xs ih =>
    obtain ⟨c, s⟩ := p
    have := hx (c, s) (by simp)
    simp only [branchJoin, Stmt.storeCert, Bool.and_eq_true]
    exact ⟨this, ih (fun p hp => hx p (by simp [hp]))⟩

theorem SB.sc_foldl {α : Type} (f : SB F → α → SB F) (xs : List α) (b0 : SB F)
    (h0 : b0.sc ov oa ot o = true) (hf : ∀ b a, a ∈ xs → b.sc ov oa ot o = true → (f b a).sc ov oa ot o = true) :
    (xs.foldl f b0).sc ov oa ot o = true :=
  foldl_inv (fun b => b.sc ov oa ot o = true) f xs b0 h0 hf

theorem SB.sc_foldl_add {α : Type} (f : α → Stmt F) (xs : List α) (b0 : SB F) :
    (xs.foldl (fun b x => b.add (f x)) b0).sc ov oa ot o =
      (b0.sc ov oa ot o && xs.all fun x => (f x).storeCert ov oa ot o) := by
  induction xs generalizing b0 with
  | nil => simp
  | cons x xs ih => simp [ih, Bool.and_assoc]

theorem SB.sc_foldl_foldl_add {α β : Type} (g : α → List β) (f : β → Stmt F) (xs : List α) (b0 : SB F) :
    (xs.foldl (fun b x => (g x).foldl (fun b y => b.add (f y)) b) b0).sc ov oa ot o =
      (b0.sc ov oa ot o && xs.all fun x => (g x).all fun y => (f y).storeCert ov oa ot o) := by
  induction xs generalizing b0 with
  | nil => simp
  | cons x xs ih => simp [ih, SB.sc_foldl_add, Bool.and_assoc]

end
end TV.Gen
