import TensoraVerif.Lemmas.StoreCertNames

/-!
Closed examples for the store certificate. `lower` is defined by well-founded recursion and does not
reduce by `decide`/`rfl`; it is unfolded by hand (`unfold lower`), the recursive call is rewritten
with a lemma on the terminal, and what remains is a closed computable term, evaluated by `rfl`.

* `goodGraph`: `a(i) = 1`, `a` compressed, output leaf `⟨a, 0⟩` — the kernel is generated;
* `badGraph`: the same graph whose output leaf is layer 0 of the INPUT tensor `b`: the kernel is
  generated and it stores into `b_0_crd[…]` and `b_0_pos[…]` — the hypothesis on output leaves in
  `generateIr_store_targets` cannot be dropped.
-/
namespace TV.Gen.StoreExamples
open TV.IR TV.Gen TV.Graph

abbrev ofR : Rat → Int := fun r => r.num

def aT : TensorId := ⟨"0_a", "a", ["i"], [.compressed]⟩
def bT : TensorId := ⟨"1_b", "b", ["i"], [.compressed]⟩
def fm : Formats := [("a", [.compressed], [0]), ("b", [.compressed], [0])]
def asg : Alg.DAssign := ⟨"a", ["i"], .int 1⟩
def goodGraph : IGraph := .iter "i" (some ⟨aT, 0⟩) (.terminal (.int 1))
def badGraph : IGraph := .iter "i" (some ⟨bT, 0⟩) (.terminal (.int 1))

theorem outTensor_asg : outTensor asg fm = aT := by decide

/-- if the lowering of the graph succeeds, so does `generateIr` -/
theorem generateIr_ok_of_lower {F : Type} (ofRat : Rat → F) (cap : Option Int) (a : Alg.DAssign) (formats : Formats)
    (g : IGraph) (k : Kind) (body : SB F)
    (h : lower ofRat (4 * g.size + 8) g (.append (outTensor a formats) 0) k = .ok body) :
    ∃ f, generateIr ofRat cap a formats g k = .ok f := by
  unfold generateIr
  simp only []
  unfold outTensor at h
  rw [h]
  exact ⟨_, rfl⟩

theorem subgraphs_good : generateSubgraphs (.iter "i" (some ⟨aT, 0⟩) (.terminal (.int 1))) =
    [.iter "i" (some ⟨aT, 0⟩) (.terminal (.int 1))] := by rfl

theorem subgraphs_bad : generateSubgraphs (.iter "i" (some ⟨bT, 0⟩) (.terminal (.int 1))) =
    [.iter "i" (some ⟨bT, 0⟩) (.terminal (.int 1))] := by rfl

theorem next_aT (k : Kind) : (Output.append aT 0).next (F := Int) (some 0) k = .ok (.append aT 1, SB.empty) := by
  rfl

theorem lower_terminal (n : Nat) (k : Kind) :
    ∃ b, lower (F := Int) ofR (n + 1) (.terminal (.int 1)) (.append aT 1) k = .ok b := by
  unfold lower
  cases k <;> exact ⟨_, rfl⟩

theorem lower_terminal_assemble (n : Nat) :
    lower (F := Int) ofR (n + 1) (.terminal (.int 1)) (.append aT 1) .assemble =
      .ok ⟨some "*** Computation of expression ***", [.assign (.var "written_a_0") (.boolLit true)]⟩ := by
  unfold lower
  rfl

theorem lower_good (n : Nat) (k : Kind) :
    ∃ b, lower (F := Int) ofR (n + 2) goodGraph (.append aT 0) k = .ok b := by
  obtain ⟨bt, hbt⟩ := lower_terminal n k
  unfold goodGraph
  unfold lower
  simp only [subgraphs_good, Option.map, next_aT, List.foldlM_cons, List.foldlM_nil, bind, Except.bind, pure,
    Except.pure, hbt]
  cases k <;> exact ⟨_, rfl⟩

/-- the lowering of `badGraph` succeeds and stores into an array of the input tensor `b` -/
theorem lower_bad (n : Nat) :
    ∃ b, lower (F := Int) ofR (n + 2) badGraph (.append aT 0) .assemble = .ok b ∧
      b.sc anyVar (okOutArr aT) true "a" = false := by
  unfold badGraph
  unfold lower
  simp only [subgraphs_bad, Option.map, next_aT, List.foldlM_cons, List.foldlM_nil, bind, Except.bind, pure,
    Except.pure, lower_terminal_assemble]
  exact ⟨_, rfl, rfl⟩

theorem generateIr_good (k : Kind) : ∃ f, generateIr (F := Int) ofR none asg fm goodGraph k = .ok f := by
  obtain ⟨b, hb⟩ := lower_good 14 k
  exact generateIr_ok_of_lower ofR none asg fm goodGraph k b (by rw [outTensor_asg]; exact hb)

/-- a bad store in the lowered graph is a bad store of the kernel -/
theorem generateIr_sc_false {F : Type} (ofRat : Rat → F) (cap : Option Int) (a : Alg.DAssign) (formats : Formats)
    (g : IGraph) (k : Kind) (body : SB F) (oa : String → Bool) (ot : Bool) (o : String)
    (hb : lower ofRat (4 * g.size + 8) g (.append (outTensor a formats) 0) k = .ok body)
    (hsc : body.sc anyVar oa ot o = false) :
    ∃ f, generateIr ofRat cap a formats g k = .ok f ∧ f.body.storeCert anyVar oa ot o = false := by
  obtain ⟨f, hf⟩ := generateIr_ok_of_lower ofRat cap a formats g k body hb
  refine ⟨f, hf, ?_⟩
  obtain ⟨body', hbody, hfb, -⟩ := generateIr_body ofRat cap a formats g k f hf
  rw [hb] at hbody
  cases hbody
  rw [hfb]
  simp [Stmt.storeCert, storeCertL, storeCertL_append, SB.sc_appended, hsc]

theorem generateIr_bad :
    ∃ f, generateIr (F := Int) ofR none asg fm badGraph .assemble = .ok f ∧
      f.body.storeCert anyVar (okOutArr (outTensor asg fm)) true (outTensor asg fm).name = false := by
  obtain ⟨b, hb, hsc⟩ := lower_bad 14
  rw [outTensor_asg]
  exact generateIr_sc_false ofR none asg fm badGraph .assemble b _ _ _ (by rw [outTensor_asg]; exact hb) hsc

/-! the format table has no entry for the output tensor `a`: `outTensor` is the default `TensorId`
(name `""`), and the kernel of `a() = 0` stores into `_vals[0]`, not into `a_vals[0]` -/

def asg0 : Alg.DAssign := ⟨"a", [], .int 0⟩

theorem outTensor_asg0 : outTensor asg0 [] = default := by decide

theorem generateIr_noformat :
    ∃ f, generateIr (F := Int) ofR none asg0 [] (.terminal (.int 0)) .evaluate = .ok f ∧
      f.body.storeCert anyVar (okOutArr ⟨"0_a", "a", [], []⟩) true "a" = false ∧
      f.body.storeCert anyVar (okOutArr (outTensor asg0 [])) true (outTensor asg0 []).name = true := by
  have hl : ∃ b, lower (F := Int) ofR (4 * (IGraph.terminal (.int 0)).size + 8) (.terminal (.int 0))
      (.append (outTensor asg0 []) 0) .evaluate = .ok b ∧
      b.sc anyVar (okOutArr ⟨"0_a", "a", [], []⟩) true "a" = false := by
    rw [outTensor_asg0]
    unfold lower
    exact ⟨_, rfl, rfl⟩
  obtain ⟨b, hb, hsc⟩ := hl
  obtain ⟨f, hf, hfalse⟩ := generateIr_sc_false ofR none asg0 [] _ .evaluate b _ _ _ hb hsc
  refine ⟨f, hf, hfalse, ?_⟩
  exact generateIr_sc (okOutArr (outTensor asg0 [])) true (fun _ => false) ofR none asg0 [] _ .evaluate f
    (okOutValArr_le _ _ (okOutValArr_vals _)) (fun n => okOutValArr_le _ _ (okOutValArr_bucket _ n))
    (by intro _ l hl; cases hl)
    (by rw [outTensor_asg0]; intro _ i hi; exact absurd hi (Nat.not_lt_zero i))
    (fun _ => rfl) rfl hf

end TV.Gen.StoreExamples
