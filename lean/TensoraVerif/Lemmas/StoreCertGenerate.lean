import TensoraVerif.Lemmas.StoreCertLower

/-!
The store certificate of the whole function produced by `generateIr` (generic in the array
predicate), the two concrete array predicates used by the property file, and the facts that
instantiate the generic theorem with them.
-/
namespace TV.Gen
open TV.IR TV.Graph
variable {F : Type}

/-! ### the generic theorem -/

theorem dimDecls_sc (oa : String → Bool) (ot : Bool) (o : String) (a : Alg.DAssign) :
    storeCertL anyVar oa ot o (dimDecls a : List (Stmt F)) = true := by
  apply storeCertL_of_forall
  intro s hs
  simp only [dimDecls, List.mem_map] at hs
  obtain ⟨⟨i, name, d⟩, _, rfl⟩ := hs
  simp

theorem unpackDecls_sc (oa : String → Bool) (ot : Bool) (o : String) (formats : Formats) :
    storeCertL anyVar oa ot o (unpackDecls formats : List (Stmt F)) = true := by
  apply storeCertL_of_forall
  intro s hs
  simp only [unpackDecls, List.mem_flatMap, List.mem_append, List.mem_singleton] at hs
  obtain ⟨⟨name, modes, ord⟩, _, hs | hs⟩ := hs
  · obtain ⟨i, _, hs⟩ := hs
    split at hs
    · simp only [List.mem_cons, List.not_mem_nil, or_false] at hs
      rcases hs with rfl | rfl <;> simp
    · cases hs
  · subst hs; simp

/-- **Store targets of every generated kernel, generically.** `T` is the output tensor. If the array
predicate `oa` accepts `<T>_vals`, the bucket names of `T`, in assembling kernels the `pos` arrays
of the compressed layers of `T` and the `crd`/`pos` arrays of the compressed output leaves of the
graph (all of which satisfy `p`), and the attribute flag is set in assembling kernels, then every
store of the body targets a local variable, an array accepted by `oa`, or hands an array over to the
struct of `T`. -/
theorem generateIr_sc (oa : String → Bool) (ot : Bool) (p : Leaf → Bool) (ofRat : Rat → F) (cap : Option Int)
    (a : Alg.DAssign) (formats : Formats) (g : IGraph) (k : Kind) (f : Func F)
    (hv : oa (valsName (outTensor a formats).name) = true)
    (hb : ∀ n, oa (bucketName (outTensor a formats) (bucketLayers (outTensor a formats) n)) = true)
    (hl : k.isAssemble = true → ∀ l : Leaf, p l = true → l.mode = .compressed →
      oa (crdName l.tensor.name l.layer) = true ∧ oa (posName l.tensor.name l.layer) = true)
    (hpos : k.isAssemble = true → ∀ i, i < (outTensor a formats).modes.length →
      (outTensor a formats).modes.getD i .dense = .compressed →
      oa (posName (outTensor a formats).name i) = true)
    (hot : k.isAssemble = true → ot = true)
    (hg : g.outAll p = true)
    (h : generateIr ofRat cap a formats g k = .ok f) :
    f.body.storeCert anyVar oa ot (outTensor a formats).name = true := by
  obtain ⟨body, hbody, hf, -⟩ := generateIr_body ofRat cap a formats g k f h
  rw [hf]
  simp only [Stmt.storeCert, storeCertL, storeCertL_append, SB.sc_appended, Bool.and_eq_true, SB.sc_lines]
  exact ⟨dimDecls_sc oa ot _ a, unpackDecls_sc oa ot _ formats,
    appendDeclarations_sc oa ot _ cap _ k hpos,
    ⟨lower_sc oa ot _ _ p ofRat k hv hb hl _ _ (.append (outTensor a formats) 0) _
       (show (outTensor a formats) = (outTensor a formats) from rfl) hg hbody,
     appendCleanup_sc oa ot _ k hot⟩, trivial, trivial⟩

/-! ### the concrete array predicates -/

/-- the bucket names `Output.next` can create for output tensor `t`: one per start layer
`n ≤ t.modes.length` (for `n ≥ t.modes.length` the layer list is empty) -/
def outBuckets (t : TensorId) : List String :=
  (List.range (t.modes.length + 1)).map fun n => bucketName t (bucketLayers t n)

/-- the value arrays of output tensor `t`: `<t>_vals` and its buckets -/
def outValueArrays (t : TensorId) : List String := valsName t.name :: outBuckets t

/-- the structure arrays of output tensor `t`: `<t>_<l>_pos`, `<t>_<l>_crd` for `l < t.modes.length` -/
def outStructArrays (t : TensorId) : List String :=
  (List.range t.modes.length).flatMap fun l => [posName t.name l, crdName t.name l]

/-- every array variable that belongs to output tensor `t` -/
def outArrays (t : TensorId) : List String := outValueArrays t ++ outStructArrays t

/-- `name` is one of `<t>_vals`, `<t>_<l>_pos`, `<t>_<l>_crd` (`l < t.modes.length`), `bucket_<t.id>…` -/
def okOutArr (t : TensorId) (name : String) : Bool := (outArrays t).contains name

/-- `name` is `<t>_vals` or a `bucket_<t.id>…` -/
def okOutValArr (t : TensorId) (name : String) : Bool := (outValueArrays t).contains name

theorem okOutValArr_le (t : TensorId) (name : String) (h : okOutValArr t name = true) : okOutArr t name = true := by
  simp only [okOutValArr, okOutArr, outArrays, List.contains_eq_mem, List.mem_append, decide_eq_true_eq] at h ⊢
  exact Or.inl h

theorem bucketLayers_ge (t : TensorId) (n : Nat) (h : t.modes.length ≤ n) :
    bucketLayers t n = bucketLayers t t.modes.length := by
  simp [bucketLayers, Nat.sub_eq_zero_of_le h]

theorem bucket_mem_outBuckets (t : TensorId) (n : Nat) : bucketName t (bucketLayers t n) ∈ outBuckets t := by
  simp only [outBuckets, List.mem_map, List.mem_range]
  by_cases h : n ≤ t.modes.length
  · exact ⟨n, by omega, rfl⟩
  · exact ⟨t.modes.length, by omega, by rw [bucketLayers_ge t n (by omega)]⟩

theorem okOutValArr_vals (t : TensorId) : okOutValArr t (valsName t.name) = true := by
  simp [okOutValArr, outValueArrays]

theorem okOutValArr_bucket (t : TensorId) (n : Nat) :
    okOutValArr t (bucketName t (bucketLayers t n)) = true := by
  simp only [okOutValArr, outValueArrays, List.contains_eq_mem, List.mem_cons, decide_eq_true_eq]
  exact Or.inr (bucket_mem_outBuckets t n)

theorem okOutArr_pos (t : TensorId) (l : Nat) (h : l < t.modes.length) : okOutArr t (posName t.name l) = true := by
  simp only [okOutArr, outArrays, outStructArrays, List.contains_eq_mem, List.mem_append, List.mem_flatMap,
    List.mem_range, decide_eq_true_eq]
  exact Or.inr ⟨l, h, by simp⟩

theorem okOutArr_crd (t : TensorId) (l : Nat) (h : l < t.modes.length) : okOutArr t (crdName t.name l) = true := by
  simp only [okOutArr, outArrays, outStructArrays, List.contains_eq_mem, List.mem_append, List.mem_flatMap,
    List.mem_range, decide_eq_true_eq]
  exact Or.inr ⟨l, h, by simp⟩

/-- a compressed layer lies inside the mode list (`getD` defaults to `dense`) -/
theorem lt_of_compressed (modes : List Mode) (l : Nat) (h : modes.getD l .dense = .compressed) :
    l < modes.length := by
  by_cases hl : l < modes.length
  · exact hl
  · rw [List.getD_eq_getElem?_getD, List.getElem?_eq_none (by omega)] at h
    cases h

/-- the output leaves of `g` all belong to tensor `T` -/
def outLeavesOf (T : TensorId) (g : IGraph) : Bool := g.outAll fun l => decide (l.tensor = T)

end TV.Gen
