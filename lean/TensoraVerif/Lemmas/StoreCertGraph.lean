import TensoraVerif.Lemmas.StoreCertParts

/-!
A predicate on the OUTPUT LEAVES of an iteration graph (`IGraph.outAll p`: every `.iter _ (some l) _`
node has `p l`), and its preservation by everything the lowering does to graphs before recursing:
`IGraph.exhaust`, `generateSubgraphs` (iterated `exhaust`, re-keyed and sorted), and stepping below
an iteration node.
-/
namespace TV.Gen
open TV.IR TV.Graph

mutual
def _root_.TV.Graph.IGraph.outAll (p : Leaf → Bool) : IGraph → Bool
  | .terminal _ => true
  | .iter _ o n => (match o with | some l => p l | none => true) && n.outAll p
  | .sum ts => outAllL p ts
def outAllL (p : Leaf → Bool) : List IGraph → Bool
  | [] => true
  | t :: ts => t.outAll p && outAllL p ts
end

theorem outAllL_iff (p : Leaf → Bool) (ts : List IGraph) :
    outAllL p ts = true ↔ ∀ t ∈ ts, t.outAll p = true := by
  induction ts with
  | nil => simp [outAllL]
  | cons t ts ih => simp [outAllL, ih]

mutual
theorem outAll_exhaust (p : Leaf → Bool) (ref : String) (g : IGraph) (h : g.outAll p = true) :
    (g.exhaust ref).outAll p = true := by
  cases g with
  | terminal e => simp [IGraph.exhaust, IGraph.outAll]
  | iter i o n =>
    simp only [IGraph.outAll, Bool.and_eq_true] at h
    simp only [IGraph.exhaust, IGraph.outAll, Bool.and_eq_true]
    exact ⟨h.1, outAll_exhaust p ref n h.2⟩
  | sum ts =>
    simp only [IGraph.outAll] at h
    have hl := outAllL_exhaustL p ref ts h
    simp only [IGraph.exhaust]
    split
    · simp [IGraph.outAll]
    · rename_i single heq
      rw [heq] at hl
      simpa [outAllL] using hl
    · simpa [IGraph.outAll] using hl
theorem outAllL_exhaustL (p : Leaf → Bool) (ref : String) (ts : List IGraph) (h : outAllL p ts = true) :
    outAllL p (exhaustL ref ts) = true := by
  cases ts with
  | nil => simp [exhaustL, outAllL]
  | cons t ts =>
    simp only [outAllL, Bool.and_eq_true] at h
    simp only [exhaustL, outAllL, Bool.and_eq_true]
    exact ⟨outAll_exhaust p ref t h.1, outAllL_exhaustL p ref ts h.2⟩
end

/-- all graphs stored in a `dict` of sub-graphs satisfy `outAll p` -/
def dictAll (p : Leaf → Bool) (d : List (List String × IGraph)) : Prop := ∀ e ∈ d, e.2.outAll p = true

theorem dictAll_dictSet (p : Leaf → Bool) (d : List (List String × IGraph)) (k : List String) (g : IGraph)
    (hd : dictAll p d) (hg : g.outAll p = true) : dictAll p (dictSet d k g) := by
  unfold dictSet
  split
  · intro e he
    obtain ⟨e0, he0, rfl⟩ := List.mem_map.1 he
    split
    · exact hg
    · exact hd e0 he0
  · intro e he
    rcases List.mem_append.1 he with he | he
    · exact hd e he
    · rw [List.mem_singleton] at he
      subst he
      exact hg

theorem dictAll_go (p : Leaf → Bool) :
    ∀ (fuel : Nat) (all old : List (List String × IGraph)), dictAll p all → dictAll p old →
      dictAll p (generateSubgraphs.go fuel all old) := by
  intro fuel
  induction fuel with
  | zero => intro all old ha _; simpa [generateSubgraphs.go] using ha
  | succ n ih =>
    intro all old ha ho
    unfold generateSubgraphs.go
    simp only []
    have hnew : dictAll p (old.foldl (fun acc kg =>
        kg.1.reverse.foldl (fun acc2 layer =>
          let ng := kg.2.exhaust layer
          dictSet acc2 (compressedDims ng) ng) acc) []) := by
      refine foldl_inv (dictAll p) _ old [] (by intro e he; cases he) ?_
      intro acc kg hkg hacc
      refine foldl_inv (dictAll p) _ _ acc hacc ?_
      intro acc2 layer _ hacc2
      exact dictAll_dictSet p _ _ _ hacc2 (outAll_exhaust p layer _ (ho kg hkg))
    split
    · exact ha
    · refine ih _ _ ?_ hnew
      refine foldl_inv (dictAll p) _ _ all ha ?_
      intro a kg hkg hacc
      exact dictAll_dictSet p _ _ _ hacc (hnew kg hkg)

theorem mem_of_mem_sortByLenDesc (gs : List IGraph) (g : IGraph) (h : g ∈ sortByLenDesc gs) : g ∈ gs := by
  unfold sortByLenDesc at h
  simp only [List.mem_flatMap, List.mem_filter] at h
  obtain ⟨_, _, hg, _⟩ := h
  exact hg

/-- every sub-graph enumerated by `generateSubgraphs` inherits `outAll p` -/
theorem outAll_generateSubgraphs (p : Leaf → Bool) (g : IGraph) (h : g.outAll p = true) :
    ∀ s ∈ generateSubgraphs g, s.outAll p = true := by
  intro s hs
  unfold generateSubgraphs at hs
  have hs := mem_of_mem_sortByLenDesc _ _ hs
  obtain ⟨e, he, rfl⟩ := List.mem_map.1 hs
  have h0 : dictAll p [(compressedDims g, g)] := by
    intro e he
    rw [List.mem_singleton] at he
    subst he
    exact h
  exact dictAll_go p _ _ _ h0 h0 e he

/-- the graph `lower` recurses on: below the head iteration node -/
theorem outAll_below (p : Leaf → Bool) (ss : IGraph) (h : ss.outAll p = true) :
    (match ss with | .iter _ _ n => n | g => g).outAll p = true := by
  cases ss with
  | iter i o n => simp only [IGraph.outAll, Bool.and_eq_true] at h; exact h.2
  | terminal e => exact h
  | sum ts => exact h

end TV.Gen
