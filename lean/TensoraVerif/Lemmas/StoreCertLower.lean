import TensoraVerif.Lemmas.StoreCertGraph

/-!
The store certificate on the recursive lowering `lower` / `lowerTerms`. For an output tensor `T`,
an array predicate `oa` accepting `<T>_vals` and the bucket names of `T`, and — in assembling
kernels — the `crd`/`pos` arrays of every compressed output leaf of the graph (`p` holds of the
output leaves, `oa` accepts the arrays of compressed leaves satisfying `p`), the emitted code stores
only into local variables and arrays accepted by `oa` (no attribute store at all: `ot` is arbitrary).
Induction on the fuel, following `lower_cert`.
-/
namespace TV.Gen
open TV.IR TV.Graph
variable {F : Type}

section
variable (oa : String → Bool) (ot : Bool) (o : String) (T : TensorId) (p : Leaf → Bool)
  (ofRat : Rat → F) (k : Kind)

theorem lowerTerms_sc_of (fuel : Nat)
    (hA : ∀ g out b, out.okFor T → g.outAll p = true → lower ofRat fuel g out k = .ok b →
      b.sc anyVar oa ot o = true) :
    ∀ ts out b0 b, out.okFor T → outAllL p ts = true → b0.sc anyVar oa ot o = true →
      lowerTerms ofRat fuel ts out k b0 = .ok b → b.sc anyVar oa ot o = true := by
  intro ts
  induction ts with
  | nil =>
    intro out b0 b _ _ h0 h
    rw [lowerTerms.eq_1] at h
    exact pure_ok h ▸ h0
  | cons t ts ih =>
    intro out b0 b hT hg h0 h
    simp only [outAllL, Bool.and_eq_true] at hg
    rw [lowerTerms.eq_2] at h
    obtain ⟨x, hx, h⟩ := bind_ok h
    exact ih out _ b hT hg.2 (by simp [h0, hA _ _ _ hT hg.1 hx]) h

theorem lower_sc_succ
    (hv : oa (valsName T.name) = true)
    (hb : ∀ n, oa (bucketName T (bucketLayers T n)) = true)
    (hl : k.isAssemble = true → ∀ l : Leaf, p l = true → l.mode = .compressed →
      oa (crdName l.tensor.name l.layer) = true ∧ oa (posName l.tensor.name l.layer) = true)
    (n : Nat)
    (ihA : ∀ g out b, out.okFor T → g.outAll p = true → lower ofRat n g out k = .ok b →
      b.sc anyVar oa ot o = true)
    (ihB : ∀ ts out b0 b, out.okFor T → outAllL p ts = true → b0.sc anyVar oa ot o = true →
      lowerTerms ofRat n ts out k b0 = .ok b → b.sc anyVar oa ot o = true) :
    ∀ g out b, out.okFor T → g.outAll p = true → lower ofRat (n + 1) g out k = .ok b →
      b.sc anyVar oa ot o = true := by
  intro g out b hT hg h
  cases g with
  | terminal e =>
    unfold lower at h
    simp only [] at h
    have hb0 : (if (e != IdExpr.int 0) = true then
        List.foldl (fun (b : SB F) f => b.add (Stmt.assign (Expr.var f) (Expr.boolLit true)))
          (SB.mk' (some "*** Computation of expression ***")) out.writtenFlags
        else SB.mk' (some "*** Computation of expression ***")).sc anyVar oa ot o = true := by
      split
      · apply SB.sc_foldl
        · simp
        · intro b a _ hb; simp [hb, Stmt.storeCert]
      · simp
    split at h
    · obtain ⟨w, hw, h⟩ := bind_ok h
      cases pure_ok h
      rw [SB.sc_append, hb0, writeAssignment_sc oa ot o T _ _ _ hT hv hb hw]; rfl
    · cases pure_ok h; exact hb0
  | sum ts =>
    unfold lower at h
    simp only [] at h
    simp only [IGraph.outAll] at hg
    split at h
    · obtain ⟨⟨nx, decls⟩, hnext, h⟩ := bind_ok h
      obtain ⟨hnx, hdecls⟩ := next_sc oa ot o T _ _ _ _ hT hb hnext
      exact ihB _ _ _ _ hnx hg (by simp [hdecls]) h
    · cases pure_ok h; simp
  | iter index output next =>
    unfold lower at h
    simp only [] at h
    split at h
    · cases pure_ok h; simp
    obtain ⟨⟨nextOut, decls⟩, hnext, h⟩ := bind_ok h
    obtain ⟨hnx, hdecls⟩ := next_sc oa ot o T _ _ _ _ hT hb hnext
    simp only [] at hnx hdecls
    obtain ⟨b2, hfold, h⟩ := bind_ok h
    cases pure_ok h
    -- the output leaf of this node, if any, satisfies `p`
    have hout : ∀ l, output = some l → p l = true := by
      intro l hl'
      subst hl'
      simp only [IGraph.outAll, Bool.and_eq_true] at hg
      exact hg.1
    have hb2 : b2.sc anyVar oa ot o = true := by
      refine foldlM_inv (fun b => b.sc anyVar oa ot o = true) _ _ _ _ ?_ ?_ hfold
      · apply SB.sc_foldl
        · split <;> simp [hdecls]
        · intro b a _ hb; simp [hb]
      · intro b sub b' hsub hb' hstep
        have hsubg := outAll_generateSubgraphs p _ hg sub hsub
        split at hstep
        · cases pure_ok hstep; exact hb'
        obtain ⟨leaves, hleaves, hstep⟩ := bind_ok hstep
        cases pure_ok hstep
        have hlv : ∀ q ∈ leaves, q.2.storeCert anyVar oa ot o = true := by
          refine foldlM_inv (fun (acc : List (Expr F × Stmt F)) =>
            ∀ q ∈ acc, q.2.storeCert anyVar oa ot o = true) _ _ _ _ (by simp) ?_ hleaves
          intro acc ss acc' hssm hacc hss
          have hssg := outAll_below p ss (outAll_generateSubgraphs p _ hsubg ss hssm)
          split at hss
          · cases pure_ok hss; exact hacc
          obtain ⟨inner, hinner, hss⟩ := bind_ok hss
          cases pure_ok hss
          have hi := ihA _ _ _ hnx hssg hinner
          intro q hq
          rcases List.mem_append.1 hq with hq | hq
          · exact hacc q hq
          · rw [List.mem_singleton] at hq
            subst hq
            clear hfold hleaves hacc
            simp only [SB.sc_finalize]
            cases output with
            | none => simp [hi, apply_ite (SB.sc anyVar oa ot o)]
            | some l =>
              have hpl := hout l rfl
              cases hk : k.isAssemble <;> cases hs : (l.mode == Mode.compressed)
              · simp [hi, hs, isSparseOutput]
              · simp [hi, hs, isSparseOutput, SB.sc_lines]
              · simp [hi, hs, isSparseOutput]
              · have hcrd := (hl hk l hpl (by simpa using hs)).1
                simp [hi, hs, isSparseOutput, SB.sc_lines, writeCrdAssembly_sc oa ot o l hcrd]
        clear hfold hleaves
        simp only [SB.sc_loop, hb', Bool.true_and]
        rw [SB.sc_lines]
        have hbj := sc_branchJoin anyVar oa ot o leaves hlv
        simp [apply_ite (SB.sc anyVar oa ot o), SB.sc_foldl_add, SB.sc_foldl_foldl_add, hbj]
    clear hfold
    cases output with
    | none => simp [hb2]
    | some l =>
      have hpl := hout l rfl
      cases hk : k.isAssemble <;> cases hs : (l.mode == Mode.compressed)
      · simp [hb2, hs, isSparseOutput]
      · simp [hb2, hs, isSparseOutput]
      · simp [hb2, hs, isSparseOutput]
      · have hpos := (hl hk l hpl (by simpa using hs)).2
        simp [hb2, hs, isSparseOutput, writePosAssembly_sc oa ot o l hpos]

theorem lower_sc
    (hv : oa (valsName T.name) = true)
    (hb : ∀ n, oa (bucketName T (bucketLayers T n)) = true)
    (hl : k.isAssemble = true → ∀ l : Leaf, p l = true → l.mode = .compressed →
      oa (crdName l.tensor.name l.layer) = true ∧ oa (posName l.tensor.name l.layer) = true) :
    ∀ fuel g out b, out.okFor T → g.outAll p = true → lower ofRat fuel g out k = .ok b →
      b.sc anyVar oa ot o = true := by
  intro fuel
  induction fuel with
  | zero =>
    intro g out b _ _ h
    unfold lower at h
    cases h
  | succ n ih =>
    exact lower_sc_succ oa ot o T p ofRat k hv hb hl n ih (lowerTerms_sc_of oa ot o T p ofRat k n ih)

end
end TV.Gen
