import TensoraVerif.Lemmas.StoreCertGenerate

/-!
Name disjointness: the array variables of a tensor called `n` all read `n ++ "_" ++ …`; the arrays of
the output tensor `T` read `T.name ++ "_" ++ …` or `"bucket" ++ "_" ++ …`. For names without the
character `'_'` the part before the first `'_'` determines the tensor, so the arrays unpacked from
an input tensor `n ≠ T.name`, `n ≠ "bucket"`, are not among the arrays of the output.
-/
namespace TV.Gen
open TV.IR TV.Graph

/-- the text of `s` is `h`, then `'_'`, then anything -/
def HasHead (h : List Char) (s : String) : Prop := ∃ r, s.toList = h ++ '_' :: r

theorem head_unique {a b r s : List Char} (ha : '_' ∉ a) (hb : '_' ∉ b)
    (h : a ++ '_' :: r = b ++ '_' :: s) : a = b := by
  induction a generalizing b with
  | nil =>
    cases b with
    | nil => rfl
    | cons c b =>
      simp only [List.nil_append, List.cons_append, List.cons.injEq] at h
      exact absurd (h.1 ▸ List.mem_cons_self) hb
  | cons c a ih =>
    cases b with
    | nil =>
      simp only [List.nil_append, List.cons_append, List.cons.injEq] at h
      exact absurd (h.1 ▸ List.mem_cons_self) ha
    | cons d b =>
      simp only [List.cons_append, List.cons.injEq] at h
      rw [h.1, ih (fun hm => ha (List.mem_cons_of_mem _ hm)) (fun hm => hb (List.mem_cons_of_mem _ hm)) h.2]

theorem HasHead.unique {a b : List Char} {s : String} (ha : '_' ∉ a) (hb : '_' ∉ b)
    (h1 : HasHead a s) (h2 : HasHead b s) : a = b := by
  obtain ⟨r, hr⟩ := h1
  obtain ⟨r', hr'⟩ := h2
  exact head_unique ha hb (hr.symm.trans hr')

theorem lit_underscore : "_".toList = ['_'] := by decide
theorem lit_vals : "_vals".toList = '_' :: "vals".toList := by decide
theorem lit_bucket : "bucket_".toList = "bucket".toList ++ ['_'] := by decide

theorem hasHead_valsName (n : String) : HasHead n.toList (valsName n) :=
  ⟨"vals".toList, by simp [valsName, String.toList_append, lit_vals]⟩

theorem hasHead_posName (n : String) (l : Nat) : HasHead n.toList (posName n l) :=
  ⟨(toString l).toList ++ "_pos".toList, by simp [posName, String.toList_append, lit_underscore]⟩

theorem hasHead_crdName (n : String) (l : Nat) : HasHead n.toList (crdName n l) :=
  ⟨(toString l).toList ++ "_crd".toList, by simp [crdName, String.toList_append, lit_underscore]⟩

theorem hasHead_bucketName (t : TensorId) (layers : List Nat) : HasHead "bucket".toList (bucketName t layers) :=
  ⟨t.id.toList ++ (bucketSuffix layers).toList, by simp [bucketName, String.toList_append, lit_bucket]⟩

/-- every array of the output tensor starts with the output's name or with `bucket`, then `'_'` -/
theorem okOutArr_head (T : TensorId) (x : String) (h : okOutArr T x = true) :
    HasHead T.name.toList x ∨ HasHead "bucket".toList x := by
  simp only [okOutArr, outArrays, outValueArrays, outBuckets, outStructArrays, List.contains_eq_mem,
    List.mem_append, List.mem_cons, List.mem_map, List.mem_flatMap, List.mem_range, decide_eq_true_eq,
    List.not_mem_nil, or_false] at h
  rcases h with (rfl | ⟨n, _, rfl⟩) | ⟨l, _, rfl | rfl⟩
  · exact Or.inl (hasHead_valsName _)
  · exact Or.inr (hasHead_bucketName _ _)
  · exact Or.inl (hasHead_posName _ _)
  · exact Or.inl (hasHead_crdName _ _)

theorem bucket_no_underscore : '_' ∉ "bucket".toList := by decide

/-- an array name whose head is `n` is not an array of the output `T` -/
theorem not_okOutArr_of_head (T : TensorId) (n x : String)
    (hn : '_' ∉ n.toList) (hT : '_' ∉ T.name.toList) (hne : n ≠ T.name) (hnb : n ≠ "bucket")
    (hx : HasHead n.toList x) : okOutArr T x = false := by
  cases h : okOutArr T x with
  | false => rfl
  | true =>
    rcases okOutArr_head T x h with h' | h'
    · exact absurd (String.toList_inj.1 (HasHead.unique hn hT hx h')) hne
    · exact absurd (String.toList_inj.1 (HasHead.unique hn bucket_no_underscore hx h')) hnb

end TV.Gen
