import TensoraVerif.Lemmas.StoreCert

/-!
The store certificate on the non-recursive pieces of the lowering pass. Local variables are
unconstrained (`okVar = fun _ => true`); the array predicate `oa`, the attribute flag `ot` and the
output name `o` are arbitrary, each lemma states exactly which array names it needs `oa` to accept.
-/
namespace TV.Gen
open TV.IR TV.Graph
variable {F : Type}

/-- every local variable may be assigned -/
def anyVar : String → Bool := fun _ => true

@[simp] theorem anyVar_eq (x : String) : anyVar x = true := rfl

/-- the layers of the dense bucket opened by `Output.next` on `.append t n` -/
def bucketLayers (t : TensorId) (n : Nat) : List Nat := (List.range (t.modes.length - n)).map (· + n)

/-- the output object writes into tensor `T`, and a bucket is one that `Output.next` can open -/
def Output.okFor (T : TensorId) : Output → Prop
  | .append t _ => t = T
  | .bucket t layers => t = T ∧ ∃ n, layers = bucketLayers T n

section
variable (oa : String → Bool) (ot : Bool) (o : String)

@[simp] theorem writeSparseInit_sc (leaf : Leaf) : (writeSparseInit leaf : SB F).sc anyVar oa ot o = true := by
  simp [writeSparseInit]

theorem writePosAssembly_sc (out : Leaf) (h : oa (posName out.tensor.name out.layer) = true) :
    (writePosAssembly out : SB F).sc anyVar oa ot o = true := by
  simp [writePosAssembly, Stmt.storeCert, h]

theorem writeCrdAssembly_sc (out : Leaf) (h : oa (crdName out.tensor.name out.layer) = true) :
    (writeCrdAssembly out : SB F).sc anyVar oa ot o = true := by
  simp [writeCrdAssembly, Stmt.storeCert, storeCertL, h]

@[simp] theorem writePosAllocation_sc (out : Leaf) :
    (writePosAllocation out : SB F).sc anyVar oa ot o = true := by
  unfold writePosAllocation
  simp only []
  split <;> (simp only [SB.sc_branch, SB.sc_mk', storeCertL, Stmt.storeCert, Bool.true_and, Bool.and_true]
             <;> split <;> simp)

theorem bucketDeclarations_sc (t : TensorId) (layers : List Nat) (rhs : Expr F)
    (h : oa (bucketName t layers) = true) : (bucketDeclarations t layers rhs).sc anyVar oa ot o = true := by
  simp [bucketDeclarations, Stmt.storeCert, storeCertL, h]

theorem writeAssignment_sc (T : TensorId) (out : Output) (rhs : Expr F) (b : SB F)
    (hT : out.okFor T) (hv : oa (valsName T.name) = true)
    (hb : ∀ n, oa (bucketName T (bucketLayers T n)) = true)
    (h : out.writeAssignment rhs = .ok b) : b.sc anyVar oa ot o = true := by
  unfold Output.writeAssignment at h
  split at h
  · split at h
    · cases h
    · cases h
      cases hT
      simp [Stmt.storeCert, hv]
  · cases h
    obtain ⟨rfl, n, rfl⟩ := hT
    simp [hb]

theorem next_sc (T : TensorId) (out : Output) (layer : Option Nat) (k : Kind) (r : Output × SB F)
    (hT : out.okFor T) (hb : ∀ n, oa (bucketName T (bucketLayers T n)) = true)
    (h : out.next layer k = .ok r) : r.1.okFor T ∧ r.2.sc anyVar oa ot o = true := by
  unfold Output.next at h
  split at h
  · cases h; exact ⟨hT, by simp⟩
  · cases hT
    split at h
    · cases h; exact ⟨rfl, by simp⟩
    · split at h
      · cases h
        rename_i t n _ _
        refine ⟨⟨rfl, n, rfl⟩, ?_⟩
        simp only []
        split
        · exact bucketDeclarations_sc oa ot o _ _ _ (hb n)
        · simp
      · cases h

/-! ### `appendDeclarations` -/

theorem declStep_sc (cap : Option Int) (t : TensorId) (k : Kind)
    (hpos : k.isAssemble = true → ∀ i, i < t.modes.length → t.modes.getD i .dense = .compressed →
      oa (posName t.name i) = true)
    (xs : List Nat) (hxs : ∀ i ∈ xs, i < t.modes.length) (acc : SB F × Bool)
    (hacc : acc.1.sc anyVar oa ot o = true) :
    (xs.foldl (declStep cap t k) acc).1.sc anyVar oa ot o = true := by
  refine foldl_inv (fun (acc : SB F × Bool) => acc.1.sc anyVar oa ot o = true) _ xs acc hacc ?_
  intro acc i hi hacc
  unfold declStep
  split
  · exact hacc
  · rename_i hm
    simp only []
    split
    · rename_i hk
      simp [Stmt.storeCert, hacc, hpos hk i (hxs i hi) hm]
    · simp [hacc]

/-- `appendDeclarations` stores into `<out>_<i>_pos[0]` for the compressed layers `i` of the output
(assembling kernels only) and otherwise only assigns local variables -/
theorem appendDeclarations_sc (cap : Option Int) (t : TensorId) (k : Kind)
    (hpos : k.isAssemble = true → ∀ i, i < t.modes.length → t.modes.getD i .dense = .compressed →
      oa (posName t.name i) = true) :
    (appendDeclarations cap t k : SB F).sc anyVar oa ot o = true := by
  rw [appendDeclarations_eq]
  have hstep := declStep_sc (F := F) oa ot o cap t k hpos (List.range t.modes.length)
    (fun i hi => List.mem_range.1 hi) (SB.mk' (some "Output initialization"), true) (by simp)
  split
  · simp [Stmt.storeCert, hstep]
  · exact hstep

/-! ### `appendCleanup` -/

/-- `appendCleanup` assigns local variables and, in an assembling kernel, hands the arrays over to
the struct of tensor `t.name` -/
theorem appendCleanup_sc (t : TensorId) (k : Kind) (hot : k.isAssemble = true → ot = true) :
    (appendCleanup t k : SB F).sc anyVar oa ot t.name = true := by
  unfold appendCleanup
  simp only []
  split
  · simp
  · rename_i hk
    have hk : k.isAssemble = true := by simpa using hk
    obtain rfl := hot hk
    have hstep := foldl_inv
      (fun (acc : SB F × Bool × Expr F × Expr F) => acc.1.sc anyVar oa true t.name = true)
      (fun (acc : SB F × Bool × Expr F × Expr F) i =>
        let (b, allDense, prevSize, padded) := acc
        match t.modes.getD i .dense with
        | .dense =>
          let d : Expr F := .var (dimName (t.indexes.getD i ""))
          (b, allDense, times prevSize d, times padded d)
        | .compressed =>
          let posArr : Expr F := .var (posName t.name i)
          let b := if !allDense then b.add (.assign posArr (.realloc posArr .int (plus prevSize (.intLit 1)))) else b
          let crdArr : Expr F := .var (crdName t.name i)
          let final : Expr F := .var (layerPointer t.id i)
          let b := b.add (.assign crdArr (.realloc crdArr .int final))
          let b := b.add (.assign (.idx (.idx (.attr (.var t.name) "indices") (.intLit i)) (.intLit 0)) posArr)
          let b := b.add (.assign (.idx (.idx (.attr (.var t.name) "indices") (.intLit i)) (.intLit 1)) crdArr)
          (b, false, final, plus final (.intLit 1)))
      (List.range t.modes.length)
      (SB.mk' (some ("Assembling output tensor " ++ t.name)), true, (.intLit 1 : Expr F), (.intLit 1 : Expr F))
      (by simp)
      (by
        intro acc i _ hacc
        obtain ⟨b, allDense, prevSize, padded⟩ := acc
        simp only [] at hacc
        simp only []
        split
        · simp [hacc]
        · split <;> simp [Stmt.storeCert, hacc])
    revert hstep
    generalize List.foldl _ _ _ = step
    obtain ⟨b, allDense, prevSize, padded⟩ := step
    intro h1
    simp only [] at h1
    simp only []
    split <;> simp [Stmt.storeCert, h1]

/-- a non-assembling kernel has an empty clean-up -/
theorem appendCleanup_sc_compute (t : TensorId) (k : Kind) (hk : k.isAssemble = false) :
    (appendCleanup t k : SB F).sc anyVar oa ot o = true := by
  unfold appendCleanup
  simp [hk]

end
end TV.Gen
