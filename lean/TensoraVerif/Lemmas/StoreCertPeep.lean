import TensoraVerif.Lemmas.StoreCert

/-!
The peephole optimiser preserves the store certificate: on an admissible store target `peepE` only
rewrites the index expressions (the variable / attribute skeleton is untouched), and on statements it
only deletes statements or keeps one arm of a branch.
-/
namespace TV.IR
variable {F : Type} [FloatOps F]

section
variable (ov oa : String → Bool) (ot : Bool) (o : String)

theorem storeTarget_peepE (e : Expr F) (h : e.storeTarget ov oa ot o = true) :
    (peepE e).storeTarget ov oa ot o = true := by
  unfold Expr.storeTarget at h
  split at h
  · simpa [peepE] using h
  · simpa [peepE] using h
  · simpa [peepE] using h
  · simpa [peepE] using h
  · cases h

mutual
theorem storeCert_peepS (s : Stmt F) (h : s.storeCert ov oa ot o = true) :
    (peepS s).storeCert ov oa ot o = true := by
  cases s with
  | expr e => simp [peepS, Stmt.storeCert]
  | decl n t => simp [peepS, Stmt.storeCert]
  | assign t v =>
    simp only [Stmt.storeCert] at h
    simp only [peepS]
    split
    · simp [Stmt.storeCert, storeCertL]
    · simp [Stmt.storeCert, storeTarget_peepE ov oa ot o t h]
  | declAssign n t v => simp [peepS, Stmt.storeCert]
  | block ss c =>
    simp only [Stmt.storeCert] at h
    simp [peepS, Stmt.storeCert, storeCertL_peepL ss h]
  | branch c t f =>
    simp only [Stmt.storeCert, Bool.and_eq_true] at h
    have ht := storeCert_peepS t h.1
    have hf := storeCert_peepS f h.2
    simp only [peepS]
    split
    · exact ht
    · split
      · exact hf
      · split
        · simp [Stmt.storeCert, storeCertL]
        · simp [Stmt.storeCert, ht, hf]
  | loop c b =>
    simp only [Stmt.storeCert] at h
    have hb := storeCert_peepS b h
    simp only [peepS]
    split
    · simp [Stmt.storeCert, storeCertL]
    · split
      · simp [Stmt.storeCert, storeCertL]
      · simp [Stmt.storeCert, hb]
  | ret e => simp [peepS, Stmt.storeCert]
theorem storeCertL_peepL (ss : List (Stmt F)) (h : storeCertL ov oa ot o ss = true) :
    storeCertL ov oa ot o (peepL ss) = true := by
  cases ss with
  | nil => simp [peepL, storeCertL]
  | cons s ss =>
    simp only [storeCertL, Bool.and_eq_true] at h
    have hs := storeCert_peepS s h.1
    have hss := storeCertL_peepL ss h.2
    simp only [peepL]
    split
    · exact hss
    · simp [storeCertL, hs, hss]
end

end
end TV.IR
