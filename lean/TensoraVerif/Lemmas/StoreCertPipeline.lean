import TensoraVerif.Lemmas.StoreCertGenerate

/-!
The hypothesis of T1 holds for every graph the compiler itself builds: all output leaves of the
candidates enumerated by `toIterationGraphs a formats` (hence of `bestAlgorithm`) are layers of the
output tensor `outTensor a formats`. Expression graphs (`graphsOf`) carry no output leaf at all;
`mergeAssignment` only inserts leaves looked up in the layer table of the output tensor; the merges
(`mergeWith`, `simplifyAdd`, `cartesian`) only rearrange existing nodes.
-/
namespace TV.Gen
open TV.IR TV.Graph

/-- the output leaf of a node, if any, satisfies `q` -/
def optOk (q : Leaf → Bool) : Option Leaf → Bool
  | some l => q l
  | none => true

theorem outAll_iter (q : Leaf → Bool) (i : String) (o : Option Leaf) (n : IGraph) :
    (IGraph.iter i o n).outAll q = (optOk q o && n.outAll q) := by
  cases o <;> simp [IGraph.outAll, optOk]

theorem outAll_iter_none (q : Leaf → Bool) (i : String) (n : IGraph) :
    (IGraph.iter i none n).outAll q = n.outAll q := by
  simp [IGraph.outAll]

theorem outAll_sum (q : Leaf → Bool) (ts : List IGraph) :
    (IGraph.sum ts).outAll q = true ↔ ∀ t ∈ ts, t.outAll q = true := by
  simp [IGraph.outAll, outAllL_iff]

/-- mapping `.iter i o ·` over graphs satisfying `outAll q`, with an admissible `o` -/
theorem outAll_map_iter (q : Leaf → Bool) (i : String) (o : Option Leaf) (gs : List IGraph)
    (ho : optOk q o = true) (hgs : ∀ g ∈ gs, g.outAll q = true) :
    ∀ g ∈ gs.map (IGraph.iter i o ·), g.outAll q = true := by
  intro g hg
  obtain ⟨g', hg', rfl⟩ := List.mem_map.1 hg
  rw [outAll_iter, ho, hgs g' hg']; rfl

theorem outAll_iter_inv (q : Leaf → Bool) (i : String) (o : Option Leaf) (n : IGraph)
    (h : (IGraph.iter i o n).outAll q = true) :
    optOk q o = true ∧ n.outAll q = true := by
  rw [outAll_iter, Bool.and_eq_true] at h; exact h

/-! ### `mergeWith` -/

theorem outAll_mergeWith (q : Leaf → Bool) (op : IdExpr → IdExpr → IdExpr) :
    ∀ (fuel : Nat) (l r : IGraph), l.outAll q = true → r.outAll q = true →
      ∀ g ∈ mergeWith op fuel l r, g.outAll q = true := by
  intro fuel
  induction fuel with
  | zero => intro l r _ _ g hg; simp [mergeWith] at hg
  | succ n ih =>
    intro l r hl hr g hg
    unfold mergeWith at hg
    split at hg
    · simp only [List.mem_singleton] at hg; subst hg; simp [IGraph.outAll]
    · obtain ⟨ho, hn⟩ := outAll_iter_inv q _ _ _ hl
      exact outAll_map_iter q _ _ _ ho (ih _ _ hn hr) g hg
    · obtain ⟨ho, hm⟩ := outAll_iter_inv q _ _ _ hr
      exact outAll_map_iter q _ _ _ ho (ih _ _ hl hm) g hg
    · obtain ⟨ho, hn⟩ := outAll_iter_inv q _ _ _ hl
      obtain ⟨hp, hm⟩ := outAll_iter_inv q _ _ _ hr
      split at hg
      · exact outAll_map_iter q _ _ _ ho (ih _ _ hn hm) g hg
      · rcases List.mem_append.1 hg with hg | hg
        · split at hg
          · exact outAll_map_iter q _ _ _ ho (ih _ _ hn hr) g hg
          · cases hg
        · split at hg
          · exact outAll_map_iter q _ _ _ hp (ih _ _ hl hm) g hg
          · cases hg
    · cases hg

/-! ### `simplifyAdd` -/

theorem outAll_simplifyAdd (q : Leaf → Bool) :
    ∀ (fuel : Nat) (ts : List IGraph), (∀ t ∈ ts, t.outAll q = true) → (simplifyAdd fuel ts).outAll q = true := by
  intro fuel
  induction fuel with
  | zero => intro ts h; simpa [simplifyAdd, outAll_sum] using h
  | succ n ih =>
    intro ts h
    unfold simplifyAdd
    simp only []
    -- every member of `combined` satisfies the predicate
    suffices hc : ∀ (combined : List IGraph), (∀ c ∈ combined, c.outAll q = true) →
        (match combined with | [single] => single | _ => IGraph.sum combined).outAll q = true by
      apply hc
      intro c hc'
      rcases List.mem_append.1 hc' with hc' | hc'
      · split at hc'
        · simp only [List.mem_singleton] at hc'; subst hc'; simp [IGraph.outAll]
        · cases hc'
      · obtain ⟨i, _, hi⟩ := List.mem_filterMap.1 hc'
        split at hi
        · rename_i hi' ho' n0 rest hgroup
          cases hi
          have hhead : IGraph.iter hi' ho' n0 ∈ ts := by
            have hmem : IGraph.iter hi' ho' n0 ∈ IGraph.iter hi' ho' n0 :: rest := List.mem_cons_self
            rw [← hgroup] at hmem
            exact (List.mem_filter.1 hmem).1
          obtain ⟨ho, -⟩ := outAll_iter_inv q _ _ _ (h _ hhead)
          rw [outAll_iter, ho, Bool.true_and]
          apply ih
          intro y hy
          obtain ⟨t, ht, hyt⟩ := List.mem_flatMap.1 hy
          have htq := h t (List.mem_filter.1 ht).1
          split at hyt
          · obtain ⟨-, hs⟩ := outAll_iter_inv q _ _ _ htq
            exact (outAll_sum q _).1 hs y hyt
          · obtain ⟨-, hn⟩ := outAll_iter_inv q _ _ _ htq
            simp only [List.mem_singleton] at hyt
            subst hyt; exact hn
          · cases hyt
        · cases hi
    intro combined hcomb
    split
    · exact hcomb _ (by simp)
    · exact (outAll_sum q _).2 hcomb

/-! ### `cartesian` -/

theorem mem_cartesian {α : Type} : ∀ (xss : List (List α)) (ys : List α), ys ∈ cartesian xss →
    ∀ y ∈ ys, ∃ xs ∈ xss, y ∈ xs := by
  intro xss
  induction xss with
  | nil => intro ys h y hy; simp [cartesian] at h; subst h; cases hy
  | cons xs rest ih =>
    intro ys h y hy
    simp only [cartesian, List.mem_flatMap, List.mem_map] at h
    obtain ⟨x, hx, zs, hzs, rfl⟩ := h
    rcases List.mem_cons.1 hy with rfl | hy
    · exact ⟨xs, by simp, hx⟩
    · obtain ⟨xs', hxs', hy'⟩ := ih zs hzs y hy
      exact ⟨xs', by simp [hxs'], hy'⟩

/-! ### `graphsOf`: expression graphs carry no output leaf -/

theorem outAll_foldr_none (q : Leaf → Bool) (t : TensorId) (order : List Nat) :
    (order.foldr (fun l g => IGraph.iter (t.indexes.getD l "") none g) (.terminal (.tensor t))).outAll q = true := by
  induction order with
  | nil => simp [IGraph.outAll]
  | cons l ls ih => rw [List.foldr_cons, outAll_iter_none]; exact ih

theorem outAll_graphsOf (q : Leaf → Bool) (formats : Formats) :
    ∀ (e : Alg.DExpr) (gs : List IGraph), graphsOf formats e = .ok gs → ∀ g ∈ gs, g.outAll q = true := by
  intro e
  induction e with
  | int v => intro gs h g hg; simp only [graphsOf] at h; cases h; simp at hg; subst hg; simp [IGraph.outAll]
  | flt v => intro gs h g hg; simp only [graphsOf] at h; cases h; simp at hg; subst hg; simp [IGraph.outAll]
  | tensor id name idx =>
    intro gs h g hg
    simp only [graphsOf] at h
    split at h
    · cases h
    · split at h
      · cases h
      · cases h
        obtain ⟨order, _, rfl⟩ := List.mem_map.1 hg
        exact outAll_foldr_none q _ order
  | add l r ihl ihr =>
    intro gs h g hg
    simp only [graphsOf] at h
    obtain ⟨ls, hls, h⟩ := bind_ok h
    split at h
    · cases pure_ok h; cases hg
    · obtain ⟨rs, hrs, h⟩ := bind_ok h
      split at h
      · cases pure_ok h
        simp only [List.mem_flatMap] at hg
        obtain ⟨a, ha, b, hb, hg⟩ := hg
        exact outAll_mergeWith q _ _ _ _ (ihl ls hls a ha) (ihr rs hrs b hb) g hg
      · cases pure_ok h
        simp only [List.mem_flatMap, List.mem_map] at hg
        obtain ⟨a, ha, b, hb, rfl⟩ := hg
        apply outAll_simplifyAdd
        have hterms : ∀ (x : IGraph), x.outAll q = true → ∀ (ys : List IGraph) (t : IGraph),
            ys = (match x with | IGraph.sum ts => ts | g => [g]) → t ∈ ys → t.outAll q = true := by
          intro x hx ys t hys ht
          cases x with
          | sum ts =>
            have hys : ys = ts := hys
            subst hys
            exact (outAll_sum q _).1 hx t ht
          | terminal e =>
            have hys : ys = [IGraph.terminal e] := hys
            subst hys
            rw [List.mem_singleton] at ht; subst ht; exact hx
          | iter i o n =>
            have hys : ys = [IGraph.iter i o n] := hys
            subst hys
            rw [List.mem_singleton] at ht; subst ht; exact hx
        intro t ht
        rcases List.mem_append.1 ht with ht | ht
        · exact hterms a (ihl ls hls a ha) _ t rfl ht
        · exact hterms b (ihr rs hrs b hb) _ t rfl ht
  | mul l r ihl ihr =>
    intro gs h g hg
    simp only [graphsOf] at h
    obtain ⟨ls, hls, h⟩ := bind_ok h
    split at h
    · cases pure_ok h; cases hg
    · obtain ⟨rs, hrs, h⟩ := bind_ok h
      cases pure_ok h
      simp only [List.mem_flatMap] at hg
      obtain ⟨a, ha, b, hb, hg⟩ := hg
      exact outAll_mergeWith q _ _ _ _ (ihl ls hls a ha) (ihr rs hrs b hb) g hg
  | contract i e ih =>
    intro gs h g hg
    simp only [graphsOf] at h
    exact ih gs h g hg

/-! ### `mergeAssignment` -/

theorem outAll_mergeAssignment (q : Leaf → Bool) (layers : List (String × Leaf))
    (hlay : ∀ i, optOk q (layerOf layers i) = true) :
    ∀ (fuel : Nat) (target expr : IGraph), expr.outAll q = true →
      ∀ g ∈ mergeAssignment layers fuel target expr, g.outAll q = true := by
  intro fuel
  induction fuel with
  | zero => intro t e _ g hg; simp [mergeAssignment] at hg
  | succ n ih =>
    intro target expr he g hg
    unfold mergeAssignment at hg
    split at hg
    · simp only [List.mem_singleton] at hg; subst hg; exact he
    · exact outAll_map_iter q _ _ _ (hlay _) (ih _ _ he) g hg
    · obtain ⟨hp, hm⟩ := outAll_iter_inv q _ _ _ he
      split at hg
      · exact outAll_map_iter q _ _ _ (hlay _) (ih _ _ hm) g hg
      · rcases List.mem_append.1 hg with hg | hg
        · split at hg
          · exact outAll_map_iter q _ _ _ (hlay _) (ih _ _ he) g hg
          · cases hg
        · split at hg
          · exact outAll_map_iter q _ _ _ hp (ih _ _ hm) g hg
          · cases hg
    · obtain ⟨merged, hmerged, rfl⟩ := List.mem_map.1 hg
      apply outAll_simplifyAdd
      intro y hy
      obtain ⟨xs, hxs, hyx⟩ := mem_cartesian _ _ hmerged y hy
      obtain ⟨t, ht, rfl⟩ := List.mem_map.1 hxs
      exact ih _ _ ((outAll_sum q _).1 he t ht) y hyx
    · cases hg

/-! ### `toIterationGraphs` -/

/-- every candidate graph of the compiler has its output leaves in the output tensor -/
theorem outLeavesOf_toIterationGraphs (a : Alg.DAssign) (formats : Formats) (gs : List IGraph)
    (h : toIterationGraphs a formats = .ok gs) : ∀ g ∈ gs, outLeavesOf (outTensor a formats) g = true := by
  unfold toIterationGraphs at h
  split at h
  · cases h
  · rename_i out hout
    have hT : outTensor a formats = out := by simp [outTensor, hout]
    rw [hT]
    simp only [] at h
    obtain ⟨targets, _, h⟩ := bind_ok h
    split at h
    · cases pure_ok h; intro g hg; cases hg
    · obtain ⟨exprs, hexprs, h⟩ := bind_ok h
      cases pure_ok h
      intro g hg
      simp only [List.mem_flatMap] at hg
      obtain ⟨t, _, e, he, hg⟩ := hg
      refine outAll_mergeAssignment _ _ ?_ _ _ _ (outAll_graphsOf _ formats a.rhs exprs hexprs e he) g hg
      intro i
      cases hl : layerOf ((List.range out.indexes.length).map fun l => (out.indexes.getD l "", (⟨out, l⟩ : Leaf))) i with
      | none => rfl
      | some l =>
        simp only [layerOf, Option.map_eq_some_iff] at hl
        obtain ⟨x, hx, rfl⟩ := hl
        have := List.mem_of_find?_eq_some hx
        obtain ⟨l', _, rfl⟩ := List.mem_map.1 this
        simp [optOk]

theorem outLeavesOf_bestAlgorithm (a : Alg.DAssign) (formats : Formats) (g : IGraph)
    (h : bestAlgorithm a formats = .graph g) : outLeavesOf (outTensor a formats) g = true := by
  unfold bestAlgorithm at h
  split at h
  · cases h
  · cases h
  · rename_i g' rest hgs
    cases h
    exact outLeavesOf_toIterationGraphs a formats _ hgs g (by simp)

end TV.Gen
