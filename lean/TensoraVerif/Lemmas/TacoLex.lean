import TensoraVerif.Model.Taco
import TensoraVerif.Lemmas.ParserLex

/-!
Character level of the taco printer: tensora's lexer applied to the text `deparse_to_taco` prints (commas
followed by a space) gives back exactly the taco tokens — the analogue of `lexAux_render` / `lex_deparse`
(`Lemmas/ParserLex.lean`) for `tacoRender` and `PAssign.tacoToks`.
-/
namespace TV.Parse

theorem tacoRender_cons (t : Tok) (ts : List Tok) : tacoRender (t :: ts) = t.tacoRender ++ tacoRender ts := by
  simp [tacoRender]

/-- the two renderings of a token list start with the same character -/
theorem tacoRender_head? (ts : List Tok) : (tacoRender ts).head? = (render ts).head? := by
  induction ts with
  | nil => rfl
  | cons t ts ih =>
    rw [tacoRender_cons, render_cons, List.head?_append, List.head?_append, ih]
    cases t <;> rfl

theorem tacoRender_head_stop (ts : List Tok) (h : ∀ c ∈ (render ts).head?, isStopChar c = true) :
    ∀ c ∈ (tacoRender ts).head?, isStopChar c = true := by
  rw [tacoRender_head?]; exact h

theorem lexAux_tacoRender (ts : List Tok) (h : renderable ts = true) (fuel : Nat)
    (hf : (tacoRender ts).length < fuel) : lexAux fuel (tacoRender ts) = (ts, true) := by
  induction ts generalizing fuel with
  | nil =>
    cases fuel with
    | zero => simp [tacoRender, lexAux]
    | succ f => simp [tacoRender, lexAux]
  | cons t ts ih =>
    simp only [renderable, Bool.and_eq_true, Bool.or_eq_true, Bool.not_eq_true'] at h
    obtain ⟨⟨hw, hadj⟩, hrest⟩ := h
    rw [tacoRender_cons] at hf ⊢
    rw [List.length_append] at hf
    cases t with
    | name s =>
      have hstop := tacoRender_head_stop ts (render_head_stop ts (by simpa [Tok.isWord] using hadj))
      have hstopA : ∀ c ∈ (tacoRender ts).head?, isAlnum c = false :=
        fun c hc => stop_not_alnum c (hstop c hc)
      simp only [Tok.wellSpelled] at hw
      simp only [Tok.tacoRender, Tok.render] at hf ⊢
      have hs : String.ofList s.toList = s := String.ofList_toList
      generalize s.toList = cs at *
      cases cs with
      | nil => simp [isName] at hw
      | cons c r =>
        simp only [isName, Bool.and_eq_true] at hw
        have hall : (c :: r).all isAlnum = true := by
          simp only [List.all_cons, Bool.and_eq_true]; exact ⟨alnum_of_alpha c hw.1, hw.2⟩
        obtain ⟨f, rfl⟩ : ∃ f, fuel = f + 1 := ⟨fuel - 1, by omega⟩
        rw [List.cons_append, lexAux_alpha _ _ _ hw.1, ← List.cons_append,
          takeWhile_append_of_stop _ _ _ hall hstopA, dropWhile_append_of_stop _ _ _ hall hstopA,
          ih hrest f (by simp at hf; omega), hs]
    | int s =>
      have hstop := tacoRender_head_stop ts (render_head_stop ts (by simpa [Tok.isWord] using hadj))
      simp only [Tok.wellSpelled] at hw
      simp only [Tok.tacoRender, Tok.render] at hf ⊢
      have hs : String.ofList s.toList = s := String.ofList_toList
      generalize s.toList = cs at *
      have hnum := lexNumber_int cs (tacoRender ts) hw hstop
      cases cs with
      | nil => simp [isIntLexeme] at hw
      | cons c r =>
        simp only [isIntLexeme, List.all_cons, Bool.and_eq_true] at hw
        obtain ⟨f, rfl⟩ : ∃ f, fuel = f + 1 := ⟨fuel - 1, by omega⟩
        rw [List.cons_append, lexAux_digitU _ _ _ (isDigitU_of_isDigit c hw.2.1), ← List.cons_append,
          hnum]
        simp only
        rw [ih hrest f (by simp at hf; omega), hs]
    | flt s =>
      have hstop := tacoRender_head_stop ts (render_head_stop ts (by simpa [Tok.isWord] using hadj))
      simp only [Tok.wellSpelled] at hw
      simp only [Tok.tacoRender, Tok.render] at hf ⊢
      have hs : String.ofList s.toList = s := String.ofList_toList
      generalize s.toList = cs at *
      have hnum := lexNumber_flt cs (tacoRender ts) hw hstop
      cases cs with
      | nil => simp [isFloatLexeme] at hw
      | cons c r =>
        have hc : isDigitU c = true := by
          simp only [isFloatLexeme, Bool.and_eq_true, Bool.not_eq_true'] at hw
          have := hw.1
          rw [List.takeWhile_cons] at this
          cases hd : isDigitU c
          · simp [hd] at this
          · rfl
        obtain ⟨f, rfl⟩ : ∃ f, fuel = f + 1 := ⟨fuel - 1, by omega⟩
        rw [List.cons_append, lexAux_digitU _ _ _ hc, ← List.cons_append, hnum]
        simp only
        rw [ih hrest f (by simp at hf; omega), hs]
    | lpar =>
      obtain ⟨f, rfl⟩ : ∃ f, fuel = f + 1 := ⟨fuel - 1, by omega⟩
      simp [Tok.tacoRender, Tok.render, lexAux,
        ih hrest f (by simp [Tok.tacoRender, Tok.render] at hf; omega)]
    | rpar =>
      obtain ⟨f, rfl⟩ : ∃ f, fuel = f + 1 := ⟨fuel - 1, by omega⟩
      simp [Tok.tacoRender, Tok.render, lexAux,
        ih hrest f (by simp [Tok.tacoRender, Tok.render] at hf; omega)]
    | comma =>
      obtain ⟨f, rfl⟩ : ∃ f, fuel = f + 1 + 1 := ⟨fuel - 2, by simp [Tok.tacoRender] at hf; omega⟩
      simp [Tok.tacoRender, lexAux, ih hrest f (by simp [Tok.tacoRender] at hf; omega)]
    | star =>
      obtain ⟨f, rfl⟩ : ∃ f, fuel = f + 1 + 1 + 1 :=
        ⟨fuel - 3, by simp [Tok.tacoRender, Tok.render] at hf; omega⟩
      simp [Tok.tacoRender, Tok.render, lexAux,
        ih hrest f (by simp [Tok.tacoRender, Tok.render] at hf; omega)]
    | plus =>
      obtain ⟨f, rfl⟩ : ∃ f, fuel = f + 1 + 1 + 1 :=
        ⟨fuel - 3, by simp [Tok.tacoRender, Tok.render] at hf; omega⟩
      simp [Tok.tacoRender, Tok.render, lexAux,
        ih hrest f (by simp [Tok.tacoRender, Tok.render] at hf; omega)]
    | minus =>
      obtain ⟨f, rfl⟩ : ∃ f, fuel = f + 1 + 1 + 1 :=
        ⟨fuel - 3, by simp [Tok.tacoRender, Tok.render] at hf; omega⟩
      simp [Tok.tacoRender, Tok.render, lexAux,
        ih hrest f (by simp [Tok.tacoRender, Tok.render] at hf; omega)]
    | eq =>
      obtain ⟨f, rfl⟩ : ∃ f, fuel = f + 1 + 1 + 1 :=
        ⟨fuel - 3, by simp [Tok.tacoRender, Tok.render] at hf; omega⟩
      simp [Tok.tacoRender, Tok.render, lexAux,
        ih hrest f (by simp [Tok.tacoRender, Tok.render] at hf; omega)]

theorem lex_tacoRender_ofList (ts : List Tok) (h : renderable ts = true) :
    lex (String.ofList (tacoRender ts)) = (ts, true) := by
  unfold lex
  rw [String.toList_ofList]
  exact lexAux_tacoRender ts h _ (by omega)

/-! ### the taco token lists are renderable -/

theorem renderable_tacoTensorToks (n : String) (idx : List String) (hn : isName n.toList = true)
    (hi : idx.all (fun i => isName i.toList) = true) : renderable (tacoTensorToks n idx) = true := by
  cases idx with
  | nil => simp [tacoTensorToks, renderable, Tok.wellSpelled, Tok.isWord, hn]
  | cons i rest =>
    have := renderable_tensorToks n (i :: rest) hn hi
    simpa [tacoTensorToks, tensorToks] using this

theorem renderable_tacoToks (e : PExpr) (h : e.wellSpelled = true) : renderable e.tacoToks = true := by
  induction e with
  | int s => simpa [PExpr.tacoToks, renderable, Tok.wellSpelled, Tok.isWord, PExpr.wellSpelled] using h
  | flt s => simpa [PExpr.tacoToks, renderable, Tok.wellSpelled, Tok.isWord, PExpr.wellSpelled] using h
  | tensor n idx =>
    simp only [PExpr.wellSpelled, Bool.and_eq_true] at h
    exact renderable_tacoTensorToks n idx h.1 h.2
  | add l r ihl ihr =>
    simp only [PExpr.wellSpelled, Bool.and_eq_true] at h
    exact renderable_binop _ _ _ rfl (ihl h.1) (ihr h.2)
  | sub l r ihl ihr =>
    simp only [PExpr.wellSpelled, Bool.and_eq_true] at h
    exact renderable_binop _ _ _ rfl (ihl h.1) (renderable_maybeParen _ _ (ihr h.2))
  | mul l r ihl ihr =>
    simp only [PExpr.wellSpelled, Bool.and_eq_true] at h
    exact renderable_binop _ _ _ rfl (renderable_maybeParen _ _ (ihl h.1))
      (renderable_maybeParen _ _ (ihr h.2))

theorem renderable_tacoAssignToks (a : PAssign) (h : a.wellSpelled = true) :
    renderable a.tacoToks = true := by
  simp only [PAssign.wellSpelled, Bool.and_eq_true] at h
  exact renderable_binop _ _ _ rfl (renderable_tacoTensorToks _ _ h.1.1 h.1.2)
    (renderable_tacoToks _ h.2)

theorem lex_deparseTaco_lem (a : PAssign) (h : a.wellSpelled = true) :
    lex a.deparseTaco = (a.tacoToks, true) :=
  lex_tacoRender_ofList a.tacoToks (renderable_tacoAssignToks a h)

end TV.Parse
