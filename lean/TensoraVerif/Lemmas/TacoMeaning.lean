import TensoraVerif.Model.Taco
import TensoraVerif.Model.Algebra

/-!
Meaning of the taco print (`Model/Taco.lean`): regrouping a tree (`tacoRegroup`) does not change the list of
additive terms `termsOf` of the specification (`Model/Algebra.lean`) — the same terms, in the same order, with
the same coefficients and the same factor lists — and hence not `denote`.

`PExpr` carries the lexemes of the literals, `SExpr` their exact values; `PExpr.toS` converts with arbitrary
interpretations of the lexemes, so the statements hold for whatever CPython's `int()`/`float()` return.
-/
namespace TV.Parse
open TV.Alg

/-- the specification tree of a syntax tree, literal lexemes interpreted by `ival` / `fval` -/
def PExpr.toS (ival : String → Int) (fval : String → Rat) : PExpr → SExpr
  | .int s => .int (ival s)
  | .flt s => .flt (fval s)
  | .tensor n idx => .tensor n idx
  | .add l r => .add (l.toS ival fval) (r.toS ival fval)
  | .sub l r => .sub (l.toS ival fval) (r.toS ival fval)
  | .mul l r => .mul (l.toS ival fval) (r.toS ival fval)

def PAssign.toS (ival : String → Int) (fval : String → Rat) (a : PAssign) : Assign :=
  ⟨a.tname, a.tidx, a.rhs.toS ival fval⟩

/-! ### products of term lists -/

/-- the additive terms of a product: every term of the left operand times every term of the right one -/
def mulTerms (A B : List Term) : List Term := A.flatMap fun a => B.map fun b => a.mul b

theorem termsOf_mul (l r : SExpr) : termsOf (.mul l r) = mulTerms (termsOf l) (termsOf r) := rfl

theorem Term.mul_assoc (a b c : Term) : (a.mul b).mul c = a.mul (b.mul c) := by
  simp [Term.mul, Rat.mul_assoc, List.append_assoc]

theorem mulTerms_nil (B : List Term) : mulTerms [] B = [] := rfl

theorem mulTerms_cons (a : Term) (A B : List Term) :
    mulTerms (a :: A) B = (B.map fun b => a.mul b) ++ mulTerms A B := by
  simp [mulTerms]

theorem mulTerms_append (X Y C : List Term) : mulTerms (X ++ Y) C = mulTerms X C ++ mulTerms Y C := by
  simp [mulTerms, List.flatMap_append]

theorem mulTerms_map (a : Term) (B C : List Term) :
    mulTerms (B.map fun b => a.mul b) C = (mulTerms B C).map fun t => a.mul t := by
  induction B with
  | nil => rfl
  | cons b B ih =>
    rw [List.map_cons, mulTerms_cons, mulTerms_cons, ih, List.map_append, List.map_map]
    congr 1
    apply List.map_congr_left
    intro c _
    exact Term.mul_assoc a b c

theorem mulTerms_assoc (A B C : List Term) : mulTerms (mulTerms A B) C = mulTerms A (mulTerms B C) := by
  induction A with
  | nil => rfl
  | cons a A ih => rw [mulTerms_cons, mulTerms_append, mulTerms_map, ih, mulTerms_cons]

/-! ### the spines -/

theorem termsOf_appendAdd (ival : String → Int) (fval : String → Rat) (l r : PExpr) :
    termsOf ((appendAdd l r).toS ival fval) = termsOf (l.toS ival fval) ++ termsOf (r.toS ival fval) := by
  induction r with
  | add x y ihx _ => simp [appendAdd, PExpr.toS, termsOf, ihx]
  | sub x y ihx _ => simp [appendAdd, PExpr.toS, termsOf, ihx]
  | _ => simp [appendAdd, PExpr.toS, termsOf]

theorem termsOf_appendMul (ival : String → Int) (fval : String → Rat) (l r : PExpr) :
    termsOf ((appendMul l r).toS ival fval) =
      mulTerms (termsOf (l.toS ival fval)) (termsOf (r.toS ival fval)) := by
  induction r with
  | mul x y ihx _ =>
    simp only [appendMul, PExpr.toS, termsOf_mul, ihx, mulTerms_assoc]
  | _ => simp only [appendMul, PExpr.toS, termsOf_mul]

/-- regrouping keeps the list of additive terms: same terms, same order, same coefficients -/
theorem termsOf_tacoRegroup (ival : String → Int) (fval : String → Rat) (e : PExpr) :
    termsOf ((tacoRegroup e).toS ival fval) = termsOf (e.toS ival fval) := by
  induction e with
  | int s => rfl
  | flt s => rfl
  | tensor n idx => rfl
  | add l r ihl ihr => simp only [tacoRegroup, termsOf_appendAdd, ihl, ihr, PExpr.toS, termsOf]
  | sub l r ihl ihr => simp only [tacoRegroup, PExpr.toS, termsOf, ihl, ihr]
  | mul l r ihl ihr => simp only [tacoRegroup, termsOf_appendMul, ihl, ihr, PExpr.toS, termsOf_mul]

end TV.Parse
