import TensoraVerif.Model.Taco
import TensoraVerif.Lemmas.ParserRoundTrip

/-!
Token level of the taco printer (`Model/Taco.lean`).

`toksU e` is tensora's own print of `e` (`PExpr.toks`: same parentheses) with tensors in taco spelling. Two
independent facts give `tacoToks_regroup`:

* `unitParens_toks`: `unitParens e.toks = toksU e` (continuation form, so that no reasoning about the last
  token of a list is needed);
* `tacoToks_eq_toksU`: `e.tacoToks = toksU (tacoRegroup e)`, by the spine lemmas `toksU_appendAdd` and
  `toksU_appendMul`.
-/
namespace TV.Parse

/-! ### `isAddSub` / `isMul` through regrouping -/

@[simp] theorem isAddSub_appendAdd (l r : PExpr) : (appendAdd l r).isAddSub = true := by
  cases r <;> simp [appendAdd, PExpr.isAddSub]

@[simp] theorem isMul_appendAdd (l r : PExpr) : (appendAdd l r).isMul = false := by
  cases r <;> simp [appendAdd, PExpr.isMul]

@[simp] theorem isAddSub_appendMul (l r : PExpr) : (appendMul l r).isAddSub = false := by
  cases r <;> simp [appendMul, PExpr.isAddSub]

@[simp] theorem isMul_appendMul (l r : PExpr) : (appendMul l r).isMul = true := by
  cases r <;> simp [appendMul, PExpr.isMul]

@[simp] theorem isAddSub_tacoRegroup (e : PExpr) : (tacoRegroup e).isAddSub = e.isAddSub := by
  cases e with
  | add l r => simp only [tacoRegroup, isAddSub_appendAdd]; rfl
  | mul l r => simp only [tacoRegroup, isAddSub_appendMul]; rfl
  | _ => rfl

@[simp] theorem isMul_tacoRegroup (e : PExpr) : (tacoRegroup e).isMul = e.isMul := by
  cases e with
  | add l r => simp only [tacoRegroup, isMul_appendAdd]; rfl
  | mul l r => simp only [tacoRegroup, isMul_appendMul]; rfl
  | _ => rfl

theorem appendAdd_of_not_addSub (l r : PExpr) (h : r.isAddSub = false) : appendAdd l r = .add l r := by
  cases r <;> simp_all [appendAdd, PExpr.isAddSub]

theorem appendMul_of_not_mul (l r : PExpr) (h : r.isMul = false) : appendMul l r = .mul l r := by
  cases r <;> simp_all [appendMul, PExpr.isMul]

/-! ### tensora's print with taco's tensors -/

/-- `PExpr.toks` with tensors spelled as taco spells them -/
def toksU : PExpr → List Tok
  | .int s => [.int s]
  | .flt s => [.flt s]
  | .tensor n idx => tacoTensorToks n idx
  | .add l r => toksU l ++ [.plus] ++ (if r.isAddSub then parenToks (toksU r) else toksU r)
  | .sub l r => toksU l ++ [.minus] ++ (if r.isAddSub then parenToks (toksU r) else toksU r)
  | .mul l r =>
    (if l.isAddSub then parenToks (toksU l) else toksU l) ++ [.star] ++
      (if r.isAddSub || r.isMul then parenToks (toksU r) else toksU r)

def termToksU (e : PExpr) : List Tok := if e.isAddSub then parenToks (toksU e) else toksU e
def factorToksU (e : PExpr) : List Tok := if e.isAddSub || e.isMul then parenToks (toksU e) else toksU e

theorem toksU_add (l r : PExpr) : toksU (.add l r) = toksU l ++ .plus :: termToksU r := by
  simp [toksU, termToksU]
theorem toksU_sub (l r : PExpr) : toksU (.sub l r) = toksU l ++ .minus :: termToksU r := by
  simp [toksU, termToksU]
theorem toksU_mul (l r : PExpr) : toksU (.mul l r) = termToksU l ++ .star :: factorToksU r := by
  simp [toksU, termToksU, factorToksU]

/-! ### `unitParens` on the print of a tree -/

theorem unitParens_cons (t : Tok) (rest : List Tok) (h : ∀ n, t ≠ .name n) :
    unitParens (t :: rest) = t :: unitParens rest := by
  cases t with
  | name n => exact absurd rfl (h n)
  | _ => simp [unitParens]

theorem unitParens_name_comma (n : String) (rest : List Tok) :
    unitParens (.name n :: .comma :: rest) = .name n :: .comma :: unitParens rest := by
  simp [unitParens]

theorem unitParens_name_rpar (n : String) (rest : List Tok) :
    unitParens (.name n :: .rpar :: rest) = .name n :: .rpar :: unitParens rest := by
  simp [unitParens]

theorem unitParens_name_lpar_name (n m : String) (rest : List Tok) :
    unitParens (.name n :: .lpar :: .name m :: rest) = .name n :: .lpar :: unitParens (.name m :: rest) := by
  simp [unitParens]

/-- an index name and what follows it inside the parentheses of a tensor -/
theorem unitParens_idxTail (i : String) (is : List String) (rest : List Tok) :
    unitParens (.name i :: (is.flatMap fun j => [Tok.comma, .name j]) ++ .rpar :: rest) =
      .name i :: (is.flatMap fun j => [Tok.comma, .name j]) ++ .rpar :: unitParens rest := by
  induction is generalizing i with
  | nil => simp [unitParens_name_rpar]
  | cons j is ih =>
    have := ih j
    simp only [List.flatMap_cons, List.cons_append, List.nil_append] at this ⊢
    rw [unitParens_name_comma, this]

/-- a printed tensor followed by anything -/
theorem unitParens_tensorToks (n : String) (idx : List String) (rest : List Tok) :
    unitParens (tensorToks n idx ++ rest) = tacoTensorToks n idx ++ unitParens rest := by
  cases idx with
  | nil => simp [tensorToks, tacoTensorToks, unitParens]
  | cons i is =>
    have := unitParens_idxTail i is rest
    simp only [tensorToks, tacoTensorToks, List.cons_append, List.append_assoc, List.nil_append] at this ⊢
    rw [unitParens_name_lpar_name, this]

theorem unitParens_paren (ts us rest : List Tok)
    (h : ∀ rest, unitParens (ts ++ rest) = us ++ unitParens rest) :
    unitParens (parenToks ts ++ rest) = parenToks us ++ unitParens rest := by
  simp only [parenToks, List.cons_append, List.append_assoc, List.nil_append]
  rw [unitParens_cons _ _ (by intro n; simp), h, unitParens_cons _ _ (by intro n; simp)]

/-- continuation form: the print of `e` followed by anything -/
theorem unitParens_toks_append (e : PExpr) (rest : List Tok) :
    unitParens (e.toks ++ rest) = toksU e ++ unitParens rest := by
  induction e generalizing rest with
  | int s => simp [PExpr.toks, toksU, unitParens]
  | flt s => simp [PExpr.toks, toksU, unitParens]
  | tensor n idx => exact unitParens_tensorToks n idx rest
  | add l r ihl ihr =>
    have hr : unitParens (termToks r ++ rest) = termToksU r ++ unitParens rest := by
      unfold termToks termToksU
      split
      · exact unitParens_paren _ _ _ ihr
      · exact ihr rest
    rw [toks_add, toksU_add, List.append_assoc, ihl, List.cons_append,
      unitParens_cons _ _ (by intro n; simp), hr]
    simp
  | sub l r ihl ihr =>
    have hr : unitParens (termToks r ++ rest) = termToksU r ++ unitParens rest := by
      unfold termToks termToksU
      split
      · exact unitParens_paren _ _ _ ihr
      · exact ihr rest
    rw [toks_sub, toksU_sub, List.append_assoc, ihl, List.cons_append,
      unitParens_cons _ _ (by intro n; simp), hr]
    simp
  | mul l r ihl ihr =>
    have hl : ∀ rest, unitParens (termToks l ++ rest) = termToksU l ++ unitParens rest := by
      intro rest
      unfold termToks termToksU
      split
      · exact unitParens_paren _ _ _ ihl
      · exact ihl rest
    have hr : unitParens (factorToks r ++ rest) = factorToksU r ++ unitParens rest := by
      unfold factorToks factorToksU
      split
      · exact unitParens_paren _ _ _ ihr
      · exact ihr rest
    rw [toks_mul, toksU_mul, List.append_assoc, hl, List.cons_append,
      unitParens_cons _ _ (by intro n; simp), hr]
    simp

theorem unitParens_toks (e : PExpr) : unitParens e.toks = toksU e := by
  simpa [unitParens] using unitParens_toks_append e []

/-! ### the spines -/

theorem toksU_appendAdd (l r : PExpr) : toksU (appendAdd l r) = toksU l ++ .plus :: toksU r := by
  induction r with
  | add x y ihx _ => simp [appendAdd, toksU_add, ihx]
  | sub x y ihx _ => simp [appendAdd, toksU_sub, ihx]
  | int s => simp [appendAdd, toksU_add, termToksU, PExpr.isAddSub]
  | flt s => simp [appendAdd, toksU_add, termToksU, PExpr.isAddSub]
  | tensor n idx => simp [appendAdd, toksU_add, termToksU, PExpr.isAddSub]
  | mul x y _ _ => simp [appendAdd, toksU_add, termToksU, PExpr.isAddSub]

theorem toksU_appendMul (l r : PExpr) :
    toksU (appendMul l r) = termToksU l ++ .star :: termToksU r := by
  induction r with
  | mul x y ihx _ =>
    have h1 : termToksU (appendMul l x) = toksU (appendMul l x) := by simp [termToksU]
    have h2 : termToksU (.mul x y) = toksU (.mul x y) := by simp [termToksU, PExpr.isAddSub]
    rw [h2]
    simp [appendMul, toksU_mul, h1, ihx]
  | int s => simp [appendMul, toksU_mul, termToksU, factorToksU, PExpr.isAddSub, PExpr.isMul]
  | flt s => simp [appendMul, toksU_mul, termToksU, factorToksU, PExpr.isAddSub, PExpr.isMul]
  | tensor n idx => simp [appendMul, toksU_mul, termToksU, factorToksU, PExpr.isAddSub, PExpr.isMul]
  | add x y _ _ => simp [appendMul, toksU_mul, termToksU, factorToksU, PExpr.isAddSub, PExpr.isMul]
  | sub x y _ _ => simp [appendMul, toksU_mul, termToksU, factorToksU, PExpr.isAddSub, PExpr.isMul]

/-- the taco print of `e` is tensora's print (with taco's tensors) of the regrouped tree -/
theorem tacoToks_eq_toksU (e : PExpr) : e.tacoToks = toksU (tacoRegroup e) := by
  induction e with
  | int s => rfl
  | flt s => rfl
  | tensor n idx => rfl
  | add l r ihl ihr => simp [PExpr.tacoToks, tacoRegroup, toksU_appendAdd, ihl, ihr]
  | sub l r ihl ihr => simp [PExpr.tacoToks, tacoRegroup, toksU_sub, termToksU, ihl, ihr]
  | mul l r ihl ihr => simp [PExpr.tacoToks, tacoRegroup, toksU_appendMul, termToksU, ihl, ihr]

/-! ### without scalars the two spellings agree -/

theorem tacoTensorToks_eq (n : String) (idx : List String) (h : idx.isEmpty = false) :
    tacoTensorToks n idx = tensorToks n idx := by
  cases idx with
  | nil => simp at h
  | cons i is => simp [tacoTensorToks, tensorToks]

theorem toksU_eq_toks (e : PExpr) (h : noScalars e = true) : toksU e = e.toks := by
  induction e with
  | int s => rfl
  | flt s => rfl
  | tensor n idx => exact tacoTensorToks_eq n idx (by simpa [noScalars] using h)
  | add l r ihl ihr =>
    simp only [noScalars, Bool.and_eq_true] at h
    simp [toksU, PExpr.toks, ihl h.1, ihr h.2]
  | sub l r ihl ihr =>
    simp only [noScalars, Bool.and_eq_true] at h
    simp [toksU, PExpr.toks, ihl h.1, ihr h.2]
  | mul l r ihl ihr =>
    simp only [noScalars, Bool.and_eq_true] at h
    simp [toksU, PExpr.toks, ihl h.1, ihr h.2]

theorem noScalars_appendAdd (l r : PExpr) : noScalars (appendAdd l r) = (noScalars l && noScalars r) := by
  induction r with
  | add x y ihx _ => simp [appendAdd, noScalars, ihx, Bool.and_assoc]
  | sub x y ihx _ => simp [appendAdd, noScalars, ihx, Bool.and_assoc]
  | _ => simp [appendAdd, noScalars]

theorem noScalars_appendMul (l r : PExpr) : noScalars (appendMul l r) = (noScalars l && noScalars r) := by
  induction r with
  | mul x y ihx _ => simp [appendMul, noScalars, ihx, Bool.and_assoc]
  | _ => simp [appendMul, noScalars]

theorem noScalars_tacoRegroup (e : PExpr) : noScalars (tacoRegroup e) = noScalars e := by
  induction e with
  | add l r ihl ihr => simp [tacoRegroup, noScalars, noScalars_appendAdd, ihl, ihr]
  | sub l r ihl ihr => simp [tacoRegroup, noScalars, ihl, ihr]
  | mul l r ihl ihr => simp [tacoRegroup, noScalars, noScalars_appendMul, ihl, ihr]
  | _ => simp [tacoRegroup]

/-! ### left-nested trees are fixed points -/

theorem tacoRegroup_of_leftNested (e : PExpr) (h : tacoLeftNested e = true) : tacoRegroup e = e := by
  induction e with
  | int s => rfl
  | flt s => rfl
  | tensor n idx => rfl
  | add l r ihl ihr =>
    simp only [tacoLeftNested, Bool.and_eq_true, Bool.not_eq_true'] at h
    rw [tacoRegroup, ihl h.1.2, ihr h.2, appendAdd_of_not_addSub _ _ h.1.1]
  | sub l r ihl ihr =>
    simp only [tacoLeftNested, Bool.and_eq_true] at h
    rw [tacoRegroup, ihl h.1, ihr h.2]
  | mul l r ihl ihr =>
    simp only [tacoLeftNested, Bool.and_eq_true, Bool.not_eq_true'] at h
    rw [tacoRegroup, ihl h.1.2, ihr h.2, appendMul_of_not_mul _ _ h.1.1]

/-- the regrouped tree is left nested, so regrouping is idempotent -/
theorem leftNested_appendAdd (l r : PExpr) (hl : tacoLeftNested l = true) (hr : tacoLeftNested r = true) :
    tacoLeftNested (appendAdd l r) = true := by
  induction r with
  | add x y ihx _ =>
    simp only [tacoLeftNested, Bool.and_eq_true] at hr
    simp [appendAdd, tacoLeftNested, ihx hr.1.2, hr.1.1, hr.2]
  | sub x y ihx _ =>
    simp only [tacoLeftNested, Bool.and_eq_true] at hr
    simp [appendAdd, tacoLeftNested, ihx hr.1, hr.2]
  | int s => simp [appendAdd, tacoLeftNested, hl, PExpr.isAddSub]
  | flt s => simp [appendAdd, tacoLeftNested, hl, PExpr.isAddSub]
  | tensor n idx => simp [appendAdd, tacoLeftNested, hl, PExpr.isAddSub]
  | mul x y _ _ => simp [appendAdd, hl, PExpr.isAddSub, tacoLeftNested] at hr ⊢; simp [hr]

theorem leftNested_appendMul (l r : PExpr) (hl : tacoLeftNested l = true) (hr : tacoLeftNested r = true) :
    tacoLeftNested (appendMul l r) = true := by
  induction r with
  | mul x y ihx _ =>
    simp only [tacoLeftNested, Bool.and_eq_true] at hr
    simp [appendMul, tacoLeftNested, ihx hr.1.2, hr.1.1, hr.2]
  | int s => simp [appendMul, tacoLeftNested, hl, PExpr.isMul]
  | flt s => simp [appendMul, tacoLeftNested, hl, PExpr.isMul]
  | tensor n idx => simp [appendMul, tacoLeftNested, hl, PExpr.isMul]
  | add x y _ _ => simp [appendMul, hl, PExpr.isMul, tacoLeftNested] at hr ⊢; simp [hr]
  | sub x y _ _ => simp [appendMul, hl, PExpr.isMul, tacoLeftNested] at hr ⊢; simp [hr]

theorem leftNested_tacoRegroup (e : PExpr) : tacoLeftNested (tacoRegroup e) = true := by
  induction e with
  | add l r ihl ihr => exact leftNested_appendAdd _ _ ihl ihr
  | sub l r ihl ihr => simp [tacoRegroup, tacoLeftNested, ihl, ihr]
  | mul l r ihl ihr => exact leftNested_appendMul _ _ ihl ihr
  | _ => simp [tacoRegroup, tacoLeftNested]

end TV.Parse
