import TensoraVerif.Model.GenerateIR
import TensoraVerif.Model.FloatLaws
import TensoraVerif.Lemmas.GrowthBasic

/-!
C01, innermost piece ("the emitted right-hand side computes the meaning of the terminal
expression"), part 1: the meaning `valueF` of an identifiable expression in the float carrier, the
per-leaf state hypothesis `LeafOK`, and `toIr_sound`: `evalE σ (toIrWith ofRat e)` is
`.flt (valueF ofRat ρ e)`.
-/
namespace TV.ToIr
open TV.IR TV.Gen TV.Graph TV.Growth

set_option linter.unusedSectionVars false
variable {F : Type} [FloatOps F]

/-! ### E0: the meaning in the carrier -/

/-- the value of `e` in the float carrier `F`, computed with exactly the association of the tree:
literals go through `ofRat`, a tensor leaf reads `ρ t.id`, `+`/`*` are the carrier's operations -/
def valueF (ofRat : Rat → F) (ρ : String → F) : IdExpr → F
  | .int v => ofRat v
  | .flt q => ofRat q
  | .tensor t => ρ t.id
  | .add l r => FloatOps.add (valueF ofRat ρ l) (valueF ofRat ρ r)
  | .mul l r => FloatOps.mul (valueF ofRat ρ l) (valueF ofRat ρ r)

/-- every sub-result of `valueF` (literals, leaves, every intermediate sum and product) is finite -/
def allFinite (ofRat : Rat → F) (ρ : String → F) : IdExpr → Bool
  | .int v => FloatOps.finite (ofRat v)
  | .flt q => FloatOps.finite (ofRat q)
  | .tensor t => FloatOps.finite (ρ t.id)
  | .add l r => allFinite ofRat ρ l && allFinite ofRat ρ r &&
      FloatOps.finite (FloatOps.add (valueF ofRat ρ l) (valueF ofRat ρ r))
  | .mul l r => allFinite ofRat ρ l && allFinite ofRat ρ r &&
      FloatOps.finite (FloatOps.mul (valueF ofRat ρ l) (valueF ofRat ρ r))

/-- `AllFinite ofRat ρ e`: every sub-result of `valueF ofRat ρ e` is `FloatOps.finite` -/
def AllFinite (ofRat : Rat → F) (ρ : String → F) (e : IdExpr) : Prop := allFinite ofRat ρ e = true

instance (ofRat : Rat → F) (ρ : String → F) (e : IdExpr) : Decidable (AllFinite ofRat ρ e) := by
  unfold AllFinite; infer_instance

theorem allFinite_finite {ofRat : Rat → F} {ρ : String → F} {e : IdExpr} (h : AllFinite ofRat ρ e) :
    FloatOps.finite (valueF ofRat ρ e) = true := by
  unfold AllFinite at h
  cases e <;> simp_all [allFinite, valueF]

/-- the tensor occurrences of `e`, left to right (one entry per occurrence) -/
def leaves : IdExpr → List TensorId
  | .int _ => []
  | .flt _ => []
  | .tensor t => [t]
  | .add l r => leaves l ++ leaves r
  | .mul l r => leaves l ++ leaves r

/-! ### state hypotheses -/

/-- `x` is declared with a pointer type and currently holds the address `b + off` -/
def PtrAt (σ : State F) (x : String) (b : Nat) (off : Int) : Prop :=
  ∃ r t, lookupVar σ.vars x = some r ∧ r.ty = .ptr t ∧ r.val = some (.ptr b off)

theorem PtrAt.of_ptrVar {σ : State F} {x : String} {b : Nat} (h : PtrVar σ x b) : PtrAt σ x b 0 := h

/-- block `b` is a live block of floats whose cell `k` holds the float `x` -/
def FloatCell (σ : State F) (b : Nat) (k : Int) (x : F) : Prop :=
  ∃ blk, σ.heap[b]? = some blk ∧ blk.live = true ∧ blk.ty = .float ∧ 0 ≤ k ∧
    blk.cells[k.toNat]? = some (some (.flt x))

/-- the cursor expression of the last level, `prevLayerPointer id n`, has the value `p`: it is the
literal `0` for an order-0 tensor and the `int` variable `p_<id>_<n-1>` otherwise -/
def CursorIs (σ : State F) (id : String) (n : Nat) (p : Int) : Prop :=
  if n = 0 then p = 0 else IntVar σ (layerPointer id (n - 1)) p

theorem evalE_cursor {σ : State F} {id : String} {n : Nat} {p : Int} (h : CursorIs σ id n p)
    (h0 : -2147483648 ≤ p) (h1 : p < 2147483648) :
    evalE σ (prevLayerPointer id n : Expr F) = .ok (.int p) := by
  unfold CursorIs at h
  unfold prevLayerPointer
  split at h
  · subst h; simp [*, evalE, chkInt, inI32]
  · simp only [*, if_false]
    exact evalE_var_int h h0 h1

/-- The state hypothesis for ONE tensor occurrence `t` (per id; the array is per name): the
variable `<name>_vals` has a pointer type and holds `b + off`, the cursor expression of the last
level of this occurrence evaluates to the integer `p`, and cell `off + p` of the live float block
`b` holds `ρ t.id`. -/
def LeafOK (σ : State F) (ρ : String → F) (t : TensorId) : Prop :=
  ∃ b off p, PtrAt σ (valsName t.name) b off ∧
    evalE σ (prevLayerPointer t.id t.indexes.length : Expr F) = .ok (.int p) ∧
    FloatCell σ b (off + p) (ρ t.id)

/-- the brief's wording: base pointer `.ptr b 0`, cursor value `p`, cell `p` holds `ρ t.id` -/
theorem LeafOK.intro {σ : State F} {ρ : String → F} {t : TensorId} {b : Nat} {p : Int}
    (hv : PtrVar σ (valsName t.name) b) (hc : CursorIs σ t.id t.indexes.length p)
    (h0 : -2147483648 ≤ p) (h1 : p < 2147483648) (hcell : FloatCell σ b p (ρ t.id)) :
    LeafOK σ ρ t :=
  ⟨b, 0, p, hv, evalE_cursor hc h0 h1, by simpa using hcell⟩

/-! ### evaluation lemmas -/

theorem evalE_var_ptrAt {σ : State F} {x : String} {b : Nat} {off : Int} (h : PtrAt σ x b off) :
    evalE σ (.var x) = .ok (.ptr b off) := by
  obtain ⟨r, t, e1, e2, e3⟩ := h
  simp [evalE, e1, e2, e3, hasTy, chkVal]

theorem readBlock_floatCell {σ : State F} {b : Nat} {k : Int} {x : F} (h : FloatCell σ b k x)
    (hx : FloatOps.finite x = true) : readBlock σ b k = .ok (.flt x) := by
  obtain ⟨blk, e1, e2, e3, e4, e5⟩ := h
  have hlt : k.toNat < blk.cells.length := by
    obtain ⟨h, _⟩ := List.getElem?_eq_some_iff.mp e5; exact h
  have hk : ¬ (k < 0) := by omega
  have hk' : ¬ ((blk.len : Int) ≤ k) := by unfold Block.len; omega
  simp [readBlock, e1, e2, e3, e5, hk, hk', hasElemTy, chkVal, chkFlt, hx]

theorem evalE_idx_floatCell {σ : State F} {a i : Expr F} {b : Nat} {off p : Int} {x : F}
    (ha : evalE σ a = .ok (.ptr b off)) (hi : evalE σ i = .ok (.int p))
    (hc : FloatCell σ b (off + p) x) (hx : FloatOps.finite x = true) :
    evalE σ (.idx a i) = .ok (.flt x) := by
  simp [evalE, ha, hi, bind, Except.bind, readBlock_floatCell hc hx]

theorem evalE_floatLit {σ : State F} {x : F} (hx : FloatOps.finite x = true) :
    evalE σ (.floatLit x) = .ok (.flt x) := by
  simp [evalE, chkFlt, hx]

theorem evalE_fadd {σ : State F} {l r : Expr F} {x y : F} (hl : evalE σ l = .ok (.flt x))
    (hr : evalE σ r = .ok (.flt y)) (h : FloatOps.finite (FloatOps.add x y) = true) :
    evalE σ (.bin .add l r) = .ok (.flt (FloatOps.add x y)) := by
  simp [evalE, hl, hr, bind, Except.bind, binVal, Val.toNum, numOp, Num.toF, chkFlt, h]

theorem evalE_fmul {σ : State F} {l r : Expr F} {x y : F} (hl : evalE σ l = .ok (.flt x))
    (hr : evalE σ r = .ok (.flt y)) (h : FloatOps.finite (FloatOps.mul x y) = true) :
    evalE σ (.bin .mul l r) = .ok (.flt (FloatOps.mul x y)) := by
  simp [evalE, hl, hr, bind, Except.bind, binVal, Val.toNum, numOp, Num.toF, chkFlt, h]

theorem evalE_leaf {σ : State F} {ρ : String → F} {t : TensorId} (h : LeafOK σ ρ t)
    (hx : FloatOps.finite (ρ t.id) = true) :
    evalE σ (.idx (.var (valsName t.name)) (prevLayerPointer t.id t.indexes.length)) =
      .ok (.flt (ρ t.id)) := by
  obtain ⟨b, off, p, hv, hp, hc⟩ := h
  exact evalE_idx_floatCell (evalE_var_ptrAt hv) hp hc hx

/-! ### E1 -/

/-- **E1.** the expression emitted for `e` evaluates to the carrier meaning of `e` -/
theorem toIr_sound_aux (ofRat : Rat → F) (ρ : String → F) (σ : State F) (e : IdExpr)
    (hleaf : ∀ t ∈ leaves e, LeafOK σ ρ t) (hfin : AllFinite ofRat ρ e) :
    evalE σ (toIrWith ofRat e) = .ok (.flt (valueF ofRat ρ e)) := by
  induction e with
  | int v => exact evalE_floatLit (by simpa [AllFinite, allFinite] using hfin)
  | flt q => exact evalE_floatLit (by simpa [AllFinite, allFinite] using hfin)
  | tensor t =>
    exact evalE_leaf (hleaf t (by simp [leaves])) (by simpa [AllFinite, allFinite] using hfin)
  | add l r ihl ihr =>
    simp only [AllFinite, allFinite, Bool.and_eq_true] at hfin
    obtain ⟨⟨hl, hr⟩, hs⟩ := hfin
    exact evalE_fadd (ihl (fun t ht => hleaf t (by simp [leaves, ht])) hl)
      (ihr (fun t ht => hleaf t (by simp [leaves, ht])) hr) hs
  | mul l r ihl ihr =>
    simp only [AllFinite, allFinite, Bool.and_eq_true] at hfin
    obtain ⟨⟨hl, hr⟩, hs⟩ := hfin
    exact evalE_fmul (ihl (fun t ht => hleaf t (by simp [leaves, ht])) hl)
      (ihr (fun t ht => hleaf t (by simp [leaves, ht])) hr) hs

end TV.ToIr
