import TensoraVerif.Lemmas.ToIrTerminal
import TensoraVerif.Lemmas.ToIrRat

/-!
Concrete expressions and states for the non-vacuity `example`s of `Props/C01Terminal.lean`:
`a(i) = b(i) * c(i) + 2` and the repeated tensor `b(i) * b(j)`, over the exact carriers `Int`
(`FloatOps.instInt`) and `Rat` (`instFloatOpsRat`).
-/
namespace TV.ToIr.Ex
open TV.IR TV.Gen TV.Graph TV.Growth TV.ToIr

def tb : TensorId := ⟨"b0", "b", ["i"], [.compressed]⟩
def tc : TensorId := ⟨"c0", "c", ["i"], [.compressed]⟩
/-- second occurrence of the SAME tensor `b` (same name, hence same `b_vals`), different id/cursor -/
def tb' : TensorId := ⟨"b1", "b", ["j"], [.compressed]⟩
/-- output `a(i)`, format `s`: one `written_a_0` flag -/
def ta : TensorId := ⟨"a0", "a", ["i"], [.compressed]⟩
/-- output `a(i,j)`, format `dd`: bucket over layers 0 and 1, no flag -/
def tad : TensorId := ⟨"a0", "a", ["i", "j"], [.dense, .dense]⟩

/-- `b(i) * c(i) + 2` -/
def eEx : IdExpr := .add (.mul (.tensor tb) (.tensor tc)) (.int 2)
/-- `b(i) * b(j)` -/
def eRep : IdExpr := .mul (.tensor tb) (.tensor tb')

/-- truncating conversion of literals to the integer carrier -/
def ofRatInt (q : Rat) : Int := q.num / q.den

def ρI (id : String) : Int := if id == "b0" then 4 else if id == "c0" then 5 else if id == "b1" then 3 else 0
def ρQ (id : String) : Rat := if id == "b0" then 4 else if id == "c0" then 5 else if id == "b1" then 3 else 0

/-- `b_vals = [3, 4]` (cursor of `b0` at 1, of `b1` at 0), `c_vals = [5]`, output `a_vals = [9, _]`
with its cursor at 1 and its flag still `false`; `bucket_a0_0_1` points at offset 0 of a 6-cell
block whose cell 5 holds 10, with `i_dim = 2`, `j_dim = 3`, `i = 1`, `j = 2` -/
def mkσ {F : Type} (f : Int → F) : State F :=
  ⟨[⟨"b_vals", .ptr .float, some (.ptr 0 0)⟩, ⟨"c_vals", .ptr .float, some (.ptr 1 0)⟩,
    ⟨"p_b0_0", .int, some (.int 1)⟩, ⟨"p_c0_0", .int, some (.int 0)⟩, ⟨"p_b1_0", .int, some (.int 0)⟩,
    ⟨"a_vals", .ptr .float, some (.ptr 2 0)⟩, ⟨"p_a0_0", .int, some (.int 1)⟩,
    ⟨"written_a_0", .bool, some (.bool false)⟩,
    ⟨"bucket_a0_0_1", .ptr .float, some (.ptr 3 0)⟩,
    ⟨"i_dim", .int, some (.int 2)⟩, ⟨"j_dim", .int, some (.int 3)⟩,
    ⟨"i", .int, some (.int 1)⟩, ⟨"j", .int, some (.int 2)⟩],
   [⟨.float, [some (.flt (f 3)), some (.flt (f 4))], .input, true⟩,
    ⟨.float, [some (.flt (f 5))], .input, true⟩,
    ⟨.float, [some (.flt (f 9)), none], .output, true⟩,
    ⟨.float, [some (.flt (f 0)), some (.flt (f 0)), some (.flt (f 0)), some (.flt (f 0)),
      some (.flt (f 0)), some (.flt (f 10))], .output, true⟩], []⟩

def σI : State Int := mkσ id
def σQ : State Rat := mkσ (fun i => (i : Rat))

theorem leafI_b : LeafOK σI ρI tb :=
  LeafOK.intro (b := 0) (p := 1) ⟨_, _, rfl, rfl, rfl⟩ (by simp only [CursorIs, tb]; exact ⟨_, rfl, rfl, rfl⟩)
    (by decide) (by decide) ⟨_, rfl, rfl, rfl, by decide, rfl⟩
theorem leafI_c : LeafOK σI ρI tc :=
  LeafOK.intro (b := 1) (p := 0) ⟨_, _, rfl, rfl, rfl⟩ (by simp only [CursorIs, tc]; exact ⟨_, rfl, rfl, rfl⟩)
    (by decide) (by decide) ⟨_, rfl, rfl, rfl, by decide, rfl⟩
theorem leafI_b' : LeafOK σI ρI tb' :=
  LeafOK.intro (b := 0) (p := 0) ⟨_, _, rfl, rfl, rfl⟩ (by simp only [CursorIs, tb']; exact ⟨_, rfl, rfl, rfl⟩)
    (by decide) (by decide) ⟨_, rfl, rfl, rfl, by decide, rfl⟩

theorem leavesI : ∀ t ∈ leaves eEx, LeafOK σI ρI t := by
  intro t ht
  simp only [eEx, leaves, List.append_nil, List.mem_append, List.mem_singleton] at ht
  rcases ht with rfl | rfl
  · exact leafI_b
  · exact leafI_c

theorem leavesRepI : ∀ t ∈ leaves eRep, LeafOK σI ρI t := by
  intro t ht
  simp only [eRep, leaves, List.mem_append, List.mem_singleton] at ht
  rcases ht with rfl | rfl
  · exact leafI_b
  · exact leafI_b'

theorem leafQ_b : LeafOK σQ ρQ tb :=
  LeafOK.intro (b := 0) (p := 1) ⟨_, _, rfl, rfl, rfl⟩ (by simp only [CursorIs, tb]; exact ⟨_, rfl, rfl, rfl⟩)
    (by decide) (by decide) ⟨_, rfl, rfl, rfl, by decide, rfl⟩
theorem leafQ_c : LeafOK σQ ρQ tc :=
  LeafOK.intro (b := 1) (p := 0) ⟨_, _, rfl, rfl, rfl⟩ (by simp only [CursorIs, tc]; exact ⟨_, rfl, rfl, rfl⟩)
    (by decide) (by decide) ⟨_, rfl, rfl, rfl, by decide, rfl⟩

theorem leavesQ : ∀ t ∈ leaves eEx, LeafOK σQ ρQ t := by
  intro t ht
  simp only [eEx, leaves, List.append_nil, List.mem_append, List.mem_singleton] at ht
  rcases ht with rfl | rfl
  · exact leafQ_b
  · exact leafQ_c

theorem allFinite_int (ofRat : Rat → Int) (ρ : String → Int) (e : IdExpr) : AllFinite ofRat ρ e := by
  unfold AllFinite
  induction e with
  | int v => rfl
  | flt q => rfl
  | tensor t => rfl
  | add l r ihl ihr => simp only [allFinite, ihl, ihr]; rfl
  | mul l r ihl ihr => simp only [allFinite, ihl, ihr]; rfl

theorem valueI : valueF ofRatInt ρI eEx = 22 := by decide
theorem valueRepI : valueF ofRatInt ρI eRep = 12 := by decide
theorem valueQ : value ρQ eEx = 22 := by
  simp only [value, eEx, ρQ, tb, tc]
  simp only [show ("b0" == "b0") = true by decide, show ("c0" == "b0") = false by decide,
    show ("c0" == "c0") = true by decide, if_true, Bool.false_eq_true, if_false]
  grind

/-- the output of the append example -/
theorem outI_ptr : PtrAt σI (valsName ta.name) 2 0 := ⟨_, _, rfl, rfl, rfl⟩
theorem outI_cur : evalE σI (prevLayerPointer ta.id ta.indexes.length : Expr Int) = .ok (.int 1) :=
  evalE_cursor (p := 1) (by simp only [CursorIs, ta]; exact ⟨_, rfl, rfl, rfl⟩) (by decide) (by decide)
theorem outI_cell : OutCell σI 2 (0 + 1) := ⟨_, rfl, rfl, rfl, rfl, by decide, by decide⟩
theorem outI_flags : ∀ f ∈ activeFlags eEx (.append ta ta.indexes.length), FlagVar σI f := by
  intro f hf
  have : f = "written_a_0" := by
    have h : activeFlags eEx (.append ta ta.indexes.length) = ["written_a_0"] := by decide
    rw [h] at hf; simpa using hf
  subst this
  exact ⟨_, rfl, rfl⟩

/-- the output of the bucket example -/
def dvEx (l : Nat) : Int := if l = 0 then 2 else 3
def ivEx (l : Nat) : Int := if l = 0 then 1 else 2

theorem bucketI_ptr : PtrAt σI (bucketName tad [0, 1]) 3 0 := ⟨_, _, rfl, rfl, rfl⟩
theorem bucketI_idx : ∀ l ∈ [0, 1], IntVar σI (dimName (tad.indexes.getD l "")) (dvEx l) ∧
    IntVar σI (tad.indexes.getD l "") (ivEx l) ∧ 0 ≤ ivEx l ∧ ivEx l < dvEx l := by
  intro l hl
  simp only [List.mem_cons, List.not_mem_nil, or_false] at hl
  rcases hl with rfl | rfl
  · exact ⟨⟨_, rfl, rfl, rfl⟩, ⟨_, rfl, rfl, rfl⟩, by decide, by decide⟩
  · exact ⟨⟨_, rfl, rfl, rfl⟩, ⟨_, rfl, rfl, rfl⟩, by decide, by decide⟩
theorem bucketI_ravel : ravelH ([0, 1].map dvEx) ([0, 1].map ivEx) = 5 := by decide
theorem bucketI_cell : OutCell σI 3 (0 + 5) := ⟨_, rfl, rfl, rfl, rfl, by decide, by decide⟩
theorem bucketI_old : FloatCell σI 3 (0 + 5) 10 := ⟨_, rfl, rfl, rfl, by decide, rfl⟩

end TV.ToIr.Ex
