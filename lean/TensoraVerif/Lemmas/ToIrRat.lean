import TensoraVerif.Lemmas.ToIrBasic

/-!
C01, innermost piece, part 2 (E2): the exact-arithmetic machine. `Rat` is a float carrier in which
every value is finite and the operations are the rational ones; there `valueF id ρ e` is the exact
meaning `Graph.value ρ e` used by the specification theorems.
-/
namespace TV.ToIr
open TV.IR TV.Gen TV.Graph TV.Growth

/-- the rationals as an exact float carrier (all values finite, exact operations) -/
instance instFloatOpsRat : FloatOps Rat where
  zero := 0
  one := 1
  add := (· + ·)
  sub := (· - ·)
  mul := (· * ·)
  ofInt := fun i => (i : Rat)
  lt a b := decide (a < b)
  eq a b := decide (a = b)
  finite _ := true

theorem valueF_rat (ρ : String → Rat) (e : IdExpr) : valueF id ρ e = value ρ e := by
  induction e with
  | int v => rfl
  | flt q => rfl
  | tensor t => rfl
  | add l r ihl ihr => simp only [valueF, value, ihl, ihr]; rfl
  | mul l r ihl ihr => simp only [valueF, value, ihl, ihr]; rfl

theorem allFinite_rat (ofRat : Rat → Rat) (ρ : String → Rat) (e : IdExpr) : AllFinite ofRat ρ e := by
  unfold AllFinite
  induction e with
  | int v => rfl
  | flt q => rfl
  | tensor t => rfl
  | add l r ihl ihr => simp only [allFinite, ihl, ihr]; rfl
  | mul l r ihl ihr => simp only [allFinite, ihl, ihr]; rfl

theorem toIr_sound_rat_aux (ρ : String → Rat) (σ : State Rat) (e : IdExpr)
    (hleaf : ∀ t ∈ leaves e, LeafOK σ ρ t) :
    evalE σ (toIrWith id e) = .ok (.flt (value ρ e)) := by
  rw [← valueF_rat]
  exact toIr_sound_aux id ρ σ e hleaf (allFinite_rat id ρ e)

end TV.ToIr
