import TensoraVerif.Lemmas.ToIrBasic

/-!
C01, innermost piece, part 4: evaluation of `ravelIndexes` (the index of a bucket cell) in general.
If every dimension expression evaluates to `d_k`, every index expression to `i_k`, `0 ≤ i_k < d_k`
and the product of the dimensions is `< 2^31`, then `ravelIndexes dims idxs` evaluates (no 32-bit
overflow in any intermediate product or sum) to the row-major linearisation
`(((i_1) * d_2 + i_2) * d_3 + …) + i_n`, which is `< d_1 * … * d_n`.
-/
namespace TV.ToIr
open TV.IR TV.Gen TV.Graph TV.Growth

set_option linter.unusedSectionVars false
variable {F : Type} [FloatOps F]

/-! ### integer lists -/

def lprod : List Int → Int
  | [] => 1
  | d :: ds => d * lprod ds

def lsum : List Int → Int
  | [] => 0
  | d :: ds => d + lsum ds

theorem lsum_append (a b : List Int) : lsum (a ++ b) = lsum a + lsum b := by
  induction a with
  | nil => simp [lsum]
  | cons x a ih => simp only [List.cons_append, lsum, ih]; omega

theorem lsum_reverse (a : List Int) : lsum a.reverse = lsum a := by
  induction a with
  | nil => rfl
  | cons x a ih => simp only [List.reverse_cons, lsum_append, ih, lsum]; omega

theorem lsum_nonneg {l : List Int} (h : ∀ s ∈ l, 0 ≤ s) : 0 ≤ lsum l := by
  induction l with
  | nil => simp [lsum]
  | cons x l ih =>
    have := h x (List.mem_cons_self ..)
    have := ih (fun s hs => h s (List.mem_cons_of_mem _ hs))
    simp only [lsum]; omega

theorem lprod_pos {l : List Int} (h : ∀ s ∈ l, 1 ≤ s) : 1 ≤ lprod l := by
  induction l with
  | nil => simp [lprod]
  | cons x l ih =>
    have hx := h x (List.mem_cons_self ..)
    have hl := ih (fun s hs => h s (List.mem_cons_of_mem _ hs))
    have := Int.mul_le_mul hx hl (by omega) (by omega)
    simp only [lprod]; omega

theorem lprod_append (a b : List Int) : lprod (a ++ b) = lprod a * lprod b := by
  induction a with
  | nil => simp [lprod]
  | cons x a ih => simp only [List.cons_append, lprod, ih, Int.mul_assoc]

theorem foldl_mul_eq (a : Int) (l : List Int) : l.foldl (· * ·) a = a * lprod l := by
  induction l generalizing a with
  | nil => simp [lprod]
  | cons x l ih => simp only [List.foldl_cons, ih, lprod, Int.mul_assoc]

theorem foldl_add_eq (a : Int) (l : List Int) : l.foldl (· + ·) a = a + lsum l := by
  induction l generalizing a with
  | nil => simp [lsum]
  | cons x l ih => simp only [List.foldl_cons, ih, lsum]; omega

/-- every intermediate result of the left fold of `op` over `vs` from `a` is a 32-bit integer -/
def FoldOK (op : Int → Int → Int) : Int → List Int → Prop
  | _, [] => True
  | a, v :: vs => inI32 (op a v) = true ∧ FoldOK op (op a v) vs

theorem foldOK_mul {a : Int} {l : List Int} (ha : 0 ≤ a) (hl : ∀ s ∈ l, 1 ≤ s)
    (hB : a * lprod l < 2147483648) : FoldOK (· * ·) a l := by
  induction l generalizing a with
  | nil => trivial
  | cons x l ih =>
    have hx := hl x (List.mem_cons_self ..)
    have hl' : ∀ s ∈ l, 1 ≤ s := fun s hs => hl s (List.mem_cons_of_mem _ hs)
    have hp := lprod_pos hl'
    have hax : 0 ≤ a * x := Int.mul_nonneg ha (by omega)
    have hB' : a * x * lprod l < 2147483648 := by
      simp only [lprod] at hB; rwa [Int.mul_assoc]
    have hle : a * x ≤ a * x * lprod l := by
      have := Int.mul_le_mul (Int.le_refl (a * x)) hp (by omega) hax
      omega
    exact ⟨inI32_of (by show -2147483648 ≤ a * x; omega) (by show a * x < 2147483648; omega), ih hax hl' hB'⟩

theorem foldOK_add {a : Int} {l : List Int} (ha : 0 ≤ a) (hl : ∀ s ∈ l, 0 ≤ s)
    (hB : a + lsum l < 2147483648) : FoldOK (· + ·) a l := by
  induction l generalizing a with
  | nil => trivial
  | cons x l ih =>
    have hx := hl x (List.mem_cons_self ..)
    have hl' : ∀ s ∈ l, 0 ≤ s := fun s hs => hl s (List.mem_cons_of_mem _ hs)
    have hs := lsum_nonneg hl'
    simp only [lsum] at hB
    exact ⟨inI32_of (by show -2147483648 ≤ a + x; omega) (by show a + x < 2147483648; omega),
      ih (a := a + x) (by omega) hl' (by omega)⟩

/-! ### evaluating joins -/

/-- the expressions `es` evaluate, one by one, to the integers `vs` -/
def EvalsInt (σ : State F) : List (Expr F) → List Int → Prop
  | [], [] => True
  | e :: es, v :: vs => evalE σ e = .ok (.int v) ∧ EvalsInt σ es vs
  | _, _ => False

theorem EvalsInt.append {σ : State F} {es fs : List (Expr F)} {vs ws : List Int}
    (h1 : EvalsInt σ es vs) (h2 : EvalsInt σ fs ws) : EvalsInt σ (es ++ fs) (vs ++ ws) := by
  induction es generalizing vs with
  | nil =>
    cases vs with
    | nil => exact h2
    | cons _ _ => exact absurd h1 (by simp [EvalsInt])
  | cons e es ih =>
    cases vs with
    | nil => exact absurd h1 (by simp [EvalsInt])
    | cons v vs => exact ⟨h1.1, ih h1.2⟩

theorem EvalsInt.reverse {σ : State F} {es : List (Expr F)} {vs : List Int}
    (h : EvalsInt σ es vs) : EvalsInt σ es.reverse vs.reverse := by
  induction es generalizing vs with
  | nil =>
    cases vs with
    | nil => exact h
    | cons _ _ => exact absurd h (by simp [EvalsInt])
  | cons e es ih =>
    cases vs with
    | nil => exact absurd h (by simp [EvalsInt])
    | cons v vs =>
      simp only [List.reverse_cons]
      exact (ih h.2).append ⟨h.1, trivial⟩

theorem evalE_imul {σ : State F} {l r : Expr F} {x y : Int} (hl : evalE σ l = .ok (.int x))
    (hr : evalE σ r = .ok (.int y)) (h : inI32 (x * y) = true) :
    evalE σ (.bin .mul l r) = .ok (.int (x * y)) := by
  simp [evalE, hl, hr, bind, Except.bind, binVal, Val.toNum, numOp, chkInt, h]

theorem evalE_iadd {σ : State F} {l r : Expr F} {x y : Int} (hl : evalE σ l = .ok (.int x))
    (hr : evalE σ r = .ok (.int y)) (h : inI32 (x + y) = true) :
    evalE σ (.bin .add l r) = .ok (.int (x + y)) := by
  simp [evalE, hl, hr, bind, Except.bind, binVal, Val.toNum, numOp, chkInt, h]

theorem evalE_foldl_imul {σ : State F} (es : List (Expr F)) (vs : List Int) (acc : Expr F) (a : Int)
    (hacc : evalE σ acc = .ok (.int a)) (hes : EvalsInt σ es vs) (hok : FoldOK (· * ·) a vs) :
    evalE σ (es.foldl (.bin .mul) acc) = .ok (.int (vs.foldl (· * ·) a)) := by
  induction es generalizing vs acc a with
  | nil =>
    cases vs with
    | nil => exact hacc
    | cons _ _ => exact absurd hes (by simp [EvalsInt])
  | cons e es ih =>
    cases vs with
    | nil => exact absurd hes (by simp [EvalsInt])
    | cons v vs => exact ih vs _ _ (evalE_imul hacc hes.1 hok.1) hes.2 hok.2

theorem evalE_foldl_iadd {σ : State F} (es : List (Expr F)) (vs : List Int) (acc : Expr F) (a : Int)
    (hacc : evalE σ acc = .ok (.int a)) (hes : EvalsInt σ es vs) (hok : FoldOK (· + ·) a vs) :
    evalE σ (es.foldl (.bin .add) acc) = .ok (.int (vs.foldl (· + ·) a)) := by
  induction es generalizing vs acc a with
  | nil =>
    cases vs with
    | nil => exact hacc
    | cons _ _ => exact absurd hes (by simp [EvalsInt])
  | cons e es ih =>
    cases vs with
    | nil => exact absurd hes (by simp [EvalsInt])
    | cons v vs => exact ih vs _ _ (evalE_iadd hacc hes.1 hok.1) hes.2 hok.2

/-! ### the fold of `ravelIndexes` -/

section ravel
variable {α : Type}

/-- one step of the fold of `ravelIndexes`, over an index type `α` carrying both expressions -/
def ravelStepE (dE iE : α → Expr F) (acc : List (Expr F) × List (Expr F)) (x : α) :
    List (Expr F) × List (Expr F) :=
  (acc.1 ++ [mulJoin (iE x :: acc.2)], acc.2 ++ [dE x])

theorem ravelIndexes_map (L : List α) (dE iE : α → Expr F) :
    ravelIndexes (L.map dE) (L.map iE) =
      addJoin (L.reverse.foldl (ravelStepE dE iE) ([], [])).1.reverse := by
  unfold ravelIndexes
  rw [← List.map_reverse, ← List.map_reverse, List.zip_map', List.foldl_map]
  rfl

/-- the (sum, stride) pair of the little-endian linearisation -/
def linStep (dV iV : α → Int) (SP : Int × Int) (x : α) : Int × Int :=
  (SP.1 + iV x * SP.2, SP.2 * dV x)

theorem linStep_fold_snd (dV iV : α → Int) (R : List α) (S P : Int) :
    (R.foldl (linStep dV iV) (S, P)).2 = P * lprod (R.map dV) := by
  induction R generalizing S P with
  | nil => simp [lprod]
  | cons x R ih => simp only [List.foldl_cons, linStep, ih, List.map_cons, lprod, Int.mul_assoc]

theorem ravel_fold {σ : State F} (dE iE : α → Expr F) (dV iV : α → Int) (R : List α)
    (hR : ∀ x ∈ R, evalE σ (dE x) = .ok (.int (dV x)) ∧ evalE σ (iE x) = .ok (.int (iV x)) ∧
      0 ≤ iV x ∧ iV x < dV x)
    (termsE seenE : List (Expr F)) (termsV seenV : List Int)
    (ht : EvalsInt σ termsE termsV) (hs : EvalsInt σ seenE seenV)
    (hs1 : ∀ s ∈ seenV, 1 ≤ s) (ht0 : ∀ s ∈ termsV, 0 ≤ s)
    (hSP : lsum termsV < lprod seenV)
    (hB : lprod seenV * lprod (R.map dV) < 2147483648) :
    ∃ tv, EvalsInt σ (R.foldl (ravelStepE dE iE) (termsE, seenE)).1 tv ∧ (∀ s ∈ tv, 0 ≤ s) ∧
      lsum tv = (R.foldl (linStep dV iV) (lsum termsV, lprod seenV)).1 ∧
      lsum tv < lprod seenV * lprod (R.map dV) := by
  induction R generalizing termsE seenE termsV seenV with
  | nil => exact ⟨termsV, ht, ht0, rfl, by simpa [lprod] using hSP⟩
  | cons x R ih =>
    obtain ⟨hd, hi, hi0, hid⟩ := hR x (List.mem_cons_self ..)
    have hR' : ∀ y ∈ R, _ := fun y hy => hR y (List.mem_cons_of_mem _ hy)
    have hP := lprod_pos hs1
    have hQ : 1 ≤ lprod (R.map dV) := by
      apply lprod_pos
      intro s hs
      obtain ⟨y, hy, rfl⟩ := List.mem_map.mp hs
      have := hR' y hy
      omega
    simp only [List.map_cons, lprod] at hB
    -- arithmetic facts: P = lprod seenV, d = dV x, i = iV x, Q = lprod (R.map dV)
    have hPd : 0 ≤ lprod seenV * dV x := Int.mul_nonneg (by omega) (by omega)
    have hPdQ : lprod seenV * dV x ≤ lprod seenV * dV x * lprod (R.map dV) := by
      have := Int.mul_le_mul (Int.le_refl (lprod seenV * dV x)) hQ (by omega) hPd
      omega
    have hB' : lprod seenV * dV x * lprod (R.map dV) < 2147483648 := by
      rwa [Int.mul_assoc]
    have hiP : iV x * lprod seenV + lprod seenV ≤ lprod seenV * dV x := by
      have h1 : (iV x + 1) * lprod seenV ≤ dV x * lprod seenV :=
        Int.mul_le_mul_of_nonneg_right (by omega) (by omega)
      rw [Int.add_mul, Int.one_mul, Int.mul_comm (dV x)] at h1
      exact h1
    have hiP0 : 0 ≤ iV x * lprod seenV := Int.mul_nonneg hi0 (by omega)
    have hdP : dV x ≤ lprod seenV * dV x := by
      have := Int.mul_le_mul hP (Int.le_refl (dV x)) (by omega) (by omega)
      omega
    -- the new term
    have hterm : evalE σ (mulJoin (iE x :: seenE)) = .ok (.int (iV x * lprod seenV)) := by
      have h1 : evalE σ (.bin .mul (.intLit 1) (iE x)) = .ok (.int (1 * iV x)) :=
        evalE_imul (evalE_intLit (by omega) (by omega)) hi
          (inI32_of (by omega) (by omega))
      have := evalE_foldl_imul seenE seenV _ _ h1 hs
        (foldOK_mul (by omega) hs1 (by rw [Int.one_mul]; omega))
      rw [foldl_mul_eq, Int.one_mul] at this
      exact this
    have := ih hR' (termsE ++ [mulJoin (iE x :: seenE)]) (seenE ++ [dE x])
      (termsV ++ [iV x * lprod seenV]) (seenV ++ [dV x])
      (ht.append ⟨hterm, trivial⟩) (hs.append ⟨hd, trivial⟩)
      (by
        intro s hs
        rcases List.mem_append.mp hs with h | h
        · exact hs1 s h
        · simp at h; omega)
      (by
        intro s hs
        rcases List.mem_append.mp hs with h | h
        · exact ht0 s h
        · simp at h; omega)
      (by
        rw [lsum_append, lprod_append]
        simp only [lsum, lprod, Int.mul_one, Int.add_zero]
        omega)
      (by
        rw [lprod_append]
        simp only [lprod, Int.mul_one]
        exact hB')
    obtain ⟨tv, h1, h2, h3, h4⟩ := this
    refine ⟨tv, h1, h2, ?_, ?_⟩
    · rw [h3, lsum_append, lprod_append]
      simp only [lsum, lprod, Int.mul_one, Int.add_zero, List.foldl_cons, linStep]
    · rw [lprod_append] at h4
      simp only [lprod, Int.mul_one] at h4
      simp only [List.map_cons, lprod]
      rw [← Int.mul_assoc]
      exact h4

/-- row-major (Horner) linearisation `((i_1 * d_2 + i_2) * d_3 + …) + i_n` -/
def ravelH (ds is : List Int) : Int := (ds.zip is).foldl (fun acc di => acc * di.1 + di.2) 0

/-- the linearisation as a right fold over the carrier list -/
def linR (dV iV : α → Int) : List α → Int × Int
  | [] => (0, 1)
  | x :: L => ((linR dV iV L).1 + iV x * (linR dV iV L).2, (linR dV iV L).2 * dV x)

theorem foldl_reverse_linStep (dV iV : α → Int) (L : List α) :
    L.reverse.foldl (linStep dV iV) (0, 1) = linR dV iV L := by
  induction L with
  | nil => rfl
  | cons x L ih => simp only [List.reverse_cons, List.foldl_append, List.foldl_cons, List.foldl_nil, ih, linStep, linR]

theorem horner_linR (dV iV : α → Int) (L : List α) (acc : Int) :
    ((L.map dV).zip (L.map iV)).foldl (fun acc di => acc * di.1 + di.2) acc =
      acc * (linR dV iV L).2 + (linR dV iV L).1 := by
  induction L generalizing acc with
  | nil => simp [linR]
  | cons x L ih =>
    simp only [List.map_cons, List.zip_cons_cons, List.foldl_cons, ih, linR]
    grind

theorem ravelH_eq_linR (dV iV : α → Int) (L : List α) :
    ravelH (L.map dV) (L.map iV) = (linR dV iV L).1 := by
  unfold ravelH
  rw [horner_linR]
  omega

/-- **`ravelIndexes` in general.** -/
theorem evalE_ravelIndexes {σ : State F} (L : List α) (dE iE : α → Expr F) (dV iV : α → Int)
    (h : ∀ x ∈ L, evalE σ (dE x) = .ok (.int (dV x)) ∧ evalE σ (iE x) = .ok (.int (iV x)) ∧
      0 ≤ iV x ∧ iV x < dV x)
    (hB : lprod (L.map dV) < 2147483648) :
    evalE σ (ravelIndexes (L.map dE) (L.map iE)) = .ok (.int (ravelH (L.map dV) (L.map iV))) ∧
      0 ≤ ravelH (L.map dV) (L.map iV) ∧ ravelH (L.map dV) (L.map iV) < lprod (L.map dV) := by
  have hrev : lprod (L.reverse.map dV) = lprod (L.map dV) := by
    have := linStep_fold_snd dV iV L.reverse 0 1
    rw [foldl_reverse_linStep] at this
    have h2 : (linR dV iV L).2 = lprod (L.map dV) := by
      clear this h hB
      induction L with
      | nil => rfl
      | cons x L ih => simp only [linR, ih, List.map_cons, lprod, Int.mul_comm]
    omega
  obtain ⟨tv, h1, h2, h3, h4⟩ := ravel_fold (σ := σ) dE iE dV iV L.reverse
    (fun x hx => h x (List.mem_reverse.mp hx)) [] [] [] [] trivial trivial
    (by simp) (by simp) (by simp [lsum, lprod]) (by simp only [lprod, Int.one_mul]; omega)
  simp only [lsum, lprod, Int.one_mul, foldl_reverse_linStep] at h3 h4
  rw [hrev] at h4
  have h0 := lsum_nonneg h2
  rw [ravelIndexes_map, ravelH_eq_linR, ← h3]
  refine ⟨?_, h0, h4⟩
  have := evalE_foldl_iadd (σ := σ) _ _ (.intLit 0) 0 (evalE_intLit (by omega) (by omega)) h1.reverse
    (foldOK_add (by omega) (by intro s hs; exact h2 s (List.mem_reverse.mp hs))
      (by rw [lsum_reverse]; omega))
  rw [foldl_add_eq, lsum_reverse, Int.zero_add] at this
  exact this

end ravel

end TV.ToIr
