import TensoraVerif.Lemmas.ToIrBasic
import TensoraVerif.Lemmas.PeepholeStore

/-!
C01, innermost piece, part 3 (E3): the statement emitted by `Output.writeAssignment` runs on the
machine and stores the carrier meaning of the expression in the addressed output cell
(`out_vals[p] = rhs` for an append output, `bucket[ravel] += rhs` for a bucket output), changing
nothing else.
-/
namespace TV.ToIr
open TV.IR TV.Gen TV.Graph TV.Growth

set_option linter.unusedSectionVars false
variable {F : Type} [FloatOps F]

/-! ### writing one cell -/

/-- the state `σ` with cell `k` of block `b` overwritten by `v`, everything else as in `σ` -/
def writeCell (σ : State F) (b : Nat) (k : Int) (v : Val F) : State F :=
  match σ.heap[b]? with
  | some blk => { σ with heap := σ.heap.set b { blk with cells := blk.cells.set k.toNat (some v) } }
  | none => σ

/-- cell `k` of block `b` may be stored to with a float: the block is live, output-owned, of
element type float, and `0 ≤ k < length` -/
def OutCell (σ : State F) (b : Nat) (k : Int) : Prop :=
  ∃ blk, σ.heap[b]? = some blk ∧ blk.live = true ∧ blk.owner = .output ∧ blk.ty = .float ∧
    0 ≤ k ∧ k < blk.cells.length

/-- "`σ'` is `σ` with cell `k` of block `b` set to `v`, nothing else changed", spelled out -/
structure CellPost (σ σ' : State F) (b : Nat) (k : Int) (v : Val F) : Prop where
  vars : σ'.vars = σ.vars
  tensors : σ'.tensors = σ.tensors
  len : σ'.heap.length = σ.heap.length
  other : ∀ b', b' ≠ b → σ'.heap[b']? = σ.heap[b']?
  blk : ∃ blk blk', σ.heap[b]? = some blk ∧ σ'.heap[b]? = some blk' ∧
    blk'.ty = blk.ty ∧ blk'.owner = blk.owner ∧ blk'.live = blk.live ∧
    blk'.cells.length = blk.cells.length ∧
    blk'.cells[k.toNat]? = some (some v) ∧
    ∀ j, j ≠ k.toNat → blk'.cells[j]? = blk.cells[j]?

theorem writeCell_vars (σ : State F) (b : Nat) (k : Int) (v : Val F) :
    (writeCell σ b k v).vars = σ.vars := by
  unfold writeCell; split <;> rfl

theorem writeCell_tensors (σ : State F) (b : Nat) (k : Int) (v : Val F) :
    (writeCell σ b k v).tensors = σ.tensors := by
  unfold writeCell; split <;> rfl

theorem writeCell_post {σ : State F} {b : Nat} {k : Int} (h : OutCell σ b k) (v : Val F) :
    CellPost σ (writeCell σ b k v) b k v := by
  obtain ⟨blk, e1, _, _, _, k0, k1⟩ := h
  have hb : b < σ.heap.length := by
    obtain ⟨h, _⟩ := List.getElem?_eq_some_iff.mp e1; exact h
  have hk : k.toNat < blk.cells.length := by omega
  refine ⟨writeCell_vars .., writeCell_tensors .., ?_, ?_, ?_⟩
  · simp [writeCell, e1]
  · intro b' hb'
    simp only [writeCell, e1]
    rw [List.getElem?_set_ne (Ne.symm hb')]
  · refine ⟨blk, { blk with cells := blk.cells.set k.toNat (some v) }, e1, ?_, rfl, rfl, rfl, ?_, ?_, ?_⟩
    · simp only [writeCell, e1]
      rw [List.getElem?_set_self hb]
    · simp
    · simp [hk]
    · intro j hj
      simp only []
      rw [List.getElem?_set_ne (Ne.symm hj)]

theorem CellPost.floatCell_same {σ σ' : State F} {b : Nat} {k : Int} {x : F}
    (h : CellPost σ σ' b k (.flt x)) (ho : OutCell σ b k) : FloatCell σ' b k x := by
  obtain ⟨blk, e1, l1, _, t1, k0, _⟩ := ho
  obtain ⟨blk0, blk', f1, f2, f3, _, f5, _, f7, _⟩ := h.blk
  rw [e1] at f1; cases f1
  exact ⟨blk', f2, by rw [f5, l1], by rw [f3, t1], k0, f7⟩

theorem CellPost.floatCell_other {σ σ' : State F} {b : Nat} {k : Int} {v : Val F}
    (h : CellPost σ σ' b k v) (k0 : 0 ≤ k) {b' : Nat} {k' : Int} {y : F}
    (hc : FloatCell σ b' k' y) (hne : b' ≠ b ∨ k' ≠ k) : FloatCell σ' b' k' y := by
  obtain ⟨blk, e1, e2, e3, e4, e5⟩ := hc
  by_cases hb : b' = b
  · subst hb
    obtain ⟨blk0, blk', f1, f2, f3, _, f5, _, _, f8⟩ := h.blk
    rw [e1] at f1; cases f1
    have hk : k'.toNat ≠ k.toNat := by
      rcases hne with h | h
      · exact absurd rfl h
      · omega
    exact ⟨blk', f2, by rw [f5, e2], by rw [f3, e3], e4, by rw [f8 _ hk, e5]⟩
  · exact ⟨blk, by rw [h.other _ hb, e1], e2, e3, e4, e5⟩

/-! ### the two stores -/

theorem store_cell_flt {σ : State F} {b : Nat} {k : Int} (h : OutCell σ b k) (x : F) :
    store σ (.cell b k) (.flt x) = .ok (writeCell σ b k (.flt x)) := by
  obtain ⟨blk, e1, e2, e3, e4, k0, k1⟩ := h
  have hk : ¬ (k < 0) := by omega
  have hk' : ¬ ((blk.len : Int) ≤ k) := by unfold Block.len; omega
  simp [store, writeCell, e1, e2, e3, e4, hk, hk', convElem, bind, Except.bind]

/-- `a[i] = rhs` for a float cell -/
theorem Runs.assign_cell {fuel : Nat} {σ : State F} {a i rhs : Expr F} {b : Nat} {off p : Int} {x : F}
    (ha : evalE σ a = .ok (.ptr b off)) (hi : evalE σ i = .ok (.int p))
    (hr : evalE σ rhs = .ok (.flt x)) (hc : OutCell σ b (off + p)) :
    Runs fuel (.assign (.idx a i) rhs) σ (writeCell σ b (off + p) (.flt x)) := by
  refine ⟨⟨writeCell σ b (off + p) (.flt x), none, 0, 1⟩, ?_, rfl, rfl⟩
  rw [exec.eq_3, evalRhs_of_ok hr]
  simp [bind, Except.bind, evalLoc, ha, hi, store_cell_flt hc]

/-- `a[i] += rhs` (`Assignable.increment`) for a float cell holding the finite value `w` -/
theorem Runs.increment_cell {fuel : Nat} {σ : State F} {a i rhs : Expr F} {b : Nat} {off p : Int}
    {w x : F} (ha : evalE σ a = .ok (.ptr b off)) (hi : evalE σ i = .ok (.int p))
    (hr : evalE σ rhs = .ok (.flt x)) (hc : OutCell σ b (off + p))
    (hw : FloatCell σ b (off + p) w) (hwf : FloatOps.finite w = true)
    (hs : FloatOps.finite (FloatOps.add w x) = true) :
    Runs fuel (increment (.idx a i) rhs) σ (writeCell σ b (off + p) (.flt (FloatOps.add w x))) :=
  Runs.assign_cell ha hi (evalE_fadd (evalE_idx_floatCell ha hi hw hwf) hr hs) hc

/-! ### E3, append output -/

theorem writeAssignment_append_eq (t : TensorId) (rhs : Expr F) :
    (Output.append t t.indexes.length).writeAssignment rhs =
      .ok ⟨none, [.assign (.idx (.var (valsName t.name)) (prevLayerPointer t.id t.indexes.length)) rhs]⟩ := by
  simp [Output.writeAssignment, SB.empty, SB.add]

theorem writeAssignment_bucket_eq (t : TensorId) (layers : List Nat) (rhs : Expr F) :
    (Output.bucket t layers).writeAssignment rhs =
      .ok ⟨none, [increment (.idx (.var (bucketName t layers))
        (ravelIndexes (bucketDims t layers) (layers.map fun l => .var (t.indexes.getD l "")))) rhs]⟩ := by
  simp [Output.writeAssignment, SB.empty, SB.add]

theorem writeAssignment_append_runs (ofRat : Rat → F) (ρ : String → F) (σ : State F) (e : IdExpr)
    (t : TensorId) (fuel : Nat) (bo : Nat) (off p : Int)
    (hleaf : ∀ t ∈ leaves e, LeafOK σ ρ t) (hfin : AllFinite ofRat ρ e)
    (hout : PtrAt σ (valsName t.name) bo off)
    (hcur : evalE σ (prevLayerPointer t.id t.indexes.length : Expr F) = .ok (.int p))
    (hcell : OutCell σ bo (off + p)) :
    Runs fuel (.assign (.idx (.var (valsName t.name)) (prevLayerPointer t.id t.indexes.length))
        (toIrWith ofRat e)) σ (writeCell σ bo (off + p) (.flt (valueF ofRat ρ e))) :=
  Runs.assign_cell (evalE_var_ptrAt hout) hcur (toIr_sound_aux ofRat ρ σ e hleaf hfin) hcell

theorem writeAssignment_bucket_runs (ofRat : Rat → F) (ρ : String → F) (σ : State F) (e : IdExpr)
    (t : TensorId) (layers : List Nat) (fuel : Nat) (bo : Nat) (off k : Int) (w : F)
    (hleaf : ∀ t ∈ leaves e, LeafOK σ ρ t) (hfin : AllFinite ofRat ρ e)
    (hout : PtrAt σ (bucketName t layers) bo off)
    (hidx : evalE σ (ravelIndexes (bucketDims t layers)
      (layers.map fun l => (.var (t.indexes.getD l "") : Expr F))) = .ok (.int k))
    (hcell : OutCell σ bo (off + k)) (hw : FloatCell σ bo (off + k) w)
    (hwf : FloatOps.finite w = true)
    (hs : FloatOps.finite (FloatOps.add w (valueF ofRat ρ e)) = true) :
    Runs fuel (increment (.idx (.var (bucketName t layers))
        (ravelIndexes (bucketDims t layers) (layers.map fun l => .var (t.indexes.getD l ""))))
        (toIrWith ofRat e)) σ
      (writeCell σ bo (off + k) (.flt (FloatOps.add w (valueF ofRat ρ e)))) :=
  Runs.increment_cell (evalE_var_ptrAt hout) hidx (toIr_sound_aux ofRat ρ σ e hleaf hfin) hcell hw hwf hs

/-- a one-statement builder without comment, run as the list of its lines (which is how
`SB.append` inlines it into the terminal block) and as its own block -/
theorem runs_single {fuel : Nat} {s : Stmt F} {σ σ' : State F} (h : Runs fuel s σ σ') :
    RunsL fuel (⟨none, [s]⟩ : SB F).lines σ σ' ∧ Runs fuel (⟨none, [s]⟩ : SB F).finalize σ σ' :=
  ⟨RunsL.cons h (RunsL.nil ..), Runs.block (RunsL.cons h (RunsL.nil ..))⟩

end TV.ToIr
