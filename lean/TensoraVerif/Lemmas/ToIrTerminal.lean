import TensoraVerif.Lemmas.ToIrStore
import TensoraVerif.Lemmas.ToIrRavel
import TensoraVerif.Lemmas.GrowthNames

/-!
C01, innermost piece, part 5 (E3 bucket in general, E4): the whole terminal block emitted by
`lower … (.terminal e)`: the `written_*` flags are set to `true` exactly when `e` is not the
literal `Integer 0`, then the right-hand side is stored. Setting the flags does not disturb the
hypotheses of the store, because the flag names differ from every name the store reads — proved
from the naming scheme.
-/
namespace TV.ToIr
open TV.IR TV.Gen TV.Graph TV.Growth

set_option linter.unusedSectionVars false
variable {F : Type} [FloatOps F]

/-! ### frame: evaluation only depends on the variables mentioned -/

theorem evalE_agree {σ σ' : State F} (hh : σ'.heap = σ.heap) (ht : σ'.tensors = σ.tensors)
    (e : Expr F) (hv : ∀ y, e.mentions y = true → lookupVar σ'.vars y = lookupVar σ.vars y) :
    evalE σ' e = evalE σ e := by
  obtain ⟨v, h, t⟩ := σ
  obtain ⟨v', h', t'⟩ := σ'
  simp only at hh ht hv
  subst hh ht
  induction e with
  | var n => simp only [evalE, hv n (by simp [Expr.mentions])]
  | attr t a ih => simp only [evalE, ih (fun y hy => hv y (by simpa [Expr.mentions] using hy))]
  | idx t i iht ihi =>
    simp only [evalE, iht (fun y hy => hv y (by simp [Expr.mentions, hy])),
      ihi (fun y hy => hv y (by simp [Expr.mentions, hy])), readBlock]
  | intLit v => rfl
  | floatLit v => rfl
  | boolLit b => rfl
  | bin op l r ihl ihr =>
    have h1 := ihl (fun y hy => hv y (by simp [Expr.mentions, hy]))
    have h2 := ihr (fun y hy => hv y (by simp [Expr.mentions, hy]))
    cases op <;> simp only [evalE, h1, h2]
  | b2i e ih => simp only [evalE, ih (fun y hy => hv y (by simpa [Expr.mentions] using hy))]
  | alloc t n => rfl
  | realloc o t n => rfl

/-! ### the flags -/

/-- `f` is a declared `bool` variable -/
def FlagVar (σ : State F) (f : String) : Prop :=
  ∃ r, lookupVar σ.vars f = some r ∧ r.ty = .bool

/-- `f` is a declared `bool` variable holding `true` -/
def FlagTrue (σ : State F) (f : String) : Prop :=
  ∃ r, lookupVar σ.vars f = some r ∧ r.ty = .bool ∧ r.val = some (.bool true)

/-- `σ` with every variable of `fl` set to `true`, in order -/
def setFlags (σ : State F) (fl : List String) : State F :=
  { σ with vars := fl.foldl (fun vs f => setVar vs f (.bool true)) σ.vars }

theorem setFlags_nil (σ : State F) : setFlags σ [] = σ := rfl

theorem setFlags_cons (σ : State F) (f : String) (fl : List String) :
    setFlags σ (f :: fl) = setFlags { σ with vars := setVar σ.vars f (.bool true) } fl := rfl

theorem setFlags_heap (σ : State F) (fl : List String) : (setFlags σ fl).heap = σ.heap := rfl
theorem setFlags_tensors (σ : State F) (fl : List String) : (setFlags σ fl).tensors = σ.tensors := rfl

theorem setFlags_lookup_other (σ : State F) (fl : List String) (y : String) (hy : y ∉ fl) :
    lookupVar (setFlags σ fl).vars y = lookupVar σ.vars y := by
  induction fl generalizing σ with
  | nil => rfl
  | cons f fl ih =>
    rw [setFlags_cons, ih _ (fun h => hy (List.mem_cons_of_mem _ h))]
    exact lookupVar_setVar_other _ (fun h => hy (h ▸ List.mem_cons_self ..))

theorem FlagVar.setVar {σ : State F} {f : String} (h : FlagVar σ f) (g : String) (v : Val F) :
    FlagVar { σ with vars := setVar σ.vars g v } f := by
  obtain ⟨r, e1, e2⟩ := h
  by_cases hg : f = g
  · subst hg
    exact ⟨_, lookupVar_setVar_same v e1, e2⟩
  · exact ⟨r, (lookupVar_setVar_other v hg).trans e1, e2⟩

theorem FlagTrue.setVar {σ : State F} {f : String} (h : FlagTrue σ f) (g : String) :
    FlagTrue { σ with vars := setVar σ.vars g (.bool true) } f := by
  obtain ⟨r, e1, e2, e3⟩ := h
  by_cases hg : f = g
  · subst hg
    exact ⟨{ r with val := some (.bool true) }, lookupVar_setVar_same _ e1, e2, rfl⟩
  · exact ⟨r, (lookupVar_setVar_other _ hg).trans e1, e2, e3⟩

theorem FlagTrue.setFlags {σ : State F} {f : String} (h : FlagTrue σ f) (fl : List String) :
    FlagTrue (setFlags σ fl) f := by
  induction fl generalizing σ with
  | nil => exact h
  | cons g fl ih => rw [setFlags_cons]; exact ih (h.setVar g)

theorem setFlags_true {σ : State F} {fl : List String} (h : ∀ f ∈ fl, FlagVar σ f) :
    ∀ f ∈ fl, FlagTrue (setFlags σ fl) f := by
  induction fl generalizing σ with
  | nil => intro f hf; cases hf
  | cons g fl ih =>
    intro f hf
    rw [setFlags_cons]
    rcases List.mem_cons.mp hf with rfl | hf'
    · obtain ⟨r, e1, e2⟩ := h f (List.mem_cons_self ..)
      exact FlagTrue.setFlags ⟨{ r with val := some (.bool true) }, lookupVar_setVar_same _ e1, e2, rfl⟩ fl
    · exact ih (fun f' hf'' => (h f' (List.mem_cons_of_mem _ hf'')).setVar g _) f hf'

/-- `written = true;` -/
def flagStmt (f : String) : Stmt F := .assign (.var f) (.boolLit true)

theorem flagStmt_runs {fuel : Nat} {σ : State F} {f : String} (h : FlagVar σ f) :
    Runs fuel (flagStmt f) σ { σ with vars := setVar σ.vars f (.bool true) } := by
  obtain ⟨r, e1, e2⟩ := h
  refine ⟨⟨{ σ with vars := setVar σ.vars f (.bool true) }, none, 0, 1⟩, ?_, rfl, rfl⟩
  unfold flagStmt
  rw [exec.eq_3, evalRhs_of_ok (v := .bool true) (by simp [evalE])]
  simp [bind, Except.bind, evalLoc, store, e1, e2, convTo]

theorem flags_run {fuel : Nat} {σ : State F} {fl : List String} (h : ∀ f ∈ fl, FlagVar σ f) :
    RunsL fuel (fl.map flagStmt) σ (setFlags σ fl) := by
  induction fl generalizing σ with
  | nil => exact RunsL.nil ..
  | cons g fl ih =>
    rw [setFlags_cons]
    exact RunsL.cons (flagStmt_runs (h g (List.mem_cons_self ..)))
      (ih (fun f hf => (h f (List.mem_cons_of_mem _ hf)).setVar g _))

theorem RunsL.append' {fuel : Nat} {ss ts : List (Stmt F)} {σ σ1 σ2 : State F}
    (h1 : RunsL fuel ss σ σ1) (h2 : RunsL fuel ts σ1 σ2) : RunsL fuel (ss ++ ts) σ σ2 := by
  induction ss generalizing σ with
  | nil =>
    obtain ⟨o, e, _, s⟩ := h1
    rw [execL.eq_1] at e
    cases e
    subst s
    exact h2
  | cons s ss ih =>
    obtain ⟨o, e, r, st⟩ := h1
    rw [execL.eq_2] at e
    obtain ⟨o1, e1, e⟩ := Frame.bind_ok e
    cases hr : o1.ret with
    | some v =>
      simp only [hr] at e
      cases e
      rw [hr] at r; cases r
    | none =>
      simp only [hr] at e
      obtain ⟨o2, e2, e⟩ := Frame.bind_ok e
      cases e
      exact RunsL.cons ⟨o1, e1, hr, rfl⟩ (ih ⟨o2, e2, r, st⟩)

/-! ### the shape of the terminal block -/

/-- the flags the terminal block of `e` sets: all `written_*` flags of the output unless `e` is
the literal `Integer 0` -/
def activeFlags (e : IdExpr) (out : Output) : List String :=
  if e != .int 0 then out.writtenFlags else []

theorem activeFlags_ne {e : IdExpr} (out : Output) (h : e ≠ .int 0) :
    activeFlags e out = out.writtenFlags := by
  simp [activeFlags, h]

theorem activeFlags_zero (out : Output) : activeFlags (.int 0) out = [] := by
  simp [activeFlags]

theorem foldl_add_lines (b : SB F) (fl : List String) :
    fl.foldl (fun b f => b.add (.assign (.var f) (.boolLit true))) b =
      { b with lines := b.lines ++ fl.map flagStmt } := by
  induction fl generalizing b with
  | nil => simp
  | cons f fl ih =>
    rw [List.foldl_cons, ih]
    simp [SB.add, flagStmt]

theorem lower_terminal_eq (ofRat : Rat → F) (k : Kind) (hk : k.isCompute = true) (n : Nat)
    (e : IdExpr) (out : Output) (ws : List (Stmt F))
    (hw : out.writeAssignment (toIrWith ofRat e) = .ok ⟨none, ws⟩) :
    lower ofRat (n + 1) (.terminal e) out k =
      .ok ⟨some "*** Computation of expression ***", (activeFlags e out).map flagStmt ++ ws⟩ := by
  unfold lower
  simp only [hk, if_true, hw, bind, Except.bind, pure, Except.pure, SB.append, activeFlags]
  split <;> simp [foldl_add_lines, SB.mk']

theorem lower_terminal_eq_assemble (ofRat : Rat → F) (k : Kind) (hk : k.isCompute = false) (n : Nat)
    (e : IdExpr) (out : Output) :
    lower ofRat (n + 1) (.terminal e) out k =
      .ok ⟨some "*** Computation of expression ***", (activeFlags e out).map flagStmt⟩ := by
  unfold lower
  simp only [hk, Bool.false_eq_true, if_false, pure, Except.pure, activeFlags]
  split <;> simp [foldl_add_lines, SB.mk']

/-- the terminal block, generically in the output: flags first, then the store -/
theorem terminal_runs (ofRat : Rat → F) (k : Kind) (hk : k.isCompute = true) (n fuel : Nat)
    (e : IdExpr) (out : Output) (ws : List (Stmt F)) (σ σ' : State F)
    (hw : out.writeAssignment (toIrWith ofRat e) = .ok ⟨none, ws⟩)
    (hfl : ∀ f ∈ activeFlags e out, FlagVar σ f)
    (hrun : RunsL fuel ws (setFlags σ (activeFlags e out)) σ') :
    ∃ b, lower ofRat (n + 1) (.terminal e) out k = .ok b ∧ Runs fuel b.finalize σ σ' :=
  ⟨_, lower_terminal_eq ofRat k hk n e out ws hw, Runs.block (RunsL.append' (flags_run hfl) hrun)⟩

/-! ### names -/

theorem ne_of_head?_ne {s t : String} (h : s.toList.head? ≠ t.toList.head?) : s ≠ t := by
  intro e; exact h (by rw [e])

theorem writtenName_head? (t : String) (l : Nat) : (writtenName t l).toList.head? = some 'w' := by
  simp only [writtenName, String.toList_append, List.head?_append]
  rfl

theorem writtenName_getLast? (t : String) (l : Nat) :
    ∃ ch, (writtenName t l).toList.getLast? = some ch ∧ ch.isDigit = true := by
  obtain ⟨ch, h, hd⟩ := getLast?_toString_nat l
  refine ⟨ch, ?_, hd⟩
  simp only [writtenName, String.toList_append, List.getLast?_append, h, Option.some_or]

theorem writtenName_ne_valsName (t : String) (l : Nat) (s : String) : writtenName t l ≠ valsName s := by
  obtain ⟨ch, h, hd⟩ := writtenName_getLast? t l
  apply ne_of_getLast?_ne
  rw [h]
  have : (valsName s).toList.getLast? = some 's' := by
    simp only [valsName, String.toList_append, List.getLast?_append]
    rfl
  rw [this]
  intro e; cases e; revert hd; decide

theorem writtenName_ne_dimName (t : String) (l : Nat) (s : String) : writtenName t l ≠ dimName s := by
  obtain ⟨ch, h, hd⟩ := writtenName_getLast? t l
  apply ne_of_getLast?_ne
  rw [h]
  have : (dimName s).toList.getLast? = some 'm' := by
    simp only [dimName, String.toList_append, List.getLast?_append]
    rfl
  rw [this]
  intro e; cases e; revert hd; decide

theorem writtenName_ne_layerPointer (t : String) (l : Nat) (s : String) (m : Nat) :
    writtenName t l ≠ layerPointer s m := by
  apply ne_of_head?_ne
  rw [writtenName_head?]
  have : (layerPointer s m).toList.head? = some 'p' := by
    simp only [layerPointer, String.toList_append, List.head?_append]
    rfl
  rw [this]
  decide

theorem writtenName_ne_bucketName (t : String) (l : Nat) (s : TensorId) (ls : List Nat) :
    writtenName t l ≠ bucketName s ls := by
  apply ne_of_head?_ne
  rw [writtenName_head?]
  have : (bucketName s ls).toList.head? = some 'b' := by
    simp only [bucketName, String.toList_append, List.head?_append]
    rfl
  rw [this]
  decide

theorem mem_writtenFlags {out : Output} {f : String} (h : f ∈ out.writtenFlags) :
    ∃ l, f = writtenName out.tensor.name l := by
  unfold Output.writtenFlags at h
  simp only [List.mem_filterMap] at h
  obtain ⟨l, _, hl⟩ := h
  split at hl
  · exact ⟨l, by simpa using hl.symm⟩
  · cases hl

theorem mem_activeFlags {e : IdExpr} {out : Output} {f : String} (h : f ∈ activeFlags e out) :
    ∃ l, f = writtenName out.tensor.name l := by
  unfold activeFlags at h
  split at h
  · exact mem_writtenFlags h
  · cases h

/-- every written flag contains an underscore (so it differs from every underscore-free index name) -/
theorem writtenName_underscore (t : String) (l : Nat) : '_' ∈ (writtenName t l).toList := by
  simp [writtenName, String.toList_append]

/-! ### the hypotheses survive the flags -/

theorem evalE_setFlags (σ : State F) (fl : List String) (e : Expr F)
    (h : ∀ f ∈ fl, e.mentions f = false) : evalE (setFlags σ fl) e = evalE σ e := by
  apply evalE_agree (setFlags_heap ..) (setFlags_tensors ..)
  intro y hy
  apply setFlags_lookup_other
  intro hmem
  rw [h y hmem] at hy
  cases hy

theorem cursor_mentions (id : String) (n : Nat) (t : String) (l : Nat) :
    (prevLayerPointer id n : Expr F).mentions (writtenName t l) = false := by
  unfold prevLayerPointer
  split
  · rfl
  · simp only [Expr.mentions, beq_eq_false_iff_ne, ne_eq]
    exact Ne.symm (writtenName_ne_layerPointer _ _ _ _)

theorem toIrWith_mentions (ofRat : Rat → F) (e : IdExpr) (t : String) (l : Nat) :
    (toIrWith ofRat e).mentions (writtenName t l) = false := by
  induction e with
  | int v => rfl
  | flt q => rfl
  | tensor s =>
    simp only [toIrWith, Expr.mentions, cursor_mentions, Bool.or_false, beq_eq_false_iff_ne, ne_eq]
    exact Ne.symm (writtenName_ne_valsName _ _ _)
  | add a b iha ihb => simp only [toIrWith, Expr.mentions, iha, ihb, Bool.or_false]
  | mul a b iha ihb => simp only [toIrWith, Expr.mentions, iha, ihb, Bool.or_false]

/-- all flags of a list are `written_*` names -/
def AllWritten (fl : List String) : Prop := ∀ f ∈ fl, ∃ t l, f = writtenName t l

theorem allWritten_activeFlags (e : IdExpr) (out : Output) : AllWritten (activeFlags e out) :=
  fun _ hf => let ⟨l, h⟩ := mem_activeFlags hf; ⟨_, l, h⟩

theorem PtrAt.setFlags {σ : State F} {x : String} {b : Nat} {off : Int} (h : PtrAt σ x b off)
    {fl : List String} (hx : x ∉ fl) : PtrAt (setFlags σ fl) x b off := by
  obtain ⟨r, t, e1, e2, e3⟩ := h
  exact ⟨r, t, (setFlags_lookup_other σ fl x hx).trans e1, e2, e3⟩

theorem valsName_not_mem {fl : List String} (hfl : AllWritten fl) (s : String) : valsName s ∉ fl := by
  intro h
  obtain ⟨t, l, e⟩ := hfl _ h
  exact writtenName_ne_valsName t l s e.symm

theorem bucketName_not_mem {fl : List String} (hfl : AllWritten fl) (s : TensorId) (ls : List Nat) :
    bucketName s ls ∉ fl := by
  intro h
  obtain ⟨t, l, e⟩ := hfl _ h
  exact writtenName_ne_bucketName t l s ls e.symm

theorem dimName_not_mem {fl : List String} (hfl : AllWritten fl) (s : String) : dimName s ∉ fl := by
  intro h
  obtain ⟨t, l, e⟩ := hfl _ h
  exact writtenName_ne_dimName t l s e.symm

theorem evalE_cursor_setFlags (σ : State F) {fl : List String} (hfl : AllWritten fl) (id : String)
    (n : Nat) : evalE (setFlags σ fl) (prevLayerPointer id n : Expr F) = evalE σ (prevLayerPointer id n) := by
  apply evalE_setFlags
  intro f hf
  obtain ⟨t, l, rfl⟩ := hfl f hf
  exact cursor_mentions ..

theorem evalE_toIrWith_setFlags (σ : State F) {fl : List String} (hfl : AllWritten fl)
    (ofRat : Rat → F) (e : IdExpr) :
    evalE (setFlags σ fl) (toIrWith ofRat e) = evalE σ (toIrWith ofRat e) := by
  apply evalE_setFlags
  intro f hf
  obtain ⟨t, l, rfl⟩ := hfl f hf
  exact toIrWith_mentions ..

theorem FloatCell.setFlags {σ : State F} {b : Nat} {k : Int} {x : F} (h : FloatCell σ b k x)
    (fl : List String) : FloatCell (setFlags σ fl) b k x := h

theorem OutCell.setFlags {σ : State F} {b : Nat} {k : Int} (h : OutCell σ b k)
    (fl : List String) : OutCell (setFlags σ fl) b k := h

theorem LeafOK.setFlags {σ : State F} {ρ : String → F} {t : TensorId} (h : LeafOK σ ρ t)
    {fl : List String} (hfl : AllWritten fl) : LeafOK (setFlags σ fl) ρ t := by
  obtain ⟨b, off, p, h1, h2, h3⟩ := h
  exact ⟨b, off, p, h1.setFlags (valsName_not_mem hfl _),
    (evalE_cursor_setFlags σ hfl ..).trans h2, h3.setFlags fl⟩

theorem writeCell_setFlags (σ : State F) (fl : List String) (b : Nat) (k : Int) (v : Val F) :
    writeCell (setFlags σ fl) b k v = setFlags (writeCell σ b k v) fl := by
  unfold writeCell
  rw [setFlags_heap]
  split
  · rfl
  · rfl

/-! ### E4: the terminal block of an append output -/

theorem terminal_append_runs (ofRat : Rat → F) (ρ : String → F) (σ : State F) (e : IdExpr)
    (t : TensorId) (k : Kind) (hk : k.isCompute = true) (n fuel : Nat) (bo : Nat) (off p : Int)
    (hleaf : ∀ t ∈ leaves e, LeafOK σ ρ t) (hfin : AllFinite ofRat ρ e)
    (hout : PtrAt σ (valsName t.name) bo off)
    (hcur : evalE σ (prevLayerPointer t.id t.indexes.length : Expr F) = .ok (.int p))
    (hcell : OutCell σ bo (off + p))
    (hfl : ∀ f ∈ activeFlags e (.append t t.indexes.length), FlagVar σ f) :
    ∃ b, lower ofRat (n + 1) (.terminal e) (.append t t.indexes.length) k = .ok b ∧
      Runs fuel b.finalize σ
        (setFlags (writeCell σ bo (off + p) (.flt (valueF ofRat ρ e)))
          (activeFlags e (.append t t.indexes.length))) := by
  have hw := allWritten_activeFlags e (.append t t.indexes.length)
  rw [← writeCell_setFlags]
  apply terminal_runs ofRat k hk n fuel e _ _ σ _ (writeAssignment_append_eq t _) hfl
  exact (runs_single (writeAssignment_append_runs ofRat ρ _ e t fuel bo off p
    (fun s hs => (hleaf s hs).setFlags hw) hfin (hout.setFlags (valsName_not_mem hw _))
    ((evalE_cursor_setFlags σ hw ..).trans hcur) (hcell.setFlags _))).1

/-! ### E3/E4: bucket output, any number of layers -/

theorem le_lprod_of_mem {l : List Int} (h : ∀ s ∈ l, 1 ≤ s) {x : Int} (hx : x ∈ l) : x ≤ lprod l := by
  induction l with
  | nil => cases hx
  | cons y l ih =>
    have hy := h y (List.mem_cons_self ..)
    have hl : ∀ s ∈ l, 1 ≤ s := fun s hs => h s (List.mem_cons_of_mem _ hs)
    have hp := lprod_pos hl
    simp only [lprod]
    rcases List.mem_cons.mp hx with rfl | hx'
    · have := Int.mul_le_mul (Int.le_refl x) hp (by omega) (by omega)
      omega
    · have := ih hl hx'
      have := Int.mul_le_mul hy (Int.le_refl (lprod l)) (by omega) (by omega)
      omega

/-- the index of the bucket cell: every dimension variable `<i>_dim` holds `dv l`, every index
variable holds `iv l`, `0 ≤ iv l < dv l`, and the bucket has `< 2^31` cells -/
theorem evalE_bucketIndex {σ : State F} (t : TensorId) (layers : List Nat) (dv iv : Nat → Int)
    (h : ∀ l ∈ layers, IntVar σ (dimName (t.indexes.getD l "")) (dv l) ∧
      IntVar σ (t.indexes.getD l "") (iv l) ∧ 0 ≤ iv l ∧ iv l < dv l)
    (hB : lprod (layers.map dv) < 2147483648) :
    evalE σ (ravelIndexes (bucketDims t layers)
        (layers.map fun l => (.var (t.indexes.getD l "") : Expr F))) =
      .ok (.int (ravelH (layers.map dv) (layers.map iv))) ∧
    0 ≤ ravelH (layers.map dv) (layers.map iv) ∧
    ravelH (layers.map dv) (layers.map iv) < lprod (layers.map dv) := by
  have h1 : ∀ s ∈ layers.map dv, 1 ≤ s := by
    intro s hs
    obtain ⟨l, hl, rfl⟩ := List.mem_map.mp hs
    have := h l hl
    omega
  unfold bucketDims
  apply evalE_ravelIndexes layers _ _ dv iv _ hB
  intro l hl
  obtain ⟨hd, hi, hi0, hid⟩ := h l hl
  have hle := le_lprod_of_mem h1 (List.mem_map.mpr ⟨l, hl, rfl⟩)
  exact ⟨evalE_var_int hd (by omega) (by omega), evalE_var_int hi (by omega) (by omega), hi0, hid⟩

theorem terminal_bucket_runs (ofRat : Rat → F) (ρ : String → F) (σ : State F) (e : IdExpr)
    (t : TensorId) (layers : List Nat) (k : Kind) (hk : k.isCompute = true) (n fuel : Nat)
    (bo : Nat) (off : Int) (dv iv : Nat → Int) (w : F)
    (hleaf : ∀ t ∈ leaves e, LeafOK σ ρ t) (hfin : AllFinite ofRat ρ e)
    (hout : PtrAt σ (bucketName t layers) bo off)
    (hidx : ∀ l ∈ layers, IntVar σ (dimName (t.indexes.getD l "")) (dv l) ∧
      IntVar σ (t.indexes.getD l "") (iv l) ∧ 0 ≤ iv l ∧ iv l < dv l)
    (hB : lprod (layers.map dv) < 2147483648)
    (hcell : OutCell σ bo (off + ravelH (layers.map dv) (layers.map iv)))
    (hw : FloatCell σ bo (off + ravelH (layers.map dv) (layers.map iv)) w)
    (hwf : FloatOps.finite w = true)
    (hs : FloatOps.finite (FloatOps.add w (valueF ofRat ρ e)) = true)
    (hfl : ∀ f ∈ activeFlags e (.bucket t layers), FlagVar σ f)
    (hnames : ∀ f ∈ activeFlags e (.bucket t layers), ∀ l ∈ layers, f ≠ t.indexes.getD l "") :
    ∃ b, lower ofRat (n + 1) (.terminal e) (.bucket t layers) k = .ok b ∧
      Runs fuel b.finalize σ
        (setFlags (writeCell σ bo (off + ravelH (layers.map dv) (layers.map iv))
            (.flt (FloatOps.add w (valueF ofRat ρ e))))
          (activeFlags e (.bucket t layers))) := by
  have haw := allWritten_activeFlags e (.bucket t layers)
  rw [← writeCell_setFlags]
  apply terminal_runs ofRat k hk n fuel e _ _ σ _ (writeAssignment_bucket_eq t layers _) hfl
  have hidx' : ∀ l ∈ layers,
      IntVar (setFlags σ (activeFlags e (.bucket t layers))) (dimName (t.indexes.getD l "")) (dv l) ∧
      IntVar (setFlags σ (activeFlags e (.bucket t layers))) (t.indexes.getD l "") (iv l) ∧
      0 ≤ iv l ∧ iv l < dv l := by
    intro l hl
    obtain ⟨h1, h2, h3, h4⟩ := hidx l hl
    refine ⟨h1.congr (setFlags_lookup_other _ _ _ (dimName_not_mem haw _)),
      h2.congr (setFlags_lookup_other _ _ _ ?_), h3, h4⟩
    intro hmem
    exact hnames _ hmem l hl rfl
  exact (runs_single (writeAssignment_bucket_runs ofRat ρ _ e t layers fuel bo off _ w
    (fun s hs => (hleaf s hs).setFlags haw) hfin (hout.setFlags (bucketName_not_mem haw _ _))
    (evalE_bucketIndex t layers dv iv hidx' hB).1 (hcell.setFlags _) (hw.setFlags _) hwf hs)).1

end TV.ToIr
