/-
M1 (syntax trees) + M3: the assignment language, its specification `denote` (sum of products, the
sentence of C01), and a port of `desugar_assignment` (src/tensora/desugar/_desugar_expression.py)
with the meaning `denoteD` of desugared trees (`Contract k e ↦ Σ_k`).

Values are exact rationals (`Rat` is in core Lean); literals carry their exact value.
-/
namespace TV.Alg

inductive SExpr where
  | int (v : Int)
  | flt (v : Rat)
  | tensor (name : String) (idx : List String)
  | add (l r : SExpr)
  | sub (l r : SExpr)
  | mul (l r : SExpr)
  deriving Repr, Inhabited, DecidableEq

structure Assign where
  tname : String
  tidx : List String
  rhs : SExpr
  deriving Repr, Inhabited, DecidableEq

/-- tensor name → coordinate → value (0 where nothing is stored) -/
abbrev Inputs := String → List Nat → Rat
/-- index variable → size of its dimension -/
abbrev Sizes := String → Nat
/-- index variable → current value -/
abbrev Env := List (String × Nat)

def Env.get (env : Env) (i : String) : Nat :=
  match env.find? (·.1 == i) with
  | some p => p.2
  | none => 0

def Env.set (env : Env) (i : String) (v : Nat) : Env := (i, v) :: env

/-! ### Specification: sum of products -/

structure Term where
  coef : Rat
  factors : List (String × List String)
  deriving Repr, Inhabited, DecidableEq

def Term.mul (a b : Term) : Term := ⟨a.coef * b.coef, a.factors ++ b.factors⟩
def Term.neg (a : Term) : Term := ⟨-a.coef, a.factors⟩

/-- the right-hand side read as a sum of products -/
def termsOf : SExpr → List Term
  | .int v => [⟨v, []⟩]
  | .flt v => [⟨v, []⟩]
  | .tensor n idx => [⟨1, [(n, idx)]⟩]
  | .add l r => termsOf l ++ termsOf r
  | .sub l r => termsOf l ++ (termsOf r).map Term.neg
  | .mul l r => (termsOf l).flatMap fun a => (termsOf r).map fun b => a.mul b

def dedup (xs : List String) : List String :=
  xs.foldl (fun acc x => if acc.contains x then acc else acc ++ [x]) []

def Term.indexes (t : Term) : List String := dedup (t.factors.flatMap (·.2))

def Term.val (inputs : Inputs) (t : Term) (env : Env) : Rat :=
  t.factors.foldl (fun acc f => acc * inputs f.1 (f.2.map env.get)) t.coef

def sumRange (n : Nat) (f : Nat → Rat) : Rat := (List.range n).foldl (fun acc v => acc + f v) 0

/-- Σ over all values of the listed indexes -/
def sumOver (sizes : Sizes) : List String → (Env → Rat) → Env → Rat
  | [], f, env => f env
  | i :: rest, f, env => sumRange (sizes i) fun v => sumOver sizes rest f (env.set i v)

/-- C01's reading of an assignment: every additive term is summed over those of its own indexes
that are absent from the target; a term lacking a target index is broadcast along it. -/
def denote (a : Assign) (inputs : Inputs) (sizes : Sizes) (coord : List Nat) : Rat :=
  let env : Env := a.tidx.zip coord
  (termsOf a.rhs).foldl (fun acc t =>
    acc + sumOver sizes (t.indexes.filter fun i => !a.tidx.contains i) (t.val inputs) env) 0

/-! ### Desugared trees -/

inductive DExpr where
  | int (v : Int)
  | flt (v : Rat)
  | tensor (id : Nat) (name : String) (idx : List String)
  | add (l r : DExpr)
  | mul (l r : DExpr)
  | contract (i : String) (e : DExpr)
  deriving Repr, Inhabited, DecidableEq

def denoteD (inputs : Inputs) (sizes : Sizes) : DExpr → Env → Rat
  | .int v, _ => v
  | .flt v, _ => v
  | .tensor _ n idx, env => inputs n (idx.map env.get)
  | .add l r, env => denoteD inputs sizes l env + denoteD inputs sizes r env
  | .mul l r, env => denoteD inputs sizes l env * denoteD inputs sizes r env
  | .contract i e, env => sumRange (sizes i) fun v => denoteD inputs sizes e (env.set i v)

/-- index names occurring in an expression (keys of `index_participants`), first-occurrence order -/
def indexesOf : SExpr → List String
  | .int _ => []
  | .flt _ => []
  | .tensor _ idx => dedup idx
  | .add l r => dedup (indexesOf l ++ indexesOf r)
  | .sub l r => dedup (indexesOf l ++ indexesOf r)
  | .mul l r => dedup (indexesOf l ++ indexesOf r)

/-- `indexes_in_every_term` -/
def inEveryTerm : SExpr → List String
  | .int _ => []
  | .flt _ => []
  | .tensor _ idx => dedup idx
  | .add l r => (inEveryTerm l).filter (inEveryTerm r).contains
  | .sub l r => (inEveryTerm l).filter (inEveryTerm r).contains
  | .mul l r => dedup (inEveryTerm l ++ inEveryTerm r)

def wrap (is : List String) (e : DExpr) : DExpr := is.foldl (fun acc i => .contract i acc) e

/-- `desugar_expression`; `c` = contraction indexes still to be placed, `n` = next tensor id -/
def desugarE : SExpr → List String → Nat → DExpr × Nat
  | .int v, _, n => (.int v, n)
  | .flt v, _, n => (.flt v, n)
  | .tensor name idx, c, n => (wrap c (.tensor n name idx), n + 1)
  | .add l r, c, n =>
    let li := (indexesOf l).filter c.contains
    let ri := (indexesOf r).filter c.contains
    let h := ((li.filter ri.contains).filter (inEveryTerm l).contains).filter (inEveryTerm r).contains
    let (l', n1) := desugarE l (li.filter fun i => !h.contains i) n
    let (r', n2) := desugarE r (ri.filter fun i => !h.contains i) n1
    (wrap h (.add l' r'), n2)
  | .sub l r, c, n =>
    let li := (indexesOf l).filter c.contains
    let ri := (indexesOf r).filter c.contains
    let h := ((li.filter ri.contains).filter (inEveryTerm l).contains).filter (inEveryTerm r).contains
    let (l', n1) := desugarE l (li.filter fun i => !h.contains i) n
    let (r', n2) := desugarE r (ri.filter fun i => !h.contains i) n1
    (wrap h (.add l' (.mul (.int (-1)) r')), n2)
  | .mul l r, c, n =>
    let li := (indexesOf l).filter c.contains
    let ri := (indexesOf r).filter c.contains
    let h := li.filter ri.contains
    let (l', n1) := desugarE l (li.filter fun i => !h.contains i) n
    let (r', n2) := desugarE r (ri.filter fun i => !h.contains i) n1
    (wrap h (.mul l' r'), n2)

structure DAssign where
  tname : String
  tidx : List String
  rhs : DExpr
  deriving Repr, Inhabited, DecidableEq

/-- `desugar_assignment` (target gets id 0) -/
def desugar (a : Assign) : DAssign :=
  let all := dedup (a.tidx ++ indexesOf a.rhs)
  let c := all.filter fun i => !a.tidx.contains i
  ⟨a.tname, a.tidx, (desugarE a.rhs c 1).1⟩

def denoteDA (d : DAssign) (inputs : Inputs) (sizes : Sizes) (coord : List Nat) : Rat :=
  denoteD inputs sizes d.rhs (d.tidx.zip coord)

/-- F12's signature: a product whose operands share a contraction index that neither operand
mentions in every one of its additive terms -/
def productHoistUnsafe (target : List String) : SExpr → Bool
  | .int _ => false
  | .flt _ => false
  | .tensor _ _ => false
  | .add l r => productHoistUnsafe target l || productHoistUnsafe target r
  | .sub l r => productHoistUnsafe target l || productHoistUnsafe target r
  | .mul l r =>
    let shared := ((indexesOf l).filter (indexesOf r).contains).filter fun i => !target.contains i
    shared.any (fun i => !((inEveryTerm l).contains i || (inEveryTerm r).contains i))
      || productHoistUnsafe target l || productHoistUnsafe target r

end TV.Alg
