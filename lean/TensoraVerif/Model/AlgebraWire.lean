import TensoraVerif.Model.Sexp
import TensoraVerif.Model.Algebra

/-! Wire format for the assignment language (driver only). -/
namespace TV.Alg.Wire
open TV

def ratOf : Sexp → Option Rat
  | .list [.atom "q", n, d] => do
    let n ← n.toInt?
    let d ← d.toNat?
    if d = 0 then none else pure ((n : Rat) / (d : Rat))
  | _ => none

def ratToSexp (r : Rat) : Sexp := Sexp.mk "q" [Sexp.ofInt r.num, Sexp.ofNat r.den]

def strsOf : Sexp → Option (List String)
  | .list (.atom "list" :: xs) => xs.mapM Sexp.toStr?
  | .list xs => xs.mapM Sexp.toStr?
  | _ => none

partial def sexprOf : Sexp → Option SExpr
  | .list [.atom "Integer", v] => v.toInt?.map .int
  | .list [.atom "Float", q] => (ratOf q).map .flt
  | .list [.atom "Tensor", .str n, idx] => (strsOf idx).map (.tensor n)
  | .list [.atom "Add", l, r] => do pure (.add (← sexprOf l) (← sexprOf r))
  | .list [.atom "Subtract", l, r] => do pure (.sub (← sexprOf l) (← sexprOf r))
  | .list [.atom "Multiply", l, r] => do pure (.mul (← sexprOf l) (← sexprOf r))
  | _ => none

def assignOf : Sexp → Option Assign
  | .list [.atom "Assignment", .list [.atom "Tensor", .str n, idx], e] => do
    pure ⟨n, ← strsOf idx, ← sexprOf e⟩
  | _ => none

/-- canonical text of a desugared tree: consecutive contractions merged and sorted -/
partial def dexprToSexp : DExpr → Sexp
  | .int v => Sexp.mk "int" [Sexp.ofInt v]
  | .flt v => Sexp.mk "flt" [Sexp.ofInt v.num, Sexp.ofNat v.den]
  | .tensor id n idx => Sexp.mk "tensor" [Sexp.ofNat id, .str n, .list (idx.map .str)]
  | .add l r => Sexp.mk "add" [dexprToSexp l, dexprToSexp r]
  | .mul l r => Sexp.mk "mul" [dexprToSexp l, dexprToSexp r]
  | .contract i e =>
    let rec collect (e : DExpr) (acc : List String) : List String × DExpr :=
      match e with
      | .contract j e' => collect e' (j :: acc)
      | e => (acc, e)
    let (is, body) := collect e [i]
    Sexp.mk "contract" [.list ((is.mergeSort (fun a b => a ≤ b)).map .str), dexprToSexp body]

def inputsOf (s : Sexp) : Option Inputs :=
  match s with
  | .list items => do
    let tbl ← items.mapM fun it =>
      match it with
      | .list [.str n, .list entries] => do
        let es ← entries.mapM fun e =>
          match e with
          | .list [c, q] => do pure ((← c.toNats?), (← ratOf q))
          | _ => none
        pure (n, es)
      | _ => none
    pure fun n c =>
      match tbl.find? (·.1 == n) with
      | some (_, es) => match es.find? (·.1 == c) with
        | some (_, v) => v
        | none => 0
      | none => 0
  | _ => none

def sizesOf (s : Sexp) : Option Sizes :=
  match s with
  | .list items => do
    let tbl ← items.mapM fun it =>
      match it with
      | .list [.str i, n] => do pure (i, ← n.toNat?)
      | _ => none
    pure fun i => match tbl.find? (·.1 == i) with | some p => p.2 | none => 0
  | _ => none

/-- all coordinates of a box -/
def box : List Nat → List (List Nat)
  | [] => [[]]
  | d :: ds => (List.range d).flatMap fun c => (box ds).map (c :: ·)

end TV.Alg.Wire
