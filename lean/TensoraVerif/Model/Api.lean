import TensoraVerif.Model.Algebra

/-
M10 (argument validation of `TensorMethod.__init__/__call__`), M11 (operator synthesis of
`evaluate_binary_operator` / `evaluate_matrix_multiplication_operator`, src/tensora/tensor.py) and
M12 (`Problem.__eq__/__hash__`, `make_problem`, src/tensora/problem.py).
-/
namespace TV.Api

inductive Mode where
  | dense | compressed
  deriving DecidableEq, Repr, Inhabited

structure Fmt where
  modes : List Mode
  ordering : List Nat
  deriving DecidableEq, Repr, Inhabited

def Fmt.order (f : Fmt) : Nat := f.modes.length
def Fmt.allDense (n : Nat) : Fmt := ⟨List.replicate n .dense, List.range n⟩

/-- one tensor reference of the right-hand side: name and index list -/
structure Ref where
  name : String
  idx : List String
  deriving DecidableEq, Repr, Inhabited

/-- what validation needs to know about an assignment -/
structure AssignSig where
  tname : String
  tidx : List String
  refs : List Ref
  deriving DecidableEq, Repr, Inhabited

/-- `variable_orders()`: target first, then right-hand-side tensors in first-occurrence order -/
def variableOrders (a : AssignSig) : List (String × Nat) :=
  a.refs.foldl (fun acc r => if acc.any (·.1 == r.name) then acc else acc ++ [(r.name, r.idx.length)])
    [(a.tname, a.tidx.length)]

/-! ### M12: problems -/

structure Problem where
  assign : AssignSig
  formats : List (String × Fmt)
  deriving DecidableEq, Repr, Inhabited

inductive ProblemErr where
  | unusedFormat
  | undefinedReference
  | incorrectDimensions
  deriving DecidableEq, Repr, Inhabited

/-- `make_problem(assignment, formats)`: formats reordered to the order of appearance, missing ones
filled with all-dense, unused names rejected, orders checked -/
def makeProblem (a : AssignSig) (formats : List (String × Fmt)) : Except ProblemErr Problem :=
  let orders := variableOrders a
  if formats.any (fun nf => !(orders.any (·.1 == nf.1))) then .error .unusedFormat
  else
    let fs := orders.map fun (n, o) =>
      match formats.find? (·.1 == n) with
      | some (_, f) => (n, f)
      | none => (n, Fmt.allDense o)
    if (orders.zip fs).any (fun (no, nf) => no.2 != nf.2.order) then .error .incorrectDimensions
    else .ok ⟨a, fs⟩

/-! ### M10: call validation -/

inductive Arg where
  | tensor (modes : List Mode) (ordering : List Nat) (dims : List Nat)
  | other
  deriving DecidableEq, Repr, Inhabited

inductive CallErr where
  | typeError
  | valueError
  | broadcastTarget
  deriving DecidableEq, Repr, Inhabited

/-- input parameters in signature order: every format except the output's -/
def inputFormats (p : Problem) : List (String × Fmt) := p.formats.filter (·.1 != p.assign.tname)

/-- `TensorMethod.__init__`'s own check -/
def initCheck (p : Problem) : Option CallErr :=
  let rhsIdx := p.assign.refs.flatMap (·.idx)
  if p.assign.tidx.all rhsIdx.contains then none else some .broadcastTarget

def argDims : Arg → List Nat
  | .tensor _ _ d => d
  | .other => []

/-- the size every participant of index `i` has: `(variable, dimension)` pairs of the right-hand side -/
def participantSizes (a : AssignSig) (args : List (String × Arg)) (i : String) : List Nat :=
  a.refs.flatMap fun r =>
    (List.range r.idx.length).filterMap fun d =>
      if r.idx.getD d "" == i then
        match args.find? (·.1 == r.name) with
        | some (_, arg) => some ((argDims arg).getD d 0)
        | none => some 0
      else none

def allEq : List Nat → Bool
  | [] => true
  | x :: xs => xs.all (· == x)

/-- `TensorMethod.__call__(**kwargs)` up to (not including) the kernel call: `.ok dims` = the kernel
is entered with an output of these dimensions -/
def callCheck (p : Problem) (args : List (String × Arg)) : Except CallErr (List Nat) :=
  let inputs := inputFormats p
  -- Signature.bind: exactly the declared keyword names
  if !(args.all fun na => inputs.any (·.1 == na.1)) || !(inputs.all fun nf => args.any (·.1 == nf.1))
      || args.length != inputs.length then .error .typeError
  else
    -- per parameter, in signature order: type, order, modes, ordering
    let perParam : Option CallErr := inputs.foldl (fun (acc : Option CallErr) nf =>
      match acc with
      | some e => some e
      | none =>
        match args.find? (·.1 == nf.1) with
        | some (_, .tensor ms o d) =>
          if d.length != nf.2.order then some .valueError
          else if ms != nf.2.modes then some .valueError
          else if o != nf.2.ordering then some .valueError
          else none
        | _ => some .typeError) none
    match perParam with
    | some e => .error e
    | none =>
      let idx := (p.assign.refs.flatMap (·.idx)).eraseDups
      if idx.all fun i => allEq (participantSizes p.assign args i) then
        .ok (p.assign.tidx.map fun i => (participantSizes p.assign args i).headD 0)
      else .error .valueError

/-! ### M11: operator synthesis -/

inductive Op where
  | add | sub | mul
  deriving DecidableEq, Repr, Inhabited

/-- an operand: a tensor (format, dims) or a Python number -/
inductive Operand where
  | tensor (f : Fmt) (dims : List Nat)
  | scalar
  deriving DecidableEq, Repr, Inhabited

inductive OpErr where
  | valueError
  | notImplemented
  deriving DecidableEq, Repr, Inhabited

def idxNames (n : Nat) : List String := (List.range n).map fun k => "i" ++ toString k

def opOf : Op → Alg.SExpr → Alg.SExpr → Alg.SExpr
  | .add => .add
  | .sub => .sub
  | .mul => .mul

def zipModes (f : Mode → Mode → Mode) : List Mode → List Mode → List Mode
  | a :: as, b :: bs => f a b :: zipModes f as bs
  | _, _ => []

/-- result of `evaluate_binary_operator`: the assignment handed to `evaluate`, the output format -/
def binarySynth (l r : Operand) (op : Op) : Except OpErr (Alg.Assign × Fmt) :=
  match l, r with
  | .tensor fl dl, .tensor fr dr =>
    if dl != dr then .error .valueError
    else
      let idx := idxNames fl.order
      let modes := match op with
        | .mul => zipModes (fun a b => if a = .dense ∧ b = .dense then .dense else .compressed) fl.modes fr.modes
        | _ => zipModes (fun a b => if a = .dense ∨ b = .dense then .dense else .compressed) fl.modes fr.modes
      .ok (⟨"output", idx, opOf op (.tensor "left" idx) (.tensor "right" idx)⟩, ⟨modes, List.range modes.length⟩)
  | .tensor fl _, .scalar =>
    let idx := idxNames fl.order
    let fmt := match op with
      | .mul => fl
      | _ => Fmt.allDense fl.order
    .ok (⟨"output", idx, opOf op (.tensor "left" idx) (.tensor "right" [])⟩, fmt)
  | .scalar, .tensor fr _ =>
    let idx := idxNames fr.order
    let fmt := match op with
      | .mul => fr
      | _ => Fmt.allDense fr.order
    .ok (⟨"output", idx, opOf op (.tensor "left" []) (.tensor "right" idx)⟩, fmt)
  | .scalar, .scalar => .error .notImplemented

/-- mode of the level that stores dimension `d` … as the code computes it: `modes[ordering[d]]` -/
def modeAsCode (f : Fmt) (d : Nat) : Mode := f.modes.getD (f.ordering.getD d 0) .dense

/-- `evaluate_matrix_multiplication_operator` -/
def matmulSynth (fl : Fmt) (dl : List Nat) (fr : Fmt) (dr : List Nat) : Except OpErr (Alg.Assign × Fmt) :=
  match dl, dr with
  | [a], [b] =>
    if a != b then .error .valueError
    else .ok (⟨"output", [], .mul (.tensor "left" ["i"]) (.tensor "right" ["i"])⟩, ⟨[], []⟩)
  | [_, b], [c] =>
    if b != c then .error .valueError
    else .ok (⟨"output", ["i"], .mul (.tensor "left" ["i", "j"]) (.tensor "right" ["j"])⟩, ⟨[modeAsCode fl 0], [0]⟩)
  | [a], [c, _] =>
    if a != c then .error .valueError
    else .ok (⟨"output", ["j"], .mul (.tensor "left" ["i"]) (.tensor "right" ["i", "j"])⟩, ⟨[modeAsCode fr 1], [0]⟩)
  | [_, b], [c, _] =>
    if b != c then .error .valueError
    else .ok (⟨"output", ["i", "k"], .mul (.tensor "left" ["i", "j"]) (.tensor "right" ["j", "k"])⟩,
      ⟨[modeAsCode fl 0, modeAsCode fr 1], [0, 1]⟩)
  | _, _ => .error .valueError

end TV.Api
