import TensoraVerif.Model.Sexp
import TensoraVerif.Model.Api
import TensoraVerif.Model.AlgebraWire

/-! Wire format for the API models (driver only). -/
namespace TV.Api.Wire
open TV

def modesOf (s : String) : Option (List Mode) :=
  s.toList.mapM fun c => if c == 'd' then some Mode.dense else if c == 's' then some Mode.compressed else none

def modesStr (ms : List Mode) : String := String.ofList (ms.map fun m => match m with | .dense => 'd' | .compressed => 's')

def fmtOf : Sexp → Option Fmt
  | .list [.atom "fmt", .str ms, o] => do pure ⟨← modesOf ms, ← o.toNats?⟩
  | _ => none

def fmtToSexp (f : Fmt) : Sexp := Sexp.mk "fmt" [.str (modesStr f.modes), Sexp.ofNats f.ordering]

def strs (s : Sexp) : Option (List String) := do (← s.toList?).mapM Sexp.toStr?

def sigOf : Sexp → Option AssignSig
  | .list [.atom "sig", .str n, idx, .list refs] => do
    let rs ← refs.mapM fun r => match r with
      | .list [.str rn, ri] => do pure (⟨rn, ← strs ri⟩ : Ref)
      | _ => none
    pure ⟨n, ← strs idx, rs⟩
  | _ => none

def namedFmts (s : Sexp) : Option (List (String × Fmt)) := do
  (← s.toList?).mapM fun nf => match nf with
    | .list [.str n, f] => do pure (n, ← fmtOf f)
    | _ => none

def problemOf : Sexp → Option Problem
  | .list [.atom "problem", sg, fs] => do pure ⟨← sigOf sg, ← namedFmts fs⟩
  | _ => none

def argOf : Sexp → Option Arg
  | .atom "other" => some .other
  | .list [.atom "tensor", .str ms, o, d] => do pure (.tensor (← modesOf ms) (← o.toNats?) (← d.toNats?))
  | _ => none

def argsOf (s : Sexp) : Option (List (String × Arg)) := do
  (← s.toList?).mapM fun na => match na with
    | .list [.str n, a] => do pure (n, ← argOf a)
    | _ => none

def callErrName : CallErr → String
  | .typeError => "TypeError" | .valueError => "ValueError" | .broadcastTarget => "BroadcastTargetIndexError"

def problemErrName : ProblemErr → String
  | .unusedFormat => "UnusedFormatError" | .undefinedReference => "UndefinedReferenceError"
  | .incorrectDimensions => "IncorrectDimensionsError"

def operandOf : Sexp → Option Operand
  | .atom "scalar" => some .scalar
  | .list [.atom "tensor", f, d] => do pure (.tensor (← fmtOf f) (← d.toNats?))
  | _ => none

def opOfStr : String → Option Op
  | "+" => some .add | "-" => some .sub | "*" => some .mul | _ => none

partial def sexprText : Alg.SExpr → String
  | .int v => toString v
  | .flt _ => "?"
  | .tensor n idx => n ++ "(" ++ ",".intercalate idx ++ ")"
  | .add l r => sexprText l ++ " + " ++ sexprText r
  | .sub l r => sexprText l ++ " - " ++ sexprText r
  | .mul l r => sexprText l ++ " * " ++ sexprText r

def assignText (a : Alg.Assign) : String := a.tname ++ "(" ++ ",".intercalate a.tidx ++ ")" ++ " = " ++ sexprText a.rhs

end TV.Api.Wire
