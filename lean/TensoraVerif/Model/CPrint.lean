import TensoraVerif.Model.IR

/-
M8 (C side): port of src/tensora/codegen/_ir_to_c.py and _type_to_c.py. Float and integer literals
are printed by a caller-supplied function (`str(value)` of CPython); everything else — parentheses,
compound-assignment sugar, else-if chains, comments and blank lines — is the printer itself.
-/
namespace TV.IR

def typeToC : Ty → Option String → String
  | .bool, v => "bool" ++ (match v with | some x => " " ++ x | none => "")
  | .int, v => "int32_t" ++ (match v with | some x => " " ++ x | none => "")
  | .float, v => "double" ++ (match v with | some x => " " ++ x | none => "")
  | .tensor, v => "taco_tensor_t" ++ (match v with | some x => " " ++ x | none => "")
  | .mode, v => "taco_mode_t" ++ (match v with | some x => " " ++ x | none => "")
  | .ptr t, v => typeToC t none ++ "* restrict" ++ (match v with | some x => " " ++ x | none => "")
  | .arr t, v => typeToC t v ++ "[]"
  | .fixedArr t n, v => typeToC t v ++ "[" ++ toString n ++ "]"

variable {F : Type} [FloatOps F]

def Expr.isAddSub : Expr F → Bool
  | .bin .add _ _ => true
  | .bin .sub _ _ => true
  | _ => false

def Expr.isOr : Expr F → Bool
  | .bin .or _ _ => true
  | _ => false

def opSym : BinOp → String
  | .add => "+" | .sub => "-" | .mul => "*" | .eq => "==" | .ne => "!=" | .gt => ">" | .lt => "<"
  | .ge => ">=" | .le => "<=" | .and => "&&" | .or => "||" | .max => "TACO_MAX" | .min => "TACO_MIN"

/-- `ir_to_c_expression`; `parens(code, wrap_me)` wraps the operand when it is one of the listed classes -/
def cExpr (showF : F → String) : Expr F → String
  | .var n => n
  | .attr t a => cExpr showF t ++ "->" ++ a
  | .idx t i => cExpr showF t ++ "[" ++ cExpr showF i ++ "]"
  | .intLit v => toString v
  | .floatLit v => showF v
  | .boolLit b => if b then "true" else "false"
  | .bin .add l r => cExpr showF l ++ " + " ++ cExpr showF r
  | .bin .sub l r =>
    cExpr showF l ++ " - " ++ (if r.isAddSub then "(" ++ cExpr showF r ++ ")" else cExpr showF r)
  | .bin .mul l r =>
    (if l.isAddSub then "(" ++ cExpr showF l ++ ")" else cExpr showF l) ++ " * " ++
      (if r.isAddSub then "(" ++ cExpr showF r ++ ")" else cExpr showF r)
  | .bin .and l r =>
    (if l.isOr then "(" ++ cExpr showF l ++ ")" else cExpr showF l) ++ " && " ++
      (if r.isOr then "(" ++ cExpr showF r ++ ")" else cExpr showF r)
  | .bin .max l r => "TACO_MAX(" ++ cExpr showF l ++ ", " ++ cExpr showF r ++ ")"
  | .bin .min l r => "TACO_MIN(" ++ cExpr showF l ++ ", " ++ cExpr showF r ++ ")"
  | .bin op l r => cExpr showF l ++ " " ++ opSym op ++ " " ++ cExpr showF r
  | .b2i e => "(int32_t)(" ++ cExpr showF e ++ ")"
  | .alloc t n =>
    "malloc(sizeof(" ++ typeToC t none ++ ") * " ++
      (if n.isAddSub then "(" ++ cExpr showF n ++ ")" else cExpr showF n) ++ ")"
  | .realloc o t n =>
    "realloc(" ++ cExpr showF o ++ ", sizeof(" ++ typeToC t none ++ ") * " ++
      (if n.isAddSub then "(" ++ cExpr showF n ++ ")" else cExpr showF n) ++ ")"

def indentLines (ls : List String) : List String := ls.map ("  " ++ ·)

def Stmt.isBranch : Stmt F → Bool
  | .branch _ _ _ => true
  | _ => false

def Stmt.isBlock : Stmt F → Bool
  | .block _ _ => true
  | _ => false

/-- `self.if_false == Block([])`: dataclass equality, so the comment must be `None` too -/
def Stmt.isPlainEmptyBlock : Stmt F → Bool
  | .block [] none => true
  | _ => false

mutual
/-- `ir_to_c_statement` -/
def cStmt (showF : F → String) : Stmt F → List String
  | .expr e => [cExpr showF e ++ ";"]
  | .decl n t => [typeToC t (some n) ++ ";"]
  | .assign t v =>
    let ts := cExpr showF t
    match v with
    | .bin .add l r =>
      if l.beq t then (if r.isInt 1 then [ts ++ "++;"] else [ts ++ " += " ++ cExpr showF r ++ ";"])
      else [ts ++ " = " ++ cExpr showF v ++ ";"]
    | .bin .sub l r =>
      if l.beq t then (if r.isInt 1 then [ts ++ "--;"] else [ts ++ " -= " ++ cExpr showF r ++ ";"])
      else [ts ++ " = " ++ cExpr showF v ++ ";"]
    | .bin .mul l r =>
      if l.beq t then [ts ++ " *= " ++ cExpr showF r ++ ";"]
      else [ts ++ " = " ++ cExpr showF v ++ ";"]
    | _ => [ts ++ " = " ++ cExpr showF v ++ ";"]
  | .declAssign n t v => [typeToC t (some n) ++ " = " ++ cExpr showF v ++ ";"]
  | .block ss c =>
    let start : List String := match c with | some s => ["// " ++ s] | none => []
    (cBlockLines showF ss start false)
  | .branch c t f =>
    let tl := cStmt showF t
    let fl := cStmt showF f
    let head := ["if (" ++ cExpr showF c ++ ") {"] ++ indentLines tl
    if f.isBranch then
      head ++ ["} else " ++ fl.headD ""] ++ fl.tail
    else if f.isPlainEmptyBlock then head ++ ["}"]
    else head ++ ["} else {"] ++ indentLines fl ++ ["}"]
  | .loop c b => ["while (" ++ cExpr showF c ++ ") {"] ++ indentLines (cStmt showF b) ++ ["}"]
  | .ret e => ["return " ++ cExpr showF e ++ ";"]
/-- the loop of `ir_to_c_block`: `lines` so far and the `need_separator` flag -/
def cBlockLines (showF : F → String) : List (Stmt F) → List String → Bool → List String
  | [], lines, _ => lines
  | s :: ss, lines, needSep =>
    if s.isBlock then
      let lines1 := if lines.isEmpty then lines else lines ++ [""]
      cBlockLines showF ss (lines1 ++ cStmt showF s) true
    else
      let lines1 := if needSep then lines ++ [""] else lines
      cBlockLines showF ss (lines1 ++ cStmt showF s) false
end

/-- `ir_to_c_function_definition` -/
def cFunc (showF : F → String) (f : Func F) : String :=
  let params := ", ".intercalate (f.params.map fun p => typeToC p.2 (some p.1))
  "\n".intercalate ([typeToC f.retTy none ++ " " ++ f.name ++ "(" ++ params ++ ") {"] ++
    indentLines (cStmt showF f.body) ++ ["}"])

/-- `ir_to_c` (whole module: what `generate_code(…, Language.c)` and the CLI print) -/
def cModule (showF : F → String) (m : Module F) : String :=
  "\n\n".intercalate (m.defs.map (cFunc showF))

/-! ### hoisting certificate -/

mutual
/-- all `(name, type)` declarations, in order -/
def Stmt.decls : Stmt F → List (String × Ty)
  | .decl n t => [(n, t)]
  | .declAssign n t _ => [(n, t)]
  | .block ss _ => declsL ss
  | .branch _ t f => t.decls ++ f.decls
  | .loop _ b => b.decls
  | _ => []
def declsL : List (Stmt F) → List (String × Ty)
  | [] => []
  | s :: ss => s.decls ++ declsL ss
end

/-- every name is declared with one type only (and parameters are not redeclared differently) -/
def hoistConsistent (params : List (String × Ty)) (body : Stmt F) : Bool :=
  let ds := params ++ body.decls
  ds.all fun d => ds.all fun d' => d.1 != d'.1 || d.2 == d'.2

end TV.IR
