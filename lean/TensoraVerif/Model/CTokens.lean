import TensoraVerif.Model.CPrint

/-
M8 (C side, reading direction): the token view of the C expression printer, an independent parser
for the C expression subset the printer emits (ISO C precedence and left associativity), the tree
that grammar assigns to the printed text (`leftAssoc`), and the computable certificates `Layered` /
`LeftNested` under which the printed text denotes the tree (up to / without re-association).

* `cToks showF e` is the token sequence of `cExpr showF e`; `renderC` turns tokens back into the
  string (binary operators with one space on each side, `, ` after a comma, everything else bare);
  `cExpr_eq_render` ties the two together for EVERY expression (also `alloc` / `realloc`).
* `cParse` accepts the subset WITHOUT `malloc` / `realloc` (those only occur as whole right-hand
  sides of assignments): `||` < `&&` < `== !=` < `< > <= >=` < `+ -` < `*` < cast < postfix < primary.
* Lexical caveats (outside the token model): an identifier token stands for one C identifier (so
  variable and attribute names must be C identifiers other than `true` / `false` / macro names), a
  number token stands for the literal text. A negative literal `-3` is, for a C lexer, unary minus
  applied to `3`; unary minus binds tighter than every binary operator, so treating it as one
  primary-level token is exact everywhere except in front of a postfix operator (`-3[i]`), and
  `Layered` only allows `var` / `attr` / `idx` in front of `->` and `[ ]`.
-/
namespace TV.IR

/-! ### tokens -/

inductive CTok where
  | id (s : String)
  | num (s : String)
  | plus | minus | star | eqeq | neq | gt | lt | ge | le | andand | oror
  | lpar | rpar | lbrack | rbrack | arrow | comma
  | tmax | tmin
  /-- the cast `(int32_t)` as one token -/
  | cast
  | ktrue | kfalse
  /-- only for `alloc` / `realloc`, which the parser does not accept -/
  | kmalloc | krealloc | ksizeof
  | tyName (s : String)
  deriving DecidableEq, Repr, Inhabited

def CTok.str : CTok → String
  | .id s => s
  | .num s => s
  | .plus => " + " | .minus => " - " | .star => " * "
  | .eqeq => " == " | .neq => " != " | .gt => " > " | .lt => " < " | .ge => " >= " | .le => " <= "
  | .andand => " && " | .oror => " || "
  | .lpar => "(" | .rpar => ")" | .lbrack => "[" | .rbrack => "]" | .arrow => "->" | .comma => ", "
  | .tmax => "TACO_MAX" | .tmin => "TACO_MIN"
  | .cast => "(int32_t)"
  | .ktrue => "true" | .kfalse => "false"
  | .kmalloc => "malloc" | .krealloc => "realloc" | .ksizeof => "sizeof"
  | .tyName s => s

def renderC : List CTok → String
  | [] => ""
  | t :: ts => t.str ++ renderC ts

/-- the token of a binary operator (`max` / `min`: the macro name) -/
def opTok : BinOp → CTok
  | .add => .plus | .sub => .minus | .mul => .star | .eq => .eqeq | .ne => .neq | .gt => .gt
  | .lt => .lt | .ge => .ge | .le => .le | .and => .andand | .or => .oror | .max => .tmax
  | .min => .tmin

variable {F : Type}

/-- `parens(code, wrap_me)` on tokens -/
def wrapP (p : Bool) (ts : List CTok) : List CTok :=
  if p then .lpar :: ts ++ [.rpar] else ts

/-- is the LEFT operand `l` of `op` printed in parentheses? -/
def parenL (op : BinOp) (l : Expr F) : Bool :=
  match op with
  | .mul => l.isAddSub
  | .and => l.isOr
  | _ => false

/-- is the RIGHT operand `r` of `op` printed in parentheses? -/
def parenR (op : BinOp) (r : Expr F) : Bool :=
  match op with
  | .sub => r.isAddSub
  | .mul => r.isAddSub
  | .and => r.isOr
  | _ => false

/-- the printer's token sequence -/
def cToks (showF : F → String) : Expr F → List CTok
  | .var n => [.id n]
  | .attr t a => cToks showF t ++ [.arrow, .id a]
  | .idx t i => cToks showF t ++ .lbrack :: cToks showF i ++ [.rbrack]
  | .intLit v => [.num (toString v)]
  | .floatLit v => [.num (showF v)]
  | .boolLit b => [if b then .ktrue else .kfalse]
  | .bin op l r =>
    match op with
    | .max => .tmax :: .lpar :: cToks showF l ++ .comma :: cToks showF r ++ [.rpar]
    | .min => .tmin :: .lpar :: cToks showF l ++ .comma :: cToks showF r ++ [.rpar]
    | _ => wrapP (parenL op l) (cToks showF l) ++ opTok op :: wrapP (parenR op r) (cToks showF r)
  | .b2i e => .cast :: .lpar :: cToks showF e ++ [.rpar]
  | .alloc t n =>
    .kmalloc :: .lpar :: .ksizeof :: .lpar :: .tyName (typeToC t none) :: .rpar :: .star ::
      wrapP n.isAddSub (cToks showF n) ++ [.rpar]
  | .realloc o t n =>
    .krealloc :: .lpar :: cToks showF o ++ .comma :: .ksizeof :: .lpar :: .tyName (typeToC t none) ::
      .rpar :: .star :: wrapP n.isAddSub (cToks showF n) ++ [.rpar]

/-! ### the C expression parser -/

/-- precedence level of the infix operators (`max` / `min` are macro calls: primary) -/
def opLvl : BinOp → Nat
  | .or => 0 | .and => 1 | .eq => 2 | .ne => 2 | .gt => 3 | .lt => 3 | .ge => 3 | .le => 3
  | .add => 4 | .sub => 4 | .mul => 5 | .max => 8 | .min => 8

/-- the infix operator a token denotes -/
def binOpOf : CTok → Option BinOp
  | .plus => some .add | .minus => some .sub | .star => some .mul | .eqeq => some .eq
  | .neq => some .ne | .gt => some .gt | .lt => some .lt | .ge => some .ge | .le => some .le
  | .andand => some .and | .oror => some .or
  | _ => none

/-- the nonterminal being parsed. `lvl n` (`n = 0 … 5`): the binary-operator level `n`, i.e.
`level(n) ::= level(n+1) (op_n level(n+1))*`; `lvl 6`: cast-expression
`(int32_t) cast-expression | postfix-expression`; `rest n lhs`: the `(op_n level(n+1))*` loop with the
tree built so far (left associativity); `prim`: primary-expression; `post lhs`: the
`(-> name | [ expression ])*` loop of postfix-expression. -/
inductive PMode (F : Type) where
  | lvl (n : Nat)
  | rest (n : Nat) (lhs : Expr F)
  | prim
  | post (lhs : Expr F)

/-- one unfolding of the recursive-descent parser: `self` stands for the recursive calls;
`readNum` reads a literal back from its text -/
def cStep (readNum : String → Expr F) (self : PMode F → List CTok → Option (Expr F × List CTok)) :
    PMode F → List CTok → Option (Expr F × List CTok)
  | .lvl n, ts =>
    if n < 6 then
      -- level(n) ::= level(n+1) (op_n level(n+1))*
      match self (.lvl (n + 1)) ts with
      | some (l, ts') => self (.rest n l) ts'
      | none => none
    else
      -- cast-expression ::= (int32_t) cast-expression | postfix-expression
      match ts with
      | .cast :: ts' =>
        match self (.lvl 6) ts' with
        | some (e, r) => some (.b2i e, r)
        | none => none
      | _ =>
        match self .prim ts with
        | some (e, r) => self (.post e) r
        | none => none
  | .rest n lhs, ts =>
    match ts with
    | [] => some (lhs, [])
    | t :: ts' =>
      match binOpOf t with
      | some op =>
        if opLvl op = n then
          match self (.lvl (n + 1)) ts' with
          | some (r, ts'') => self (.rest n (.bin op lhs r)) ts''
          | none => none
        else some (lhs, t :: ts')
      | none => some (lhs, t :: ts')
  | .prim, ts =>
    match ts with
    | .id s :: r => some (.var s, r)
    | .num s :: r => some (readNum s, r)
    | .ktrue :: r => some (.boolLit true, r)
    | .kfalse :: r => some (.boolLit false, r)
    | .lpar :: r =>
      match self (.lvl 0) r with
      | some (e, .rpar :: r') => some (e, r')
      | _ => none
    | .tmax :: .lpar :: r =>
      match self (.lvl 0) r with
      | some (a, .comma :: r') =>
        match self (.lvl 0) r' with
        | some (b, .rpar :: r'') => some (.bin .max a b, r'')
        | _ => none
      | _ => none
    | .tmin :: .lpar :: r =>
      match self (.lvl 0) r with
      | some (a, .comma :: r') =>
        match self (.lvl 0) r' with
        | some (b, .rpar :: r'') => some (.bin .min a b, r'')
        | _ => none
      | _ => none
    | _ => none
  | .post lhs, ts =>
    match ts with
    | .arrow :: .id a :: r => self (.post (.attr lhs a)) r
    | .lbrack :: r =>
      match self (.lvl 0) r with
      | some (i, .rbrack :: r') => self (.post (.idx lhs i)) r'
      | _ => none
    | _ => some (lhs, ts)

/-- fuel-indexed recursive descent: `fuel` bounds the nesting depth of the calls -/
def cP (readNum : String → Expr F) : Nat → PMode F → List CTok → Option (Expr F × List CTok)
  | 0 => fun _ _ => none
  | fuel + 1 => cStep readNum (cP readNum fuel)

/-- parse one expression (lowest level), returning the tree and the unconsumed tokens -/
def cParse (readNum : String → Expr F) (fuel : Nat) (ts : List CTok) : Option (Expr F × List CTok) :=
  cP readNum fuel (.lvl 0) ts

/-- the same language as a textbook grammar, in the left-recursive form of ISO C (6.5.1 – 6.5.14
restricted to the operators the printer emits): `CDerives n ts e` — the token string `ts` is an
expression of level `n` (0 – 5 the infix levels, 6 cast-expression, 7 postfix-expression,
8 primary-expression) with syntax tree `e`. `cParse` is sound for it (`cParse_sound`). -/
inductive CDerives (readNum : String → Expr F) : Nat → List CTok → Expr F → Prop where
  /-- `level(n) ::= level(n+1)` -/
  | up {n ts e} : n < 8 → CDerives readNum (n + 1) ts e → CDerives readNum n ts e
  /-- `level(n) ::= level(n) op_n level(n+1)` (left recursion: left associativity) -/
  | binop {n op ts1 ts2 l r} : opLvl op = n → n ≤ 5 → CDerives readNum n ts1 l →
      CDerives readNum (n + 1) ts2 r → CDerives readNum n (ts1 ++ opTok op :: ts2) (.bin op l r)
  /-- `cast-expression ::= (int32_t) cast-expression` -/
  | cast {ts e} : CDerives readNum 6 ts e → CDerives readNum 6 (.cast :: ts) (.b2i e)
  /-- `postfix-expression ::= postfix-expression -> identifier` -/
  | arrow {ts t a} : CDerives readNum 7 ts t → CDerives readNum 7 (ts ++ [.arrow, .id a]) (.attr t a)
  /-- `postfix-expression ::= postfix-expression [ expression ]` -/
  | index {ts ts' t i} : CDerives readNum 7 ts t → CDerives readNum 0 ts' i →
      CDerives readNum 7 (ts ++ .lbrack :: ts' ++ [.rbrack]) (.idx t i)
  | ident {s} : CDerives readNum 8 [.id s] (.var s)
  | num {s} : CDerives readNum 8 [.num s] (readNum s)
  | ktrue : CDerives readNum 8 [.ktrue] (.boolLit true)
  | kfalse : CDerives readNum 8 [.kfalse] (.boolLit false)
  /-- `primary-expression ::= ( expression )` -/
  | paren {ts e} : CDerives readNum 0 ts e → CDerives readNum 8 (.lpar :: ts ++ [.rpar]) e
  | tmax {ts1 ts2 a b} : CDerives readNum 0 ts1 a → CDerives readNum 0 ts2 b →
      CDerives readNum 8 (.tmax :: .lpar :: ts1 ++ .comma :: ts2 ++ [.rpar]) (.bin .max a b)
  | tmin {ts1 ts2 a b} : CDerives readNum 0 ts1 a → CDerives readNum 0 ts2 b →
      CDerives readNum 8 (.tmin :: .lpar :: ts1 ++ .comma :: ts2 ++ [.rpar]) (.bin .min a b)

/-! ### the tree C assigns to the printed text -/

/-- syntactic level of the printed form: infix operators by precedence, cast 6, postfix 7,
primary 8 (`alloc` / `realloc` are outside the fragment) -/
def Expr.lvl : Expr F → Nat
  | .bin op _ _ => opLvl op
  | .b2i _ => 6
  | .attr _ _ => 7
  | .idx _ _ => 7
  | _ => 8

/-- `x op r` where `r` was printed bare: the operators of `r`'s left spine that have the precedence
of `op` are applied first (left associativity), so `x` goes to the bottom of that spine -/
def graft (op : BinOp) (x : Expr F) : Expr F → Expr F
  | .bin op' y z => if opLvl op' = opLvl op then .bin op' (graft op x y) z else .bin op x (.bin op' y z)
  | r => .bin op x r

/-- `bin op x r` as C reads the printed text, `x` and `r` already in C's shape. The right operand of
`-` is parenthesised whenever it is `+` / `-`, so `sub` never re-associates. -/
def mkBin (op : BinOp) (x r : Expr F) : Expr F :=
  match op with
  | .sub => .bin .sub x r
  | .max => .bin .max x r
  | .min => .bin .min x r
  | _ => graft op x r

/-- the tree ISO C's grammar assigns to `cExpr e`: same-precedence chains nest to the left -/
def leftAssoc : Expr F → Expr F
  | .var n => .var n
  | .attr t a => .attr (leftAssoc t) a
  | .idx t i => .idx (leftAssoc t) (leftAssoc i)
  | .intLit v => .intLit v
  | .floatLit v => .floatLit v
  | .boolLit b => .boolLit b
  | .bin op l r => mkBin op (leftAssoc l) (leftAssoc r)
  | .b2i e => .b2i (leftAssoc e)
  | .alloc t n => .alloc t (leftAssoc n)
  | .realloc o t n => .realloc (leftAssoc o) t (leftAssoc n)

/-- literal well-formedness: `readNum` reads every literal of `e` back from its printed text -/
def LitsOk (readNum : String → Expr F) (showF : F → String) : Expr F → Prop
  | .var _ => True
  | .attr t _ => LitsOk readNum showF t
  | .idx t i => LitsOk readNum showF t ∧ LitsOk readNum showF i
  | .intLit v => readNum (toString v) = .intLit v
  | .floatLit v => readNum (showF v) = .floatLit v
  | .boolLit _ => True
  | .bin _ l r => LitsOk readNum showF l ∧ LitsOk readNum showF r
  | .b2i e => LitsOk readNum showF e
  | .alloc _ n => LitsOk readNum showF n
  | .realloc o _ n => LitsOk readNum showF o ∧ LitsOk readNum showF n

/-- reading integer literals back (carrier `F := Int`, `showF := toString`; float literals then
print like integers, so `LitsOk` holds exactly for trees without float literals) -/
def readIntLit (s : String) : Expr Int :=
  match s.toInt? with
  | some v => .intLit v
  | none => .var s

def Expr.noFloatLit : Expr F → Bool
  | .var _ => true
  | .attr t _ => t.noFloatLit
  | .idx t i => t.noFloatLit && i.noFloatLit
  | .intLit _ => true
  | .floatLit _ => false
  | .boolLit _ => true
  | .bin _ l r => l.noFloatLit && r.noFloatLit
  | .b2i e => e.noFloatLit
  | .alloc _ n => n.noFloatLit
  | .realloc o _ n => o.noFloatLit && n.noFloatLit

/-! ### certificates -/

/-- may stand in front of `->` / `[ ]` -/
def Expr.isPostfixTarget : Expr F → Bool
  | .var _ => true
  | .attr _ _ => true
  | .idx _ _ => true
  | _ => false

/-- the printer is faithful on `e` (up to left re-association): every bare operand of an infix
operator has at least the operator's precedence level; delimited positions (`[ ]`, macro arguments,
the cast's parenthesis, parenthesised operands) are arbitrary; `->` / `[ ]` follow `var` / `attr` /
`idx` only; no `alloc` / `realloc`. -/
def Layered : Expr F → Bool
  | .var _ => true
  | .attr t _ => t.isPostfixTarget && Layered t
  | .idx t i => t.isPostfixTarget && Layered t && Layered i
  | .intLit _ => true
  | .floatLit _ => true
  | .boolLit _ => true
  | .bin op l r =>
    Layered l && Layered r &&
      match op with
      | .max => true
      | .min => true
      | _ => (parenL op l || opLvl op ≤ l.lvl) && (parenR op r || opLvl op ≤ r.lvl)
  | .b2i e => Layered e
  | .alloc _ _ => false
  | .realloc _ _ _ => false

/-- no bare right operand of an infix operator has the operator's own precedence level: no
right-nested same-precedence chain, nothing for C to re-associate -/
def LeftNested : Expr F → Bool
  | .var _ => true
  | .attr t _ => LeftNested t
  | .idx t i => LeftNested t && LeftNested i
  | .intLit _ => true
  | .floatLit _ => true
  | .boolLit _ => true
  | .bin op l r =>
    LeftNested l && LeftNested r &&
      match op with
      | .max => true
      | .min => true
      | _ => parenR op r || opLvl op != r.lvl
  | .b2i e => LeftNested e
  | .alloc _ n => LeftNested n
  | .realloc o _ n => LeftNested o && LeftNested n

/-- the typed layering the code generator actually produces (a sufficient condition for `Layered`,
see `Layered_of_StrictLayered`): arithmetic operands are arithmetic-level, comparison operands are
arithmetic-level, `&&` / `||` operands are boolean-level -/
def Expr.isArithLevel : Expr F → Bool
  | .bin op _ _ => 4 ≤ opLvl op
  | .alloc _ _ => false
  | .realloc _ _ _ => false
  | .boolLit _ => false
  | _ => true

def Expr.isBoolLevel : Expr F → Bool
  | .bin op _ _ => opLvl op ≤ 3
  | .boolLit _ => true
  | .var _ => true
  | _ => false

def StrictLayered : Expr F → Bool
  | .var _ => true
  | .attr t _ => t.isPostfixTarget && StrictLayered t
  | .idx t i => t.isPostfixTarget && StrictLayered t && StrictLayered i
  | .intLit _ => true
  | .floatLit _ => true
  | .boolLit _ => true
  | .bin op l r =>
    StrictLayered l && StrictLayered r &&
      match op with
      | .max => true
      | .min => true
      | .and => l.isBoolLevel && r.isBoolLevel
      | .or => l.isBoolLevel && r.isBoolLevel
      | _ => l.isArithLevel && r.isArithLevel
  | .b2i e => StrictLayered e
  | .alloc _ _ => false
  | .realloc _ _ _ => false

/-! ### the certificates on statements (for the driver) -/

/-- the lexical side condition of the token model: a name is one C identifier token and none of the
words the expression grammar reserves -/
def isCIdent (s : String) : Bool :=
  match s.toList with
  | [] => false
  | c :: cs =>
    (c.isAlpha || c == '_') && cs.all (fun d => d.isAlphanum || d == '_') &&
      !(["true", "false", "TACO_MAX", "TACO_MIN", "malloc", "realloc", "sizeof", "int32_t"].contains s)

def Expr.identsOk : Expr F → Bool
  | .var n => isCIdent n
  | .attr t a => t.identsOk && isCIdent a
  | .idx t i => t.identsOk && i.identsOk
  | .intLit _ => true
  | .floatLit _ => true
  | .boolLit _ => true
  | .bin _ l r => l.identsOk && r.identsOk
  | .b2i e => e.identsOk
  | .alloc _ n => n.identsOk
  | .realloc o _ n => o.identsOk && n.identsOk

/-- the expressions of the fragment an expression position prints: the expression itself, or, for a
whole-right-hand-side `alloc` / `realloc`, its operands (the size is the right operand of
`sizeof(T) * …`, printed with the parenthesisation rule of `*`, so it is represented by that product) -/
def Expr.fragments : Expr F → List (Expr F)
  | .alloc _ n => [.bin .mul (.var "sizeof_T") n]
  | .realloc o _ n => [o, .bin .mul (.var "sizeof_T") n]
  | e => [e]

mutual
/-- every expression a statement prints (see `Expr.fragments`) -/
def Stmt.printedExprs : Stmt F → List (Expr F)
  | .expr e => e.fragments
  | .decl _ _ => []
  | .assign t v => t :: v.fragments
  | .declAssign _ _ v => v.fragments
  | .block ss _ => printedExprsL ss
  | .branch c t f => c :: (t.printedExprs ++ f.printedExprs)
  | .loop c b => c :: b.printedExprs
  | .ret e => e.fragments
def printedExprsL : List (Stmt F) → List (Expr F)
  | [] => []
  | s :: ss => s.printedExprs ++ printedExprsL ss
end

/-- every printed expression of the statement is `Layered` (so `cprint_parse` applies to each) -/
def Stmt.layered (s : Stmt F) : Bool := s.printedExprs.all Layered
/-- every printed expression is `LeftNested` (so the C text denotes exactly the trees) -/
def Stmt.leftNested (s : Stmt F) : Bool := s.printedExprs.all LeftNested
def Stmt.strictLayered (s : Stmt F) : Bool := s.printedExprs.all StrictLayered
def Stmt.identsOk (s : Stmt F) : Bool := s.printedExprs.all Expr.identsOk
/-- the printed expressions that are not `LeftNested`: where C re-associates (finding F10) -/
def Stmt.reassociated (s : Stmt F) : List (Expr F) := s.printedExprs.filter (!LeftNested ·)

end TV.IR
