/-
M14: concurrent evaluations over the shared kernel cache and the shared ownership table
(src/tensora/compile/_porcelain.py `cachable_tensor_method` = functools.lru_cache,
_tensor_method.py `TensorMethod.__call__`, _cffi_ownership.py `global_weakkeydict`).

Atomic steps (what the GIL makes atomic): cache lookup; compilation (a pure function of the key, no
shared state); cache insertion; allocation of the output struct with insertion under a fresh key into
the ownership table; the kernel run (a function of the call's own kernel and inputs, writing only its
own output); transfer of ownership (touches only the call's own table entry).
`compile` and `exec` are arbitrary functions: the theorems hold for every choice.
-/
namespace TV.Conc

structure Call where
  key : Nat
  input : Nat
  deriving DecidableEq, Repr, Inhabited

inductive Phase where
  | start                      -- before the cache lookup
  | missed                     -- lookup missed: must compile
  | compiled (kernel : Nat)    -- compiled, not yet inserted
  | ready (kernel : Nat)       -- has a kernel (hit, or inserted)
  | allocated (kernel : Nat) (slot : Nat)
  | ran (kernel : Nat) (slot : Nat) (out : Nat)
  | done (out : Nat)
  deriving DecidableEq, Repr, Inhabited

structure Shared where
  /-- kernel cache: key ↦ kernel -/
  cache : List (Nat × Nat)
  /-- ownership table: slot ↦ (owning thread, owns arrays?) -/
  table : List (Nat × Nat × Bool)
  nextSlot : Nat
  deriving DecidableEq, Repr, Inhabited

structure Sys where
  threads : List (Call × Phase)
  shared : Shared
  deriving DecidableEq, Repr, Inhabited

def Sys.init (calls : List Call) (warm : List (Nat × Nat)) : Sys :=
  ⟨calls.map fun c => (c, .start), ⟨warm, [], 0⟩⟩

def cacheGet (cache : List (Nat × Nat)) (k : Nat) : Option Nat := (cache.find? (·.1 == k)).map (·.2)

variable (compile : Nat → Nat) (exec : Nat → Nat → Nat)

/-- thread `t` takes its next atomic step (no-op when `t` is done or out of range) -/
def step (s : Sys) (t : Nat) : Sys :=
  match s.threads[t]? with
  | none => s
  | some (c, ph) =>
    let setPh (ph' : Phase) (sh : Shared) : Sys := ⟨s.threads.set t (c, ph'), sh⟩
    match ph with
    | .start =>
      match cacheGet s.shared.cache c.key with
      | some k => setPh (.ready k) s.shared
      | none => setPh .missed s.shared
    | .missed => setPh (.compiled (compile c.key)) s.shared
    | .compiled k =>
      -- lru_cache stores the result under the key (a concurrent identical insert is overwritten)
      setPh (.ready k) { s.shared with cache := (c.key, k) :: s.shared.cache.filter (·.1 != c.key) }
    | .ready k =>
      setPh (.allocated k s.shared.nextSlot)
        { s.shared with table := (s.shared.nextSlot, t, false) :: s.shared.table, nextSlot := s.shared.nextSlot + 1 }
    | .allocated k slot => setPh (.ran k slot (exec k c.input)) s.shared
    | .ran _ slot out =>
      setPh (.done out)
        { s.shared with table := s.shared.table.map fun e => if e.1 == slot then (e.1, e.2.1, true) else e }
    | .done _ => s

def runSched (s : Sys) (sched : List Nat) : Sys := sched.foldl (step compile exec) s

/-- what the same call returns when made alone -/
def sequential (c : Call) : Nat := exec (compile c.key) c.input

end TV.Conc
