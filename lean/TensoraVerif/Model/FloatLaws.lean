import TensoraVerif.Model.Machine

/-
Hypotheses on the floating-point carrier under which the optimiser's float rules are sound.
They are *hypotheses of theorems* (a `Prop`-valued class), never axioms. Intended reading: `F` is
IEEE-754 binary64 restricted to non-NaN values and taken modulo the sign of zero ("numerical
equality", as in the statement of C07). `Int` is a lawful instance (`FloatLaws.instInt` below), so
no theorem that assumes `FloatLaws F` is vacuous.
-/
namespace TV.IR

class FloatLaws (F : Type) [FloatOps F] : Prop where
  eq_true : ∀ a b : F, FloatOps.eq a b = true → a = b
  eq_refl : ∀ a : F, FloatOps.finite a = true → FloatOps.eq a a = true
  lt_irrefl : ∀ a : F, FloatOps.lt a a = false
  finite_zero : FloatOps.finite (FloatOps.zero : F) = true
  finite_one : FloatOps.finite (FloatOps.one : F) = true
  zero_add : ∀ a : F, FloatOps.finite a = true → FloatOps.add FloatOps.zero a = a
  add_zero : ∀ a : F, FloatOps.finite a = true → FloatOps.add a FloatOps.zero = a
  sub_zero : ∀ a : F, FloatOps.finite a = true → FloatOps.sub a FloatOps.zero = a
  zero_mul : ∀ a : F, FloatOps.finite a = true → FloatOps.mul FloatOps.zero a = FloatOps.zero
  mul_zero : ∀ a : F, FloatOps.finite a = true → FloatOps.mul a FloatOps.zero = FloatOps.zero
  one_mul : ∀ a : F, FloatOps.finite a = true → FloatOps.mul FloatOps.one a = a
  mul_one : ∀ a : F, FloatOps.finite a = true → FloatOps.mul a FloatOps.one = a
  ofInt_zero : (FloatOps.ofInt 0 : F) = FloatOps.zero
  ofInt_one : (FloatOps.ofInt 1 : F) = FloatOps.one
  finite_ofInt : ∀ i : Int, inI32 i = true → FloatOps.finite (FloatOps.ofInt i : F) = true
  /-- int32 arithmetic whose exact result is again int32 is computed exactly in binary64 -/
  add_ofInt : ∀ i j : Int, inI32 i = true → inI32 j = true → inI32 (i + j) = true →
    FloatOps.add (FloatOps.ofInt i : F) (FloatOps.ofInt j) = FloatOps.ofInt (i + j)
  sub_ofInt : ∀ i j : Int, inI32 i = true → inI32 j = true → inI32 (i - j) = true →
    FloatOps.sub (FloatOps.ofInt i : F) (FloatOps.ofInt j) = FloatOps.ofInt (i - j)
  mul_ofInt : ∀ i j : Int, inI32 i = true → inI32 j = true → inI32 (i * j) = true →
    FloatOps.mul (FloatOps.ofInt i : F) (FloatOps.ofInt j) = FloatOps.ofInt (i * j)
  lt_ofInt : ∀ i j : Int, inI32 i = true → inI32 j = true →
    FloatOps.lt (FloatOps.ofInt i : F) (FloatOps.ofInt j) = decide (i < j)
  eq_ofInt : ∀ i j : Int, inI32 i = true → inI32 j = true →
    FloatOps.eq (FloatOps.ofInt i : F) (FloatOps.ofInt j) = decide (i = j)

/-- the integers as a (trivially exact) float carrier: witnesses that the laws are consistent -/
instance FloatOps.instInt : FloatOps Int where
  zero := 0
  one := 1
  add := (· + ·)
  sub := (· - ·)
  mul := (· * ·)
  ofInt := id
  lt a b := decide (a < b)
  eq a b := decide (a = b)
  finite _ := true

instance FloatLaws.instInt : FloatLaws Int where
  eq_true a b h := by simpa [FloatOps.eq] using h
  eq_refl a _ := by simp [FloatOps.eq]
  lt_irrefl a := by simp [FloatOps.lt]
  finite_zero := rfl
  finite_one := rfl
  zero_add a _ := by simp [FloatOps.add, FloatOps.zero]
  add_zero a _ := by simp [FloatOps.add, FloatOps.zero]
  sub_zero a _ := by simp [FloatOps.sub, FloatOps.zero]
  zero_mul a _ := by simp [FloatOps.mul, FloatOps.zero]
  mul_zero a _ := by simp [FloatOps.mul, FloatOps.zero]
  one_mul a _ := by simp [FloatOps.mul, FloatOps.one]
  mul_one a _ := by simp [FloatOps.mul, FloatOps.one]
  ofInt_zero := rfl
  ofInt_one := rfl
  finite_ofInt _ _ := rfl
  add_ofInt _ _ _ _ _ := rfl
  sub_ofInt _ _ _ _ _ := rfl
  mul_ofInt _ _ _ _ _ := rfl
  lt_ofInt _ _ _ _ := rfl
  eq_ofInt _ _ _ _ := rfl

end TV.IR
