import TensoraVerif.Model.IR
import TensoraVerif.Model.IterGraph

/-
Stage 3: port of the lowering pass — src/tensora/iteration_graph/_generate_ir.py,
_write_sparse_ir.py, _names.py, outputs/_append.py, outputs/_bucket.py, outputs/_base.py,
identifiable_expression/_to_ir.py and the `SourceBuilder` of src/tensora/ir/_builder.py —
producing exactly the IR tree the Python code emits (compared constructor for constructor on every
run). Together with `Alg.desugar`, `Graph.bestAlgorithm` and `IR.peepM` this is the whole compiler.
-/
namespace TV.Gen
open TV.IR TV.Graph

variable {F : Type} [FloatOps F]

inductive Kind where
  | assemble | compute | evaluate
  deriving DecidableEq, Repr, Inhabited

def Kind.isAssemble : Kind → Bool
  | .assemble => true | .evaluate => true | .compute => false
def Kind.isCompute : Kind → Bool
  | .compute => true | .evaluate => true | .assemble => false
def Kind.name : Kind → String
  | .assemble => "assemble" | .compute => "compute" | .evaluate => "evaluate"

/-! ### names -/
def v (s : String) : Expr F := .var s
def dimName (i : String) : String := i ++ "_dim"
def posName (t : String) (l : Nat) : String := t ++ "_" ++ toString l ++ "_pos"
def crdName (t : String) (l : Nat) : String := t ++ "_" ++ toString l ++ "_crd"
def valsName (t : String) : String := t ++ "_vals"
def posCapName (t : String) (l : Nat) : String := t ++ "_" ++ toString l ++ "_pos_capacity"
def crdCapName (t : String) (l : Nat) : String := t ++ "_" ++ toString l ++ "_crd_capacity"
def valsCapName (t : String) : String := t ++ "_vals_capacity"
def layerPointer (ref : String) (l : Nat) : String := "p_" ++ ref ++ "_" ++ toString l
def prevLayerPointer (ref : String) (l : Nat) : Expr F :=
  if l = 0 then .intLit 0 else .var (layerPointer ref (l - 1))
def sparseEndName (ref : String) (l : Nat) : String := "p_" ++ ref ++ "_" ++ toString l ++ "_end"
def valueFromCrd (ref : String) (l : Nat) : String := "i_" ++ ref ++ "_" ++ toString l
def writtenName (t : String) (l : Nat) : String := "written_" ++ t ++ "_" ++ toString l

/-! ### SourceBuilder: a comment and a list of lines; appending a builder inlines it unless it has a comment -/
structure SB (F : Type) where
  comment : Option String
  lines : List (Stmt F)

def SB.empty : SB F := ⟨none, []⟩
def SB.mk' (c : Option String) : SB F := ⟨c, []⟩
def SB.add (b : SB F) (s : Stmt F) : SB F := { b with lines := b.lines ++ [s] }
def SB.append (b : SB F) (x : SB F) : SB F :=
  match x.comment with
  | some c => { b with lines := b.lines ++ [.block x.lines (some c)] }
  | none => { b with lines := b.lines ++ x.lines }
def SB.finalize (b : SB F) : Stmt F := .block b.lines b.comment
/-- `with source.branch(cond): …` -/
def SB.branch (b : SB F) (c : Expr F) (body : List (Stmt F)) : SB F :=
  b.add (.branch c (.block body none) (.block [] none))
def SB.loop (b : SB F) (c : Expr F) (body : List (Stmt F)) : SB F := b.add (.loop c (.block body none))

/-! ### small IR helpers (`Expression.plus/times`, `Assignable.increment`, `join`) -/
def plus (a b : Expr F) : Expr F := .bin .add a b
def times (a b : Expr F) : Expr F := .bin .mul a b
def declAssignE (n : String) (t : Ty) (e : Expr F) : Stmt F := .declAssign n t e
def increment (target : Expr F) (amount : Expr F) : Stmt F := .assign target (plus target amount)
def joinWith (op : BinOp) (init : Expr F) (xs : List (Expr F)) : Expr F := xs.foldl (.bin op) init
def mulJoin (xs : List (Expr F)) : Expr F := joinWith .mul (.intLit 1) xs
def addJoin (xs : List (Expr F)) : Expr F := joinWith .add (.intLit 0) xs
def andJoin (xs : List (Expr F)) : Expr F := joinWith .and (.boolLit true) xs
/-- `reduce(Min, operands)` without initial value -/
def minJoin : List (Expr F) → Expr F
  | [] => .intLit 0
  | x :: xs => xs.foldl (.bin .min) x
/-- `Branch.join(leaves)`: fold right into an if / else-if chain ending in an empty block -/
def branchJoin : List (Expr F × Stmt F) → Stmt F
  | [] => .block [] none
  | (c, s) :: rest => .branch c s (branchJoin rest)

/-! ### tensor layers -/
def _root_.TV.Graph.Leaf.mode (l : Leaf) : Mode := l.tensor.modes.getD l.layer .dense
def _root_.TV.Graph.Leaf.index (l : Leaf) : String := l.tensor.indexes.getD l.layer ""
def _root_.TV.Graph.Leaf.ptr (l : Leaf) : String := layerPointer l.tensor.id l.layer
def _root_.TV.Graph.Leaf.prevPtr (l : Leaf) : Expr F := prevLayerPointer l.tensor.id l.layer

/-! ### `_write_sparse_ir.py` -/
def writeSparseInit (leaf : Leaf) : SB F :=
  let start : Expr F := leaf.prevPtr
  let pos : Expr F := .var (posName leaf.tensor.name leaf.layer)
  (((SB.empty : SB F).add (declAssignE leaf.ptr .int (.idx pos start))).add
    (declAssignE (sparseEndName leaf.tensor.id leaf.layer) .int (.idx pos (plus start (.intLit 1)))))

def writeCrdAssembly (out : Leaf) : SB F :=
  let pointer : Expr F := .var out.ptr
  let cap : Expr F := .var (crdCapName out.tensor.name out.layer)
  let crd : Expr F := .var (crdName out.tensor.name out.layer)
  let b : SB F := SB.mk' (some "crd assembly")
  let b := b.branch (.bin .ge pointer cap)
    [.assign cap (times cap (.intLit 2)), .assign crd (.realloc crd .int cap)]
  b.add (.assign (.idx crd pointer) (.var out.index))

def writePosAssembly (out : Leaf) : SB F :=
  let b : SB F := SB.mk' (some "pos assembly")
  b.add (.assign (.idx (.var (posName out.tensor.name out.layer)) (plus out.prevPtr (.intLit 1))) (.var out.ptr))

/-- dense dimensions directly below layer `l` (up to the next compressed one) -/
def denseBelow (t : TensorId) (l : Nat) : List String :=
  ((List.range (t.indexes.length - (l + 1))).map (· + l + 1)).foldl
    (fun (acc : List String × Bool) k =>
      if acc.2 then acc
      else if t.modes.getD k .dense == .compressed then (acc.1, true)
      else (acc.1 ++ [dimName (t.indexes.getD k "")], false)) ([], false) |>.1

def writePosAllocation (out : Leaf) : SB F :=
  let t := out.tensor
  let dense := denseBelow t out.layer
  let target := out.layer + dense.length + 1
  let isVals := target == t.indexes.length
  let comment := if isVals then "vals allocation" else "pos allocation for next sparse layer"
  let cap : Expr F := if isVals then .var (valsCapName t.name) else .var (posCapName t.name target)
  let arr : Expr F := if isVals then .var (valsName t.name) else .var (posName t.name target)
  let ty : Ty := if isVals then .float else .int
  let bonus : Int := if isVals then 0 else 1
  let b : SB F := SB.mk' (some comment)
  if dense.isEmpty then
    let minCap : Expr F := plus (.var out.ptr) (.intLit bonus)
    b.branch (.bin .ge minCap cap) [.assign cap (times cap (.intLit 2)), .assign arr (.realloc arr ty cap)]
  else
    let minCap : Expr F := plus (times (plus (.var out.ptr) (.intLit 1)) (mulJoin (dense.map .var))) (.intLit bonus)
    b.branch (.bin .ge minCap cap)
      [.assign cap (.bin .max (times cap (.intLit 2)) minCap), .assign arr (.realloc arr ty cap)]

/-! ### outputs -/
inductive Output where
  | append (out : TensorId) (nextLayer : Nat)
  | bucket (out : TensorId) (layers : List Nat)

def Output.tensor : Output → TensorId
  | .append t _ => t
  | .bucket t _ => t

def Output.writtenFlags (o : Output) : List String :=
  let t := o.tensor
  (List.range t.modes.length).filterMap fun l =>
    if t.modes.getD l .dense == .compressed then some (writtenName t.name l) else none

def Output.hasSparseLayer (o : Output) : Bool := o.tensor.modes.any (· == .compressed)

def bucketSuffix (layers : List Nat) : String := String.join (layers.map fun x => "_" ++ toString x)
def bucketName (t : TensorId) (layers : List Nat) : String := "bucket_" ++ t.id ++ bucketSuffix layers
def bucketLoopName (t : TensorId) (layers : List Nat) : String := "i_bucket_" ++ t.id ++ bucketSuffix layers
def bucketDims (t : TensorId) (layers : List Nat) : List (Expr F) := layers.map fun l => .var (dimName (t.indexes.getD l ""))

/-- `default_array_size`: a parameter so that the harness can vary the initial capacity -/
def defaultArraySize (cap : Option Int) : Expr F :=
  match cap with
  | some n => .intLit n
  | none => .bin .mul (.intLit 1024) (.intLit 1024)

/-- `BucketOutput.write_declarations(right_hand_side)` -/
def bucketDeclarations (t : TensorId) (layers : List Nat) (rhs : Expr F) : SB F :=
  let name := bucketName t layers
  let loopIdx := bucketLoopName t layers
  let b : SB F := SB.mk' (some "Bucket initialization")
  let b := b.add (declAssignE name (.ptr .float) rhs)
  let b := b.add (declAssignE loopIdx .int (.intLit 0))
  b.loop (.bin .lt (.var loopIdx) (mulJoin (bucketDims t layers)))
    [.assign (.idx (.var name) (.var loopIdx)) (.intLit 0), increment (.var loopIdx) (.intLit 1)]

/-- `ravel_indexes` -/
def ravelIndexes (dims idxs : List (Expr F)) : Expr F :=
  let step := (dims.reverse.zip idxs.reverse).foldl
    (fun (acc : List (Expr F) × List (Expr F)) di =>
      (acc.1 ++ [mulJoin (di.2 :: acc.2)], acc.2 ++ [di.1])) ([], [])
  addJoin step.1.reverse

inductive GenErr where
  | notImplemented
  | runtime
  deriving DecidableEq, Repr, Inhabited

/-- `write_assignment` -/
def Output.writeAssignment (o : Output) (rhs : Expr F) : Except GenErr (SB F) :=
  match o with
  | .append t n =>
    if n != t.indexes.length then .error .runtime
    else .ok ((SB.empty : SB F).add (.assign (.idx (.var (valsName t.name)) (prevLayerPointer t.id t.indexes.length)) rhs))
  | .bucket t layers =>
    let idx := ravelIndexes (bucketDims t layers) (layers.map fun l => .var (t.indexes.getD l ""))
    .ok ((SB.empty : SB F).add (increment (.idx (.var (bucketName t layers)) idx) rhs))

/-- `next_output`: new output object and the declarations to emit -/
def Output.next (o : Output) (layer : Option Nat) (k : Kind) : Except GenErr (Output × SB F) :=
  match o with
  | .bucket t ls => .ok (.bucket t ls, SB.empty)
  | .append t n =>
    if layer == some n then .ok (.append t (n + 1), SB.empty)
    else if (t.modes.drop n).all (· == .dense) then
      let layers := (List.range (t.modes.length - n)).map (· + n)
      let dims : List (Expr F) := (t.indexes.drop n).map fun i => .var (dimName i)
      let bucket : Expr F := plus (.var (valsName t.name)) (times (prevLayerPointer t.id n) (mulJoin dims))
      .ok (.bucket t layers, if k.isCompute then bucketDeclarations t layers bucket else SB.empty)
    else .error .notImplemented

/-- `AppendOutput.write_declarations` -/
def appendDeclarations (cap : Option Int) (t : TensorId) (k : Kind) : SB F :=
  let b : SB F := SB.mk' (some "Output initialization")
  let step := (List.range t.modes.length).foldl (fun (acc : SB F × Bool) i =>
    match t.modes.getD i .dense with
    | .dense => acc
    | .compressed =>
      let b := acc.1
      let b := if k.isAssemble then
          let posSize : Expr F := if acc.2
            then plus (mulJoin ((List.range i).map fun j => .var (dimName (t.indexes.getD j "")))) (.intLit 1)
            else defaultArraySize cap
          let posCap := posCapName t.name i
          let posArr : Expr F := .var (posName t.name i)
          let b := b.add (declAssignE posCap .int posSize)
          let b := b.add (.assign posArr (.alloc .int (.var posCap)))
          let b := b.add (.assign (.idx posArr (.intLit 0)) (.intLit 0))
          let crdCap := crdCapName t.name i
          let b := b.add (declAssignE crdCap .int (defaultArraySize cap))
          b.add (.assign (.var (crdName t.name i)) (.alloc .int (.var crdCap)))
        else b
      (b.add (declAssignE (layerPointer t.id i) .int (.intLit 0)), false)) (b, true)
  let b := step.1
  if k.isAssemble then
    let valsSize : Expr F := if step.2
      then mulJoin ((List.range t.indexes.length).map fun (i : Nat) => .idx (.attr (.var t.name) "dimensions") (.intLit (Int.ofNat i)))
      else defaultArraySize cap
    let b := b.add (declAssignE (valsCapName t.name) .int valsSize)
    b.add (.assign (.var (valsName t.name)) (.alloc .float (.var (valsCapName t.name))))
  else b

/-- `AppendOutput.write_cleanup` -/
def appendCleanup (t : TensorId) (k : Kind) : SB F :=
  let b : SB F := SB.mk' (some ("Assembling output tensor " ++ t.name))
  if !k.isAssemble then b else
  let tv : Expr F := .var t.name
  let step := (List.range t.modes.length).foldl
    (fun (acc : SB F × Bool × Expr F × Expr F) i =>
      let (b, allDense, prevSize, padded) := acc
      match t.modes.getD i .dense with
      | .dense =>
        let d : Expr F := .var (dimName (t.indexes.getD i ""))
        (b, allDense, times prevSize d, times padded d)
      | .compressed =>
        let posArr : Expr F := .var (posName t.name i)
        let b := if !allDense then b.add (.assign posArr (.realloc posArr .int (plus prevSize (.intLit 1)))) else b
        let crdArr : Expr F := .var (crdName t.name i)
        let final : Expr F := .var (layerPointer t.id i)
        let b := b.add (.assign crdArr (.realloc crdArr .int final))
        let b := b.add (.assign (.idx (.idx (.attr tv "indices") (.intLit i)) (.intLit 0)) posArr)
        let b := b.add (.assign (.idx (.idx (.attr tv "indices") (.intLit i)) (.intLit 1)) crdArr)
        (b, false, final, plus final (.intLit 1)))
    (b, true, (.intLit 1 : Expr F), (.intLit 1 : Expr F))
  let (b, allDense, _, padded) := step
  let valsArr : Expr F := .var (valsName t.name)
  let b := if !allDense then b.add (.assign valsArr (.realloc valsArr .float padded)) else b
  b.add (.assign (.attr tv "vals") valsArr)

/-! ### graph helpers -/
mutual
/-- `extract_context(index)` on graphs -/
def _root_.TV.Graph.IGraph.context (i : String) : IGraph → Context
  | .terminal e => extractContext e i
  | .iter _ _ n => n.context i
  | .sum ts => contextL i ts
def contextL (i : String) : List IGraph → Context
  | [] => ⟨true, [], []⟩
  | t :: ts =>
    -- left fold `context.add(term)` starting from Context(is_sparse=True)
    let rest := contextL i ts
    let c := t.context i
    ⟨c.isSparse && rest.isSparse, c.sparseLeaves ++ rest.sparseLeaves, c.denseLeaves ++ rest.denseLeaves⟩
end

def nodeContext : IGraph → Context
  | .iter i _ n => n.context i
  | _ => ⟨false, [], []⟩

def dedupStr (xs : List String) : List String :=
  xs.foldl (fun acc x => if acc.contains x then acc else acc ++ [x]) []

/-- `compressed_dimensions()` as the ordered key -/
def compressedDims (g : IGraph) : List String := dedupStr ((nodeContext g).sparseLeaves.map (·.tensor.id))

def sameSet (a b : List String) : Bool := a.all b.contains && b.all a.contains

mutual
/-- `exhaust_tensor` on graphs -/
def _root_.TV.Graph.IGraph.exhaust (ref : String) : IGraph → IGraph
  | .terminal e => .terminal (Graph.exhaust e ref)
  | .iter i o n => .iter i o (n.exhaust ref)
  | .sum ts =>
    match exhaustL ref ts with
    | [] => .terminal (.int 0)
    | [single] => single
    | ts' => .sum ts'
def exhaustL (ref : String) : List IGraph → List IGraph
  | [] => []
  | t :: ts => t.exhaust ref :: exhaustL ref ts
end

/-- Python `dict.__setitem__` with set-valued keys: an equal key keeps its place (and key object) -/
def dictSet (d : List (List String × IGraph)) (k : List String) (g : IGraph) : List (List String × IGraph) :=
  if d.any (fun e => sameSet e.1 k) then d.map fun e => if sameSet e.1 k then (e.1, g) else e
  else d ++ [(k, g)]

/-- stable sort by decreasing key length -/
def sortByLenDesc (gs : List IGraph) : List IGraph :=
  let maxLen := gs.foldl (fun m g => max m (compressedDims g).length) 0
  (List.range (maxLen + 1)).reverse.flatMap fun n => gs.filter fun g => (compressedDims g).length == n

/-- `generate_subgraphs(graph)` -/
def generateSubgraphs (graph : IGraph) : List IGraph :=
  let k0 := compressedDims graph
  let rec go : Nat → List (List String × IGraph) → List (List String × IGraph) → List (List String × IGraph)
    | 0, all, _ => all
    | fuel + 1, all, old =>
      let new := old.foldl (fun acc kg =>
        kg.1.reverse.foldl (fun acc2 layer =>
          let ng := kg.2.exhaust layer
          dictSet acc2 (compressedDims ng) ng) acc) []
      if new.isEmpty then all
      else go fuel (new.foldl (fun a kg => dictSet a kg.1 kg.2) all) new
  sortByLenDesc ((go (k0.length + 2) [(k0, graph)] [(k0, graph)]).map (·.2))

/-- `to_ir` of identifiable expressions -/
def toIr : IdExpr → Expr F
  | .int v => .floatLit (FloatOps.ofInt v)
  | .flt _ => .floatLit FloatOps.zero   -- replaced by the literal table of the driver (see `toIrWith`)
  | .tensor t => .idx (.var (valsName t.name)) (prevLayerPointer t.id t.indexes.length)
  | .add l r => .bin .add (toIr l) (toIr r)
  | .mul l r => .bin .mul (toIr l) (toIr r)

/-- `to_ir` with an explicit conversion of rational literals to the float carrier -/
def toIrWith (ofRat : Rat → F) : IdExpr → Expr F
  | .int v => .floatLit (ofRat v)
  | .flt q => .floatLit (ofRat q)
  | .tensor t => .idx (.var (valsName t.name)) (prevLayerPointer t.id t.indexes.length)
  | .add l r => .bin .add (toIrWith ofRat l) (toIrWith ofRat r)
  | .mul l r => .bin .mul (toIrWith ofRat l) (toIrWith ofRat r)

def isSparseOutput : IGraph → Bool
  | .iter _ (some l) _ => l.mode == .compressed
  | _ => false

/-- layers of a dense run that become computable at this node (the "Compute dense indexes" block) -/
def layersToWrite (leaf : Leaf) (indexVariable : String) (later : List String) : List Leaf :=
  let t := leaf.tensor
  -- needed indexes of adjacent dense layers above
  let above := ((List.range leaf.layer).reverse).foldl (fun (acc : List String × Bool) l =>
    if acc.2 then acc
    else if t.modes.getD l .dense == .dense then (acc.1 ++ [t.indexes.getD l ""], false) else (acc.1, true)) ([], false)
  let step := ((List.range (t.indexes.length - leaf.layer)).map (· + leaf.layer)).foldl
    (fun (acc : List String × List Leaf × Bool) l =>
      let (needed, out, stop) := acc
      if stop then acc
      else if t.modes.getD l .dense != .dense then (needed, out, true)
      else
        let needed := needed ++ [t.indexes.getD l ""]
        let before := needed.filter fun x => !later.contains x
        let after := before ++ [indexVariable]
        let sub (a b : List String) : Bool := a.all b.contains
        if !(sub needed before) && sub needed after then (needed, out ++ [⟨t, l⟩], false) else (needed, out, false))
    (above.1, [], false)
  step.2.1

mutual
/-- `to_ir_iteration_graph` -/
def lower (ofRat : Rat → F) : Nat → IGraph → Output → Kind → Except GenErr (SB F)
  | 0, _, _, _ => .error .runtime
  | fuel + 1, .terminal e, out, k => do
    let b : SB F := SB.mk' (some "*** Computation of expression ***")
    let b := if e != .int 0 then out.writtenFlags.foldl (fun b f => b.add (.assign (.var f) (.boolLit true))) b else b
    if k.isCompute then
      let w ← out.writeAssignment (toIrWith ofRat e)
      pure (b.append w)
    else pure b
  | fuel + 1, .sum ts, out, k => do
    let b : SB F := SB.mk' (some "*** Sum ***")
    if k.isCompute || out.hasSparseLayer then
      let (next, decls) ← out.next none k
      let b := b.append decls
      lowerTerms ofRat fuel ts next k b
    else pure b
  | fuel + 1, .iter index output next, out, k => do
    let self : IGraph := .iter index output next
    let b : SB F := SB.mk' (some ("*** Iteration over " ++ index ++ " ***"))
    if !k.isCompute && !out.hasSparseLayer then pure b else
    let loopVar : Expr F := .var index
    let ctx := nodeContext self
    let sparseOut := isSparseOutput self
    let isSparse := ctx.isSparse && (output.isNone || sparseOut)
    let (nextOut, decls) ← out.next (output.map (·.layer)) k
    let b := b.append decls
    let writtenFlag : String := match output with | some l => writtenName l.tensor.name l.layer | none => ""
    let b := if !isSparse then b.add (declAssignE index .int (.intLit 0)) else b
    let b := ctx.sparseLeaves.foldl (fun b leaf => b.append (writeSparseInit leaf)) b
    let later := self.laterIndexes
    let subnodes := generateSubgraphs self
    let b ← subnodes.foldlM (fun (b : SB F) subnode => do
      let sctx := nodeContext subnode
      if isSparse && (compressedDims subnode).isEmpty then pure b else
      let sparseLeaves := sctx.sparseLeaves
      let denseLeaves := sctx.denseLeaves
      let whileCond : Expr F :=
        if !sparseLeaves.isEmpty then
          andJoin (sparseLeaves.map fun l => .bin .lt (.var l.ptr) (.var (sparseEndName l.tensor.id l.layer)))
        else .bin .lt loopVar (.var (dimName index))
      -- body of the loop
      let body : SB F := SB.empty
      let body := sparseLeaves.foldl (fun body l =>
        body.add (declAssignE (valueFromCrd l.tensor.id l.layer) .int (.idx (.var (crdName l.tensor.name l.layer)) (.var l.ptr)))) body
      let body := if isSparse
        then body.add (declAssignE index .int (minJoin (sparseLeaves.map fun l => .var (valueFromCrd l.tensor.id l.layer))))
        else body
      let maybeDenseOut : List Leaf := match output, out with
        | some l, .append _ _ => if l.mode == .dense then [l] else []
        | _, _ => []
      let body := (maybeDenseOut ++ denseLeaves).foldl (fun body leaf =>
        (layersToWrite leaf index later).foldl (fun body layer =>
          let idxI := layer.index
          body.add (declAssignE layer.ptr .int (plus (times layer.prevPtr (.var (dimName idxI))) (.var idxI)))) body) body
      -- subsubnodes: exclusive branches
      let subsub := generateSubgraphs subnode
      let leaves ← subsub.foldlM (fun (acc : List (Expr F × Stmt F)) ss => do
        if isSparse && (compressedDims ss).isEmpty then pure acc else
        let ssLeaves := (nodeContext ss).sparseLeaves
        let cond : Expr F := andJoin (ssLeaves.map fun l => .bin .eq (.var (valueFromCrd l.tensor.id l.layer)) loopVar)
        let blk : SB F := SB.empty
        let blk := match output with
          | some l => if k.isAssemble && sparseOut then blk.append (writePosAllocation l) else blk
          | none => blk
        let blk := if sparseOut then blk.add (declAssignE writtenFlag .bool (.boolLit false)) else blk
        let ssNext := match ss with | .iter _ _ n => n | g => g
        let inner ← lower ofRat fuel ssNext nextOut k
        let blk := blk.append inner
        let blk := match output with
          | some l =>
            if sparseOut then
              let br : SB F := SB.empty
              let br := if k.isAssemble then br.append (writeCrdAssembly l) else br
              let br := br.add (increment (.var l.ptr) (.intLit 1))
              blk.branch (.var writtenFlag) br.lines
            else blk
          | none => blk
        pure (acc ++ [(cond, blk.finalize)])) []
      let body := body.add (branchJoin leaves)
      let body := sparseLeaves.foldl (fun body l =>
        body.add (increment (.var l.ptr) (.b2i (.bin .eq (.var (valueFromCrd l.tensor.id l.layer)) loopVar)))) body
      let body := if !isSparse then body.add (increment loopVar (.intLit 1)) else body
      pure (b.loop whileCond body.lines)) b
    let b := match output with
      | some l => if k.isAssemble && sparseOut then b.append (writePosAssembly l) else b
      | none => b
    pure b
def lowerTerms (ofRat : Rat → F) : Nat → List IGraph → Output → Kind → SB F → Except GenErr (SB F)
  | _, [], _, _, b => pure b
  | fuel, t :: ts, out, k, b => do
    let x ← lower ofRat fuel t out k
    lowerTerms ofRat fuel ts out k (b.append x)
end

/-- first tensor dimension addressed by each index: `index_dimensions(assignment)` -/
def indexDimensions (a : Alg.DAssign) : List (String × String × Nat) :=
  let ofTensor (name : String) (idx : List String) (acc : List (String × String × Nat)) :=
    (List.range idx.length).foldl (fun acc d =>
      let i := idx.getD d ""
      if acc.any (·.1 == i) then acc else acc ++ [(i, name, d)]) acc
  let rec go : Alg.DExpr → List (String × String × Nat) → List (String × String × Nat)
    | .int _, acc => acc
    | .flt _, acc => acc
    | .tensor _ n idx, acc => ofTensor n idx acc
    | .add l r, acc => go r (go l acc)
    | .mul l r, acc => go r (go l acc)
    | .contract _ e, acc => go e acc
  go a.rhs (ofTensor a.tname a.tidx [])

/-- `generate_ir(definition, graph, kernel_type)` -/
def generateIr (ofRat : Rat → F) (cap : Option Int) (a : Alg.DAssign) (formats : Formats) (g : IGraph) (k : Kind) :
    Except GenErr (Func F) := do
  let outT : TensorId := (tensorId 0 a.tname formats a.tidx).getD default
  let b : SB F := SB.empty
  let dims : List (Stmt F) := (indexDimensions a).map fun (i, name, d) =>
    declAssignE (dimName i) .int (.idx (.attr (.var name) "dimensions") (.intLit d))
  let b := b.add (.block dims (some "Extract dimensions"))
  let unpack : List (Stmt F) := formats.flatMap fun (name, modes, _) =>
    ((List.range modes.length).flatMap fun i =>
      if modes.getD i .dense == .compressed then
        [declAssignE (posName name i) (.ptr .int) (.idx (.idx (.attr (.var name) "indices") (.intLit i)) (.intLit 0)),
         declAssignE (crdName name i) (.ptr .int) (.idx (.idx (.attr (.var name) "indices") (.intLit i)) (.intLit 1))]
      else []) ++ [declAssignE (valsName name) (.ptr .float) (.attr (.var name) "vals")]
  let b := b.add (.block unpack (some "Unpack tensors"))
  let b := b.append (appendDeclarations cap outT k)
  let body ← lower ofRat (4 * g.size + 8) g (.append outT 0) k
  let b := b.append body
  let b := b.append (appendCleanup outT k)
  let b := b.add (.ret (.intLit 0))
  pure ⟨k.name, formats.map fun (n, _, _) => (n, .ptr .tensor), .int, b.finalize⟩

end TV.Gen
