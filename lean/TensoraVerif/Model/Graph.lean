import TensoraVerif.Model.Algebra

/-
M4 (part): identifiable expressions at the terminals of iteration graphs, `exhaust_tensor`
(iteration_graph/identifiable_expression/_exhaust_tensor.py) and `extract_context`
(…/_extract_context.py): the algebra that decides which loops are sparse (C16), which branch of
the co-iteration lattice is taken, and when a terminal counts as a written value (C03).
-/
namespace TV.Graph

inductive Mode where
  | dense | compressed
  deriving DecidableEq, Repr, Inhabited

structure TensorId where
  id : String
  name : String
  indexes : List String
  modes : List Mode
  deriving DecidableEq, Repr, Inhabited

inductive IdExpr where
  | int (v : Int)
  | flt (v : Rat)
  | tensor (t : TensorId)
  | add (l r : IdExpr)
  | mul (l r : IdExpr)
  deriving DecidableEq, Repr, Inhabited

/-- does a tensor with this id occur? (`exhaust_tensor` returns the *same object* iff it does not) -/
def IdExpr.occurs (ref : String) : IdExpr → Bool
  | .int _ => false
  | .flt _ => false
  | .tensor t => t.id == ref
  | .add l r => l.occurs ref || r.occurs ref
  | .mul l r => l.occurs ref || r.occurs ref

def IdExpr.isZeroInt : IdExpr → Bool
  | .int 0 => true
  | _ => false

/-- `exhaust_tensor(self, reference)` -/
def exhaust : IdExpr → String → IdExpr
  | .int v, _ => .int v
  | .flt v, _ => .flt v
  | .tensor t, ref => if t.id == ref then .int 0 else .tensor t
  | .add l r, ref =>
    if !(l.occurs ref) && !(r.occurs ref) then .add l r
    else
      let l' := exhaust l ref
      let r' := exhaust r ref
      if l'.isZeroInt then r' else if r'.isZeroInt then l' else .add l' r'
  | .mul l r, ref =>
    if !(l.occurs ref) && !(r.occurs ref) then .mul l r
    else
      let l' := exhaust l ref
      let r' := exhaust r ref
      if l'.isZeroInt || r'.isZeroInt then .int 0 else .mul l' r'

def exhaustAll (e : IdExpr) (refs : List String) : IdExpr := refs.foldl exhaust e

structure Leaf where
  tensor : TensorId
  layer : Nat
  deriving DecidableEq, Repr, Inhabited

structure Context where
  isSparse : Bool
  sparseLeaves : List Leaf
  denseLeaves : List Leaf
  deriving DecidableEq, Repr, Inhabited

def Context.add (a b : Context) : Context :=
  ⟨a.isSparse && b.isSparse, a.sparseLeaves ++ b.sparseLeaves, a.denseLeaves ++ b.denseLeaves⟩
def Context.mul (a b : Context) : Context :=
  ⟨a.isSparse || b.isSparse, a.sparseLeaves ++ b.sparseLeaves, a.denseLeaves ++ b.denseLeaves⟩

/-- `extract_context(self, index)` (the `indexes` field, which is only bookkeeping for later
indexes, is omitted) -/
def extractContext : IdExpr → String → Context
  | .int v, _ => ⟨v == 0, [], []⟩
  | .flt v, _ => ⟨v == 0, [], []⟩
  | .tensor t, i =>
    match t.indexes.findIdx? (· == i) with
    | none => ⟨false, [], []⟩
    | some l =>
      if t.modes.getD l .dense = .dense then ⟨false, [], [⟨t, l⟩]⟩ else ⟨true, [⟨t, l⟩], []⟩
  | .add l r, i => (extractContext l i).add (extractContext r i)
  | .mul l r, i => (extractContext l i).mul (extractContext r i)

/-- value of an expression when each tensor occurrence `id` has the value `ρ id` at the current
coordinates -/
def value (ρ : String → Rat) : IdExpr → Rat
  | .int v => v
  | .flt v => v
  | .tensor t => ρ t.id
  | .add l r => value ρ l + value ρ r
  | .mul l r => value ρ l * value ρ r

/-- structural presence at the current coordinates: tensors by membership in `present`, products
need both, sums either, literals are present everywhere (the reading of C03) -/
def presentStruct (present : String → Bool) : IdExpr → Bool
  | .int _ => true
  | .flt _ => true
  | .tensor t => present t.id
  | .add l r => presentStruct present l || presentStruct present r
  | .mul l r => presentStruct present l && presentStruct present r

end TV.Graph
