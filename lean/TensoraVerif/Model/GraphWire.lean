import TensoraVerif.Model.Sexp
import TensoraVerif.Model.AlgebraWire
import TensoraVerif.Model.Graph

/-! Wire format for identifiable expressions (driver only). -/
namespace TV.Graph.Wire
open TV

def modeOf : Sexp → Option Mode
  | .list [.atom "Mode", .atom "dense"] => some .dense
  | .list [.atom "Mode", .atom "compressed"] => some .compressed
  | _ => none

def modeToSexp : Mode → Sexp
  | .dense => Sexp.mk "Mode" [.atom "dense"]
  | .compressed => Sexp.mk "Mode" [.atom "compressed"]

partial def idExprOf : Sexp → Option IdExpr
  | .list [.atom "Integer", v] => v.toInt?.map .int
  | .list [.atom "Float", q] => (Alg.Wire.ratOf q).map .flt
  | .list [.atom "Tensor", .str id, .str n, idx, .list (.atom "list" :: ms)] => do
    pure (.tensor ⟨id, n, ← Alg.Wire.strsOf idx, ← ms.mapM modeOf⟩)
  | .list [.atom "Add", l, r] => do pure (.add (← idExprOf l) (← idExprOf r))
  | .list [.atom "Multiply", l, r] => do pure (.mul (← idExprOf l) (← idExprOf r))
  | _ => none

partial def idExprToSexp : IdExpr → Sexp
  | .int v => Sexp.mk "Integer" [Sexp.ofInt v]
  | .flt v => Sexp.mk "Float" [Alg.Wire.ratToSexp v]
  | .tensor t => Sexp.mk "Tensor" [.str t.id, .str t.name, .list (.atom "list" :: t.indexes.map .str),
      .list (.atom "list" :: t.modes.map modeToSexp)]
  | .add l r => Sexp.mk "Add" [idExprToSexp l, idExprToSexp r]
  | .mul l r => Sexp.mk "Multiply" [idExprToSexp l, idExprToSexp r]

def leafToSexp (l : Leaf) : Sexp := .list [.str l.tensor.id, Sexp.ofNat l.layer]

def contextToSexp (c : Context) : Sexp :=
  Sexp.mk "Context" [Sexp.ofBool c.isSparse, .list (c.sparseLeaves.map leafToSexp), .list (c.denseLeaves.map leafToSexp)]

end TV.Graph.Wire
