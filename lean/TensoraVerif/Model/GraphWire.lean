import TensoraVerif.Model.Sexp
import TensoraVerif.Model.AlgebraWire
import TensoraVerif.Model.Graph
import TensoraVerif.Model.IterGraph

/-! Wire format for identifiable expressions (driver only). -/
namespace TV.Graph.Wire
open TV

def modeOf : Sexp → Option Mode
  | .list [.atom "Mode", .atom "dense"] => some .dense
  | .list [.atom "Mode", .atom "compressed"] => some .compressed
  | _ => none

def modeToSexp : Mode → Sexp
  | .dense => Sexp.mk "Mode" [.atom "dense"]
  | .compressed => Sexp.mk "Mode" [.atom "compressed"]

partial def idExprOf : Sexp → Option IdExpr
  | .list [.atom "Integer", v] => v.toInt?.map .int
  | .list [.atom "Float", q] => (Alg.Wire.ratOf q).map .flt
  | .list [.atom "Tensor", .str id, .str n, idx, .list (.atom "list" :: ms)] => do
    pure (.tensor ⟨id, n, ← Alg.Wire.strsOf idx, ← ms.mapM modeOf⟩)
  | .list [.atom "Add", l, r] => do pure (.add (← idExprOf l) (← idExprOf r))
  | .list [.atom "Multiply", l, r] => do pure (.mul (← idExprOf l) (← idExprOf r))
  | _ => none

partial def idExprToSexp : IdExpr → Sexp
  | .int v => Sexp.mk "Integer" [Sexp.ofInt v]
  | .flt v => Sexp.mk "Float" [Alg.Wire.ratToSexp v]
  | .tensor t => Sexp.mk "Tensor" [.str t.id, .str t.name, .list (.atom "list" :: t.indexes.map .str),
      .list (.atom "list" :: t.modes.map modeToSexp)]
  | .add l r => Sexp.mk "Add" [idExprToSexp l, idExprToSexp r]
  | .mul l r => Sexp.mk "Multiply" [idExprToSexp l, idExprToSexp r]

def leafToSexp (l : Leaf) : Sexp := .list [.str l.tensor.id, Sexp.ofNat l.layer]

def contextToSexp (c : Context) : Sexp :=
  Sexp.mk "Context" [Sexp.ofBool c.isSparse, .list (c.sparseLeaves.map leafToSexp), .list (c.denseLeaves.map leafToSexp)]

partial def graphToSexp : IGraph → Sexp
  | .terminal e => Sexp.mk "T" [idExprToSexp e]
  | .iter i o n => Sexp.mk "I" [.str i, (match o with | some l => leafToSexp l | none => .atom "nil"), graphToSexp n]
  | .sum ts => Sexp.mk "S" (ts.map graphToSexp)

def formatsOf (s : Sexp) : Option Formats := do
  (← s.toList?).mapM fun nf => match nf with
    | .list [.str n, .str ms, o] => do
      let modes ← ms.toList.mapM fun c => if c == 'd' then some Mode.dense else if c == 's' then some Mode.compressed else none
      pure (n, modes, ← o.toNats?)
    | _ => none

end TV.Graph.Wire
